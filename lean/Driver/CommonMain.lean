import Model.Common.Proto
import Model.Common.HashProto
open Btc

/-- line protocol for the shared primitives (hashes, EC arithmetic): see harness/shared.py -/
def handle (toks : List String) : String :=
  match hashOp toks with
  | some r => r
  | none => "bad-op"

def main : IO Unit := runLoop handle
