import Model.Common.Proto
import Model.Common.ECProto
import Model.C01.Proto
import Generated.Curves
import Generated.C01Glv
open Btc

/-- line protocol of property C01: see harness/c01.py -/
def handle (args : List String) : String :=
  match args with
  | "gen" :: "C01Glv" :: fn :: rest => (Gen.C01Glv.dispatch fn rest).getD "bad-op"
  | _ =>
  match Btc.EC.ecOp args with
  | some r => r
  | none =>
    match Btc.C01.c01Op args with
    | some r => r
    | none => "bad-op"

def main : IO Unit := runLoop handle
