import Model.Common.Proto
import Model.C11.Combine
import Model.C11.Roles
import Model.C11.Wire
import Model.C11.Signed
import Generated.Combine
open Btc Btc.C11

/-! line protocol of property C11: see harness/c11.py

psbt token:  `<version>;<nIn>;<nOut>;<entry>,<entry>,…`   entry `<g|i|o><idx>.<field>=<slot>`
slot:        `N` | `i<int>` | `b<hex>` | `o<hex>` | `d<key>:<val>|<key>:<val>…`   (val: `i…`/`b…`/`o…`)
-/

def hexOf (b : Bytes) : String := if b.isEmpty then "" else toHex b
def unhex? (s : String) : Option Bytes := if s.isEmpty then some [] else fromHex? s

def parseVal? (s : String) : Option Val :=
  match s.toList with
  | 'i' :: r => (parseInt? (String.ofList r)).map .int
  | 'b' :: r => (unhex? (String.ofList r)).map .bytes
  | 'o' :: r => (unhex? (String.ofList r)).map .obj
  | _ => none

def renderVal : Val → String
  | .int n => s!"i{n}"
  | .bytes b => "b" ++ hexOf b
  | .obj b => "o" ++ hexOf b

def parseSlot? (s : String) : Option Slot :=
  match s.toList with
  | ['N'] => some (.scalar none)
  | 'd' :: r =>
    let body := String.ofList r
    if body.isEmpty then some (.dict []) else
    (body.splitOn "|").foldl (fun acc kv => do
      let m ← acc
      match kv.splitOn ":" with
      | [k, v] => do
        let k ← k.toNat?
        let v ← parseVal? v
        pure (dinsert k v m)
      | _ => none) (some []) |>.map .dict
  | _ => (parseVal? s).map fun v => .scalar (some v)

def renderSlot : Slot → String
  | .scalar none => "N"
  | .scalar (some v) => renderVal v
  | .dict m => "d" ++ "|".intercalate (m.map fun kv => s!"{kv.1}:{renderVal kv.2}")

def parseLoc? (s : String) : Option Loc :=
  match s.splitOn "." with
  | [a, name] =>
    match a.toList with
    | c :: r => do
      let idx ← (String.ofList r).toNat?
      let sec ← (if c == 'g' then some Sec.glob else if c == 'i' then some Sec.inp else if c == 'o' then some Sec.out else none)
      pure ⟨sec, idx, name⟩
    | _ => none
  | _ => none

def parsePsbt? (s : String) : Option Psbt :=
  match s.splitOn ";" with
  | [v, ni, no, body] => do
    let v ← v.toNat?
    let ni ← ni.toNat?
    let no ← no.toNat?
    let entries ← (if body.isEmpty then some [] else
      (body.splitOn ",").foldl (fun acc e => do
        let m ← acc
        match e.splitOn "=" with
        | [l, sl] => do
          let l ← parseLoc? l
          let sl ← parseSlot? sl
          pure ((l, sl) :: m)
        | _ => none) (some ([] : List (Loc × Slot))))
    pure ⟨v, ni, no, fun l => match entries.find? (fun e => e.1 == l) with
      | some e => e.2
      | none => .scalar none⟩
  | _ => none

def secChar : Sec → String
  | .glob => "g" | .inp => "i" | .out => "o"

def renderPsbt (p : Psbt) : String :=
  let sect (s : Sec) (i : Nat) : List String :=
    (fieldsOf s).map fun f => s!"{secChar s}{i}.{f.name}={renderSlot (p.slot ⟨s, i, f.name⟩)}"
  let es := sect .glob 0 ++ (List.range p.nIn).flatMap (sect .inp) ++ (List.range p.nOut).flatMap (sect .out)
  s!"{p.version};{p.nIn};{p.nOut};" ++ ",".intercalate es

def renderErr : Err → String
  | .value => "err value"
  | .index => "err index"

def renderRes : Except Err Psbt → String
  | .ok p => "ok " ++ renderPsbt p
  | .error e => renderErr e

/-- `( a b ( c d ) )`: a parenthesised group is a nested `combine`. `none` on the stack is an open paren. -/
def evalExpr (toks : List String) : Option (Except Err Psbt) :=
  let popGroup (st : List (Option Psbt)) : Option (List Psbt × List (Option Psbt)) :=
    let grp := st.takeWhile (·.isSome)
    match st.drop grp.length with
    | none :: rest => some ((grp.filterMap id).reverse, rest)
    | _ => none
  let r := toks.foldl (fun (acc : Option (Except Err (List (Option Psbt)))) tok =>
    match acc with
    | none => none
    | some (.error e) => some (.error e)
    | some (.ok st) =>
      if tok == "(" then some (.ok (none :: st))
      else if tok == ")" then
        match popGroup st with
        | none => none
        | some (grp, rest) =>
          match combine grp with
          | .ok p => some (.ok (some p :: rest))
          | .error e => some (.error e)
      else match parsePsbt? tok with
        | some p => some (.ok (some p :: st))
        | none => none) (some (.ok []))
  match r with
  | some (.ok [some p]) => some (.ok p)
  | some (.error e) => some (.error e)
  | _ => none

def renderUTx (u : UTx) : String :=
  s!"ok ver={renderSlot u.txVersion} lock={u.lockTime} vin=" ++
    ",".intercalate (u.vin.map fun x => s!"{renderSlot x.1}:{x.2.1}:{x.2.2}") ++ " vout=" ++
    ",".intercalate (u.vout.map fun x => s!"{x.1}:{hexOf x.2}")


/-- `v<i>.<field>.<key>:<n>,…` (or a bare `v`): a table (input, field, key) ↦ number -/
def parseTable? (s : String) : Option (List ((Nat × String × Nat) × Nat)) :=
  match s.toList with
  | _ :: r =>
    let body := String.ofList r
    if body.isEmpty then some [] else
    (body.splitOn ",").foldl (fun acc e => do
      let m ← acc
      match e.splitOn ":" with
      | [k, v] =>
        match k.splitOn "." with
        | [i, f, key] => do
          let i ← i.toNat?
          let key ← key.toNat?
          let v ← v.toNat?
          pure (((i, f, key), v) :: m)
        | _ => none
      | _ => none) (some [])
  | [] => none

def tableGet (t : List ((Nat × String × Nat) × Nat)) (i : Nat) (f : String) (k : Nat) : Option Nat :=
  (t.find? fun e => e.1 == (i, f, k)).map (·.2)

/-- the wire form of a version 0 psbt: its transaction, then the fields its maps write -/
def renderWire (p : Psbt) (w : WireV0) : String :=
  let sect (s : Sec) (i : Nat) : List String :=
    ((fieldsOf s).filter fun f => !f.v2only).map fun f => s!"{secChar s}{i}.{f.name}={renderSlot (w.slot ⟨s, i, f.name⟩)}"
  let es := sect .glob 0 ++ (List.range p.nIn).flatMap (sect .inp) ++ (List.range p.nOut).flatMap (sect .out)
  renderUTx w.tx ++ " maps=" ++ ",".intercalate es

def handle' : List String → String
  | "gen" :: "Combine" :: fn :: args => (Gen.Combine.dispatch fn args).getD "bad-op"
  | "combine" :: toks =>
    match evalExpr toks with
    | some r => renderRes r
    | none => "bad-op"
  | ["tx", p, forId] =>
    match parsePsbt? p with
    | some p => match unsignedTx p (forId == "1") with
      | .ok u => renderUTx u
      | .error e => renderErr e
    | none => "bad-op"
  | ["sigonly", a, b] =>
    match parsePsbt? a, parsePsbt? b with
    | some a, some b => if sigOnly a b then "ok" else "err value"
    | _, _ => "bad-op"
  | ["tov0", p] =>
    match parsePsbt? p with
    | some p => renderRes (toV0 p)
    | none => "bad-op"
  | ["tov2", p] =>
    match parsePsbt? p with
    | some p => renderRes (.ok (toV2 p))
    | none => "bad-op"
  | ["wirev0", p] =>
    match parsePsbt? p with
    | some p => match writeV0 p with
      | .ok w => renderWire p w
      | .error e => renderErr e
    | none => "bad-op"
  | ["readv0", p] =>
    match parsePsbt? p with
    | some p => renderRes (wireRoundTrip p)
    | none => "bad-op"
  | ["asigonly", a, b, t] =>
    match parsePsbt? a, parsePsbt? b, parseTable? t with
    | some a, some b, some t =>
      if assertSignaturesOnly (fun _ i f k _ => tableGet t i f k == some 1) a b then "ok" else "err value"
    | _, _, _ => "bad-op"
  | ["asigned", ap, p, t] =>
    match parsePsbt? p, parseTable? t with
    | some p, some t =>
      if assertSigned (fun _ i f k _ => tableGet t i f k == some 1) (ap == "1") p then "ok" else "err value"
    | _, _ => "bad-op"
  | ["newsigners", a, b, t] =>
    match parsePsbt? a, parsePsbt? b, parseTable? t with
    | some a, some b, some t =>
      match newSigners (fun _ i f k => tableGet t i f k) a b with
      | .ok s => "ok " ++ ",".intercalate (s.map toString)
      | .error e => renderErr e
    | _, _, _ => "bad-op"
  | _ => "bad-op"

/-- a trailing `#…` token is the harness's replay payload: not the model's business -/
def handle (toks : List String) : String := handle' (toks.filter fun t => !t.startsWith "#")

def main : IO Unit := runLoop handle
