import Model.Common.Proto
import Model.Common.HashProto
import Model.C13.Gf256
import Model.C13.Shamir
import Model.C13.Bits
import Model.C13.Bip39
import Model.C13.Slip39
import Model.C13.Generate
import Model.C13.Dispatch
import Model.C13.Entry
import Model.C13.ElectrumOld
import Model.C13.ElectrumSearch
import Generated.Slip39
import Generated.Mnemonic
open Btc Btc.C13

/-- line protocol of property C13: see harness/c13.py -/

def natList? (s : String) : Option (List Nat) :=
  if s == "_" then some [] else (s.splitOn ",").mapM (·.toNat?)

def showNats (l : List Nat) : String :=
  if l.isEmpty then "_" else ",".intercalate (l.map toString)

def bits? (s : String) : Option Bits :=
  if s == "_" then some [] else
  s.toList.mapM fun c => if c == '0' then some false else if c == '1' then some true else none

def showBits (b : Bits) : String :=
  if b.isEmpty then "_" else String.ofList (b.map fun x => if x then '1' else '0')

def bool? (s : String) : Option Bool :=
  if s == "1" then some true else if s == "0" then some false else none

def gfVec (b : Bytes) : List GF256 := b.map GF256.ofByte
def gfBytes (v : List GF256) : Bytes := v.map GF256.toByte

/-- `x:hex` -/
def point? (s : String) : Option (GF256 × List GF256) :=
  match s.splitOn ":" with
  | [x, h] => do
    let x ← x.toNat?
    let b ← fromHex? h
    if x < 256 then some (GF256.ofNat x, gfVec b) else none
  | _ => none

def okHexList (l : List Bytes) : String := "ok " ++ " ".intercalate (l.map toHex)

def share? : List String → Option ByteShare
  | [id, ext, e, gi, gt, g, mi, mt, v] => do
    some { identifier := ← id.toNat?, extendable := ← bool? ext, iterationExponent := ← e.toNat?,
           groupIndex := ← gi.toNat?, groupThreshold := ← gt.toNat?, groupCount := ← g.toNat?,
           memberIndex := ← mi.toNat?, memberThreshold := ← mt.toNat?, value := ← fromHex? v }
  | _ => none

def showShare (s : ByteShare) : String :=
  s!"{s.identifier} {if s.extendable then 1 else 0} {s.iterationExponent} {s.groupIndex} {s.groupThreshold} " ++
  s!"{s.groupCount} {s.memberIndex} {s.memberThreshold} {toHex s.value}"

def hmac256 : Bytes → Bytes → Bytes := hmacSha256

def handle (toks : List String) : String :=
  match hashOp toks with
  | some r => r
  | none =>
  match toks with
  | "gen" :: "Slip39" :: fn :: args => (Gen.Slip39.dispatch fn args).getD "bad-op"
  | "gen" :: "Mnemonic" :: fn :: args => (Gen.Mnemonic.dispatch fn args).getD "bad-op"
  | ["gf.mul", a, b] =>
    match a.toNat?, b.toNat? with
    | some a, some b => if a < 256 ∧ b < 256 then s!"ok {tmul a b} {clmul a b}" else "bad-op"
    | _, _ => "bad-op"
  | ["gf.div", a, b] =>
    match a.toNat?, b.toNat? with
    | some a, some b => if a < 256 ∧ b < 256 then s!"ok {tdiv a b}" else "bad-op"
    | _, _ => "bad-op"
  | "slip39.interp" :: x :: pts =>
    match x.toNat?, pts.mapM point? with
    | some x, some pts => "ok " ++ toHex (gfBytes (interpolate gf256Ops pts (GF256.ofNat x)))
    | _, _ => "bad-op"
  | "slip39.split" :: t :: n :: secret :: rp :: rnd =>
    match t.toNat?, n.toNat?, fromHex? secret, fromHex? rp, rnd.mapM fromHex? with
    | some t, some n, some secret, some rp, some rnd =>
      let ds := digestWith hmac256 rp secret ++ rp
      match splitSecret gf256Ops t n (gfVec secret) (rnd.map gfVec) (gfVec ds) with
      | .ok shares => okHexList (shares.map gfBytes)
      | .error _ => "err value"
    | _, _, _, _, _ => "bad-op"
  | "slip39.recover" :: t :: pts =>
    match t.toNat?, pts.mapM point? with
    | some t, some pts =>
      match recoverSecret gf256Ops (digestGF hmac256) t pts with
      | .ok s => "ok " ++ toHex (gfBytes s)
      | .error _ => "err value"
    | _, _ => "bad-op"
  | ["slip39.polymod", vs] =>
    match natList? vs with
    | some vs => s!"ok {polymod vs}"
    | none => "bad-op"
  | ["slip39.checksum", ext, idx] =>
    match bool? ext, natList? idx with
    | some ext, some idx => "ok " ++ showNats (rsChecksum idx ext)
    | _, _ => "bad-op"
  | ["slip39.verify", ext, idx] =>
    match bool? ext, natList? idx with
    | some ext, some idx => if rsVerify idx ext then "ok True" else "ok False"
    | _, _ => "bad-op"
  | "slip39.encode" :: rest =>
    match share? rest with
    | some s => match shareIndexes s with
      | some idx => "ok " ++ showNats idx
      | none => "err value"
    | none => "bad-op"
  | ["slip39.decode", idx] =>
    match natList? idx with
    | some idx => match shareFromIndexes idx with
      | .ok s => "ok " ++ showShare s
      | .error _ => "err value"
    | none => "bad-op"
  | ["slip39.feistel", dir, pass, e, id, ext, payload] =>
    match bool? dir, fromHex? pass, e.toNat?, id.toNat?, bool? ext, fromHex? payload with
    | some dec, some pass, some e, some id, some ext, some payload =>
      -- hashlib.pbkdf2_hmac refuses dklen = 0 (ValueError): an empty right half is not a call the model's PBKDF2 errs on
      if payload.isEmpty then "err foreign" else
      match feistel (roundFunction pass e id ext) payload dec with
      | some r => "ok " ++ toHex r
      | none => "err foreign"
    | _, _, _, _, _, _ => "bad-op"
  | ["slip39.master", pass, sentences] =>
    match fromHex? pass, (sentences.splitOn ";").mapM natList? with
    | some pass, some ss =>
      match masterSecretFromMnemonics hmac256 (fun e id ext => roundFunction pass e id ext) pass ss with
      | .ok ms => "ok " ++ toHex ms
      | .error _ => "err value"
    | _, _ => "bad-op"
  | ["entropy.to_idx", bits, base] =>
    match bits? bits, base.toNat? with
    | some bits, some base =>
      if base < 2 then "bad-op" else if bits.isEmpty then "err value" else "ok " ++ showNats (indexesFromBits bits base)
    | _, _ => "bad-op"
  | ["entropy.from_idx", idx, base] =>
    match natList? idx, base.toNat? with
    | some idx, some base => match bitsFromIndexes idx base with
      | some b => "ok " ++ showBits b
      | none => "err value"
    | _, _ => "bad-op"
  | ["bip39.idx", _lang, bits] =>
    match bits? bits with
    | some bits => match bip39Indexes sha256 bits with
      | some idx => "ok " ++ showNats idx
      | none => "err value"
    | none => "bad-op"
  | ["bip39.entropy", _lang, idx] =>
    match natList? idx with
    | some idx => match bip39Entropy sha256 idx with
      | some b => "ok " ++ showBits b
      | none => "err value"
    | none => "bad-op"
  | ["bip39.seed", sentence, pass] =>
    match fromHex? sentence, fromHex? pass with
    | some s, some p => "ok " ++ toHex (bip39Seed s p)
    | _, _ => "bad-op"
  | ["electrum.seed", sentence, pass, _orig, _origPass] =>
    match fromHex? sentence, fromHex? pass with
    | some s, some p => "ok " ++ toHex (electrumSeed s p)
    | _, _ => "bad-op"
  | ["electrum.type", isOld, sentence, nwords, _orig] =>
    match bool? isOld, fromHex? sentence, nwords.toNat? with
    | some o, some s, some n =>
      let t := mnemonicType o (seedVersion hmacSha512 s) n
      if t.isEmpty then "err value" else "ok " ++ t
    | _, _, _ => "bad-op"
  | ["electrum.search", typ, base, e, _lang, cands] =>
    -- cands: `flag:hexsentence` for the candidates e+1, e+2, … (what each sentence spells; everything else —
    -- indexes, BIP39 skip, HMAC digits, prefix, word count, read-back — is computed here)
    let cand? (s : String) : Option (Bool × Bytes) :=
      match s.splitOn ":" with
      | [f, h] => do some (← bool? f, ← fromHex? h)
      | _ => none
    match base.toNat?, e.toNat?, (cands.splitOn ";").mapM cand? with
    | some base, some e, some cs =>
      if base < 2 ∨ base > 2048 then "bad-op" else
      let arr := cs.toArray
      let isOld (c : Nat) : Bool := if c ≤ e then false else match arr[c - e - 1]? with
        | some (f, _) => f
        | none => false
      let digits (c : Nat) : List Nat := if c ≤ e then [] else match arr[c - e - 1]? with
        | some (_, s) => seedVersion hmacSha512 s
        | none => []
      match electrumGenerate sha256 isOld digits base typ arr.size e with
      | .ok c => s!"ok {c} " ++ showNats (electrumIndexes c base)
      | .error .fuel => "err fuel"
      | .error _ => "err value"
    | _, _, _ => "bad-op"
  | ["electrum.isbip39", idx, base, _lang] =>
    match natList? idx, base.toNat? with
    | some idx, some base =>
      if base < 2 ∨ base > 2048 ∨ ¬ idx.all (· < base) then "bad-op"
      else if electrumIsBip39 sha256 idx base then "ok True" else "ok False"
    | _, _ => "bad-op"
  | ["electrum.old.enc", groups] =>
    match natList? groups with
    | some gs => "ok " ++ showNats (oldMnemonicIndexes Gen.Mnemonic.OLD_BASE gs)
    | none => "bad-op"
  | ["electrum.old.dec", idx] =>
    match natList? idx with
    | some idx =>
      if idx.all (· < Gen.Mnemonic.OLD_BASE) then
        match oldHexSeedGroups Gen.Mnemonic.OLD_BASE idx with
        | some gs => "ok " ++ String.join (gs.map hex08)
        | none => "err value"
      else "bad-op"
    | none => "bad-op"
  | ["electrum.idx", v, base, _lang] =>
    match v.toNat?, base.toNat? with
    | some v, some base => if base < 2 then "bad-op" else "ok " ++ showNats (electrumIndexes v base)
    | _, _ => "bad-op"
  | ["electrum.bits", idx, base, _lang] =>
    match natList? idx, base.toNat? with
    | some idx, some base => match electrumBits idx base with
      | some b => "ok " ++ showBits b
      | none => "err value"
    | _, _ => "bad-op"
  | ["dispatch.all", _lang, slip, el, nwords, known, idx, _sentence] =>
    match bool? slip, nwords.toNat?, bool? known, natList? idx with
    | some slip, some nw, some known, some idx =>
      let b := bip39SeedType sha256 nw known idx
      let all := allSeedTypes slip (if el == "-" then none else some el) b
      s!"ok {if b.isEmpty then "-" else b} {if all.isEmpty then "-" else ",".intercalate all} " ++
        (let t := seedType slip (if el == "-" then none else some el) b; if t.isEmpty then "-" else t)
    | _, _, _, _ => "bad-op"
  | "slip39.generate" :: secret :: pw :: idBytes :: ext :: e :: gt :: groups :: groupRp :: rest =>
    -- the whole of `mnemonics_from_master_secret` (entry checks, encryption, two-level split, codec) in the model;
    -- rest: one token per group-level random share, then per group `rp|rnd,rnd,…` (rp first)
    match fromHex? secret, fromHex? pw, fromHex? idBytes, bool? ext, e.toNat?, gt.toNat?, natList? groups,
        fromHex? groupRp with
    | some secret, some pw, some idb, some ext, some e, some gt, some gl, some grp =>
      let rec pairs : List Nat → List (Nat × Nat)
        | a :: b :: r => (a, b) :: pairs r
        | _ => []
      let groups := pairs gl
      let nGroupRnd := rest.length - groups.length
      let groupRnd := (rest.take nGroupRnd).mapM fromHex?
      let members := (rest.drop nGroupRnd).mapM fun tok =>
        match tok.splitOn "|" with
        | [rp, rnd] => do
          let rp ← fromHex? rp
          let rnd ← if rnd == "" then some [] else (rnd.splitOn ",").mapM fromHex?
          some (rp, rnd)
        | _ => none
      match groupRnd, members with
      | some groupRnd, some members =>
        let mRnd := fun g => ((members.getD g ([], [])).2).map gfVec
        let mRp := fun g => gfVec (members.getD g ([], [])).1
        match mnemonicsFromMasterSecret hmac256 (fun e id ext => roundFunction pw e id ext) pw secret groups gt e ext
            idb (groupRnd.map gfVec) (gfVec grp) mRnd mRp with
        | .error _ => "err value"
        | .ok sentences =>
          "ok " ++ ";".intercalate (sentences.map fun row => "/".intercalate (row.map showNats))
      | _, _ => "bad-op"
    | _, _, _, _, _, _, _, _ => "bad-op"
  | ["bip85.path", lang, words, index, _xprv] =>
    match words.toNat?, index.toNat? with
    | some w, some i => match bip85Bip39Path lang w i with
      | some p => "ok " ++ showNats p
      | none => "err value"
    | _, _ => "bad-op"
  | ["bip85.hex", key, n, _xprv, _index] =>
    match fromHex? key, n.toNat? with
    | some key, some n =>
      match bip85Hex hmacSha512 key n with
      | some b => "ok " ++ toHex b
      | none => "err value"
    | _, _ => "bad-op"
  | ["bip85.sized", fn, size, index] =>
    match size.toNat?, index.toNat? with
    | some size, some index =>
      match bip85SizedPath fn size index with
      | some p => "ok " ++ showNats p
      | none => "err value"
    | _, _ => "bad-op"
  | ["bip85.entropy", key, _xprv, _path] =>
    match fromHex? key with
    | some k => "ok " ++ toHex (bip85Entropy hmacSha512 k)
    | none => "bad-op"
  | ["bip85.bip39", key, words, _xprv, _lang, _index] =>
    match fromHex? key, words.toNat? with
    | some k, some w => match bip85Bip39Indexes hmacSha512 sha256 k w with
      | some idx => "ok " ++ showNats idx
      | none => "err value"
    | _, _ => "bad-op"
  | _ => "bad-op"

def main : IO Unit := runLoop handle
