import Model.Common.Proto
import Model.C20.Lifecycle
import Generated.Lifecycle
open Btc Btc.C20

/-!
Line protocol of property C20 (see harness/c20.py).  One line = one whole history on a fresh
object; the answer lists, per step, what the call returned and the observable state after it.

  nonce  <nonce-hex> <op>;…        op = P | S,ctx(1|v|r),rOdd,b,e,a,g,gacc,prv,pk-hex,inSet,sid  (sid: harness only)
  noncek <buf|view|frozen|text> <nonce-hex> <op>;…   as `nonce`, the caller holding the nonce in that spelling;
                                   op = P | S,… (musig2.sign) | Q,… (psbt.musig2.partial_sign), same fields
  signer <dsa|ssa> <delegated> <op>;…   op = S1 | S0 | W | E | X | F0 | F1 (backend flips: no-ops here)
  soft   <op>;…                    op = C | <method>:<argsOk>
  wallet <b,b,…> <b:i=tok,…> <op>;…   tok `!` = the subclass refuses the position, `~` = no address
                                   op = A:b:i | N:b | P:tok:last | I:tok | C:tok | L | K:tok
  memo   <maxsize> <op>;…          op = c<x> | clr      (f x = (x² + 7) mod 1009, key = x)
  backend <flag> <kinds> <op>;…    op = T1 | T0 (set True, bindings installed / not) | F | B1 | B0 | B2 (build an object for a
                                   served / unserved (ec, hf) / one unserved itself whose free path is served) | U<i> (use
                                   object i) | D<i> (a use that makes it let go of its bindings object) | C1 | C2 | C0 (free call: served / only at
                                   inner sites / nowhere); <kinds> names the real classes built (harness only);
                                   the arms answer "C" / "P": what is compared is WHICH arm answers (bindings called or not)
  backendfree <flag> <fn> <op>;…   op = T1 | T0 | F | C1 | C2 | C0: `Backend.run` itself, against the free dispatching
                                   function <fn> of btclib (harness only)
-/

def b01 (s : String) : Option Bool := if s == "1" then some true else if s == "0" then some false else none
def bit (b : Bool) : String := if b then "1" else "0"
def ops (s : String) : List String := if s == "_" then [] else s.splitOn ";"

/-! nonce -/
def parseNonceOp (s : String) : Option NonceOp :=
  match s.splitOn "," with
  | ["P"] => some .peek
  | ["S", c, r, b, e, a, g, gacc, prv, pk, ins, _sid] | ["Q", c, r, b, e, a, g, gacc, prv, pk, ins, _sid] => do
    let (c, ce) ← (match c with
      | "1" => some (true, Err.value) | "v" => some (false, Err.value) | "r" => some (false, Err.runtime)
      | _ => none)
    let r ← b01 r
    let b ← parseInt? b; let e ← parseInt? e; let a ← parseInt? a; let g ← parseInt? g
    let gacc ← parseInt? gacc; let prv ← parseInt? prv; let pk ← fromHex? pk; let ins ← b01 ins
    pure (.sign ⟨c, ce, r, b, e, a, g, gacc, prv, pk, ins⟩)
  | _ => none

def renderNonceOut : NonceOut → String
  | .sig s => "sig:" ++ toHex s
  | .err e => "err:" ++ e.name
  | .bytes b => "bytes:" ++ toHex b

def nonceTrace : List NonceOp → Bytes → List String
  | [], _ => []
  | op :: rest, n =>
    let (n', o) := Nonce.step op n
    (renderNonceOut o ++ "@" ++ toHex n') :: nonceTrace rest n'

/-- every spelling, both levels: `S,…` goes through `musig2.sign`, `Q,…` through `psbt.musig2.partial_sign`. -/
def nonceKTrace (kind : NonceKind) : List String → Bytes → Option (List String)
  | [], _ => some []
  | tok :: rest, n => do
    let op ← parseNonceOp tok
    match op with
    | .peek =>
      let r ← nonceKTrace kind rest n
      pure (("bytes:" ++ toHex n ++ "@" ++ toHex n) :: r)
    | .sign x =>
      let res := if tok.startsWith "Q" then Nonce.partialSign kind x n else Nonce.signK kind x n
      let r ← nonceKTrace kind rest res.1
      let o := match res.2 with
        | .ok s => "sig:" ++ toHex s
        | .error e => "err:" ++ e.name
      pure ((o ++ "@" ++ toHex res.1) :: r)

/-! signer -/
def parseSignerOp (s : String) : Option (Option SignerOp) :=
  match s with
  | "S1" => some (some (.sign true)) | "S0" => some (some (.sign false))
  | "W" => some (some .wipe) | "E" => some (some .enter) | "X" => some (some .exit)
  | "F0" => some none | "F1" => some none
  | _ => none

def renderSignerOut : SignerOut → String
  | .sig => "sig" | .none_ => "none" | .self_ => "self" | .err e => "err:" ++ e.name

def renderSigner (s : Signer) : String := s!"w{bit s.wiped}k{bit s.keyObj}s{bit s.scalar}"

def signerTrace (c : SignerCode) : List (Option SignerOp) → Signer → List String
  | [], _ => []
  | none :: rest, s => ("none@" ++ renderSigner s) :: signerTrace c rest s
  | some op :: rest, s =>
    let (s', o) := Signer.step c op s
    (renderSignerOut o ++ "@" ++ renderSigner s') :: signerTrace c rest s'

/-! software signer -/
def parseSoftOp (s : String) : Option SoftOp :=
  match s.splitOn ":" with
  | ["C"] => some .close
  | [m, ok] => (b01 ok).map (SoftOp.call m)
  | _ => none

def renderSoftOut : SoftOut → String
  | .answer => "answer" | .none_ => "none" | .err e => "err:" ++ e.name

def softTrace : List SoftOp → SoftSigner → List String
  | [], _ => []
  | op :: rest, s =>
    let (s', o) := SoftSigner.step op s
    (renderSoftOut o ++ "@c" ++ bit s'.closed) :: softTrace rest s'

/-! wallet -/
def parseTable (s : String) : Option (List ((Int × Nat) × String)) :=
  (if s == "_" then [] else s.splitOn ",").mapM fun e =>
    match e.splitOn "=" with
    | [p, tok] => match p.splitOn ":" with
      | [b, i] => do
        let b ← parseInt? b
        let i ← i.toNat?
        pure ((b, i), tok)
      | _ => none
    | _ => none

def tableSource (branches : List Int) (t : List ((Int × Nat) × String)) : Source String :=
  { branches := branches
    addr := fun b i => match t.lookup (b, i) with
      | some "!" => none
      | some tok => some tok
      | none => none
    isEmpty := fun a => a == "~" }

def parseWalletOp (s : String) : Option (WalletOp String) :=
  match s.splitOn ":" with
  | ["A", b, i] => do pure (.address (← parseInt? b) (← parseInt? i))
  | ["N", b] => do pure (.next (← parseInt? b))
  | ["P", tok, last] => do pure (.positionOf tok (← last.toNat?))
  | ["I", tok] => some (.info tok)
  | ["C", tok] => some (.contains tok)
  | ["L"] => some .len
  | ["K", tok] => some (.add (if tok == "!" then none else some tok))
  | _ => none

def renderOptInt : Option Int → String
  | some i => toString i
  | none => "-"
def renderInfo (i : Info) : String := renderOptInt i.branch ++ "." ++ renderOptInt i.index

def renderWalletOut : WalletOut String → String
  | .addr a => "addr:" ++ a
  | .err e => "err:" ++ e.name
  | .pos (some (b, i)) => s!"pos:{b}.{i}"
  | .pos none => "pos:none"
  | .info i => "info:" ++ renderInfo i
  | .bool v => "bool:" ++ bit v
  | .nat n => s!"nat:{n}"

def renderWallet (branches : List Int) (w : Wallet String) : String :=
  ",".intercalate (w.ledger.map fun p => p.1 ++ "/" ++ renderInfo p.2) ++ "#" ++
  ",".intercalate (branches.map fun b => s!"{b}={w.next b}")

def walletTrace (src : Source String) : List (WalletOp String) → Wallet String → List String
  | [], _ => []
  | op :: rest, w =>
    let (w', o) := Wallet.step src op w
    (renderWalletOut o ++ "@" ++ renderWallet src.branches w') :: walletTrace src rest w'

/-! memo: the LRU instance against functools.lru_cache -/
def memoF (x : Int) : Int := (x * x + 7) % 1009

def memoTrace (maxsize : Nat) : List String → Lru Int Int → Option (List String)
  | [], _ => some []
  | "clr" :: rest, _ => do
    let r ← memoTrace maxsize rest ⟨[], 0, 0⟩
    pure ("none@h0m0s0" :: r)
  | op :: rest, s =>
    match op.toList with
    | 'c' :: ds => do
      let x ← parseInt? (String.ofList ds)
      let (s', v) := Lru.call memoF id maxsize x s
      let r ← memoTrace maxsize rest s'
      pure (s!"{v}@h{s'.hits}m{s'.misses}s{s'.cache.length}" :: r)
    | _ => none

/-! backend flag; objects holding a bindings object -/
def parseCapOp (s : String) : Option (CapOp Unit) :=
  match s.toList with
  | ['T', '1'] => some (.set true true) | ['T', '0'] => some (.set true false) | ['F'] => some (.set false true)
  | ['B', '1'] => some (.build true true) | ['B', '0'] => some (.build false false) | ['B', '2'] => some (.build false true)
  | ['C', '1'] => some (.call true ()) | ['C', '2'] => some (.call true ()) | ['C', '0'] => some (.call false ())
  | 'U' :: ds => (String.ofList ds).toNat?.map fun i => .use i ()
  | 'D' :: ds => (String.ofList ds).toNat?.map fun i => .drop i ()
  | _ => none

def renderAns : Option (Except Err String) → String
  | none => "none"
  | some (.ok v) => v
  | some (.error e) => "err:" ++ e.name

def capTrace : List (CapOp Unit) → CapState → List String
  | [], _ => []
  | op :: rest, st =>
    let (st', o) := Cap.step (fun _ => "C") (fun _ => "P") op st
    (renderAns o ++ "@f" ++ bit st'.flag ++ "o" ++ String.join (st'.objs.map fun o => bit o.held)) :: capTrace rest st'

/-- the free-function machine of T5 (`Backend.run`): the argument is the class of (ec, hf), served or not. -/
def parseBackendOp (s : String) : Option (BackendOp Bool) :=
  match s with
  | "T1" => some (.set true true) | "T0" => some (.set true false) | "F" => some (.set false true)
  | "C1" => some (.call true) | "C2" => some (.call true) | "C0" => some (.call false)
  | _ => none

def out (r : Option (List String)) : String :=
  match r with
  | some l => "ok " ++ (if l.isEmpty then "_" else ";".intercalate l)
  | none => "bad-op"

def handle : List String → String
  | "gen" :: "Lifecycle" :: fn :: args => (Gen.Lifecycle.dispatch fn args).getD "bad-op"
  | ["nonce", hex, os] => out do
    let n ← fromHex? hex
    let l ← (ops os).mapM parseNonceOp
    pure (nonceTrace l n)
  | ["noncek", kind, hex, os] => out do
    let k ← (match kind with
      | "buf" => some NonceKind.buf | "view" => some .view | "frozen" => some .frozen | "text" => some .text
      | "bytes" => some .frozen | "roview" => some .frozen | "hex" => some .text
      | _ => none)
    let n ← fromHex? hex
    nonceKTrace k (ops os) n
  | ["signer", kind, del, os] => out do
    let c ← if kind == "dsa" then some dsaCode else if kind == "ssa" then some ssaCode else none
    let d ← b01 del
    let l ← (ops os).mapM parseSignerOp
    pure (signerTrace c l (Signer.init c d))
  | ["soft", os] => out do
    let l ← (ops os).mapM parseSoftOp
    pure (softTrace l SoftSigner.init)
  | ["wallet", bs, table, os] => out do
    let branches ← (bs.splitOn ",").mapM parseInt?
    let t ← parseTable table
    let l ← (ops os).mapM parseWalletOp
    pure (walletTrace (tableSource branches t) l Wallet.empty)
  | ["memo", m, os] => out do
    let maxsize ← m.toNat?
    memoTrace maxsize (ops os) ⟨[], 0, 0⟩
  | ["backend", f, _kinds, os] => out do   -- _kinds: which real classes the harness builds (no part of the model)
    let flag ← b01 f
    let l ← (ops os).mapM parseCapOp
    pure (capTrace l ⟨flag, []⟩)
  | ["backendfree", f, _fn, os] => out do
    let flag ← b01 f
    let l ← (ops os).mapM parseBackendOp
    pure ((Backend.run (fun _ : Bool => "C") (fun _ => "P") id l flag).map renderAns)
  | _ => "bad-op"

def main : IO Unit := runLoop handle
