import Model.Common.Proto
import Model.C14.Descsum
import Model.C14.Descriptor
import Model.C14.Scan
import Model.C14.Multipath
import Model.C14.Derive
import Model.C14.Normalize
import Model.C14.Musig
import Model.C14.Wallet
import Model.C14.CoreImport
import Model.C07.Instance
import Model.Common.Sha256
import Generated.Descsum
import Generated.Descriptor
open Btc

/-- line protocol of property C14: see harness/c14.py.
    text = comma separated code points (`_` empty); byte strings = hex (`_` empty). -/
def cps? (s : String) : Option (List Char) :=
  if s == "_" then some [] else (s.splitOn ",").mapM fun t => t.toNat?.map Char.ofNat

def cpsOut (l : List Char) : String :=
  if l.isEmpty then "_" else ",".intercalate (l.map fun c => toString c.toNat)

def natsOut (l : List Nat) : String :=
  if l.isEmpty then "_" else ",".intercalate (l.map toString)

def nats? (s : String) : Option (List Nat) :=
  if s == "_" then some [] else (s.splitOn ",").mapM String.toNat?

def bool? (s : String) : Option Bool :=
  if s == "1" then some true else if s == "0" then some false else none

/-- the key-atom oracle handed over by the harness (btclib's own verdicts on the atoms of the text):
    `x:<text>:<public text>` extended key, `p:<sec hex>` a point on the curve, `w:<text>:<sec hex>`
    a WIF, `a:<text>` an address; entries separated by `;`. -/
structure Table where
  x : List (List Char × List Char) := []
  p : List Bytes := []
  w : List (List Char × Bytes) := []
  a : List (List Char) := []

def Table.add (t : Table) (e : String) : Option Table :=
  match e.splitOn ":" with
  | ["x", k, v] => do let k ← cps? k; let v ← cps? v; pure { t with x := (k, v) :: t.x }
  | ["p", h] => do let b ← fromHex? h; pure { t with p := b :: t.p }
  | ["w", k, h] => do let k ← cps? k; let b ← fromHex? h; pure { t with w := (k, b) :: t.w }
  | ["a", k] => do let k ← cps? k; pure { t with a := k :: t.a }
  | _ => none

def table? (s : String) : Option Table :=
  if s == "_" then some {} else (s.splitOn ";").foldlM Table.add {}

def Table.oracle (t : Table) : Desc.KeyOracle where
  xkey k := t.x.lookup k
  validPub b := t.p.contains b
  wif k := t.w.lookup k
  validAddr k := t.a.contains k

open Desc in
def renderKey (k : Key) : String :=
  let o := match k.origin with
    | none => "-"
    | some o => toHex o.fp ++ "/" ++ natsOut o.path
  let a := match k.atom with
    | .pub sec x => s!"p:{toHex sec}:{if x then 1 else 0}"
    | .xkey t => s!"x:{cpsOut t}"
  let w := match k.wildcard with | none => "-" | some false => "0" | some true => "1"
  let h := match k.hard with | .h => "h" | .apos => "a"
  s!"K[o={o};a={a};p={natsOut k.path};w={w};h={h}]"

open Desc in
def renderKeys (ks : List Key) : String := "[" ++ " ".intercalate (ks.map renderKey) ++ "]"

open Desc in
def renderTree : Tree → String
  | .pk k => s!"pk({renderKey k})"
  | .multiA t ks s => s!"ma({t};{if s then 1 else 0};{renderKeys ks})"
  | .branch l r => "{" ++ renderTree l ++ "," ++ renderTree r ++ "}"
  | .ms n => s!"ms({cpsOut (Miniscript.toText n)})"

open Desc in
def renderD : D → String
  | .pk k => s!"pk({renderKey k})"
  | .pkh k => s!"pkh({renderKey k})"
  | .wpkh k => s!"wpkh({renderKey k})"
  | .combo k => s!"combo({renderKey k})"
  | .sh d => s!"sh({renderD d})"
  | .wsh d => s!"wsh({renderD d})"
  | .multi t ks s => s!"multi({t};{if s then 1 else 0};{renderKeys ks})"
  | .tr k none => s!"tr({renderKey k};-)"
  | .tr k (some t) => s!"tr({renderKey k};{renderTree t})"
  | .rawtr k => s!"rawtr({renderKey k})"
  | .addr a => s!"addr({cpsOut a})"
  | .raw s => s!"raw({toHex s})"
  | .ms n => s!"ms({cpsOut (Miniscript.toText n)})"

def pOut {α} (r : Desc.P α) (f : α → String) : String :=
  match r with
  | .ok v => "ok " ++ f v
  | .error .value => "err value"
  | .error .unsupported => "unsupported"

def segsOut (l : List (List Char)) : String := ";".intercalate (l.map cpsOut)

/-- rows `a,b;c;…` (one row per index, `-` an empty row), script ids are naturals. -/
def rows? (s : String) : Option (List (List Nat)) :=
  (s.splitOn ";").mapM fun r => if r == "-" then some [] else nats? r

/-- the executable environment: secp256k1 through the shared transcription of btclib's arithmetic (C01),
    the BIP32 instance of C07, SHA-256 / tagged hash / HASH256 of the shared layer. -/
def env : Desc.DEnv EC.Point :=
  { bip := Bip32.secpEnv, sha256 := sha256, tag := taggedHash, hash256 := hash256 }

/-- `pub=prv;pub=prv` (texts as code points), `_` empty -/
def prv? (s : String) : Option Desc.PrvKeys :=
  if s == "_" then some [] else
  (s.splitOn ";").mapM fun e =>
    match e.splitOn "=" with
    | [a, b] => do pure ((← cps? a), (← cps? b))
    | _ => none

def scriptsOut (net : String) (l : List Bytes) : String :=
  ";".intercalate (l.map toHex) ++ " | " ++ ";".intercalate (l.map fun s =>
    match Address.address hash256 s net with
    | .ok a => if a.isEmpty then "-" else cpsOut (a.map Char.ofNat)
    | .error _ => "!")

/-- the keys `_normalized_key` re-roots (`Btc.Desc.Key.rerooted` of Proofs/C14/Normalize.lean, restated here because
    the driver cannot import the proofs) -/
def rerootedKey (k : Desc.Key) : Bool :=
  match k.atom with
  | .pub _ _ => false
  | .xkey _ => k.wildcard != some true && (Desc.rerootAt k.path).isSome

def keyType? : String → Option Desc.KeyScriptType
  | "p2pkh" => some .p2pkh | "p2wpkh-p2sh" => some .p2wpkhP2sh | "p2wpkh" => some .p2wpkh | "p2tr" => some .p2tr
  | _ => none

def embed? : String → Option Desc.EmbedType
  | "p2sh" => some .p2sh | "p2wsh" => some .p2wsh | "p2sh-p2wsh" => some .p2shP2wsh | _ => none

def order? : String → Option Desc.KeyOrder
  | "none" => some .none | "account" => some .account | "derived" => some .derived | _ => none

/-- template: commands separated by `;`: `b:<hex>` | `g:<k>:<verify 0/1>:<xkey text>+<xkey text>…` -/
def tmpl? (s : String) : Option (List Desc.Cmd) :=
  (s.splitOn ";").mapM fun c =>
    match c.splitOn ":" with
    | ["b", h] => (fromHex? h).map .bytes
    | ["g", k, v, keys] => do
      let k ← k.toNat?
      let v ← bool? v
      let ks ← (keys.splitOn "+").mapM fun t => (cps? t).bind (Desc.decodeXkey env)
      pure (.group { threshold := k, keys := ks, verify := v })
    | _ => none

/-- mapping items `label@network@text;…` (label a possibly negative integer, text as code points) -/
def items? (s : String) : Option (List (Int × String × List Char)) :=
  (s.splitOn ";").mapM fun e =>
    match e.splitOn "@" with
    | [b, net, t] => do pure ((← b.toInt?), net, (← cps? t))
    | _ => none

/-! decoded JSON values on the line: `N` null, `T`/`F`, `I<int>;`, `W<int>;` whole float, `X` other float,
    `S<code points separated by .>;` string, `A…]` array, `O<S…;><value>…}` object. -/
open CoreImport in
def takeUntil (stop : Char) : List Char → List Char → Option (List Char × List Char)
  | _, [] => none
  | acc, c :: cs => if c == stop then some (acc.reverse, cs) else takeUntil stop (c :: acc) cs

def cpsDot? (l : List Char) : Option (List Char) :=
  if l.isEmpty then some [] else ((String.ofList l).splitOn ".").mapM fun t => t.toNat?.map Char.ofNat

open CoreImport in
mutual
def parseJ : Nat → List Char → Option (J × List Char)
  | 0, _ => none
  | _ + 1, 'N' :: r => some (.null, r)
  | _ + 1, 'T' :: r => some (.bool true, r)
  | _ + 1, 'F' :: r => some (.bool false, r)
  | _ + 1, 'X' :: r => some (.float none, r)
  | _ + 1, 'I' :: r => do let (t, r) ← takeUntil ';' [] r; pure (.int (← (String.ofList t).toInt?), r)
  | _ + 1, 'W' :: r => do let (t, r) ← takeUntil ';' [] r; pure (.float (some (← (String.ofList t).toInt?)), r)
  | _ + 1, 'S' :: r => do let (t, r) ← takeUntil ';' [] r; pure (.str (← cpsDot? t), r)
  | f + 1, 'A' :: r => do let (l, r) ← parseJs f r; pure (.arr l, r)
  | f + 1, 'O' :: r => do let (l, r) ← parseKVs f r; pure (.obj l, r)
  | _ + 1, _ => none
def parseJs : Nat → List Char → Option (List J × List Char)
  | 0, _ => none
  | _ + 1, ']' :: r => some ([], r)
  | f + 1, r => do let (v, r) ← parseJ f r; let (vs, r) ← parseJs f r; pure (v :: vs, r)
def parseKVs : Nat → List Char → Option (List (List Char × J) × List Char)
  | 0, _ => none
  | _ + 1, '}' :: r => some ([], r)
  | f + 1, 'S' :: r => do
    let (t, r) ← takeUntil ';' [] r
    let k ← cpsDot? t
    let (v, r) ← parseJ f r
    let (kvs, r) ← parseKVs f r
    pure ((k, v) :: kvs, r)
  | _ + 1, _ => none
end

def json? (s : String) : Option CoreImport.J :=
  match parseJ (s.length + 1) s.toList with
  | some (v, []) => some v
  | _ => none

def jerrOut : CoreImport.JErr → String
  | .value => "err value" | .type => "err type" | .runtime => "err runtime"

def range? (s : String) : Option (Option CoreImport.Range) :=
  if s == "-" then some none else
  match s.splitOn "," with
  | [a, b] => do pure (some ((← a.toInt?), (← b.toInt?)))
  | _ => none

def posOut : Option (Option (Nat × Nat)) → String
  | some (some (b, i)) => s!"ok {b} {i}"
  | some none => "ok None"
  | none => "err value"

def handle : List String → String
  | "gen" :: "Descsum" :: fn :: args => (Gen.Descsum.dispatch fn args).getD "bad-op"
  | "gen" :: "Descriptor" :: fn :: args => (Gen.Descriptor.dispatch fn args).getD "bad-op"
  | ["polymod", vals] =>
    match nats? vals with
    | some v => s!"ok {Descsum.polymod v} {Descsum.Ref.descsumPolymod v}"
    | none => "bad-op"
  | ["expand", txt] =>
    match cps? txt with
    | some t =>
      let a := match Descsum.expand t with | some e => "ok " ++ natsOut e | none => "err value"
      let r := match Descsum.Ref.descsumExpand t with | some e => "ref " ++ natsOut e | none => "ref none"
      s!"{a} | {r}"
    | none => "bad-op"
  | ["csum", txt] =>
    match cps? txt with
    | some t =>
      let a := match Descsum.checksum t with | some c => "ok " ++ cpsOut c | none => "err value"
      let r := match Descsum.Ref.descsumCreate t with | some c => "ref " ++ cpsOut c | none => "ref none"
      s!"{a} | {r}"
    | none => "bad-op"
  | ["strip", txt] =>
    match cps? txt with
    | some t =>
      let a := match Descsum.stripChecksum t with | .ok b => "ok " ++ cpsOut b | .error _ => "err value"
      s!"{a} | ref {if Descsum.Ref.descsumCheck t then "True" else "False"}"
    | none => "bad-op"
  | ["add", txt] =>
    match cps? txt with
    | some t => match Descsum.addChecksum t with | .ok b => "ok " ++ cpsOut b | .error _ => "err value"
    | none => "bad-op"
  | ["split", txt] =>
    match cps? txt with
    | some t => pOut (Desc.splitArgs t) segsOut
    | none => "bad-op"
  | ["splitfn", txt] =>
    match cps? txt with
    | some t => pOut (Desc.splitFunction t) fun (n, a) => s!"{cpsOut n} {cpsOut a}"
    | none => "bad-op"
  | ["key", tbl, x, c, m, txt] =>
    match table? tbl, bool? x, bool? c, bool? m, cps? txt with
    | some tb, some x, some c, some m, some t =>
      pOut (Desc.parseKey tb.oracle x c m t) fun k => s!"{renderKey k} | {cpsOut (Desc.strKey k)}"
    | _, _, _, _, _ => "bad-op"
  | ["musig", tbl, txt] =>
    match table? tbl, cps? txt with
    | some tb, some t =>
      pOut (Desc.parseMusig tb.oracle t) fun m =>
        s!"M[{renderKeys m.participants};p={natsOut m.path};w={if m.wildcard then 1 else 0}] | {cpsOut (Desc.strMusig m)}"
    | _, _ => "bad-op"
  | ["parse", tbl, txt] =>
    match table? tbl, cps? txt with
    | some tb, some t => pOut (Desc.parse tb.oracle t) fun d => s!"{renderD d} | {cpsOut (Desc.strD d)}"
    | _, _ => "bad-op"
  | ["atindex", tbl, txt, idx] =>
    match table? tbl, cps? txt, idx.toNat? with
    | some tb, some t, some i =>
      match Desc.parse tb.oracle t with
      | .ok d =>
        (match Desc.atIndex d i with
         | some d' => s!"ok {cpsOut (Desc.strD d')} {if d.isRanged then 1 else 0}"
         | none => "err value")
      | .error .value => "err value"
      | .error .unsupported => "unsupported"
    | _, _, _ => "bad-op"
  | ["desc.norm", tbl, prv, txt, net] =>
    -- `str(normalized(parse(text, net), prv_keys))`, whether a key of it is re-rooted, and `normalized` of the answer
    match table? tbl, prv? prv, cps? txt with
    | some tb, some pk, some t =>
      match Desc.parse tb.oracle t with
      | .ok d =>
        (match Desc.normalized env pk d with
         | some d' =>
           let again := match Desc.normalized env [] d' with | some d'' => decide (d'' = d') | none => false
           s!"ok {cpsOut (Desc.strD d')} {if d.keys.any rerootedKey then 1 else 0} {if again then 1 else 0}"
         | none => "err value")
      | .error .value => "err value"
      | .error .unsupported => "unsupported"
    | _, _, _ => "bad-op"
  | ["multipath", txt] =>
    match cps? txt with
    | some t =>
      match Desc.multipath t with
      | some l => "ok " ++ segsOut l
      | none => "err value"
    | none => "bad-op"
  | ["desc.spk", tbl, prv, txt, idx, net] =>
    match table? tbl, prv? prv, cps? txt, idx.toNat? with
    | some tb, some pk, some t, some i =>
      match Desc.parse tb.oracle t with
      | .ok d =>
        (match Desc.scriptPubKeys env net pk d i with
         | some l => "ok " ++ scriptsOut (Desc.descNetwork env net d) l
         | none => "err value")
      | .error .value => "err value"
      | .error .unsupported => "unsupported"
    | _, _, _, _ => "bad-op"
  | ["w.bip32", st, xk, b, i] =>
    match keyType? st, (cps? xk).bind (Desc.decodeXkey env), b.toNat?, i.toNat? with
    | some st, some x, some b, some i =>
      (match Desc.bip32WalletSpk env st x b i with | some s => "ok " ++ toHex s | none => "err value")
    | _, _, _, _ => "bad-op"
  | ["w.bip32.pos", st, xk, last, q] =>
    match keyType? st, (cps? xk).bind (Desc.decodeXkey env), last.toNat?, fromHex? q with
    | some st, some x, some last, some q =>
      posOut (Desc.walletPositionOf (Desc.bip32WalletSpk env st x) [0, 1] q last)
    | _, _, _, _ => "bad-op"
  | ["addr", net, script] =>
    -- the address a wallet of network `net` hands out for this output (C06's codec)
    match fromHex? script with
    | some sc =>
      (match Address.address hash256 sc net with
       | .ok a => if a.isEmpty then "ok -" else "ok " ++ cpsOut (a.map Char.ofNat)
       | .error _ => "err value")
    | none => "bad-op"
  | ["w.key", st, sec] =>
    match keyType? st, fromHex? sec with
    | some st, some sec => (match Desc.keyScript env st sec with | some s => "ok " ++ toHex s | none => "err value")
    | _, _ => "bad-op"
  | ["w.script", et, ord, tm, b, i] =>
    match embed? et, order? ord, tmpl? tm, b.toNat?, i.toNat? with
    | some et, some ord, some tm, some b, some i =>
      (match Desc.scriptWalletSpk env et ord tm b i with | some s => "ok " ++ toHex s | none => "err value")
    | _, _, _, _, _ => "bad-op"
  | ["w.script.pos", et, ord, tm, last, q] =>
    match embed? et, order? ord, tmpl? tm, last.toNat?, fromHex? q with
    | some et, some ord, some tm, some last, some q =>
      posOut (Desc.walletPositionOf (Desc.scriptWalletSpk env et ord tm) [0, 1] q last)
    | _, _, _, _, _ => "bad-op"
  | ["w.desc.pos", tbl, prv, net, last, q, txts] =>
    match table? tbl, prv? prv, last.toNat?, fromHex? q, (txts.splitOn ";").mapM cps? with
    | some tb, some pk, some last, some q, some ts =>
      match ts.mapM fun t => (match Desc.parse tb.oracle t with | .ok d => some d | .error _ => none) with
      | some ds => posOut (Desc.descWalletPositionOf env net pk ds q last)
      | none => "unsupported"
    | _, _, _, _, _ => "bad-op"
  | ["w.desc.map", tbl, prv, last, q, items] =>
    -- DescriptorWallet(Mapping[int, Descriptor]): construction with its refusals, then position_of (the LABEL is answered)
    match table? tbl, prv? prv, last.toNat?, fromHex? q, items? items with
    | some tb, some pk, some last, some q, some its =>
      match its.mapM fun (b, net, t) => (match Desc.parse tb.oracle t with | .ok d => some (b, net, d) | .error _ => none) with
      | some ds => posOut (Desc.descWalletMappingPositionOf env pk ds q last)
      | none => "unsupported"
    | _, _, _, _, _ => "bad-op"
  | ["w.desc.mapspk", tbl, prv, items, b, i] =>
    -- … then script_pub_key(branch, index): `_assert_position` (the label is one of `branches`) and the chain's script
    match table? tbl, prv? prv, items? items, b.toInt?, i.toNat? with
    | some tb, some pk, some its, some b, some i =>
      match its.mapM fun (b, net, t) => (match Desc.parse tb.oracle t with | .ok d => some (b, net, d) | .error _ => none) with
      | some ds =>
        (match Desc.descWalletNew env pk ds with
         | none => "err value"
         | some (net, chains) =>
           let labels := natsOut (chains.map (·.1))
           if b < 0 then s!"ok {labels} err" else
           match Desc.chainsScriptPubKey env net pk chains b.toNat i with
           | some sc => s!"ok {labels} {toHex sc}"
           | none => s!"ok {labels} err")
      | none => "unsupported"
    | _, _, _, _, _ => "bad-op"
  | ["core.watched", d, reply] =>
    match cps? d, json? reply with
    | some d, some j =>
      (match CoreImport.watchedRangeJ d j with
       | .ok none => "ok None"
       | .ok (some (a, b)) => s!"ok {a} {b}"
       | .error e => jerrOut e)
    | _, _ => "bad-op"
  | ["core.imported", rq, an] =>
    match json? rq, json? an with
    | some rq, some an => (match CoreImport.assertImportedJ rq an with | .ok _ => "ok" | .error e => jerrOut e)
    | _, _ => "bad-op"
  | ["core.widen", wanted, watched] =>
    match range? wanted, range? watched with
    | some (some w), some wd =>
      (match CoreImport.widenedRange w wd with | some (a, b) => s!"ok {a} {b}" | none => "err value")
    | _, _ => "bad-op"
  | ["core.request", ranged, active, internal, label, kr, next] =>
    match bool? ranged, bool? active, bool? internal, bool? label, range? kr, (if next == "-" then some none else next.toInt?.map some) with
    | some rg, some ac, some it, some lb, some kr, some nx =>
      if CoreImport.importRequestOk rg ac it lb kr nx then "ok" else "err value"
    | _, _, _, _, _, _ => "bad-op"
  | ["core.comparable", t] =>
    match cps? t with
    | some t => "ok " ++ cpsOut (CoreImport.comparable t)
    | none => "bad-op"
  | ["scan.index", ranged, last, query, rows] =>
    match bool? ranged, last.toNat?, query.toNat?, rows? rows with
    | some rg, some last, some q, some rows =>
      match Scan.indexOf (fun i => rows.getD i []) rg q last with
      | some i => s!"ok {i}"
      | none => "ok None"
    | _, _, _, _ => "bad-op"
  | ["scan.pos", last, query, branches] =>
    match last.toNat?, query.toNat?, (branches.splitOn "|").mapM nats? with
    | some last, some q, some bs =>
      -- a branch is its position in the list; a missing entry is a script no query equals
      match Scan.positionOf (fun (b : Nat) i => ((bs.getD b []).getD i 0)) q last (List.range bs.length) with
      | some (b, i) => s!"ok {b} {i}"
      | none => "ok None"
    | _, _, _ => "bad-op"
  | ["scan.posE", last, query, branches] =>
    -- rows of script ids, `x` = a position the wallet cannot derive (raises); past the row's end raises too
    match last.toNat?, query.toNat?,
        (branches.splitOn "|").mapM (fun r => (r.splitOn ",").mapM fun t => if t == "x" then some none else t.toNat?.map some) with
    | some last, some q, some bs =>
      posOut (Scan.scanE (fun (b : Nat) i => (((bs.getD b []).getD i none)).map fun t => decide (t = q)) (fun _ => last)
        (List.range bs.length))
    | _, _, _ => "bad-op"
  | ["scan.dpos", last, query, flags, branches] =>
    match last.toNat?, query.toNat?, (flags.splitOn ",").mapM bool?, (branches.splitOn "|").mapM rows? with
    | some last, some q, some fl, some bs =>
      match Scan.positionOfDesc (fun (b : Nat) i => ((bs.getD b []).getD i [])) (fun b => fl.getD b false) q last
          (List.range bs.length) with
      | some (b, i) => s!"ok {b} {i}"
      | none => "ok None"
    | _, _, _, _ => "bad-op"
  | _ => "bad-op"

def main : IO Unit := runLoop handle
