import Model.Common.Proto
import Model.Common.HashProto
import Model.C09.Impl
import Generated.SigHash
open Btc Btc.Sighash

/-!
line protocol of property C09 (see harness/c09.py)

tokens: bytes are hex (`_` = empty); integers decimal; an empty list is `.`
  tx       = `version;locktime;in,in,…;out,out,…`   in = `txid:vout:scriptSig:sequence:wit/wit/…`  out = `value:spk`
             (txid as the 32 bytes are on the wire)
  outs     = `out,out,…`
ops
  legacy <sc> <tx> <i> <ht>
  segwit <sc> <tx> <i> <ht> <amount> <outs|.>            precomputed from those prevouts, `.` = direct
  taproot <tx> <i> <outs> <ht> <extflag> <annex> <ext> <pre 0|1>
  fromtx <outs> <tx> <i> <ht> <pre 0|1> <codesep>
  fad <script> <target>     calc <script> <offset> <sig/sig/…|.> <const 0|1> <segwit 0|1>
  strip <script>            codefrom <script> <k>        annexext <wit/wit/…>      redeem <scriptSig> <spk>
  psbt.ecdsa <out|.> <redeem> <wscript> <nwu 0|1|2> <sht|.> <tx> <i> <ht|.>     0 witness utxo, 1 non-witness utxo, 2 both
  psbt.taproot <sht|.> <tx> <i> <outs, `-` = no utxo> <leafhash> <ht|.> <pre 0|1>     1 = the streamed view (precomputed)
  spec.legacy <sc> <tx> <i> <ht>      spec.bip143 <sc> <tx> <i> <ht> <amount>      spec.bip341 <tx> <i> <outs> <ht> <annex> <ext>
      the PREIMAGE BYTES of the specification (Part A), `ok bug` for the legacy SIGHASH_SINGLE constant
  spec.legacy.digest / spec.bip143.digest / spec.bip341.digest (same arguments): the DIGEST of the specification alone
      (no btclib-shaped function is evaluated on these lines)
answers: `ok <hex>` / `err value` / `err foreign`; the three digest ops also evaluate the
specification (Part A) on every accepted line and answer `specdiff …` if it differs.
-/

def optTok (f : String → Option α) (s : String) : Option (Option α) :=
  if s == "." then some none else (f s).map some

def listTok (sep : String) (f : String → Option α) (s : String) : Option (List α) :=
  if s == "." then some [] else (s.splitOn sep).mapM f

def parseOut (s : String) : Option TxOut :=
  match s.splitOn ":" with
  | [v, spk] => do pure ⟨← parseInt? v, ← fromHex? spk⟩
  | _ => none

def parseIn (s : String) : Option (TxIn × List Bytes) :=
  match s.splitOn ":" with
  | [txid, vout, ss, seq, wit] => do
    pure (⟨⟨← fromHex? txid, ← parseInt? vout⟩, ← fromHex? ss, ← parseInt? seq⟩, ← listTok "/" fromHex? wit)
  | _ => none

def parseTx (s : String) : Option (Tx × List (List Bytes)) :=
  match s.splitOn ";" with
  | [v, l, ins, outs] => do
    let is ← listTok "," parseIn ins
    let os ← listTok "," parseOut outs
    pure (⟨← parseInt? v, is.map (·.1), os, ← parseInt? l⟩, is.map (·.2))
  | _ => none

def parseOuts : String → Option (List TxOut) := listTok "," parseOut

def render (r : Except Py.PyErr Bytes) : String :=
  match r with
  | .ok d => "ok " ++ toHex d
  | .error e => "err " ++ e.name

/-- on accepted lines the btclib-shaped answer must be the specification's -/
def withSpec (r : Except Py.PyErr Bytes) (spec : Unit → Bytes) : String :=
  match r with
  | .ok d => let s := spec (); if s == d then "ok " ++ toHex d else s!"specdiff impl={toHex d} spec={toHex s}"
  | .error e => "err " ++ e.name

def pre? (flag : String) (tx : Tx) (outs : List TxOut) : Except Py.PyErr (Option Impl.Precomputed) :=
  if flag == "1" then (Impl.precompute sha256 tx outs).map some else .ok none

def tapExt? (extFlag : Int) (ext : Bytes) : Option (Option TapExt) :=
  if extFlag == 0 ∧ ext.isEmpty then some none
  else if extFlag == 1 ∧ ext.length == 37 then
    some (some ⟨ext.take 32, (ext.getD 32 0).toNat, (ofLE (ext.drop 33) : Nat)⟩)
  else none

/-- the input maps the harness builds for a `psbt.ecdsa` line: one map per transaction input, empty but for input
    `i`, whose utxo is a witness utxo (`nwu` 0), a previous transaction with the output at the outpoint's index
    after `index` filler outputs (`nwu` 1), or both (`nwu` 2) -/
def ecdsaInputs (out : Option TxOut) (redeem wscript : Bytes) (nwu : String) (sht : Option Int) (tx : Tx) (i : Int) :
    List Impl.PsbtInput :=
  tx.vin.mapIdx (fun j inp =>
    if (j : Int) == i then
      let vout := inp.prev.vout.toNat
      let prevTx := out.map (fun o => List.replicate vout (⟨1, [0x51]⟩ : TxOut) ++ [o])
      { witnessUtxo := if nwu == "1" then none else out
        nonWitnessUtxo := if nwu == "0" then none else prevTx
        outputIndex := some vout, redeemScript := redeem, witnessScript := wscript, sigHashType := sht }
    else { Impl.PsbtInput.empty with outputIndex := some inp.prev.vout.toNat })

def handleC09 : List String → Option String
  | ["legacy", sc, tx, i, ht] => do
    let sc ← fromHex? sc; let (tx, _) ← parseTx tx; let i ← parseInt? i; let ht ← parseInt? ht
    pure (withSpec (Impl.legacy sha256 sc tx i ht)
      (fun _ => legacyDigest hash256 sc tx i.toNat (Impl.word ht)))
  | ["segwit", sc, tx, i, ht, amount, pre] => do
    let sc ← fromHex? sc; let (tx, _) ← parseTx tx; let i ← parseInt? i; let ht ← parseInt? ht
    let amount ← parseInt? amount; let pre ← optTok parseOuts pre
    let p : Except Py.PyErr (Option Impl.Precomputed) := match pre with
      | none => .ok none
      | some outs => (Impl.precompute sha256 tx outs).map some
    pure <| match p with
      | .error e => "err " ++ e.name
      | .ok p => withSpec (Impl.segwitV0 sha256 sc tx i ht amount p)
          (fun _ => bip143Digest hash256 sc tx i.toNat (Impl.word ht) amount)
  | ["taproot", tx, i, outs, ht, extFlag, annex, ext, pre] => do
    let (tx, _) ← parseTx tx; let i ← parseInt? i; let outs ← parseOuts outs; let ht ← parseInt? ht
    let extFlag ← parseInt? extFlag; let annex ← fromHex? annex; let ext ← fromHex? ext
    pure <| match pre? pre tx outs with
      | .error e => "err " ++ e.name
      | .ok p =>
        let r := Impl.taproot sha256 tx i outs ht extFlag annex ext p
        match tapExt? extFlag ext with
        | some e => withSpec r (fun _ =>
            bip341Digest sha256 tx i.toNat outs ht.toNat (if annex.isEmpty then none else some annex) e)
        | none => render r
  | ["fromtx", outs, tx, i, ht, pre, codesep] => do
    let outs ← parseOuts outs; let (tx, wits) ← parseTx tx; let i ← parseInt? i; let ht ← parseInt? ht
    let codesep ← parseInt? codesep
    pure <| match pre? pre tx outs with
      | .error e => "err " ++ e.name
      | .ok p => render (Impl.fromTx sha256 hash160 outs tx wits i ht p codesep)
  | ["spec.legacy", sc, tx, i, ht] => do
    let sc ← fromHex? sc; let (tx, _) ← parseTx tx; let i ← i.toNat?; let ht ← parseInt? ht
    pure (if legacySingleBug tx i (Impl.word ht) then "ok bug"
      else "ok " ++ toHex (legacyPreimage sc tx i (Impl.word ht)))
  | ["spec.bip143", sc, tx, i, ht, amount] => do
    let sc ← fromHex? sc; let (tx, _) ← parseTx tx; let i ← i.toNat?; let ht ← parseInt? ht
    let amount ← parseInt? amount
    pure ("ok " ++ toHex (bip143Preimage hash256 sc tx i (Impl.word ht) amount))
  | ["spec.bip341", tx, i, outs, ht, annex, ext] => do
    let (tx, _) ← parseTx tx; let i ← i.toNat?; let outs ← parseOuts outs; let ht ← ht.toNat?
    let annex ← fromHex? annex; let ext ← fromHex? ext
    let e ← tapExt? (if ext.isEmpty then 0 else 1) ext
    pure ("ok " ++ toHex (bip341Preimage sha256 tx i outs ht (if annex.isEmpty then none else some annex) e))
  | ["spec.legacy.digest", sc, tx, i, ht] => do
    let sc ← fromHex? sc; let (tx, _) ← parseTx tx; let i ← i.toNat?; let ht ← parseInt? ht
    pure ("ok " ++ toHex (legacyDigest hash256 sc tx i (Impl.word ht)))
  | ["spec.bip143.digest", sc, tx, i, ht, amount] => do
    let sc ← fromHex? sc; let (tx, _) ← parseTx tx; let i ← i.toNat?; let ht ← parseInt? ht
    let amount ← parseInt? amount
    pure ("ok " ++ toHex (bip143Digest hash256 sc tx i (Impl.word ht) amount))
  | ["spec.bip341.digest", tx, i, outs, ht, annex, ext] => do
    let (tx, _) ← parseTx tx; let i ← i.toNat?; let outs ← parseOuts outs; let ht ← ht.toNat?
    let annex ← fromHex? annex; let ext ← fromHex? ext
    let e ← tapExt? (if ext.isEmpty then 0 else 1) ext
    pure ("ok " ++ toHex (bip341Digest sha256 tx i outs ht (if annex.isEmpty then none else some annex) e))
  | ["fad", s, t] => do
    let s ← fromHex? s; let t ← fromHex? t
    let r := Impl.findAndDeleteImpl s t
    let c := findAndDelete s t
    pure (if r == c then s!"ok {toHex r.1} {r.2}" else s!"specdiff impl={toHex r.1} {r.2} spec={toHex c.1} {c.2}")
  | ["calc", s, off, sigs, cs, segwit] => do
    let s ← fromHex? s; let off ← off.toNat?; let sigs ← listTok "/" fromHex? sigs
    pure (render (Impl.calculateScriptCode s off sigs (cs == "1") (segwit == "1")))
  | ["strip", s] => do
    let s ← fromHex? s
    pure ("ok " ++ toHex (withoutCodeSeparators s))
  | ["codefrom", s, k] => do
    let s ← fromHex? s; let k ← parseInt? k
    pure (match scriptCodeFrom s k with | some r => "ok " ++ toHex r | none => "err value")
  | ["annexext", wit] => do
    let stack ← listTok "/" fromHex? wit
    pure (match Impl.annexAndExt sha256 stack with
      | .ok (a, e) => s!"ok {toHex a} {toHex e}"
      | .error e => "err " ++ e.name)
  | ["redeem", ss, spk] => do
    let ss ← fromHex? ss; let spk ← fromHex? spk
    pure (render (Impl.redeemScript hash160 ss spk))
  | ["psbt.ecdsa", out, redeem, wscript, nwu, sht, tx, i, ht] => do
    let out ← optTok parseOut out; let redeem ← fromHex? redeem; let wscript ← fromHex? wscript
    let sht ← optTok parseInt? sht; let (tx, _) ← parseTx tx; let i ← parseInt? i; let ht ← optTok parseInt? ht
    pure (render (Impl.psbtEcdsaSigHash sha256 (ecdsaInputs out redeem wscript nwu sht tx i) tx i ht))
  | ["psbt.taproot", sht, tx, i, outs, leaf, ht, pre] => do
    let sht ← optTok parseInt? sht; let (tx, _) ← parseTx tx; let i ← parseInt? i
    let outs ← listTok "," (fun s => if s == "-" then some none else (parseOut s).map some) outs
    let leaf ← fromHex? leaf; let ht ← optTok parseInt? ht
    let inputs : List Impl.PsbtInput := outs.mapIdx (fun j o =>
      ⟨o, none, none, [], [], if (j : Int) == i then sht else none⟩)
    pure (render (if pre == "1" then Impl.viewTaprootSigHash sha256 inputs tx i leaf ht
      else Impl.psbtTaprootSigHash sha256 inputs tx i leaf ht))
  | _ => none

def handle (toks : List String) : String :=
  match toks with
  | "gen" :: "SigHash" :: fn :: args => (Gen.SigHash.dispatch fn args).getD "bad-op"
  | _ =>
    match hashOp toks with
    | some r => r
    | none => (handleC09 toks).getD "bad-op"

def main : IO Unit := runLoop handle
