import Model.Common.Proto
import Generated.All
open Btc

/-- line protocol of property C09: see harness/c09.py -/
def handle : List String → String
  | "gen" :: ns :: fn :: args => (Gen.dispatchAll ns fn args).getD "bad-op"
  | _ => "bad-op"

def main : IO Unit := runLoop handle
