import Model.Common.Proto
open Btc

/-- line protocol of property C19: see harness/c19.py -/
def handle : List String → String
  -- one line per generated module this driver serves, e.g.
  -- | "gen" :: "VarInt" :: fn :: args => (Gen.VarInt.dispatch fn args).getD "bad-op"
  | _ => "bad-op"

def main : IO Unit := runLoop handle
