import Model.Common.Proto
import Model.C05.VarInt
import Model.C05.Codec
import Model.C05.Tx
import Model.C05.PsbtMap
import Model.C05.Misc
import Model.C05.P2p
import Model.Common.Sha256
import Model.C08.Parse
import Model.C19.Fuel
import Model.C19.TapTree
import Generated.VarInt
import Generated.Wire
import Generated.Limits
open Btc Btc.Wire Btc.Fuel

/-- the Python class of a wire refusal: a short read of `var_bytes` octets and a message that ends inside its
    header or payload (`IncompleteMessage`) are the RuntimeErrors. -/
def errClass : Wire.Err → String
  | .shortBytes => "runtime"
  | .incomplete => "runtime"
  | _ => "value"

/-- `pos.<class> <hex>`: how many bytes of a caller's stream the parser consumes (stream mode),
    and the model's own size of what it returned. -/
def runPos (c : Codec α) (b : Bytes) : String :=
  match c.parse b with
  | .error e => s!"err {errClass e}"
  | .ok (t, rest) => s!"ok {b.length - rest.length} {(c.ser t).length}"

def varBytesStep : Step UInt8 Bytes := fun b =>
  match varBytes.parse b with
  | .ok r => some r
  | .error _ => none

def limitOf (name : String) : Option Nat :=
  match name with
  | "MAX_SIZE" => some Gen.Limits.MAX_SIZE
  | "MAX_TX_IN_COUNT" => some Gen.Limits.MAX_TX_IN_COUNT
  | "MAX_TX_OUT_COUNT" => some Gen.Limits.MAX_TX_OUT_COUNT
  | "MAX_WITNESS_STACK_ITEMS" => some Gen.Limits.MAX_WITNESS_STACK_ITEMS
  | "MAX_TREE_DEPTH" => some Gen.Limits.MAX_TREE_DEPTH
  | "MAX_ADDR_TO_SEND" => some Gen.Limits.MAX_ADDR_TO_SEND
  | "MAX_INV_SZ" => some Gen.Limits.MAX_INV_SZ
  | "MAX_HEADERS_RESULTS" => some Gen.Limits.MAX_HEADERS_RESULTS
  | "MAX_LOCATOR_SZ" => some Gen.Limits.MAX_LOCATOR_SZ
  | "MAX_BLOCK_TX_INDEX" => some Gen.Limits.MAX_BLOCK_TX_INDEX
  | "MAX_GETCFHEADERS_SIZE" => some Gen.Limits.MAX_GETCFHEADERS_SIZE
  | "MAX_PROTOCOL_MESSAGE_LENGTH" => some Gen.Limits.MAX_PROTOCOL_MESSAGE_LENGTH
  | "MAX_SCRIPT_ELEMENT_SIZE" => some Gen.Limits.MAX_SCRIPT_ELEMENT_SIZE
  | "MAX_SCRIPT_SIZE" => some Gen.Limits.MAX_SCRIPT_SIZE
  | _ => none

def handle : List String → String
  | "gen" :: "Limits" :: fn :: args => (Gen.Limits.dispatch fn args).getD "bad-op"
  | "gen" :: "VarInt" :: fn :: args => (Gen.VarInt.dispatch fn args).getD "bad-op"
  | "gen" :: "Wire" :: fn :: args => (Gen.Wire.dispatch fn args).getD "bad-op"
  | ["limit", name] => match limitOf name with | some v => s!"ok {v}" | none => "bad-op"
  | ["limit.caps"] =>
    "ok " ++ ";".intercalate (Gen.Limits.countCaps.map fun r => s!"{r.1}={r.2.2}")
  | ["tree", text] =>
    match parseLetters text.toList with
    | some t => s!"ok {showTree t} depth={t.depth} leaves={t.leaves}"
    | none => "err refused"
  | ["treehelper", text] =>
    -- the letter tree (read WITHOUT a depth bound: the bound under test is tree_helper's) as the Python value, then the model
    match parseTreeAll braces 1000000 letterLeaf text.toList with
    | none => "bad-op"
    | some t =>
      match TapTree.treeHelper (TapTree.ofLetters t) with
      | .ok s => s!"ok depth={s.depth} leaves={s.leaves}"
      | .error e => s!"err {e.name}"
  | ["counted.witness", hex] =>
    match fromHex? hex with
    | none => "bad-op"
    | some b =>
      match counted Gen.Limits.MAX_WITNESS_STACK_ITEMS varBytesStep b with
      | .ok (xs, rest) => s!"ok {xs.length} {b.length - rest.length}"
      | .error .tooMany => "err toomany"
      | .error _ => "err refused"
  | ["pos.script", hex] =>
    match fromHex? hex with
    | none => "bad-op"
    | some b =>
      let r := Script.parse b
      s!"ok {r.1.length} {b.length - r.2.length}"
  | ["pos.psbtmap", hex] =>
    match fromHex? hex with
    | none => "bad-op"
    | some b =>
      match Psbt.parseMap b with
      | .error e => s!"err {errClass e}"
      | .ok (recs, rest) => s!"ok {b.length - rest.length} {recs.length}"
  | [cls, hex] =>
    match fromHex? hex with
    | none => "bad-op"
    | some b =>
      match cls with
      | "pos.varint" => runPos (varInt Gen.Limits.MAX_SIZE) b
      | "pos.varbytes" => runPos varBytes b
      | "pos.outpoint" => runPos outPoint b
      | "pos.witness" => runPos witness b
      | "pos.txin" => runPos txIn b
      | "pos.txout" => runPos txOut b
      | "pos.tx" => runPos tx b
      | "pos.header" => runPos blockHeader b
      | "pos.block" => runPos block b
      -- the codecs of `wire_parsers_read_exactly` that landed later (C05's p2p layer, xkey)
      | "pos.msg" => runPos (msg hash256) b
      | "pos.netaddr" => runPos netAddr b
      | "pos.timedaddr" => runPos timedAddr b
      | "pos.addr" => runPos addr b
      | "pos.inventory" => runPos inventory b
      | "pos.inv" => runPos inv b
      | "pos.getheaders" => runPos locator b
      | "pos.headers" => runPos headers b
      | "pos.xkey" => runPos xkey b
      -- the codecs of `more_wire_parsers_read_exactly`
      | "pos.ping" => runPos nonce8 b
      | "pos.feefilter" => runPos feeFilter b
      | "pos.sendcmpct" => runPos sendCmpct b
      | "pos.getcfilters" => runPos filterRange b
      | "pos.cfilter" => runPos cfilter b
      | "pos.cfheaders" => runPos cfheaders b
      | "pos.getcfcheckpt" => runPos getcfcheckpt b
      | "pos.cfcheckpt" => runPos cfcheckpt b
      | "pos.ssasig" => runPos ssaSig b
      | "pos.bmssig" => runPos bmsSig b
      | _ => "bad-op"
  | _ => "bad-op"

def main : IO Unit := runLoop handle
