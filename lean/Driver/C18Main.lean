import Model.Common.Proto
import Model.C18.Fee
import Model.C18.Funding
import Generated.Fee
open Btc Btc.C18

def sumCsv? (s : String) (dropKind : Bool := false) : Option (Int × Nat) :=
  if s == "_" then some (0, 0) else
  (s.splitOn ",").foldl (fun acc t => do
    let (a, n) ← acc
    let v ← parseInt? (if dropKind then String.ofList (t.toList.drop 1) else t)
    pure (a + v, n + 1)) (some (0, 0))

/-- estimator token: an integer, `E` (the estimator raised BTClibValueError), `NA` (never consulted) -/
def estTok? (s : String) : Option (Except Py.PyErr Int) :=
  if s == "E" then some (.error .value) else if s == "NA" then some (.error .foreign)
  else (parseInt? s).map .ok

def renderFunded (r : Except Py.PyErr Funded) : String :=
  match r with
  | .ok f => s!"ok {f.fee} " ++ (match f.change with | some c => toString c | none => "None")
  | .error e => "err " ++ e.name

/-- line protocol of property C18: see harness/c18.py -/
def handle : List String → String
  | "gen" :: "Fee" :: fn :: args => (Gen.Fee.dispatch fn args).getD "bad-op"
  | ["fee.fee_from_vsize", v, r] =>
    match parseInt? v, parseInt? r with
    | some v, some r => Gen.render (feeFromVsize v r)
    | _, _ => "bad-op"
  | ["fee.package_fee", v, r, av, af] =>
    match parseInt? v, parseInt? r, parseInt? av, parseInt? af with
    | some v, some r, some av, some af => Gen.render (packageFee v r av af)
    | _, _, _, _ => "bad-op"
  | ["fee.dust", hex, r] =>
    match fromHex? hex, parseInt? r with
    | some s, some r => Gen.render (dustThreshold s r)
    | _, _ => "bad-op"
  | ["fee.core_dust", hex, r] =>
    match fromHex? hex, r.toNat? with
    | some s, some r => s!"ok {Core.getDustThreshold s r}"
    | _, _ => "bad-op"
  | ["fee.is_segwit", hex] =>
    match fromHex? hex with
    | some s => if isSegwit s then "ok True" else "ok False"
    | none => "bad-op"
  | ["funding.build", _mode, ins, outs, rate, change, dustRate, e1, e2] =>
    match sumCsv? ins true, sumCsv? outs, parseInt? rate, parseInt? dustRate, estTok? e1, estTok? e2 with
    | some (ti, _), some (to, n), some r, some d, some e1, some e2 =>
      let ch : Option (Option Bytes) := if change == "None" then some none else (fromHex? change).map some
      match ch with
      | some ch => renderFunded (fund ⟨ti, to, n, r, ch, d⟩ (fun b => if b then e1 else e2))
      | none => "bad-op"
    | _, _, _, _, _, _ => "bad-op"
  | _ => "bad-op"

def main : IO Unit := runLoop handle
