import Model.Common.Proto
import Model.C18.Fee
import Generated.Fee
open Btc Btc.C18

/-- line protocol of property C18: see harness/c18.py -/
def handle : List String → String
  | "gen" :: "Fee" :: fn :: args => (Gen.Fee.dispatch fn args).getD "bad-op"
  | ["fee.fee_from_vsize", v, r] =>
    match parseInt? v, parseInt? r with
    | some v, some r => Gen.render (feeFromVsize v r)
    | _, _ => "bad-op"
  | ["fee.package_fee", v, r, av, af] =>
    match parseInt? v, parseInt? r, parseInt? av, parseInt? af with
    | some v, some r, some av, some af => Gen.render (packageFee v r av af)
    | _, _, _, _ => "bad-op"
  | ["fee.dust", hex, r] =>
    match fromHex? hex, parseInt? r with
    | some s, some r => Gen.render (dustThreshold s r)
    | _, _ => "bad-op"
  | ["fee.core_dust", hex, r] =>
    match fromHex? hex, r.toNat? with
    | some s, some r => s!"ok {Core.getDustThreshold s r}"
    | _, _ => "bad-op"
  | ["fee.is_segwit", hex] =>
    match fromHex? hex with
    | some s => if isSegwit s then "ok True" else "ok False"
    | none => "bad-op"
  | _ => "bad-op"

def main : IO Unit := runLoop handle
