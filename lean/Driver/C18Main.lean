import Model.Common.Proto
import Model.C18.Fee
import Model.C18.Funding
import Model.C18.Amount
import Model.C18.SpendSize
import Model.C18.PsbtSize
import Model.C18.SigOps
import Model.C18.BlockSize
import Generated.Fee
open Btc Btc.C18

def sumCsv? (s : String) (dropKind : Bool := false) : Option (Int × Nat) :=
  if s == "_" then some (0, 0) else
  (s.splitOn ",").foldl (fun acc t => do
    let (a, n) ← acc
    let v ← parseInt? (if dropKind then String.ofList (t.toList.drop 1) else t)
    pure (a + v, n + 1)) (some (0, 0))

/-- estimator token: an integer, `E` (the estimator raised BTClibValueError), `NA` (never consulted) -/
def estTok? (s : String) : Option (Except Py.PyErr Int) :=
  if s == "E" then some (.error .value) else if s == "NA" then some (.error .foreign)
  else (parseInt? s).map .ok

def renderFunded (r : Except Py.PyErr Funded) : String :=
  match r with
  | .ok f => s!"ok {f.fee} " ++ (match f.change with | some c => toString c | none => "None")
  | .error e => "err " ++ e.name

/-- a parsed Decimal: `N` | `I <0|1>` | `F <0|1> <coeff> <exp>` -/
def dec? : List String → Option Dec
  | ["N"] => some .nan
  | ["I", n] => some (.inf (n == "1"))
  | ["F", n, c, e] => do
    let c ← c.toNat?
    let e ← parseInt? e
    pure (.fin (n == "1") c e)
  | _ => none

def renderDecPair (r : Except Py.PyErr (Nat × Int)) : String :=
  match r with
  | .ok (c, e) => s!"ok {c} {e}"
  | .error e => "err " ++ e.name

def natCsv? (s : String) : Option (List Nat) :=
  if s == "_" then some [] else (s.splitOn ",").mapM String.toNat?

def hexCsv? (s : String) : Option (List Bytes) :=
  if s == "-" then some [] else (s.splitOn ",").mapM fromHex?

/-- `key:hash160(key)` pairs: the keys of hd_key_paths and the hash table standing for hash160 -/
def keyTable? (s : String) : Option (List (Bytes × Bytes)) :=
  if s == "-" then some [] else (s.splitOn ",").mapM fun t =>
    match t.splitOn ":" with
    | [k, h] => do pure ((← fromHex? k), (← fromHex? h))
    | _ => none

/-- key validity by shape (the harness only sends real curve points in key positions) -/
def shapeKey (k : Bytes) : Bool :=
  (k.length == 33 && (k.headD 0 == 2 || k.headD 0 == 3)) || (k.length == 65 && k.headD 0 == 4)

def optHex? (s : String) : Option (Option Bytes) := if s == "None" then some none else (fromHex? s).map some

def renderSizes (r : Except Spend.Err (Nat × List Nat)) : String :=
  match r with
  | .ok (n, w) => s!"ok {n} " ++ (if w.isEmpty then "_" else ",".intercalate (w.map toString))
  | .error _ => "err value"

/-- one input `scriptSigSize:w1/w2/…` (`-` for an empty witness) -/
def insTok? (s : String) : Option (List (Nat × List Nat)) :=
  if s == "_" then some [] else (s.splitOn ";").mapM fun t =>
    match t.splitOn ":" with
    | [a, w] => do
      let a ← a.toNat?
      let w ← if w == "-" then some [] else (w.splitOn "/").mapM String.toNat?
      pure (a, w)
    | _ => none

/-- transactions as `segwit:nIn:nOut:ins:outs:wits;…` -/
def partsTok? (s : String) : Option (List TxParts) :=
  (s.splitOn ";").mapM fun t =>
    match (t.splitOn ":").mapM String.toNat? with
    | some [sw, a, b, c, d, e] => some ⟨sw == 1, a, b, c, d, e⟩
    | _ => none

/-- line protocol of property C18: see harness/c18.py -/
def handle : List String → String
  | "gen" :: "Fee" :: fn :: args => (Gen.Fee.dispatch fn args).getD "bad-op"
  | ["fee.fee_from_vsize", v, r] =>
    match parseInt? v, parseInt? r with
    | some v, some r => Gen.render (feeFromVsize v r)
    | _, _ => "bad-op"
  | ["fee.package_fee", v, r, av, af] =>
    match parseInt? v, parseInt? r, parseInt? av, parseInt? af with
    | some v, some r, some av, some af => Gen.render (packageFee v r av af)
    | _, _, _, _ => "bad-op"
  | ["fee.dust", hex, r] =>
    match fromHex? hex, parseInt? r with
    | some s, some r => Gen.render (dustThreshold s r)
    | _, _ => "bad-op"
  | ["fee.core_dust", hex, r] =>
    match fromHex? hex, r.toNat? with
    | some s, some r => s!"ok {Core.getDustThreshold s r}"
    | _, _ => "bad-op"
  | ["fee.is_segwit", hex] =>
    match fromHex? hex with
    | some s => if isSegwit s then "ok True" else "ok False"
    | none => "bad-op"
  | ["funding.build", _mode, ins, outs, rate, change, dustRate, e1, e2] =>
    match sumCsv? ins true, sumCsv? outs, parseInt? rate, parseInt? dustRate, estTok? e1, estTok? e2 with
    | some (ti, ni), some (to, n), some r, some d, some e1, some e2 =>
      let ch : Option (Option Bytes) := if change == "None" then some none else (fromHex? change).map some
      match ch with
      | some ch => renderFunded (fund ⟨ni, ti, to, n, r, ch, d⟩ (fun b => if b then e1 else e2))
      | none => "bad-op"
    | _, _, _, _, _, _ => "bad-op"
  | "amount.sats_from_btc" :: d => (dec? d).elim "bad-op" fun d => Gen.render (satsFromBtc d)
  | ["amount.btc_from_sats", v] => (parseInt? v).elim "bad-op" fun v => renderDecPair (btcFromSats v)
  | "feerate.from_vb" :: d => (dec? d).elim "bad-op" fun d => Gen.render (feeRateFromSatsPerVbyte d)
  | "feerate.from_btc_kvb" :: d => (dec? d).elim "bad-op" fun d => Gen.render (feeRateFromBtcPerKvbyte d)
  | ["feerate.vb", k] => (parseInt? k).elim "bad-op" fun k => renderDecPair (.ok (satsPerVbyte k))
  | ["der.len", r, s] =>
    match r.toNat?, s.toNat? with
    | some r, some s => s!"ok {derSigLen r s}"
    | _, _ => "bad-op"
  | ["psize.input", spk, redeem, ws, keys, sht, leaf, fss, fwit, sizer] =>
    match optHex? spk, fromHex? redeem, fromHex? ws, keyTable? keys, fromHex? fss, hexCsv? fwit with
    | some spk, some redeem, some ws, some keys, some fss, some fwit =>
      let sht : Option Nat := if sht == "None" then none else sht.toNat?
      let sizer : Option (List Nat) := if sizer == "None" then none else natCsv? sizer
      let H : Bytes → Bytes := fun k => (keys.lookup k).getD []
      renderSizes (estimatedInputSizes (typeAndPayload shapeKey) H sizer
        ⟨spk, redeem, ws, keys.map (·.1), sht, leaf == "1", fss, fwit⟩)
    | _, _, _, _, _, _ => "bad-op"
  | ["psize.weight", ins, outLens] =>
    match insTok? ins, natCsv? outLens with
    | some ins, some ls =>
      let outs := (ls.map fun l => 8 + (cs l + l)).sum
      s!"ok {txSize true ins ls.length outs} {txWeight ins ls.length outs}"
    | _, _ => "bad-op"
  | ["size.block", _seed, _nTx, _nIn, _segwit, hdr, parts] =>
    match parseInt? hdr, partsTok? parts with
    | some hdr, some txs =>
      let last := txs.getLast?.getD ⟨false, 0, 0, 0, 0, 0⟩
      s!"ok {blockSer hdr true txs} {blockSer hdr false txs} {blockW hdr txs} {(txs.map txW).sum} {txSer true last} {txW last}"
    | _, _ => "bad-op"
  | ["sigops.count", hex] => (fromHex? hex).elim "bad-op" fun b => s!"ok {sigOpCount b}"
  | _ => "bad-op"

def main : IO Unit := runLoop handle
