import Model.Common.Proto
import Model.Common.HashProto
import Model.Common.ECProto
import Model.C16.Musig2
import Model.C16.Dleq
import Model.C16.SilentPayments
import Model.C16.Pedersen
import Model.C16.Ecies
import Model.C16.EllSwift
import Generated.Interactive
open Btc Btc.Py Btc.C16

/-! line protocol of property C16: see harness/c16.py

tokens: bytes = hex (`_` empty); list = comma-joined elements (`-` empty list); optional = `None`;
tweak list element = `<hex>:<0|1>`; a session context is five tokens
`<aggnonce> <pks> <tweaks> <msg> <adaptor|None>`. -/

namespace C16Drv

def O := EC.ops EC.secp256k1
def Hh : Bytes → Bytes → Bytes := taggedHash

def listOf? (f : String → Option α) (s : String) : Option (List α) :=
  if s == "-" then some [] else (s.splitOn ",").mapM f

def bytesList? (s : String) : Option (List Bytes) := listOf? fromHex? s

def tweak? (s : String) : Option (Bytes × Bool) :=
  match s.splitOn ":" with
  | [h, "0"] => (fromHex? h).map (·, false)
  | [h, "1"] => (fromHex? h).map (·, true)
  | _ => none

def optBytes? (s : String) : Option (Option Bytes) :=
  if s == "None" then some none else (fromHex? s).map some

def optInt? (s : String) : Option (Option Int) :=
  if s == "None" then some none else (parseInt? s).map some

def ctx? (an pks tws msg ad : String) : Option SessionCtx := do
  pure ⟨← fromHex? an, ← bytesList? pks, ← listOf? tweak? tws, ← fromHex? msg, ← optBytes? ad⟩

def errS (e : PyErr) : String := "err " ++ e.name

def rend (f : α → String) : R α → String
  | .ok v => "ok " ++ f v
  | .error e => errS e

def rBool (b : Bool) : String := if b then "True" else "False"
def rKc (c : KeyAggCtx EC.Point) : String := s!"{c.Q.1} {c.Q.2} {c.gacc} {c.tacc}"
def rList (l : List Bytes) : String := if l.isEmpty then "-" else ",".intercalate (l.map toHex)

/-- a context whose sizes `SessionContext.__init__` refuses answers `err value` before anything else -/
def withCtx (c : Option SessionCtx) (k : SessionCtx → String) : String :=
  match c with
  | none => "bad-op"
  | some c => if c.wf then k c else "err value"

def insertSorted (b : Bytes) : List Bytes → List Bytes
  | [] => [b]
  | x :: xs => if decide (b ≤ x) then b :: x :: xs else x :: insertSorted b xs

def keySort (pks : List Bytes) : R (List Bytes) :=
  if pks.any (fun pk => pk.length ≠ pkSize) then .error .value
  else .ok (pks.foldr insertSorted [])

def musig : List String → Option String
  | ["musig.individual_pub_key", d] => do
    let d ← parseInt? d
    pure (if scalarOk O d then "ok " ++ toHex (individualPubKey O d) else "err value")
  | ["musig.key_sort", pks] => do
    pure (rend rList (keySort (← bytesList? pks)))
  | ["musig.key_agg", pks] => do
    pure (rend rKc (keyAgg O Hh (← bytesList? pks)))
  | ["musig.key_agg_and_tweak", pks, tws] => do
    pure (rend rKc (keyAggAndTweak O Hh (← bytesList? pks) (← listOf? tweak? tws)))
  | ["musig.nonce_gen", rand, prv, pk, aggpk, msg, extra] => do
    pure (rend (fun (p : Bytes × Bytes) => toHex p.1 ++ " " ++ toHex p.2)
      (nonceGen O Hh (← fromHex? rand) (← optInt? prv) (← fromHex? pk) (← optBytes? aggpk) (← optBytes? msg)
        (← optBytes? extra)))
  | ["musig.nonce_agg", pns] => do
    pure (rend toHex (nonceAgg O (← bytesList? pns)))
  | ["musig.session_values", an, pks, tws, msg, ad] =>
    some <| withCtx (ctx? an pks tws msg ad) fun c =>
      rend (fun (v : SessionValues EC.Point) =>
        s!"{v.Q.1} {v.Q.2} {v.gacc} {v.tacc} {v.b} {v.R.1} {v.R.2} {v.e}") (sessionValues O Hh c)
  | ["musig.sign", sn, prv, an, pks, tws, msg, ad] => do
    let sn ← fromHex? sn
    let prv ← parseInt? prv
    pure <| withCtx (ctx? an pks tws msg ad) fun c =>
      if sn.length ≠ 97 then "bad-op" else rend toHex (signBytes O Hh sn prv c)
  | ["musig.det_sign", prv, ao, pks, tws, msg, rand] => do
    pure (rend (fun (p : Bytes × Bytes) => toHex p.1 ++ " " ++ toHex p.2)
      (deterministicSign O Hh (← parseInt? prv) (← fromHex? ao) (← bytesList? pks) (← listOf? tweak? tws)
        (← fromHex? msg) (← optBytes? rand)))
  | ["musig.psig_verify", psig, pn, pk, an, pks, tws, msg, ad] => do
    let psig ← fromHex? psig
    let pn ← fromHex? pn
    let pk ← fromHex? pk
    pure <| withCtx (ctx? an pks tws msg ad) fun c => rend rBool (partialSigVerify O Hh psig pn pk c)
  | ["musig.psig_agg", psigs, an, pks, tws, msg, ad] => do
    let psigs ← bytesList? psigs
    pure <| withCtx (ctx? an pks tws msg ad) fun c =>
      rend (fun (p : Int × Int) => s!"{p.1} {p.2}") (partialSigAgg O Hh psigs c)
  | ["musig.psig_agg_adaptor", psigs, an, pks, tws, msg, ad] => do
    let psigs ← bytesList? psigs
    pure <| withCtx (ctx? an pks tws msg ad) fun c =>
      rend (fun (p : Int × Int) => s!"{p.1} {p.2}") (partialSigAggAdaptor O Hh psigs c)
  | ["musig.adapt", r, s, t, an, pks, tws, msg, ad] => do
    let pre := (← parseInt? r, ← parseInt? s)
    let t ← parseInt? t
    pure <| withCtx (ctx? an pks tws msg ad) fun c =>
      rend (fun (p : Int × Int) => s!"{p.1} {p.2}") (adapt O Hh pre t c)
  | ["musig.extract", r, s, pr, ps, an, pks, tws, msg, ad] => do
    let sig := (← parseInt? r, ← parseInt? s)
    let pre := (← parseInt? pr, ← parseInt? ps)
    pure <| withCtx (ctx? an pks tws msg ad) fun c =>
      rend (fun t => toHex (sBytes t)) (extractAdaptor O Hh sig pre c)
  | ["bip340.verify", xq, msg, r, s] => do
    pure ("ok " ++ rBool (bip340Verify O Hh (← parseInt? xq) (← fromHex? msg) (← parseInt? r) (← parseInt? s)))
  | _ => none

/-- `point_from_pub_key` on a tuple: on the curve and not the point at infinity -/
def xInRange (c : EC.Curve) (P : EC.Point) : Bool := decide (0 ≤ P.1) && decide (P.1 < c.p)

def validPoint (c : EC.Curve) (P : EC.Point) : Bool :=
  P.2 != 0 && xInRange c P && (EC.isOnCurve c.toCurveGroup P == some true)

/-- `require_on_curve` (infinity allowed; `is_on_curve` refuses an x outside 0..p-1) -/
def onCurve (c : EC.Curve) (P : EC.Point) : Bool :=
  P.2 == 0 || (xInRange c P && (EC.isOnCurve c.toCurveGroup P == some true))

def hmac256 : Bytes → Bytes → Bytes := hmacSha256

def twoParty : List String → Option String
  | ["dh.x963", c, d, qx, qy, size, info] => do
    let c ← EC.curveOfToken c
    let Q : EC.Point := (← parseInt? qx, ← parseInt? qy)
    let d ← parseInt? d
    let size ← parseInt? size
    let info ← optBytes? info
    pure (if !(onCurve c Q) then "err value" else
      rend toHex (diffieHellman (EC.ops c) (fun z => ansiX963Kdf sha256 32 z size info) d Q))
  | ["kdf.x963", z, size, info] => do
    pure (rend toHex (ansiX963Kdf sha256 32 (← fromHex? z) (← parseInt? size) (← optBytes? info)))
  | ["kdf.hkdf", ikm, size, salt, info] => do
    pure (rend toHex (hkdf hmac256 32 (← fromHex? ikm) (← parseInt? size) (← optBytes? salt) (← optBytes? info)))
  | ["kdf.hkdf_expand", prk, size, info] => do
    pure (rend toHex (hkdfExpand hmac256 32 (← fromHex? prk) (← parseInt? size) (← optBytes? info)))
  | ["dleq.gen", a, bx, by_, aux, gx, gy, msg] => do
    let B : EC.Point := (← parseInt? bx, ← parseInt? by_)
    let Gp : EC.Point := (← parseInt? gx, ← parseInt? gy)
    let a ← parseInt? a
    let aux ← fromHex? aux
    let msg ← optBytes? msg
    pure (if !(scalarOk O a) then "err value"
      else if !(validPoint EC.secp256k1 B) || !(validPoint EC.secp256k1 Gp) then "err value"
      else rend toHex (dleqGenerate O Hh a B aux Gp msg))
  | ["dleq.verify", ax, ay, bx, by_, cx, cy, proof, gx, gy, msg] => do
    let A : EC.Point := (← parseInt? ax, ← parseInt? ay)
    let B : EC.Point := (← parseInt? bx, ← parseInt? by_)
    let C : EC.Point := (← parseInt? cx, ← parseInt? cy)
    let Gp : EC.Point := (← parseInt? gx, ← parseInt? gy)
    let proof ← fromHex? proof
    let msg ← optBytes? msg
    pure (if !(validPoint EC.secp256k1 A && validPoint EC.secp256k1 B && validPoint EC.secp256k1 C
                && validPoint EC.secp256k1 Gp) then "err value"
      else rend (fun _ => "valid") (dleqVerify O Hh A B C proof Gp msg))
  | _ => none

def point2? (x y : String) : Option EC.Point := do pure (← parseInt? x, ← parseInt? y)

def colon? (s : String) : List String := s.splitOn ":"

def keyFlag? (s : String) : Option (Int × Bool) :=
  match colon? s with
  | [a, "0"] => (parseInt? a).map (·, false)
  | [a, "1"] => (parseInt? a).map (·, true)
  | _ => none

def pointTok? (s : String) : Option EC.Point :=
  match colon? s with
  | [x, y] => point2? x y
  | _ => none

def recip? (s : String) : Option (EC.Point × EC.Point) :=
  match colon? s with
  | [a, b, c, d] => do pure (← point2? a b, ← point2? c d)
  | _ => none

def label? (s : String) : Option (Bytes × Int) :=
  match colon? s with
  | [k, v] => do pure (← fromHex? k, ← parseInt? v)
  | _ => none

def rFound (l : List (Bytes × Int)) : String :=
  if l.isEmpty then "-" else ",".intercalate (l.map fun p => toHex p.1 ++ ":" ++ toString p.2)

def vp (P : EC.Point) : Bool := validPoint EC.secp256k1 P

def silent : List String → Option String
  | ["sp.prv_key_sum", keys] => do
    pure (rend toString (prvKeySum O (← listOf? keyFlag? keys)))
  | ["sp.input_hash", ops, ax, ay] => do
    let ops ← bytesList? ops
    let A ← point2? ax ay
    pure (if !(vp A) then "err value" else
      match lowestOutpoint ops with
      | .error e => errS e
      | .ok lowest => rend toString (inputHash O Hh lowest A))
  | ["sp.label_tweak", b, m] => do
    pure (rend toString (labelTweak O Hh (← parseInt? b) (← m.toNat?)))
  | ["sp.output_keys", keys, ops, recips] => do
    let keys ← listOf? keyFlag? keys
    let ops ← bytesList? ops
    let recips ← listOf? recip? recips
    pure (if recips.any (fun r => !(vp r.1) || !(vp r.2)) then "err value"
      else rend rList (outputKeys O Hh keys ops recips))
  | ["sp.output_keys_walk", keys, ops, recips] => do
    let keys ← listOf? keyFlag? keys
    let ops ← bytesList? ops
    let recips ← listOf? recip? recips
    pure (if recips.any (fun r => !(vp r.1) || !(vp r.2)) then "err value"
      else rend rList (outputKeysWalk O Hh keys ops recips))
  | ["sp.scan_outputs", b, sx, sy, tx, ty, outs, labels] => do
    let b ← parseInt? b
    let S ← point2? sx sy
    let T ← point2? tx ty
    let outs ← bytesList? outs
    let labels ← listOf? label? labels
    pure (if !(vp S) || !(vp T) then "err value" else rend rFound (scanOutputs O Hh b S T outs labels))
  | ["sp.scan_tx", b, sx, sy, ops, pks, outs, labels] => do
    let b ← parseInt? b
    let S ← point2? sx sy
    let ops ← bytesList? ops
    let pks ← listOf? pointTok? pks
    let outs ← bytesList? outs
    let labels ← listOf? label? labels
    pure (if !(vp S) || pks.any (fun P => !(vp P)) then "err value"
      else rend rFound (scanTransactionOutputs O Hh b S ops pks outs labels))
  | ["pedersen.commit", r, v, hx, hy] => do
    let Hp ← point2? hx hy
    let r ← parseInt? r
    let v ← parseInt? v
    pure (if !(vp Hp) then "err value" else
      rend (fun (P : EC.Point) => s!"{P.1} {P.2}") (pedersenCommit O Hp r v))
  | ["pedersen.verify", r, v, cx, cy, hx, hy] => do
    let Hp ← point2? hx hy
    let C ← point2? cx cy
    let r ← parseInt? r
    let v ← parseInt? v
    pure (if !(vp Hp) then "err value" else "ok " ++ rBool (pedersenVerify O Hp r v C))
  | ["psbt.sp_output_keys", mode, keys, ops, recips] => do
    let keys ← listOf? keyFlag? keys
    let ops ← bytesList? ops
    let recips ← listOf? recip? recips
    let g ← (if mode == "global" then some true else if mode == "input" then some false else none)
    pure (if recips.any (fun r => !(vp r.1) || !(vp r.2)) then "err value"
      else rend rList (psbtOutputKeys O Hh g keys ops recips))
  | ["sp.prv_key_from_tweak", b, t] => do
    pure (rend toString (prvKeyFromTweak O (← parseInt? b) (← parseInt? t)))
  | _ => none

/-! toy cipher shared with harness/c16.py (the real `encrypt_f` is the caller's): PKCS#7 to 16-byte
blocks, then XOR with the repeated `key ‖ iv` -/
def toyPad (m : Bytes) : Bytes :=
  let k := 16 - m.length % 16
  m ++ List.replicate k (UInt8.ofNat k)

def toyXor (key iv : Bytes) (m : Bytes) : Bytes :=
  let ks := key ++ iv
  if ks.isEmpty then m else
  (List.range m.length).zipWith (fun i b => b ^^^ ks.getD (i % ks.length) 0) m

def toyEnc (key iv m : Bytes) : R Bytes := .ok (toyXor key iv (toyPad m))

def toyDec (key iv c : Bytes) : R Bytes :=
  let p := toyXor key iv c
  match p.getLast? with
  | none => .error .value
  | some k =>
    if k.toNat = 0 ∨ k.toNat > 16 ∨ k.toNat > p.length then .error .value
    else if (p.drop (p.length - k.toNat)).all (· == k) then .ok (p.take (p.length - k.toNat))
    else .error .value

def eciesOps : List String → Option String
  | ["ecies.encrypt", msg, px, py, q, magic] => do
    let P ← point2? px py
    let msg ← fromHex? msg
    let q ← parseInt? q
    let magic ← fromHex? magic
    pure (if !(vp P) then "err value" else
      rend toHex (eciesEncrypt O sha512 hmacSha256 toyEnc msg P q magic))
  | ["ecies.decrypt", env, d, magic] => do
    pure (rend toHex (eciesDecrypt O sha512 hmacSha256 toyDec (← fromHex? env) (← parseInt? d) (← fromHex? magic)))
  | _ => none

def swiftParams? (c : String) : Option Swift.Params := do
  let c ← EC.curveOfToken c
  if c.a ≠ 0 then none else Swift.params c.p c.b

def swiftOps : List String → Option String
  | ["ell.xswiftec", c, u, t] => do
    let u ← parseInt? u
    let t ← parseInt? t
    pure (match swiftParams? c with
      | none => "err value"
      | some P => match Swift.xswiftec P u t with
        | some x => s!"ok {x}"
        | none => "err runtime")
  | ["ell.xswiftec_inv", c, x, u, case] => do
    let x ← parseInt? x
    let u ← parseInt? u
    let case ← case.toNat?
    pure (match swiftParams? c with
      | none => "err value"
      | some P => match Swift.xswiftecInv P x u case with
        | some (some t) => s!"ok {t}"
        | some none => "ok None"
        | none => "err value")
  | _ => none

end C16Drv

def handle (toks : List String) : String :=
  match toks with
  | "gen" :: "Interactive" :: fn :: args => (Gen.Interactive.dispatch fn args).getD "bad-op"
  | _ =>
    match hashOp toks with
    | some r => r
    | none =>
      match EC.ecOp toks with
      | some r => r
      | none =>
        match toks with
        | t :: _ =>
          if t.startsWith "musig." || t.startsWith "bip340." then (C16Drv.musig toks).getD "bad-op"
          else if t.startsWith "dh." || t.startsWith "kdf." || t.startsWith "dleq." then
            (C16Drv.twoParty toks).getD "bad-op"
          else if t.startsWith "sp." || t.startsWith "pedersen." || t.startsWith "psbt." then (C16Drv.silent toks).getD "bad-op"
          else if t.startsWith "ell." then (C16Drv.swiftOps toks).getD "bad-op"
          else if t.startsWith "ecies." then (C16Drv.eciesOps toks).getD "bad-op"
          else "bad-op"
        | [] => "bad-op"

def main : IO Unit := runLoop handle
