import Model.Common.Proto
import Model.Common.HashProto
import Model.C12.Taproot
import Generated.Taproot
open Btc Btc.Taproot

/-!
line protocol of property C12 (harness/c12.py).  Group: `Btc.EC.ops secp256k1`; hash: `Btc.taggedHash`.

  tree <T>                         → ok <root> <v:script:path>|<v:script:path>|…
  leafhash <v> <script>            → ok <hex>
  outpub <sec|-> <T|->             → ok <q> <parity>
  outpubroot <x32> <root>          → ok <q> <parity>          (output_pubkey_from_merkle_root)
  outprv <d> <T|->                 → ok <d'>
  outprvroot <d> <root>            → ok <d'>
  iss <sec|-> <T> <i>              → ok <script> <control>
  check <q> <script> <control>     → ok True|False
  const                            → the generated constants
  p2trspk <sec|-> <T|->            → ok <scriptPubKey>        (ScriptPubKey.p2tr(...).script)
  isp2tr <hex>                     → ok True|False <guard>    (is_p2tr; guard 0/1/2 = length / version / push marker, - = none)
  pathof <T> <i>                   → ok <position bits> <v>:<script>:<path>   (the i-th leaf in tree order, positionally)
  pytree <P>                       → as `tree`, on ANY Python value (tree_helper's own guards)
  outpubpy <sec|-> <P> / outprvpy <d> <P> / isspy <sec|-> <P> <i>   → the entry points on any Python value
T is a tree in prefix form, `;`-separated: `L.<version>.<scripthex>` | `N;<T>;<T>`.
P is a Python value in prefix form, `;`-separated: `I.<int>` | `A.t.<k>` | `A.f.<k>` (other object, truthy / falsy; k names the object on the Python side) |
  `C.<n>.<hex>` (list of n commands serialising to hex) | `E.l` | `E.t` ([] / ()) | `O.l;<P>` | `O.t;<P>` |
  `T.l;<P>;<P>` | `T.t;<P>;<P>` | `M.l.<k>` | `M.t.<k>` (list / tuple of k+3 elements) |
  `S.<k>;<c1>;…;<ck>` (a LIST of k script commands: `i.<int>` | `s.<hex of the ASCII str>` | `b.<hex>` (bytes-like) | `x.<j>` (other object)).
  ser <P>                          → ok <hex>   (taproot.serialize of an `S.…` list; err cmd = BTClibValueError, err ctype = BTClibTypeError)
-/

def ops := Btc.EC.ops Btc.EC.secp256k1
def TH : TagHash := taggedHash

def parseTree : Nat → List String → Option (Tree × List String)
  | 0, _ => none
  | _, [] => none
  | fuel + 1, tok :: rest =>
    if tok == "N" then
      match parseTree fuel rest with
      | none => none
      | some (l, rest') =>
        match parseTree fuel rest' with
        | none => none
        | some (r, rest'') => some (.node l r, rest'')
    else
      match tok.splitOn "." with
      | ["L", v, s] =>
        match v.toNat?, fromHex? s with
        | some v, some s => some (.leaf v s, rest)
        | _, _ => none
      | _ => none

def tree? (s : String) : Option Tree :=
  let toks := s.splitOn ";"
  match parseTree (toks.length + 1) toks with
  | some (t, []) => some t
  | _ => none

def isListTok? (s : String) : Option Bool :=
  if s == "l" then some true else if s == "t" then some false else none

def parseCmd (tok : String) : Option Cmd :=
  match tok.splitOn "." with
  | ["i", v] => (parseInt? v).map .int
  | ["s", h] => (fromHex? h).map .str
  | ["b", h] => (fromHex? h).map .bytes
  | ["x", _] => some .other
  | _ => none

def takeCmds : Nat → List String → Option (List Cmd × List String)
  | 0, rest => some ([], rest)
  | _ + 1, [] => none
  | k + 1, tok :: rest =>
    match parseCmd tok, takeCmds k rest with
    | some c, some (cs, r) => some (c :: cs, r)
    | _, _ => none

def parsePy : Nat → List String → Option (PyVal × List String)
  | 0, _ => none
  | _, [] => none
  | fuel + 1, tok :: rest =>
    match tok.splitOn "." with
    | ["I", v] => (parseInt? v).map fun v => (.int v, rest)
    | ["A", b, _] => if b == "t" then some (.atom true, rest) else if b == "f" then some (.atom false, rest) else none
    | ["C", n, h] =>
      match n.toNat?, fromHex? h with
      | some n, some b => some (.cmds n b, rest)
      | _, _ => none
    | ["S", k] =>
      match k.toNat? with
      | some k => (takeCmds k rest).map fun (cs, r) => (.script cs, r)
      | none => none
    | ["E", l] => (isListTok? l).map fun l => (.nil l, rest)
    | ["M", l, k] =>
      match isListTok? l, k.toNat? with
      | some l, some k => some (.many l k, rest)
      | _, _ => none
    | ["O", l] =>
      match isListTok? l, parsePy fuel rest with
      | some l, some (x, rest') => some (.one l x, rest')
      | _, _ => none
    | ["T", l] =>
      match isListTok? l, parsePy fuel rest with
      | some l, some (x, rest') =>
        match parsePy fuel rest' with
        | some (y, rest'') => some (.two l x y, rest'')
        | none => none
      | _, _ => none
    | _ => none

def py? (s : String) : Option PyVal :=
  let toks := s.splitOn ";"
  match parsePy (toks.length + 1) toks with
  | some (v, []) => some v
  | _ => none

def rTree : Except Err (List LeafInfo × Bytes) → String
  | .ok (ls, r) => s!"ok {toHex r} " ++ "|".intercalate (ls.map fun ((v, s), p) => s!"{v}:{toHex s}:{toHex p}")
  | .error e => s!"err {e.name}"

def optTree? (s : String) : Option (Option Tree) :=
  if s == "-" then some none else (tree? s).map some

def optHex? (s : String) : Option (Option Bytes) :=
  if s == "-" then some none else (fromHex? s).map some

def rErr (e : Err) : String := s!"err {e.name}"

def rKey : Except Err (Bytes × Nat) → String
  | .ok (q, p) => s!"ok {toHex q} {p}"
  | .error e => rErr e

def rInt : Except Err Int → String
  | .ok d => s!"ok {d}"
  | .error e => rErr e

/-- a parsed tree goes through the PUBLIC functions (depth guard of `_subtree_helper` included) as the Python value it spells -/
def pyOf (t : Tree) : PyVal := t.toPy true 1

def outPubT (sec : Option Bytes) : Option Tree → Except Err (Bytes × Nat)
  | some t => outputPubkeyPy ops TH sec (pyOf t)
  | none => outputPubkey ops TH sec none

def handle (toks : List String) : String :=
  match Btc.hashOp toks with
  | some r => r
  | none =>
  -- `op@lib` / `op@py` name the arithmetic arm of the IMPLEMENTATION; the model has one answer for both
  let toks := match toks with
    | op :: rest => ((op.splitOn "@").headD op) :: rest
    | [] => []
  match toks with
  | "gen" :: "Taproot" :: fn :: args => (Gen.Taproot.dispatch fn args).getD "bad-op"
  | "gen" :: "VarInt" :: fn :: args => (Gen.VarInt.dispatch fn args).getD "bad-op"
  | ["const"] =>
    s!"ok {toHex Gen.Taproot.TAG_LEAF} {toHex Gen.Taproot.TAG_BRANCH} {toHex Gen.Taproot.TAG_TWEAK} " ++
    s!"{Gen.Taproot.MAX_TREE_DEPTH} {Gen.Taproot.CONTROL_HEAD} {Gen.Taproot.NODE_SIZE} " ++
    s!"{Gen.Taproot.LEAF_MASK} {Gen.Taproot.PARITY_MASK} {toHex numsSec}"
  | ["tree", t] =>
    match tree? t with
    | some t => rTree (treeHelperPy TH (pyOf t))
    | none => "bad-op"
  | ["p2trspk", sec, t] =>
    match optHex? sec, optTree? t with
    | some sec, some t =>
      match (outPubT sec t).map fun r => p2trScript r.1 with
      | .ok spk => s!"ok {toHex spk}"
      | .error e => rErr e
    | _, _ => "bad-op"
  | ["isp2tr", h] =>
    match fromHex? h with
    | some spk =>
      let g := match assertP2tr spk with | some k => toString k | none => "-"
      s!"ok {if isP2tr spk then "True" else "False"} {g}"
    | none => "bad-op"
  | ["pathof", t, i] =>
    match tree? t, i.toNat? with
    | some t, some i =>
      if t.depth > Gen.Taproot.MAX_TREE_DEPTH then "err deep" else
      match t.positions[i]? with
      | none => "err index"
      | some pos =>
        match t.leafAt pos, t.flatten[i]? with
        | some (v, s), some (v', s') =>
          let bits := String.ofList (pos.map fun b => if b then '1' else '0')
          if v == v' && s == s' then s!"ok {if bits.isEmpty then "_" else bits} {v}:{toHex s}:{toHex (pathOf TH t pos)}"
          else "err flatten-disagrees"
        | _, _ => "err no-leaf"
    | _, _ => "bad-op"
  | ["ser", p] =>
    match py? p with
    | some (.script cs) =>
      match (PyVal.script cs).scriptBytes with
      | .ok b => s!"ok {toHex b}"
      | .error e => rErr e
    | _ => "bad-op"
  | ["pytree", p] =>
    match py? p with
    | some v => rTree (treeHelperPy TH v)
    | none => "bad-op"
  | ["outpubpy", sec, p] =>
    match optHex? sec, py? p with
    | some sec, some v => rKey (outputPubkeyPy ops TH sec v)
    | _, _ => "bad-op"
  | ["outprvpy", d, p] =>
    match parseInt? d, py? p with
    | some d, some v => rInt (outputPrvkeyPy ops TH d v)
    | _, _ => "bad-op"
  | ["isspy", sec, p, i] =>
    match optHex? sec, py? p, parseInt? i with
    | some sec, some v, some i =>
      match inputScriptSigPy ops TH sec v i with
      | .ok (s, c) => s!"ok {toHex s} {toHex c}"
      | .error e => rErr e
    | _, _, _ => "bad-op"
  | ["leafhash", v, s] =>
    match parseInt? v, fromHex? s with
    | some v, some s =>
      match leafHashPub TH v s with
      | .ok h => s!"ok {toHex h}"
      | .error e => rErr e
    | _, _ => "bad-op"
  | ["outpub", sec, t] =>
    match optHex? sec, optTree? t with
    | some sec, some t => rKey (outPubT sec t)
    | _, _ => "bad-op"
  | ["outpubroot", x, r] =>
    match fromHex? x, fromHex? r with
    | some x, some r => if x.length ≠ 32 then "err key" else rKey (tweakedPubkey ops TH (2 :: x) r)
    | _, _ => "bad-op"
  | ["outprv", d, t] =>
    match parseInt? d, optTree? t with
    | some d, some (some t) => rInt (outputPrvkeyPy ops TH d (pyOf t))
    | some d, some none => rInt (outputPrvkey ops TH d none)
    | _, _ => "bad-op"
  | ["outprvroot", d, r] =>
    match parseInt? d, fromHex? r with
    | some d, some r =>
      if ¬ (0 < d ∧ d < ops.n) then "err prv" else rInt (tweakedPrvkey ops TH d r)
    | _, _ => "bad-op"
  | ["iss", sec, t, i] =>
    match optHex? sec, tree? t, parseInt? i with
    | some sec, some t, some i =>
      match inputScriptSigPy ops TH sec (pyOf t) i with
      | .ok (s, c) => s!"ok {toHex s} {toHex c}"
      | .error e => rErr e
    | _, _, _ => "bad-op"
  | ["check", q, s, c] =>
    match fromHex? q, fromHex? s, fromHex? c with
    | some q, some s, some c =>
      match checkOutputPubkey ops TH q s c with
      | .ok b => if b then "ok True" else "ok False"
      | .error e => rErr e
    | _, _, _ => "bad-op"
  | _ => "bad-op"

def main : IO Unit := runLoop handle
