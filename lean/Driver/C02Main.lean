import Model.Common.Proto
import Model.Common.ECProto
import Model.Common.HashProto
import Model.C02.Ecdsa
import Model.C02.Rfc6979
import Model.C02.Der
import Model.C02.Bms
import Model.C02.BmsSig
import Model.C02.Api
import Generated.Ecdsa
import Generated.VarInt
open Btc

/-! line protocol of property C02: see harness/c02.py -/

def hashSpec? : String → Option Rfc6979.HashSpec
  | "sha256" => some ⟨hmacSha256, 32⟩
  | "sha1" => some ⟨hmacSha1, 20⟩
  | "sha512" => some ⟨hmacSha512, 64⟩
  | _ => none

def isXCoord := Ecdsa.isXCoord

def bool? : String → Option Bool
  | "1" => some true
  | "0" => some false
  | _ => none

def optInt? (s : String) : Option (Option Int) :=
  if s == "-" then some none else (parseInt? s).map some

def errS (e : Ecdsa.Err) : String := s!"err {e.name}"

def pyBool (b : Bool) : String := if b then "True" else "False"

def renderOut {β : Type} (f : β → String) : Rfc6979.Out β → String
  | .ok v => "ok " ++ f v
  | .err e => errS e
  | .fuel => "err fuel"

def fuel : Nat := 4000

def pubKeyOk := Ecdsa.pubKeyOk

def pts (l : List EC.Point) : String :=
  "ok" ++ String.join (l.map fun P => s!" {P.1} {P.2}")

def ecdsaOp : List String → Option String
  | ["ecdsa.sign", C, c, q, k, ls] => do
    let C ← EC.curveOfToken C
    pure <| match Ecdsa.signRecoverable (EC.ops C) (← parseInt? c) (← parseInt? q) (← parseInt? k) (← bool? ls) with
      | .ok (r, s, kid) => s!"ok {r} {s} {kid}"
      | .error e => errS e
  | ["ecdsa.vcore", C, c, qx, qy, r, s, ls] => do
    let C ← EC.curveOfToken C
    pure <| match Ecdsa.verifyCore (EC.ops C) (← parseInt? c) (← parseInt? qx, ← parseInt? qy) (← parseInt? r) (← parseInt? s) (← bool? ls) with
      | .ok _ => "ok"
      | .error e => errS e
  | ["ecdsa.verify_", C, hf, m, qx, qy, r, s] => do
    let C ← EC.curveOfToken C
    let H ← hashSpec? hf
    let m ← fromHex? m
    let Q : EC.Point := (← parseInt? qx, ← parseInt? qy)
    let r ← parseInt? r
    let s ← parseInt? s
    let o := EC.ops C
    -- the entry model (a digest of the wrong size / a key that is no point / an invalid Sig: False), and beside it
    -- the SEC 1 predicate under the same screens
    let c := Rfc6979.challenge o.n m
    let sec1 := if m.length ≠ H.hlen ∨ ¬ pubKeyOk C Q then false else Ecdsa.verify o c Q r s
    pure s!"ok {pyBool (Ecdsa.verifyApi C H.hlen m Q r s)} {pyBool sec1}"
  | ["ecdsa.verifyder", hf, m, qx, qy, sig] => do
    let H ← hashSpec? hf
    pure s!"ok {pyBool (Ecdsa.verifyDer H.hlen (← fromHex? m) (← parseInt? qx, ← parseInt? qy) (← fromHex? sig))}"
  | ["ecdsa.challenge", C, hf, m] => do
    let C ← EC.curveOfToken C
    let H ← hashSpec? hf
    let m ← fromHex? m
    pure (if m.length ≠ H.hlen then "err value" else s!"ok {Rfc6979.challenge C.n m}")
  | ["rfc.nonce", C, hf, c, q, extra] => do
    let C ← EC.curveOfToken C
    let H ← hashSpec? hf
    pure <| match Rfc6979.nonce H C.n (← parseInt? c) (← parseInt? q) (← fromHex? extra) fuel with
      | some k => s!"ok {k}"
      | none => "err fuel"
  | ["ecdsa.signmsg", C, hf, m, q, k, ls, grind] => do
    let C ← EC.curveOfToken C
    let H ← hashSpec? hf
    pure <| renderOut (fun (σ : Int × Int) => s!"{σ.1} {σ.2}")
      (Rfc6979.signMsg (EC.ops C) H (← fromHex? m) (← parseInt? q) (← optInt? k) (← bool? ls) (← bool? grind) fuel)
  | ["ecdsa.signrec", C, hf, m, q, k, ls] => do
    let C ← EC.curveOfToken C
    let H ← hashSpec? hf
    pure <| renderOut (fun (σ : Int × Int × Int) => s!"{σ.1} {σ.2.1} {σ.2.2}")
      (Rfc6979.signRecMsg (EC.ops C) H (← fromHex? m) (← parseInt? q) (← optInt? k) (← bool? ls) fuel)
  | ["ecdsa.recover", C, kid, c, r, s, ls] => do
    let C ← EC.curveOfToken C
    pure <| match Ecdsa.recover (EC.ops C) (C.h == 1) (← parseInt? kid) (← parseInt? c) (← parseInt? r) (← parseInt? s) (← bool? ls) with
      | .ok Q => EC.renderPoint (some Q)
      | .error e => errS e
  | ["ecdsa.recoverall", C, c, r, s, ls] => do
    let C ← EC.curveOfToken C
    pure <| pts (Ecdsa.recoverAll (EC.ops C) C.h.toNat (← parseInt? c) (← parseInt? r) (← parseInt? s) (← bool? ls))
  | ["ecdsa.recover_", C, hf, kid, m, r, s] => do
    let C ← EC.curveOfToken C
    let H ← hashSpec? hf
    let m ← fromHex? m
    let r ← parseInt? r
    let s ← parseInt? s
    let kid ← parseInt? kid
    let o := EC.ops C
    pure <| match Ecdsa.sigValid o (isXCoord C) r s with
      | .error e => errS e
      | .ok _ =>
        if m.length ≠ H.hlen then "err value" else
        match Ecdsa.recover o (C.h == 1) kid (Rfc6979.challenge o.n m) r s false with
        | .ok Q => EC.renderPoint (some Q)
        | .error e => errS e
  | ["ecdsa.recoverall_", C, hf, m, r, s] => do
    let C ← EC.curveOfToken C
    let H ← hashSpec? hf
    let m ← fromHex? m
    let r ← parseInt? r
    let s ← parseInt? s
    let o := EC.ops C
    pure <| match Ecdsa.sigValid o (isXCoord C) r s with
      | .error e => errS e
      | .ok _ =>
        if m.length ≠ H.hlen then "err value" else
        pts (Ecdsa.recoverAll o C.h.toNat (Rfc6979.challenge o.n m) r s false)
  | ["ecdsa.crack_", C, hf, m1, r1, s1, m2, r2, s2] => do
    let C ← EC.curveOfToken C
    let H ← hashSpec? hf
    let m1 ← fromHex? m1
    let m2 ← fromHex? m2
    let r1 ← parseInt? r1
    let s1 ← parseInt? s1
    let r2 ← parseInt? r2
    let s2 ← parseInt? s2
    let o := EC.ops C
    pure <| match Ecdsa.sigValid o (isXCoord C) r1 s1, Ecdsa.sigValid o (isXCoord C) r2 s2 with
      | .error e, _ => errS e
      | _, .error e => errS e
      | .ok _, .ok _ =>
        if r1 ≠ r2 ∨ s1 = s2 then "err value"
        else if m1.length ≠ H.hlen ∨ m2.length ≠ H.hlen then "err value" else
        match Ecdsa.crack o (Rfc6979.challenge o.n m1) r1 s1 (Rfc6979.challenge o.n m2) r2 s2 with
        | .ok (q, k) => s!"ok {q} {k}"
        | .error e => errS e
  | _ => none

def addrType? : String → Option Bms.AddrType
  | "p2pkh" => some .p2pkh | "p2sh" => some .p2sh | "p2wpkh" => some .p2wpkh | _ => none

/-- bms on secp256k1: SEC octets of a 32-octet field, the real hash160 -/
def bmsEnv : Bms.Env EC.Point := ⟨Bms.secSer 32, hash160⟩

def derOp : List String → Option String
  | ["der.parse", strict, hex] => do
    pure <| match Der.parse (← bool? strict) (← fromHex? hex) with
      | some (r, s) => s!"ok {r} {s}"
      | none => "err value"
  | ["der.parsev", strict, hex] => do
    -- `Sig.parse(data, strict=…)` with the default check_validity=True: a secp256k1 signature
    let o := EC.ops EC.secp256k1
    pure <| match Der.parse (← bool? strict) (← fromHex? hex) with
      | some (r, s) =>
        (match Ecdsa.sigValid o (isXCoord EC.secp256k1) r s with
         | .ok _ => s!"ok {r} {s}"
         | .error e => errS e)
      | none => "err value"
  | ["der.ser", r, s] => do
    pure <| Py.renderBytes (Der.serialize (← parseInt? r) (← parseInt? s))
  | ["bms.flag", kid, comp, t] => do
    let t ← (match t with | "p2pkh" => some Bms.AddrType.p2pkh | "p2sh" => some .p2sh | "p2wpkh" => some .p2wpkh | _ => none)
    pure <| match Bms.flag (← kid.toNat?) (← bool? comp) t with
      | some rf => s!"ok {rf}"
      | none => "err value"
  | "bms.sign" :: mm :: q :: comp :: t :: payload :: _ => do
    let addr : Option Bms.Addr ← (if t == "-" then some none else do
      pure (some (← addrType? t, ← fromHex? payload)))
    pure <| renderOut (fun (v : Nat × Int × Int) => s!"{v.1} {v.2.1} {v.2.2}")
      (Bms.sign (EC.ops EC.secp256k1) bmsEnv ⟨hmacSha256, 32⟩ (← fromHex? mm) (← parseInt? q) (← bool? comp) addr fuel)
  | "bms.verify" :: mm :: t :: payload :: rf :: r :: s :: _ => do
    let mm ← fromHex? mm
    if mm.length ≠ 32 then none else
    pure <| match Bms.assertAsValid (EC.ops EC.secp256k1) bmsEnv (isXCoord EC.secp256k1)
        (Rfc6979.challenge EC.secp256k1.n mm) (← addrType? t, ← fromHex? payload) (← rf.toNat?) (← parseInt? r) (← parseInt? s) with
      | .ok _ => "ok"
      | .error e => errS e
  | ["bms.read", rf, t] => do
    let t ← (match t with | "p2pkh" => some Bms.AddrType.p2pkh | "p2sh" => some .p2sh | "p2wpkh" => some .p2wpkh | _ => none)
    let rf ← rf.toNat?
    pure s!"ok {Bms.keyIdOf rf} {pyBool (Bms.compressedOf rf)} {pyBool (Bms.accepts t rf)}"
  | _ => none

def handle (toks : List String) : String :=
  match toks with
  | "gen" :: "Ecdsa" :: fn :: args => (Gen.Ecdsa.dispatch fn args).getD "bad-op"
  | "gen" :: "VarInt" :: fn :: args => (Gen.VarInt.dispatch fn args).getD "bad-op"
  | _ =>
    match hashOp toks with
    | some r => r
    | none =>
      match EC.ecOp toks with
      | some r => r
      | none =>
        match ecdsaOp toks with
        | some r => r
        | none => (derOp toks).getD "bad-op"

def main : IO Unit := runLoop handle
