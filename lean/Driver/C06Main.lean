import Model.Common.Proto
import Model.Common.Sha256
import Model.C06.Bech32
import Model.C06.Bech32Ref
import Model.C06.BitRegroup
import Model.C06.Base58
import Model.C06.Address
import Model.C06.KeyText
import Model.C06.Slip132
import Model.C06.Bip21
import Generated.Bech32
import Generated.Base58
import Generated.Segwit
import Generated.Net
open Btc

/-- line protocol of property C06: see harness/c06.py.
    text = hex of latin-1 code points (`_` empty); value lists = comma separated integers (`_` empty). -/
def text? (s : String) : Option (List Nat) := (fromHex? s).map fun b => b.map (·.toNat)
def textHex (s : List Nat) : String := toHex (s.map UInt8.ofNat)

def ints? (s : String) : Option (List Int) :=
  if s == "_" then some [] else (s.splitOn ",").mapM parseInt?

def nats (l : List Nat) : String :=
  if l.isEmpty then "_" else ",".intercalate (l.map toString)

def optNat? (s : String) : Option (Option Nat) :=
  if s == "None" then some none else s.toNat?.map some

def cls {ε α} (f : ε → String) (r : Except ε α) (ok : α → String) : String :=
  match r with
  | .ok v => "ok " ++ ok v
  | .error e => "err " ++ f e

def specName : Bech32Ref.Encoding → String
  | .bech32 => "bech32" | .bech32m => "bech32m"

def refSegwitDecode (addr : List Nat) : String :=
  -- the reference takes the expected hrp: try the hrp of every generated network, first hit wins
  let hrps := (Gen.Net.NETWORKS.map (·.hrp)).eraseDups
  match hrps.findSome? (fun h => (Bech32Ref.segwitDecode h addr).map fun r => (h, r)) with
  | some (h, (v, p)) => s!"ref ok {v} {textHex p} {textHex h}"
  | none => "ref none"

/-- secp256k1's field prime and order (as in the `wif.dec` op), and "x is an x-coordinate": x < p and x³+7 is a
    square (Euler's criterion) — what `_is_x_coordinate_var` / libsecp256k1's x-only parse answer. -/
def secpP : Nat := 2 ^ 256 - 2 ^ 32 - 977
def secpN : Nat := 0xFFFFFFFFFFFFFFFFFFFFFFFFFFFFFFFEBAAEDCE6AF48A03BBFD25E8CD0364141

def powMod (m : Nat) : Nat → Nat → Nat → Nat → Nat
  | 0, _, _, acc => acc
  | fuel + 1, b, e, acc =>
    if e = 0 then acc else powMod m fuel (b * b % m) (e / 2) (if e % 2 = 1 then acc * b % m else acc)

def secpIsX (x : Nat) : Bool :=
  decide (x < secpP) && (let y2 := (x * x % secpP * x + 7) % secpP
                         y2 == 0 || powMod secpP 260 y2 ((secpP - 1) / 2) 1 == 1)

def handle : List String → String
  | "gen" :: "Bech32" :: fn :: args => (Gen.Bech32.dispatch fn args).getD "bad-op"
  | "gen" :: "Base58" :: fn :: args => (Gen.Base58.dispatch fn args).getD "bad-op"
  | "gen" :: "Segwit" :: fn :: args => (Gen.Segwit.dispatch fn args).getD "bad-op"
  | "gen" :: "Net" :: fn :: args => (Gen.Net.dispatch fn args).getD "bad-op"
  | ["polymod", vals] =>
    match ints? vals with
    | some v =>
      let v := v.map Int.toNat
      s!"ok {Bech32.polymod v} {Bech32Ref.polymod v}"
    | none => "bad-op"
  | ["bech32.enc", hrp, vals, m] =>
    match text? hrp, ints? vals, optNat? m with
    | some hrp, some d, some m =>
      match Bech32.encode hrp d m with
      | .error e => "err " ++ e.cls
      | .ok s =>
        let dn := d.map Int.toNat
        let eff := match m with | some m => some m | none => (match dn with | v :: _ => some (if v = 0 then 1 else Bech32Ref.BECH32M_CONST) | [] => none)
        let r := if eff = some 1 then (if Bech32Ref.encode hrp dn .bech32 = s then "ref-agrees" else "ref-differs")
                 else if eff = some Bech32Ref.BECH32M_CONST then (if Bech32Ref.encode hrp dn .bech32m = s then "ref-agrees" else "ref-differs")
                 else "ref-na"
        s!"ok {textHex s} {r}"
    | _, _, _ => "bad-op"
  | ["bech32.dec", txt, m] =>
    match text? txt, optNat? m with
    | some t, some m =>
      let a := cls Bech32.Err.cls (Bech32.decode t m) fun (h, d) => s!"{textHex h} {nats d}"
      -- known finding `bech32.hrp-range`: BIP173 allows HRP characters 33..126, btclib 48..122
      let deviates := match Bech32.splitLast 49 t with
        | some (pre, _) => pre.any fun c => 33 ≤ c && c ≤ 126 && !(47 < c && c < 123)
        | none => false
      let r := if deviates then "ref hrp-range-known" else
        match Bech32Ref.decode t with
        | some (h, d, spec) => s!"ref {textHex h} {nats d} {specName spec}"
        | none => "ref none"
      s!"{a} | {r}"
    | _, _ => "bad-op"
  | ["regroup", vals, f, t, pad] =>
    match ints? vals, f.toNat?, t.toNat? with
    | some v, some f, some t =>
      let p := pad == "True"
      let a := cls (fun _ => "value") (BitRegroup.convertInt v f t p) nats
      let r := if v.all (0 ≤ ·) then
          (match Bech32Ref.convertbits (v.map Int.toNat) f t p with | some l => "ref " ++ nats l | none => "ref none")
        else "ref none"
      s!"{a} | {r}"
    | _, _, _ => "bad-op"
  | ["b58.rawenc", hex] =>
    match fromHex? hex with
    | some b => "ok " ++ textHex (Base58.b58encode b)
    | none => "bad-op"
  | ["b58.rawdec", txt] =>
    match text? txt with
    | some t => cls (fun _ => "value") (Base58.b58decode t) toHex
    | none => "bad-op"
  | ["b58.enc", hex] =>
    match fromHex? hex with
    | some b => "ok " ++ textHex (Base58.encode hash256 b)
    | none => "bad-op"
  | ["b58.dec", txt, size] =>
    match text? txt, optNat? size with
    | some t, some n => cls (fun _ => "value") (Base58.decode hash256 t n) toHex
    | _, _ => "bad-op"
  | ["segwit.enc", ver, prog, net] =>
    match parseInt? ver, fromHex? prog with
    | some v, some p =>
      match Address.networkNamed net with
      | none => "err value | ref none"
      | some n =>
        let a := cls Address.Err.cls (Address.addressFromWitness v p n.hrp) textHex
        let r := if v < 0 then "ref none" else
          match Bech32Ref.segwitEncode n.hrp v.toNat (Address.toNats p) with
          | some s => "ref " ++ textHex s
          | none => "ref none"
        s!"{a} | {r}"
    | _, _ => "bad-op"
  | ["segwit.dec", txt] =>
    match text? txt with
    | some t =>
      let a := cls Address.Err.cls (Address.witnessFromAddress t) fun (v, p, n) => s!"{v} {toHex p} {n}"
      s!"{a} | {refSegwitDecode (Address.strip t)}"
    | none => "bad-op"
  | ["segwit.prefixed", txt] =>
    match text? txt with
    | some t => if Address.isSegwitPrefixed t then "ok True" else "ok False"
    | none => "bad-op"
  | ["h160.enc", kind, hex, net] =>
    match fromHex? hex, Address.networkNamed net with
    | some h, some n =>
      let k := if kind == "p2sh" then Address.Kind.p2sh else if kind == "p2pkh" then .p2pkh else .other
      cls Address.Err.cls (Address.addressFromH160 hash256 k h n) textHex
    | _, _ => "err value"
  | ["h160.dec", txt] =>
    match text? txt with
    | some t => cls Address.Err.cls (Address.h160FromAddress hash256 t) fun (k, h, n) => s!"{k.name} {toHex h} {n}"
    | none => "bad-op"
  | ["spk.type", hex] =>
    match fromHex? hex with
    | some s => let (k, p) := Address.typeAndPayload s; s!"ok {k.name} {if k = .other then "-" else toHex p}"
    | none => "bad-op"
  | ["spk.addr", hex, net] =>
    match fromHex? hex with
    | some s => cls Address.Err.cls (Address.address hash256 s net) textHex
    | none => "bad-op"
  | ["spk.from", txt] =>
    match text? txt with
    | some t => cls Address.Err.cls (Address.fromAddress hash256 t) fun (s, n) => s!"{toHex s} {n}"
    | none => "bad-op"
  | ["slip132.kind", ver] =>
    match fromHex? ver with
    | some v => match (Slip132.addressDispatch (Address.toNats v)).bind fun p => Slip132.functionKind p.1 with
      | some k => s!"ok {k}"
      | none => "ok none"
    | none => "bad-op"
  | ["slip132.version", ver, k, prv] =>
    match fromHex? ver, k.toNat? with
    | some v, some k =>
      match Slip132.builderVersion (["p2pkh_xkey", "p2wpkh_xkey", "p2wpkh_p2sh_xkey"].getD k "") (Address.toNats v)
          (prv == "True") with
      | some r => "ok " ++ toHex (Address.ofNats r)
      | none => "err value"
    | _, _ => "bad-op"
  | ["wif.enc", net, q, compr] =>
    match Address.networkNamed net, q.toNat? with
    | some n, some q => "ok " ++ textHex (KeyText.wifEncode hash256 n 32 q (compr == "True"))
    | _, _ => "bad-op"
  | ["wif.dec", txt] =>
    match text? txt with
    | some t =>
      match KeyText.wifDecode hash256 32 0xFFFFFFFFFFFFFFFFFFFFFFFFFFFFFFFEBAAEDCE6AF48A03BBFD25E8CD0364141 t with
      | .ok (q, n, c) => s!"ok {q} {n} {if c then "True" else "False"}"
      | .error _ => "err value"
    | none => "bad-op"
  | ["xkey.dec", txt] =>
    match text? txt with
    | some t =>
      match KeyText.xkeyDecode hash256 t with
      | .ok k => s!"ok {toHex k.version} {k.depth} {toHex k.parentFp} {k.index} {toHex k.chainCode} {toHex k.key}"
      | .error _ => "err value"
    | none => "bad-op"
  | ["bip21.query", txt] =>
    match text? txt with
    | some q =>
      match Bip21.parseQuery q with
      | .ok ps =>
        let items := (ps.map fun (k, v) => s!"{textHex k}={textHex v}").toArray.qsort (· < ·)
        "ok " ++ (if items.isEmpty then "_" else ";".intercalate items.toList)
      | .error _ => "err value"
    | none => "bad-op"
  | ["bip21.quote", txt] =>
    match text? txt with
    | some t => "ok " ++ textHex (Bip21.pctEncode t)
    | none => "bad-op"
  | ["xkey.decv", txt] =>
    match text? txt with
    | some t =>
      match KeyText.xkeyDecodeChecked hash256 secpN secpIsX t with
      | .ok k => s!"ok {toHex k.version} {k.depth} {toHex k.parentFp} {k.index} {toHex k.chainCode} {toHex k.key}"
      | .error _ => "err value"
    | none => "bad-op"
  | ["xkey.enc", ver, depth, fp, index, cc, key] =>
    match fromHex? ver, depth.toNat?, fromHex? fp, index.toNat?, fromHex? cc, fromHex? key with
    | some v, some d, some f, some i, some c, some k =>
      "ok " ++ textHex (KeyText.xkeyEncode hash256 ⟨v, d, f, i, c, k⟩)
    | _, _, _, _, _, _ => "bad-op"
  | _ => "bad-op"

def main : IO Unit := runLoop handle
