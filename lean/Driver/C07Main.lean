import Model.Common.Proto
import Model.Common.HashProto
import Model.Common.ECProto
import Model.C07.Bip32
import Model.C07.Instance
import Model.C07.DerPath
import Model.C07.Bip85
import Model.C07.Serial
import Model.C07.Shake256
import Generated.Bip32
open Btc Btc.Bip32

/-!
Line protocol of property C07 (see harness/c07.py).  `<xkey>` is six tokens:
`<version hex> <depth> <parent fingerprint hex> <index> <chain code hex> <key hex>`;
`<path>` is `_` or comma-separated decimal indexes; `<mac>` is `_` (HMAC-SHA512) or
`<i>:<hex>`: the MAC answers `<hex>` for any message ending in the 4-byte big-endian index `i`
(used to reach the invalid-child branches, which no real HMAC output reaches).
`bip85.app <forced> <xkey> <app> <args…>`: `<forced>` is `none` or the 64 bytes BIP85's own HMAC is made to answer.
-/

def macOf (tok : String) : Option (Bytes → Bytes → Bytes) :=
  if tok == "_" then some hmacSha512 else
  match tok.splitOn ":" with
  | [i, h] => do
    let i ← i.toNat?
    let h ← fromHex? h
    pure fun c d => if d.drop (d.length - 4) == beBytes 4 i then h else hmacSha512 c d
  | _ => none

def envOf (mac : Bytes → Bytes → Bytes) : Env EC.Point := secpEnv mac

def xkeyOf : List String → Option XKey
  | [v, d, fp, i, cc, k] => do
    pure { version := ← fromHex? v, depth := ← d.toNat?, parentFp := ← fromHex? fp, index := ← i.toNat?,
           chain := ← fromHex? cc, key := ← fromHex? k }
  | _ => none

def pathOf (s : String) : Option (List Nat) :=
  if s == "_" then some [] else (s.splitOn ",").mapM (·.toNat?)

def optBytes (s : String) : Option (Option Bytes) :=
  if s == "none" then some none else (fromHex? s).map some

def boolOf (s : String) : Option Bool :=
  if s == "True" then some true else if s == "False" then some false else none

def renderX (x : XKey) : String :=
  s!"{toHex x.version} {x.depth} {toHex x.parentFp} {x.index} {toHex x.chain} {toHex x.key}"

def rX (r : Except Err XKey) : String :=
  match r with | .ok x => "ok " ++ renderX x | .error e => "err " ++ e.name

def rB (r : Except Err Bytes) : String :=
  match r with | .ok b => "ok " ++ toHex b | .error e => "err " ++ e.name

def showPath (p : List Nat) : String := if p.isEmpty then "_" else ",".intercalate (p.map toString)

def rP (r : Except DerPath.Err (List Nat)) : String :=
  match r with | .ok p => "ok " ++ showPath p | .error e => "err " ++ e.name

def strOfHex (s : String) : Option (List Char) := do
  let b ← fromHex? s
  pure (b.map fun c => Char.ofNat c.toNat)

def bip32Op : List String → Option String
  | "bip32.derive" :: mac :: v :: d :: fp :: i :: cc :: k :: [path, forced] => do
    let E := envOf (← macOf mac)
    pure (rX (derive E (← xkeyOf [v, d, fp, i, cc, k]) (← pathOf path) (← optBytes forced)))
  | "bip32.raw" :: mac :: v :: d :: fp :: i :: cc :: k :: [path, forced] => do
    let E := envOf (← macOf mac)
    pure (rX (deriveB E (← xkeyOf [v, d, fp, i, cc, k]) (← pathOf path) (← optBytes forced)))
  | "bip32.fold" :: mac :: v :: d :: fp :: i :: cc :: k :: [path] => do
    let E := envOf (← macOf mac)
    let x ← xkeyOf [v, d, fp, i, cc, k]
    let p ← pathOf path
    -- where T1 says the fold and `_derive` refuse alike, the refusal is compared by name
    let exact := (x.isPrivate || p.all (· < HARDENED)) && x.depth + p.length ≤ MAX_DEPTH
    pure (match deriveFold E x p with
          | .ok y => "ok " ++ renderX y | .error e => if exact then "err " ++ e.name else "err any")
  | "bip32.neuter" :: x => do pure (rX (xpubFromXprv (envOf hmacSha512) (← xkeyOf x)))
  | "bip32.fp" :: x => do pure (rB (fingerprint (envOf hmacSha512) (← xkeyOf x)))
  | "bip32.valid" :: x => do
    pure (match assertValid (envOf hmacSha512) (← xkeyOf x) with | .ok _ => "ok" | .error e => "err " ++ e.name)
  | ["bip32.root", seed, ver] => do pure (rX (rootFromSeed (envOf hmacSha512) (← fromHex? seed) (← fromHex? ver)))
  | "bip32.ser" :: x => do pure (match serialize (envOf hmacSha512) (← xkeyOf x) with | .ok b => "ok " ++ toHex b | .error _ => "err any")
  | ["bip32.parse", b] => do pure (match parse (envOf hmacSha512) (← fromHex? b) with | .ok x => "ok " ++ renderX x | .error _ => "err any")
  | ["bip32.rootm", mac, seed, ver] => do pure (rX (rootFromSeed (envOf (← macOf mac)) (← fromHex? seed) (← fromHex? ver)))
  | "bip32.crack" :: mac :: v :: d :: fp :: i :: cc :: k :: c => do
    pure (rX (crack (envOf (← macOf mac)) (← xkeyOf [v, d, fp, i, cc, k]) (← xkeyOf c)))
  | "bip32.account" :: v :: d :: fp :: i :: cc :: k :: [branch, addr, only01, mx] => do
    pure (rX (deriveFromAccount (envOf hmacSha512) (← xkeyOf [v, d, fp, i, cc, k]) (← branch.toNat?) (← addr.toNat?)
      (← boolOf only01) (← mx.toNat?)))
  | "bip32.range" :: v :: d :: fp :: i :: cc :: k :: [branch, addrs, only01, mx] => do
    pure (match deriveFromAccountRange (envOf hmacSha512) (← xkeyOf [v, d, fp, i, cc, k]) (← branch.toNat?)
      (← pathOf addrs) (← boolOf only01) (← mx.toNat?) with
      | .ok xs => "ok " ++ " | ".intercalate (xs.map renderX) | .error e => "err " ++ e.name)
  | ["bip32.tweaks", mac, key, cc, path] => do
    pure (match pubTweaks (envOf (← macOf mac)) (← fromHex? key) (← fromHex? cc) (← pathOf path) with
          | .ok ts => "ok " ++ (if ts.isEmpty then "_" else ",".intercalate (ts.map toHex)) | .error e => "err " ++ e.name)
  | "bip85.entropy" :: v :: d :: fp :: i :: cc :: k :: [path] => do
    pure (rB (bip85Entropy (envOf hmacSha512) (← xkeyOf [v, d, fp, i, cc, k]) (← pathOf path)))
  | ["shake256", m, n] => do pure ("ok " ++ toHex (Keccak.shake256 (← fromHex? m) (← n.toNat?)))
  | "bip85.app" :: forced :: v :: d :: fp :: i :: cc :: k :: app :: args => do
    let E := envOf hmacSha512
    let f ← optBytes forced
    let x ← xkeyOf [v, d, fp, i, cc, k]
    let a ← args.mapM (fun t => if t == "none" then some none else t.toNat?.map some)
    let rA {β} (r : Except Bip85.AErr β) (sh : β → String) : String :=
      match r with | .ok b => "ok " ++ sh b | .error e => "err " ++ e.name
    match app, a with
    | "bip39", [some w, some l, some ix] => pure (rA (Bip85.bip39Entropy E f x w l ix) toHex)
    | "hex", [some n, some ix] => pure (rA (Bip85.hexApp E f x n ix) toHex)
    | "wif", [some ix] => pure (rA (Bip85.wifPayload E f x ix) toHex)
    | "xprv", [some ix] => pure (rA (Bip85.xprvApp E f x ix) renderX)
    | "pwd64", [some n, some ix] => pure (rA (Bip85.pwd64 E f x n ix) String.ofList)
    | "pwd85", [some n, some ix] => pure (rA (Bip85.pwd85 E f x n ix) String.ofList)
    | "rolls", [some r, some sd, some ix] =>
      pure (rA (Bip85.rollsApp E Keccak.shake256 f x r sd ix) fun h => ",".intercalate (h.map toString))
    | "rsa", [some b, some ix, sub, some n] => pure (rA (Bip85.rsaStream E Keccak.shake256 f x b ix sub n) toHex)
    | _, _ => none
  | ["ver.pub", v] => do
    pure (match Gen.Bip32.pubVersion (← fromHex? v) with | some p => "ok " ++ toHex p | none => "err bad-version")
  | ["path.parse", s] => do pure (rP (DerPath.indexesFromStr (← strOfHex s)))
  | ["path.parse380", s] => do pure (rP (DerPath.indexesFromStr380 (← strOfHex s)))
  | ["path.str", p, h] => do
    let h ← strOfHex h
    pure (match DerPath.strFromIndexes (← pathOf p) h with
          | .ok cs => "ok " ++ toHex (cs.map fun c => UInt8.ofNat c.toNat) | .error e => "err " ++ e.name)
  | ["path.bytes", p] => do
    pure (match DerPath.bytesFromIndexes (← pathOf p) with | .ok b => "ok " ++ toHex b | .error e => "err " ++ e.name)
  | ["path.frombytes", b] => do pure (rP (DerPath.indexesFromBytes (← fromHex? b)))
  | _ => none

def handle (toks : List String) : String :=
  match toks with
  | "gen" :: "Bip32" :: fn :: args => (Gen.Bip32.dispatch fn args).getD "bad-op"
  | _ =>
    match hashOp toks with
    | some r => r
    | none =>
      match EC.ecOp toks with
      | some r => r
      | none => (bip32Op toks).getD "bad-op"

def main : IO Unit := runLoop handle
