import Model.Common.Proto
import Model.Common.ECProto
import Model.Common.GroupOps
import Model.Common.HashProto
import Model.C02.Ecdsa
import Model.C02.Rfc6979
import Model.C03.Schnorr
import Generated.Ecdsa
import Generated.Schnorr
import Model.C04.Domain
import Model.C04.Verdict
import Model.C04.Verdict2
import Model.C04.Derived
import Model.C04.Refusal
import Model.C04.Switch
import Generated.Backend
import Generated.BackendSites
open Btc Btc.C04

/-!
line protocol of property C04 (harness/c04.py)

  gen Backend <fn> <args…>                      generated functions (`gen.*` validation streams)
  guard bit <site> <bits> <tag>                 the generated guard alone (`guard.*` streams: spy on the bindings)
  guard <site> <bits>                           generated guard / established / catches of one delegation site on an
                                                atom vector (`0`/`1` per field of `Gen.Backend.Atoms`, in order)
  verdict <api> <py|bind> <class tokens…>       T2 verdict tables
  refusal <i> <py|bind>                         row i of `refusalTable`: the Python arm's class / the class the GENERATED
                                                handlers give the bindings arm when the C call refuses
  refusals                                      the rows: `<i>|<site>|<atom>|<class key>` joined by `;`
  inventory                                     generated `consulting` list: `<function>=<status>` …
  dual.<api> …                                  the backend-free model M of the curve-level dual-path APIs (shared EC model)
-/

def parseEnum {α : Type} [Repr α] (all : List α) (tok : String) : Option α :=
  all.find? fun c => (reprStr c).endsWith ("." ++ tok)

def bool? : String → Option Bool
  | "1" => some true
  | "0" => some false
  | _ => none

def verdictOp : List String → Option String
  | ["mult", arm, m, q] => do
    let m ← parseEnum Scalar.all m; let q ← parseEnum Point.all q
    -- the bindings arm is answered by the table DERIVED from the generated guards (Model/C04/Derived.lean)
    pure (if arm == "py" then Mult.py m q else Mult.bindDerived m q).token
  | ["tweakadd", arm, t, p] => do
    let t ← parseEnum Tweak.all t; let p ← parseEnum Point.all p
    pure (if arm == "py" then TweakAdd.py t p else TweakAdd.bindDerived t p).token
  | ["pubkey", arm, q] => do
    let q ← parseEnum Scalar.all q
    pure (if arm == "py" then PubKey.py q else PubKey.bindDerived q).token
  | ["dh", arm, d, q] => do
    let d ← parseEnum Scalar.all d; let q ← parseEnum Point.all q
    pure (if arm == "py" then Dh.py d q else Dh.bindDerived d q).token
  | ["pfo", arm, hyb, k] => do
    let hyb ← bool? hyb; let k ← parseEnum Sec.all k
    pure (if arm == "py" then PointFromOctets.py hyb k else PointFromOctets.bind hyb k).token
  | ["dsa.assert", arm, m, k, s] => do
    let m ← parseEnum MsgLen.all m; let k ← parseEnum Key.all k; let s ← parseEnum DsaSig.all s
    pure (if arm == "py" then DsaAssert.py m k s else DsaAssert.bind m k s).token
  | ["eng.dsa", arm, m, k, s] => do
    let m ← parseEnum MsgLen.all m; let k ← parseEnum EngineDsa.EKey.all k; let s ← parseEnum DsaSig.all s
    pure (if arm == "py" then EngineDsa.py m k s else EngineDsa.bind m k s).token
  | ["dsa.recover", arm, kid, m, s] => do
    let kid ← parseEnum KeyId.all kid; let m ← parseEnum MsgLen.all m; let s ← parseEnum DsaSig.all s
    pure (if arm == "py" then Recover.py kid m s else Recover.bind kid m s).token
  | ["ssa.assert", arm, k, s] => do
    let k ← parseEnum XKey.all k; let s ← parseEnum SsaSig.all s
    pure (if arm == "py" then SsaAssert.py k s else SsaAssert.bind k s).token
  | ["dsa.sign", arm, q, m, k] => do
    let q ← parseEnum Scalar.all q; let m ← parseEnum MsgLen.all m; let k ← parseEnum PubArg.all k
    pure (if arm == "py" then DsaSign.py q m k else DsaSign.bind q m k).token
  | ["ssa.sign", arm, q, a] => do
    let q ← parseEnum Scalar.all q; let a ← parseEnum MsgLen.all a
    pure (if arm == "py" then SsaSign.py q a else SsaSign.bind q a).token
  | ["tap.outroot", arm, k] => do
    let k ← parseEnum XKey.all k
    pure (if arm == "py" then TapOutRoot.py k else TapOutRoot.bind k).token
  | ["tap.outpub", arm, k] => do
    let k ← parseEnum Sec.all k
    pure (if arm == "py" then TapOutPub.py k else TapOutPub.bind k).token
  | ["tap.prvroot", arm, q] => do
    let q ← parseEnum Scalar.all q
    pure (if arm == "py" then TapPrv.py q else TapPrv.bind q).token
  | ["tap.check", arm, q, c, _tag] => do
    let q ← parseEnum QKey.all q; let c ← parseEnum Control.all c
    pure (if arm == "py" then TapCheck.py q c else TapCheck.bind q c).token
  | ["bip32", arm, ch, i, il] => do
    let ch ← parseEnum Chain.all ch; let i ← parseEnum ChildIndex.all i; let il ← parseEnum IL.all il
    pure (if arm == "py" then Bip32.py ch i il else Bip32.bind ch i il).token
  | ["musig", arm, m, s, r, k] => do
    let m ← parseEnum MsgLen.all m; let s ← parseEnum PSig.all s; let r ← parseEnum PubNonce.all r
    let k ← parseEnum SignerKey.all k
    pure (if arm == "py" then Musig.py s r k else Musig.bind m s r k).token
  | ["ell.create", arm, q] => do
    let q ← parseEnum Scalar.all q
    pure (if arm == "py" then Ell.createPy q else Ell.createBind q).token
  | ["ell.decode", arm, a] => do
    let a ← parseEnum EllLen.all a
    pure (if arm == "py" then Ell.decodePy a else Ell.decodeBind a).token
  | ["ell.xdh", arm, a, b, p, q] => do
    let a ← parseEnum EllLen.all a; let b ← parseEnum EllLen.all b; let p ← parseEnum Party.all p
    let q ← parseEnum Scalar.all q
    pure (if arm == "py" then Ell.xdhPy a b p q else Ell.xdhBind a b p q).token
  | ["ell.encode", arm, k] => do
    let k ← parseEnum Sec.all k
    pure (if arm == "py" then Ell.encodePy k else Ell.encodeBind k).token
  | ["commit", arm, k, c] => do
    let k ← parseEnum Scalar.all k; let c ← bool? c
    pure (if arm == "py" then Commit.py k c else Commit.bind k c).token
  | ["sp.out", arm, k, a] => do
    let k ← parseEnum KeySum.all k; let a ← parseEnum Addresses.all a
    pure (if arm == "py" then SpOut.py k a else SpOut.bind k a).token
  | ["eng.ssa", arm, k, s] => do
    let k ← parseEnum XKey.all k; let s ← parseEnum SsaSig.all s
    pure (if arm == "py" then EngineSsa.py k s else EngineSsa.bind k s).token
  | ["eng.tx", arm, v, _tag] => do
    let v ← parseEnum TxVector.all v
    pure (if arm == "py" then TxVerdict.py v else TxVerdict.bind v).token
  | ["sp.scan", arm, c] => do
    let c ← parseEnum SpOutput.all c
    pure (if arm == "py" then SpScan.py c else SpScan.bind c).token
  | _ => none

def guardOp : List String → Option String
  | [site, bits] => do
    let s ← Gen.BackendSites.SiteId.ofName site
    let x := Gen.Backend.Atoms.ofBits (bits.toList.map (· == '1'))
    let b (v : Bool) := if v then "1" else "0"
    pure s!"ok guard={b (s.guard x)} established={b (s.established x)} catches={b s.catches} domain={b (pre s x)}"
  | ["bit", site, bits, _tag] => do
    let s ← Gen.BackendSites.SiteId.ofName site
    pure (if s.guard (Gen.Backend.Atoms.ofBits (bits.toList.map (· == '1'))) then "ok 1" else "ok 0")
  | _ => none

/-! ## the model M of the curve-level APIs -/
namespace M
open Btc.EC

def C : Curve := secp256k1
def g : CurveGroup := C.toCurveGroup

def onCurve (Q : EC.Point) : Bool := isOnCurve g Q == some true

def rPt (P : EC.Point) : String := if P.2 = 0 then "inf" else s!"{P.1} {P.2}"
def rOpt (r : Option EC.Point) : String :=
  match r with | some P => "ok " ++ rPt P | none => "err value"

def pt? (x y : String) : Option EC.Point := do pure (← parseInt? x, ← parseInt? y)

def points? : List String → Option (List EC.Point)
  | [] => some []
  | x :: y :: rest => do pure ((← pt? x y) :: (← points? rest))
  | _ => none

def terms? : List String → Option (List (Int × EC.Point))
  | [] => some []
  | m :: x :: y :: rest => do pure ((← parseInt? m, ← pt? x y) :: (← terms? rest))
  | _ => none

def xterms? : List String → Option (List (Int × Int))
  | [] => some []
  | m :: x :: rest => do pure ((← parseInt? m, ← parseInt? x) :: (← xterms? rest))
  | _ => none

def add (P Q : EC.Point) : EC.Point := (addAff g P Q).getD INF
def mul (m : Int) (P : EC.Point) : EC.Point := (mult C m P).getD INF
def sumPts (l : List EC.Point) : EC.Point := l.foldl add INF

def hexOfPoint (P : EC.Point) (compressed : Bool) : Bytes :=
  if compressed then (if P.2 % 2 = 1 then 3 else 2) :: beBytes 32 P.1.toNat
  else 4 :: (beBytes 32 P.1.toNat ++ beBytes 32 P.2.toNat)

/-- `point_from_octets(octets, secp256k1, hybrid=…)` -/
def pointFromOctets (b : Bytes) (hybrid : Bool) : Option EC.Point :=
  if b.length ≠ 33 ∧ b.length ≠ 65 then none else
  let prefix_ := (b.headD 0).toNat
  if prefix_ = 2 ∨ prefix_ = 3 then
    if b.length ≠ 33 then none else
    let x : Int := ofBE (b.drop 1)
    (yEven g x).map fun y => (x, if prefix_ = 2 then y else C.p - y)
  else if prefix_ = 4 ∨ (hybrid ∧ (prefix_ = 6 ∨ prefix_ = 7)) then
    if b.length ≠ 65 then none else
    let x : Int := ofBE ((b.drop 1).take 32)
    let y : Int := ofBE (b.drop 33)
    if y = 0 then none
    else if prefix_ ≠ 4 ∧ y % 2 ≠ (prefix_ : Int) - 6 then none
    else if onCurve (x, y) then some (x, y) else none
  else none

def isX (x : Int) : Bool :=
  decide (0 ≤ x ∧ x < C.p) && (modPow (y2 g x) ((C.p.toNat - 1) / 2) C.p != C.p - 1)

def op : List String → Option String
  | ["dual.mult", m, x, y] => do
    let m ← parseInt? m
    if x == "-" then pure (rOpt (mult C m C.G)) else
    let Q ← pt? x y
    pure (if Q != C.G ∧ !onCurve Q then "err value" else rOpt (mult C m Q))
  | ["dual.prepared", m, x, y] => do
    let m ← parseInt? m; let Q ← pt? x y
    pure (if !onCurve Q ∨ Q.2 = 0 then "err value" else rOpt (mult C m Q))
  | ["dual.dmult", u, hx, hy, v, qx, qy] => do
    let H ← pt? hx hy; let Q ← pt? qx qy
    let u ← parseInt? u; let v ← parseInt? v
    pure (if !onCurve H ∨ !onCurve Q then "err value" else rOpt (doubleMult C u H v Q))
  | "dual.mmult" :: rest => do
    let ts ← terms? rest
    pure (if ts.any (fun t => !onCurve t.2) then "err value"
          else if ts.length < 2 then "err value"
          else "ok " ++ rPt (sumPts (ts.map fun t => mul t.1 t.2)))
  | "dual.mmultx" :: rest => do
    let ts ← xterms? rest
    match ts.mapM (fun t => (yEven g t.2).map fun y => (t.1, ((t.2, y) : EC.Point))) with
    | none => pure "err value"
    | some l => pure (if l.length < 2 then "err value" else "ok " ++ rPt (sumPts (l.map fun t => mul t.1 t.2)))
  | "dual.sum" :: rest => do
    let ps ← points? rest
    pure (if ps.any (fun P => !onCurve P) then "err value" else "ok " ++ rPt (sumPts ps))
  | ["dual.tweakadd", x, y, t] => do
    let P ← pt? x y
    let t ← parseInt? t
    pure (if !onCurve P then "err value" else "ok " ++ rPt (add P (mul t C.G)))
  | ["dual.tweakchain", x, y, ts] => do
    let P ← pt? x y
    let ts ← (ts.splitOn ",").mapM parseInt?
    pure (if !onCurve P then "err value"
          else "ok [" ++ ",".intercalate (ts.map fun t => rPt (add P (mul t C.G))) ++ "]")
  | ["dual.isx", x] => do pure (if isX (← parseInt? x) then "ok True" else "ok False")
  | ["dual.yeven", x] => do
    pure (match yEven g (← parseInt? x) with | some y => s!"ok {y}" | none => "err value")
  | ["dual.pubkey", q, c] => do
    let P := mul (← parseInt? q) C.G
    let c ← bool? c
    pure (if P.2 = 0 then "err value" else "ok " ++ toHex (hexOfPoint P c))
  | ["dual.pfo", b, h] => do
    pure (match pointFromOctets (← fromHex? b) (← bool? h) with | some P => "ok " ++ rPt P | none => "err value")
  | ["dual.sfo", b] => do
    let b ← fromHex? b
    pure (match pointFromOctets b false with
          | some P => "ok " ++ toHex (hexOfPoint P (b.length == 33)) | none => "err value")
  | ["dual.multsec", b, m] => do
    let b ← fromHex? b; let m ← parseInt? m
    pure (match pointFromOctets b false with
          | some P => rOpt (mult C m P) | none => "err value")
  | _ => none

end M

/-! ## the models of the signature schemes (properties C02 and C03: the same definitions their theorems are about) -/
namespace S
open Btc.EC

def o := EC.ops EC.secp256k1
def H256 : Rfc6979.HashSpec := ⟨hmacSha256, 32⟩
def prm : Schnorr.Params :=
  let c := EC.secp256k1
  let nlen := Py.natBitLength c.n.toNat
  { pSize := (Py.natBitLength c.p.toNat + 7) / 8, nSize := (nlen + 7) / 8, nlen := nlen, hfLen := 32, TH := taggedHash }
def FUEL : Nat := 10000

def optInt? (s : String) : Option (Option Int) := if s == "-" then some none else (parseInt? s).map some

def sig? (s : String) : Option (Int × Int) :=
  match s.splitOn ":" with
  | [r, t] => do pure (← parseInt? r, ← parseInt? t)
  | _ => none

def op : List String → Option String
  -- dsa.sign_(msg, q, nonce, lower_s, grind=…, verify=…) without pub_key (lines carrying one are not sent here)
  | ["dual.dsa.sign", m, q, k, ls, gr, _vf, "-"] => do
    let m ← fromHex? m; let q ← parseInt? q; let k ← optInt? k; let ls ← bool? ls; let gr ← bool? gr
    pure (match Rfc6979.signMsg o H256 m q k ls gr 4000 with
          | .ok σ => s!"ok {σ.1} {σ.2}" | .err e => s!"err {e.name}" | .fuel => "err fuel")
  | ["dual.dsa.signrec", m, q, k, ls] => do
    let m ← fromHex? m; let q ← parseInt? q; let k ← optInt? k; let ls ← bool? ls
    pure (match Rfc6979.signRecMsg o H256 m q k ls 4000 with
          | .ok σ => s!"ok {σ.1} {σ.2.1} {σ.2.2}" | .err e => s!"err {e.name}" | .fuel => "err fuel")
  | ["dual.ssa.sign", m, q, aux, vf] => do
    let m ← fromHex? m; let q ← parseInt? q; let aux ← fromHex? aux; let vf ← bool? vf
    pure (match (if vf then Schnorr.signChecked o prm FUEL m q aux else Schnorr.sign o prm FUEL m q aux) with
          | .ok sg => s!"ok {sg.r} {sg.s}" | .error e => s!"err {e.name}")
  -- ssa.assert_as_valid_(msg, 32-byte x-only key, Sig(r, s))
  | ["dual.ssa.assert", m, x, sg] => do
    let m ← fromHex? m; let x ← fromHex? x; let (r, t) ← sig? sg
    if x.length ≠ 32 then none else
    pure (match Schnorr.assertAsValid o prm m (ofBE x) ⟨r, t⟩ with | .ok _ => "ok None" | .error e => s!"err {e.name}")
  | _ => none

end S

def handle (toks : List String) : String :=
  match toks with
  | "gen" :: "Backend" :: fn :: args => (Gen.Backend.dispatch fn args).getD "bad-op"
  | "guard" :: rest => (guardOp rest).getD "bad-op"
  | "verdict" :: rest => (verdictOp rest).getD "bad-op"
  | "refusal" :: rest => (refusalOp rest).getD "bad-op"
  | "refusals" :: _ => "ok " ++ ";".intercalate ((List.range refusalTable.length).zip refusalTable |>.map fun (i, e) =>
      s!"{i}|{e.site.name}|{e.atom}|{e.cls}")
  | "inventory" :: _ => "ok " ++ " ".intercalate (Gen.BackendSites.consulting.map fun f => s!"{f.1}={f.2}")
  | "sites" :: _ => "ok " ++ " ".intercalate (Gen.BackendSites.SiteId.all.map fun s =>
      s!"{s.name}={(domainFrom s).replace " " "_"}")
  | _ =>
    match M.op toks with
    | some r => r
    | none => (S.op toks).getD "no-model"

def main : IO Unit := runLoop handle
