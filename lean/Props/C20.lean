/-!
# C20 — property theorems only (see DESIGN.md §3 C20).
-/
namespace Props.C20

end Props.C20
