import Proofs.C20.Nonce
import Proofs.C20.Machines
import Proofs.C20.Wallet
/-!
# C20 — nonces sign once, wiped signers stay dead, answers do not depend on history

Property theorems only (DESIGN §3 C20, T1–T5).  Every theorem is about *every finite history*
(`List` of operations, by induction) of the transition systems of `Model/C20/Lifecycle.lean`,
whose step functions interpret the statement lists `Gen.Lifecycle.*` that the translator reads off
/repo's source on every run: reorder `musig2.sign`, `Signer.sign_`, `Signer.wipe` or
`RangedWallet.address` and these proofs are re-checked against the new order.

Not a theorem here (runtime behaviour no model of this code exhibits): CPython thread scheduling.
T4 covers every interleaving of *atomic* cache operations (an interleaving is one more history);
the harness searches real threads (`harness/c20.py`, stream `threads`).
-/
namespace Props.C20
open Btc Btc.C20

/-! ## T1 — a MuSig2 secret nonce signs at most once -/

/-- Once the session assembles, the call overwrites the first 64 bytes of the caller's bytearray
    — whether it then returns a signature or refuses (range, key, participant): a failed first
    attempt burns the nonce too. -/
theorem nonce_attempt_spends (x : SignArgs) (nonce : Bytes) (h : x.ctxOk = true) :
    (Nonce.sign x nonce).1 = zeroPrefix 64 nonce ∧ Spent (Nonce.sign x nonce).1 := by
  rcases sign_cases x nonce with ⟨h1, _⟩ | ⟨_, h2⟩
  · rw [h] at h1; cases h1
  · exact ⟨h2, by rw [h2]; exact spent_zeroPrefix nonce⟩

/-- The one thing the order leaves spendable (and the source says so): a session that does not
    assemble is refused before the nonce is read, and the bytearray is untouched. -/
theorem nonce_unassembled_session_untouched (x : SignArgs) (nonce : Bytes) (h : x.ctxOk = false) :
    Nonce.sign x nonce = (nonce, .error x.ctxErr) := by
  rcases sign_cases x nonce with ⟨_, h1⟩ | ⟨h2, _⟩
  · exact h1
  · rw [h] at h2; cases h2

/-- A spent nonce never signs again, whatever calls follow, and stays spent. -/
theorem nonce_spent_never_signs (ops : List NonceOp) (nonce : Bytes) (h : Spent nonce) :
    (∀ o ∈ (Nonce.run ops nonce).1, o.isSig = false) ∧ Spent (Nonce.run ops nonce).2 := by
  induction ops generalizing nonce with
  | nil => exact ⟨by simp [Nonce.run], h⟩
  | cons op ops ih =>
    cases op with
    | peek =>
      have := ih nonce h
      simp only [Nonce.run, Nonce.step, List.mem_cons, forall_eq_or_imp]
      exact ⟨⟨rfl, this.1⟩, this.2⟩
    | sign x =>
      obtain ⟨e, he⟩ := sign_spent_errs x nonce h
      have hs := sign_spent_stays x nonce h
      have := ih _ hs
      simp only [Nonce.run, Nonce.step]
      generalize Nonce.sign x nonce = r at he hs this
      obtain ⟨n', o⟩ := r
      simp only at he
      subst he
      simp only [List.mem_cons, forall_eq_or_imp]
      exact ⟨⟨rfl, this.1⟩, this.2⟩

/-- A call that returned a signature leaves the nonce spent. -/
theorem nonce_signature_spends (x : SignArgs) (nonce : Bytes) (s : Bytes)
    (h : (Nonce.sign x nonce).2 = .ok s) : Spent (Nonce.sign x nonce).1 := by
  cases hc : x.ctxOk
  · rw [nonce_unassembled_session_untouched x nonce hc] at h; cases h
  · exact (nonce_attempt_spends x nonce hc).2

/-- **Single use.**  In any history on one bytearray, from any initial contents, at most one call
    returns a signature. -/
theorem nonce_single_use (ops : List NonceOp) (nonce : Bytes) :
    ((Nonce.run ops nonce).1.filter NonceOut.isSig).length ≤ 1 := by
  induction ops generalizing nonce with
  | nil => simp [Nonce.run]
  | cons op ops ih =>
    cases op with
    | peek =>
      have := ih nonce
      simpa [Nonce.run, Nonce.step, NonceOut.isSig] using this
    | sign x =>
      simp only [Nonce.run, Nonce.step]
      cases hr : (Nonce.sign x nonce).2 with
      | error e =>
        have := ih (Nonce.sign x nonce).1
        generalize Nonce.sign x nonce = r at hr this
        obtain ⟨n', o⟩ := r
        simp only at hr; subst hr
        simpa [NonceOut.isSig] using this
      | ok s =>
        have hs := nonce_signature_spends x nonce s hr
        have := (nonce_spent_never_signs ops _ hs).1
        generalize Nonce.sign x nonce = r at hr this
        obtain ⟨n', o⟩ := r
        simp only at hr; subst hr
        have hf : (Nonce.run ops n').1.filter NonceOut.isSig = [] := by
          rw [List.filter_eq_nil_iff]
          intro o ho; simp [this o ho]
        simp [List.filter_cons, NonceOut.isSig, hf]

/-- **After the first attempt, never again.**  Whatever happened before, once a `sign` call got
    past the session (it returned a signature *or failed a later check*), no later call in any
    continuation returns a signature. -/
theorem nonce_no_signature_after_attempt (pre post : List NonceOp) (x : SignArgs) (nonce : Bytes)
    (h : x.ctxOk = true) :
    ∀ o ∈ (Nonce.run post (Nonce.sign x (Nonce.run pre nonce).2).1).1, o.isSig = false :=
  (nonce_spent_never_signs post _ (nonce_attempt_spends x _ h).2).1

/-! ### T1 for every spelling of the caller-held nonce, at the ecc level and the psbt level -/

/-- `psbt.musig2.partial_sign` signs with the caller's own object (read off the source each run): for the
    nonce it is `musig2.sign` on that object, not on a copy. -/
theorem partial_sign_uses_callers_nonce (kind : NonceKind) (x : SignArgs) (nonce : Bytes) :
    Nonce.partialSign kind x nonce = Nonce.signK kind x nonce := by
  have h : Gen.Lifecycle.partialSignPassesNonce = true := by decide
  simp [Nonce.partialSign, h]

theorem spent_never_signs_every_spelling (kind : NonceKind) (ops : List (Bool × SignArgs)) (nonce : Bytes)
    (h : Spent nonce) :
    (∀ o ∈ (Nonce.runK kind ops nonce).1, isSig o = false) ∧ Spent (Nonce.runK kind ops nonce).2 := by
  induction ops generalizing nonce with
  | nil => exact ⟨by simp [Nonce.runK], h⟩
  | cons op ops ih =>
    obtain ⟨lvl, x⟩ := op
    simp only [Nonce.runK, partial_sign_uses_callers_nonce, ite_self]
    obtain ⟨e, he⟩ := signK_spent_errs kind x nonce h
    have := ih _ (signK_spent_stays kind x nonce h)
    refine ⟨?_, this.2⟩
    intro o ho
    simp only [List.mem_cons] at ho
    rcases ho with rfl | ho
    · rw [he]; rfl
    · exact this.1 o ho

/-- **Single use, every spelling, both levels.**  Whatever object the caller holds the nonce in
    (bytearray, writable memoryview, bytes / read-only view, hex text) and whichever entry point each
    attempt goes through (`musig2.sign` or `psbt.musig2.partial_sign`, different sessions included), at
    most one attempt in any history returns a signature. -/
theorem nonce_single_use_every_spelling (kind : NonceKind) (ops : List (Bool × SignArgs)) (nonce : Bytes) :
    ((Nonce.runK kind ops nonce).1.filter isSig).length ≤ 1 := by
  induction ops generalizing nonce with
  | nil => simp [Nonce.runK]
  | cons op ops ih =>
    obtain ⟨lvl, x⟩ := op
    simp only [Nonce.runK, partial_sign_uses_callers_nonce, ite_self]
    cases hr : (Nonce.signK kind x nonce).2 with
    | error e =>
      have := ih (Nonce.signK kind x nonce).1
      simpa [List.filter_cons, isSig] using this
    | ok s =>
      have hs := signK_sig_spends kind x nonce s hr
      have := (spent_never_signs_every_spelling kind ops _ hs).1
      have hf : (Nonce.runK kind ops (Nonce.signK kind x nonce).1).1.filter isSig = [] := by
        rw [List.filter_eq_nil_iff]
        intro o ho; simp [this o ho]
      simp [List.filter_cons, isSig, hf]

/-- **An immutable nonce is one nothing can spend** (the source's own words): held as `bytes`, a
    read-only view or hex text, no attempt at either level ever returns a signature, and the object is
    left as it was. -/
theorem immutable_nonce_never_signs (kind : NonceKind) (hk : kind = .frozen ∨ kind = .text)
    (ops : List (Bool × SignArgs)) (nonce : Bytes) :
    (∀ o ∈ (Nonce.runK kind ops nonce).1, isSig o = false) ∧ (Nonce.runK kind ops nonce).2 = nonce := by
  induction ops with
  | nil => exact ⟨by simp [Nonce.runK], rfl⟩
  | cons op ops ih =>
    obtain ⟨lvl, x⟩ := op
    simp only [Nonce.runK, partial_sign_uses_callers_nonce, ite_self]
    obtain ⟨h1, e, he⟩ := signK_immutable kind hk x nonce
    rw [h1]
    refine ⟨?_, ih.2⟩
    intro o ho
    simp only [List.mem_cons] at ho
    rcases ho with rfl | ho
    · rw [he]; rfl
    · exact ih.1 o ho

/-! ## T2 — wiped / closed is absorbing -/

/-- The facts about the source the theorem needs hold of the statement lists read off
    `dsa.Signer` and `ssa.Signer` today (`_wiped` is tested first, `wipe` sets it, `__exit__`
    wipes; `wipe` lets go of the key object and of the scalar). -/
theorem signer_sources_well_formed :
    dsaCode.WellFormed ∧ ssaCode.WellFormed ∧ dsaCode.DropsKey ∧ ssaCode.DropsKey := by
  decide

/-- **Wiped stays dead.**  For the statement order of either `Signer` class: after `wipe()` or
    leaving a `with` block, in every continuation no call returns a signature, every `sign_` is
    refused with the library's ValueError, and the object holds neither the key object nor the
    scalar. -/
theorem signer_wiped_absorbing (c : SignerCode) (wf : c.WellFormed) (pre post : List SignerOp)
    (kill : SignerOp) (hk : kill = .wipe ∨ kill = .exit) (s0 : Signer) :
    let dead := (Signer.step c kill (Signer.run c pre s0).2).1
    (∀ o ∈ (Signer.run c post dead).1, o ≠ .sig) ∧
    (∀ ok, (Signer.step c (.sign ok) (Signer.run c post dead).2).2 = .err .value) ∧
    (c.DropsKey → dead.keyObj = false ∧ dead.scalar = false) := by
  intro dead
  have hw : dead.wiped = true := by
    rcases hk with rfl | rfl
    · exact (kill_sets_wiped wf _).1
    · exact (kill_sets_wiped wf _).2
  obtain ⟨h1, h2⟩ := run_of_wiped wf post dead hw
  refine ⟨h1, ?_, ?_⟩
  · intro ok
    simp only [Signer.step]
    exact sign_of_wiped wf.1 _ h2 ok
  · intro hd
    obtain ⟨_, _, h3⟩ := wf
    rcases hk with rfl | rfl <;>
      simp [dead, Signer.step, h3, runWipe_keyObj, runWipe_scalar, hd.1, hd.2]

/-- the two instances, on whichever arm (delegated or Python) the signer was constructed. -/
theorem dsa_signer_dead_after_wipe (delegated : Bool) (pre post : List SignerOp) (kill : SignerOp)
    (hk : kill = .wipe ∨ kill = .exit) :
    ∀ o ∈ (Signer.run dsaCode post
        (Signer.step dsaCode kill (Signer.run dsaCode pre (Signer.init dsaCode delegated)).2).1).1,
      o ≠ .sig :=
  (signer_wiped_absorbing dsaCode signer_sources_well_formed.1 pre post kill hk _).1

theorem ssa_signer_dead_after_wipe (delegated : Bool) (pre post : List SignerOp) (kill : SignerOp)
    (hk : kill = .wipe ∨ kill = .exit) :
    ∀ o ∈ (Signer.run ssaCode post
        (Signer.step ssaCode kill (Signer.run ssaCode pre (Signer.init ssaCode delegated)).2).1).1,
      o ≠ .sig :=
  (signer_wiped_absorbing ssaCode signer_sources_well_formed.2.1 pre post kill hk _).1

/-- every public method of `SoftwareSigner` whose body REACHES the key material or a signing primitive — directly or
    through any member of the class it goes through (`_at`, `_prv_key`, `is_watch_only`, …), decided on the AST each
    run, not by the method's name — starts with `self._assert_open()` in the current source.  (False of
    `sign_ecdsa`, `sign_schnorr`, `sign_schnorr_script_path` until /repo 6b38e831; a new public method that signs or
    hands out a key without the guard, whatever it is called, lands in `signingMethods` unguarded and breaks this.) -/
theorem soft_signer_signing_methods_guarded : ∀ m ∈ signingMethods, guarded m = true := by
  decide

/-- **Closed stays closed and never signs.**  After `close()`, in every continuation: the signer
    stays closed, and every call of a signing method (`sign_psbt`, `sign_message`, and the
    `KeyManager` surface `sign_ecdsa` / `sign_schnorr` / `sign_schnorr_script_path` that `psbt.sign`
    drives) — wherever it occurs in the continuation, whatever its arguments — is refused with the
    library's ValueError; so is every other guarded method (`xpub`, `display_address`). -/
theorem soft_signer_closed_absorbing (pre post : List SoftOp) (s0 : SoftSigner) :
    let closed := (SoftSigner.step .close (SoftSigner.run pre s0).2).1
    (SoftSigner.run post closed).2.closed = true ∧
    (∀ p ∈ post.zip (SoftSigner.run post closed).1, ∀ m ok, p.1 = .call m ok →
      (m ∈ signingMethods ∨ guarded m = true) → p.2 = .err .value) := by
  intro closed
  have hc : Gen.Lifecycle.softwareSignerCloseSets = true := by decide
  have ha : Gen.Lifecycle.softwareSignerAssertOpenRaises = true := by decide
  have h0 : closed.closed = true := by simp [closed, SoftSigner.step, hc]
  have hrun : ∀ (ops : List SoftOp) (s : SoftSigner), s.closed = true →
      (SoftSigner.run ops s).2.closed = true ∧
      (∀ p ∈ ops.zip (SoftSigner.run ops s).1, ∀ m ok, p.1 = .call m ok →
        (m ∈ signingMethods ∨ guarded m = true) → p.2 = .err .value) := by
    intro ops
    induction ops with
    | nil => intro s hs; exact ⟨hs, by simp [SoftSigner.run]⟩
    | cons op ops ih =>
      intro s hs
      have hk := soft_step_keeps_closed hc op s hs
      obtain ⟨i1, i2⟩ := ih _ hk
      simp only [SoftSigner.run]
      refine ⟨i1, ?_⟩
      intro p hp m ok hop hm
      simp only [List.zip_cons_cons, List.mem_cons] at hp
      rcases hp with rfl | hp
      · simp only at hop
        subst hop
        have hg : guarded m = true := by
          rcases hm with hm | hm
          · exact soft_signer_signing_methods_guarded m hm
          · exact hm
        simp [SoftSigner.step, hg, hs, ha]
      · exact i2 p hp m ok hop hm
  exact hrun post closed h0

/-- the guard table as read off the source today (`xpub` is in it because it derives from the held keys). -/
theorem soft_signer_guard_table :
    signingMethods.map (fun m => (m, guarded m)) =
      [("xpub", true), ("sign_psbt", true), ("sign_message", true), ("sign_ecdsa", true),
       ("sign_schnorr", true), ("sign_schnorr_script_path", true)] := by
  decide

-- an open signer answers, a closed one refuses — the KeyManager surface included:
example : (SoftSigner.run [.call "sign_ecdsa" true, .close, .call "sign_ecdsa" true, .call "sign_psbt" true]
    SoftSigner.init).1 = [.answer, .none_, .err .value, .err .value] := by
  decide

/-! ## T3 — the wallet ledger is a function of what has been handed out -/

section Wallet
variable {α : Type} [DecidableEq α]

/-- **Refinement.**  For every history from the empty wallet, every answer of the implementation
    model equals the answer the specification computes from the *list of hand-outs so far* alone,
    and the final state abstracts to that list (`Inv`: per-branch next index, ledger keys, ledger
    records). -/
theorem wallet_refines_handed_out (src : Source α) (ops : List (WalletOp α)) :
    (Wallet.run src ops Wallet.empty).1 = (specRun src ops []).1 ∧
    Inv src (Wallet.run src ops Wallet.empty).2 (specRun src ops []).2 :=
  run_sim src ops Wallet.empty [] (inv_empty src)

/-- **High-water mark.**  After any history, for every branch `b`: every index handed out on `b`
    is below `next b`, and `next b` is `0` or one past an index that *was* handed out on `b` —
    i.e. `next b = 1 + max {i | (b, i) handed out}`, `0` if none. -/
theorem wallet_next_is_one_past_max (src : Source α) (ops : List (WalletOp α)) (b : Int) :
    let w := (Wallet.run src ops Wallet.empty).2
    let H := (specRun src ops []).2
    (∀ h ∈ H, ∀ i, h.pos = some (b, i) → i < w.next b) ∧
    (w.next b = 0 ∨ ∃ h ∈ H, h.pos = some (b, w.next b - 1)) := by
  intro w H
  have inv := (wallet_refines_handed_out src ops).2
  have := specNext_spec H b
  rw [show w.next b = specNext H b from inv.next b]
  exact this

/-- **next_address.**  After any history, `next_address(b)` answers exactly what `address(b, i)`
    answers at `i =` the least index above every index handed out on `b`; when it answers an
    address, that address is the wallet's address at `(b, i)`. -/
theorem wallet_next_address_least_above (src : Source α) (ops : List (WalletOp α)) (b : Int) :
    let w := (Wallet.run src ops Wallet.empty).2
    let H := (specRun src ops []).2
    let i := specNext H b
    (Wallet.step src (.next b) w).2 = (Wallet.step src (.address b i) w).2 ∧
    (∀ h ∈ H, ∀ j, h.pos = some (b, j) → j < i) ∧
    (∀ j, (∀ h ∈ H, ∀ k, h.pos = some (b, k) → k < j) → i ≤ j) ∧
    (∀ a, (Wallet.step src (.next b) w).2 = .addr a → src.addr b i = some a) := by
  intro w H i
  have inv := (wallet_refines_handed_out src ops).2
  have hs := specNext_spec H b
  have h1 := step_sim src (.next b) w H inv
  have h2 := step_sim src (.address b i) w H inv
  refine ⟨?_, hs.1, ?_, ?_⟩
  · rw [h1.1, h2.1]; rfl
  · intro j hj
    rcases hs.2 with h0 | ⟨h, hm, hp⟩
    · show specNext H b ≤ j; omega
    · have := hj h hm _ hp
      show specNext H b ≤ j; omega
  · intro a ha
    rw [h1.1] at ha
    simp only [specStep] at ha
    split at ha
    · split at ha
      · rename_i a' hA
        split at ha
        · cases ha
        · simp only [WalletOut.addr.injEq] at ha
          subst ha
          simpa using hA
      · cases ha
    · cases ha

/-- **Ledger.**  After any history the ledger lists the addresses of the successful calls, in
    first-hand-out order, each exactly once, and remembers for each the position of its latest
    hand-out. -/
theorem wallet_ledger_first_handout_order (src : Source α) (ops : List (WalletOp α)) :
    let w := (Wallet.run src ops Wallet.empty).2
    let H := (specRun src ops []).2
    w.ledger.map Prod.fst = firstOcc (H.map (·.a)) ∧
    (w.ledger.map Prod.fst).Nodup ∧
    (∀ a, a ∈ w.ledger.map Prod.fst ↔ a ∈ H.map (·.a)) ∧
    (∀ a, w.ledger.lookup a = lastInfo H a) := by
  intro w H
  have inv := (wallet_refines_handed_out src ops).2
  refine ⟨inv.keys, ?_, ?_, inv.info⟩
  · rw [inv.keys]; exact firstOcc_nodup _
  · intro a; rw [inv.keys]; exact mem_firstOcc _ a

/-- every recorded hand-out is a real one: a known branch, and the wallet's address there. -/
theorem wallet_handouts_are_real (src : Source α) (ops : List (WalletOp α)) :
    ∀ h ∈ (specRun src ops []).2, ∀ b i, h.pos = some (b, i) →
      src.branches.contains b = true ∧ src.addr b i = some h.a :=
  (wallet_refines_handed_out src ops).2.real

/-- **Failing calls change nothing** (from any state, reachable or not): an unknown branch, a
    negative index, a position the subclass refuses, a script with no address or a key `add` refuses leave
    `_next_index` and the ledger exactly as they were. -/
theorem wallet_failing_call_changes_nothing (src : Source α) (w : Wallet α) (op : WalletOp α) (e : Err)
    (h : (Wallet.step src op w).2 = .err e) : (Wallet.step src op w).1 = w := by
  have addr : ∀ b i, (match Wallet.address src w b i with
      | (w', .ok a) => (w', WalletOut.addr a) | (w', .error e) => (w', .err e)).2 = .err e →
      (match Wallet.address src w b i with
      | (w', .ok a) => (w', WalletOut.addr a) | (w', .error e) => (w', .err e)).1 = w := by
    intro b i
    have := address_err_same src w b i
    generalize Wallet.address src w b i = r at this
    obtain ⟨w', o⟩ := r
    cases o with
    | error e' => intro _; exact this e' rfl
    | ok a => intro h; cases h
  cases op with
  | address b i => exact addr b i h
  | next b => exact addr b _ h
  | positionOf a last => rfl
  | info a => simp only [Wallet.step]; split <;> rfl
  | contains a => rfl
  | len => rfl
  | add oa =>
    cases oa with
    | none => rfl
    | some a => simp [Wallet.step] at h

end Wallet

/-! ## T4 — memoisation is transparent -/

/-- **Memo transparency.**  For any pure `f`, any key function that is sound for it, any history
    of calls and evictions under any policies (bounded LRU, `cache_clear`, another thread's
    insertion — anything that never invents an entry), starting from any correct cache: every
    call answers `f x`, exactly what the same history answers with no cache at all. -/
theorem memo_transparent {χ κ ν : Type} [DecidableEq κ] (f : χ → ν) (key : χ → κ)
    (sound : ∀ x y, key x = key y → f x = f y) (ops : List (MemoOp χ κ ν)) (c : List (κ × ν))
    (h : Correct f key c) :
    (Memo.run f key ops c).1 = Memo.reference f ops ∧ Correct f key (Memo.run f key ops c).2 := by
  induction ops generalizing c with
  | nil => exact ⟨rfl, h⟩
  | cons op ops ih =>
    obtain ⟨h1, h2⟩ := memo_step f key sound op c h
    obtain ⟨h3, h4⟩ := ih _ h1
    simp only [Memo.run]
    refine ⟨?_, h4⟩
    rw [h2, h3]
    cases op <;> rfl

/-- `functools.lru_cache(maxsize)` is such a cache: one LRU call keeps every entry correct and
    answers `f x`, for any `maxsize`. -/
theorem lru_call_transparent {χ κ ν : Type} [DecidableEq κ] (f : χ → ν) (key : χ → κ)
    (sound : ∀ x y, key x = key y → f x = f y) (maxsize : Nat) (x : χ) (s : Lru κ ν)
    (h : Correct f key s.cache) :
    (Lru.call f key maxsize x s).2 = f x ∧ Correct f key (Lru.call f key maxsize x s).1.cache := by
  simp only [Lru.call]
  split
  · rename_i v hv
    have hx := h _ _ (mem_of_lookup hv) x rfl
    refine ⟨hx, ?_⟩
    intro k v' hm y hy
    simp only [List.mem_cons, List.mem_filter] at hm
    rcases hm with heq | ⟨hm, _⟩
    · cases heq; rw [hx]; exact sound x y hy.symm
    · exact h k v' hm y hy
  · refine ⟨rfl, ?_⟩
    intro k v' hm y hy
    have hm' := List.mem_of_mem_take hm
    simp only [List.mem_cons] at hm'
    rcases hm' with heq | hm'
    · cases heq; exact sound x y hy.symm
    · exact h k v' hm' y hy

/-! ## T4'' — the lazily loaded word-lists, under every interleaving of atomic publications -/

/-- **A reader never sees the count ahead of the words.**  With the publication order and the locking read
    off `WordLists.load_lang` each run (index, words, then count; every read of the count under the lock; every
    reader calling `load_lang` first): at every moment a second thread can observe the loader, a language it
    takes for loaded has its index and its words.  (Atomic assignments are the GIL's; real schedules are searched
    by the cold-start thread phase of the harness, not proved.) -/
theorem wordlist_reader_never_sees_count_before_words :
    wordlistSafe Gen.Lifecycle.wordlistPublishOrder Gen.Lifecycle.wordlistFastPath = true ∧
    Gen.Lifecycle.wordlistReadersLoadFirst = true := by
  decide

/-- and the order matters exactly where a lock-free fast path exists: count-first is safe under the lock and
    unsafe beside a fast path; count-last is safe either way. -/
theorem wordlist_order_matters_with_fast_path :
    wordlistSafe [.count, .index, .words] false = true ∧ wordlistSafe [.count, .index, .words] true = false ∧
    wordlistSafe [.index, .words, .count] true = true := by
  decide

/-! ## T4' — key-soundness of the curve key (the hypothesis of T4, for every cache keyed on a curve) -/

/-- all seven components of a curve's identity (p, a, b, G.x, G.y, n, cofactor) are in the tuple
    `Curve._eq_key` returns in the current source, and `__eq__` / `__hash__` go through that tuple. -/
theorem curve_key_lists_every_component :
    (∀ f ∈ allFields, f ∈ Gen.Lifecycle.curveEqKey) ∧ Gen.Lifecycle.curveEqIsKeyEq = true ∧
    Gen.Lifecycle.curveHashIsKeyHash = true ∧ Gen.Lifecycle.servesComparesCurve = true := by
  decide

/-- **The curve key is injective on the identity record.**  Two curves that compare equal (hence
    share `lru_cache` entries and the backend's verdict) are the same curve in every component. -/
theorem curve_key_injective (c1 c2 : CurveId) (h : curveKey c1 = curveKey c2) : c1 = c2 :=
  eqKey_injective _ curve_key_lists_every_component.1 c1 c2 h

/-- hence any function of (argument, curve) memoised on (argument, curve key) under any eviction
    policy answers the function itself: key-soundness is discharged, not assumed, for curve keys. -/
theorem memo_transparent_on_curve_keys {χ ν : Type} [DecidableEq χ] (f : χ × CurveId → ν)
    (ops : List (MemoOp (χ × CurveId) (χ × List Int) ν)) :
    (Memo.run f (fun x => (x.1, curveKey x.2)) ops []).1 = Memo.reference f ops := by
  refine (memo_transparent f _ ?_ ops [] (by intro k v hm; cases hm)).1
  intro x y hxy
  obtain ⟨x1, x2⟩ := x
  obtain ⟨y1, y2⟩ := y
  simp only [Prod.mk.injEq] at hxy
  rw [hxy.1, curve_key_injective x2 y2 hxy.2]

/-- **No memo is unaccounted for.**  Every memo the translator finds by introspection of the imported btclib package
    (every `functools.lru_cache` / `functools.cache` wrapper at module level or on a class, every
    `functools.cached_property`, every property / method (constructors excluded) whose body stores into
    `self.__dict__` / `vars(self)` / through `object.__setattr__(self, …)` — a hand-rolled instance memo, which is what
    `Script.asm` is since /repo b68e3481 —, every module-level container a function of its module fills) is one of
    `coveredCaches`, with the same bound and the same "a curve is in the key" bit: a cache added to btclib, or one
    whose bound changes, breaks this until it is given a place in the model and in the harness's `CACHE_COVER`.
    (Instance-level lazy state — `WordLists`, `SessionContext._values/_bindings_ctx` — is not found by this
    introspection; it is modelled separately above / probed by the cold-start oracle.) -/
theorem cache_inventory_covered : ∀ c ∈ Gen.Lifecycle.cacheInventory, c ∈ coveredCaches := by
  decide

/-- and a bounded one among them is functools' LRU with that bound, which `lru_call_transparent` covers for every
    bound: stated for the inventory's own bounds. -/
example : (Gen.Lifecycle.cacheInventory.filterMap fun c => match c.hold with | .lru n => some n | _ => none) =
    [2048, 128, 128, 128, 128, 128] := by decide

/-- and the bindings serve a curve only if it *is* secp256k1, in every component. -/
theorem serves_only_secp256k1 (secp ec : CurveId) (flag : Bool) (h : servesCurve secp flag ec = true) :
    ec = secp := by
  simp only [servesCurve, Bool.and_eq_true, decide_eq_true_eq] at h
  exact curve_key_injective ec secp h.2

/-! ## T5 — the backend flag's history does not show

What is proved here is the *dispatch and holding logic* (which arm answers).  That the two arms compute the same function
is NOT proved in this file: it is property C04's business (tied there by differential streams on
the real code), and the two theorems that need it say so in their names and take it as hypotheses. -/

/-- **Built while serving ⇒ keeps delegating.**  An object that holds a bindings object (`dsa.Signer` /
    `ssa.Signer` / `_TweakChain` built for a served (ec, hf) while the flag was up) still holds it after any
    history of flips, constructions, uses and free calls that does not make *it* let go (a tweak chain's
    step onto infinity), and a use of it then delegates whatever the flag says (no hypothesis on the arms). -/
theorem held_object_keeps_delegating {χ ν : Type} (fC fPy : χ → ν) (ops : List (CapOp χ))
    (st : CapState) (i : Nat) (o : CapObj) (h : st.objs[i]? = some o) (hh : o.held = true)
    (hn : noDrop i ops = true) (x : χ) :
    (Cap.run fC fPy ops st).2.objs[i]? = some o ∧
    (Cap.step fC fPy (.use i x) (Cap.run fC fPy ops st).2).2 = some (.ok (fC x)) := by
  have key : (Cap.run fC fPy ops st).2.objs[i]? = some o := by
    induction ops generalizing st with
    | nil => exact h
    | cons op ops ih =>
      simp only [Cap.run]
      cases op with
      | set serving installed =>
        apply ih _ _ (by simpa [noDrop] using hn)
        simp only [Cap.step]; split <;> exact h
      | build served inner =>
        apply ih _ _ (by simpa [noDrop] using hn)
        exact getElem?_snoc_left _ _ _ _ h
      | use j y =>
        apply ih _ _ (by simpa [noDrop] using hn)
        simp only [Cap.step]; split <;> exact h
      | drop j y =>
        have hj : j ≠ i := by
          simp only [noDrop, Bool.and_eq_true, bne_iff_ne, ne_eq] at hn; exact hn.1
        apply ih _ _ (by simp only [noDrop, Bool.and_eq_true] at hn; exact hn.2)
        simp only [Cap.step]
        split
        · simp only [dropAt_get, h, Option.map_some]
          have : ¬ i = j := fun e => hj e.symm
          simp [this]
        · exact h
      | call served y => exact ih _ h (by simpa [noDrop] using hn)
  refine ⟨key, ?_⟩
  simp [Cap.step, key, CapObj.delegates, hh]

/-- **Built while NOT serving (or unserved, or after letting go) ⇒ follows the flag at use.**  An object that
    holds no bindings object never comes to hold one, through any history; each use of it goes to the free
    code path, which asks the predicate again: it delegates exactly when the flag is up *at that moment* and
    the free path's sites are served.  (So a Signer built with the switch off starts delegating when the
    switch is turned on.) -/
theorem unheld_object_follows_flag {χ ν : Type} (fC fPy : χ → ν) (ops : List (CapOp χ))
    (st : CapState) (i : Nat) (o : CapObj) (h : st.objs[i]? = some o) (hh : o.held = false) (x : χ) :
    (Cap.run fC fPy ops st).2.objs[i]? = some o ∧
    (Cap.step fC fPy (.use i x) (Cap.run fC fPy ops st).2).2 =
      some (.ok (if (Cap.run fC fPy ops st).2.flag && o.inner then fC x else fPy x)) := by
  have key : (Cap.run fC fPy ops st).2.objs[i]? = some o := by
    induction ops generalizing st with
    | nil => exact h
    | cons op ops ih =>
      simp only [Cap.run]
      apply ih
      cases op with
      | set serving installed => simp only [Cap.step]; split <;> exact h
      | build served inner => exact getElem?_snoc_left _ _ _ _ h
      | use j y => simp only [Cap.step]; split <;> exact h
      | drop j y =>
        simp only [Cap.step]
        split
        · simp only [dropAt_get, h, Option.map_some]
          split
          · cases o; simp_all
          · rfl
        · exact h
      | call served y => exact h
  refine ⟨key, ?_⟩
  simp [Cap.step, key, CapObj.delegates, hh]

/-- what construction decides: the new object holds a bindings object iff the flag is up and (ec, hf) is served. -/
theorem built_object_holds_iff_serving_and_served {χ ν : Type} (fC fPy : χ → ν) (st : CapState)
    (served inner : Bool) :
    (Cap.step fC fPy (.build served inner : CapOp χ) st).1.objs[st.objs.length]? = some ⟨st.flag && served, inner⟩ := by
  simp [Cap.step]

/-- the free-function machine is the holding machine with no objects: a history of flag settings and free calls
    answers the same on both, and builds nothing (so `Backend.run`, which the `backendfree` streams tie to btclib's
    free dispatching functions, and `Cap.run`, which the `backend` streams tie to real objects, are one model). -/
theorem cap_free_calls_are_backend_run {χ ν : Type} (fC fPy : χ → ν) (serves : χ → Bool)
    (ops : List (BackendOp χ)) (st : CapState) :
    (Cap.run fC fPy (ops.map (embedFree serves)) st).1 = Backend.run fC fPy serves ops st.flag ∧
    (Cap.run fC fPy (ops.map (embedFree serves)) st).2.objs = st.objs := by
  induction ops generalizing st with
  | nil => exact ⟨rfl, rfl⟩
  | cons op ops ih =>
    cases op with
    | set s i =>
      simp only [List.map_cons, embedFree, Cap.run, Cap.step, Backend.run, Backend.step]
      split
      · exact ⟨by rw [(ih st).1], (ih st).2⟩
      · exact ⟨by rw [(ih _).1], (ih _).2⟩
    | call x =>
      simp only [List.map_cons, embedFree, Cap.run, Cap.step, Backend.run, Backend.step, dispatch]
      exact ⟨by rw [(ih st).1], (ih st).2⟩

/-- **History independence, GIVEN that the arms are equal (C04).**  If both arms compute `M`, every use
    of an object built under any earlier flag value, and every free call, answers `M x` — what a
    fresh object answers — through any history of flips (refused ones included). -/
theorem captured_objects_answer_fresh_given_arms_equal {χ ν : Type} (fC fPy M : χ → ν)
    (hC : ∀ x, fC x = M x) (hPy : ∀ x, fPy x = M x) (ops : List (CapOp χ)) (st : CapState) :
    (Cap.run fC fPy ops st).1 = Cap.reference M ops st := by
  induction ops generalizing st with
  | nil => rfl
  | cons op ops ih =>
    cases op with
    | set serving installed =>
      simp only [Cap.run, Cap.step, Cap.reference]
      split <;> simp [ih]
    | build served inner => simp only [Cap.run, Cap.step, Cap.reference, ih]
    | use i x =>
      simp only [Cap.run, Cap.step, Cap.reference, ih]
      rcases Nat.lt_or_ge i st.objs.length with hlt | hge
      · have : st.objs[i]? = some st.objs[i] := List.getElem?_eq_getElem hlt
        simp only [this, hlt, if_true]
        split <;> simp [hC, hPy]
      · simp [List.getElem?_eq_none hge, Nat.not_lt.mpr hge]
    | drop i x =>
      simp only [Cap.run, Cap.step, Cap.reference]
      rcases Nat.lt_or_ge i st.objs.length with hlt | hge
      · have : st.objs[i]? = some st.objs[i] := List.getElem?_eq_getElem hlt
        simp only [this, hlt, if_true, ih]
        split <;> simp [hC, hPy]
      · simp [List.getElem?_eq_none hge, Nat.not_lt.mpr hge, ih]
    | call served x =>
      simp only [Cap.run, Cap.step, Cap.reference, ih]
      split <;> simp [hC, hPy]

/-- **Backend independence of free functions, GIVEN that the arms are equal (C04).**  For every
    history of `set_libsecp256k1_serving` calls (including refused ones) interleaved with API calls,
    from either initial flag, every call answers `M x`. -/
theorem backend_history_independent_given_arms_equal {χ ν : Type} (fC fPy M : χ → ν) (serves : χ → Bool)
    (hC : ∀ x, fC x = M x) (hPy : ∀ x, fPy x = M x) (ops : List (BackendOp χ)) (flag : Bool) :
    Backend.run fC fPy serves ops flag = Backend.reference M ops flag := by
  induction ops generalizing flag with
  | nil => rfl
  | cons op ops ih =>
    cases op with
    | set serving installed =>
      simp only [Backend.run, Backend.step, Backend.reference]
      split <;> simp [ih]
    | call x =>
      simp only [Backend.run, Backend.step, Backend.reference, dispatch, ih]
      split <;> simp [hC, hPy]

/-- a memoised, dispatching API, GIVEN that the arms are equal: the table cached under one flag is the
    table under the other. -/
theorem memo_over_backend_given_arms_equal {χ κ ν : Type} [DecidableEq κ] (fC fPy M : χ → ν) (serves : χ → Bool)
    (hC : ∀ x, fC x = M x) (hPy : ∀ x, fPy x = M x) (key : χ → κ)
    (sound : ∀ x y, key x = key y → M x = M y) (flag : Bool) (ops : List (MemoOp χ κ ν)) :
    (Memo.run (dispatch fC fPy serves flag) key ops []).1 = Memo.reference M ops := by
  have hf : dispatch fC fPy serves flag = M := by
    funext x; simp only [dispatch]; split <;> simp [hC, hPy]
  rw [hf]
  exact (memo_transparent M key sound ops [] (by intro k v hm; cases hm)).1

/-! ## non-vacuity -/

/-- a concrete session: secnonce with k₁ = 1, k₂ = 2 and a 33-byte key tail; all coefficients 1. -/
def demoArgs : SignArgs :=
  { ctxOk := true, ctxErr := .value, rOdd := false, b := 1, e := 1, a := 1, g := 1, gacc := 1, prv := 5,
    pk := List.replicate 33 7, inSet := true }
def demoNonce : Bytes := beBytes 32 1 ++ beBytes 32 2 ++ List.replicate 33 7

-- the first call signs (s = k₁ + b·k₂ + e·a·d = 1 + 2 + 5 = 8), the second is refused, the bytes are zero
example : (Nonce.run [.sign demoArgs, .sign demoArgs] demoNonce).1 =
    [.sig (beBytes 32 8), .err .value] := by decide
example : (Nonce.run [.sign demoArgs] demoNonce).2 = List.replicate 64 0 ++ List.replicate 33 7 := by
  decide
-- a failed first attempt (wrong key tail) also burns it
example : (Nonce.run [.sign { demoArgs with pk := [] }, .sign demoArgs] demoNonce).1 =
    [.err .value, .err .value] := by decide
-- an unassembled session does not
example : (Nonce.run [.sign { demoArgs with ctxOk := false }, .sign demoArgs] demoNonce).1 =
    [.err .value, .sig (beBytes 32 8)] := by decide
-- held as bytes the nonce signs nothing, at either level; held in a writable view it signs once
example : (Nonce.runK .frozen [(false, demoArgs), (true, demoArgs)] demoNonce).1 = [.error .foreign, .error .foreign] := by
  decide
example : (Nonce.runK .view [(true, demoArgs), (false, demoArgs)] demoNonce).1 = [.ok (beBytes 32 8), .error .value] := by
  decide
-- a live signer signs, a wiped one does not
example : (Signer.run dsaCode [.sign true, .enter, .sign true, .exit, .sign true] (Signer.init dsaCode true)).1 =
    [.sig, .self_, .sig, .none_, .err .value] := by decide
-- secp256k1 and the curve generated by −G (toy numbers): different keys
example : curveKey ⟨23, 0, 7, 1, 10, 29, 1⟩ ≠ curveKey ⟨23, 0, 7, 1, 13, 29, 1⟩ := by decide
-- a signer built while serving keeps delegating after the switch is turned off (a free call does not); one built
-- with the switch off follows the flag; a chain that let go follows the flag too
example : (Cap.run (fun _ : Nat => "C") (fun _ => "P")
    [.build true true, .set false true, .use 0 7, .call true 7, .build true true, .use 1 7, .set true true, .use 1 7,
     .use 0 7, .drop 0 7, .set false true, .use 0 7] ⟨true, []⟩).1 =
    [none, none, some (.ok "C"), some (.ok "P"), none, some (.ok "P"), none, some (.ok "C"),
     some (.ok "C"), some (.ok "C"), none, some (.ok "P")] := by decide
-- a wallet: address(0,5), address(0,2), next(0) → index 6; a bad branch changes nothing
def demoSrc : Source Nat := ⟨[0, 1], fun b i => if i < 100 then some (b.toNat * 1000 + i + 1) else none, fun a => a == 0⟩
example : (Wallet.run demoSrc [.address 0 5, .address 0 2, .next 0, .address 7 0, .next 1, .len] Wallet.empty).1 =
    [.addr 6, .addr 3, .addr 7, .err .value, .addr 1001, .nat 4] := by decide

-- a refused key leaves the wallet alone
example : (Wallet.run demoSrc [.add (some 9), .add none, .len] Wallet.empty).1 = [.addr 9, .err .value, .nat 1] := by decide

end Props.C20
