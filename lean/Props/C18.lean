/-!
# C18 — property theorems only (see DESIGN.md §3 C18).
-/
namespace Props.C18

end Props.C18
