import Proofs.C18.Fee
import Proofs.C18.Float
import Proofs.C18.Funding
import Proofs.C18.Amount
import Model.C18.SpendSize
import Proofs.C18.Estimate
import Proofs.C18.SigOps
import Proofs.C18.Finalize
import Proofs.C18.Sums
/-!
# C18 — sizes, fees and amounts are exact integer accounting (DESIGN §3 C18)

Property theorems only.  `Gen.Fee.*` is the *translated* source (btclib/fee.py, amount.py,
tx/tx.py, block/block.py, psbt/psbt.py — regenerated from /repo on every run); `Btc.C18.*` are the
hand-written entry points (FeeRate guard, `is_segwit`) and the transcription of Bitcoin Core's
`GetDustThreshold`, tied to the code by the `fee.*` correspondence streams.
-/
namespace Props.C18
open Btc Btc.Py Btc.C18

/-! ## T1 — weight and virtual size -/

/-- `Tx.weight` and `Block.weight` are three times the stripped size plus the total size. -/
theorem weight_formula (stripped total : Int) :
    Gen.Fee.tx_weight stripped total = 3 * stripped + total ∧
    Gen.Fee.block_weight stripped total = 3 * stripped + total := by
  unfold Gen.Fee.tx_weight Gen.Fee.block_weight
  constructor <;> omega

/-- `vsize = math.ceil(weight / 4)` is a FLOAT division in the source (Tx, Block, Psbt estimate
    alike).  Modelled as IEEE-754 (`Btc.PyFloat`), it is the exact integer ceiling for every weight
    below 2^53 — far above any consensus weight (4·10^6). -/
theorem vsize_exact_below_2_53 (w : Int) (h0 : 0 ≤ w) (h : w < 2 ^ 53) :
    Gen.Fee.tx_vsize w = .ok ((w + 3) / 4) ∧
    Gen.Fee.block_vsize w = .ok ((w + 3) / 4) ∧
    Gen.Fee.psbt_vsize_estimate w = .ok ((w + 3) / 4) := by
  obtain ⟨n, rfl⟩ := Int.eq_ofNat_of_zero_le h0
  have hn : n < 2 ^ 53 := by omega
  have e := ceilTrueDivPow2_exact n hn
  have c : (((n + 3) / 4 : Nat) : Int) = ((n : Int) + 3) / 4 := by omega
  unfold Gen.Fee.tx_vsize Gen.Fee.block_vsize Gen.Fee.psbt_vsize_estimate
  simp only [e, c]
  exact ⟨trivial, trivial, trivial⟩

/-- … and the value it returns is the ceiling: `4·vsize ≥ weight > 4·(vsize − 1)`. -/
theorem vsize_is_ceiling (w v : Int) (h0 : 0 ≤ w) (h : w < 2 ^ 53) (hv : Gen.Fee.tx_vsize w = .ok v) :
    4 * v ≥ w ∧ w > 4 * (v - 1) := by
  rw [(vsize_exact_below_2_53 w h0 h).1] at hv
  cases hv
  omega

-- the bound is sharp: at 2^53 + 1 the float quotient loses the remainder and the source's formula
-- answers one less than the ceiling (the model reproduces it; `gen.Fee.tx_vsize` checks the real code there)
example : Gen.Fee.tx_vsize (2 ^ 53 + 1) = .ok (2 ^ 51) := by decide
example : ((2 : Int) ^ 53 + 1 + 3) / 4 = 2 ^ 51 + 1 := by decide
example : Gen.Fee.tx_vsize 561 = .ok 141 := by decide

/-- `Tx._serialized_size` (translated, `Gen.Fee.tx_serialized_size`: fixed fields, the CompactSize of each count, the
    sums of the items' sizes, marker+flag and witnesses only when segwit AND asked) gives `Tx.weight` = four times
    the non-witness bytes plus the witness bytes (marker and flag count as witness). -/
theorem tx_weight_by_parts (t : TxParts) :
    txW t = 4 * (8 + Gen.VarInt.size t.nIn + t.ins + Gen.VarInt.size t.nOut + t.outs) +
      (if t.isSegwit then 2 + t.wits else 0) := by
  unfold txW txSer Gen.Fee.tx_weight Gen.Fee.tx_serialized_size
  cases t.isSegwit <;> simp <;> omega

/-- Blocks: `Block._serialized_size` (translated) is the header, the CompactSize of the transaction count and the SUM
    of the transactions' sizes; hence `Block.weight` is the sum of the transactions' weights plus four times
    (header + CompactSize of the count) -- 324 more than the sum for fewer than 253 transactions, 332 up to 65535
    (the figures `Block.weight`'s docstring quotes), for every list of transactions. -/
theorem block_weight_is_sum (hdr : Int) (txs : List TxParts) :
    blockSer hdr true txs = hdr + Gen.VarInt.size txs.length + (txs.map (txSer true)).sum ∧
    blockW hdr txs = 4 * (hdr + Gen.VarInt.size txs.length) + (txs.map txW).sum ∧
    (txs.length < 253 → blockW 80 txs = 324 + (txs.map txW).sum) ∧
    (253 ≤ txs.length → txs.length ≤ 65535 → blockW 80 txs = 332 + (txs.map txW).sum) := by
  have hw : ∀ hdr : Int, blockW hdr txs = 4 * (hdr + Gen.VarInt.size txs.length) + (txs.map txW).sum := by
    intro hdr
    unfold blockW blockSer Gen.Fee.block_weight Gen.Fee.block_serialized_size
    have := sum_weight (txSer false) (txSer true) txs
    have e : (txs.map fun t => 3 * txSer false t + txSer true t) = txs.map txW := by
      apply List.map_congr_left; intro t _; simp [txW, Gen.Fee.tx_weight]
    rw [e] at this
    omega
  refine ⟨rfl, hw hdr, ?_, ?_⟩
  · intro h
    rw [hw 80]
    have : ((txs.length : Nat) : Int) < 253 := by omega
    simp only [Gen.VarInt.size, this, if_true]
    omega
  · intro h1 h2
    rw [hw 80]
    have a : ¬ ((txs.length : Nat) : Int) < 253 := by omega
    have b : ((txs.length : Nat) : Int) ≤ 65535 := by omega
    simp only [Gen.VarInt.size, a, b, if_true, if_false]
    omega

-- non-vacuity: a block of one 204-byte legacy transaction weighs 4*204 + 324; block 481 824's 1866 transactions add 332
example : blockW 80 [⟨false, 1, 1, 41, 34, 0⟩] = 4 * (8 + 1 + 41 + 1 + 34) + 324 := by decide
example : blockSer 80 true (List.replicate 253 ⟨true, 1, 1, 41, 31, 108⟩) = 80 + 3 + 253 * (10 + 1 + 41 + 1 + 31 + 108) := by
  decide +kernel
example : txW ⟨true, 1, 1, 41, 31, 108⟩ = 4 * 82 + 110 := by decide

/-! ## T2 — fee = ⌈rate · vsize / 1000⌉, package fee, dust threshold -/

/-- `fee_from_vsize` answers exactly on non-negative sizes and rates and refuses the rest with the
    library's ValueError. -/
theorem fee_domain (v r : Int) :
    (0 ≤ v ∧ 0 ≤ r → ∃ f, feeFromVsize v r = .ok f) ∧
    (¬ (0 ≤ v ∧ 0 ≤ r) → feeFromVsize v r = .error .value) := by
  constructor
  · rintro ⟨hv, hr⟩
    obtain ⟨n, rfl⟩ := Int.eq_ofNat_of_zero_le hv
    obtain ⟨m, rfl⟩ := Int.eq_ofNat_of_zero_le hr
    exact ⟨_, feeFromVsize_nat n m⟩
  · intro h
    unfold feeFromVsize feeRate
    by_cases hr : r < 0
    · simp [hr]; rfl
    · have hv : v < 0 := by omega
      simp only [hr, if_false]
      exact fee_from_vsize_neg v r hv

/-- The fee is the exact ceiling of rate·vsize/1000: never a satoshi short, never one too many. -/
theorem fee_exact_ceiling (v r f : Int) (h : feeFromVsize v r = .ok f) :
    0 ≤ f ∧ f * 1000 ≥ r * v ∧ r * v > (f - 1) * 1000 := by
  by_cases hd : 0 ≤ v ∧ 0 ≤ r
  · obtain ⟨hv, hr⟩ := hd
    obtain ⟨n, rfl⟩ := Int.eq_ofNat_of_zero_le hv
    obtain ⟨m, rfl⟩ := Int.eq_ofNat_of_zero_le hr
    rw [feeFromVsize_nat] at h
    cases h
    have hp : (m : Int) * (n : Int) = ((m * n : Nat) : Int) := by simp
    rw [hp]
    have := ceilK_spec (m * n)
    generalize m * n = p at *
    generalize ceilK p = c at *
    omega
  · rw [(fee_domain v r).2 hd] at h; cases h

/-- Monotone in both arguments: a larger transaction or a higher rate never owes less. -/
theorem fee_monotone (v v' r r' f f' : Int) (hv : v ≤ v') (hr : r ≤ r')
    (h : feeFromVsize v r = .ok f) (h' : feeFromVsize v' r' = .ok f') : f ≤ f' := by
  have d : 0 ≤ v ∧ 0 ≤ r := by
    by_cases hd : 0 ≤ v ∧ 0 ≤ r
    · exact hd
    · rw [(fee_domain v r).2 hd] at h; cases h
  obtain ⟨n, rfl⟩ := Int.eq_ofNat_of_zero_le d.1
  obtain ⟨m, rfl⟩ := Int.eq_ofNat_of_zero_le d.2
  obtain ⟨n', rfl⟩ := Int.eq_ofNat_of_zero_le (show 0 ≤ v' by omega)
  obtain ⟨m', rfl⟩ := Int.eq_ofNat_of_zero_le (show 0 ≤ r' by omega)
  rw [feeFromVsize_nat] at h h'
  cases h; cases h'
  have : m * n ≤ m' * n' := Nat.mul_le_mul (by omega) (by omega)
  have := ceilK_mono this
  omega

/-- `package_fee` (child pays for parent): defined exactly when sizes and rate are non-negative and
    the ancestors' fee is a valid amount; the answer is never below the child's own fee, together
    with what the ancestors paid it covers the package's fee, and it is the smaller of the two that
    does both. -/
theorem package_fee_covers (v r av af p : Int) (h : packageFee v r av af = .ok p) :
    0 ≤ v ∧ 0 ≤ r ∧ 0 ≤ av ∧ 0 ≤ af ∧ af ≤ 2100000000000000 ∧
    ∃ own pkg, feeFromVsize v r = .ok own ∧ feeFromVsize (v + av) r = .ok pkg ∧
      own ≤ p ∧ pkg ≤ p + af ∧ (p = own ∨ p + af = pkg) := by
  unfold packageFee feeRate at h
  by_cases hr : r < 0
  · simp [hr] at h; cases h
  · simp only [hr, if_false] at h
    change Gen.Fee.package_fee v av af r = .ok p at h
    unfold Gen.Fee.package_fee at h
    by_cases hav : av < 0
    · simp [hav] at h
    · simp only [hav, if_false] at h
      rw [valid_sats_amount_eq] at h
      by_cases haf : 0 ≤ af ∧ af ≤ Gen.Fee.MAX_SATOSHI
      · simp only [haf, and_self, if_true] at h
        by_cases hv : v < 0
        · rw [fee_from_vsize_neg v r hv] at h; cases h
        · obtain ⟨n, rfl⟩ := Int.eq_ofNat_of_zero_le (show 0 ≤ v by omega)
          obtain ⟨m, rfl⟩ := Int.eq_ofNat_of_zero_le (show 0 ≤ r by omega)
          obtain ⟨k, rfl⟩ := Int.eq_ofNat_of_zero_le (show 0 ≤ av by omega)
          have e2 : ((n : Int) + (k : Int)) = ((n + k : Nat) : Int) := by simp
          rw [e2] at h
          simp only [fee_from_vsize_nat] at h
          have h : (max ((ceilK (m * n) : Nat) : Int) (((ceilK (m * (n + k)) : Nat) : Int) - af)) = p := by
            cases h; rfl
          have hm : Gen.Fee.MAX_SATOSHI = 2100000000000000 := rfl
          have f2 : feeFromVsize ((n : Int) + (k : Int)) (m : Int) = .ok ((ceilK (m * (n + k)) : Nat) : Int) := by
            rw [e2]; exact feeFromVsize_nat (n + k) m
          refine ⟨by omega, by omega, by omega, haf.1, by omega,
            ((ceilK (m * n) : Nat) : Int), ((ceilK (m * (n + k)) : Nat) : Int), feeFromVsize_nat n m, f2, ?_⟩
          omega
      · simp [haf] at h; cases h

/-- `dust_threshold` is Bitcoin Core's `GetDustThreshold` (transcribed in `Btc.C18.Core`) for every
    script — any length, witness program or not, unspendable → 0 — and every dust relay rate. -/
theorem dust_threshold_is_core (spk : Bytes) (rate : Nat) :
    dustThreshold spk (rate : Int) = .ok ((Core.getDustThreshold spk rate : Nat) : Int) := by
  unfold dustThreshold
  rw [feeRate_nat]
  exact dust_threshold_gen_eq spk rate

/-- a negative dust rate is refused -/
theorem dust_threshold_negative_rate (spk : Bytes) (rate : Int) (h : rate < 0) :
    dustThreshold spk rate = .error .value := by
  unfold dustThreshold feeRate; simp [h]; rfl

open Btc.Spend in
/-- Every standard output type has its own threshold, each from the translated `dust_threshold` at ANY dust rate:
    the rate's fee on 182 (p2pkh), 180 (p2sh), 98 (p2wpkh), 110 (p2wsh, p2tr) bytes -- Core's 546 / 540 / 294 / 330 / 330
    at 3000 sat/kvB.  The script templates are the generated ones (`Gen.Spend.*_PREFIX/_SUFFIX`). -/
theorem dust_threshold_per_output_type (rate : Nat) (h20 h32 : Bytes) (l20 : h20.length = 20) (l32 : h32.length = 32) :
    dustThreshold (p2pkh h20) rate = .ok (Core.getFee rate 182 : Nat) ∧
    dustThreshold (p2sh h20) rate = .ok (Core.getFee rate 180 : Nat) ∧
    dustThreshold (p2wpkh h20) rate = .ok (Core.getFee rate 98 : Nat) ∧
    dustThreshold (p2wsh h32) rate = .ok (Core.getFee rate 110 : Nat) ∧
    dustThreshold (p2tr h32) rate = .ok (Core.getFee rate 110 : Nat) := by
  simp only [dust_threshold_is_core]
  refine ⟨?_, ?_, ?_, ?_, ?_⟩ <;>
  simp [Core.getDustThreshold, Core.isUnspendable, Core.beginsWith, Core.isWitnessProgram, Core.sizeOfCompactSize,
    p2pkh, p2sh, p2wpkh, p2wsh, p2tr, Gen.Spend.P2PKH_PREFIX, Gen.Spend.P2PKH_SUFFIX, Gen.Spend.P2SH_PREFIX,
    Gen.Spend.P2SH_SUFFIX, Gen.Spend.P2WPKH_PREFIX, Gen.Spend.P2WSH_PREFIX, Gen.Spend.P2TR_PREFIX, l20, l32]
example : Core.getFee 3000 182 = 546 ∧ Core.getFee 3000 180 = 540 ∧ Core.getFee 3000 98 = 294 ∧ Core.getFee 3000 110 = 330 := by
  decide

-- non-vacuity and Core's well-known figures at the default 3000 sat/kvB
example : feeFromVsize 141 1500 = .ok 212 := by decide
example : feeFromVsize 1 1 = .ok 1 := by decide
example : packageFee 100 1000 200 50 = .ok 250 := by decide
example : packageFee 100 1000 200 500 = .ok 100 := by decide
example : Core.getDustThreshold ([0x76, 0xa9, 20] ++ List.replicate 20 7 ++ [0x88, 0xac]) 3000 = 546 := by decide
example : Core.getDustThreshold ([0, 20] ++ List.replicate 20 7) 3000 = 294 := by decide
example : Core.getDustThreshold ([0x51, 32] ++ List.replicate 32 7) 3000 = 330 := by decide
example : Core.getDustThreshold ([0xa9, 20] ++ List.replicate 20 7 ++ [0x87]) 3000 = 540 := by decide
example : Core.getDustThreshold [0x6a, 1, 2] 3000 = 0 := by decide

/-! ## T3 — funding (`tx_builder.build_psbt`), for every estimator `est` -/

/-- Value is conserved: inputs = outputs + fee + change (change 0 when no change output). -/
theorem funding_conserves (a : FundArgs) (est : Bool → Except PyErr Int) (r : Funded)
    (h : fund a est = .ok r) : a.totalIn = a.totalOut + r.fee + r.change.getD 0 := by
  obtain ⟨_, _, h | h⟩ := fund_ok a est r h
  · obtain ⟨_, _, _, _, _, _, hr⟩ := fundNoChange_ok a est r h.1
    subst hr; simp <;> omega
  · obtain ⟨_, _, fee, _, _, _, _, _, _, _, hr⟩ := h
    subst hr; simp <;> omega

/-- The fee returned is at least what the rate asks of the estimated size of the psbt returned
    (with the change output when there is one, without it when it was dropped). -/
theorem funding_pays_rate (a : FundArgs) (est : Bool → Except PyErr Int) (r : Funded)
    (h : fund a est = .ok r) :
    ∃ v owed, est r.change.isSome = .ok v ∧ Gen.Fee.fee_from_vsize v a.rate = .ok owed ∧ owed ≤ r.fee := by
  obtain ⟨_, _, h | h⟩ := fund_ok a est r h
  · obtain ⟨_, v, owed, he, hf, hle, hr⟩ := fundNoChange_ok a est r h.1
    subst hr
    exact ⟨v, owed, he, hf, hle⟩
  · obtain ⟨_, v, fee, _, _, he, hf, _, _, _, hr⟩ := h
    subst hr
    exact ⟨v, fee, he, hf, Int.le_refl _⟩

/-- A change output is created only for a change script, is never dust for that script at the dust
    rate, and never makes the outputs exceed MAX_MONEY. -/
theorem funding_no_dust_change (a : FundArgs) (est : Bool → Except PyErr Int) (r : Funded) (c : Int)
    (h : fund a est = .ok r) (hc : r.change = some c) :
    ∃ script dust, a.change = some script ∧ dustThreshold script a.dustRate = .ok dust ∧
      dust ≤ c ∧ a.totalOut + c ≤ 2100000000000000 := by
  obtain ⟨_, _, h | h⟩ := fund_ok a est r h
  · obtain ⟨_, _, _, _, _, _, hr⟩ := fundNoChange_ok a est r h.1
    subst hr; cases hc
  · obtain ⟨script, _, fee, dust, hs, _, _, hd, hge, hmax, hr⟩ := h
    subst hr
    cases hc
    exact ⟨script, dust, hs, hd, hge, hmax⟩

/-- No inputs, or payment outputs above MAX_MONEY, are refused before any decision is taken. -/
theorem funding_refuses_upstream (a : FundArgs) (est : Bool → Except PyErr Int)
    (h : a.nIn = 0 ∨ a.totalOut > 2100000000000000) : fund a est = .error .value := by
  rcases h with h | h
  · exact fund_no_inputs a est h
  · by_cases hi : a.nIn = 0
    · exact fund_no_inputs a est hi
    · unfold fund
      have : a.totalOut > Gen.Fee.MAX_SATOSHI := h
      simp [hi, this]; rfl

/-- Refusal, exactly (past `funding_refuses_upstream`).  With at least one input, an estimator that answers (`v₁` with the change output, `v₂` without),
    valid rates and outputs within MAX_MONEY:
    * when change is created (a change script, and what the fee leaves is not dust) the only refusal
      left is the amount rule — the change would exceed MAX_MONEY;
    * otherwise `build_psbt` refuses iff nothing is paid or the inputs do not cover outputs + fee. -/
theorem funding_refuses_exactly (a : FundArgs) (est : Bool → Except PyErr Int) (v₁ v₂ fee₁ owed₂ : Int)
    (hi : a.nIn ≠ 0) (hm : a.totalOut ≤ 2100000000000000)
    (he₁ : est true = .ok v₁) (he₂ : est false = .ok v₂)
    (hf₁ : Gen.Fee.fee_from_vsize v₁ a.rate = .ok fee₁) (hf₂ : Gen.Fee.fee_from_vsize v₂ a.rate = .ok owed₂) :
    (a.change = none →
      (fund a est = .error .value ↔ (a.nOut = 0 ∨ a.totalIn < a.totalOut + owed₂)) ∧
      (fund a est = .ok ⟨a.totalIn - a.totalOut, none⟩ ↔ ¬ (a.nOut = 0 ∨ a.totalIn < a.totalOut + owed₂))) ∧
    (∀ script dust, a.change = some script → dustThreshold script a.dustRate = .ok dust →
      (dust ≤ a.totalIn - a.totalOut - fee₁ →
        (fund a est = .error .value ↔ a.totalIn - fee₁ > 2100000000000000) ∧
        (fund a est = .ok ⟨fee₁, some (a.totalIn - a.totalOut - fee₁)⟩ ↔ ¬ a.totalIn - fee₁ > 2100000000000000)) ∧
      (a.totalIn - a.totalOut - fee₁ < dust →
        (fund a est = .error .value ↔ (a.nOut = 0 ∨ a.totalIn < a.totalOut + owed₂)) ∧
        (fund a est = .ok ⟨a.totalIn - a.totalOut, none⟩ ↔ ¬ (a.nOut = 0 ∨ a.totalIn < a.totalOut + owed₂)))) := by
  have hmx : Gen.Fee.MAX_SATOSHI = 2100000000000000 := rfl
  have key : ∀ (P : Prop) [Decidable P] (x : Funded),
      ((if P then (Except.error PyErr.value : Except PyErr Funded) else .ok x) = .error .value ↔ P) ∧
      ((if P then (Except.error PyErr.value : Except PyErr Funded) else .ok x) = .ok x ↔ ¬ P) := by
    intro P _ x
    by_cases hp : P <;> simp [hp]
  have nc := fundNoChange_eq a est v₂ owed₂ he₂ hf₂
  have cond : (a.nOut = 0 ∨ a.totalIn - a.totalOut < owed₂) ↔ (a.nOut = 0 ∨ a.totalIn < a.totalOut + owed₂) := by
    constructor <;> (rintro (h | h); exact Or.inl h; exact Or.inr (by omega))
  constructor
  · intro hch
    rw [fund_eq_nochange a est hi (by omega) hch, nc]
    have := key (a.nOut = 0 ∨ a.totalIn - a.totalOut < owed₂) ⟨a.totalIn - a.totalOut, none⟩
    exact ⟨this.1.trans cond, this.2.trans (not_congr cond)⟩
  · intro script dust hch hd
    have fe := fund_eq_change a est script v₁ fee₁ dust hi (by omega) hch he₁ hf₁ hd
    constructor
    · intro hge
      rw [fe]
      simp only [ge_iff_le, hge, if_true, hmx]
      exact key _ _
    · intro hlt
      rw [fe]
      have : ¬ (a.totalIn - a.totalOut - fee₁ ≥ dust) := by omega
      simp only [this, if_false, nc]
      have := key (a.nOut = 0 ∨ a.totalIn - a.totalOut < owed₂) ⟨a.totalIn - a.totalOut, none⟩
      exact ⟨this.1.trans cond, this.2.trans (not_congr cond)⟩

/-- What `tx_builder` offers is `build_psbt` and its result type, nothing else: btclib ships NO coin-selection strategy
    (the module says so: "this spends the ones it is given, all of them"), so the funding theorems above, which
    quantify over every set of inputs through `nIn`/`totalIn`, are about every way the library can fund.  The list
    is regenerated from the source (public definitions = `__all__`, and `build_psbt`'s parameters): a selection
    function or a new knob arriving in the module breaks this obligation instead of going unmodelled. -/
theorem funding_entry_points :
    Gen.Fee.TX_BUILDER_PUBLIC = ["FundedPsbt", "build_psbt"] ∧
    Gen.Fee.BUILD_PSBT_PARAMS = ["inputs", "outputs", "fee_rate", "change_script_pub_key", "tx_version", "lock_time",
      "dust_fee_rate", "sizer"] := by decide

/-- The change / no-change boundary, exactly.  What the fee leaves EQUAL to the dust threshold is a change output of
    exactly that amount at fee `fee₁`; one satoshi less and there is no change output, the whole remainder
    `fee₁ + dust − 1` is the fee (provided it covers what the smaller transaction owes). -/
theorem funding_change_boundary (a : FundArgs) (est : Bool → Except PyErr Int) (script : Bytes)
    (v₁ v₂ fee₁ owed₂ dust : Int)
    (hi : a.nIn ≠ 0) (hm : a.totalOut ≤ 2100000000000000) (hch : a.change = some script)
    (he₁ : est true = .ok v₁) (he₂ : est false = .ok v₂)
    (hf₁ : Gen.Fee.fee_from_vsize v₁ a.rate = .ok fee₁) (hf₂ : Gen.Fee.fee_from_vsize v₂ a.rate = .ok owed₂)
    (hd : dustThreshold script a.dustRate = .ok dust) :
    (a.totalIn - a.totalOut - fee₁ = dust → a.totalIn - fee₁ ≤ 2100000000000000 →
      fund a est = .ok ⟨fee₁, some dust⟩) ∧
    (a.totalIn - a.totalOut - fee₁ = dust - 1 → a.nOut ≠ 0 → owed₂ ≤ a.totalIn - a.totalOut →
      fund a est = .ok ⟨fee₁ + dust - 1, none⟩) := by
  have key := (funding_refuses_exactly a est v₁ v₂ fee₁ owed₂ hi hm he₁ he₂ hf₁ hf₂).2 script dust hch hd
  constructor
  · intro h hx
    have := ((key.1 (by omega)).2).2 (by omega)
    rw [this, h]
  · intro h hn ho
    have := ((key.2 (by omega)).2).2 (by omega)
    rw [this]
    have : a.totalIn - a.totalOut = fee₁ + dust - 1 := by omega
    rw [this]

/-- How far above the rate the fee can be.  With a change output the fee is EXACTLY `fee_from_vsize` of the estimate
    (never a satoshi more than the ceiling); when a change script was given and the change was dropped, the fee is
    below that figure plus the dust threshold: the overpayment is "exactly the change that was too small to create". -/
theorem funding_overpay_bounded (a : FundArgs) (est : Bool → Except PyErr Int) (r : Funded)
    (h : fund a est = .ok r) :
    (∀ c, r.change = some c → ∃ v, est true = .ok v ∧ Gen.Fee.fee_from_vsize v a.rate = .ok r.fee) ∧
    (r.change = none → ∀ script, a.change = some script →
      ∃ v fee₁ dust, est true = .ok v ∧ Gen.Fee.fee_from_vsize v a.rate = .ok fee₁ ∧
        dustThreshold script a.dustRate = .ok dust ∧ r.fee < fee₁ + dust) := by
  obtain ⟨_, _, h | h⟩ := fund_ok a est r h
  · obtain ⟨_, _, _, _, _, _, hr⟩ := fundNoChange_ok a est r h.1
    subst hr
    refine ⟨fun c hc => (by cases hc), fun _ script hs => ?_⟩
    rcases h.2 with hnone | ⟨script', v, fee, dust, hs', he, hf, hd, hlt⟩
    · rw [hnone] at hs; cases hs
    · rw [hs'] at hs; cases hs
      exact ⟨v, fee, dust, he, hf, hd, by simp; omega⟩
  · obtain ⟨script, v, fee, dust, hs, he, hf, hd, hge, hmax, hr⟩ := h
    subst hr
    exact ⟨fun c _ => ⟨v, he, hf⟩, fun hc => by cases hc⟩

-- non-vacuity: one funded psbt with change, one whose change was dust and went to the fee, one refusal
example : fund ⟨1, 100000, 60000, 1, 10000, some ([0, 20] ++ List.replicate 20 7), 3000⟩ (fun b => .ok (if b then 141 else 110))
    = .ok ⟨1410, some 38590⟩ := by decide
example : fund ⟨1, 61500, 60000, 1, 10000, some ([0, 20] ++ List.replicate 20 7), 3000⟩ (fun b => .ok (if b then 141 else 110))
    = .ok ⟨1500, none⟩ := by decide
example : fund ⟨1, 61000, 60000, 1, 10000, some ([0, 20] ++ List.replicate 20 7), 3000⟩ (fun b => .ok (if b then 141 else 110))
    = .error .value := by decide
example : fund ⟨0, 0, 0, 1, 0, none, 3000⟩ (fun _ => .ok 10) = .error .value := by decide
-- the boundary at p2wpkh change, 3000 sat/kvB (dust 294), fee 1410: remainder 1704 -> change 294; 1703 -> fee 1703
example : fund ⟨1, 61704, 60000, 1, 10000, some ([0, 20] ++ List.replicate 20 7), 3000⟩ (fun b => .ok (if b then 141 else 110))
    = .ok ⟨1410, some 294⟩ := by decide
example : fund ⟨1, 61703, 60000, 1, 10000, some ([0, 20] ++ List.replicate 20 7), 3000⟩ (fun b => .ok (if b then 141 else 110))
    = .ok ⟨1703, none⟩ := by decide
-- fee rounding at a ceiling boundary: 141 vB at 1001 sat/kvB is 141.141 -> 142
example : fund ⟨1, 100000, 60000, 1, 1001, some ([0, 20] ++ List.replicate 20 7), 3000⟩ (fun b => .ok (if b then 141 else 110))
    = .ok ⟨142, some 39858⟩ := by decide

/-! ## T5 — amounts and fee-rate units (Decimal = exact rational sign·coeff·10^exp) -/

/-- the constants of amount.py agree with each other: 10^8 satoshi per bitcoin, the quantum is 10^-8,
    and MAX_MONEY is 21 million of them -/
theorem amount_constants :
    Gen.Fee.SATOSHI_PER_BITCOIN = 10 ^ Gen.Fee.BTC_DECIMALS.toNat ∧
    Gen.Fee.MAX_SATOSHI = Gen.Fee.MAX_BITCOIN * Gen.Fee.SATOSHI_PER_BITCOIN ∧
    Gen.Fee.MAX_SATOSHI_VALUE = Gen.Fee.MAX_SATOSHI ∧
    Gen.Fee.MAX_SATOSHI = 2100000000000000 := by decide

/-- `sats_from_btc(btc_from_sats(s)) = s` for every amount in the money range, and `btc_from_sats`
    refuses everything outside it. -/
theorem amount_roundtrip (s : Int) :
    (0 ≤ s ∧ s ≤ 2100000000000000 →
      ∃ c e, btcFromSats s = .ok (c, e) ∧ satsFromBtc (.fin false c e) = .ok s) ∧
    (¬ (0 ≤ s ∧ s ≤ 2100000000000000) → btcFromSats s = .error .value) := by
  have hm : Gen.Fee.MAX_SATOSHI = 2100000000000000 := rfl
  constructor
  · rintro ⟨h0, h1⟩
    obtain ⟨n, rfl⟩ := Int.eq_ofNat_of_zero_le h0
    have hv : Gen.Fee.valid_sats_amount (n : Int) 0 = .ok (n : Int) := by
      rw [valid_sats_amount_eq]; simp [hm, h1]
    refine ⟨(normalize n (-(8 : Nat) : Int)).1, (normalize n (-(8 : Nat) : Int)).2, ?_, ?_⟩
    · unfold btcFromSats
      rw [hv]; rfl
    · have hs := scaled_normalize 8 n
      have ha := absLe_normalize 8 n 21000000 (by omega)
      unfold satsFromBtc validBtcAmount
      have e8 : Gen.Fee.BTC_DECIMALS.toNat = 8 := rfl
      have eM : Gen.Fee.MAX_BITCOIN.toNat = 21000000 := rfl
      have hs' : scaled 8 (normalize n (-8)).1 (normalize n (-8)).2 = some n := hs
      have ha' : absLe (normalize n (-8)).1 (normalize n (-8)).2 21000000 = true := ha
      simp [e8, eM, ha', hs', bind, Except.bind, pure, Except.pure]
  · intro h
    unfold btcFromSats
    rw [valid_sats_amount_eq]
    have : ¬ (0 ≤ s ∧ s ≤ Gen.Fee.MAX_SATOSHI) := by rw [hm]; exact h
    simp [this] <;> rfl

/-- `sats_from_btc` is exact and refuses the rest: an answer `s` is the amount times 10^8 *exactly*
    (so a ninth decimal that is not zero is refused, never rounded), lies in the money range, and
    only a zero may carry a minus sign; NaN and infinities are refused. -/
theorem sats_from_btc_exact (d : Dec) (s : Int) (h : satsFromBtc d = .ok s) :
    0 ≤ s ∧ s ≤ 2100000000000000 ∧
    ∃ neg c e, d = .fin neg c e ∧ (neg = true → c = 0) ∧
      ((0 ≤ e + 8 ∧ s = c * 10 ^ (e + 8).toNat) ∨ (e + 8 < 0 ∧ (c : Int) = s * 10 ^ (-(e + 8)).toNat)) := by
  unfold satsFromBtc validBtcAmount at h
  have e8 : Gen.Fee.BTC_DECIMALS.toNat = 8 := rfl
  have eM : Gen.Fee.MAX_BITCOIN.toNat = 21000000 := rfl
  cases d with
  | nan => cases h
  | inf _ => cases h
  | fin neg c e =>
    simp only [e8, eM] at h
    by_cases hr : (¬ neg = true ∨ c = 0) ∧ absLe c e 21000000 = true
    · simp only [hr, and_self, not_true_eq_false, if_false] at h
      cases hsc : scaled 8 c e with
      | none => (simp [hsc] at h) <;> cases h
      | some n =>
        simp only [hsc, Option.isNone_some, Bool.false_eq_true, if_false] at h
        have hs : s = (n : Int) := by
          simp only [bind, Except.bind, pure, Except.pure, hsc, Option.getD_some] at h
          cases h; rfl
        have hle := scaled_le 8 c e n 21000000 hsc hr.2
        refine ⟨by omega, by omega, neg, c, e, rfl, ?_, ?_⟩
        · intro hn; rcases hr.1 with h1 | h1
          · exact absurd hn h1
          · exact h1
        · rcases scaled_some 8 c e n hsc with ⟨a, b⟩ | ⟨a, b⟩
          · exact Or.inl ⟨a, by rw [hs, b]; simp⟩
          · exact Or.inr ⟨a, by rw [hs, b]; simp⟩
    · simp only [hr, not_false_eq_true, if_true] at h
      cases h

/-- fee-rate units: the sat/vB reading of a rate converts back to the same sat/kvB integer for every
    rate below 10^19 sat/kvB (10^16 sat/vB: more than MAX_MONEY for a single virtual byte), and a
    reading at or above that is refused (by the position of its leading digit, before any ratio is taken). -/
theorem feerate_units_roundtrip (k : Nat) :
    (k < 10 ^ 19 →
      feeRateFromSatsPerVbyte (.fin false (satsPerVbyte k).1 (satsPerVbyte k).2) = .ok (k : Int)) ∧
    (10 ^ 19 ≤ k →
      feeRateFromSatsPerVbyte (.fin false (satsPerVbyte k).1 (satsPerVbyte k).2) = .error .value) := by
  unfold feeRateFromSatsPerVbyte satsPerVbyte
  simp only [Int.toNat_natCast]
  have h3 : scaled 3 (normalize k (-3)).1 (normalize k (-3)).2 = some k := scaled_normalize 3 k
  by_cases hk : k = 0
  · subst hk
    have hz : normalize 0 (-3) = (0, 0) := by decide
    constructor
    · intro _; rw [hz]; decide
    · intro h; simp at h
  · obtain ⟨hc, hlo, hle, hgt⟩ := adjusted_satsPerVbyte k hk
    constructor
    · intro hlt
      have h1 : ¬ (adjusted (normalize k (-3)).1 (normalize k (-3)).2 > 15) := by have := hle hlt; omega
      have h2 : ¬ (adjusted (normalize k (-3)).1 (normalize k (-3)).2 < -3) := by omega
      simp only [h1, h2, and_false, if_false, h3, Bool.false_eq_true]
      exact feeRate_nat k
    · intro hge
      have h1 := hgt hge
      simp [hc, h1]

/-- sat/vB → sat/kvB is exact or refused: an accepted quote is non-negative, is the quote times 1000
    *exactly* (`finer than a millisatoshi` is refused, never rounded), and when non-zero has its
    leading digit between 10^-3 and 10^15. -/
theorem feerate_from_sats_per_vbyte_exact (d : Dec) (r : Int) (h : feeRateFromSatsPerVbyte d = .ok r) :
    0 ≤ r ∧ ∃ neg c e, d = .fin neg c e ∧ (c ≠ 0 → -3 ≤ adjusted c e ∧ adjusted c e ≤ 15) ∧
      ((0 ≤ e + 3 ∧ r = c * 10 ^ (e + 3).toNat) ∨ (e + 3 < 0 ∧ (c : Int) = r * 10 ^ (-(e + 3)).toNat)) := by
  unfold feeRateFromSatsPerVbyte at h
  cases d with
  | nan => cases h
  | inf _ => cases h
  | fin neg c e =>
    by_cases g1 : c ≠ 0 ∧ adjusted c e > 15
    · simp [g1] at h
    · simp only [g1, if_false] at h
      by_cases g2 : c ≠ 0 ∧ adjusted c e < -3
      · simp [g2] at h
      · simp only [g2, if_false] at h
        cases hsc : scaled 3 c e with
        | none => simp [hsc] at h
        | some n =>
          simp only [hsc] at h
          unfold feeRate at h
          by_cases hlt : (if neg = true then -(n : Int) else (n : Int)) < 0
          · simp [hlt] at h
          · simp only [hlt, if_false] at h
            have hr : r = (n : Int) := by
              cases h
              by_cases hn : neg = true
              · simp only [hn, if_true] at hlt ⊢; omega
              · simp [hn]
            refine ⟨by omega, neg, c, e, rfl, ?_, ?_⟩
            · intro hc
              constructor
              · have := fun hh => g2 ⟨hc, hh⟩; omega
              · have := fun hh => g1 ⟨hc, hh⟩; omega
            · rcases scaled_some 3 c e n hsc with ⟨a, b⟩ | ⟨a, b⟩
              · exact Or.inl ⟨a, by rw [hr, b]; simp⟩
              · exact Or.inr ⟨a, by rw [hr, b]; simp⟩

-- non-vacuity: 1.5 BTC, 1 satoshi, a ninth decimal, above the cap, -0, 1.5 sat/vB, 0.0001 sat/vB
example : satsFromBtc (.fin false 15 (-1)) = .ok 150000000 := by decide
example : satsFromBtc (.fin false 1 (-8)) = .ok 1 := by decide
example : satsFromBtc (.fin false 1 (-9)) = .error .value := by decide
example : satsFromBtc (.fin false 2100000000000001 (-8)) = .error .value := by decide
example : satsFromBtc (.fin true 0 (-3)) = .ok 0 := by decide
example : btcFromSats 150000000 = .ok (15, -1) := by decide
example : btcFromSats 10000000000 = .ok (1, 2) := by decide
example : feeRateFromSatsPerVbyte (.fin false 15 (-1)) = .ok 1500 := by decide
example : feeRateFromSatsPerVbyte (.fin false 1 (-4)) = .error .value := by decide
example : satsPerVbyte 1500 = (15, -1) := by decide
example : feeRateFromSatsPerVbyte (.fin false 1 400) = .error .value := by decide
example : feeRateFromSatsPerVbyte (.fin false 9999999999999999 0) = .ok 9999999999999999000 := by decide +kernel
example : feeRateFromSatsPerVbyte (.fin false 1 16) = .error .value := by decide
example : feeRateFromSatsPerVbyte (.fin true 0 999999999) = .ok 0 := by decide

/-! ## T4 — estimate ≥ actual -/

/-- `psbt_size.SIG_SIZE` (72, sighash byte included) bounds every low-s ECDSA signature with
    r < 2^256, s < 2^255 — and a high-s one can need one byte more, never two. -/
theorem sig_size_is_upper_bound (r s : Nat) (hr : r < 2 ^ 256) :
    (s < 2 ^ 255 → ((derSigLen r s + 1 : Nat) : Int) ≤ Gen.Fee.SIG_SIZE) ∧
    (s < 2 ^ 256 → ((derSigLen r s + 1 : Nat) : Int) ≤ Gen.Fee.SIG_SIZE + 1) := by
  have hb := natBitLength_le r 256 hr
  unfold derSigLen derIntLen Gen.Fee.SIG_SIZE
  constructor
  · intro hs
    have := natBitLength_le s 255 hs
    omega
  · intro hs
    have := natBitLength_le s 256 hs
    omega
example : derSigLen (2 ^ 256 - 1) (2 ^ 255 - 1) + 1 = 72 := by decide +kernel
example : derSigLen (2 ^ 256 - 1) (2 ^ 256 - 1) + 1 = 73 := by decide +kernel
example : derSigLen 1 1 = 8 := by decide

/-! ### per template: `estimated_input_sizes` covers what C10's finalizer lays out

`tp` is `type_and_payload`, `H` hash160, `sizer` the caller's answer, `vk` key validity; a signature
is any byte string of at most SIG_SIZE bytes (by `sig_size_is_upper_bound`: every low-s DER signature
with its hash-type byte), a key any byte string no longer than `_pub_key_size` answers.
`coversIn (sizesOf fin) est`: the script_sig is no longer than estimated and the witness has the
same number of elements, each no longer than estimated. -/

open Btc.Script Btc.Spend in
/-- p2pkh, either key compression.  `_pub_key_size` is the translated source; that it answers at least the key's
    length is DERIVED from the compression: a compressed key always, an uncompressed one when the psbt names it in
    hd_key_paths (as an updater does) — unless another named key has the same hash160, and then that collision is
    exhibited. -/
theorem estimate_covers_p2pkh (vk : Bytes → Bool) (tp : Bytes → Ty × Bytes) (H : Bytes → Bytes) (sizer : Option (List Nat))
    (h pk sig : Bytes) (hd : List Bytes) (sht : Option Nat) (hl : h.length = 20)
    (htp : tp (p2pkh h) = (.p2pkh, h)) (hs : sig.length ≤ SIG)
    (hh : H pk = h) (hc : pk.length = 33 ∨ pk ∈ hd) :
    (∃ est fin, estimatedInputSizes tp H sizer ⟨some (p2pkh h), [], [], hd, sht, false, [], []⟩ = .ok est ∧
      finalizedInput vk ⟨some (p2pkh h), [], [], [(pk, sig)]⟩ = .ok fin ∧ coversIn (sizesOf fin) est) ∨
    ∃ k' ∈ hd, k' ≠ pk ∧ H k' = H pk := by
  rcases pub_key_size_covers H ⟨some (p2pkh h), [], [], hd, sht, false, [], []⟩ pk hc with hk | hcol
  · left
    rw [hh] at hk
    have hest : estimatedInputSizes tp H sizer ⟨some (p2pkh h), [], [], hd, sht, false, [], []⟩ =
        .ok ((serializePushes ([SIG, pubKeySize H ⟨some (p2pkh h), [], [], hd, sht, false, [], []⟩ h].map zeros ++ [])).length, []) := by
      simp [estimatedInputSizes, htp, solutionSizes, Except.map]
    refine ⟨_, _, hest, Btc.C18.Fin.finalize_p2pkh vk h pk sig hl, ?_, trivial⟩
    have := pushes_cover [sig, pk] [SIG, pubKeySize H ⟨some (p2pkh h), [], [], hd, sht, false, [], []⟩ h] [] ⟨hs, hk, trivial⟩
    simpa [sizesOf, serializePushes] using this
  · exact Or.inr hcol

open Btc.Script Btc.Spend in
/-- pkh() inside sh(), either key compression: script_sig `sig pk redeem` -/
theorem estimate_covers_sh_pkh (vk : Bytes → Bool) (tp : Bytes → Ty × Bytes) (H : Bytes → Bytes) (sizer : Option (List Nat))
    (h hr pk sig : Bytes) (hd : List Bytes) (sht : Option Nat) (hl : h.length = 20) (hrl : hr.length = 20)
    (htp : tp (p2sh hr) = (.p2sh, hr)) (htp2 : tp (p2pkh h) = (.p2pkh, h)) (hs : sig.length ≤ SIG)
    (hh : H pk = h) (hc : pk.length = 33 ∨ pk ∈ hd) :
    (∃ est fin, estimatedInputSizes tp H sizer ⟨some (p2sh hr), p2pkh h, [], hd, sht, false, [], []⟩ = .ok est ∧
      finalizedInput vk ⟨some (p2sh hr), p2pkh h, [], [(pk, sig)]⟩ = .ok fin ∧ coversIn (sizesOf fin) est) ∨
    ∃ k' ∈ hd, k' ≠ pk ∧ H k' = H pk := by
  rcases pub_key_size_covers H ⟨some (p2sh hr), p2pkh h, [], hd, sht, false, [], []⟩ pk hc with hk | hcol
  · left
    rw [hh] at hk
    have hne : (p2pkh h).isEmpty = false := by simp [p2pkh, Gen.Spend.P2PKH_PREFIX]
    have hest : estimatedInputSizes tp H sizer ⟨some (p2sh hr), p2pkh h, [], hd, sht, false, [], []⟩ =
        .ok ((serializePushes ([SIG, pubKeySize H ⟨some (p2sh hr), p2pkh h, [], hd, sht, false, [], []⟩ h].map zeros ++
          [p2pkh h])).length, []) := by
      simp [estimatedInputSizes, htp, htp2, hne, solutionSizes, Except.map]
    refine ⟨_, _, hest, Btc.C18.Fin.finalize_sh_pkh vk h hr pk sig hl hrl, ?_, trivial⟩
    have := pushes_cover [sig, pk] [SIG, pubKeySize H ⟨some (p2sh hr), p2pkh h, [], hd, sht, false, [], []⟩ h] [p2pkh h]
      ⟨hs, hk, trivial⟩
    simpa [sizesOf] using this
  · exact Or.inr hcol

open Btc.Script Btc.Spend in
/-- pkh() inside wsh(), native or behind p2sh (`redeem` empty = native), EITHER key compression (consensus allows
    an uncompressed key in a v0 witness script; btclib signs and finalizes it): witness `[sig, pk, witness_script]` -/
theorem estimate_covers_wsh_pkh (vk : Bytes → Bool) (tp : Bytes → Ty × Bytes) (H : Bytes → Bytes) (sizer : Option (List Nat))
    (spk redeem h pl0 pl1 pk sig : Bytes) (hd : List Bytes) (sht : Option Nat) (hl : h.length = 20)
    (htp : if redeem.isEmpty then tp spk = (.p2wsh, pl0) else tp spk = (.p2sh, pl0) ∧ tp redeem = (.p2wsh, pl1))
    (htw : tp (p2pkh h) = (.p2pkh, h)) (hs : sig.length ≤ SIG)
    (hh : H pk = h) (hc : pk.length = 33 ∨ pk ∈ hd) :
    (∃ est fin, estimatedInputSizes tp H sizer ⟨some spk, redeem, p2pkh h, hd, sht, false, [], []⟩ = .ok est ∧
      finalizedInput vk ⟨some spk, redeem, p2pkh h, [(pk, sig)]⟩ = .ok fin ∧ coversIn (sizesOf fin) est) ∨
    ∃ k' ∈ hd, k' ≠ pk ∧ H k' = H pk := by
  rcases pub_key_size_covers H ⟨some spk, redeem, p2pkh h, hd, sht, false, [], []⟩ pk hc with hk | hcol
  · left
    rw [hh] at hk
    have hws : (p2pkh h).isEmpty = false := by simp [p2pkh, Gen.Spend.P2PKH_PREFIX]
    have hfin := Btc.C18.Fin.finalize_wsh_pkh vk spk redeem h pk sig hl
    by_cases hr : redeem.isEmpty = true
    · simp only [hr, if_true] at htp hfin
      have hest : estimatedInputSizes tp H sizer ⟨some spk, redeem, p2pkh h, hd, sht, false, [], []⟩ =
          .ok ((serializePushes []).length,
            [SIG, pubKeySize H ⟨some spk, redeem, p2pkh h, hd, sht, false, [], []⟩ h] ++ [(p2pkh h).length]) := by
        simp [estimatedInputSizes, htp, hr, p2wshWitnessSizes, hws, htw, solutionSizes, Except.map]
      exact ⟨_, _, hest, hfin, by simp [sizesOf], hs, hk, Nat.le_refl _, trivial⟩
    · have hr' : redeem.isEmpty = false := by simpa using hr
      simp only [hr', Bool.false_eq_true, if_false] at htp hfin
      have hest : estimatedInputSizes tp H sizer ⟨some spk, redeem, p2pkh h, hd, sht, false, [], []⟩ =
          .ok ((serializePushes [redeem]).length,
            [SIG, pubKeySize H ⟨some spk, redeem, p2pkh h, hd, sht, false, [], []⟩ h] ++ [(p2pkh h).length]) := by
        simp [estimatedInputSizes, htp.1, htp.2, hr', p2wshWitnessSizes, hws, htw, solutionSizes, Except.map]
      exact ⟨_, _, hest, hfin, by simp [sizesOf], hs, hk, Nat.le_refl _, trivial⟩
  · exact Or.inr hcol

-- non-vacuity: an uncompressed key the psbt names gets 65 from the translated `_pub_key_size`; unnamed, 33
example : pubKeySize (fun k => k.take 2) ⟨none, [], [], [List.replicate 65 4], none, false, [], []⟩ [4, 4] = 65 := by decide
example : pubKeySize (fun k => k.take 2) ⟨none, [], [], [], none, false, [], []⟩ [4, 4] = 33 := by decide

open Btc.Script Btc.Spend in
/-- p2pk -/
theorem estimate_covers_p2pk (vk : Bytes → Bool) (tp : Bytes → Ty × Bytes) (H : Bytes → Bytes) (sizer : Option (List Nat))
    (pk sig : Bytes) (hd : List Bytes) (sht : Option Nat) (hl : pk.length = 33)
    (htp : tp (p2pk pk) = (.p2pk, pk)) (hs : sig.length ≤ SIG) :
    ∃ est fin, estimatedInputSizes tp H sizer ⟨some (p2pk pk), [], [], hd, sht, false, [], []⟩ = .ok est ∧
      finalizedInput vk ⟨some (p2pk pk), [], [], [(pk, sig)]⟩ = .ok fin ∧ coversIn (sizesOf fin) est := by
  have hest : estimatedInputSizes tp H sizer ⟨some (p2pk pk), [], [], hd, sht, false, [], []⟩ =
      .ok ((serializePushes ([SIG].map zeros ++ [])).length, []) := by
    simp [estimatedInputSizes, htp, solutionSizes, Except.map]
  refine ⟨_, _, hest, Btc.C18.Fin.finalize_p2pk vk pk sig hl, ?_, trivial⟩
  have := pushes_cover [sig] [SIG] [] ⟨hs, trivial⟩
  simpa [sizesOf, serializePushes] using this

open Btc.Script Btc.Spend in
/-- p2wpkh (BIP143: compressed keys only) -/
theorem estimate_covers_p2wpkh (vk : Bytes → Bool) (tp : Bytes → Ty × Bytes) (H : Bytes → Bytes) (sizer : Option (List Nat))
    (h pk sig : Bytes) (hd : List Bytes) (sht : Option Nat) (hl : h.length = 20)
    (htp : tp (p2wpkh h) = (.p2wpkh, h)) (hs : sig.length ≤ SIG) (hk : pk.length ≤ KEY) :
    ∃ est fin, estimatedInputSizes tp H sizer ⟨some (p2wpkh h), [], [], hd, sht, false, [], []⟩ = .ok est ∧
      finalizedInput vk ⟨some (p2wpkh h), [], [], [(pk, sig)]⟩ = .ok fin ∧ coversIn (sizesOf fin) est := by
  have hest : estimatedInputSizes tp H sizer ⟨some (p2wpkh h), [], [], hd, sht, false, [], []⟩ =
      .ok ((serializePushes []).length, [SIG, KEY]) := by
    simp [estimatedInputSizes, htp, solutionSizes, Except.map]
  exact ⟨_, _, hest, Btc.C18.Fin.finalize_p2wpkh vk h pk sig hl, by simp [sizesOf, serializePushes], hs, hk, trivial⟩

open Btc.Script Btc.Spend in
/-- p2sh-p2wpkh: the script_sig is the push of the redeem script on both sides -/
theorem estimate_covers_p2sh_p2wpkh (vk : Bytes → Bool) (tp : Bytes → Ty × Bytes) (H : Bytes → Bytes)
    (sizer : Option (List Nat)) (h hr pk sig : Bytes) (hd : List Bytes) (sht : Option Nat)
    (hl : h.length = 20) (hrl : hr.length = 20)
    (htp : tp (p2sh hr) = (.p2sh, hr)) (htp2 : tp (p2wpkh h) = (.p2wpkh, h))
    (hs : sig.length ≤ SIG) (hk : pk.length ≤ KEY) :
    ∃ est fin, estimatedInputSizes tp H sizer ⟨some (p2sh hr), p2wpkh h, [], hd, sht, false, [], []⟩ = .ok est ∧
      finalizedInput vk ⟨some (p2sh hr), p2wpkh h, [], [(pk, sig)]⟩ = .ok fin ∧ coversIn (sizesOf fin) est := by
  have hne : (p2wpkh h).isEmpty = false := by simp [p2wpkh, Gen.Spend.P2WPKH_PREFIX]
  have hest : estimatedInputSizes tp H sizer ⟨some (p2sh hr), p2wpkh h, [], hd, sht, false, [], []⟩ =
      .ok ((serializePushes [p2wpkh h]).length, [SIG, KEY]) := by
    simp [estimatedInputSizes, htp, htp2, hne, solutionSizes, Except.map]
  exact ⟨_, _, hest, Btc.C18.Fin.finalize_p2sh_p2wpkh vk h hr pk sig hl hrl,
    by simp [sizesOf, serializePushes], hs, hk, trivial⟩

open Btc.Script Btc.Spend in
/-- k-of-n multisig, bare or behind p2sh (`redeem` empty = bare): what C10's finalizer writes for ANY
    `partial_sigs` holding at least m usable signatures — `OP_0 sig₁ … sig_m [redeem]`, the first m in key
    order — is covered, every partial signature being at most SIG_SIZE bytes.  `hms` is `p2ms_m_and_keys`'s
    answer for the spent script (classification, like `tp`). -/
theorem estimate_covers_multisig_legacy (vk : Bytes → Bool) (tp : Bytes → Ty × Bytes) (H : Bytes → Bytes)
    (sizer : Option (List Nat)) (spk redeem pl pl0 : Bytes) (ps : List (Bytes × Bytes)) (m : Nat) (keys : List Bytes)
    (hd : List Bytes) (sht : Option Nat)
    (htp : if redeem.isEmpty then tp spk = (.p2ms, pl) else tp spk = (.p2sh, pl0) ∧ tp redeem = (.p2ms, pl))
    (hms : p2msMAndKeys vk (satisfiedScript ⟨some spk, redeem, [], ps⟩) = some (m, keys))
    (hm : Btc.Script.Core.getB pl 0 = Gen.Fee.OP_INT_OFFSET.toNat + m)
    (hn : m ≤ (keys.filterMap fun k => ps.lookup k).length)
    (hs : ∀ e ∈ ps, e.2.length ≤ SIG) :
    ∃ est fin, estimatedInputSizes tp H sizer ⟨some spk, redeem, [], hd, sht, false, [], []⟩ = .ok est ∧
      finalizedInput vk ⟨some spk, redeem, [], ps⟩ = .ok fin ∧ coversIn (sizesOf fin) est := by
  obtain ⟨hlen, hb⟩ := pushed_sigs_bounded ps keys m SIG hn hs
  have hfin := finalize_multisig vk spk redeem [] ps m keys hms hn
  generalize (keys.filterMap fun k => ps.lookup k).take m = sigs at hlen hb hfin
  subst hlen
  simp only [List.isEmpty_nil, if_true] at hfin
  have hc : covers ((([] : Bytes) :: sigs).map List.length) (0 :: List.replicate sigs.length SIG) :=
    ⟨Nat.le_refl _, covers_replicate sigs SIG hb⟩
  by_cases hr : redeem.isEmpty = true
  · simp only [hr, if_true] at htp hfin
    have hest : estimatedInputSizes tp H sizer ⟨some spk, redeem, [], hd, sht, false, [], []⟩ =
        .ok ((serializePushes ((0 :: List.replicate sigs.length SIG).map zeros ++ [])).length, []) := by
      simp [estimatedInputSizes, htp, hr, solutionSizes, p2msM_eq pl _ hm, Except.map]
    refine ⟨_, _, hest, hfin, ?_, trivial⟩
    have := pushes_cover ([] :: sigs) (0 :: List.replicate sigs.length SIG) [] hc
    simpa [sizesOf] using this
  · have hr' : redeem.isEmpty = false := by simpa using hr
    simp only [hr', Bool.false_eq_true, if_false] at htp hfin
    have hest : estimatedInputSizes tp H sizer ⟨some spk, redeem, [], hd, sht, false, [], []⟩ =
        .ok ((serializePushes ((0 :: List.replicate sigs.length SIG).map zeros ++ [redeem])).length, []) := by
      simp [estimatedInputSizes, htp.1, htp.2, hr', solutionSizes, p2msM_eq pl _ hm, Except.map]
    refine ⟨_, _, hest, hfin, ?_, trivial⟩
    have := pushes_cover ([] :: sigs) (0 :: List.replicate sigs.length SIG) [redeem] hc
    simpa [sizesOf] using this

open Btc.Script Btc.Spend in
/-- k-of-n multisig in p2wsh, native or behind p2sh (`redeem` empty = native): the finalizer's witness
    `[∅, sig₁ … sig_m, witness_script]` and script_sig (empty, or the push of the redeem script) are covered -/
theorem estimate_covers_multisig_p2wsh (vk : Bytes → Bool) (tp : Bytes → Ty × Bytes) (H : Bytes → Bytes)
    (sizer : Option (List Nat)) (spk redeem ws pl pl0 pl1 : Bytes) (ps : List (Bytes × Bytes)) (m : Nat)
    (keys : List Bytes) (hd : List Bytes) (sht : Option Nat)
    (hws : ws.isEmpty = false)
    (htp : if redeem.isEmpty then tp spk = (.p2wsh, pl0) else tp spk = (.p2sh, pl0) ∧ tp redeem = (.p2wsh, pl1))
    (htw : tp ws = (.p2ms, pl))
    (hms : p2msMAndKeys vk (satisfiedScript ⟨some spk, redeem, ws, ps⟩) = some (m, keys))
    (hm : Btc.Script.Core.getB pl 0 = Gen.Fee.OP_INT_OFFSET.toNat + m)
    (hn : m ≤ (keys.filterMap fun k => ps.lookup k).length)
    (hs : ∀ e ∈ ps, e.2.length ≤ SIG) :
    ∃ est fin, estimatedInputSizes tp H sizer ⟨some spk, redeem, ws, hd, sht, false, [], []⟩ = .ok est ∧
      finalizedInput vk ⟨some spk, redeem, ws, ps⟩ = .ok fin ∧ coversIn (sizesOf fin) est := by
  obtain ⟨hlen, hb⟩ := pushed_sigs_bounded ps keys m SIG hn hs
  have hfin := finalize_multisig vk spk redeem ws ps m keys hms hn
  generalize (keys.filterMap fun k => ps.lookup k).take m = sigs at hlen hb hfin
  subst hlen
  simp only [hws, Bool.false_eq_true, if_false] at hfin
  have hc : covers (((([] : Bytes) :: sigs) ++ [ws]).map List.length) ((0 :: List.replicate sigs.length SIG) ++ [ws.length]) := by
    rw [List.map_append]
    exact covers_append _ _ _ _ ⟨Nat.le_refl _, covers_replicate sigs SIG hb⟩ ⟨Nat.le_refl _, trivial⟩
  by_cases hr : redeem.isEmpty = true
  · simp only [hr, if_true] at htp hfin
    have hest : estimatedInputSizes tp H sizer ⟨some spk, redeem, ws, hd, sht, false, [], []⟩ =
        .ok ((serializePushes []).length, (0 :: List.replicate sigs.length SIG) ++ [ws.length]) := by
      simp [estimatedInputSizes, htp, hr, p2wshWitnessSizes, hws, htw, solutionSizes, p2msM_eq pl _ hm, Except.map]
    exact ⟨_, _, hest, hfin, by simp [sizesOf], by simpa [sizesOf] using hc⟩
  · have hr' : redeem.isEmpty = false := by simpa using hr
    simp only [hr', Bool.false_eq_true, if_false] at htp hfin
    have hest : estimatedInputSizes tp H sizer ⟨some spk, redeem, ws, hd, sht, false, [], []⟩ =
        .ok ((serializePushes [redeem]).length, (0 :: List.replicate sigs.length SIG) ++ [ws.length]) := by
      simp [estimatedInputSizes, htp.1, htp.2, hr', p2wshWitnessSizes, hws, htw, solutionSizes, p2msM_eq pl _ hm, Except.map]
    exact ⟨_, _, hest, hfin, by simp [sizesOf], by simpa [sizesOf] using hc⟩

/-- the threshold the estimate reads off the first op code of a multisig payload -- the TRANSLATED `m = …` line of
    `_solution_sizes` -- is m for every OP_m (OP_16 = 0x60 included, where reading the low nibble would say 0): one
    empty element and m signatures of SIG_SIZE are estimated -/
theorem multisig_threshold_read_off_op_code (H : Bytes → Bytes) (pin : SizeIn) (pl : Bytes) (m : Nat)
    (hm : Btc.Script.Core.getB pl 0 = Gen.Fee.OP_INT_OFFSET.toNat + m) :
    solutionSizes H .p2ms pl pin = some (0 :: List.replicate m SIG) := by
  simp [solutionSizes, p2msM_eq pl m hm]
example : p2msM [0x60, 33] = 16 ∧ p2msM [0x51] = 1 ∧ p2msM [0x5f] = 15 := by decide

-- non-vacuity: `p2ms_m_and_keys` and the finalizer on a concrete 1-of-2 (bare) with one signature for the second key
open Btc.Spend in
example : p2msMAndKeys (fun _ => true) (multisig 1 [List.replicate 33 2, List.replicate 33 3]) =
    some (1, [List.replicate 33 2, List.replicate 33 3]) := by decide +kernel
open Btc.Spend in
example : finalizedInput (fun _ => true)
    ⟨some (multisig 1 [List.replicate 33 2, List.replicate 33 3]), [], [], [(List.replicate 33 3, [0x30, 1])]⟩ =
    .ok ([0, 2, 0x30, 1], []) := by decide +kernel

open Btc.Script Btc.Spend in
/-- taproot key path: a BIP340 signature is 64 bytes, or 65 with a NON-ZERO hash-type byte (BIP341 forbids an
    explicit 0x00); the finalizer only accepts it when the byte is the input's `sig_hash_type`, which is what
    `_taproot_sig_size` reads -/
theorem estimate_covers_taproot_key (lh : Nat → Bytes → Bytes) (vk : Nat → Bytes → Bool)
    (vl : Nat → Bytes → Bytes → Bytes → Bool) (tp : Bytes → Ty × Bytes) (H : Bytes → Bytes) (sizer : Option (List Nat))
    (spk q sig : Bytes) (hd : List Bytes) (sht : Option Nat) (ss : List (Bytes × Bytes)) (ht : Nat)
    (htp : tp spk = (.p2tr, q))
    (hlen : sig.length = 64 ∨ (sig.length = 65 ∧ Btc.Script.Core.getB sig 64 ≠ 0))
    (hht : tapSigHashType sig sht = .ok ht) (hv : vk ht (sig.take 64) = true) :
    ∃ est fin, estimatedInputSizes tp H sizer ⟨some spk, [], [], hd, sht, false, [], []⟩ = .ok est ∧
      finalizedTaproot lh vk vl ⟨sht, sig, ss, []⟩ = .ok fin ∧ coversIn (sizesOf fin) est := by
  have hne : sig.isEmpty = false := by
    cases sig with
    | nil => rcases hlen with h | h <;> simp at h
    | cons _ _ => rfl
  have hest : estimatedInputSizes tp H sizer ⟨some spk, [], [], hd, sht, false, [], []⟩ =
      .ok ((serializePushes []).length, [taprootSigSize ⟨some spk, [], [], hd, sht, false, [], []⟩]) := by
    simp [estimatedInputSizes, htp, taprootWitnessSizes, Except.map]
  refine ⟨_, _, hest, Btc.C18.Fin.finalize_taproot_key lh vk vl sht sig ss [] ht hne hht hv, ?_⟩
  · refine ⟨by simp [sizesOf], ?_, trivial⟩
    show sig.length ≤ taprootSigSize _
    unfold taprootSigSize Gen.Fee.taproot_sig_size Gen.Fee.SCHNORR_SIG_SIZE
    rcases hlen with h64 | ⟨h65, hnz⟩
    · simp only [h64]; split <;> omega
    · unfold tapSigHashType at hht
      simp only [h65, beq_self_eq_true, if_true] at hht
      split at hht
      · cases hht
      · rename_i heq
        have : sht.getD Gen.Spend.SIGHASH_DEFAULT = Btc.Script.Core.getB sig 64 := by
          simpa using heq
        have e0 : Gen.Spend.SIGHASH_DEFAULT = 0 := rfl
        rw [e0] at this
        have hnz' : ((sht.getD 0 : Nat) : Int) ≠ 0 := by rw [this]; omega
        simp only [h65, hnz', if_true]
        omega

open Btc.Script Btc.Spend in
/-- taproot script path, single-key leaf: the psbt does not say which leaf will be spent, so the library asks
    the caller's sizer for the whole witness and btclib ships NO sizer for taproot leaves (`miniscript_sizer` and
    `satisfaction_sizer` answer for p2wsh witness scripts only): the statement is conditional on the caller's
    answer.  With a sizer that answers for this leaf — signature, leaf
    script, control block — the estimate covers what the finalizer lays out -/
theorem estimate_covers_taproot_leaf_given_sizer (lh : Nat → Bytes → Bytes) (vk : Nat → Bytes → Bool)
    (vl : Nat → Bytes → Bytes → Bytes → Bool) (tp : Bytes → Ty × Bytes) (H : Bytes → Bytes)
    (spk q x lhash sig cb : Bytes) (hd : List Bytes) (sht : Option Nat) (ht s : Nat)
    (htp : tp spk = (.p2tr, q)) (hx : x.length = 32) (hlh : lhash.length = 32)
    (hleaf : lh 0xc0 (pkLeaf x) = lhash) (hs : sig.length ≤ s)
    (hht : tapSigHashType sig sht = .ok ht) (hv : vl ht lhash x (sig.take 64) = true) :
    ∃ est fin, estimatedInputSizes tp H (some [s, (pkLeaf x).length, cb.length])
        ⟨some spk, [], [], hd, sht, true, [], []⟩ = .ok est ∧
      finalizedTaproot lh vk vl ⟨sht, [], [(x ++ lhash, sig)], [(cb, pkLeaf x, 0xc0)]⟩ = .ok fin ∧
      coversIn (sizesOf fin) est := by
  have hest : estimatedInputSizes tp H (some [s, (pkLeaf x).length, cb.length])
      ⟨some spk, [], [], hd, sht, true, [], []⟩ = .ok ((serializePushes []).length, [s, (pkLeaf x).length, cb.length]) := by
    simp [estimatedInputSizes, htp, taprootWitnessSizes, asked, Except.map]
  exact ⟨_, _, hest, Btc.C18.Fin.finalize_taproot_leaf lh vk vl sht x lhash sig cb ht hx hlh hleaf hht hv,
    by simp [sizesOf], hs, Nat.le_refl _, Nat.le_refl _, trivial⟩

open Btc.Script Btc.Spend in
/-- What the estimate does for a taproot input that carries leaf scripts when NO sizer answers (btclib ships none for
    taproot leaves): it REFUSES (`BTClibValueError`) -- whatever else the input holds, key-path data included -- and
    never guesses; so no fee is ever computed from a low figure there. -/
theorem estimate_refuses_taproot_script_path_without_sizer (tp : Bytes → Ty × Bytes) (H : Bytes → Bytes)
    (spk q redeem ws : Bytes) (hd : List Bytes) (sht : Option Nat) (htp : tp spk = (.p2tr, q)) :
    estimatedInputSizes tp H none ⟨some spk, redeem, ws, hd, sht, true, [], []⟩ = .error .value := by
  simp [estimatedInputSizes, htp, taprootWitnessSizes, asked, Except.map]

open Btc.Script Btc.Spend in
/-- key path of an input that ALSO carries leaf scripts: the finalizer takes the key path whenever a key-path signature
    is present (whatever script-path signatures and leaves sit beside it), and the estimate is the caller's sizer's
    answer: it covers when the sizer answers at least the signature's length -/
theorem estimate_covers_taproot_key_beside_leaves_given_sizer (lh : Nat → Bytes → Bytes) (vk : Nat → Bytes → Bool)
    (vl : Nat → Bytes → Bytes → Bytes → Bool) (tp : Bytes → Ty × Bytes) (H : Bytes → Bytes)
    (spk q sig : Bytes) (hd : List Bytes) (sht : Option Nat) (ss : List (Bytes × Bytes)) (ls : List (Bytes × Bytes × Nat))
    (ht s : Nat) (htp : tp spk = (.p2tr, q)) (hne : sig.isEmpty = false) (hs : sig.length ≤ s)
    (hht : tapSigHashType sig sht = .ok ht) (hv : vk ht (sig.take 64) = true) :
    ∃ est fin, estimatedInputSizes tp H (some [s]) ⟨some spk, [], [], hd, sht, true, [], []⟩ = .ok est ∧
      finalizedTaproot lh vk vl ⟨sht, sig, ss, ls⟩ = .ok fin ∧ coversIn (sizesOf fin) est := by
  have hest : estimatedInputSizes tp H (some [s]) ⟨some spk, [], [], hd, sht, true, [], []⟩ =
      .ok ((serializePushes []).length, [s]) := by
    simp [estimatedInputSizes, htp, taprootWitnessSizes, asked, Except.map]
  exact ⟨_, _, hest, Btc.C18.Fin.finalize_taproot_key lh vk vl sht sig ss ls ht hne hht hv,
    by simp [sizesOf], hs, trivial⟩

open Btc.Script Btc.Spend in
/-- The leaf forms the library can SIGN are more than those it can FINISH: `_sign_taproot_script_path` writes a
    signature for every key of every leaf it holds (a `multi_a` leaf included), but `_finalized_taproot_input` closes
    over one leaf shape only -- `<32-byte key> OP_CHECKSIG`, 34 bytes.  For ANY taproot input without a key-path
    signature whose leaf scripts are all of another length (every `multi_a` leaf: 34·n + 2 bytes), the finalizer
    refuses, whatever signatures are present: there is no library-signed transaction for the estimate to be compared
    with (oracle `psbt.estimate_tapleaf` observes exactly this on the real code). -/
theorem taproot_leaf_other_than_single_key_is_not_finalized (lh : Nat → Bytes → Bytes) (vk : Nat → Bytes → Bool)
    (vl : Nat → Bytes → Bytes → Bytes → Bool) (tin : TapIn) (hk : tin.keySig = [])
    (hl : ∀ e ∈ tin.leafScripts, e.2.1.length ≠ Gen.Spend.SINGLE_KEY_LEAF_SIZE) :
    ∃ e, finalizedTaproot lh vk vl tin = .error e := by
  have hC : ∀ x s cb, Spend.leafScript lh tin x = .ok (s, cb) → singleLeafKey s = .error .value := by
    intro x s cb h
    unfold Spend.leafScript at h
    cases hf : tin.leafScripts.find? (fun e => lh e.2.2 e.2.1 == x) with
    | none => simp [hf] at h
    | some e =>
      obtain ⟨cb', script, ver⟩ := e
      have hmem := List.mem_of_find?_eq_some hf
      have hne := hl _ hmem
      simp only [hf] at h
      cases h
      simp [singleLeafKey, hne]
  match hss : tin.scriptSigs with
  | [] => exact ⟨.value, by simp [finalizedTaproot, hk, hss]⟩
  | _ :: _ :: _ => exact ⟨.value, by simp [finalizedTaproot, hk, hss]⟩
  | [(keyData, sig)] =>
    cases hht : tapSigHashType sig tin.sigHashType with
    | error e => exact ⟨e, by simp [finalizedTaproot, hk, hss, hht, bind, Except.bind]⟩
    | ok ht =>
      by_cases hlen : (keyData.drop Gen.Spend.LEAF_HASH_SIZE).length ≠ Gen.Spend.LEAF_HASH_SIZE
      · have hlen' : ¬ (keyData.length - Gen.Spend.LEAF_HASH_SIZE = Gen.Spend.LEAF_HASH_SIZE) := by simpa using hlen
        exact ⟨.value, by simp [finalizedTaproot, hk, hss, hht, hlen', bind, Except.bind, throw, throwThe, MonadExceptOf.throw]⟩
      · have hlen' : keyData.length - Gen.Spend.LEAF_HASH_SIZE = Gen.Spend.LEAF_HASH_SIZE := by simpa using hlen
        cases hls : Spend.leafScript lh tin (keyData.drop Gen.Spend.LEAF_HASH_SIZE) with
        | error e => exact ⟨e, by simp [finalizedTaproot, hk, hss, hht, hlen', hls, bind, Except.bind]⟩
        | ok r =>
          obtain ⟨s, cb⟩ := r
          have hsk := hC _ s cb hls
          exact ⟨.value, by simp [finalizedTaproot, hk, hss, hht, hlen', hls, hsk, bind, Except.bind]⟩

-- non-vacuity: a 2-of-2 multi_a leaf (70 bytes) with both signatures present is refused; the estimate without a sizer too
open Btc.Spend in
example : finalizedTaproot (fun _ s => s.take 32) (fun _ _ => true) (fun _ _ _ _ => true)
    ⟨none, [], [(List.replicate 64 1, List.replicate 64 9), (List.replicate 64 2, List.replicate 64 9)],
      [(List.replicate 33 0xc0, List.replicate 70 1, 0xc0)]⟩ = .error .value := by decide +kernel
example : estimatedInputSizes (typeAndPayload (fun _ => true)) (fun _ => []) none
    ⟨some (Btc.Spend.p2tr (List.replicate 32 7)), [], [], [], none, true, [], []⟩ = .error .value := by decide

/-- hence, for ANY mix of inputs each covered by its estimate (and the same outputs), the estimated size,
    stripped size, weight and virtual size are at least those of the transaction that is signed:
    `Psbt.weight_estimate` is `Tx.weight` of the placeholder transaction, monotone in every element size,
    across every CompactSize crossing (252/253, 65535/65536) of a script_sig, a witness element or a count. -/
theorem estimated_weight_covers_any_mix (act est : List (Nat × List Nat)) (nOut outs : Nat)
    (h : coversIns act est) :
    txSize true act nOut outs ≤ txSize true est nOut outs ∧
    txSize false act nOut outs ≤ txSize false est nOut outs ∧
    txWeight act nOut outs ≤ txWeight est nOut outs ∧
    (txWeight act nOut outs + 3) / 4 ≤ (txWeight est nOut outs + 3) / 4 := by
  have h1 := txSize_mono true act est nOut outs h
  have h2 := txSize_mono false act est nOut outs h
  have h3 : txWeight act nOut outs ≤ txWeight est nOut outs := by
    unfold txWeight Gen.Fee.tx_weight; omega
  exact ⟨h1, h2, h3, by omega⟩

/-- the sizes those theorems are about are the SOURCE's: the hand-written `txSize`/`txWeight` over per-input sizes equal the
    translated `Tx._serialized_size` / `Tx.weight` applied to the placeholder transaction's parts -/
theorem estimated_weight_is_translated (ins : List (Nat × List Nat)) (nOut outs : Nat) :
    ((txSize true ins nOut outs : Nat) : Int) = txSer true (partsOf ins nOut outs) ∧
    ((txSize false ins nOut outs : Nat) : Int) = txSer false (partsOf ins nOut outs) ∧
    txWeight ins nOut outs = txW (partsOf ins nOut outs) := by
  refine ⟨txSize_eq_translated _ _ _ _, txSize_eq_translated _ _ _ _, ?_⟩
  unfold txWeight txW
  rw [txSize_eq_translated, txSize_eq_translated]

/-- Composition (T3 ∘ T4 ∘ T2): a funded psbt pays at least the requested rate on its FINAL virtual size.
    If the estimator `build_psbt` consulted is the vsize of input sizes that cover the finalized inputs (per-template
    theorems above), then the fee returned is at least `fee_from_vsize(final vsize, rate)`. -/
theorem funding_pays_rate_on_final_vsize (a : FundArgs) (est : Bool → Except PyErr Int) (r : Funded)
    (act estIns : List (Nat × List Nat)) (nOut outs : Nat)
    (h : fund a est = .ok r) (hr : 0 ≤ a.rate) (hcov : coversIns act estIns)
    (hest : est r.change.isSome = .ok ((txWeight estIns nOut outs + 3) / 4)) :
    ∃ owed, Gen.Fee.fee_from_vsize ((txWeight act nOut outs + 3) / 4) a.rate = .ok owed ∧ owed ≤ r.fee := by
  obtain ⟨v, owed, hv, hf, hle⟩ := funding_pays_rate a est r h
  rw [hest] at hv
  cases hv
  have hmono := (estimated_weight_covers_any_mix act estIns nOut outs hcov).2.2.2
  have h0 : 0 ≤ (txWeight act nOut outs + 3) / 4 := by
    unfold txWeight Gen.Fee.tx_weight; omega
  obtain ⟨rn, hrn⟩ := Int.eq_ofNat_of_zero_le hr
  obtain ⟨f', hf'⟩ := (fee_domain ((txWeight act nOut outs + 3) / 4) a.rate).1 ⟨h0, hr⟩
  have e1 : feeFromVsize ((txWeight estIns nOut outs + 3) / 4) a.rate = .ok owed := by
    unfold feeFromVsize; rw [hrn, feeRate_nat]; rw [hrn] at hf; exact hf
  have e2 : Gen.Fee.fee_from_vsize ((txWeight act nOut outs + 3) / 4) a.rate = .ok f' := by
    have := hf'; unfold feeFromVsize at this; rw [hrn, feeRate_nat] at this; rw [hrn]; exact this
  have := fee_monotone _ _ _ _ _ _ hmono (Int.le_refl a.rate) hf' e1
  exact ⟨f', e2, by omega⟩

-- non-vacuity: a 71-byte signature and a compressed key against the p2wpkh estimate; a 253-byte script_sig
-- the classification hypotheses `tp … = …` are met by the concrete `typeAndPayload` the driver runs against btclib
example : typeAndPayload (fun _ => true) (Btc.Spend.p2pkh (List.replicate 20 7)) = (.p2pkh, List.replicate 20 7) := by decide
example : typeAndPayload (fun _ => true) (Btc.Spend.p2wpkh (List.replicate 20 7)) = (.p2wpkh, List.replicate 20 7) := by decide
example : typeAndPayload (fun _ => true) (Btc.Spend.p2sh (List.replicate 20 7)) = (.p2sh, List.replicate 20 7) := by decide
example : (typeAndPayload (fun _ => true) (Btc.Spend.p2tr (List.replicate 32 7))).1 = .p2tr := by decide
example : estimatedInputSizes (typeAndPayload (fun _ => true)) (fun _ => []) none
    ⟨some (Btc.Spend.p2wpkh (List.replicate 20 7)), [], [], [], none, false, [], []⟩ = .ok (0, [72, 33]) := by decide
example : coversIn (0, [71, 33]) (0, [72, 33]) := by simp [coversIn, covers]
example : txWeight [(0, [71, 33])] 1 31 = 437 ∧ txWeight [(0, [72, 33])] 1 31 = 438 := by decide
example : txWeight [(252, [])] 1 34 < txWeight [(253, [])] 1 34 := by decide

/-! ## sig_ops (legacy count, `GetSigOpCount(false)`) -/

/-- the count a script announces is bounded by its length: at most MAX_PUBKEYS_PER_MULTISIG per byte walked,
    whatever the bytes (a push running past the end just ends the walk) -/
theorem sig_op_count_bounded (script : Bytes) :
    sigOpCount script ≤ Gen.Fee.SIGOPS_MULTISIG_COST * script.length := by
  unfold sigOpCount
  have h1 := sum_map_le (Btc.Script.opCodeSpans script) Gen.Fee.SIGOPS_MULTISIG_COST
    (fun sp => sigOpCost sp.1) (fun x => sigOpCost_le x.1)
  have h2 : (Btc.Script.opCodeSpans script).length ≤ script.length :=
    opCodeSpansFrom_length script.length script 0
  have := Nat.mul_le_mul_left Gen.Fee.SIGOPS_MULTISIG_COST h2
  omega

-- p2pkh announces 1, a 2-of-3 multisig 20 (not 3), an OP_CHECKSIG inside a push none, a truncated push ends the walk
example : sigOpCount (Btc.Spend.p2pkh (List.replicate 20 7)) = 1 := by decide
example : sigOpCount (Btc.Spend.multisig 2 [List.replicate 33 2, List.replicate 33 3, List.replicate 33 2]) = 20 := by
  decide +kernel
example : sigOpCount [2, 0xac, 0xac, 0xac] = 1 := by decide
example : sigOpCount [0xac, 0x4b, 0xac, 0xac] = 1 := by decide

end Props.C18
