/-!
# C02 — property theorems only (see DESIGN.md §3 C02).
-/
namespace Props.C02

end Props.C02
