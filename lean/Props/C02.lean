import Proofs.C02.Ecdsa
import Proofs.C02.Group
import Proofs.C02.Misc
import Proofs.C02.Der
import Proofs.C02.Witness
import Proofs.C02.Bits
import Proofs.C02.SignMsg
import Proofs.E2E.C02
import Proofs.C02.EndToEnd
import Proofs.C02.BmsSig
import Proofs.C02.Entry
import Proofs.C02.BmsEc
import Proofs.C02.BmsRun
/-!
# C02 — ECDSA: signatures verify, verification is the SEC 1 equation, recovery, DER is canonical

Property theorems only (DESIGN §3 C02).  The scheme is `Btc.Ecdsa.*` (Model/C02/Ecdsa.lean), the SAME
definitions the driver executes with `Btc.EC.ops c` against btclib; here they are reasoned about for
every `o : GroupOps α` that is `Lawful` (the operations are those of a group of prime exponent `n` with
an x-coordinate map).  For `Btc.EC.ops C` the bundle is PROVED by C01 (`lawful_ec`) on the `n`-torsion carrier: see the
"End to end" section below, which also says what is left assumed there (cofactor one for arbitrary keys on a GENERIC
curve; on secp256k1 cofactor one is proved and nothing is assumed).
`mod_inv` is the executable extended Euclid `Btc.EC.modInv`, proved to invert (Proofs/C02/Basic.lean).
-/
namespace Props.C02
open Btc Btc.Ecdsa

variable {α G : Type} [AddCommGroup G] {o : GroupOps α}

/-- T1 (completeness): every `(r, s)` that `_sign_recoverable_` returns — for any challenge `c`, key `q`,
    nonce `k ∈ 1..n-1`, with or without `lower_s` — is accepted by the verifier under (any representation
    of) the public key `q·G`; and with `lower_s` the signature is in low-s form. -/
theorem ecdsa_sign_verifies (L : Lawful o G) {c q k : ℤ} {lowerS : Bool} {r s kid : ℤ}
    (hk : 0 < k ∧ k < o.n) (Q : α) (hQ : L.abs Q = q • L.abs o.gen)
    (h : signRecoverable o c q k lowerS = .ok (r, s, kid)) :
    verify o c Q r s = true ∧ (lowerS = true → s ≤ o.n / 2) :=
  Grp.sign_verifies L.toLawfulGroup hk Q hQ h

/-- T2 (exactness and totality): `verify` is a total boolean function of ANY integers `c, r, s` and ANY
    element `Q` (it has no error outcome), and it answers `true` exactly when `r, s ∈ 1..n-1` and, for
    `w = s⁻¹ mod n`, the group element `K = (r w)·Q + (c w)·G` is not the identity and `x(K) mod n = r`
    (`Btc.Ecdsa.SEC1`: SEC 1 v2 §4.1.4). -/
theorem ecdsa_verify_iff_sec1 (L : Lawful o G) (c : ℤ) (Q : α) (r s : ℤ) :
    verify o c Q r s = true ↔ SEC1 L c Q r s :=
  (Grp.verify_iff_SEC1 L.toLawfulGroup c Q r s).trans (SEC1_iff_grp L c Q r s).symm

/-- T1 / T2 / T6 / T2' over `LawfulGroup` (every law of `Lawful` except the two about `lift_x`, which signing,
    verification and nonce-reuse extraction never call): the statements above are their instances at
    `L.toLawfulGroup`; these are the ones C01's `lawfulGroup_ec` instantiates on EVERY odd prime field. -/
theorem ecdsa_sign_verifies_group (L : LawfulGroup o G) {c q k : ℤ} {lowerS : Bool} {r s kid : ℤ}
    (hk : 0 < k ∧ k < o.n) (Q : α) (hQ : L.abs Q = q • L.abs o.gen)
    (h : signRecoverable o c q k lowerS = .ok (r, s, kid)) :
    verify o c Q r s = true ∧ (lowerS = true → s ≤ o.n / 2) :=
  Grp.sign_verifies L hk Q hQ h

theorem ecdsa_verify_iff_sec1_group (L : LawfulGroup o G) (c : ℤ) (Q : α) (r s : ℤ) :
    verify o c Q r s = true ↔ Grp.SEC1 L c Q r s :=
  Grp.verify_iff_SEC1 L c Q r s

theorem ecdsa_crack_group (L : LawfulGroup o G) {c1 c2 q k r1 s1 id1 r2 s2 id2 : ℤ}
    (hk : 0 < k ∧ k < o.n) (hq : 0 < q ∧ q < o.n)
    (h1 : signRecoverable o c1 q k false = .ok (r1, s1, id1))
    (h2 : signRecoverable o c2 q k false = .ok (r2, s2, id2)) (hne : s1 ≠ s2) :
    crack o c1 r1 s1 c2 r2 s2 = .ok (q, k) :=
  Grp.crack_correct L hk hq h1 h2 hne

theorem ecdsa_verify_api_is_sec1_group (L : LawfulGroup o G) (isX : ℤ → Bool)
    (hX : ∀ P, L.abs P ≠ 0 → isX (o.x P) = true) (c : ℤ) (Q : α) (r s : ℤ) :
    verifyFull o isX c Q r s = true ↔ Grp.SEC1 L c Q r s := by
  rw [Grp.verifyFull_eq_verify L isX hX]; exact Grp.verify_iff_SEC1 L c Q r s

/-- T3 (recovery): with the `key_id` that signing returned, `_recover_pub_key_` answers the signer's key
    `q·G` — whatever `j = x_K // n` was (the `x_K ≥ n` case included), after the low-s flip as well, on
    the prime-order arm and on the cofactor arm (whose re-verification passes). -/
theorem ecdsa_recover_signer (L : Lawful o G) {c q k : ℤ} {lowerS : Bool} {r s kid : ℤ}
    (hk : 0 < k ∧ k < o.n) (hq : 0 < q ∧ q < o.n)
    (h : signRecoverable o c q k lowerS = .ok (r, s, kid))
    (primeOrder lowerS' : Bool) (hl' : lowerS' = true → lowerS = true) :
    ∃ Q', recover o primeOrder kid c r s lowerS' = .ok Q' ∧ L.abs Q' = q • L.abs o.gen :=
  recover_signer L (yParity L) hk hq h primeOrder lowerS' hl'

/-- T6 (nonce reuse): two signatures made with one key and one nonce over two challenges, with different
    `s`, give back exactly `(q, k)`. -/
theorem ecdsa_crack (L : Lawful o G) {c1 c2 q k r1 s1 id1 r2 s2 id2 : ℤ}
    (hk : 0 < k ∧ k < o.n) (hq : 0 < q ∧ q < o.n)
    (h1 : signRecoverable o c1 q k false = .ok (r1, s1, id1))
    (h2 : signRecoverable o c2 q k false = .ok (r2, s2, id2)) (hne : s1 ≠ s2) :
    crack o c1 r1 s1 c2 r2 s2 = .ok (q, k) :=
  Grp.crack_correct L.toLawfulGroup hk hq h1 h2 hne

/-- T2' (the public boolean): `dsa.verify_` validates the `Sig` first — ranges and "r is congruent to an
    x-coordinate below p" (`Sig.assert_valid`, x-coordinate test `isX`) — and turns every refusal into
    `False`.  CONDITIONAL on `hX`: IF the x-coordinate test `isX` accepts the x-coordinate of every non-identity
    element, that screen never changes the verdict.  `hX` is discharged for the model's test `Btc.Ecdsa.isXCoord C`
    (Euler's criterion; btclib's Python arm computes the same Legendre symbol with a Jacobi loop — the two are
    stream-compared, not proved equal) in `ecdsa_verify_api_is_sec1_ec` below; libsecp256k1's own test is compared
    (both-backend streams), not proved. -/
theorem ecdsa_verify_api_is_sec1 (L : Lawful o G) (isX : ℤ → Bool)
    (hX : ∀ P, L.abs P ≠ 0 → isX (o.x P) = true) (c : ℤ) (Q : α) (r s : ℤ) :
    verifyFull o isX c Q r s = true ↔ SEC1 L c Q r s := by
  rw [verifyFull_eq_verify L isX hX]; exact verify_iff_SEC1 L c Q r s

/-- T4a (RFC 6979): for ANY HMAC, key, challenge and additional data, the derivation is a function of its
    inputs (it is one: `Btc.Rfc6979.nonce`) and a nonce it returns lies in `1..n-1`. -/
theorem rfc6979_nonce_in_range (H : Rfc6979.HashSpec) (n c q : ℤ) (extra : Bytes) (fuel : ℕ) (k : ℤ)
    (h : Rfc6979.nonce H n c q extra fuel = some k) : 0 < k ∧ k < n :=
  Rfc6979.nonce_range H n c q extra fuel k h

/-- T4b (low-R grinding, over an arbitrary attempt oracle): `_grind_low_r` answers the first counter whose
    signature has a low r — every earlier counter was tried and was high. -/
theorem grind_returns_first_low {σ : Type} (attempt : ℕ → Option σ) (isLow : σ → Bool) (fuel m : ℕ) (sig : σ)
    (h : Rfc6979.grindLowR attempt isLow true fuel = some (m, sig)) :
    attempt m = some sig ∧ isLow sig = true ∧ ∀ j, j < m → ∃ sj, attempt j = some sj ∧ isLow sj = false := by
  have := Rfc6979.grindFrom_first attempt isLow fuel 0 m sig (by simpa [Rfc6979.grindLowR] using h)
  exact ⟨this.1, this.2.1, fun j hj => this.2.2.2 j (Nat.zero_le _) hj⟩

/-- T3' (recovery is sound on ARBITRARY signatures): whatever `_recover_pub_key_` answers — any `key_id`, any
    `(c, r, s)` with `r, s ∈ 1..n-1`, either cofactor arm — is a key under which `(r, s)` verifies. -/
theorem ecdsa_recover_sound (L : Lawful o G) {primeOrder lowerS : Bool} {kid c r s : ℤ} {Q : α}
    (hr : 0 < r ∧ r < o.n) (hs : 0 < s ∧ s < o.n)
    (h : recover o primeOrder kid c r s lowerS = .ok Q) : verify o c Q r s = true :=
  recover_sound L hr hs h

/-- T3'' (the enumeration `_recover_pub_keys_`): every key in the list verifies the signature.  (Completeness of the
    list — every verifying key with an admissible `x_K` is listed — is NOT proved; the signer's own key is, by T3.) -/
theorem ecdsa_recover_all_sound (L : Lawful o G) (h : ℕ) {c r s : ℤ} {lowerS : Bool}
    (hr : 0 < r ∧ r < o.n) (hs : 0 < s ∧ s < o.n) (Q : α) (hQ : Q ∈ recoverAll o h c r s lowerS) :
    verify o c Q r s = true :=
  recoverAll_sound L h hr hs Q hQ

/-- T4c (`sign_` end to end, Python arm, any HMAC): for an explicit nonce or the RFC 6979 one, with or without low-R
    grinding, the `(r, s)` answered is a function of `(digest, q, nonce?, lower_s, grind)` (it is `signMsg`), verifies
    under `q·G` for the challenge of the digest, is low-s when asked, and on the grinding arm has a low `r`
    (`_is_low_r`, translated).  This composes T4a/T4b with T1. -/
theorem ecdsa_sign_msg_verifies (L : Lawful o G) (H : Rfc6979.HashSpec) (m : Bytes) (q : ℤ) (k? : Option ℤ)
    (lowerS grind : Bool) (fuel : ℕ) (σ : ℤ × ℤ)
    (h : Rfc6979.signMsg o H m q k? lowerS grind fuel = .ok σ) (Q : α) (hQ : L.abs Q = q • L.abs o.gen) :
    verify o (Rfc6979.challenge o.n m) Q σ.1 σ.2 = true ∧ (lowerS = true → σ.2 ≤ o.n / 2) ∧
      (k? = none → grind = true → Gen.Ecdsa.is_low_r σ.1 (Rfc6979.nsizeOf o.n) = true) :=
  Rfc6979.signMsg_verifies L H m q k? lowerS grind fuel σ h Q hQ

/-- T4d (`sign_recoverable_` end to end): the `(r, s)` verifies and the `key_id` beside it recovers `q·G`. -/
theorem ecdsa_sign_recoverable_msg_recovers (L : Lawful o G) (H : Rfc6979.HashSpec) (m : Bytes) (q : ℤ)
    (k? : Option ℤ) (lowerS : Bool) (fuel : ℕ) (r s kid : ℤ)
    (h : Rfc6979.signRecMsg o H m q k? lowerS fuel = .ok (r, s, kid)) (Q : α)
    (hQ : L.abs Q = q • L.abs o.gen) (primeOrder : Bool) :
    verify o (Rfc6979.challenge o.n m) Q r s = true ∧ (lowerS = true → s ≤ o.n / 2) ∧
      ∃ Q', recover o primeOrder kid (Rfc6979.challenge o.n m) r s false = .ok Q' ∧ L.abs Q' = q • L.abs o.gen :=
  Rfc6979.signRecMsg_recovers L H m q k? lowerS fuel r s kid h Q hQ primeOrder

/-- T7 (bits2int): the TRANSLATED `utils.int_from_bits` is the big-endian value of the octets shifted right by
    `max(0, 8·len − nlen)` — the leftmost `nlen` bits — and has at most `nlen` bits; the challenge is that, mod n. -/
theorem bits2int_leftmost (m : Bytes) (nlen : ℕ) :
    Gen.Ecdsa.int_from_bits m (nlen : ℤ) = ((ofBE m : ℕ) : ℤ) / 2 ^ ((8 * (m.length : ℤ)) - nlen).toNat ∧
    0 ≤ Gen.Ecdsa.int_from_bits m (nlen : ℤ) ∧ Gen.Ecdsa.int_from_bits m (nlen : ℤ) < 2 ^ nlen :=
  ⟨Rfc6979.int_from_bits_eq m nlen, Rfc6979.int_from_bits_range m nlen⟩

theorem challenge_is_leftmost_bits (n : ℤ) (m : Bytes) :
    Rfc6979.challenge n m =
      (((ofBE m : ℕ) : ℤ) / 2 ^ ((8 * (m.length : ℤ)) - Rfc6979.nlenOf n).toNat) % n :=
  Rfc6979.challenge_eq n m

/-- T8a (BMS): the recovery flag `bms.sign` writes is in 27..42 and `bms.assert_as_valid` reads back the
    same key_id and compression from it, and accepts it for the address type it was written for.
    (Flag formulas and guards are regenerated from bms.py: `Gen.Ecdsa.BMS_GUARDS`.) -/
theorem bms_flag_reads_back :
    ∀ kid ∈ List.range 4, ∀ comp ∈ [false, true], ∀ t ∈ Bms.allTypes, ∀ rf ∈ (Bms.flag kid comp t).toList,
      Bms.inRange rf = true ∧ Bms.keyIdOf rf = kid ∧ Bms.compressedOf rf = comp ∧ Bms.accepts t rf = true :=
  Bms.flag_reads_back

/-- T8b (BMS): flag ↔ (address type, compression, key_id) is a bijection between the 16 admissible
    triples and 27..42. -/
theorem bms_flag_bijection :
    (Bms.allTypes.flatMap fun t => [false, true].flatMap fun comp =>
      (List.range 4).filterMap fun kid => Bms.flag kid comp t) = List.range' 27 16 :=
  Bms.flag_bijection

/-- T8c (BMS): the flags that may speak for each address type (31..34 speak for all three). -/
theorem bms_accepts_table : ∀ rf ∈ List.range 70,
    (Bms.accepts .p2pkh rf = decide (27 ≤ rf ∧ rf ≤ 34)) ∧
    (Bms.accepts .p2sh rf = decide (31 ≤ rf ∧ rf ≤ 38)) ∧
    (Bms.accepts .p2wpkh rf = decide ((31 ≤ rf ∧ rf ≤ 34) ∨ (39 ≤ rf ∧ rf ≤ 42))) :=
  Bms.accepts_table

/-- T8d (BMS, sign then verify, per address type): whatever `bms.sign` answers — `(rf, r, s)` for the key `q`
    (compressed or not) and an address of that key, or no address — is accepted by `bms.assert_as_valid` for EVERY
    address of the key whose type the flag may speak for (`accepts`, the regenerated guard table: BIP137 35..38 / 39..42
    for their own type, 27..34 for p2pkh, 31..34 also for both segwit types, the Electrum rule), in particular for the
    address it was signed for; the flag is in 27..42 and `s` is low.  For every `Lawful` group with `p < 2n` (then
    `key_id < 4`; secp256k1's case), any HMAC, any `hash160` and any point serialization that is a function of the group
    element (`hser`); `hX`: the x-coordinate screen of `Sig.assert_valid` is complete (proved for `isXCoord`, T2′).
    INSTANCES ON ELLIPTIC CURVES (every hypothesis discharged): `bms_sign_then_verify_ec` below, on the lawful carrier
    `opsSub K` of C01 (reduced valid pairs of the n-torsion computed with `Btc.EC.ops C`), its secp256k1 instance, and a
    concrete run on the proved 31-point toy curve.  `Lawful (EC.ops C)` over RAW pairs is uninhabited (raw pairs are not
    reduced), so the statement lives on the carrier. -/
theorem bms_sign_then_verify (L : Lawful o G) (E : Bms.Env α) (isX : ℤ → Bool)
    (hX : ∀ P, L.abs P ≠ 0 → isX (o.x P) = true)
    (hser : ∀ P Q c, L.abs P = L.abs Q → E.ser P c = E.ser Q c) (hp : o.p < 2 * o.n)
    (H : Rfc6979.HashSpec) (mm : Bytes) (q : ℤ) (comp : Bool) (addr : Option Bms.Addr) (fuel : ℕ)
    (rf : ℕ) (r s : ℤ) (h : Bms.sign o E H mm q comp addr fuel = .ok (rf, r, s)) :
    (∀ t, Bms.accepts t rf = true →
        Bms.assertAsValid o E isX (Rfc6979.challenge o.n mm) (Bms.addrOf E t (E.ser (o.mul q o.gen) comp)) rf r s
          = .ok ()) ∧
    (∃ t, Bms.ownType E (E.ser (o.mul q o.gen) comp) comp addr = some t ∧ Bms.accepts t rf = true) ∧
    27 ≤ rf ∧ rf ≤ 42 ∧ s ≤ o.n / 2 :=
  Bms.sign_then_verify L E isX hX hser hp H mm q comp addr fuel rf r s h

/-- T5e (`der_parse_accepts_iff`): for 256-bit `r`, `s` the strict parser reads `b` as `(r, s)` EXACTLY when `b` is the
    BIP66 / DER short form `30 L 02 lr R 02 ls S` (`Der.Bip66`: nothing after, `R`, `S` non-empty, no sign bit, no
    unneeded leading zero, big-endian values `r`, `s`). -/
theorem der_parse_accepts_iff (b : Bytes) (r s : ℕ) (hr : r < 2 ^ 256) (hs : s < 2 ^ 256) :
    Der.parseStrict b = some (r, s) ↔ Der.Bip66 b r s :=
  Der.parseStrict_iff_bip66 b r s hr hs

/-- T5e' : … and that form is unique: two BIP66 strings of one 256-bit signature are one string -/
theorem der_bip66_unique (b₁ b₂ : Bytes) (r s : ℕ) (hr : r < 2 ^ 256) (hs : s < 2 ^ 256)
    (h₁ : Der.Bip66 b₁ r s) (h₂ : Der.Bip66 b₂ r s) : b₁ = b₂ :=
  Der.bip66_injective b₁ b₂ r s hr hs h₁ h₂

/-- T5a (DER, parse ∘ serialize): for all naturals `r, s` the encoding `Sig.serialize` writes (the TRANSLATED
    writers `Gen.Ecdsa.serialize_scalar` / `varBytesSerialize`, regenerated from dsa.py / var_bytes.py) is read
    back as `(r, s)`, by the strict and by the lax parser — provided it stays within CompactSize's cap on a
    length (32 MiB; the code's own guard, far above any DER-expressible signature). -/
theorem der_parse_serialize (strict : Bool) (r s : ℕ) (b : Bytes)
    (h : Der.serialize (r : ℤ) (s : ℤ) = .ok b) (hmax : b.length ≤ Gen.VarInt.MAX_SIZE) :
    Der.parse strict b = some (r, s) :=
  Der.parse_serialize strict r s b h hmax

/-- T5b (DER, canonicality): a byte string the strict parser accepts IS the serialization of the signature
    it returns: no trailing bytes, no non-minimal length, no padded / negative integer, nothing between or
    after the two integers. -/
theorem der_serialize_parse (b : Bytes) (r s : ℕ) (h : Der.parseStrict b = some (r, s)) :
    Der.serialize (r : ℤ) (s : ℤ) = .ok b :=
  Der.serialize_parse b r s h

/-- T5b' (hence): distinct byte strings never strictly decode to one signature. -/
theorem der_strict_injective (b₁ b₂ : Bytes) (σ : ℕ × ℕ)
    (h₁ : Der.parseStrict b₁ = some σ) (h₂ : Der.parseStrict b₂ = some σ) : b₁ = b₂ := by
  have e₁ := Der.serialize_parse b₁ σ.1 σ.2 h₁
  have e₂ := Der.serialize_parse b₂ σ.1 σ.2 h₂
  rw [e₁] at e₂
  exact Except.ok.inj e₂

/-- T5d (DER proper / BIP66 shape): "canonical" above means "equals `Sig.serialize`", whose lengths are CompactSize
    octets.  For `r, s < 2^256` that IS the DER short form: `30 L 02 lr <r> 02 ls <s>` with every length one octet
    below `0x80` (`1 ≤ lr, ls ≤ 33`, `L < 0x80`), the integers minimal and non-negative (`Der.sbytes`). -/
theorem der_bip66_shape (r s : ℕ) (hr : r < 2 ^ 256) (hs : s < 2 ^ 256) :
    Der.serialize (r : ℤ) (s : ℤ) =
      .ok (0x30 :: UInt8.ofNat (4 + (Der.sbytes r).length + (Der.sbytes s).length) :: 0x02 ::
        UInt8.ofNat (Der.sbytes r).length :: (Der.sbytes r ++ 0x02 :: UInt8.ofNat (Der.sbytes s).length :: Der.sbytes s)) ∧
    0 < (Der.sbytes r).length ∧ (Der.sbytes r).length ≤ 33 ∧ 0 < (Der.sbytes s).length ∧ (Der.sbytes s).length ≤ 33 ∧
    4 + (Der.sbytes r).length + (Der.sbytes s).length < 0x80 :=
  Der.serialize_bip66 r s hr hs

/-- T5d' : a string the strict parser reads as a 256-bit signature is exactly that short form, at most 72 octets. -/
theorem der_strict_is_bip66 (b : Bytes) (r s : ℕ) (h : Der.parseStrict b = some (r, s))
    (hr : r < 2 ^ 256) (hs : s < 2 ^ 256) :
    b = 0x30 :: UInt8.ofNat (4 + (Der.sbytes r).length + (Der.sbytes s).length) :: 0x02 ::
        UInt8.ofNat (Der.sbytes r).length :: (Der.sbytes r ++ 0x02 :: UInt8.ofNat (Der.sbytes s).length :: Der.sbytes s) ∧
    b.length ≤ 72 :=
  Der.parseStrict_bip66 b r s h hr hs

/-- T5c (DER): lax ⊇ strict, with the same reading. -/
theorem der_lax_of_strict (b : Bytes) (σ : ℕ × ℕ) (h : Der.parseStrict b = some σ) :
    Der.parseLax b = some σ :=
  Der.lax_of_strict b σ h

example : Der.Bip66 [0x30, 0x07, 0x02, 0x01, 0x01, 0x02, 0x02, 0x00, 0x80] 1 128 :=
  (der_parse_accepts_iff _ 1 128 (by norm_num) (by norm_num)).mp (by decide)
-- non-vacuity (T8d) on the concrete lawful witness (p = n = 7, identity serialization and hash, constant toy HMAC):
-- `bms.sign` answers, so the theorem's conclusion is about an actual run
example : Bms.sign Witness.ops ⟨fun P _ => [UInt8.ofNat P.val], id⟩ ⟨fun _ _ => [0x40], 1⟩ [0x60] 5 true none 4 =
    .ok (31, 4, 1) := by decide +kernel
-- non-vacuity (DER): a 128 needs its pad byte, a padded 1 and a trailing byte are refused by strict only
example : Der.serialize 1 128 = .ok [0x30, 0x07, 0x02, 0x01, 0x01, 0x02, 0x02, 0x00, 0x80] := by decide
example : Der.parseStrict [0x30, 0x07, 0x02, 0x01, 0x01, 0x02, 0x02, 0x00, 0x80] = some (1, 128) := by decide
example : Der.parseStrict [0x30, 0x07, 0x02, 0x02, 0x00, 0x01, 0x02, 0x01, 0x05] = none := by decide
example : Der.parseLax [0x30, 0x07, 0x02, 0x02, 0x00, 0x01, 0x02, 0x01, 0x05] = some (1, 5) := by decide
example : Der.parseStrict [0x30, 0x06, 0x02, 0x01, 0x01, 0x02, 0x01, 0x05, 0x00] = none := by decide
example : Der.parseStrict [0x30, 0x06, 0x02, 0x01, 0x81, 0x02, 0x01, 0x05] = none := by decide

-- non-vacuity (T6, T4a, T4b): two signatures sharing a nonce on the 13-point curve crack to (q, k) = (5, 2);
-- a nonce is returned (toy HMAC); the grinding loop returns counter 2 after two high attempts
example : crack (EC.ops { p := 19, a := 0, b := 2, gx := 4, gy := 16, n := 13, h := 2 }) 3 5 1 4 5 8 = .ok (5, 2) := by
  decide +kernel
example : Rfc6979.nonce ⟨fun k m => [UInt8.ofNat (17 * k.length + 5 * m.length + 3)], 1⟩ 13 3 5 [] 6 = some 1 := by
  decide +kernel
example : Rfc6979.grindLowR (fun i => some i) (fun i => decide (2 ≤ i)) true 5 = some (2, 2) := by decide

-- non-vacuity of the hypothesis bundle itself: a concrete lawful `GroupOps` exists (Proofs/C02/Witness.lean),
-- and on it T1/T3 have non-trivial instances
example : ∃ (_ : Lawful Witness.ops (ZMod 7)), verify Witness.ops 3 (Witness.ops.mul 5 Witness.ops.gen) 4 1 = true :=
  ⟨Witness.lawful, (ecdsa_sign_verifies Witness.lawful (by decide) _ (Witness.lawful.abs_mul 5 _)
    (by decide : signRecoverable Witness.ops 3 5 2 true = .ok (4, 1, 0))).1⟩

-- non-vacuity: the hypotheses are met by concrete executions on a 13-point curve (p = 19, n = 13)
def toy : EC.Curve := { p := 19, a := 0, b := 2, gx := 4, gy := 16, n := 13, h := 2 }
example : signRecoverable (EC.ops toy) 3 5 1 true = .ok (4, 3, 1) := by decide +kernel
example : verify (EC.ops toy) 3 ((EC.mult toy 5 toy.G).getD EC.INF) 4 3 = true := by decide +kernel
example : verify (EC.ops toy) 3 ((EC.mult toy 5 toy.G).getD EC.INF) 4 4 = false := by decide +kernel
example : recover (EC.ops toy) false 1 3 4 3 true = .ok ((EC.mult toy 5 toy.G).getD EC.INF) := by
  decide +kernel

end Props.C02

/-! ## End to end: the same theorems about `Btc.EC.ops C` itself, no `Lawful` hypothesis

`L : Lawful o G` above is discharged by C01's capstone `Btc.C01.lawful_ec` (Proofs/C01/CapstoneLawful.lean): for
every curve with `CurveOk p C` (p prime ≠ 2, n an odd prime, generator reduced, on the curve, of order n); recovery
additionally needs `p ≡ 3 (mod 4)` (`lawful_ec`), sign / verify do not (`lawfulGroup_ec`).  The statements are about the raw integer pairs the driver computes with (`Btc.EC.ops C`), the
scheme functions being the same definitions as above (proofs: Proofs/E2E/C02.lean).  For secp256k1 (the generated
constants `Gen.Curves.secp256k1`) every `CurveOk` field is established by the kernel (`Btc.E2E.secpOk`; `n•G = ∞` by
running the 256-step double-and-add; primality of `p` and of `n` by Pratt certificates, `Btc.E2E.secp256k1_p_prime`,
`secp256k1_n_prime`), so the secp256k1 theorems carry no hypothesis about `CurveOk`.
WHAT IS LEFT ASSUMED: the carrier of `lawful_ec` is the `n`-torsion (`SubPt`: reduced valid pairs `P` with `n•P = 0`).
T1 / T3 speak about keys `mult q G`, which are in it.  For an ARBITRARY key a caller hands in, membership needs
cofactor one (`hcof : ∀ g, n • g = 0`: the curve has exactly `n` points).  On a GENERIC curve it is the one named
hypothesis of `ecdsa_verify_api_is_sec1_ec_cofactor_one` (false with a cofactor; dischargeable by
`Btc.E2E.cofactor_one_of_count` when `2p+1 < 3n` and there is no 2-torsion); on secp256k1 it is PROVED
(`Btc.E2E.secpCofactorOne`) and `ecdsa_verify_api_is_sec1_secp256k1` assumes nothing.  Both are stated over the raw
`EC.ops C` and keys as `point_from_pub_key` accepts them.  `h34` (`p ≡ 3 mod 4`) is carried by the RECOVERY theorems only (`lift_x`);
sign / verify (T1, T2, T2') go through `lawfulGroup_ec` and hold on every odd prime field. -/
namespace Props.C02
open Btc Btc.EC Btc.C01 Btc.E2E Btc.Ecdsa

/-- T1 on btclib's arithmetic, any curve -/
theorem ecdsa_sign_verifies_ec {p : ℕ} [Fact p.Prime] {C : Curve} (K : CurveOk p C)
    {c q k : ℤ} {lowerS : Bool} {r s kid : ℤ}
    (hk : 0 < k ∧ k < C.n) (h : signRecoverable (EC.ops C) c q k lowerS = .ok (r, s, kid)) :
    verify (EC.ops C) c ((EC.ops C).mul q C.G) r s = true ∧ (lowerS = true → s ≤ C.n / 2) :=
  Btc.E2E.ecdsa_sign_verifies_ec K hk h

/-- T2 on btclib's arithmetic, any curve, for keys IN THE `n`-TORSION CARRIER (covers keys built from `G`; arbitrary
    keys: `ecdsa_verify_api_is_sec1_ec_cofactor_one`): `Q` a reduced valid pair of the `n`-torsion, `SEC1` read in Mathlib's point
    group of the curve over `ZMod p` through `absSub` (the point a pair denotes) -/
theorem ecdsa_verify_iff_sec1_ec {p : ℕ} [Fact p.Prime] {C : Curve} (K : CurveOk p C)
    (c : ℤ) (Q : SubPt p C) (r s : ℤ) :
    verify (EC.ops C) c Q.1 r s = true ↔ Grp.SEC1 (lawfulGroup_ec K) c Q r s :=
  Btc.E2E.ecdsa_verify_iff_sec1_ec K c Q r s

/-- T3 on btclib's arithmetic, any curve: the recovered pair is `==` to `mult q G` -/
theorem ecdsa_recover_signer_ec {p : ℕ} [Fact p.Prime] {C : Curve} (K : CurveOk p C) (h34 : p % 4 = 3)
    {c q k : ℤ} {lowerS : Bool} {r s kid : ℤ} (hk : 0 < k ∧ k < C.n) (hq : 0 < q ∧ q < C.n)
    (h : signRecoverable (EC.ops C) c q k lowerS = .ok (r, s, kid))
    (primeOrder lowerS' : Bool) (hl' : lowerS' = true → lowerS = true) :
    ∃ Q', recover (EC.ops C) primeOrder kid c r s lowerS' = .ok Q' ∧
      (EC.ops C).eq Q' ((EC.ops C).mul q C.G) = true :=
  Btc.E2E.ecdsa_recover_signer_ec K h34 hk hq h primeOrder lowerS' hl'

/-- T1 on secp256k1, unconditional (primality of `p`, `n` proved: Pratt certificates) -/
theorem ecdsa_sign_verifies_secp256k1
    {c q k : ℤ} {lowerS : Bool} {r s kid : ℤ} (hk : 0 < k ∧ k < secp256k1.n)
    (h : signRecoverable (EC.ops secp256k1) c q k lowerS = .ok (r, s, kid)) :
    verify (EC.ops secp256k1) c ((EC.ops secp256k1).mul q secp256k1.G) r s = true ∧
      (lowerS = true → s ≤ secp256k1.n / 2) :=
  Btc.E2E.ecdsa_sign_verifies_secp256k1 hk h

/-- T2 on secp256k1, keys in the `n`-torsion carrier (`SecpPt` carries the proof `n•Q = 0`) -/
theorem ecdsa_verify_iff_sec1_secp256k1
    (c : ℤ) (Q : SecpPt) (r s : ℤ) :
    verify (EC.ops secp256k1) c Q.1 r s = true ↔ SEC1 secpLawful c Q r s :=
  Btc.E2E.ecdsa_verify_iff_sec1_secp256k1 c Q r s

/-- T3 on secp256k1 -/
theorem ecdsa_recover_signer_secp256k1
    {c q k : ℤ} {lowerS : Bool} {r s kid : ℤ}
    (hk : 0 < k ∧ k < secp256k1.n) (hq : 0 < q ∧ q < secp256k1.n)
    (h : signRecoverable (EC.ops secp256k1) c q k lowerS = .ok (r, s, kid))
    (primeOrder lowerS' : Bool) (hl' : lowerS' = true → lowerS = true) :
    ∃ Q', recover (EC.ops secp256k1) primeOrder kid c r s lowerS' = .ok Q' ∧
      (EC.ops secp256k1).eq Q' ((EC.ops secp256k1).mul q secp256k1.G) = true :=
  Btc.E2E.ecdsa_recover_signer_secp256k1 hk hq h primeOrder lowerS' hl'

/-- T2 + T2' over the RAW arithmetic for ANY key the API accepts (`pubKeyOk`: `point_from_pub_key` on a tuple, which
    refuses coordinates outside `0..p-1`, points off the curve and `y = 0`), under cofactor one: the public boolean with the EXECUTED x-coordinate screen `isXCoord C` (`hX` proved:
    `Btc.E2E.isXCoord_complete`) equals `verify`, and `verify` is the SEC 1 relation for the point `Q` denotes. -/
theorem ecdsa_verify_api_is_sec1_ec_cofactor_one {p : ℕ} [Fact p.Prime] {C : Curve} (K : CurveOk p C)
    (hcof : ∀ g : Pt p C.toCurveGroup, C.n • g = 0) (c : ℤ) (Q : Point)
    (hk : pubKeyOk C Q = true) (r s : ℤ) :
    (verifyFull (EC.ops C) (isXCoord C) c Q r s = true ↔ verify (EC.ops C) c Q r s = true) ∧
    (verify (EC.ops C) c Q r s = true ↔
      Grp.SEC1 (lawfulGroup_ec K) c ⟨Q, inSubOf hcof (valid_of_pubKeyOk K hk).1 (valid_of_pubKeyOk K hk).2.1⟩ r s) :=
  Btc.E2E.ecdsa_verify_api_is_sec1_key K hcof c Q hk r s

/-- the same on secp256k1 with NOTHING assumed: cofactor one is proved there (`Btc.E2E.secpCofactorOne`,
    Proofs/E2E/CofactorOne.lean: `N ≤ 2p+1 < 3n`, `n ∣ N`, no 2-torsion), so for ANY key the API accepts the public
    boolean is `verify` and `verify` is the SEC 1 relation for the point the pair denotes.  (Supersedes the former
    `ecdsa_verify_api_is_sec1_secp256k1_cofactor_one`.) -/
theorem ecdsa_verify_api_is_sec1_secp256k1 (c : ℤ)
    (Q : Point) (hk : pubKeyOk secp256k1 Q = true) (r s : ℤ) :
    (verifyFull (EC.ops secp256k1) (isXCoord secp256k1) c Q r s = true ↔
      verify (EC.ops secp256k1) c Q r s = true) ∧
    (verify (EC.ops secp256k1) c Q r s = true ↔
      Grp.SEC1 secpLawfulG c ⟨Q, @inSubOf secp256k1_p ⟨secp256k1_p_prime⟩ secp256k1 secpCofactorOne _
        (@valid_of_pubKeyOk secp256k1_p ⟨secp256k1_p_prime⟩ secp256k1 secpOk Q hk).1
        (@valid_of_pubKeyOk secp256k1_p ⟨secp256k1_p_prime⟩ secp256k1 secpOk Q hk).2.1⟩ r s) :=
  Btc.E2E.ecdsa_verify_api_is_sec1_secp256k1_any_key c Q hk r s

/-- 'never an exception' (the verify entry point, secp256k1, nothing assumed): on ANY octets `m` (digest of any
    length), ANY octets `sig` and ANY integer pair `Q`, the model of `dsa.verify_(m, Q, sig)` — strict DER parse,
    `Sig.assert_valid`, digest-size check, `point_from_pub_key`, the equation; every refusal turned into `False` — is a
    total boolean function (its type), `True` EXACTLY when `sig` is the canonical DER of some `(r, s)`, `m` has the
    hash's size, `Q` is a public key and the SEC 1 predicate `verify` holds (`ecdsa_verify_api_is_sec1_secp256k1`:
    the SEC 1 relation for the point `Q` denotes), and `False` in every other case. -/
theorem ecdsa_verify_entry_total_secp256k1 (hlen : ℕ) (m : Bytes) (Q : Point) (sig : Bytes) :
    verifyDer hlen m Q sig = true ↔
      ∃ r s : ℕ, Der.parseStrict sig = some (r, s) ∧ m.length = hlen ∧ pubKeyOk secp256k1 Q = true ∧
        verify (EC.ops secp256k1) (Rfc6979.challenge secp256k1.n m) Q r s = true :=
  Btc.E2E.verifyDer_iff hlen m Q sig

/-- the same entry point taking a `Sig` object, any curve: what can make it `True` (all else is `False`) -/
theorem ecdsa_verify_entry_total (C : Curve) (hlen : ℕ) (m : Bytes) (Q : Point) (r s : ℤ) :
    verifyApi C hlen m Q r s = true ↔
      m.length = hlen ∧ pubKeyOk C Q = true ∧
        verifyFull (EC.ops C) (isXCoord C) (Rfc6979.challenge C.n m) Q r s = true :=
  Btc.E2E.verifyApi_iff C hlen m Q r s

-- non-vacuity: garbage in, `False` out (no third outcome), on inputs of the "wrong" sizes
example : verifyDer 32 [] (0, 0) [] = false := by decide
example : verifyDer 32 [1, 2, 3] (-5, 7) [0x30, 0x06, 0x02, 0x01, 0x01, 0x02, 0x01, 0x01] = false := by decide +kernel

/-- T8d ON AN ELLIPTIC CURVE, all hypotheses of `bms_sign_then_verify` discharged: for every `CurveOk` curve with
    `p ≡ 3 (mod 4)` (recovery: `lift_x`) and `p < 2n`, any point serialization `ser` of integer pairs, any `hash160`, any
    HMAC — on C01's lawful carrier `opsSub K` (`Lawful` = `lawful_ec`; `hX` = `isXCoord_complete`; `hser` =
    `bmsEnvSub_hser`, from `absA_inj`: two carrier elements denoting one point are one pair).  `bmsEnvSub` writes `ser`
    of the underlying pair and nothing for infinity (which `bytes_from_point` refuses).
    THE EXECUTED RUNS (raw `Btc.EC.ops C`, environment `bmsEnvRaw ser h160 = ⟨ser, h160⟩`) are tied to these carrier
    runs below: `bms_sign_then_verify_ec_raw` / `bms_sign_then_verify_secp256k1` restate T8d about them, through the run
    equalities of Proofs/C02/BmsRun.lean (`bms_run_eq_secp256k1`). -/
theorem bms_sign_then_verify_ec {p : ℕ} [Fact p.Prime] {C : Curve} (K : CurveOk p C) (h34 : p % 4 = 3)
    (hp2n : C.p < 2 * C.n) (ser : Point → Bool → Bytes) (h160 : Bytes → Bytes) (H : Rfc6979.HashSpec) (mm : Bytes)
    (q : ℤ) (comp : Bool) (addr : Option Bms.Addr) (fuel : ℕ) (rf : ℕ) (r s : ℤ)
    (h : Bms.sign (opsSub K) (bmsEnvSub ser h160 : Bms.Env (SubPt p C)) H mm q comp addr fuel = .ok (rf, r, s)) :
    (∀ t, Bms.accepts t rf = true →
        Bms.assertAsValid (opsSub K) (bmsEnvSub ser h160 : Bms.Env (SubPt p C)) (isXCoord C) (Rfc6979.challenge C.n mm)
          (Bms.addrOf (bmsEnvSub ser h160 : Bms.Env (SubPt p C)) t
            ((bmsEnvSub ser h160 : Bms.Env (SubPt p C)).ser ((opsSub K).mul q (opsSub K).gen) comp)) rf r s = .ok ()) ∧
    (∃ t, Bms.ownType (bmsEnvSub ser h160 : Bms.Env (SubPt p C))
        ((bmsEnvSub ser h160 : Bms.Env (SubPt p C)).ser ((opsSub K).mul q (opsSub K).gen) comp) comp addr = some t ∧
        Bms.accepts t rf = true) ∧
    27 ≤ rf ∧ rf ≤ 42 ∧ s ≤ C.n / 2 :=
  Btc.E2E.bms_sign_then_verify_ec K h34 hp2n ser h160 H mm q comp addr fuel rf r s h

/-- T8d on secp256k1's lawful carrier `SecpPt` (cofactor one proved: it holds EVERY reduced valid pair of the curve);
    `p ≡ 3 (mod 4)`, `p < 2n`, primality: all by kernel evaluation / Pratt certificates — nothing assumed -/
theorem bms_sign_then_verify_secp256k1_carrier
    (ser : Point → Bool → Bytes) (h160 : Bytes → Bytes) (H : Rfc6979.HashSpec) (mm : Bytes) (q : ℤ) (comp : Bool)
    (addr : Option Bms.Addr) (fuel : ℕ) (rf : ℕ) (r s : ℤ)
    (h : Bms.sign secpOps (bmsEnvSub ser h160 : Bms.Env SecpPt) H mm q comp addr fuel = .ok (rf, r, s)) :
    (∀ t, Bms.accepts t rf = true →
        Bms.assertAsValid secpOps (bmsEnvSub ser h160 : Bms.Env SecpPt) (isXCoord secp256k1)
          (Rfc6979.challenge secp256k1.n mm)
          (Bms.addrOf (bmsEnvSub ser h160 : Bms.Env SecpPt) t
            ((bmsEnvSub ser h160 : Bms.Env SecpPt).ser (secpOps.mul q secpOps.gen) comp)) rf r s = .ok ()) ∧
    (∃ t, Bms.ownType (bmsEnvSub ser h160 : Bms.Env SecpPt)
        ((bmsEnvSub ser h160 : Bms.Env SecpPt).ser (secpOps.mul q secpOps.gen) comp) comp addr = some t ∧
        Bms.accepts t rf = true) ∧
    27 ≤ rf ∧ rf ≤ 42 ∧ s ≤ secp256k1.n / 2 :=
  Btc.E2E.bms_sign_then_verify_secp256k1_carrier ser h160 H mm q comp addr fuel rf r s h

-- T8d fully discharged on an elliptic curve: `y² = x³ + 7` over `F₄₃` (31 points, `CurveOk` PROVED, 43 ≡ 3 mod 4,
-- 43 < 62): `bms.sign` over the carrier answers (31, 7, 12) (`toy_bms_sign`, kernel evaluation), hence the flag-31
-- signature opens to the p2pkh, p2wpkh-p2sh and p2wpkh addresses of the key (Electrum rule) — no hypothesis left
example : ∀ t, Bms.accepts t 31 = true →
    Bms.assertAsValid (opsSub toyOk) (bmsEnvSub (Bms.secSer 1) id : Bms.Env (SubPt 43 toyC)) (isXCoord toyC)
      (Rfc6979.challenge toyC.n [0x1f])
      (Bms.addrOf (bmsEnvSub (Bms.secSer 1) id : Bms.Env (SubPt 43 toyC)) t
        ((bmsEnvSub (Bms.secSer 1) id : Bms.Env (SubPt 43 toyC)).ser ((opsSub toyOk).mul 5 (opsSub toyOk).gen) true))
      31 7 12 = .ok () :=
  (bms_sign_then_verify_ec toyOk (by decide) (by decide) (Bms.secSer 1) id ⟨fun _ _ => [0x10], 1⟩ [0x1f] 5 true none 4
    31 7 12 toy_bms_sign).1
example : Bms.accepts .p2sh 31 = true ∧ Bms.accepts .p2wpkh 31 = true ∧ Bms.accepts .p2pkh 31 = true := by decide

/-- T8d ABOUT THE EXECUTED OPERATIONS (AUDIT3 Top 6): for every `CurveOk` curve with `p ≡ 3 (mod 4)` and `p < 2n`, any
    pair serialization `ser`, `hash160`, HMAC — whatever `bms.sign` answers when run over the RAW `Btc.EC.ops C` (the
    instance the driver executes, environment `⟨ser, h160⟩`) is accepted by `bms.assert_as_valid` run over the RAW
    `Btc.EC.ops C`, for every address of the key whose type the flag may speak for; the flag is in 27..42, `s` is low,
    and the key was in `1..n-1`.  No cofactor hypothesis: signing never calls `lift_x` (`bms_sign_run_eq`: the carrier
    and the raw run of `bms.sign` are EQUAL on every input), and what `assert_as_valid` accepts over the carrier it
    accepts over the raw pairs (`bms_assertAsValid_run_ok`; the restricted `lift_x` answers only what the executed one
    answers; the keys serialized are never infinity, where alone the two environments differ). -/
theorem bms_sign_then_verify_ec_raw {p : ℕ} [Fact p.Prime] {C : Curve} (K : CurveOk p C) (h34 : p % 4 = 3)
    (hp2n : C.p < 2 * C.n) (ser : Point → Bool → Bytes) (h160 : Bytes → Bytes) (H : Rfc6979.HashSpec) (mm : Bytes)
    (q : ℤ) (comp : Bool) (addr : Option Bms.Addr) (fuel : ℕ) (rf : ℕ) (r s : ℤ)
    (h : Bms.sign (EC.ops C) (bmsEnvRaw ser h160) H mm q comp addr fuel = .ok (rf, r, s)) :
    (∀ t, Bms.accepts t rf = true →
        Bms.assertAsValid (EC.ops C) (bmsEnvRaw ser h160) (isXCoord C) (Rfc6979.challenge C.n mm)
          (Bms.addrOf (bmsEnvRaw ser h160) t (ser ((EC.ops C).mul q C.G) comp)) rf r s = .ok ()) ∧
    (∃ t, Bms.ownType (bmsEnvRaw ser h160) (ser ((EC.ops C).mul q C.G) comp) comp addr = some t ∧
        Bms.accepts t rf = true) ∧
    27 ≤ rf ∧ rf ≤ 42 ∧ s ≤ C.n / 2 ∧ (0 < q ∧ q < C.n) :=
  Btc.E2E.bms_sign_then_verify_ec_raw K h34 hp2n ser h160 H mm q comp addr fuel rf r s h

/-- T8d on secp256k1 about the executed operations `Btc.EC.ops secp256k1`, NOTHING assumed (`CurveOk`, primality,
    `p ≡ 3 mod 4`, `p < 2n`: kernel evaluation / Pratt certificates) -/
theorem bms_sign_then_verify_secp256k1
    (ser : Point → Bool → Bytes) (h160 : Bytes → Bytes) (H : Rfc6979.HashSpec) (mm : Bytes) (q : ℤ) (comp : Bool)
    (addr : Option Bms.Addr) (fuel : ℕ) (rf : ℕ) (r s : ℤ)
    (h : Bms.sign (EC.ops secp256k1) (bmsEnvRaw ser h160) H mm q comp addr fuel = .ok (rf, r, s)) :
    (∀ t, Bms.accepts t rf = true →
        Bms.assertAsValid (EC.ops secp256k1) (bmsEnvRaw ser h160) (isXCoord secp256k1)
          (Rfc6979.challenge secp256k1.n mm)
          (Bms.addrOf (bmsEnvRaw ser h160) t (ser ((EC.ops secp256k1).mul q secp256k1.G) comp)) rf r s = .ok ()) ∧
    (∃ t, Bms.ownType (bmsEnvRaw ser h160) (ser ((EC.ops secp256k1).mul q secp256k1.G) comp) comp addr = some t ∧
        Bms.accepts t rf = true) ∧
    27 ≤ rf ∧ rf ≤ 42 ∧ s ≤ secp256k1.n / 2 ∧ (0 < q ∧ q < secp256k1.n) :=
  Btc.E2E.bms_sign_then_verify_secp256k1 ser h160 H mm q comp addr fuel rf r s h

/-- the RUN EQUALITY on secp256k1 (cofactor one proved, so the restricted `lift_x` of the carrier IS the executed
    `lift_x`, `secp_liftAgree_c02`): on EVERY input — any key, address, flag, `(r, s)`, refusals and their classes
    included — `bms.sign` and `bms.assert_as_valid` run over the lawful carrier `secpOps` answer exactly what they
    answer run over the raw `Btc.EC.ops secp256k1`.  (`bms.sign`'s half holds on every `CurveOk` curve,
    `Btc.E2E.bms_sign_run_eq`; `assert_as_valid`'s on every curve with `LiftAgree`, `Btc.E2E.bms_assertAsValid_run_eq`.) -/
theorem bms_run_eq_secp256k1 (ser : Point → Bool → Bytes) (h160 : Bytes → Bytes) :
    (∀ (H : Rfc6979.HashSpec) (mm : Bytes) (q : ℤ) (comp : Bool) (addr : Option Bms.Addr) (fuel : ℕ),
      Bms.sign secpOps (bmsEnvSub ser h160 : Bms.Env SecpPt) H mm q comp addr fuel =
        Bms.sign (EC.ops secp256k1) (bmsEnvRaw ser h160) H mm q comp addr fuel) ∧
    (∀ (isX : ℤ → Bool) (c : ℤ) (addr : Bms.Addr) (rf : ℕ) (r s : ℤ),
      Bms.assertAsValid secpOps (bmsEnvSub ser h160 : Bms.Env SecpPt) isX c addr rf r s =
        Bms.assertAsValid (EC.ops secp256k1) (bmsEnvRaw ser h160) isX c addr rf r s) :=
  ⟨fun H mm q comp addr fuel => Btc.E2E.bms_sign_run_eq_secp256k1 ser h160 H mm q comp addr fuel,
   fun isX c addr rf r s => Btc.E2E.bms_assertAsValid_run_eq_secp256k1 ser h160 isX c addr rf r s⟩

-- non-vacuity, raw arithmetic: on the toy curve (43 ≡ 3 mod 4, 43 < 62, `CurveOk` proved) `bms.sign` run over
-- `EC.ops toyC` with SEC serialization answers (31, 7, 12) (`toy_bms_sign_raw`, kernel evaluation), hence the EXECUTED
-- `assert_as_valid` accepts it for the p2pkh, p2wpkh-p2sh and p2wpkh addresses of the key — no hypothesis left
example : ∀ t, Bms.accepts t 31 = true →
    Bms.assertAsValid (EC.ops toyC) (bmsEnvRaw (Bms.secSer 1) id) (isXCoord toyC) (Rfc6979.challenge toyC.n [0x1f])
      (Bms.addrOf (bmsEnvRaw (Bms.secSer 1) id) t (Bms.secSer 1 ((EC.ops toyC).mul 5 toyC.G) true)) 31 7 12 = .ok () :=
  (bms_sign_then_verify_ec_raw toyOk (by decide) (by decide) (Bms.secSer 1) id ⟨fun _ _ => [0x10], 1⟩ [0x1f] 5 true none 4
    31 7 12 toy_bms_sign_raw).1
-- … and evaluated directly by the kernel (the theorem's conclusion is not vacuous, the run is an acceptance)
example : Bms.assertAsValid (EC.ops toyC) (bmsEnvRaw (Bms.secSer 1) id) (isXCoord toyC) (Rfc6979.challenge toyC.n [0x1f])
    (Bms.addrOf (bmsEnvRaw (Bms.secSer 1) id) .p2wpkh (Bms.secSer 1 ((EC.ops toyC).mul 5 toyC.G) true)) 31 7 12 = .ok () := by
  decide +kernel

/-- T2′ with no cofactor hypothesis, any `CurveOk` curve, keys of the `n`-torsion carrier (every key built from `G`):
    the public boolean with the executed x-coordinate screen is the SEC 1 relation -/
theorem ecdsa_verify_api_is_sec1_ec {p : ℕ} [Fact p.Prime] {C : Curve} (K : CurveOk p C)
    (c : ℤ) (Q : SubPt p C) (r s : ℤ) :
    verifyFull (EC.ops C) (isXCoord C) c Q.1 r s = true ↔ Grp.SEC1 (lawfulGroup_ec K) c Q r s :=
  Btc.E2E.ecdsa_verify_api_is_sec1_ec K c Q r s

/-- T6 on btclib's arithmetic, any odd prime field -/
theorem ecdsa_crack_ec {p : ℕ} [Fact p.Prime] {C : Curve} (K : CurveOk p C) {c1 c2 q k r1 s1 id1 r2 s2 id2 : ℤ}
    (hk : 0 < k ∧ k < C.n) (hq : 0 < q ∧ q < C.n)
    (h1 : signRecoverable (EC.ops C) c1 q k false = .ok (r1, s1, id1))
    (h2 : signRecoverable (EC.ops C) c2 q k false = .ok (r2, s2, id2)) (hne : s1 ≠ s2) :
    crack (EC.ops C) c1 r1 s1 c2 r2 s2 = .ok (q, k) :=
  Btc.E2E.ecdsa_crack_ec K hk hq h1 h2 hne

/-- T6 on secp256k1 -/
theorem ecdsa_crack_secp256k1 {c1 c2 q k r1 s1 id1 r2 s2 id2 : ℤ}
    (hk : 0 < k ∧ k < secp256k1.n) (hq : 0 < q ∧ q < secp256k1.n)
    (h1 : signRecoverable (EC.ops secp256k1) c1 q k false = .ok (r1, s1, id1))
    (h2 : signRecoverable (EC.ops secp256k1) c2 q k false = .ok (r2, s2, id2)) (hne : s1 ≠ s2) :
    crack (EC.ops secp256k1) c1 r1 s1 c2 r2 s2 = .ok (q, k) :=
  Btc.E2E.ecdsa_crack_secp256k1 hk hq h1 h2 hne

/-- T4c on btclib's arithmetic (`sign_`, Python arm, any HMAC, explicit / RFC 6979 nonce, grinding), any odd prime field -/
theorem ecdsa_sign_msg_verifies_ec {p : ℕ} [Fact p.Prime] {C : Curve} (K : CurveOk p C) (H : Rfc6979.HashSpec)
    (m : Bytes) (q : ℤ) (k? : Option ℤ) (lowerS grind : Bool) (fuel : ℕ) (σ : ℤ × ℤ)
    (h : Rfc6979.signMsg (EC.ops C) H m q k? lowerS grind fuel = .ok σ) :
    verify (EC.ops C) (Rfc6979.challenge C.n m) ((EC.ops C).mul q C.G) σ.1 σ.2 = true ∧
      (lowerS = true → σ.2 ≤ C.n / 2) ∧
      (k? = none → grind = true → Gen.Ecdsa.is_low_r σ.1 (Rfc6979.nsizeOf C.n) = true) :=
  Btc.E2E.ecdsa_sign_msg_verifies_ec K H m q k? lowerS grind fuel σ h

/-- T4c on secp256k1 -/
theorem ecdsa_sign_msg_verifies_secp256k1 (H : Rfc6979.HashSpec) (m : Bytes) (q : ℤ) (k? : Option ℤ)
    (lowerS grind : Bool) (fuel : ℕ) (σ : ℤ × ℤ)
    (h : Rfc6979.signMsg (EC.ops secp256k1) H m q k? lowerS grind fuel = .ok σ) :
    verify (EC.ops secp256k1) (Rfc6979.challenge secp256k1.n m) ((EC.ops secp256k1).mul q secp256k1.G)
        σ.1 σ.2 = true ∧
      (lowerS = true → σ.2 ≤ secp256k1.n / 2) ∧
      (k? = none → grind = true → Gen.Ecdsa.is_low_r σ.1 (Rfc6979.nsizeOf secp256k1.n) = true) :=
  Btc.E2E.ecdsa_sign_msg_verifies_secp256k1 H m q k? lowerS grind fuel σ h

/-- T4d on btclib's arithmetic (`sign_recoverable_`): verifies, and the key_id recovers a pair `==` to `mult q G` -/
theorem ecdsa_sign_recoverable_msg_recovers_ec {p : ℕ} [Fact p.Prime] {C : Curve} (K : CurveOk p C)
    (h34 : p % 4 = 3) (H : Rfc6979.HashSpec) (m : Bytes) (q : ℤ) (k? : Option ℤ) (lowerS : Bool) (fuel : ℕ)
    (r s kid : ℤ) (h : Rfc6979.signRecMsg (EC.ops C) H m q k? lowerS fuel = .ok (r, s, kid)) (primeOrder : Bool) :
    verify (EC.ops C) (Rfc6979.challenge C.n m) ((EC.ops C).mul q C.G) r s = true ∧
      (lowerS = true → s ≤ C.n / 2) ∧
      ∃ Q', recover (EC.ops C) primeOrder kid (Rfc6979.challenge C.n m) r s false = .ok Q' ∧
        (EC.ops C).eq Q' ((EC.ops C).mul q C.G) = true :=
  Btc.E2E.ecdsa_sign_recoverable_msg_recovers_ec K h34 H m q k? lowerS fuel r s kid h primeOrder

/-- T4d on secp256k1 -/
theorem ecdsa_sign_recoverable_msg_recovers_secp256k1 (H : Rfc6979.HashSpec)
    (m : Bytes) (q : ℤ) (k? : Option ℤ) (lowerS : Bool) (fuel : ℕ) (r s kid : ℤ)
    (h : Rfc6979.signRecMsg (EC.ops secp256k1) H m q k? lowerS fuel = .ok (r, s, kid)) (primeOrder : Bool) :
    verify (EC.ops secp256k1) (Rfc6979.challenge secp256k1.n m) ((EC.ops secp256k1).mul q secp256k1.G) r s
        = true ∧
      (lowerS = true → s ≤ secp256k1.n / 2) ∧
      ∃ Q', recover (EC.ops secp256k1) primeOrder kid (Rfc6979.challenge secp256k1.n m) r s false = .ok Q' ∧
        (EC.ops secp256k1).eq Q' ((EC.ops secp256k1).mul q secp256k1.G) = true :=
  Btc.E2E.ecdsa_sign_recoverable_msg_recovers_secp256k1 H m q k? lowerS fuel r s kid h primeOrder

/-- recover THEN verify on btclib's arithmetic: a pair `_recover_pub_key_` answers for ANY `(key_id, c, r, s)` with
    `r, s ∈ 1..n-1` (run over the lawful carrier; the run over `Btc.EC.ops C` answers the same pair) is a key under
    which the verifier over `Btc.EC.ops C` accepts `(r, s)`.  Recovery needs `p ≡ 3 (mod 4)`. -/
theorem ecdsa_recover_then_verify_ec {p : ℕ} [Fact p.Prime] {C : Curve} (K : CurveOk p C) (h34 : p % 4 = 3)
    {primeOrder lowerS : Bool} {kid c r s : ℤ} {Q : SubPt p C} (hr : 0 < r ∧ r < C.n) (hs : 0 < s ∧ s < C.n)
    (h : recover (opsSub K) primeOrder kid c r s lowerS = .ok Q) :
    recover (EC.ops C) primeOrder kid c r s lowerS = .ok Q.1 ∧ verify (EC.ops C) c Q.1 r s = true :=
  Btc.E2E.ecdsa_recover_then_verify_ec K h34 hr hs h

-- a key the API accepts (`pubKeyOk` computes), on the toy curve (31 points = n; cofactor one proved there too:
-- `Btc.C01.Toy.toy_hcof`) and on secp256k1, where the hypothesis-free theorem then applies to it
example : pubKeyOk secp256k1 secp256k1.G = true := by decide +kernel
example (c r s : ℤ) : verifyFull (EC.ops secp256k1) (isXCoord secp256k1) c secp256k1.G r s = true ↔
    verify (EC.ops secp256k1) c secp256k1.G r s = true :=
  (ecdsa_verify_api_is_sec1_secp256k1 c secp256k1.G (by decide +kernel) r s).1
example : pubKeyOk toyC ((EC.ops toyC).mul 5 toyC.G) = true := by decide +kernel
-- … and a key written with a non-reduced x is refused, as `is_on_curve` refuses it (/repo d8821600)
example : pubKeyOk toyC (((EC.ops toyC).mul 5 toyC.G).1 + 43, ((EC.ops toyC).mul 5 toyC.G).2) = false := by
  decide +kernel

-- non-vacuity: `CurveOk` is PROVED for `y² = x³ + 7` over `F₄₃` (31 points), so on it nothing is assumed: an actual
-- signing run of btclib's arithmetic, and the theorems' verdicts on it
example : signRecoverable (EC.ops toyC) 3 5 2 true = .ok (7, 12, 0) := toy_ecdsa_sign
example : verify (EC.ops toyC) 3 ((EC.ops toyC).mul 5 toyC.G) 7 12 = true :=
  (ecdsa_sign_verifies_ec toyOk (by decide) toy_ecdsa_sign).1
example : ∃ Q', recover (EC.ops toyC) true 0 3 7 12 true = .ok Q' ∧
    (EC.ops toyC).eq Q' ((EC.ops toyC).mul 5 toyC.G) = true :=
  ecdsa_recover_signer_ec toyOk (by decide) (by decide) (by decide) toy_ecdsa_sign true true (fun h => h)
-- T6 / T4c hypotheses met by concrete runs over btclib's arithmetic on the proved toy curve: two signatures sharing
-- nonce 2 crack to (5, 2); `sign_` with a toy HMAC and an explicit nonce answers, and the theorem's verdict follows
example : crack (EC.ops toyC) 3 7 19 4 7 4 = .ok (5, 2) :=
  ecdsa_crack_ec toyOk (k := 2) (q := 5) (id1 := 1) (id2 := 1) (by decide) (by decide)
    (by decide +kernel) (by decide +kernel) (by decide)
example : verify (EC.ops toyC) (Rfc6979.challenge toyC.n [0x1f]) ((EC.ops toyC).mul 5 toyC.G) 7 12 = true :=
  (ecdsa_sign_msg_verifies_ec toyOk ⟨fun _ _ => [0], 1⟩ [0x1f] 5 (some 2) true false 1 (7, 12)
    (by decide +kernel)).1
-- the signing hypothesis is satisfiable on secp256k1 as well (challenge 3, key 5, nonce 2)
example : (match signRecoverable (EC.ops secp256k1) 3 5 2 true with | .ok _ => true | .error _ => false) = true := by
  decide +kernel

end Props.C02
