import Proofs.C08.Num
import Generated.Script
/-!
# C08 — the script engine gives Bitcoin Core's verdict

Property theorems only.  `Btc.Script.Core.*` is the transcription of Bitcoin Core's interpreter (the
specification); `Btc.Script.*` are the hand models of btclib's code (tied by correspondence);
`Gen.Script.*` is regenerated from btclib's source on every run.
-/
namespace Props.C08
open Btc Btc.Script

/-! ## T1 — script numbers and booleans -/

/-- `_to_bool` is Core's `CastToBool` on every byte string (negative zero of any length included). -/
theorem to_bool_is_CastToBool (b : Bytes) : toBool b = Core.castToBool b :=
  toBool_eq_castToBool b

/-- `decode_num` is `CScriptNum::set_vch` on every byte string. -/
theorem decode_num_is_set_vch (b : Bytes) : decodeNum b = Core.setVch b :=
  decodeNum_eq_setVch b

/-- `decode_num (encode_num i) = i` on the whole int64 range (and `encode_num` answers there). -/
theorem decode_encode_num (i : Int) (h : MIN_SCRIPT_NUM ≤ i ∧ i ≤ MAX_SCRIPT_NUM) :
    ∃ b, encodeNum i = .ok b ∧ decodeNum b = i := by
  refine ⟨encodeNumRaw i, ?_, decodeNum_encodeNumRaw i⟩
  simp [encodeNum, h]

/-- outside the int64 range `encode_num` refuses with the library's ValueError. -/
theorem encode_num_range (i : Int) (h : ¬ (MIN_SCRIPT_NUM ≤ i ∧ i ≤ MAX_SCRIPT_NUM)) :
    encodeNum i = .error .value := by
  simp [encodeNum, h]

example : encodeNum (-255) = .ok [0xff, 0x80] := by decide
example : decodeNum [0xff, 0x80] = -255 := by decide
example : toBool [0, 0, 0x80] = false ∧ toBool [0x80, 0] = true := by decide

end Props.C08
