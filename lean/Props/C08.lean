import Proofs.C08.Num
import Proofs.C08.Core
import Proofs.C08.Gen
import Proofs.C08.Refine
import Proofs.C08.Sig
import Proofs.C08.Sim
import Proofs.C08.Tap
import Proofs.C08.Verify
import Proofs.C08.Mono
import Model.C08.Verify
import Generated.Script
/-!
# C08 — the script engine gives Bitcoin Core's verdict

Property theorems only.  Of `Model/C08/Verify.lean` (VerifyScript, P2SH, witness v0, taproot dispatch, CLEANSTACK,
malleation rules) only two helpers are inside a theorem -- `isPushOnly` (`validate_push_only_is_IsPushOnly`) and the annex
rule `stripAnnex` (`taproot_get_annex_is_Cores_annex_rule`); the rest of that shell is tied by the `core.verify_input`,
`core.script_tests` and `core.tx_vectors` streams only.  NO theorem here is about the tapscript loop of btclib (`engine/tapscript.py`) beyond its
dispatch list (`switch_covers_the_table`): it has no btclib-shaped model; `core.execwit` / `core.verify_input` streams only.  `Btc.Script.Core.*` is the transcription of Bitcoin Core's interpreter (the
specification); `Btc.Script.*` are the hand models of btclib's code (tied by correspondence);
`Gen.Script.*` is regenerated from btclib's source on every run.
-/
namespace Props.C08
open Btc Btc.Script

/-! ## T1 — script numbers and booleans -/

/-- `_to_bool` is Core's `CastToBool` on every byte string (negative zero of any length included). -/
theorem to_bool_is_CastToBool (b : Bytes) : toBool b = Core.castToBool b :=
  toBool_eq_castToBool b

/-- `decode_num` is `CScriptNum::set_vch` on every byte string. -/
theorem decode_num_is_set_vch (b : Bytes) : decodeNum b = Core.setVch b :=
  decodeNum_eq_setVch b

/-- `decode_num (encode_num i) = i` on the whole int64 range (and `encode_num` answers there). -/
theorem decode_encode_num (i : Int) (h : MIN_SCRIPT_NUM ≤ i ∧ i ≤ MAX_SCRIPT_NUM) :
    ∃ b, encodeNum i = .ok b ∧ decodeNum b = i := by
  refine ⟨encodeNumRaw i, ?_, decodeNum_encodeNumRaw i⟩
  simp [encodeNum, h]

/-- outside the int64 range `encode_num` refuses with the library's ValueError. -/
theorem encode_num_range (i : Int) (h : ¬ (MIN_SCRIPT_NUM ≤ i ∧ i ≤ MAX_SCRIPT_NUM)) :
    encodeNum i = .error .value := by
  simp [encodeNum, h]

/-- `encode_num` writes, for every int64, the bytes `CScriptNum::serialize` writes. -/
theorem encode_num_is_CScriptNum_serialize (i : Int) (h : MIN_SCRIPT_NUM ≤ i ∧ i ≤ MAX_SCRIPT_NUM) :
    encodeNum i = .ok (Core.scriptNumSerialize i) := by
  simp [encodeNum, h, encodeNumRaw_eq_serialize]

/-- the same, about the definition TRANSLATED from btclib's source on this run (`Gen.Script.encode_num`): it answers
    exactly on the int64 range, with `CScriptNum::serialize`'s bytes, which `decode_num` reads back. -/
theorem translated_encode_num (i : Int) :
    (Gen.Script.MIN_SCRIPT_NUM ≤ i ∧ i ≤ Gen.Script.MAX_SCRIPT_NUM →
      Gen.Script.encode_num i = .ok (Core.scriptNumSerialize i) ∧ decodeNum (Core.scriptNumSerialize i) = i) ∧
    (¬ (Gen.Script.MIN_SCRIPT_NUM ≤ i ∧ i ≤ Gen.Script.MAX_SCRIPT_NUM) → Gen.Script.encode_num i = .error .value) := by
  have hmin : Gen.Script.MIN_SCRIPT_NUM = MIN_SCRIPT_NUM := by decide
  have hmax : Gen.Script.MAX_SCRIPT_NUM = MAX_SCRIPT_NUM := by decide
  rw [gen_encode_num_eq, hmin, hmax]
  constructor
  · intro h
    refine ⟨encode_num_is_CScriptNum_serialize i h, ?_⟩
    rw [← encodeNumRaw_eq_serialize]; exact decodeNum_encodeNumRaw i
  · intro h; exact encode_num_range i h

/-- btclib's minimality test `encode_num(decode_num(b)) == b` accepts exactly the encodings Core's
    `CScriptNum` constructor calls minimal — on every byte string, negative zero of every length included. -/
theorem minimal_encoding_is_Cores (b : Bytes) :
    encodeNumRaw (decodeNum b) = b ↔ Core.isMinimallyEncoded b = true :=
  encode_decode_iff_minimal b

/-- `_to_num(element, flags, max_size)` is `CScriptNum(vch, fRequireMinimal, nMaxNumSize)`: it refuses exactly
    the over-long and (under MINIMALDATA) the non-minimal operands, and reads the same value otherwise. -/
theorem to_num_is_CScriptNum (b : Bytes) (minimal : Bool) (maxSize : Nat) (hmax : maxSize ≤ 8) :
    (toNum b minimal maxSize).toOption = (Core.scriptNum b minimal maxSize).toOption :=
  toNum_eq_scriptNum b minimal maxSize hmax

/-- past 8 bytes the two part ways (the interpreter never asks for more than 5): `_to_num` re-encodes through
    `encode_num`, which refuses what is not an int64; `CScriptNum` does not look. -/
theorem to_num_differs_at_nine_bytes :
    toNum [0, 0, 0, 0, 0, 0, 0, 0x80, 0] true 9 = .error .value ∧
    Core.scriptNum [0, 0, 0, 0, 0, 0, 0, 0x80, 0] true 9 = .ok (2 ^ 63) := by decide

example : toNum [0x00, 0x80] true 4 = .error .value ∧ toNum [0xff, 0x80] true 4 = .ok (-255) := by decide
example : encodeNum (-255) = .ok [0xff, 0x80] := by decide
example : decodeNum [0xff, 0x80] = -255 := by decide
example : toBool [0, 0, 0x80] = false ∧ toBool [0x80, 0] = true := by decide


/-! ## constants: what btclib's source says today is what Core's interpreter says -/

/-- the five script limits, the two number widths, the disabled set, the range Core evaluates when not
    executing, and the OP_SUCCESSx set, as regenerated from btclib's source, are Core's. -/
theorem limits_are_Cores :
    Gen.Script.N_MAX_SCRIPT_ELEMENT_SIZE = Core.MAX_SCRIPT_ELEMENT_SIZE ∧
    Gen.Script.N_MAX_OPS_PER_SCRIPT = Core.MAX_OPS_PER_SCRIPT ∧
    Gen.Script.N_MAX_PUBKEYS_PER_MULTISIG = Core.MAX_PUBKEYS_PER_MULTISIG ∧
    Gen.Script.N_MAX_SCRIPT_SIZE = Core.MAX_SCRIPT_SIZE ∧
    Gen.Script.N_MAX_STACK_SIZE = Core.MAX_STACK_SIZE ∧
    Gen.Script.MAX_NUM_SIZE = Core.DEFAULT_MAX_NUM_SIZE ∧
    Gen.Script.MAX_LOCK_TIME_NUM_SIZE = Core.LOCKTIME_MAX_NUM_SIZE ∧
    Gen.Script.DISABLED_OP_CODES = Core.DISABLED ∧
    Gen.Script.EVALUATED_WHEN_UNEXECUTED_LO = Core.OP_IF ∧
    Gen.Script.EVALUATED_WHEN_UNEXECUTED_HI = Core.OP_ENDIF + 1 :=
  ⟨rfl, rfl, rfl, rfl, rfl, rfl, rfl, rfl, rfl, rfl⟩

/-- `op_codes_tapscript.OP_SUCCESS` is BIP342's `IsOpSuccess` on every byte. -/
theorem op_success_is_Cores :
    (List.range 256).all (fun c => Core.isOpSuccess c == Gen.Script.OP_SUCCESS.contains c) = true := by
  decide +kernel

/-- btclib's `ScriptFlag` has exactly Core's 21 `SCRIPT_VERIFY_*` names. -/
theorem flag_names_are_Cores :
    (Gen.Script.FLAGS.map (·.1)).all (fun n => (Core.FLAG_NAMES.lookup n).isSome) = true ∧
    (Core.FLAG_NAMES.map (·.1)).all (fun n => (Gen.Script.FLAGS.lookup n).isSome) = true ∧
    Gen.Script.FLAGS.length = 21 := by decide

/-- btclib's whole op-code table (`script.OP_CODE_NAME_FROM_INT`, regenerated) IS `enum opcodetype` of script.h: every
    byte, every name, in order — swapping two names anywhere breaks this. -/
theorem opcode_table_is_Cores : Gen.Script.OP_NAMES = Core.OPCODES := by decide

/-- does Core's `switch` have a `case` for this op code?  Read off the transcription itself, not off a list: the op code
    run in a tapscript context on an empty stack (so that OP_CHECKSIGADD and OP_CHECKMULTISIG show their own errors)
    answers `BAD_OPCODE` exactly when it falls to `default:` -/
def coreHasCase (c : Nat) : Bool :=
  let cx : Core.Ctx := { flags := 0, sigversion := .TAPSCRIPT, hashes := ⟨id, id, id⟩,
                         checker := ⟨fun _ _ _ _ => .ok false, fun _ _ _ _ => some .SCHNORR_SIG⟩, script := [] }
  if Core.inConditionalRange c then
    decide (Core.execConditional cx { m := { stack := [] } } c false ≠ .error .BAD_OPCODE)
  else decide (Core.execPlain cx 0 0 { stack := [] } c ≠ .error .BAD_OPCODE)

/-- the op codes the engines dispatch on, REGENERATED from the source (the if/elif chain over `op` in the AST of
    `engine.script._run_ops` and `engine.tapscript._run_ops`, evaluated by the translator on the name tables:
    `Gen.Script.LEGACY_DISPATCHED`, `Gen.Script.TAPSCRIPT_DISPATCHED`), against Core's switch as transcribed, for every
    byte from OP_1NEGATE up:
    * the legacy / v0 loop has an arm exactly for the op codes with a `case`, OP_CHECKSIGADD excepted (whose case answers
      BAD_OPCODE outside tapscript);
    * the tapscript loop has an arm exactly for the op codes with a `case` that are not OP_SUCCESSx, OP_CHECKMULTISIG and
      OP_CHECKMULTISIGVERIFY excepted (BIP342: their case answers TAPSCRIPT_CHECKMULTISIG);
    * the model's byte dispatch (`Btclib.kind`) is that generated list, and it is the generated CHAIN (tests in source
      order, `Gen.Script.LEGACY_DISPATCH`) interpreted with Python's meaning of the tests on the generated name table;
    and the six named op codes without a case do fall to `default: BAD_OPCODE` on every state. -/
theorem switch_covers_the_table :
    ((List.range 256).filter (fun c => c ≥ 0x4f)).all
      (fun c => Gen.Script.LEGACY_DISPATCHED.contains c == (coreHasCase c && c != 0xba)) = true ∧
    ((List.range 256).filter (fun c => c ≥ 0x4f)).all
      (fun c => Gen.Script.TAPSCRIPT_DISPATCHED.contains c
        == (coreHasCase c && !Core.isOpSuccess c && c != 0xae && c != 0xaf)) = true ∧
    ((List.range 256).filter (fun t => !(0 < t && t ≤ 78))).all
      (fun t => Gen.Script.LEGACY_DISPATCHED.contains t == (Btclib.kind t != .unknown)) = true ∧
    ((List.range 256).filter (fun t => !(0 < t && t ≤ 78))).all
      (fun t => Btclib.kindFromChain t == Btclib.kind t) = true ∧
    (∀ (cx : Core.Ctx) (pos opos : Nat) (m : Core.Machine), ∀ c ∈ [0x50, 0x62, 0x89, 0x8a],
        Core.execPlain cx pos opos m c = .error .BAD_OPCODE) ∧
    (∀ (cx : Core.Ctx) (st : Core.State) (f : Bool), ∀ c ∈ [0x65, 0x66],
        Core.execConditional cx st c f = .error .BAD_OPCODE) := by
  refine ⟨by decide +kernel, by decide +kernel, by decide +kernel, by decide +kernel, ?_, ?_⟩
  · intro cx pos opos m c hc
    simp only [List.mem_cons, List.mem_nil_iff, or_false] at hc
    rcases hc with rfl | rfl | rfl | rfl <;> rfl
  · intro cx st f c hc
    simp only [List.mem_cons, List.mem_nil_iff, or_false] at hc
    rcases hc with rfl | rfl <;> rfl

example : coreHasCase 0xac = true ∧ coreHasCase 0xba = true ∧ coreHasCase 0xae = true ∧ coreHasCase 0x50 = false ∧
    coreHasCase 0x65 = false ∧ coreHasCase 0x63 = true ∧ coreHasCase 0xbb = false := by decide
example : Gen.Script.LEGACY_DISPATCH.length = 14 ∧ Gen.Script.LEGACY_DISPATCH.head? = some ("eq", "OP_CHECKSIG") := by decide

/-! ## T2 — parsing -/

/-- the instruction walk partitions every byte string: the instructions read, written back, followed by the
    unread tail, are the script (so `serialize (parse s) = s` byte for byte whenever nothing is left unread). -/
theorem parse_partitions (s : Bytes) : serializeOps (parse s).1 ++ (parse s).2 = s :=
  parseOps_partition s.length s

/-- the walk stops only where Core's `GetOp` fails: at the end of the script, or on a push (op code 1..78,
    all four widths) whose length bytes or data run past the end. -/
theorem parse_stops_where_GetOp_fails (s : Bytes) :
    getOp (parse s).2 = none ∧
    ((parse s).2 = [] ∨ ∃ c r, (parse s).2 = c :: r ∧ 0 < c.toNat ∧ c.toNat ≤ 78) := by
  have h := parseOps_tail s.length s (Nat.le_refl _)
  exact ⟨h, getOp_none _ h⟩

/-- btclib's reader: `op_code_spans` (offset arithmetic over `read_op_code`, Python slices) yields exactly the spans of
    Core's `GetOp` walk — same op codes, same boundaries, and it stops at the same byte. -/
theorem op_code_spans_is_GetOp_walk (s : Bytes) :
    opCodeSpans s = spansOf (parse s).1 0 ∧
    (∀ start, readOpCode s start = (getOp (s.drop start)).map fun p => (p.1.code, start + p.1.raw.length)) :=
  ⟨opCodeSpans_eq s, readOpCode_eq_getOp s⟩

example : opCodeSpans [0x51, 0x4c, 0x02, 0xaa, 0xbb, 0x4d, 0x05] = [(0x51, 0, 1), (0x4c, 1, 5)] := by decide
example : (parse [0x51, 0x4c, 0x02, 0xaa, 0xbb, 0x4d, 0x05]).1.map (·.code) = [0x51, 0x4c] := by decide
example : (parse [0x51, 0x4c, 0x02, 0xaa, 0xbb, 0x4d, 0x05]).2 = [0x4d, 0x05] := by decide

/-! ## T4 — invariants of Core's evaluator (for every script, stack, flag set, hash function and signature oracle) -/

/-- limits: after every accepted step `|stack| + |altstack| ≤ 1000`. -/
theorem step_stack_limit (cx : Core.Ctx) (st st' : Core.State) (op : Op) (h : Core.step cx st op = .ok st') :
    st'.m.stack.length + st'.m.alt.length ≤ 1000 :=
  Core.step_stack_bound cx st st' op h

/-- limits: the op count never passes 201 on an accepted run (OP_CHECKMULTISIG's key count included). -/
theorem run_op_count_limit (cx : Core.Ctx) (ops : List Op) (st st' : Core.State)
    (h0 : st.m.opCount ≤ 201) (h : Core.run cx ops st = .ok st') : st'.m.opCount ≤ 201 :=
  Core.run_invariant cx (fun s => s.m.opCount ≤ Core.MAX_OPS_PER_SCRIPT)
    (fun a b op ha hs => Core.step_op_count cx a b op ha hs) ops st st' h0 h

/-- limits: a push of more than 520 bytes is refused even where it does not execute. -/
theorem oversized_push_rejects (cx : Core.Ctx) (st : Core.State) (op : Op) (h : op.data.length > 520) :
    Core.step cx st op = .error .PUSH_SIZE :=
  Core.step_push_size cx st op h

/-- in a branch that is not taken, an op code outside OP_IF..OP_ENDIF changes neither stack nor the condition
    stack. -/
theorem unexecuted_branch_is_inert (cx : Core.Ctx) (st st' : Core.State) (op : Op)
    (hexec : st.vfExec.all id = false) (hrange : Core.inConditionalRange op.code = false)
    (h : Core.step cx st op = .ok st') :
    st'.m.stack = st.m.stack ∧ st'.m.alt = st.m.alt ∧ st'.vfExec = st.vfExec :=
  Core.step_unexecuted cx st st' op hexec hrange h

/-- a script holding a disabled op code at an instruction boundary is refused: executed or not, after an
    OP_RETURN-free prefix or not, whatever the flags. -/
theorem disabled_opcode_rejects (cx : Core.Ctx) (stack : List Bytes) (w : Int) (op : Op)
    (hmem : op ∈ (parse cx.script).1) (hdis : Core.isDisabled op.code = true) :
    ∃ e, Core.evalWith cx stack w = .error e := by
  cases h : Core.evalWith cx stack w with
  | error e => exact ⟨e, rfl⟩
  | ok out =>
    obtain ⟨st, hrun, _⟩ := Core.evalWith_ok cx stack out w h
    obtain ⟨e, he⟩ := Core.run_rejects cx op (fun s => Core.step_disabled cx s op hdis) _ hmem
      { m := { stack := stack, weightLeft := w } }
    rw [he] at hrun; cases hrun

/-- an accepted script is balanced: as many OP_IF/OP_NOTIF as OP_ENDIF, and nothing left unread. -/
theorem accepted_script_is_balanced (cx : Core.Ctx) (stack out : List Bytes) (w : Int)
    (h : Core.evalWith cx stack w = .ok out) :
    Core.closes (parse cx.script).1 = Core.opens (parse cx.script).1 ∧ (parse cx.script).2 = [] := by
  obtain ⟨st, hrun, ht, hv, _, _⟩ := Core.evalWith_ok cx stack out w h
  have := Core.run_vfExec cx _ _ st hrun
  simp only [hv, List.length_nil] at this
  exact ⟨by omega, ht⟩

/-- limits: a legacy or segwit-v0 script over 10 000 bytes is refused before anything runs. -/
theorem oversized_script_rejects (cx : Core.Ctx) (stack : List Bytes) (w : Int)
    (hsv : cx.sigversion = .BASE ∨ cx.sigversion = .WITNESS_V0) (hlen : cx.script.length > 10000) :
    Core.evalWith cx stack w = .error .SCRIPT_SIZE := by
  unfold Core.evalWith
  have : (cx.sigversion == .BASE || cx.sigversion == .WITNESS_V0) = true := by
    rcases hsv with e | e <;> simp [e]
  simp [this, Core.MAX_SCRIPT_SIZE, hlen]

/-- an accepted non-empty script leaves at most 1000 elements. -/
theorem accepted_stack_limit (cx : Core.Ctx) (stack out : List Bytes) (w : Int)
    (hne : (parse cx.script).1 ≠ []) (h : Core.evalWith cx stack w = .ok out) : out.length ≤ 1000 := by
  obtain ⟨st, hrun, _, _, ho, _⟩ := Core.evalWith_ok cx stack out w h
  cases hops : (parse cx.script).1 with
  | nil => exact absurd hops hne
  | cons op ops =>
    rw [hops] at hrun
    obtain ⟨s, h1, h2⟩ := Core.run_cons_ok cx op ops _ st hrun
    have hb := Core.step_stack_bound cx _ s op h1
    have := Core.run_invariant cx (fun x => x.m.stack.length + x.m.alt.length ≤ Core.MAX_STACK_SIZE)
      (fun a b o _ hs => Core.step_stack_bound cx a b o hs) ops s st hb h2
    rw [ho]; simp only [Core.MAX_STACK_SIZE] at this; omega

/-! ## T3 — the btclib-shaped model (`Model/C08/Btclib.lean`, tied to the real engine by the `bt.eval` stream)
refines Core's transcription, op-code family by family -/

/-- the byte-indexed dispatch of the btclib-shaped loop is `_run_ops`' if-chain over op-code NAMES, evaluated on
    the name table and the OPERATIONS keys regenerated from the source — on every non-push byte. -/
theorem btclib_dispatch_is_the_name_table :
    ((List.range 256).filter (fun t => !(0 < t && t ≤ 78))).all
      (fun t => Btclib.kindFromTables t == Btclib.kind t) = true := by decide +kernel

/-- T3, op level, `_partial`: for each of the 46 covered OPERATIONS entries —
    stack: DUP 2DUP DROP 2DROP SWAP TOALTSTACK FROMALTSTACK NIP OVER ROT TUCK 3DUP 2OVER 2ROT 2SWAP RETURN, hashes RIPEMD160 SHA1
    SHA256 HASH160 HASH256 (any hash functions); arithmetic: 1ADD 1SUB NEGATE ABS NOT 0NOTEQUAL ADD SUB BOOLAND BOOLOR
    NUMEQUAL NUMNOTEQUAL LESSTHAN GREATERTHAN LESSTHANOREQUAL GREATERTHANOREQUAL MIN MAX; VERIFY IFDUP 1NEGATE DEPTH SIZE
    WITHIN EQUAL — btclib's op-code function (pop order, IndexError, `_to_num`/`_to_bool`/`encode_num`) and the case of
    Core's switch accept the same stacks and leave the same stacks, for every stack, altstack and flag set.
    PICK, ROLL, CHECKLOCKTIMEVERIFY, CHECKSEQUENCEVERIFY: next theorem.  The conditionals are inline in the loop (loop-level
    theorem below); the four signature op codes: `signature_ops_refine_Core_shared`. -/
theorem operations_refine_Core_partial (cx : Btclib.Ctx) (sc : Bytes) (code : Nat) (h : code ∈ Refine.covered)
    (stack alt : List Bytes) :
    Refine.btRes (Btclib.operation cx code stack alt)
      = Refine.coreRes (Core.execStackOp (Refine.coreCx cx sc) stack alt code) :=
  Refine.operation_refines cx sc code h stack alt

/-- T3, op level, `_partial` (continued): OP_PICK and OP_ROLL (negative / too deep / zero depth, Python's negative
    indexing against Core's bounds test), OP_CHECKLOCKTIMEVERIFY (kind threshold 500000000 on both sides, operand
    against the field, final sequence, 5-byte operand) and OP_CHECKSEQUENCEVERIFY (bit 31 disable on both sides,
    version 2, bit 22 kind, 16-bit mask: btclib's three bit tests against Core's masked comparison) accept the same
    stacks / transaction fields as the cases of Core's switch, and leave the same stack. -/
theorem locktime_pick_roll_refine_Core_partial (cx : Btclib.Ctx) (sc : Bytes) (stack alt : List Bytes) :
    (Btclib.cltv cx stack).map (fun _ => stack) = Refine.okOpt (Core.execCltv (Refine.coreCx cx sc) stack) ∧
    (Btclib.csv cx stack).map (fun _ => stack) = Refine.okOpt (Core.execCsv (Refine.coreCx cx sc) stack) ∧
    Refine.btRes (Btclib.operation cx 0x79 stack alt)
      = (Refine.okOpt (Core.execPickRoll (Refine.coreCx cx sc) stack false)).map (·, alt) ∧
    Refine.btRes (Btclib.operation cx 0x7a stack alt)
      = (Refine.okOpt (Core.execPickRoll (Refine.coreCx cx sc) stack true)).map (·, alt) :=
  ⟨Refine.cltv_core cx sc stack, Refine.csv_core cx sc stack, (Refine.pick_roll_core cx sc stack alt).1,
   (Refine.pick_roll_core cx sc stack alt).2⟩

/-- T3, the expansion trick: `OP_EQUALVERIFY` / `OP_NUMEQUALVERIFY` re-fed as `[OP_EQUAL, OP_VERIFY]` /
    `[OP_NUMEQUAL, OP_VERIFY]` leave what Core's fused op codes leave, and refuse when they do. -/
theorem verify_expansions_refine_Core (cx : Btclib.Ctx) (sc : Bytes) (stack alt : List Bytes) :
    ((Refine.btRes (Btclib.operation cx 0x87 stack alt)).bind fun p => Refine.btRes (Btclib.operation cx 0x69 p.1 p.2))
      = Refine.coreRes (Core.execStackOp (Refine.coreCx cx sc) stack alt 0x88) ∧
    ((Refine.btRes (Btclib.operation cx 0x9c stack alt)).bind fun p => Refine.btRes (Btclib.operation cx 0x69 p.1 p.2))
      = Refine.coreRes (Core.execStackOp (Refine.coreCx cx sc) stack alt 0x9d) :=
  Refine.expansion_refines cx sc stack alt

/-- … with the bookkeeping that makes the trick risky: in an executing branch OP_EQUALVERIFY takes three passes of the
    loop (expansion, OP_EQUAL, OP_VERIFY); `script_index` and `op_code_num` are wound back by two and counted up again,
    and the three passes together count ONE op code (refusing iff that count passes 201, as Core's `++nOpCount`),
    advance the index by ONE, consume exactly the op code's byte, and leave Core's stacks (previous theorem). -/
theorem equalverify_expansion_bookkeeping (cx : Btclib.Ctx) (sc : Bytes) (stack alt : List Bytes) (cond : List Bool)
    (cnt idx : Int) (cso : Nat) (rest : Bytes) (hexec : cond.all id = true) (hsize : stack.length + alt.length ≤ 1000) :
    Refine.iter3 cx { stack := stack, alt := alt, cond := cond, opCodeNum := cnt, scriptIndex := idx,
                      s := UInt8.ofNat 0x88 :: rest, codesepOffset := cso } =
      (if cnt + 1 > 201 then none
       else match Refine.coreRes (Core.execStackOp (Refine.coreCx cx sc) stack alt 0x88) with
         | some (s, a) => some (.more { stack := s, alt := a, cond := cond, opCodeNum := cnt + 1, scriptIndex := idx + 1,
                                        s := rest, codesepOffset := cso })
         | none => none) := by
  rw [Refine.equalverify_windback cx stack alt cond cnt idx cso rest hexec hsize,
    (Refine.expansion_refines cx sc stack alt).1]
  split
  · rfl
  · cases Refine.coreRes (Core.execStackOp (Refine.coreCx cx sc) stack alt 0x88) with
    | none => rfl
    | some p => rfl

/-- T3, the signature op codes at op level, RELATIVE TO A SHARED PER-SIGNATURE FUNCTION.  `Sig.Shared cx sc` says: the
    model's `op_checksig` parameter is `Btclib.sharedChecksig cx.checker cx.flags cx.segwit` — Core's sequence for one
    signature and one key (script code from `codesep_offset` with FindAndDelete of `signatures`, `CheckSignatureEncoding`,
    `CheckPubKeyEncoding`, `checker.CheckECDSASignature`) over the SAME `Core.Checker` Core's side is given — and
    `script_bytes` is the script.  Under it, for every machine state, flag set and checker:
    * OP_CHECKSIG — btclib's arm (`pub_key = stack.pop(); signature = stack.pop()`, `op_checksig`, `assert_nullfail`,
      `encode_num(int(result))`) leaves what `case OP_CHECKSIG` leaves and refuses when it does;
    * OP_CHECKSIGVERIFY — that arm followed by OP_VERIFY on what it pushed is `case OP_CHECKSIGVERIFY`;
    * OP_CHECKMULTISIG / OP_CHECKMULTISIGVERIFY — btclib's arm run at op count `c` (`_to_num` of both counts,
      `assert_pub_key_num`, `script_op_count(op_code_num, pub_key_num)`, the pops with their IndexError, `assert_signature_num`,
      `assert_nulldummy`, the key/signature walk with its two `break`s, `assert_nullfail`), followed for the VERIFY form by
      the pass over OP_VERIFY that counts one more op code (`d = 1`, `v = true`), leaves the stack and op count
      `case OP_CHECKMULTISIG(VERIFY)` leaves when run at op count `c + d`, and refuses when it does.
    NOT proved here (and false on the five recorded divergence classes): that btclib's real `op_checksig`
    (`fix_signature`, `check_pub_key`, `calculate_script_code`, `sig_hash`, `dsa_verify`) IS that sequence; this is tied
    by the `bt.eval` / `core.eval` streams only. -/
theorem signature_ops_refine_Core_shared (cx : Btclib.Ctx) (sc : Bytes) (h : Sig.Shared cx sc)
    (pos opos : Nat) (m : Core.Machine) (d : Nat) (v : Bool) :
    Refine.okOpt (Core.execPlain (Refine.coreCx cx sc) pos opos m 0xac)
      = (Btclib.checksigOn cx m.stack m.codeStart).map (fun s => { m with stack := s }) ∧
    Refine.okOpt (Core.execPlain (Refine.coreCx cx sc) pos opos m 0xad)
      = ((Btclib.checksigOn cx m.stack m.codeStart).bind fun s =>
          match s with
          | top :: r => if toBool top then some r else none
          | [] => none).map (fun s => { m with stack := s }) ∧
    (Btclib.checkMultisigOn cx m.stack m.opCount m.codeStart).bind (Sig.postMsig d v)
      = (Refine.okOpt (Core.execMultisig (Refine.coreCx cx sc) { m with opCount := m.opCount + d } v)).map
          (fun m' => (m'.stack, (m'.opCount : Int))) :=
  ⟨Sig.checksig_core cx sc h pos opos m, Sig.checksigverify_core cx sc h pos opos m, Sig.multisig_core cx sc h m d v⟩

/-- the shared-checker hypothesis is inhabited, and the signature arms do compute under it: a 1-of-1 CHECKMULTISIG and a
    CHECKSIG over a checker that accepts exactly the signature `[0x30, 0x01]` -/
private def demoChecker : Core.Checker :=
  ⟨fun sig _ _ _ => .ok (sig == [0x30, 0x01]), fun _ _ _ _ => some .SCHNORR_SIG⟩
private def demoBt (fl : Nat) : Btclib.Ctx :=
  { flags := fl, segwit := false, hashes := ⟨id, id, id⟩, checker := demoChecker,
    opChecksig := Btclib.sharedChecksig demoChecker fl false }
example : Btclib.eval (demoBt 0) [0x02, 0x30, 0x01, 0x01, 0x02, 0xac] [] = .ok [[1]] := by decide
example : Btclib.eval (demoBt 0) [0x02, 0x30, 0x02, 0x01, 0x02, 0xac] [] = .ok [[]] := by decide
example : Btclib.eval (demoBt Core.FLAG_NULLFAIL) [0x02, 0x30, 0x02, 0x01, 0x02, 0xac] [] = .refused := by decide
example : Btclib.eval (demoBt 0) [0x00, 0x02, 0x30, 0x01, 0x51, 0x01, 0x02, 0x51, 0xae] [] = .ok [[1]] := by decide
example : Btclib.eval (demoBt 0) [0x00, 0x02, 0x30, 0x01, 0x51, 0x01, 0x02, 0x51, 0xaf, 0x51] [] = .ok [[1]] := by decide
example : Btclib.eval (demoBt 0) [0x51, 0xab, 0x02, 0x30, 0x01, 0x01, 0x02, 0xad, 0x51] [] = .ok [[1], [1]] := by decide

/-- T3 at LOOP level, `_partial`: `Sim.covered script` (decidable, evaluated by the driver on every generated program)
    says that every instruction Core's walk reads from the script is one of: a push of any of the four widths, OP_0,
    OP_1NEGATE, OP_1..OP_16, OP_NOP, OP_NOP1/4..10, the 46 OPERATIONS entries of `operations_refine_Core_partial`, OP_PICK,
    OP_ROLL, OP_CHECKLOCKTIMEVERIFY, OP_CHECKSEQUENCEVERIFY, OP_IF, OP_NOTIF, OP_ELSE, OP_ENDIF, OP_VERIF, OP_VERNOTIF,
    OP_RESERVED, OP_VER, OP_RESERVED1/2, OP_EQUALVERIFY, OP_NUMEQUALVERIFY, a disabled op code, OP_CODESEPARATOR,
    OP_CHECKSIG, OP_CHECKSIGVERIFY, OP_CHECKMULTISIG, OP_CHECKMULTISIGVERIFY, or a byte from 0xba up — i.e. EVERY byte
    value: `Sim.covered` holds of every script (`every_script_is_covered`), it is kept as a hypothesis so that the
    statement does not silently widen.  For such a script, every initial stack within the limit,
    every flag set, transaction context, hash functions and signature checker, the btclib-shaped interpreter (`_run_ops`
    as written: byte cursor, stack check at the top of the pass, sentinel condition stack, counts through the translated
    `script_op_count`, `*VERIFY` expansions, `codesep_offset = op_code_stops[script_index]`) and Core's `EvalScript`
    reach the same verdict and the same final stack.  The simulation relation
    (`Sim.R`): stacks and altstacks equal, `condition_stack = vfExec ++ [True]`, op counts equal, `codesep_offset =
    pbegincodehash`; the loop invariant also carries `script_index + 1 = opcode_pos` and `pc` = the bytes of the
    instructions done, which is what makes `op_code_stops[script_index]` Core's `pc`.  Core's size check at
    the end of a step is btclib's check at the top of the next pass.
    The four `*VERIFY` op codes take three passes of btclib's loop (expansion re-fed into the byte stream, index and count
    wound back by two) against one step of Core's.
    HYPOTHESIS `hsig` (what makes this `_partial`): the model's `op_checksig` parameter is `Btclib.sharedChecksig` over
    `cx.checker`, the checker `Refine.coreCx` hands Core's side — both evaluators call the same checker through Core's
    per-signature sequence.  The FULL statement would have btclib's own `op_checksig` (`fix_signature`, `check_pub_key`,
    `calculate_script_code`, `sig_hash`, `dsa_verify`) in its place; that is not proved, is FALSE on the five recorded
    divergence classes (lax DER, BIP66 value checks, three policy-flag orderings), and stays tied by streams.
    Also outside: the tapscript loop (`engine/tapscript.py`), which is a different function (see `Props` below). -/
theorem btclib_eval_refines_core_partial (cx : Btclib.Ctx) (script : Bytes) (stack : List Bytes)
    (hsig : cx.opChecksig = Btclib.sharedChecksig cx.checker cx.flags cx.segwit)
    (hcov : Sim.covered script = true) (hsz : stack.length ≤ 1000) :
    Btclib.eval cx script stack = Sim.toOut (Core.evalWith (Refine.coreCx cx script) stack 0) :=
  Sim.eval_refines cx script stack hsig hcov hsz

/-- TAPSCRIPT, `_partial`.  FULL statement (NOT proved):
      ∀ cx script stack budget, BtclibTap.verifyScriptPath cx script stack budget = true ↔
        Core.executeWitnessScript env stack script .TAPSCRIPT budget = .ok ()
    where `BtclibTap` (`Model/C08/BtclibTap.lean`) is the btclib-shaped model of `engine/tapscript.py: _run_ops,
    op_checksig, op_checksigadd, verify_script_path_vc0` and of the pre-scan `taproot.parse(exit_on_op_success=True)`,
    tied to the real engine by the `bt.tapscript` stream.  PROVED, for every flag set, checker, stack and budget:
    * OP_CHECKSIG — btclib's `op_checksig` (the two pops, the empty-key refusal, `budget -= 50` for a non-empty signature
      and the exhausted-budget refusal, the 32-byte-key rule with the shared `checkSchnorr`, the upgradable-key flag,
      `encode_num(int(bool(signature)))`) leaves the stack and the budget that `EvalChecksigTapscript` followed by
      `case OP_CHECKSIG`'s push leaves, and refuses when it does (btclib refuses the empty key before spending budget,
      Core after: the verdict is the same);
    * the model's dispatch is the list regenerated from the AST of tapscript's `_run_ops`
      (`Gen.Script.TAPSCRIPT_DISPATCHED`; `switch_covers_the_table` relates that list to Core's switch: no
      OP_CHECKMULTISIG(VERIFY), no OP_SUCCESSx, OP_CHECKSIGADD present).
    MISSING for the full statement: the simulation of `BtclibTap.iter` against `Core.step` (the frame lemmas of
    `Proofs/C08/Sim.lean` are about the legacy loop `Btclib.iter`: count, disabled set and name lookup sit elsewhere in
    this loop), the OP_CHECKSIGADD expansion `[OP_CHECKSIG, OP_ADD]` with its stack swap against `case OP_CHECKSIGADD`,
    OP_IF's unconditional minimal-condition rule against TAPSCRIPT_MINIMALIF, `codesep_pos = script_index` against
    `opcode_pos` through the wind-back, the pre-scan against Core's OP_SUCCESS loop, and the closing clean-stack test. -/
theorem tapscript_checksig_refines_Core_partial (cx : Core.Ctx) (hsv : cx.sigversion = .TAPSCRIPT) (m : Core.Machine)
    (sig pk : Bytes) (r : List Bytes) :
    BtclibTap.opChecksig cx.flags cx.checker (pk :: sig :: r) m.codesepPos m.weightLeft
      = ((Refine.okOpt (Core.evalChecksigTapscript cx m sig pk)).map fun p => (Core.ofBool p.1 :: r, p.2.weightLeft)) ∧
    ((List.range 256).filter (fun t => !(0 < t && t ≤ 78))).all
      (fun t => Gen.Script.TAPSCRIPT_DISPATCHED.contains t == (BtclibTap.kind t != .unknown)) = true :=
  ⟨Tap.checksig_tapscript cx hsv m sig pk r, by decide +kernel⟩

-- the tapscript model computes: acceptance, the clean-stack rule, OP_SUCCESS ahead of an unreadable push, MINIMALIF, the budget
example : BtclibTap.verifyScriptPath (demoBt 0) [0x51] [] 0 = true := by decide
example : BtclibTap.verifyScriptPath (demoBt 0) [0x51, 0x51] [] 0 = false := by decide
example : BtclibTap.verifyScriptPath (demoBt 0) [0x50, 0x4c] [] 0 = true := by decide
example : BtclibTap.verifyScriptPath (demoBt 0) [0x4c, 0x50] [] 0 = false := by decide
example : BtclibTap.verifyScriptPath (demoBt 0) [0x63, 0x51, 0x67, 0x51, 0x68] [[2]] 0 = false := by decide
example : BtclibTap.opChecksig 0 demoChecker [[7], [9]] 0 49 = none ∧
    BtclibTap.opChecksig 0 demoChecker [[7], [9]] 0 50 = some ([[1]], 0) ∧
    BtclibTap.opChecksig 0 demoChecker [[7], []] 0 0 = some ([[]], 0) := by decide

/-- every byte value is one of the op codes the loop-level refinement speaks about -/
theorem every_opcode_is_covered : (List.range 256).all Sim.coveredCode = true := by decide +kernel

example : Sim.covered [0x51, 0x63, 0x52, 0x93, 0x67, 0x00, 0x68, 0x02, 0xaa, 0xbb, 0x75, 0xb1, 0x76, 0x88, 0x7e] = true := by decide
-- p2pkh (hash abbreviated to 2 bytes), p2pk, 2-of-3 multisig (keys abbreviated to 1 byte), a script with OP_CODESEPARATOR before OP_CHECKSIGVERIFY
example : Sim.covered [0x76, 0xa9, 0x02, 0x11, 0x11, 0x88, 0xac] = true := by decide
example : Sim.covered [0x51, 0xac] = true := by decide
example : Sim.covered [0x52, 0x01, 0x02, 0x01, 0x03, 0x01, 0x04, 0x53, 0xae] = true := by decide
example : Sim.covered [0x51, 0xab, 0x01, 0x02, 0xad, 0x51, 0xaf] = true := by decide
-- the theorem's hypotheses are met together and its two sides compute: a CHECKSIG that succeeds under the demo checker
example : (demoBt 0).opChecksig = Btclib.sharedChecksig (demoBt 0).checker (demoBt 0).flags (demoBt 0).segwit := rfl
example : Core.evalWith (Refine.coreCx (demoBt 0) [0x02, 0x30, 0x01, 0x01, 0x02, 0xac]) [] 0 = .ok [[1]] := by decide

example : (0x93 : Nat) ∈ Refine.covered ∧ (0x76 : Nat) ∈ Refine.covered := by decide

-- non-vacuity: the hypotheses above are met by concrete programs
private def demoCx (script : Bytes) : Core.Ctx :=
  { flags := 0, sigversion := .BASE, hashes := ⟨id, id, id⟩,
    checker := ⟨fun _ _ _ _ => .ok false, fun _ _ _ _ => some .SCHNORR_SIG⟩, script := script }
example : Core.evalWith (demoCx [0x51, 0x52, 0x93]) [] = .ok [[3]] := by decide
example : Core.evalWith (demoCx [0x00, 0x63, 0x7e, 0x68, 0x51]) [] = .error .DISABLED_OPCODE := by decide
example : Core.evalWith (demoCx [0x00, 0x63, 0x6a, 0x68, 0x51]) [] = .ok [[1]] := by decide
example : Core.evalWith (demoCx [0x51, 0x63]) [] = .error .UNBALANCED_CONDITIONAL := by decide
example : Core.evalWith (demoCx [0x68]) [] = .error .UNBALANCED_CONDITIONAL := by decide

/-! ## T5 — flag monotonicity (partial) -/

/-- PARTIAL.  Full statement (NOT proved; believed true of the transcription, no counterexample found): for flag sets
    `f' ⊆ f`, both closed under Core's assertions (WITNESS ⇒ P2SH, CLEANSTACK ⇒ P2SH ∧ WITNESS),
    `Core.verifyScript {env with flags := f} scriptSig scriptPubKey witness = .ok ()` implies
    `Core.verifyScript {env with flags := f'} scriptSig scriptPubKey witness = .ok ()`.
    Proved here: the three primitives below the loop that read a flag accept under the smaller set whatever they accept
    under the larger one, with the same value -- `CheckSignatureEncoding` (DERSIG, LOW_S, STRICTENC),
    `CheckPubKeyEncoding` (STRICTENC, WITNESS_PUBKEYTYPE) and the `CScriptNum` constructor as `EvalScript` calls it
    (MINIMALDATA).  Missing: OP_CHECKLOCKTIMEVERIFY / OP_CHECKSEQUENCEVERIFY (NOP without their flag), NULLFAIL,
    NULLDUMMY, CONST_SCRIPTCODE, MINIMALIF, minimal push, DISCOURAGE_*, the induction over `Core.step` / `Core.run`, and
    the VerifyScript shell (P2SH, WITNESS, TAPROOT, CLEANSTACK, SIGPUSHONLY). -/
theorem flag_monotonicity_primitives_partial (f' f : Nat) (hf : Mono.FlagsLe f' f) :
    (∀ sig, Core.checkSignatureEncoding f sig = .ok () → Core.checkSignatureEncoding f' sig = .ok ()) ∧
    (∀ sv k, Core.checkPubKeyEncoding f sv k = .ok () → Core.checkPubKeyEncoding f' sv k = .ok ()) ∧
    (∀ (cx : Core.Ctx) v m i, cx.flags = f → Core.num cx v m = .ok i → Core.num (Mono.withFlags cx f') v m = .ok i) :=
  ⟨fun sig h => Mono.checkSignatureEncoding_mono f' f hf sig h,
   fun sv k h => Mono.checkPubKeyEncoding_mono f' f hf sv k h,
   fun cx v m i hc h => Mono.num_mono cx f' (hc ▸ hf) v m i h⟩

example (f : Nat) : Mono.FlagsLe 0 f := by intro b h; simp [Core.has] at h
example (f : Nat) : Mono.FlagsLe f f := fun _ h => h
-- the converse direction is false: a high-S signature passes without LOW_S and not with it is NOT claimed; a non-minimal
-- number is accepted without MINIMALDATA and refused with it:
example : Core.scriptNum [0x01, 0x00] false 4 = .ok 1 ∧ Core.scriptNum [0x01, 0x00] true 4 ≠ .ok 1 := by decide

/-! ## T6 — helpers of the VerifyScript shell (`btclib/script/engine/__init__.py`) -/

/-- `validate_push_only` (the SIGPUSHONLY rule and BIP16's consensus rule on a P2SH scriptSig: a walk over
    `op_code_spans`, refusing an op code above OP_16 and a last span that does not end at the script's end) returns
    exactly when Core's `CScript::IsPushOnly` answers true, for every byte string. -/
theorem validate_push_only_is_IsPushOnly (s : Bytes) : Btclib.validatePushOnly s = Core.isPushOnly s :=
  VerifyShell.validatePushOnly_eq_isPushOnly s

example : Btclib.validatePushOnly [0x51, 0x01, 0xaa, 0x4c, 0x01, 0xbb, 0x50, 0x60] = true := by decide
example : Btclib.validatePushOnly [0x51, 0x61] = false := by decide        -- OP_NOP is an operator
example : Btclib.validatePushOnly [0x51, 0x02, 0xaa] = false := by decide  -- the last push runs past the end
example : Btclib.validatePushOnly [] = true := by decide

/-- `taproot_get_annex` (on `witness.stack`, bottom first) leaves the stack Core's annex rule in the v1 arm of
    `VerifyWitnessProgram` leaves (`Core.stripAnnex`, top first): the last element goes exactly when there are at
    least two and it is non-empty with first byte 0x50.  (About the stack only; that the first component is that
    element is not stated.) -/
theorem taproot_get_annex_is_Cores_annex_rule (wire : List Bytes) :
    (Btclib.taprootGetAnnex wire).2.reverse = Core.stripAnnex wire.reverse :=
  VerifyShell.taprootGetAnnex_eq wire

example : Btclib.taprootGetAnnex [[0x01], [0x50, 0x02]] = ([0x50, 0x02], [[0x01]]) := by decide
example : Btclib.taprootGetAnnex [[0x50, 0x02]] = ([], [[0x50, 0x02]]) := by decide   -- a single element is no annex
example : Btclib.taprootGetAnnex [[0x01], []] = ([], [[0x01], []]) := by decide       -- an empty element has no first byte


end Props.C08
