/-!
# C08 — property theorems only (see DESIGN.md §3 C08).
-/
namespace Props.C08

end Props.C08
