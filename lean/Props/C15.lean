/-!
# C15 — property theorems only (see DESIGN.md §3 C15).
-/
namespace Props.C15

end Props.C15
