import Proofs.C15.Size
import Proofs.C15.Text
/-!
# C15 — miniscript typing, compilation, read-back and satisfaction are consistent

Property theorems only (see DESIGN.md §3 C15).  The model is `Model/C15/*`; its type tables,
script templates, overheads, op code bytes and limits are the translated source
(`Generated/Miniscript.lean`, regenerated from /repo every run), so a changed table entry in
btclib breaks an obligation here.
-/
namespace Props.C15
open Btc Btc.Miniscript Gen.Miniscript

/-- T1: for EVERY well-shaped expression (well-typed or not), in both dialects and whether or not
    its last op code is folded into a VERIFY form, the statically computed `script_size` is exactly
    the length of the script `_fragment_script` writes.  `h160` is any 20-byte hash. -/
theorem script_size_eq_compiled_length (ctx : Ctx) (h160 : Bytes → Bytes)
    (hh : ∀ b, (h160 b).length = 20) (n : Ms) (verify : Bool) (hs : shaped ctx n = true) :
    scriptSize ctx n = (compile ctx h160 verify n).length :=
  scriptSize_eq_length ctx h160 hh n verify hs

/-- T1, at the public entry point: whatever `Miniscript.script()` returns has `script_size` bytes,
    and fits the context's script size limit. -/
theorem script_length (ctx : Ctx) (h160 : Bytes → Bytes) (hh : ∀ b, (h160 b).length = 20)
    (n : Ms) (hs : shaped ctx n = true) (s : Bytes) (h : script ctx h160 n = some s) :
    s.length = scriptSize ctx n ∧ s.length ≤ maxScriptSize ctx := by
  unfold script at h
  split at h
  · rename_i hv
    cases h
    have := scriptSize_eq_length ctx h160 hh n false hs
    simp only [isValid, Bool.and_eq_true, decide_eq_true_eq] at hv
    omega
  · cases h

/-- non-vacuity: `and_v(v:pk(K),older(144))` under P2WSH is shaped, valid, and its script is the
    expected 39 bytes with the CHECKSIG folded into CHECKSIGVERIFY. -/
example :
    let k : Key := 2 :: List.replicate 32 7
    let n : Ms := .bin .and_v (.wrap .v (.wrap .c (.pk_k k))) (.older 144)
    shaped .p2wsh n = true ∧ scriptSize .p2wsh n = 39 ∧
      (script .p2wsh (fun _ => List.replicate 20 0) n).map (·.length) = some 39 ∧
      (script .p2wsh (fun _ => List.replicate 20 0) n).map (·.drop 34) = some [173, 2, 144, 0, 178] := by
  decide

/-- T2 (syntax): for EVERY well-shaped expression (well-typed or not, both dialects, sugar included:
    `pk pkh t: l: u: and_n`), reading the written text gives the expression back. -/
theorem parse_syntax_of_text (ctx : Ctx) (n : Ms) (hs : shaped ctx n = true) :
    parseSyntax ctx (toText n) = some n :=
  parseSyntax_toText ctx n hs

/-- T2: `parse(str(node)) == node` for every expression `parse` can return at all: well-shaped,
    every subexpression typed and of a size its context allows, and a "B" at the top. -/
theorem parse_of_text (ctx : Ctx) (n : Ms) (hs : shaped ctx n = true)
    (ht : allTyped ctx n = true) (hB : (typeOf ctx n).B = true) :
    parse ctx (toText n) = some n := by
  simp [parse, parseSyntax_toText ctx n hs, hs, ht, hB]

/-- `parse` accepts nothing but what the type system accepts: every node of what it returns passed
    `_assert_shape` and `_assert_typed`, and the whole is a "B". -/
theorem parse_sound (ctx : Ctx) (s : List Char) (n : Ms) (h : parse ctx s = some n) :
    shaped ctx n = true ∧ allTyped ctx n = true ∧ (typeOf ctx n).B = true := by
  unfold parse at h
  split at h
  · cases h
  · split at h
    · rename_i hc
      cases h
      simpa [Bool.and_eq_true, and_assoc] using hc
    · cases h

/-- non-vacuity: `or_d(pk(K),and_v(v:pkh(K'),older(144)))` (three sugared spellings inside) is
    shaped, all-typed and a B, and is written as that text. -/
example :
    let k : Key := 2 :: List.replicate 32 7
    let k' : Key := 3 :: List.replicate 32 9
    let n : Ms := .bin .or_d (.wrap .c (.pk_k k))
      (.bin .and_v (.wrap .v (.wrap .c (.pk_h k'))) (.older 144))
    shaped .p2wsh n = true ∧ allTyped .p2wsh n = true ∧ (typeOf .p2wsh n).B = true ∧
      (toText n).take 9 = "or_d(pk(0".toList ∧
      ((toText n).drop 76).take 13 = "and_v(v:pkh(0".toList := by
  decide

/-- non-vacuity of the parser itself, on a short text: `l:older(9)` is `or_i(0,older(9))`. -/
example : parseSyntax .p2wsh "l:older(9)".toList = some (.bin .or_i .f0 (.older 9)) := by
  decide +kernel

end Props.C15
