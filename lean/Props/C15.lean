import Proofs.C15.Size
import Proofs.C15.Text
import Proofs.C15.SoundAll
import Proofs.C15.OpsCount
import Proofs.C15.SatCond
import Proofs.C15.Accept
import Proofs.C15.SatSound
import Proofs.C15.BoundSound
import Model.C15.Decode
import Proofs.C15.DecodeBack
/-!
# C15 — miniscript typing, compilation, read-back and satisfaction are consistent

Property theorems only (see DESIGN.md §3 C15).  The model is `Model/C15/*`; its type tables,
script templates, overheads, op code bytes and limits are the translated source
(`Generated/Miniscript.lean`, regenerated from /repo every run), so a changed table entry in
btclib breaks an obligation here.
-/
namespace Props.C15
open Btc Btc.Miniscript Gen.Miniscript

/-- T1: for EVERY well-shaped expression (well-typed or not), in both dialects and whether or not
    its last op code is folded into a VERIFY form, the statically computed `script_size` is exactly
    the length of the script `_fragment_script` writes.  `h160` is any 20-byte hash. -/
theorem script_size_eq_compiled_length (ctx : Ctx) (h160 : Bytes → Bytes)
    (hh : ∀ b, (h160 b).length = 20) (n : Ms) (verify : Bool) (hs : shaped ctx n = true) :
    scriptSize ctx n = (compile ctx h160 verify n).length :=
  scriptSize_eq_length ctx h160 hh n verify hs

/-- T1, at the public entry point: whatever `Miniscript.script()` returns has `script_size` bytes,
    and fits the context's script size limit. -/
theorem script_length (ctx : Ctx) (h160 : Bytes → Bytes) (hh : ∀ b, (h160 b).length = 20)
    (n : Ms) (hs : shaped ctx n = true) (s : Bytes) (h : script ctx h160 n = some s) :
    s.length = scriptSize ctx n ∧ s.length ≤ maxScriptSize ctx := by
  unfold script at h
  split at h
  · rename_i hv
    cases h
    have := scriptSize_eq_length ctx h160 hh n false hs
    simp only [isValid, Bool.and_eq_true, decide_eq_true_eq] at hv
    omega
  · cases h

/-- non-vacuity: `and_v(v:pk(K),older(144))` under P2WSH is shaped, valid, and its script is the
    expected 39 bytes with the CHECKSIG folded into CHECKSIGVERIFY. -/
example :
    let k : Key := 2 :: List.replicate 32 7
    let n : Ms := .bin .and_v (.wrap .v (.wrap .c (.pk_k k))) (.older 144)
    shaped .p2wsh n = true ∧ scriptSize .p2wsh n = 39 ∧
      (script .p2wsh (fun _ => List.replicate 20 0) n).map (·.length) = some 39 ∧
      (script .p2wsh (fun _ => List.replicate 20 0) n).map (·.drop 34) = some [173, 2, 144, 0, 178] := by
  decide

/-- T2 (syntax) — `numsOK`: every number is written in at most ten digits, which is what btclib's
    `_NUMBER = [0-9]{1,10}` reads back (every lock time is; a threshold is below 10^10 in any
    script that fits a block).  For EVERY such well-shaped expression (well-typed or not, both dialects, sugar included:
    `pk pkh t: l: u: and_n`), reading the written text gives the expression back. -/
theorem parse_syntax_of_text (ctx : Ctx) (n : Ms) (hs : shaped ctx n = true)
    (hn : numsOK n = true) :
    parseSyntax ctx (toText n) = some n :=
  parseSyntax_toText ctx n hs hn

/-- T2: `parse(str(node)) == node` for every expression `parse` can return at all: well-shaped,
    every subexpression typed and of a size its context allows, and a "B" at the top. -/
theorem parse_of_text (ctx : Ctx) (n : Ms) (hs : shaped ctx n = true) (hn : numsOK n = true)
    (ht : allTyped ctx n = true) (hB : (typeOf ctx n).B = true) :
    parse ctx (toText n) = some n := by
  simp [parse, parseSyntax_toText ctx n hs hn, hs, ht, hB]

/-- (definitional: it restates the final check of the MODEL's `parse`, `Model/C15/Text.lean`; its
    content is the `parse` stream, which ties that check to btclib's.)  `parse` accepts nothing but
    what the type system accepts: every node of what it returns passed `_assert_shape` and
    `_assert_typed`, and the whole is a "B". -/
theorem parse_sound (ctx : Ctx) (s : List Char) (n : Ms) (h : parse ctx s = some n) :
    shaped ctx n = true ∧ allTyped ctx n = true ∧ (typeOf ctx n).B = true := by
  unfold parse at h
  split at h
  · cases h
  · split at h
    · rename_i hc
      cases h
      simpa [Bool.and_eq_true, and_assoc] using hc
    · cases h

/-- non-vacuity: `or_d(pk(K),and_v(v:pkh(K'),older(144)))` (three sugared spellings inside) is
    shaped, all-typed and a B, and is written as that text. -/
example :
    let k : Key := 2 :: List.replicate 32 7
    let k' : Key := 3 :: List.replicate 32 9
    let n : Ms := .bin .or_d (.wrap .c (.pk_k k))
      (.bin .and_v (.wrap .v (.wrap .c (.pk_h k'))) (.older 144))
    shaped .p2wsh n = true ∧ allTyped .p2wsh n = true ∧ (typeOf .p2wsh n).B = true ∧
      (toText n).take 9 = "or_d(pk(0".toList ∧
      ((toText n).drop 76).take 13 = "and_v(v:pkh(0".toList := by
  decide

/-- non-vacuity of the parser itself, on a short text: `l:older(9)` is `or_i(0,older(9))`. -/
example : parseSyntax .p2wsh "l:older(9)".toList = some (.bin .or_i .f0 (.older 9)) := by
  decide +kernel

/-- the instruction list `opsOf` (the script as `_fragment_script` writes it, symbolically)
    serializes to exactly the compiled bytes, for EVERY expression, both dialects, both VERIFY
    states: what T3 executes is the compiled script. -/
theorem compiled_script_is_ops (ctx : Ctx) (h160 : Bytes → Bytes) (n : Ms) (verify : Bool) :
    ser (opsOf ctx h160 verify n) = compile ctx h160 verify n :=
  ser_opsOf ctx h160 n verify

/-- T6: the static op count of the bounds analysis (`_static_ops`: the `_LEAF_OPS` rows, `_OVERHEAD`,
    one OP_ADD per thresh() argument, the folded VERIFY) is exactly the number of op codes above
    OP_16 in the compiled script — what BIP141 counts before any OP_CHECKMULTISIG key — for EVERY
    expression, both dialects, both VERIFY states.  (Counted on the instruction list `opsOf`, which
    `compiled_script_is_ops` proves serializes to the compiled bytes.) -/
theorem static_ops_eq_script_ops (ctx : Ctx) (h160 : Bytes → Bytes) (n : Ms) (verify : Bool) :
    countNP (opsOf ctx h160 verify n) = (info ctx n).staticOps :=
  countNP_opsOf ctx h160 n verify

/-- (immediate from the definition `max_ops = static + ops.sat` and T6; recorded because the
    acceptance theorem uses it.)  Whenever `max_ops` is defined it is at least the number of op
    codes above OP_16 in the script — every one of which BIP141 counts, executed or not — for EVERY
    expression (the keys of an executed OP_CHECKMULTISIG are the `_ops.sat` summand on top). -/
theorem max_ops_ge_script_ops (ctx : Ctx) (h160 : Bytes → Bytes) (n : Ms) (verify : Bool) (m : Nat)
    (h : maxOps ctx n = some m) : countNP (opsOf ctx h160 verify n) ≤ m := by
  rw [countNP_opsOf ctx h160 n verify]
  unfold maxOps at h
  cases hs : (info ctx n).ops.sat with
  | none => rw [hs] at h; simp [addO] at h
  | some k => rw [hs] at h; simp [addO] at h; omega

/- T3, T4: the fragment set is now EVERY fragment (the quorums `multi`, `multi_a`, `thresh` included),
   against the minimal semantics of Model/C15/Eval.lean, for every candidate satisfaction and
   dissatisfaction of BIP379's tables (canonical and overcomplete; `Sat`, `Dsat`, and `SatL` for the
   argument list of a `thresh`).  `s1Typed ctx n` says: every node is typed, and the numbers the
   run reads are in range as `_assert_shape` has them — lock times 1 ≤ n < 2^31, non-empty `pk_h`
   keys, `multi`: 1 ≤ k ≤ #keys ≤ 20, `multi_a`: 1 ≤ k ≤ #keys ≤ 999, `thresh`: 1 ≤ k ≤ #args < 2^31
   (any script within the size limits has fewer arguments).
   What stays partial (and is said at each theorem):
   * acceptance under the 201-op limit is proved under `opsStaticOK` (static op count + the keys of
     EVERY multi() ≤ 201), which is `is_within_resource_limits`' bound when no two multi() sit in
     different branches; full statement: under `withinLimits` alone (needs the executed-path charge
     ≤ `_ops.sat`, not proved);
   * the witness/stack bounds of the chosen satisfaction are proved for expressions without a
     `thresh` and for canonical candidates (`noThresh`, `nonCanonical = false`);
   * the 1000-element bound DURING execution is not modelled. -/

/-- T3: every typed expression — every fragment of BIP379, both dialects — does to the stack what
    its type promises — "B": a satisfaction leaves a true value of at most four bytes (exactly 0x01
    when the type has "u"), a dissatisfaction the empty vector, and under `v:` (its last op code
    folded into the VERIFY form exactly when the type lacks "x") nothing; "V": consumed, nothing
    left; "K": a key over a signature that verifies / does not; "W": as "B", next to the element on
    top — in every enclosing executed branch, touching nothing else of the stack, the altstack or
    the branch state.  Quorums: `multi_a` counts its signatures through CHECKSIG/CHECKSIGADD and
    NUMEQUAL, `multi` hands k signatures in key order and the dummy to OP_CHECKMULTISIG, `thresh`
    adds one per satisfied argument and compares with k; every count but k is a dissatisfaction.
    Hypotheses: `hsig0` an empty signature verifies under no key; `hH` the environment's hash160 is
    the one the script was compiled with. -/
theorem type_soundness (E : EvalEnv) (hsig0 : ∀ k, E.sigOK k [] = false)
    (ctx : Ctx) (h160 : Bytes → Bytes) (hH : ∀ k, E.hashF .hash160 k = h160 k) (n : Ms)
    (h : s1Typed ctx n = true) :
    Sound E ctx h160 n :=
  sound_s1 E ctx h160 hsig0 hH n h

/-- non-vacuity of T3 on quorums: `thresh(2, multi(1,K1,K2), a:multi_a…)` is not typed (dialects),
    but `thresh(2,c:pk_k(K),s:c:pk_k(K'),s:c:pk_k(K''))` and `or_d(multi(2,K,K',K''),c:pk_k(K))` are
    covered and typed "B" under P2WSH, `multi_a(2,X,X',X'')` under tapscript. -/
example :
    let k : Key := 2 :: List.replicate 32 7
    let k' : Key := 3 :: List.replicate 32 9
    let k'' : Key := 2 :: List.replicate 32 5
    let t : Ms := .thresh 2 (.wrap .c (.pk_k k)) (.cons (.wrap .s (.wrap .c (.pk_k k')))
      (.cons (.wrap .s (.wrap .c (.pk_k k''))) .nil))
    let m : Ms := .bin .or_d (.multi 2 [k, k', k'']) (.wrap .c (.pk_k k))
    let a : Ms := .multi_a 2 [k.tail, k'.tail, k''.tail]
    s1Typed .p2wsh t = true ∧ (typeOf .p2wsh t).B = true ∧ s1Typed .p2wsh m = true ∧
      (typeOf .p2wsh m).B = true ∧ s1Typed .tapscript a = true ∧ (typeOf .tapscript a).B = true := by
  decide

/-- a 2-of-3 `multi_a` with signatures for the first and the last key: [σ1, empty, σ3] (top first)
    is a listed satisfaction; and the all-empty stack a listed dissatisfaction. -/
example (E : EvalEnv) (k1 k2 k3 : Key) (σ1 σ3 : Bytes) (h1 : E.sigOK k1 σ1 = true)
    (h3 : E.sigOK k3 σ3 = true) :
    Sat E (.multi_a 2 [k1, k2, k3]) [σ1, [], σ3] ∧ Dsat E (.multi_a 2 [k1, k2, k3]) [[], [], []] :=
  ⟨.multi_a _ _ _ (.sign _ _ _ _ _ h1 (.skip _ _ _ _ (.sign _ _ _ _ _ h3 .nil))),
   .multi_a _ _ _ 0 (.skip _ _ _ _ (.skip _ _ _ _ (.skip _ _ _ _ .nil))) (by decide)⟩

/-- "z" and "o" mean what they say: a satisfaction or dissatisfaction of a "z" expression has
    no element, of an "o" expression exactly one (every fragment; for `thresh` through the
    "arguments" count of `_thresh_properties`). -/
theorem stack_arity (E : EvalEnv) (ctx : Ctx) (n : Ms) (h : s1Typed ctx n = true)
    (s : List Bytes) (hs : Sat E n s ∨ Dsat E n s) :
    ((typeOf ctx n).z = true → s.length = 0) ∧ ((typeOf ctx n).o = true → s.length = 1) := by
  rcases hs with hs | hs
  · exact (len_s1 E ctx n h).1 s hs
  · exact (len_s1 E ctx n h).2 s hs

/-- T4_partial (validity half, for the tables rather than the chooser): for a top-level "B" (any
    fragments) that `is_within_resource_limits` and, under P2WSH, whose static op count plus the keys
    of every `multi()` is at most 201 (`opsStaticOK`), the interpreter ACCEPTS the compiled script
    on any stack its satisfaction table lists whose elements are at most 520 bytes and 1000 in
    number: the 201-op limit (the keys of the EXECUTED OP_CHECKMULTISIGs are charged: bounded here
    by those of all of them, `charge_le`) and the script-size limit hold (P2WSH), every conditional
    is closed and exactly the true value is left; and it REFUSES every listed dissatisfaction.
    `accepts` (Model/C15/Eval.lean) is the limit-checked verdict the `exec` stream compares with
    btclib's engine on accepted AND refused witnesses; it does not model the 1000-element bound on
    the stack during execution.
    Full statement (not proved): the same under `withinLimits` alone. -/
theorem satisfaction_accepted_partial (E : EvalEnv) (hsig0 : ∀ k, E.sigOK k [] = false)
    (ctx : Ctx) (h160 : Bytes → Bytes) (hH : ∀ k, E.hashF .hash160 k = h160 k)
    (hh : ∀ b, (h160 b).length = 20) (n : Ms) (h : s1Typed ctx n = true)
    (hshape : shaped ctx n = true) (hB : (typeOf ctx n).B = true)
    (hlim : withinLimits ctx n = true) (hst : opsStaticOK ctx n = true) (s : List Bytes) :
    (Sat E n s → (∀ e ∈ s, e.length ≤ 520) → s.length ≤ MAX_STACK_SIZE →
      accepts E ctx (opsOf ctx h160 false n) s = true) ∧
    (Dsat E n s → accepts E ctx (opsOf ctx h160 false n) s = false) :=
  ⟨fun hs h520 h1000 => accepts_of_sat E hsig0 ctx h160 hH hh n h hshape hB hlim hst s hs h520 h1000,
   fun hs => rejects_of_dsat E hsig0 ctx h160 hH n h hB s hs⟩

/-- `opsStaticOK` follows from `is_within_resource_limits` whenever the expression has no `multi()`
    (in particular under tapscript, and for `multi_a`/`thresh` quorums): then nothing is charged
    beyond the static count, which `max_ops` bounds. -/
theorem ops_static_of_within_limits (ctx : Ctx) (n : Ms) (hm : multiKeys n = 0)
    (hlim : withinLimits ctx n = true) (hops : (maxOps ctx n).isSome = true) :
    opsStaticOK ctx n = true := by
  cases ctx with
  | tapscript => rfl
  | p2wsh =>
    obtain ⟨o, ho⟩ := Option.isSome_iff_exists.mp hops
    simp only [withinLimits, ho, Bool.and_eq_true, decide_eq_true_eq] at hlim
    have := static_le_maxOps .p2wsh n o ho
    simp only [opsStaticOK, hm, Bool.or_eq_true, decide_eq_true_eq]
    right
    omega

/-- T4_partial (the chooser): `satisfy ⊆ Sat` and acceptance, EVERY fragment.  In an environment
    where the offered signatures verify and are no longer than the context's largest (72 / 65
    bytes), the offered preimages hash to their digests and the satisfier's reading of the lock
    times is the interpreter's (`EnvOK`, `SigsSmall`), and no digest of the expression is the hash
    of 32 zero bytes (`zeroOK`: the satisfier's hash dissatisfaction): whatever the modelled
    `satisfy` (`_computed_input`, `_better`, the `reached[j]` recurrences of `_multi_input` and
    `_thresh_input`; tied by the `sat` stream) returns is a listed satisfaction whose elements are
    at most 73 bytes; hence, for a typed top-level "B" that `is_within_resource_limits` and is
    `opsStaticOK`, the interpreter ACCEPTS the compiled script on it.  That the witness has at most
    1000 elements is a hypothesis here (`h1000`; `satisfy_accepted_p2wsh_partial` derives it). -/
theorem satisfy_accepted_partial (E : EvalEnv) (hsig0 : ∀ k, E.sigOK k [] = false) (ctx : Ctx)
    (env : SatEnv) (hE : EnvOK E ctx env) (hS : SigsSmall ctx env) (h160 : Bytes → Bytes)
    (hH : ∀ k, E.hashF .hash160 k = h160 k) (hh : ∀ b, (h160 b).length = 20) (n : Ms)
    (h : s1Typed ctx n = true) (hshape : shaped ctx n = true) (hB : (typeOf ctx n).B = true)
    (hlim : withinLimits ctx n = true) (hst : opsStaticOK ctx n = true)
    (hz : zeroOK E n = true) (w : List Bytes) (hsat : satisfy ctx env n = .ok w)
    (h1000 : w.length ≤ MAX_STACK_SIZE) :
    Sat E n w.reverse ∧ accepts E ctx (opsOf ctx h160 false n) w.reverse = true := by
  have hin := inS1_of_s1Typed ctx n h
  have hS' := satisfy_in_Sat E ctx env hE hS n hin hshape hz w hsat
  have hsmall : ∀ e ∈ w, e.length ≤ 520 := by
    have hst : (inputs ctx env n).sat.stack = some w := by
      unfold satisfy at hsat
      cases hs : (inputs ctx env n).sat.stack with
      | none => simp [hs] at hsat
      | some v => simp only [hs] at hsat; split at hsat <;> cases hsat; rfl
    intro e he
    have := (small_s1 ctx env hS n hin hshape).1 w hst e he
    omega
  exact ⟨hS', accepts_of_sat E hsig0 ctx h160 hH hh n h hshape hB hlim hst _ hS'
    (by intro e he; exact hsmall e (List.mem_reverse.mp he)) (by simpa using h1000)⟩

/-- non-vacuity: the hypotheses of `satisfy_accepted_partial` hold JOINTLY for a 1-of-2 `multi`
    whose second key signs (a concrete environment whose signature check accepts exactly that
    signature): `satisfy` returns the dummy and the signature. -/
example :
    let k1 : Key := 2 :: List.replicate 32 7
    let k2 : Key := 3 :: List.replicate 32 9
    let E : EvalEnv := ⟨fun k σ => k == k2 && σ == [9], fun _ _ => List.replicate 20 0,
      fun _ => true, fun _ => true⟩
    let env : SatEnv := ⟨[(k2, [9])], [], 0, 0, 2⟩
    let h160 : Bytes → Bytes := fun _ => List.replicate 20 0
    let n : Ms := .multi 1 [k1, k2]
    (∀ k, E.sigOK k [] = false) ∧ EnvOK E .p2wsh env ∧ SigsSmall .p2wsh env ∧
      (∀ k, E.hashF .hash160 k = h160 k) ∧ (∀ b, (h160 b).length = 20) ∧
      s1Typed .p2wsh n = true ∧ shaped .p2wsh n = true ∧ (typeOf .p2wsh n).B = true ∧
      withinLimits .p2wsh n = true ∧ opsStaticOK .p2wsh n = true ∧ zeroOK E n = true ∧
      satisfy .p2wsh env n = .ok [[], [9]] ∧ ([[], [9]] : List Bytes).length ≤ MAX_STACK_SIZE := by
  intro k1 k2 E env h160 n
  have hoff : ∀ k σ, offered .p2wsh env k = some σ → k = k2 ∧ σ = [9] := by
    intro k σ h
    simp only [offered, lookupSig, env] at h
    split at h
    · rename_i hk; cases h; exact ⟨hk.symm, rfl⟩
    · cases h
  refine ⟨fun k => by simp [E], ⟨?_, ?_, fun _ _ => rfl, fun _ _ => rfl⟩, ?_, fun _ => rfl,
    fun _ => by simp [h160], by decide, by decide, by decide, by decide, by decide, by decide,
    by decide, by decide⟩
  · intro k σ h
    obtain ⟨rfl, rfl⟩ := hoff k σ h
    simp [E]
  · intro h d p hp
    simp [preimageOf, lookupPre, env] at hp
  · intro k σ h
    obtain ⟨_, rfl⟩ := hoff k σ h
    decide

/-- T4 (bounds), expressions without a `thresh` (the key quorums `multi`, `multi_a` included: every
    `reached[j]` of `_multi_input` is measured exactly): whenever the modelled `satisfy` returns a
    witness `w` for a typed, shaped top-level "B" — the spender's signatures being no longer than
    the context's largest (72 / 65 bytes) and the chosen candidate being one of BIP379's canonical
    options (`nonCanonical = false`: the `non_canonical` mark of the source, which `satisfy` itself
    does not read) — `w` has at most `max_stack_items` elements and `max_witness_size` bytes (each
    element with its length byte, as the source counts), and the script's counted op codes are at
    most `max_ops`.  Full statement (not proved): the same with `thresh` (`noThresh` dropped: the
    satisfier folds the arguments from the last, the bound tables from the first) and without
    `hcan`. -/
theorem satisfy_within_bounds_partial (ctx : Ctx) (env : SatEnv) (hS : SigsSmall ctx env)
    (h160 : Bytes → Bytes) (n : Ms) (h : s1Typed ctx n = true) (hs : shaped ctx n = true)
    (hq : noThresh n = true)
    (hB : (typeOf ctx n).B = true) (w : List Bytes) (hsat : satisfy ctx env n = .ok w)
    (hcan : (inputs ctx env n).sat.nonCanonical = false) :
    (∃ m, maxStackItems ctx n = some m ∧ (w.length : Int) ≤ m) ∧
    (∃ b, maxWitnessSize ctx n = some b ∧ wsum w ≤ b) ∧
    (∀ o, maxOps ctx n = some o → countNP (opsOf ctx h160 false n) ≤ o) := by
  obtain ⟨hb, hm⟩ := satisfy_within_bounds ctx env hS n h hs hq hB w hsat hcan
  exact ⟨hm, hb, fun o ho => max_ops_ge_script_ops ctx h160 n false o ho⟩

/-- non-vacuity of the bounds theorem and of `satisfy_accepted_p2wsh_partial`: for the 1-of-2 `multi`
    instance above the chosen candidate is canonical and the expression has no `thresh`; the bounds
    it predicts are 2 elements / 74 bytes / 3 ops. -/
example :
    let k1 : Key := 2 :: List.replicate 32 7
    let k2 : Key := 3 :: List.replicate 32 9
    let env : SatEnv := ⟨[(k2, [9])], [], 0, 0, 2⟩
    let n : Ms := .multi 1 [k1, k2]
    noThresh n = true ∧ (inputs .p2wsh env n).sat.nonCanonical = false ∧
      maxStackItems .p2wsh n = some 2 ∧ maxWitnessSize .p2wsh n = some 74 ∧ maxOps .p2wsh n = some 3 := by
  decide

/-- `satisfy_accepted_partial` with the 1000-element hypothesis DERIVED, P2WSH, expressions without
    a `thresh`, canonical candidate: `is_within_resource_limits` bounds `max_stack_items` by
    100 and `satisfy_within_bounds_partial` the witness by `max_stack_items`. -/
theorem satisfy_accepted_p2wsh_partial (E : EvalEnv) (hsig0 : ∀ k, E.sigOK k [] = false)
    (env : SatEnv) (hE : EnvOK E .p2wsh env) (hS : SigsSmall .p2wsh env) (h160 : Bytes → Bytes)
    (hH : ∀ k, E.hashF .hash160 k = h160 k) (hh : ∀ b, (h160 b).length = 20) (n : Ms)
    (h : s1Typed .p2wsh n = true) (hshape : shaped .p2wsh n = true) (hq : noThresh n = true)
    (hB : (typeOf .p2wsh n).B = true) (hlim : withinLimits .p2wsh n = true)
    (hst : opsStaticOK .p2wsh n = true) (hz : zeroOK E n = true) (w : List Bytes)
    (hsat : satisfy .p2wsh env n = .ok w)
    (hcan : (inputs .p2wsh env n).sat.nonCanonical = false) :
    Sat E n w.reverse ∧ accepts E .p2wsh (opsOf .p2wsh h160 false n) w.reverse = true := by
  obtain ⟨_, ⟨m, hm1, hm2⟩⟩ := satisfy_within_bounds .p2wsh env hS n h hshape hq hB w hsat hcan
  have h1000 : w.length ≤ MAX_STACK_SIZE := by
    simp only [withinLimits, hm1, Bool.and_eq_true, decide_eq_true_eq] at hlim
    have h100 := hlim.2.2
    have e1 : MAX_STANDARD_P2WSH_STACK_ITEMS = 100 := rfl
    have e2 : MAX_STACK_SIZE = 1000 := rfl
    rw [e1] at h100
    rw [e2]
    omega
  exact satisfy_accepted_partial E hsig0 .p2wsh env hE hS h160 hH hh n h hshape hB hlim hst hz w hsat
    h1000

/-- T4 (refusal half), about the model of the satisfier (`Model/C15/Satisfy.lean`: `_computed_input`,
    `_better`, `satisfy`, tied by the `sat` stream): when the spending condition is false for what
    is available, `satisfy` refuses with "no satisfaction" — for EVERY expression, both dialects.
    The condition (`cond`): a key holds when a signature is offered for it, a hash when its
    preimage is; `multi`/`multi_a` when at least k of the keys have signatures, `thresh` when at
    least k subexpressions hold; and/or/andor by structure; lock times by the satisfier's own
    `_older`/`_after` (modelled; the independent BIP65/68 reading is the harness's `condition`). -/
theorem satisfy_refuses_when_condition_false (ctx : Ctx) (env : SatEnv) (n : Ms)
    (h : cond ctx env n = false) : satisfy ctx env n = .error .none :=
  satisfy_none_of_cond_false ctx env n h

/-- non-vacuity: a 2-of-3 `multi` with one signature, under an `or_i` with an unmet lock time. -/
example :
    cond .p2wsh ⟨[([2], [9])], [], 0, 0, 2⟩ (.bin .or_i (.multi 2 [[2], [3], [4]]) (.older 5)) = false := by
  decide

/-- non-vacuity: with no signature for K, `and_v(v:c:pk_k(K),older(5))` has a false condition. -/
example : cond .p2wsh ⟨[], [], 0, 5, 2⟩ (.bin .and_v (.wrap .v (.wrap .c (.pk_k [2]))) (.older 5)) = false := by
  decide

/-- non-vacuity: `or_i(and_v(v:c:pk_k(K),1), and_b(c:pk_k(K'),a:c:pk_k(K)))` and
    `andor(c:pk_k(K),or_d(c:pk_k(K'),n:1),0)` are in S1 and typed "B"; with a signature for K the
    stack [1, σ] satisfies the first. -/
example :
    let k : Key := 2 :: List.replicate 32 7
    let k' : Key := 3 :: List.replicate 32 9
    let n : Ms := .bin .or_i (.bin .and_v (.wrap .v (.wrap .c (.pk_k k))) .f1)
      (.bin .and_b (.wrap .c (.pk_k k')) (.wrap .a (.wrap .c (.pk_k k))))
    let m : Ms := .andor (.wrap .c (.pk_k k)) (.bin .or_d (.wrap .c (.pk_k k')) (.wrap .n .f1)) .f0
    s1Typed .p2wsh n = true ∧ (typeOf .p2wsh n).B = true ∧
      s1Typed .tapscript m = true ∧ (typeOf .tapscript m).B = true := by
  decide

example (E : EvalEnv) (k : Key) (σ : Bytes) (hσ : E.sigOK k σ = true) (y : Ms) :
    Sat E (.bin .or_i (.bin .and_v (.wrap .v (.wrap .c (.pk_k k))) .f1) y) ([1] :: ([σ] ++ [])) :=
  .or_i_l _ _ _ (.and_v _ _ _ _ (.wrap _ _ _ (by decide) (by decide)
    (.wrap _ _ _ (by decide) (by decide) (.pk_k k σ hσ))) .f1)

/- T2' (read-back, full statement, NOT proved): for every sane `n`,
   `Decode.fromScript ctx keyOfHash (compile ctx h160 false n) = some n'` with
   `compile ctx h160 false n' = compile ctx h160 false n`.  The decoder model
   (`Model/C15/Decode.lean`: `_decomposed` and the `_Decoder` state machine, state for state) is
   tied by the `decode` stream (compiled scripts and op-code-aware corruptions of them).
   Proved below: the STATE MACHINE half, for the fragment set `rd .seq` (0, 1, pk_k, pk_h, the seven
   wrappers, and_v, and_b, or_b, or_c, or_d, or_i, andor; and_v chains nested to the left, which is
   the tree the decoder builds for `[A] [B] [C]`).  Missing: the leaves older, after, the four
   hashes, multi, multi_a and thresh in the machine; that `_decomposed (compile n)` IS the entry
   list `rents n` (`Decode.rents`: observed — the `rents` oracle compares it with btclib's own
   `_decomposed(node.script())` on every generated expression of the set, and instances check by
   evaluation below); that the fuel `fromScript` gives (`fuelFor`) is enough. -/

/-- T2'_partial (the `_Decoder` state machine reads a compiled expression back): for every
    expression `n` of the fragment set `rd .seq` whose nodes all pass `_assert_typed` and
    `_assert_shape`, the loop of `_Decoder.decode`, started as `from_script` starts it on the entry
    list `rents h160 n` (`_decomposed` of the compiled script: last op code first, VERIFY forms
    unfolded), stops with exactly `n` built, no state and no entry left — every look-ahead of the
    machine (`_maybe_and_v`, `_wrapped`, `_endif`, `_endif_notif`, `_endif_else`, the pk_h pattern
    of `_key` under a `v:`) decided as the compiler wrote it — for every fuel from some point on.
    Hypotheses: `hh` hash160 answers 20 bytes; `hkoh` the caller's `key_hashes` files every key
    under its hash160. -/
theorem decoder_machine_reads_back_partial (ctx : Ctx) (koh : Bytes → Option Key)
    (h160 : Bytes → Bytes) (hh : ∀ k, (h160 k).length = 20) (hkoh : ∀ k, koh (h160 k) = some k)
    (n : Ms) (hr : Decode.rd .seq n = true) (hs : shaped ctx n = true)
    (ht : allTyped ctx n = true) :
    ∃ k, ∀ fuel, k ≤ fuel →
      Decode.run ctx koh fuel (Decode.start (Decode.rents h160 n)) = some ⟨[], [], [n]⟩ :=
  Decode.run_back ctx koh h160 hh hkoh n hr hs ht

/-- non-vacuity: `or_d(pk(K),and_v(and_v(v:pkh(K'),v:pk(K)),or_i(pk(K'),0)))`-like expression is in
    the set, shaped and typed at every node; its entry list is what the decoder model's
    `_decomposed` answers for its compiled script; and `from_script` (with its own fuel) returns it. -/
example :
    let k : Key := 2 :: List.replicate 32 7
    let k' : Key := 3 :: List.replicate 32 9
    let h160 : Bytes → Bytes := fun b => List.replicate 19 0 ++ [b.headD 0]
    let koh : Bytes → Option Key := fun h => if h = h160 k then some k else if h = h160 k' then some k' else none
    let n : Ms := .bin .or_d (.wrap .c (.pk_k k))
      (.bin .and_v (.bin .and_v (.wrap .v (.wrap .c (.pk_h k'))) (.wrap .v (.wrap .c (.pk_k k))))
        (.bin .or_i (.wrap .c (.pk_k k')) .f0))
    Decode.rd .seq n = true ∧ shaped .p2wsh n = true ∧ allTyped .p2wsh n = true ∧
      Decode.decomposed (compile .p2wsh h160 false n) = some (Decode.rents h160 n) ∧
      Decode.fromScript .p2wsh koh (compile .p2wsh h160 false n) = some n := by
  decide +kernel

example :
    let k : Key := 2 :: List.replicate 32 7
    let n : Ms := .bin .and_v (.wrap .v (.wrap .c (.pk_k k))) (.older 5)
    Decode.fromScript .p2wsh (fun _ => none) (compile .p2wsh (fun _ => []) false n) = some n := by
  decide +kernel

example :
    let k : Key := List.replicate 32 7
    let n : Ms := .bin .or_d (.multi_a 1 [k, k]) (.bin .and_v (.wrap .v (.hash .sha256 (List.replicate 32 1))) (.after 500000001))
    Decode.fromScript .tapscript (fun _ => none) (compile .tapscript (fun _ => []) false n) = some n := by
  decide +kernel

end Props.C15
