import Proofs.C15.Size
/-!
# C15 — miniscript typing, compilation, read-back and satisfaction are consistent

Property theorems only (see DESIGN.md §3 C15).  The model is `Model/C15/*`; its type tables,
script templates, overheads, op code bytes and limits are the translated source
(`Generated/Miniscript.lean`, regenerated from /repo every run), so a changed table entry in
btclib breaks an obligation here.
-/
namespace Props.C15
open Btc Btc.Miniscript Gen.Miniscript

/-- T1: for EVERY well-shaped expression (well-typed or not), in both dialects and whether or not
    its last op code is folded into a VERIFY form, the statically computed `script_size` is exactly
    the length of the script `_fragment_script` writes.  `h160` is any 20-byte hash. -/
theorem script_size_eq_compiled_length (ctx : Ctx) (h160 : Bytes → Bytes)
    (hh : ∀ b, (h160 b).length = 20) (n : Ms) (verify : Bool) (hs : shaped ctx n = true) :
    scriptSize ctx n = (compile ctx h160 verify n).length :=
  scriptSize_eq_length ctx h160 hh n verify hs

/-- T1, at the public entry point: whatever `Miniscript.script()` returns has `script_size` bytes,
    and fits the context's script size limit. -/
theorem script_length (ctx : Ctx) (h160 : Bytes → Bytes) (hh : ∀ b, (h160 b).length = 20)
    (n : Ms) (hs : shaped ctx n = true) (s : Bytes) (h : script ctx h160 n = some s) :
    s.length = scriptSize ctx n ∧ s.length ≤ maxScriptSize ctx := by
  unfold script at h
  split at h
  · rename_i hv
    cases h
    have := scriptSize_eq_length ctx h160 hh n false hs
    simp only [isValid, Bool.and_eq_true, decide_eq_true_eq] at hv
    omega
  · cases h

/-- non-vacuity: `and_v(v:pk(K),older(144))` under P2WSH is shaped, valid, and its script is the
    expected 39 bytes with the CHECKSIG folded into CHECKSIGVERIFY. -/
example :
    let k : Key := 2 :: List.replicate 32 7
    let n : Ms := .bin .and_v (.wrap .v (.wrap .c (.pk_k k))) (.older 144)
    shaped .p2wsh n = true ∧ scriptSize .p2wsh n = 39 ∧
      (script .p2wsh (fun _ => List.replicate 20 0) n).map (·.length) = some 39 ∧
      (script .p2wsh (fun _ => List.replicate 20 0) n).map (·.drop 34) = some [173, 2, 144, 0, 178] := by
  decide

end Props.C15
