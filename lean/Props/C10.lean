/-!
# C10 — property theorems only (see DESIGN.md §3 C10).
-/
namespace Props.C10

end Props.C10
