import Proofs.C10.FinMulti
import Proofs.C10.Wrapped
import Proofs.C10.MultiAStack
import Proofs.C10.MiniTemplates
import Proofs.C10.ExampleKey
import Proofs.C10.ExampleEcdsa
import Proofs.C10.Checker
import Proofs.C10.Bip322
import Proofs.C10.Built
import Proofs.C10.ExampleBuilt
import Proofs.E2E.C10
import Props.C09
/-!
# C10 — what the library builds and signs, its own engine accepts; tampering is rejected

Property theorems only (DESIGN §3 C10).  C10 is the COMPOSITION of models that exist: the script evaluator is C08's
`Core.verifyScript`, the message a signature is over is C09's specification digest, the finalizer's layout is
`Btc.Spend.finalizedInput` (`Model/C10/Spend.lean`, tied to `psbt._finalized_input` byte for byte by the `c10.fin`
stream), and the signature checker handed to the evaluator is `Btc.Spend.checkerOf` (`Model/C10/Engine.lean`: C09 digest
→ C02 DER / ECDSA, C03 BIP340, C12 commitment; tied to btclib's engine verdict by the `c10.verdict` streams).

* T1 (closure) by symbolic evaluation of `Core.verifyScript`, for every flag set (those with WITNESS / P2SH where the
  template needs them -- hence the default, the standard and the all-flags sets): **p2pk**, **p2pkh**, **p2wpkh**,
  **p2sh-p2wpkh**, **bare / p2sh / p2wsh / p2sh-p2wsh k-of-n multisig** (`1 ≤ k ≤ n ≤ 16`, 15 under legacy p2sh; any subset
  of k signers in key order, NULLDUMMY dummy; the CHECKMULTISIG loop by induction on the key list; the finalizer's four
  layouts for ALL key lists), **taproot key path** and **taproot
  script path with a single-key leaf**.  In the `closure_*` theorems the signature check is an oracle hypothesis;
  `sign_passes_checkECDSA` / `sign_passes_checkSchnorr` prove that the COMPOSED checker (`Spend.checkerOf`) accepts what the
  model's `sign` makes (C02-T1 + DER round trip, C03-T1 + codec, over any `Lawful` group), the `closure_*_signed`
  corollaries compose the two per template, and the `*_secp256k1` theorems state it on the executed instance
  `Spend.secpCrypto` with no hypothesis about the group.  What is still not proved is listed at the end of this file.
* T2 (tamper ⇒ different message): what the engine hands to signature verification is an injective image of the
  fields the hash type commits to, or an explicit hash collision exists.  Rejection itself rests on unforgeability,
  which is ASSUMED.
-/
namespace Props.C10
open Btc Btc.Script Btc.Script.Core Btc.Sighash Btc.Spend Btc.Spend.Eval

/-! ## the finalizer's layout for the two templates (what `finalize` writes) -/

/-- the finalizer on a p2wpkh input carrying its one signature: empty scriptSig, witness `[sig, pk]` -/
theorem finalize_p2wpkh (vk : Bytes → Bool) (h pk sig : Bytes) (hl : h.length = 20) :
    finalizedInput vk ⟨some (p2wpkh h), [], [], [(pk, sig)]⟩ = .ok ([], [sig, pk]) := by
  have e : (p2wpkh h).length = 22 := by simp [p2wpkh, Gen.Spend.P2WPKH_PREFIX, hl]
  have hns : isP2sh (p2wpkh h) = false := by simp [isP2sh, e]
  have hms : p2msMAndKeys vk (p2wpkh h) = none := by simp [p2msMAndKeys, e]
  have hw : isP2wpkh (p2wpkh h) = true := by
    simp [isP2wpkh, p2wpkh, Gen.Spend.P2WPKH_PREFIX, getB, hl]
  simp [finalizedInput, pushedSigs, satisfiedScript, spentScript, hns, hms, hw, singleKey, serializePushes,
    bip147Dummy, isP2ms, bind, Except.bind, pure, Except.pure]

/-- the finalizer on a p2sh-p2wpkh input: scriptSig = one push of the redeem script, witness `[sig, pk]` -/
theorem finalize_p2sh_p2wpkh (vk : Bytes → Bool) (h hr pk sig : Bytes) (hl : h.length = 20) (hrl : hr.length = 20) :
    finalizedInput vk ⟨some (p2sh hr), p2wpkh h, [], [(pk, sig)]⟩ = .ok (pushData (p2wpkh h), [sig, pk]) := by
  have e : (p2wpkh h).length = 22 := by simp [p2wpkh, Gen.Spend.P2WPKH_PREFIX, hl]
  have e' : (p2sh hr).length = 23 := by simp [p2sh, Gen.Spend.P2SH_PREFIX, Gen.Spend.P2SH_SUFFIX, hrl]
  have h87 : (hr ++ [135])[20]? = some 135 := by
    rw [List.getElem?_append_right (by omega)]; simp [hrl]
  have hs : isP2sh (p2sh hr) = true := by
    simp [isP2sh, p2sh, Gen.Spend.P2SH_PREFIX, Gen.Spend.P2SH_SUFFIX, getB, List.getD, h87, hrl]
  have hms : p2msMAndKeys vk (p2wpkh h) = none := by simp [p2msMAndKeys, e]
  have hw : isP2wpkh (p2wpkh h) = true := by
    simp [isP2wpkh, p2wpkh, Gen.Spend.P2WPKH_PREFIX, getB, hl]
  have hne : (p2wpkh h).isEmpty = false := by simp [p2wpkh, Gen.Spend.P2WPKH_PREFIX]
  simp [finalizedInput, pushedSigs, satisfiedScript, spentScript, hs, hms, hw, hne, singleKey, serializePushes,
    bip147Dummy, isP2ms, bind, Except.bind, pure, Except.pure]

/-- the finalizer on a p2pkh input: scriptSig `push sig ‖ push pk`, no witness -/
theorem finalize_p2pkh (vk : Bytes → Bool) (h pk sig : Bytes) (hl : h.length = 20) :
    finalizedInput vk ⟨some (p2pkh h), [], [], [(pk, sig)]⟩ = .ok (pushData sig ++ pushData pk, []) := by
  have e : (p2pkh h).length = 25 := by simp [p2pkh, Gen.Spend.P2PKH_PREFIX, Gen.Spend.P2PKH_SUFFIX, hl]
  have hns : isP2sh (p2pkh h) = false := by simp [isP2sh, e]
  have hms : p2msMAndKeys vk (p2pkh h) = none := by simp [p2msMAndKeys, e]
  have hnw : isP2wpkh (p2pkh h) = false := by simp [isP2wpkh, e]
  have hd : (h ++ [136, 172]).drop 20 = [136, 172] := List.drop_left' hl
  have hk : isP2pkh (p2pkh h) = true := by
    simp [isP2pkh, p2pkh, Gen.Spend.P2PKH_PREFIX, Gen.Spend.P2PKH_SUFFIX, getB, hl, hd]
  simp [finalizedInput, pushedSigs, satisfiedScript, spentScript, hns, hms, hnw, hk, singleKey, serializePushes,
    bind, Except.bind, pure, Except.pure]

/-! ## T1 — closure -/

/-- the finalizer on a p2pk input: scriptSig `push sig`, no witness, no dummy -/
theorem finalize_p2pk (vk : Bytes → Bool) (pk sig : Bytes) (hl : pk.length = 33) :
    finalizedInput vk ⟨some (p2pk pk), [], [], [(pk, sig)]⟩ = .ok (pushData sig, []) := by
  have e : (p2pk pk).length = 35 := by simp [p2pk_eq pk hl, pkScript, hl]
  have hns : isP2sh (p2pk pk) = false := by simp [isP2sh, e]
  have hms : p2msMAndKeys vk (p2pk pk) = none := by simp [p2msMAndKeys, e]
  have hnw : isP2wpkh (p2pk pk) = false := by simp [isP2wpkh, e]
  have hnk : isP2pkh (p2pk pk) = false := by simp [isP2pkh, e]
  have hne : (p2pk pk).isEmpty = false := by
    cases h : p2pk pk with
    | nil => simp [h] at e
    | cons _ _ => rfl
  simp [finalizedInput, pushedSigs, satisfiedScript, spentScript, hns, hms, hnw, hnk, hne, bip147Dummy, isP2ms,
    serializePushes, bind, Except.bind, pure, Except.pure]

/-- T1 (p2pk).  For EVERY flag set: what the finalizer writes for a `<pk> CHECKSIG` output (compressed key) is accepted,
    given the signature (2..75 bytes) passes the encoding checks of these flags, is not the key itself (so FindAndDelete
    finds nothing), and the signature oracle accepts it over the scriptPubKey as script code. -/
theorem closure_p2pk (vk : Bytes → Bool) (env : VerifyEnv) (sig pk : Bytes)
    (henc : checkSignatureEncoding env.flags sig = .ok ()) (hs2 : 2 ≤ sig.length) (hs : sig.length < 76)
    (hpk : isCompressedPubKey pk = true) (hne : sig ≠ pk)
    (hsig : env.checker.checkECDSA sig pk (p2pk pk) .BASE = .ok true) :
    ∃ ss wit, finalizedInput vk ⟨some (p2pk pk), [], [], [(pk, sig)]⟩ = .ok (ss, wit) ∧
      verifyScript env ss (p2pk pk) wit = .ok () := by
  have hl : pk.length = 33 := by
    simp only [isCompressedPubKey, Bool.and_eq_true, beq_iff_eq] at hpk; exact hpk.1
  refine ⟨_, _, finalize_p2pk vk pk sig hl, ?_⟩
  rw [p2pk_eq pk hl] at hsig ⊢
  exact verify_p2pk env sig pk henc hs2 hs hpk hne hsig

/-- T1 (p2pkh).  For EVERY flag set: what the finalizer writes for a p2pkh input is accepted by `VerifyScript`,
    provided the output commits to the hash160 of the key, the key is compressed, the signature (2..75 bytes; a DER
    signature with its hash-type byte is 9..73) passes the encoding checks of these flags, the signature oracle accepts
    it for this key over the scriptPubKey as script code, and the signature is not the 20-byte hash itself.
    The last hypothesis cannot be dropped: FindAndDelete removes `push sig` from the script code exactly when it occurs at
    an instruction boundary, which in `DUP HASH160 <h> EQUALVERIFY CHECKSIG` is the push of `h` -- and a 20-byte string
    can be a BIP66-valid signature encoding (r, s of a few bytes), so an output whose hash160 happens to equal its own
    spending signature is a (cryptographically absurd, logically possible) input on which signer and engine hash
    different script codes.  It is implied by `sig.length ≠ 20`, which every signature with a 32-byte r or s satisfies. -/
theorem closure_p2pkh (vk : Bytes → Bool) (env : VerifyEnv) (h sig pk : Bytes) (hl : h.length = 20)
    (hh : env.hashes.ripemd160 (env.hashes.sha256 pk) = h)
    (henc : checkSignatureEncoding env.flags sig = .ok ()) (hs2 : 2 ≤ sig.length) (hs : sig.length < 76)
    (hpk : isCompressedPubKey pk = true) (hne : sig ≠ h)
    (hsig : env.checker.checkECDSA sig pk (p2pkh h) .BASE = .ok true) :
    ∃ ss wit, finalizedInput vk ⟨some (p2pkh h), [], [], [(pk, sig)]⟩ = .ok (ss, wit) ∧
      verifyScript env ss (p2pkh h) wit = .ok () :=
  ⟨_, _, finalize_p2pkh vk h pk sig hl,
    verify_p2pkh env h sig pk hl hh henc hs2 hs hpk (findAndDelete_pkh h sig hl hs hne) hsig⟩

/-- the FindAndDelete fact itself: on a p2pkh script code nothing is found unless the signature IS the hash -/
theorem find_and_delete_p2pkh (h sig : Bytes) (hl : h.length = 20) (hs : sig.length < 76) (hne : sig ≠ h) :
    Core.findAndDelete (p2pkh h) (pushData sig) = (p2pkh h, 0) :=
  findAndDelete_pkh h sig hl hs hne

/-- T1 (p2wpkh).  For every verification environment whose flags include WITNESS -- any of btclib's default set
    `ALL_FLAGS`, Core's standard set, or all twenty-one flags -- what the finalizer writes for a p2wpkh input is
    accepted by `VerifyScript`, provided: the program is the hash160 of the key (that is the output the descriptor
    derived), the program is not a "false" byte string (all zero / negative zero: a 2⁻¹⁶⁰ event for a hash), the key is
    compressed, the signature passes the encoding checks of these flags and is at most 520 bytes, and the signature
    oracle accepts it for this key over the p2pkh script code BIP143 prescribes. -/
theorem closure_p2wpkh (vk : Bytes → Bool) (env : VerifyEnv) (h sig pk : Bytes) (hl : h.length = 20)
    (hW : has env.flags FLAG_WITNESS = true) (hnz : castToBool h = true)
    (hh : env.hashes.ripemd160 (env.hashes.sha256 pk) = h)
    (henc : checkSignatureEncoding env.flags sig = .ok ()) (hslen : sig.length ≤ 520)
    (hpk : isCompressedPubKey pk = true)
    (hsig : env.checker.checkECDSA sig pk (p2pkh h) .WITNESS_V0 = .ok true) :
    ∃ ss wit, finalizedInput vk ⟨some (p2wpkh h), [], [], [(pk, sig)]⟩ = .ok (ss, wit) ∧
      verifyScript env ss (p2wpkh h) wit = .ok () :=
  ⟨_, _, finalize_p2wpkh vk h pk sig hl, verify_p2wpkh env h sig pk hl hW hnz hh henc hslen hpk hsig⟩

/-- T1 (p2sh-p2wpkh): the same for the wrapped template, for every flag set with P2SH and WITNESS; `hr` is the hash160
    of the redeem script `0 <h>`. -/
theorem closure_p2sh_p2wpkh (vk : Bytes → Bool) (env : VerifyEnv) (h hr sig pk : Bytes)
    (hl : h.length = 20) (hrl : hr.length = 20)
    (hP : has env.flags FLAG_P2SH = true) (hW : has env.flags FLAG_WITNESS = true) (hnz : castToBool h = true)
    (hhr : env.hashes.ripemd160 (env.hashes.sha256 (p2wpkh h)) = hr)
    (hh : env.hashes.ripemd160 (env.hashes.sha256 pk) = h)
    (henc : checkSignatureEncoding env.flags sig = .ok ()) (hslen : sig.length ≤ 520)
    (hpk : isCompressedPubKey pk = true)
    (hsig : env.checker.checkECDSA sig pk (p2pkh h) .WITNESS_V0 = .ok true) :
    ∃ ss wit, finalizedInput vk ⟨some (p2sh hr), p2wpkh h, [], [(pk, sig)]⟩ = .ok (ss, wit) ∧
      verifyScript env ss (p2sh hr) wit = .ok () :=
  ⟨_, _, finalize_p2sh_p2wpkh vk h hr pk sig hl hrl,
    verify_p2sh_p2wpkh env h hr sig pk hl hrl hP hW hnz hhr hh henc hslen hpk hsig⟩

/-- the taproot finalizer on an input carrying a key path signature: empty scriptSig, witness `[sig]` (the key path is
    preferred whatever else the input carries), given the signature says the hash type the input asks for and verifies -/
theorem finalize_taproot_key (lh : Nat → Bytes → Bytes) (vk : Nat → Bytes → Bool) (vl : Nat → Bytes → Bytes → Bytes → Bool)
    (sht : Option Nat) (sig : Bytes) (ss : List (Bytes × Bytes)) (ls : List (Bytes × Bytes × Nat)) (ht : Nat)
    (hne : sig.isEmpty = false) (hht : tapSigHashType sig sht = .ok ht) (hv : vk ht (sig.take 64) = true) :
    finalizedTaproot lh vk vl ⟨sht, sig, ss, ls⟩ = .ok ([], [sig]) := by
  simp [finalizedTaproot, hne, hht, hv, bind, Except.bind, pure, Except.pure]

/-- T1 (taproot key path, with or without a script tree -- the output key `q` is whatever the descriptor derived).  For
    every flag set with WITNESS: the finalizer's `[sig]` is accepted, given the output key is not a "false" byte string
    and the Schnorr oracle accepts `sig` for `q` under BIP341's key-path message. -/
theorem closure_taproot_key (lh : Nat → Bytes → Bytes) (vk : Nat → Bytes → Bool) (vl : Nat → Bytes → Bytes → Bytes → Bool)
    (env : VerifyEnv) (q sig : Bytes) (sht : Option Nat) (ss : List (Bytes × Bytes)) (ls : List (Bytes × Bytes × Nat))
    (ht : Nat) (hq : q.length = 32) (hW : has env.flags FLAG_WITNESS = true) (hnz : castToBool q = true)
    (hne : sig.isEmpty = false) (hht : tapSigHashType sig sht = .ok ht) (hv : vk ht (sig.take 64) = true)
    (hsig : env.checker.checkSchnorr sig q .TAPROOT 0xFFFFFFFF = none) :
    ∃ s wit, finalizedTaproot lh vk vl ⟨sht, sig, ss, ls⟩ = .ok (s, wit) ∧ verifyScript env s (p2tr q) wit = .ok () :=
  ⟨_, _, finalize_taproot_key lh vk vl sht sig ss ls ht hne hht hv, verify_tr_key env q sig hq hW hnz hsig⟩

/-- the taproot finalizer on an input carrying ONE script path signature for a single-key leaf: witness
    `[sig, leaf, control block]` -/
theorem finalize_taproot_leaf (lh : Nat → Bytes → Bytes) (vk : Nat → Bytes → Bool) (vl : Nat → Bytes → Bytes → Bytes → Bool)
    (sht : Option Nat) (x lhash sig cb : Bytes) (ht : Nat) (hx : x.length = 32) (hlh : lhash.length = 32)
    (hleaf : lh 0xc0 (pkLeaf x) = lhash)
    (hht : tapSigHashType sig sht = .ok ht) (hv : vl ht lhash x (sig.take 64) = true) :
    finalizedTaproot lh vk vl ⟨sht, [], [(x ++ lhash, sig)], [(cb, pkLeaf x, 0xc0)]⟩ = .ok ([], [sig, pkLeaf x, cb]) := by
  have h1 : (x ++ lhash).take 32 = x := List.take_left' hx
  have h2 : (x ++ lhash).drop 32 = lhash := List.drop_left' hx
  have hk : singleLeafKey (pkLeaf x) = .ok x := by
    have hd : (x ++ [172]).take 32 = x := List.take_left' hx
    have h33 : (x ++ [172])[32]? = some 172 := by
      rw [List.getElem?_append_right (by omega)]; simp [hx]
    simp [singleLeafKey, pkLeaf, Gen.Spend.PUSH_32, Gen.Spend.OP_CHECKSIG, Gen.Spend.SINGLE_KEY_LEAF_SIZE, getB, hx,
      List.getD, h33, hd]
  have hls : Spend.leafScript lh ⟨sht, [], [(x ++ lhash, sig)], [(cb, pkLeaf x, 0xc0)]⟩ lhash = .ok (pkLeaf x, cb) := by
    simp [Spend.leafScript, hleaf]
  simp [finalizedTaproot, Gen.Spend.LEAF_HASH_SIZE, h1, h2, hht, hlh, hls, hk, hv, bind, Except.bind,
    pure, Except.pure]

/-- T1 (taproot script path, `<x> CHECKSIG` leaf).  For every flag set with WITNESS: the finalizer's
    `[sig, leaf, control]` is accepted, given a control block of leaf version 0xc0 and length 33 + 32·m (m ≤ 128), the
    commitment check accepting it for this leaf's TapLeaf hash (C12: `Props.C12.completeness` for the control blocks
    `input_script_sig` builds), a non-empty signature of at most 520 bytes, and the Schnorr oracle accepting it for the
    leaf key under BIP342's message. -/
theorem closure_taproot_pk_leaf (env : VerifyEnv) (q x sig control : Bytes) (m : Nat)
    (hq : q.length = 32) (hl : x.length = 32)
    (hW : has env.flags FLAG_WITNESS = true) (hnz : castToBool q = true)
    (hcl : control.length = 33 + 32 * m) (hm : m ≤ 128) (hv : getB control 0 / 2 * 2 = 0xc0)
    (hne : sig.isEmpty = false) (hslen : sig.length ≤ 520)
    (hcom : env.commitment control q (env.taggedHash "TapLeaf".toUTF8.toList
      (UInt8.ofNat 0xc0 :: (Core.compactSize (pkLeaf x).length ++ pkLeaf x))) = .ok true)
    (hsig : env.checker.checkSchnorr sig x .TAPSCRIPT 0xFFFFFFFF = none) :
    verifyScript env [] (p2tr q) [sig, pkLeaf x, control] = .ok () :=
  verify_tr_leaf env q x sig control m hq hl hW hnz hcl hm hv hne hslen hcom hsig

/-! ### k-of-n multisig (CHECKMULTISIG matching loop by induction on the key list) -/

/-- the matching loop: whenever the signatures can be matched IN ORDER against a sub-list of the keys (any subset of
    `k` signers in key order -- `Aligned`), every signature and key passes its encoding check and the oracle answers
    for every pair, OP_CHECKMULTISIG's loop answers `true`; for ALL key lists and any fuel above the key count (`execMultisig` gives
    `nKeys + nSigs + 1`). -/
theorem multisig_loop_accepts (cx : Ctx) (sc : Bytes) (keys sigs : List Bytes) (fuel : Nat) (hf : keys.length < fuel)
    (hal : Aligned (chkOk cx sc) sigs keys)
    (henc : ∀ s ∈ sigs, checkSignatureEncoding cx.flags s = .ok ())
    (hpke : ∀ k ∈ keys, checkPubKeyEncoding cx.flags cx.sigversion k = .ok ())
    (htot : ∀ s ∈ sigs, ∀ k ∈ keys, ∃ b, cx.checker.checkECDSA s k sc cx.sigversion = .ok b) :
    multisigLoop cx sc fuel sigs keys = .ok true :=
  multisigLoop_aligned cx sc keys sigs fuel hf hal henc hpke htot

/-- T1 (bare k-of-n multisig, `1 ≤ k ≤ n ≤ 16`, compressed keys).  For EVERY flag set (NULLDUMMY included: the dummy is
    the empty push): scriptSig `OP_0 <sig_1> … <sig_k>` against `k <keys> n CHECKMULTISIG` is accepted, given the
    signatures (2..75 bytes each) are aligned with the keys under the oracle, pass the encoding checks, the oracle is
    total on the pairs, and (`hsc`) FindAndDelete finds none of the pushed signatures in the script code. -/
theorem closure_multisig_bare (env : VerifyEnv) (keys sigs : List Bytes)
    (hn : 1 ≤ keys.length ∧ keys.length ≤ 16) (hk : 1 ≤ sigs.length ∧ sigs.length ≤ keys.length)
    (hkeys : ∀ x ∈ keys, isCompressedPubKey x = true) (hs : ∀ s ∈ sigs, 2 ≤ s.length ∧ s.length ≤ 75)
    (hsc : multisigScriptCode (evalCtx env .BASE (multisig sigs.length keys)) sigs.reverse (multisig sigs.length keys) =
      .ok (multisig sigs.length keys))
    (hal : Aligned (chkOk (evalCtx env .BASE (multisig sigs.length keys)) (multisig sigs.length keys)) sigs keys)
    (henc : ∀ s ∈ sigs, checkSignatureEncoding env.flags s = .ok ())
    (htot : ∀ s ∈ sigs, ∀ x ∈ keys, ∃ b, env.checker.checkECDSA s x (multisig sigs.length keys) .BASE = .ok b) :
    verifyScript env (serializePushes ([] :: sigs)) (multisig sigs.length keys) [] = .ok () := by
  have : serializePushes ([] :: sigs) = 0x00 :: sigs.flatMap pushData := by simp [serializePushes, pushData]
  rw [this]
  exact verify_bare_multisig env keys sigs hn hk hkeys hs hsc hal henc htot

/-- T1 (p2wsh k-of-n multisig).  For every flag set with WITNESS: empty scriptSig, witness
    `[dummy, sig_1 … sig_k, witness script]` against `0 <sha256(witness script)>` is accepted (no FindAndDelete under
    segwit, so no such hypothesis). -/
theorem closure_multisig_p2wsh (env : VerifyEnv) (h : Bytes) (keys sigs : List Bytes) (hl : h.length = 32)
    (hW : has env.flags FLAG_WITNESS = true) (hnz : castToBool h = true)
    (hh : env.hashes.sha256 (multisig sigs.length keys) = h)
    (hn : 1 ≤ keys.length ∧ keys.length ≤ 16) (hk : 1 ≤ sigs.length ∧ sigs.length ≤ keys.length)
    (hkeys : ∀ x ∈ keys, isCompressedPubKey x = true) (hsl : ∀ s ∈ sigs, s.length ≤ 520)
    (hal : Aligned (chkOk (evalCtx env .WITNESS_V0 (multisig sigs.length keys)) (multisig sigs.length keys)) sigs keys)
    (henc : ∀ s ∈ sigs, checkSignatureEncoding env.flags s = .ok ())
    (htot : ∀ s ∈ sigs, ∀ x ∈ keys, ∃ b, env.checker.checkECDSA s x (multisig sigs.length keys) .WITNESS_V0 = .ok b) :
    verifyScript env [] (p2wsh h) (([] :: sigs) ++ [multisig sigs.length keys]) = .ok () :=
  verify_p2wsh_multisig env h keys sigs hl hW hnz hh hn hk hkeys hsl hal henc htot

/-- T1 (p2sh-p2wsh k-of-n multisig).  For every flag set with P2SH and WITNESS: scriptSig = one push of the redeem
    script `0 <sha256(witness script)>`, the same witness. -/
theorem closure_multisig_p2sh_p2wsh (env : VerifyEnv) (h hr : Bytes) (keys sigs : List Bytes)
    (hl : h.length = 32) (hrl : hr.length = 20)
    (hP : has env.flags FLAG_P2SH = true) (hW : has env.flags FLAG_WITNESS = true) (hnz : castToBool h = true)
    (hhr : env.hashes.ripemd160 (env.hashes.sha256 (p2wsh h)) = hr)
    (hh : env.hashes.sha256 (multisig sigs.length keys) = h)
    (hn : 1 ≤ keys.length ∧ keys.length ≤ 16) (hk : 1 ≤ sigs.length ∧ sigs.length ≤ keys.length)
    (hkeys : ∀ x ∈ keys, isCompressedPubKey x = true) (hsl : ∀ s ∈ sigs, s.length ≤ 520)
    (hal : Aligned (chkOk (evalCtx env .WITNESS_V0 (multisig sigs.length keys)) (multisig sigs.length keys)) sigs keys)
    (henc : ∀ s ∈ sigs, checkSignatureEncoding env.flags s = .ok ())
    (htot : ∀ s ∈ sigs, ∀ x ∈ keys, ∃ b, env.checker.checkECDSA s x (multisig sigs.length keys) .WITNESS_V0 = .ok b) :
    verifyScript env (serializePushes [p2wsh h]) (p2sh hr) (([] :: sigs) ++ [multisig sigs.length keys]) = .ok () := by
  have : serializePushes [p2wsh h] = pushData (wshSpk h) := by simp [serializePushes, p2wsh_eq]
  rw [this]
  exact verify_p2sh_p2wsh_multisig env h hr keys sigs hl hrl hP hW hnz hhr hh hn hk hkeys hsl hal henc htot

/-- T1 (legacy p2sh k-of-n multisig, `1 ≤ k ≤ n ≤ 15`: a 16-key redeem script is 547 bytes, more than a push may carry).
    For EVERY flag set with P2SH: scriptSig `OP_0 <sig_1> … <sig_k> <redeem script>` -- the redeem push is a direct push
    for n ≤ 2, OP_PUSHDATA1 for 3 ≤ n ≤ 7, OP_PUSHDATA2 for n ≥ 8 -- against `HASH160 <hash160(redeem)> EQUAL` is
    accepted; `hsc` (FindAndDelete over the legacy script code) as for the bare template. -/
theorem closure_multisig_p2sh (env : VerifyEnv) (hr : Bytes) (keys sigs : List Bytes) (hrl : hr.length = 20)
    (hP : has env.flags FLAG_P2SH = true)
    (hhr : env.hashes.ripemd160 (env.hashes.sha256 (multisig sigs.length keys)) = hr)
    (hn : 1 ≤ keys.length ∧ keys.length ≤ 15) (hk : 1 ≤ sigs.length ∧ sigs.length ≤ keys.length)
    (hkeys : ∀ x ∈ keys, isCompressedPubKey x = true) (hs : ∀ s ∈ sigs, 2 ≤ s.length ∧ s.length ≤ 75)
    (hsc : multisigScriptCode (evalCtx env .BASE (multisig sigs.length keys)) sigs.reverse (multisig sigs.length keys) =
      .ok (multisig sigs.length keys))
    (hal : Aligned (chkOk (evalCtx env .BASE (multisig sigs.length keys)) (multisig sigs.length keys)) sigs keys)
    (henc : ∀ s ∈ sigs, checkSignatureEncoding env.flags s = .ok ())
    (htot : ∀ s ∈ sigs, ∀ x ∈ keys, ∃ b, env.checker.checkECDSA s x (multisig sigs.length keys) .BASE = .ok b) :
    verifyScript env (serializePushes (([] :: sigs) ++ [multisig sigs.length keys])) (p2sh hr) [] = .ok () := by
  have : serializePushes (([] :: sigs) ++ [multisig sigs.length keys]) =
      0x00 :: (sigs.flatMap pushData ++ pushData (multisig sigs.length keys)) := by simp [serializePushes, pushData]
  rw [this]
  exact verify_p2sh_multisig env hr keys sigs hrl hP hhr hn hk hkeys hs hsc hal henc htot

/-! ### the finalizer's layout for multisig inputs, for ALL key lists

`p2ms_m_and_keys` reads `multisig m keys` back (induction over the key pushes), `_pushed_sigs` picks the signatures by key
in SCRIPT order whatever the order `partial_sigs` was filled in (`selectSigs`), `_bip147_dummy` adds the empty dummy. -/

/-- `p2ms_m_and_keys (m <keys> n CHECKMULTISIG) = (m, keys)` for compressed keys the key reader accepts -/
theorem p2ms_reads_multisig (vk : Bytes → Bool) (m : Nat) (keys : List Bytes)
    (hm : 1 ≤ m ∧ m ≤ keys.length) (hn : keys.length ≤ 16) (hkeys : ∀ x ∈ keys, x.length = 33)
    (hvk : ∀ x ∈ keys, vk x = true) : p2msMAndKeys vk (multisig m keys) = some (m, keys) :=
  p2ms_multisig vk m keys hm hn hkeys hvk

theorem finalize_multisig_bare (vk : Bytes → Bool) (m : Nat) (keys : List Bytes) (ps : List (Bytes × Bytes))
    (hm : 1 ≤ m ∧ m ≤ keys.length) (hn : keys.length ≤ 16) (hkeys : ∀ x ∈ keys, x.length = 33)
    (hvk : ∀ x ∈ keys, vk x = true) (hen : m ≤ (keys.filterMap fun k => ps.lookup k).length) :
    finalizedInput vk ⟨some (multisig m keys), [], [], ps⟩ = .ok (serializePushes ([] :: selectSigs m keys ps), []) :=
  Eval.finalize_multisig_bare vk m keys ps hm hn hkeys hvk hen

theorem finalize_multisig_p2sh (vk : Bytes → Bool) (m : Nat) (keys : List Bytes) (ps : List (Bytes × Bytes)) (hr : Bytes)
    (hrl : hr.length = 20) (hm : 1 ≤ m ∧ m ≤ keys.length) (hn : keys.length ≤ 16) (hkeys : ∀ x ∈ keys, x.length = 33)
    (hvk : ∀ x ∈ keys, vk x = true) (hen : m ≤ (keys.filterMap fun k => ps.lookup k).length) :
    finalizedInput vk ⟨some (p2sh hr), multisig m keys, [], ps⟩ =
      .ok (serializePushes (([] :: selectSigs m keys ps) ++ [multisig m keys]), []) :=
  Eval.finalize_multisig_p2sh vk m keys ps hr hrl hm hn hkeys hvk hen

theorem finalize_multisig_p2wsh (vk : Bytes → Bool) (m : Nat) (keys : List Bytes) (ps : List (Bytes × Bytes)) (h : Bytes)
    (hm : 1 ≤ m ∧ m ≤ keys.length) (hn : keys.length ≤ 16) (hkeys : ∀ x ∈ keys, x.length = 33)
    (hvk : ∀ x ∈ keys, vk x = true) (hen : m ≤ (keys.filterMap fun k => ps.lookup k).length) :
    finalizedInput vk ⟨some (p2wsh h), [], multisig m keys, ps⟩ =
      .ok ([], ([] :: selectSigs m keys ps) ++ [multisig m keys]) :=
  Eval.finalize_multisig_p2wsh vk m keys ps h hm hn hkeys hvk hen

theorem finalize_multisig_p2sh_p2wsh (vk : Bytes → Bool) (m : Nat) (keys : List Bytes) (ps : List (Bytes × Bytes))
    (h hr : Bytes) (hm : 1 ≤ m ∧ m ≤ keys.length) (hn : keys.length ≤ 16) (hkeys : ∀ x ∈ keys, x.length = 33)
    (hvk : ∀ x ∈ keys, vk x = true) (hen : m ≤ (keys.filterMap fun k => ps.lookup k).length) :
    finalizedInput vk ⟨some (p2sh hr), p2wsh h, multisig m keys, ps⟩ =
      .ok (serializePushes [p2wsh h], ([] :: selectSigs m keys ps) ++ [multisig m keys]) :=
  Eval.finalize_multisig_p2sh_p2wsh vk m keys ps h hr hm hn hkeys hvk hen

-- signatures filed out of key order, one by a key that is not in the script: by key, in script order
example : selectSigs 2 [[2], [3], [4]] [([4], [9]), ([7], [7]), ([2], [8])] = [[8], [9]] := by decide

/-! ### `pk` / `pkh` inside `sh`, `wsh`, `sh(wsh)` (the shapes `finalize()` closes without a solver; the last three were
the keyed defect `finalize.sh_pkh.pubkey_push_missing`, repaired in /repo f2a4dfc2 -- the model mirrors the repaired code)

One theorem per shape: the finalizer's layout AND the engine's acceptance, for every flag set with the flags the wrapper
needs.  Legacy wrappers keep the FindAndDelete side condition of the inner template (`sig ≠ pk` / `sig ≠ h20`). -/

theorem p2pk_facts (vk : Bytes → Bool) (pk : Bytes) (hl : pk.length = 33) :
    p2msMAndKeys vk (p2pk pk) = none ∧ isP2pkh (p2pk pk) = false ∧ isP2wpkh (p2pk pk) = false ∧
    (p2pk pk).isEmpty = false := by
  have e : (p2pk pk).length = 35 := by simp [p2pk_eq pk hl, pkScript, hl]
  refine ⟨by simp [p2msMAndKeys, e], by simp [isP2pkh, e], by simp [isP2wpkh, e], ?_⟩
  rw [p2pk_eq pk hl]; rfl

theorem p2pkh_facts (vk : Bytes → Bool) (h : Bytes) (hl : h.length = 20) :
    p2msMAndKeys vk (p2pkh h) = none ∧ isP2pkh (p2pkh h) = true ∧ isP2wpkh (p2pkh h) = false ∧
    (p2pkh h).isEmpty = false := by
  have e : (p2pkh h).length = 25 := by simp [p2pkh, Gen.Spend.P2PKH_PREFIX, Gen.Spend.P2PKH_SUFFIX, hl]
  have hd : (h ++ [136, 172]).drop 20 = [136, 172] := List.drop_left' hl
  refine ⟨by simp [p2msMAndKeys, e], ?_, by simp [isP2wpkh, e], by simp [p2pkh, Gen.Spend.P2PKH_PREFIX]⟩
  simp [isP2pkh, p2pkh, Gen.Spend.P2PKH_PREFIX, Gen.Spend.P2PKH_SUFFIX, getB, hl, hd]

theorem isP2sh_p2sh (hr : Bytes) (hrl : hr.length = 20) : isP2sh (p2sh hr) = true := by
  have h87 : (hr ++ [135])[20]? = some 135 := by
    rw [List.getElem?_append_right (by omega)]; simp [hrl]
  simp [isP2sh, p2sh, Gen.Spend.P2SH_PREFIX, Gen.Spend.P2SH_SUFFIX, getB, List.getD, h87, hrl]

/-- T1 (wsh(pk)). -/
theorem closure_wsh_pk (vk : Bytes → Bool) (env : VerifyEnv) (h sig pk : Bytes) (hl : h.length = 32)
    (hW : has env.flags FLAG_WITNESS = true) (hnz : castToBool h = true)
    (hh : env.hashes.sha256 (p2pk pk) = h)
    (henc : checkSignatureEncoding env.flags sig = .ok ()) (hslen : sig.length ≤ 520)
    (hpk : isCompressedPubKey pk = true)
    (hsig : env.checker.checkECDSA sig pk (p2pk pk) .WITNESS_V0 = .ok true) :
    ∃ ss wit, finalizedInput vk ⟨some (p2wsh h), [], p2pk pk, [(pk, sig)]⟩ = .ok (ss, wit) ∧
      verifyScript env ss (p2wsh h) wit = .ok () := by
  have hpl : pk.length = 33 := by
    simp only [isCompressedPubKey, Bool.and_eq_true, beq_iff_eq] at hpk; exact hpk.1
  obtain ⟨f1, f2, _, f4⟩ := p2pk_facts vk pk hpl
  refine ⟨[], [sig, p2pk pk], ?_, ?_⟩
  · simp [finalizedInput, pushedSigs, satisfiedScript, bip147Dummy, isP2ms, f1, f2, f4, serializePushes,
      bind, Except.bind, pure, Except.pure]
  · rw [p2pk_eq pk hpl] at hh hsig ⊢
    exact verify_wsh_pk env h sig pk hl hW hnz hh henc hslen hpk hsig

/-- T1 (sh(wsh(pk))). -/
theorem closure_sh_wsh_pk (vk : Bytes → Bool) (env : VerifyEnv) (h hr sig pk : Bytes) (hl : h.length = 32)
    (hrl : hr.length = 20) (hP : has env.flags FLAG_P2SH = true)
    (hW : has env.flags FLAG_WITNESS = true) (hnz : castToBool h = true)
    (hhr : env.hashes.ripemd160 (env.hashes.sha256 (p2wsh h)) = hr)
    (hh : env.hashes.sha256 (p2pk pk) = h)
    (henc : checkSignatureEncoding env.flags sig = .ok ()) (hslen : sig.length ≤ 520)
    (hpk : isCompressedPubKey pk = true)
    (hsig : env.checker.checkECDSA sig pk (p2pk pk) .WITNESS_V0 = .ok true) :
    ∃ ss wit, finalizedInput vk ⟨some (p2sh hr), p2wsh h, p2pk pk, [(pk, sig)]⟩ = .ok (ss, wit) ∧
      verifyScript env ss (p2sh hr) wit = .ok () := by
  have hpl : pk.length = 33 := by
    simp only [isCompressedPubKey, Bool.and_eq_true, beq_iff_eq] at hpk; exact hpk.1
  obtain ⟨f1, f2, _, f4⟩ := p2pk_facts vk pk hpl
  have hne : (p2wsh h).isEmpty = false := by simp [p2wsh, Gen.Spend.P2WSH_PREFIX]
  refine ⟨pushData (p2wsh h), [sig, p2pk pk], ?_, ?_⟩
  · simp [finalizedInput, pushedSigs, satisfiedScript, bip147Dummy, isP2ms, f1, f2, f4, hne, serializePushes,
      bind, Except.bind, pure, Except.pure]
  · rw [p2pk_eq pk hpl] at hh hsig ⊢
    exact verify_sh_wsh_pk env h hr sig pk hl hrl hP hW hnz hhr hh henc hslen hpk hsig

/-- T1 (sh(pk)): scriptSig `<sig> <redeem>`. -/
theorem closure_sh_pk (vk : Bytes → Bool) (env : VerifyEnv) (hr sig pk : Bytes) (hrl : hr.length = 20)
    (hP : has env.flags FLAG_P2SH = true)
    (hhr : env.hashes.ripemd160 (env.hashes.sha256 (p2pk pk)) = hr)
    (henc : checkSignatureEncoding env.flags sig = .ok ()) (hs2 : 2 ≤ sig.length) (hs : sig.length < 76)
    (hpk : isCompressedPubKey pk = true) (hne : sig ≠ pk)
    (hsig : env.checker.checkECDSA sig pk (p2pk pk) .BASE = .ok true) :
    ∃ ss wit, finalizedInput vk ⟨some (p2sh hr), p2pk pk, [], [(pk, sig)]⟩ = .ok (ss, wit) ∧
      verifyScript env ss (p2sh hr) wit = .ok () := by
  have hpl : pk.length = 33 := by
    simp only [isCompressedPubKey, Bool.and_eq_true, beq_iff_eq] at hpk; exact hpk.1
  obtain ⟨f1, f2, f3, f4⟩ := p2pk_facts vk pk hpl
  have hsh := isP2sh_p2sh hr hrl
  refine ⟨pushData sig ++ pushData (p2pk pk), [], ?_, ?_⟩
  · simp [finalizedInput, pushedSigs, satisfiedScript, spentScript, bip147Dummy, isP2ms, hsh, f1, f2, f3, f4,
      serializePushes, bind, Except.bind, pure, Except.pure]
  · rw [p2pk_eq pk hpl] at hhr hsig ⊢
    exact verify_sh_pk env hr sig pk hrl hP hhr henc hs2 hs hpk hne hsig

/-- T1 (wsh(pkh)): witness `[sig, pk, p2pkh script]`. -/
theorem closure_wsh_pkh (vk : Bytes → Bool) (env : VerifyEnv) (h h20 sig pk : Bytes) (hl : h.length = 32)
    (hl20 : h20.length = 20) (hW : has env.flags FLAG_WITNESS = true) (hnz : castToBool h = true)
    (hh : env.hashes.sha256 (p2pkh h20) = h) (hh20 : env.hashes.ripemd160 (env.hashes.sha256 pk) = h20)
    (henc : checkSignatureEncoding env.flags sig = .ok ()) (hslen : sig.length ≤ 520)
    (hpk : isCompressedPubKey pk = true)
    (hsig : env.checker.checkECDSA sig pk (p2pkh h20) .WITNESS_V0 = .ok true) :
    ∃ ss wit, finalizedInput vk ⟨some (p2wsh h), [], p2pkh h20, [(pk, sig)]⟩ = .ok (ss, wit) ∧
      verifyScript env ss (p2wsh h) wit = .ok () := by
  obtain ⟨f1, f2, _, f4⟩ := p2pkh_facts vk h20 hl20
  refine ⟨[], [sig, pk, p2pkh h20], ?_, ?_⟩
  · simp [finalizedInput, pushedSigs, satisfiedScript, bip147Dummy, isP2ms, singleKey, f1, f2, f4, serializePushes,
      bind, Except.bind, pure, Except.pure, Except.map]
  · exact verify_wsh_pkh env h h20 sig pk hl hl20 hW hnz hh hh20 henc hslen hpk hsig

/-- T1 (sh(wsh(pkh))). -/
theorem closure_sh_wsh_pkh (vk : Bytes → Bool) (env : VerifyEnv) (h hr h20 sig pk : Bytes) (hl : h.length = 32)
    (hrl : hr.length = 20) (hl20 : h20.length = 20) (hP : has env.flags FLAG_P2SH = true)
    (hW : has env.flags FLAG_WITNESS = true) (hnz : castToBool h = true)
    (hhr : env.hashes.ripemd160 (env.hashes.sha256 (p2wsh h)) = hr)
    (hh : env.hashes.sha256 (p2pkh h20) = h) (hh20 : env.hashes.ripemd160 (env.hashes.sha256 pk) = h20)
    (henc : checkSignatureEncoding env.flags sig = .ok ()) (hslen : sig.length ≤ 520)
    (hpk : isCompressedPubKey pk = true)
    (hsig : env.checker.checkECDSA sig pk (p2pkh h20) .WITNESS_V0 = .ok true) :
    ∃ ss wit, finalizedInput vk ⟨some (p2sh hr), p2wsh h, p2pkh h20, [(pk, sig)]⟩ = .ok (ss, wit) ∧
      verifyScript env ss (p2sh hr) wit = .ok () := by
  obtain ⟨f1, f2, _, f4⟩ := p2pkh_facts vk h20 hl20
  have hne : (p2wsh h).isEmpty = false := by simp [p2wsh, Gen.Spend.P2WSH_PREFIX]
  refine ⟨pushData (p2wsh h), [sig, pk, p2pkh h20], ?_, ?_⟩
  · simp [finalizedInput, pushedSigs, satisfiedScript, bip147Dummy, isP2ms, singleKey, f1, f2, f4, hne, serializePushes,
      bind, Except.bind, pure, Except.pure, Except.map]
  · exact verify_sh_wsh_pkh env h hr h20 sig pk hl hrl hl20 hP hW hnz hhr hh hh20 henc hslen hpk hsig

/-- T1 (sh(pkh)): scriptSig `<sig> <pk> <redeem>`. -/
theorem closure_sh_pkh (vk : Bytes → Bool) (env : VerifyEnv) (hr h20 sig pk : Bytes) (hrl : hr.length = 20)
    (hl20 : h20.length = 20) (hP : has env.flags FLAG_P2SH = true)
    (hhr : env.hashes.ripemd160 (env.hashes.sha256 (p2pkh h20)) = hr)
    (hh20 : env.hashes.ripemd160 (env.hashes.sha256 pk) = h20)
    (henc : checkSignatureEncoding env.flags sig = .ok ()) (hs2 : 2 ≤ sig.length) (hs : sig.length < 76)
    (hpk : isCompressedPubKey pk = true) (hne : sig ≠ h20)
    (hsig : env.checker.checkECDSA sig pk (p2pkh h20) .BASE = .ok true) :
    ∃ ss wit, finalizedInput vk ⟨some (p2sh hr), p2pkh h20, [], [(pk, sig)]⟩ = .ok (ss, wit) ∧
      verifyScript env ss (p2sh hr) wit = .ok () := by
  obtain ⟨f1, f2, f3, f4⟩ := p2pkh_facts vk h20 hl20
  have hsh := isP2sh_p2sh hr hrl
  refine ⟨pushData sig ++ (pushData pk ++ pushData (p2pkh h20)), [], ?_, ?_⟩
  · simp [finalizedInput, pushedSigs, satisfiedScript, spentScript, bip147Dummy, isP2ms, singleKey, hsh, f1, f2, f3, f4,
      serializePushes, bind, Except.bind, pure, Except.pure]
  · exact verify_sh_pkh env hr h20 sig pk hrl hl20 hP hhr hh20 henc hs2 hs hpk hne hsig

/-- the hash types a psbt input may ask the signer for (regenerated from `sig_hash.SIG_HASH_TYPES`) are ones the engine's
    checks define: `IsDefinedHashtypeSignature` (STRICTENC) for the six ECDSA ones, BIP341's seven for taproot, and the
    signer's fall-backs ALL / DEFAULT are among them -/
theorem signer_hash_types_defined :
    (∀ t ∈ Gen.Spend.ECDSA_HASH_TYPES, 1 ≤ t % 128 ∧ t % 128 ≤ 3 ∧ t < 256) ∧
    (∀ t ∈ Gen.Spend.TAPROOT_HASH_TYPES, tapValidType t = true) ∧
    Gen.Spend.SIGHASH_ALL ∈ Gen.Spend.ECDSA_HASH_TYPES ∧ Gen.Spend.SIGHASH_DEFAULT ∈ Gen.Spend.TAPROOT_HASH_TYPES := by
  decide

/-- the three flag sets the harness runs (regenerated from `engine/flags.py`) all have P2SH and WITNESS -/
theorem standard_flag_sets :
    ∀ f ∈ [Gen.Spend.ALL_FLAGS, Gen.Spend.STANDARD_FLAGS, Gen.Spend.EVERY_FLAG],
      has f FLAG_P2SH = true ∧ has f FLAG_WITNESS = true := by decide

/-- the script code the SIGNER picks for a p2wpkh / p2sh-p2wpkh input (`_witness_v0_script_code`) is the one the
    engine's `VerifyWitnessProgram` evaluates and hands to the signature checker: p2pkh of the program, BIP143 -/
theorem signer_script_code_p2wpkh (h hr : Bytes) (hl : h.length = 20) (hrl : hr.length = 20) (sigs : List (Bytes × Bytes)) :
    ecdsaScriptCode ⟨some (p2wpkh h), [], [], sigs⟩ = some (.WITNESS_V0, p2pkh h) ∧
    ecdsaScriptCode ⟨some (p2sh hr), p2wpkh h, [], sigs⟩ = some (.WITNESS_V0, p2pkh h) := by
  have e : (p2wpkh h).length = 22 := by simp [p2wpkh, Gen.Spend.P2WPKH_PREFIX, hl]
  have e' : (p2sh hr).length = 23 := by simp [p2sh, Gen.Spend.P2SH_PREFIX, Gen.Spend.P2SH_SUFFIX, hrl]
  have h87 : (hr ++ [135])[20]? = some 135 := by
    rw [List.getElem?_append_right (by omega)]; simp [hrl]
  have hs : isP2sh (p2sh hr) = true := by
    simp [isP2sh, p2sh, Gen.Spend.P2SH_PREFIX, Gen.Spend.P2SH_SUFFIX, getB, List.getD, h87, hrl]
  have hns : isP2sh (p2wpkh h) = false := by simp [isP2sh, e]
  have hw : isP2wpkh (p2wpkh h) = true := by
    simp [isP2wpkh, p2wpkh, Gen.Spend.P2WPKH_PREFIX, getB, hl]
  have hd : (p2wpkh h).drop 2 = h := by simp [p2wpkh, Gen.Spend.P2WPKH_PREFIX]
  simp [ecdsaScriptCode, hs, hns, hw, hd]

/-- hence signer and engine compute the SAME digest for such an input: both are `bip143Digest` of the same script
    code, transaction, index, hash type and amount (the C09 model is shared) -/
theorem signer_digest_is_engine_digest_p2wpkh {α : Type} (C : Crypto α) (cx : TxCtx) (h : Bytes) (hl : h.length = 20)
    (ht : Nat) (sigs : List (Bytes × Bytes)) :
    ecdsaDigest C.hash256 ⟨some (p2wpkh h), [], [], sigs⟩ cx.amount cx.tx cx.nIn ht =
      some (engineEcdsaDigest C cx (p2pkh h) .WITNESS_V0 ht) := by
  have := (signer_script_code_p2wpkh h (List.replicate 20 0) hl (by simp) sigs).1
  simp [ecdsaDigest, this, engineEcdsaDigest]

/-! ## the composed checker accepts what `sign` makes: closure without an oracle hypothesis -/

/-- ECDSA: `DER(sign(challenge(digest the engine recomputes), q, k, low-s)) ‖ hash-type byte` passes the composed
    `CheckECDSASignature` for any SEC spelling of `q·G`, in every `Lawful` group (C02-T1 + DER round trip). -/
theorem sign_passes_checkECDSA {α G : Type} [AddCommGroup G] (C : Crypto α) (L : Lawful C.o G) (cx : TxCtx) (sc : Bytes)
    (sv : SigVersion) (ht : Nat) (hht : ht < 256) {q k r s kid : Int} (hk : 0 < k ∧ k < C.o.n)
    (pk : Bytes) (Q : α) (hp : C.parsePub pk = some Q) (hQ : L.abs Q = q • L.abs C.o.gen)
    (hsign : Ecdsa.signRecoverable C.o (Rfc6979.challenge C.o.n (engineEcdsaDigest C cx sc sv ht)) q k true =
      .ok (r, s, kid))
    (der : Bytes) (hder : Der.serialize r s = .ok der) (hmax : der.length ≤ Gen.VarInt.MAX_SIZE) :
    checkECDSA C cx (der ++ [UInt8.ofNat ht]) pk sc sv = .ok true :=
  Spend.sign_passes_checkECDSA C L cx sc sv ht hht hk pk Q hp hQ hsign der hder hmax

/-- BIP340: the 64 bytes of `ssa.sign_(message the engine recomputes, q)` followed by the hash-type byte unless DEFAULT
    pass the composed `CheckSchnorrSignature` for the x-only key of `q·G` (C03-T1 + the 64-byte codec); key path
    (`sv = TAPROOT`, `q` the tweaked key) and script path (`sv = TAPSCRIPT`, `q` the leaf key) alike. -/
theorem sign_passes_checkSchnorr {α G : Type} [AddCommGroup G] (C : Crypto α) (L : Lawful C.o G)
    (hps : C.prm.pSize = 32) (hns : C.prm.nSize = 32) (hp : C.o.p ≤ 2 ^ 256) (hn : C.o.n ≤ 2 ^ 256)
    (cx : TxCtx) (sv : SigVersion) (ht pos : Nat) (hht : ht < 256)
    (hdef : bip341Defined cx.tx cx.nIn cx.spent ht = true)
    (fuel : Nat) (q : Int) (aux : Bytes) (sg : Schnorr.Sig)
    (hsign : Schnorr.sign C.o C.prm fuel (engineTapDigest C cx sv ht pos) q aux = .ok sg)
    (sig64 : Bytes) (hser : Schnorr.serialize C.o C.prm sg = .ok sig64)
    (pubkey : Bytes) (hpk : ((ofBE pubkey : Nat) : Int) = C.o.x (C.o.mul q C.o.gen)) :
    checkSchnorr C cx (sig64 ++ (if ht = 0 then [] else [UInt8.ofNat ht])) pubkey sv pos = none :=
  Spend.sign_passes_checkSchnorr C L hps hns hp hn cx sv ht pos hht hdef fuel q aux sg hsign sig64 hser pubkey hpk

/-- T1 end to end (p2wpkh): in the COMPOSED engine (`Spend.envOf`: C08 evaluator, C09 digests, C02 verification) over any
    `Lawful` group, the finalizer's spend of a p2wpkh output with a signature the model's signer makes over the BIP143
    digest of THIS transaction is accepted under every flag set with WITNESS.  What is left as hypothesis is about bytes
    only: the program is the hash160 of the key and not "false", the key is compressed and parses to `q·G`, and the
    DER signature passes Core's encoding checks under these flags (BIP66 / low-s / defined hash type). -/
theorem closure_p2wpkh_signed {α G : Type} [AddCommGroup G] (C : Crypto α) (L : Lawful C.o G) (vk : Bytes → Bool)
    (flags : Nat) (cx : TxCtx) (h pk : Bytes) (Q : α) (ht : Nat) (hht : ht < 256) {q k r s kid : Int}
    (hl : h.length = 20) (hW : has flags FLAG_WITNESS = true) (hnz : castToBool h = true)
    (hh : C.ripemd160 (C.S pk) = h) (hpk : isCompressedPubKey pk = true)
    (hp : C.parsePub pk = some Q) (hQ : L.abs Q = q • L.abs C.o.gen) (hk : 0 < k ∧ k < C.o.n)
    (hsign : Ecdsa.signRecoverable C.o
      (Rfc6979.challenge C.o.n (engineEcdsaDigest C cx (p2pkh h) .WITNESS_V0 ht)) q k true = .ok (r, s, kid))
    (der : Bytes) (hder : Der.serialize r s = .ok der) (hmax : der.length ≤ Gen.VarInt.MAX_SIZE)
    (henc : checkSignatureEncoding flags (der ++ [UInt8.ofNat ht]) = .ok ()) (hslen : (der ++ [UInt8.ofNat ht]).length ≤ 520) :
    ∃ ss wit, finalizedInput vk ⟨some (p2wpkh h), [], [], [(pk, der ++ [UInt8.ofNat ht])]⟩ = .ok (ss, wit) ∧
      verifyScript (envOf C flags cx) ss (p2wpkh h) wit = .ok () :=
  closure_p2wpkh vk (envOf C flags cx) h _ pk hl hW hnz hh henc hslen hpk
    (Spend.sign_passes_checkECDSA C L cx (p2pkh h) .WITNESS_V0 ht hht hk pk Q hp hQ hsign der hder hmax)

/-! ### `_signed` corollaries: every closure above with the signature oracle DISCHARGED by the model's signer

`envOf C flags cx` is the composed engine (C08 evaluator, C09 digests, C02 / C03 verification) over any `Lawful` group.
Hypotheses left are about bytes: hash commitments, key encodings, `checkSignatureEncoding`, lengths. -/

/-- T1 end to end (p2pk). -/
theorem closure_p2pk_signed {α G : Type} [AddCommGroup G] (C : Crypto α) (L : Lawful C.o G) (vk : Bytes → Bool)
    (flags : Nat) (cx : TxCtx) (pk : Bytes) (Q : α) (ht : Nat) (hht : ht < 256) {q k r s kid : Int}
    (hpk : isCompressedPubKey pk = true) (hp : C.parsePub pk = some Q) (hQ : L.abs Q = q • L.abs C.o.gen)
    (hk : 0 < k ∧ k < C.o.n)
    (hsign : Ecdsa.signRecoverable C.o
      (Rfc6979.challenge C.o.n (engineEcdsaDigest C cx (p2pk pk) .BASE ht)) q k true = .ok (r, s, kid))
    (der : Bytes) (hder : Der.serialize r s = .ok der) (hmax : der.length ≤ Gen.VarInt.MAX_SIZE)
    (henc : checkSignatureEncoding flags (der ++ [UInt8.ofNat ht]) = .ok ())
    (hs2 : 2 ≤ (der ++ [UInt8.ofNat ht]).length) (hs : (der ++ [UInt8.ofNat ht]).length < 76)
    (hne : der ++ [UInt8.ofNat ht] ≠ pk) :
    ∃ ss wit, finalizedInput vk ⟨some (p2pk pk), [], [], [(pk, der ++ [UInt8.ofNat ht])]⟩ = .ok (ss, wit) ∧
      verifyScript (envOf C flags cx) ss (p2pk pk) wit = .ok () :=
  closure_p2pk vk (envOf C flags cx) _ pk henc hs2 hs hpk hne
    (Spend.sign_passes_checkECDSA C L cx (p2pk pk) .BASE ht hht hk pk Q hp hQ hsign der hder hmax)

/-- T1 end to end (p2pkh). -/
theorem closure_p2pkh_signed {α G : Type} [AddCommGroup G] (C : Crypto α) (L : Lawful C.o G) (vk : Bytes → Bool)
    (flags : Nat) (cx : TxCtx) (h pk : Bytes) (Q : α) (ht : Nat) (hht : ht < 256) {q k r s kid : Int}
    (hl : h.length = 20) (hh : C.ripemd160 (C.S pk) = h)
    (hpk : isCompressedPubKey pk = true) (hp : C.parsePub pk = some Q) (hQ : L.abs Q = q • L.abs C.o.gen)
    (hk : 0 < k ∧ k < C.o.n)
    (hsign : Ecdsa.signRecoverable C.o
      (Rfc6979.challenge C.o.n (engineEcdsaDigest C cx (p2pkh h) .BASE ht)) q k true = .ok (r, s, kid))
    (der : Bytes) (hder : Der.serialize r s = .ok der) (hmax : der.length ≤ Gen.VarInt.MAX_SIZE)
    (henc : checkSignatureEncoding flags (der ++ [UInt8.ofNat ht]) = .ok ())
    (hs2 : 2 ≤ (der ++ [UInt8.ofNat ht]).length) (hs : (der ++ [UInt8.ofNat ht]).length < 76)
    (hne : der ++ [UInt8.ofNat ht] ≠ h) :
    ∃ ss wit, finalizedInput vk ⟨some (p2pkh h), [], [], [(pk, der ++ [UInt8.ofNat ht])]⟩ = .ok (ss, wit) ∧
      verifyScript (envOf C flags cx) ss (p2pkh h) wit = .ok () :=
  closure_p2pkh vk (envOf C flags cx) h _ pk hl hh henc hs2 hs hpk hne
    (Spend.sign_passes_checkECDSA C L cx (p2pkh h) .BASE ht hht hk pk Q hp hQ hsign der hder hmax)

/-- T1 end to end (p2sh-p2wpkh). -/
theorem closure_p2sh_p2wpkh_signed {α G : Type} [AddCommGroup G] (C : Crypto α) (L : Lawful C.o G) (vk : Bytes → Bool)
    (flags : Nat) (cx : TxCtx) (h hr pk : Bytes) (Q : α) (ht : Nat) (hht : ht < 256) {q k r s kid : Int}
    (hl : h.length = 20) (hrl : hr.length = 20)
    (hP : has flags FLAG_P2SH = true) (hW : has flags FLAG_WITNESS = true) (hnz : castToBool h = true)
    (hhr : C.ripemd160 (C.S (p2wpkh h)) = hr) (hh : C.ripemd160 (C.S pk) = h)
    (hpk : isCompressedPubKey pk = true) (hp : C.parsePub pk = some Q) (hQ : L.abs Q = q • L.abs C.o.gen)
    (hk : 0 < k ∧ k < C.o.n)
    (hsign : Ecdsa.signRecoverable C.o
      (Rfc6979.challenge C.o.n (engineEcdsaDigest C cx (p2pkh h) .WITNESS_V0 ht)) q k true = .ok (r, s, kid))
    (der : Bytes) (hder : Der.serialize r s = .ok der) (hmax : der.length ≤ Gen.VarInt.MAX_SIZE)
    (henc : checkSignatureEncoding flags (der ++ [UInt8.ofNat ht]) = .ok ())
    (hslen : (der ++ [UInt8.ofNat ht]).length ≤ 520) :
    ∃ ss wit, finalizedInput vk ⟨some (p2sh hr), p2wpkh h, [], [(pk, der ++ [UInt8.ofNat ht])]⟩ = .ok (ss, wit) ∧
      verifyScript (envOf C flags cx) ss (p2sh hr) wit = .ok () :=
  closure_p2sh_p2wpkh vk (envOf C flags cx) h hr _ pk hl hrl hP hW hnz hhr hh henc hslen hpk
    (Spend.sign_passes_checkECDSA C L cx (p2pkh h) .WITNESS_V0 ht hht hk pk Q hp hQ hsign der hder hmax)

/-- a signature element the model's signer made for the key octets `pk`, over the engine's digest for `(sc, sv)` -/
def MadeBy {α G : Type} [AddCommGroup G] (C : Crypto α) (L : Lawful C.o G) (cx : TxCtx) (sc : Bytes) (sv : SigVersion)
    (sig pk : Bytes) : Prop :=
  ∃ (ht : Nat) (q k r s kid : Int) (Q : α) (der : Bytes), ht < 256 ∧ (0 < k ∧ k < C.o.n) ∧ C.parsePub pk = some Q ∧
    L.abs Q = q • L.abs C.o.gen ∧
    Ecdsa.signRecoverable C.o (Rfc6979.challenge C.o.n (engineEcdsaDigest C cx sc sv ht)) q k true = .ok (r, s, kid) ∧
    Der.serialize r s = .ok der ∧ der.length ≤ Gen.VarInt.MAX_SIZE ∧ sig = der ++ [UInt8.ofNat ht]

theorem aligned_mono {chk chk' : Bytes → Bytes → Prop} (h : ∀ s k, chk s k → chk' s k) {ss ks : List Bytes}
    (ha : Aligned chk ss ks) : Aligned chk' ss ks := by
  induction ha with
  | nil ks => exact .nil ks
  | take hc _ ih => exact .take (h _ _ hc) ih
  | skip _ ih => exact .skip ih

/-- T1 end to end (p2wsh k-of-n multisig): `k` signatures MADE BY the signer for a sub-list of the keys, in key order. -/
theorem closure_multisig_p2wsh_signed {α G : Type} [AddCommGroup G] (C : Crypto α) (L : Lawful C.o G)
    (flags : Nat) (cx : TxCtx) (h : Bytes) (keys sigs : List Bytes) (hl : h.length = 32)
    (hW : has flags FLAG_WITNESS = true) (hnz : castToBool h = true)
    (hh : C.S (multisig sigs.length keys) = h)
    (hn : 1 ≤ keys.length ∧ keys.length ≤ 16) (hk : 1 ≤ sigs.length ∧ sigs.length ≤ keys.length)
    (hkeys : ∀ x ∈ keys, isCompressedPubKey x = true) (hsl : ∀ s ∈ sigs, s.length ≤ 520)
    (hal : Aligned (MadeBy C L cx (multisig sigs.length keys) .WITNESS_V0) sigs keys)
    (henc : ∀ s ∈ sigs, checkSignatureEncoding flags s = .ok ()) :
    verifyScript (envOf C flags cx) [] (p2wsh h) (([] :: sigs) ++ [multisig sigs.length keys]) = .ok () :=
  closure_multisig_p2wsh (envOf C flags cx) h keys sigs hl hW hnz hh hn hk hkeys hsl
    (aligned_mono (fun sig pk ⟨ht, _, _, _, _, _, Q, der, hht, hk', hp, hQ, hsign, hder, hmax, e⟩ => by
      subst e
      exact Spend.sign_passes_checkECDSA C L cx _ .WITNESS_V0 ht hht hk' pk Q hp hQ hsign der hder hmax) hal)
    henc (fun s _ x _ => checkECDSA_total C cx s x _ _)

/-- T1 end to end (p2sh-p2wsh k-of-n multisig). -/
theorem closure_multisig_p2sh_p2wsh_signed {α G : Type} [AddCommGroup G] (C : Crypto α) (L : Lawful C.o G)
    (flags : Nat) (cx : TxCtx) (h hr : Bytes) (keys sigs : List Bytes) (hl : h.length = 32) (hrl : hr.length = 20)
    (hP : has flags FLAG_P2SH = true) (hW : has flags FLAG_WITNESS = true) (hnz : castToBool h = true)
    (hhr : C.ripemd160 (C.S (p2wsh h)) = hr) (hh : C.S (multisig sigs.length keys) = h)
    (hn : 1 ≤ keys.length ∧ keys.length ≤ 16) (hk : 1 ≤ sigs.length ∧ sigs.length ≤ keys.length)
    (hkeys : ∀ x ∈ keys, isCompressedPubKey x = true) (hsl : ∀ s ∈ sigs, s.length ≤ 520)
    (hal : Aligned (MadeBy C L cx (multisig sigs.length keys) .WITNESS_V0) sigs keys)
    (henc : ∀ s ∈ sigs, checkSignatureEncoding flags s = .ok ()) :
    verifyScript (envOf C flags cx) (serializePushes [p2wsh h]) (p2sh hr)
      (([] :: sigs) ++ [multisig sigs.length keys]) = .ok () :=
  closure_multisig_p2sh_p2wsh (envOf C flags cx) h hr keys sigs hl hrl hP hW hnz hhr hh hn hk hkeys hsl
    (aligned_mono (fun sig pk ⟨ht, _, _, _, _, _, Q, der, hht, hk', hp, hQ, hsign, hder, hmax, e⟩ => by
      subst e
      exact Spend.sign_passes_checkECDSA C L cx _ .WITNESS_V0 ht hht hk' pk Q hp hQ hsign der hder hmax) hal)
    henc (fun s _ x _ => checkECDSA_total C cx s x _ _)

/-- T1 end to end (bare k-of-n multisig); `hsc` (FindAndDelete finds no pushed signature) stays a hypothesis. -/
theorem closure_multisig_bare_signed {α G : Type} [AddCommGroup G] (C : Crypto α) (L : Lawful C.o G)
    (flags : Nat) (cx : TxCtx) (keys sigs : List Bytes)
    (hn : 1 ≤ keys.length ∧ keys.length ≤ 16) (hk : 1 ≤ sigs.length ∧ sigs.length ≤ keys.length)
    (hkeys : ∀ x ∈ keys, isCompressedPubKey x = true) (hs : ∀ s ∈ sigs, 2 ≤ s.length ∧ s.length ≤ 75)
    (hsc : multisigScriptCode (evalCtx (envOf C flags cx) .BASE (multisig sigs.length keys)) sigs.reverse
      (multisig sigs.length keys) = .ok (multisig sigs.length keys))
    (hal : Aligned (MadeBy C L cx (multisig sigs.length keys) .BASE) sigs keys)
    (henc : ∀ s ∈ sigs, checkSignatureEncoding flags s = .ok ()) :
    verifyScript (envOf C flags cx) (serializePushes ([] :: sigs)) (multisig sigs.length keys) [] = .ok () :=
  closure_multisig_bare (envOf C flags cx) keys sigs hn hk hkeys hs hsc
    (aligned_mono (fun sig pk ⟨ht, _, _, _, _, _, Q, der, hht, hk', hp, hQ, hsign, hder, hmax, e⟩ => by
      subst e
      exact Spend.sign_passes_checkECDSA C L cx _ .BASE ht hht hk' pk Q hp hQ hsign der hder hmax) hal)
    henc (fun s _ x _ => checkECDSA_total C cx s x _ _)

/-- T1 end to end (legacy p2sh k-of-n multisig, n ≤ 15); `hsc` stays a hypothesis. -/
theorem closure_multisig_p2sh_signed {α G : Type} [AddCommGroup G] (C : Crypto α) (L : Lawful C.o G)
    (flags : Nat) (cx : TxCtx) (hr : Bytes) (keys sigs : List Bytes) (hrl : hr.length = 20)
    (hP : has flags FLAG_P2SH = true) (hhr : C.ripemd160 (C.S (multisig sigs.length keys)) = hr)
    (hn : 1 ≤ keys.length ∧ keys.length ≤ 15) (hk : 1 ≤ sigs.length ∧ sigs.length ≤ keys.length)
    (hkeys : ∀ x ∈ keys, isCompressedPubKey x = true) (hs : ∀ s ∈ sigs, 2 ≤ s.length ∧ s.length ≤ 75)
    (hsc : multisigScriptCode (evalCtx (envOf C flags cx) .BASE (multisig sigs.length keys)) sigs.reverse
      (multisig sigs.length keys) = .ok (multisig sigs.length keys))
    (hal : Aligned (MadeBy C L cx (multisig sigs.length keys) .BASE) sigs keys)
    (henc : ∀ s ∈ sigs, checkSignatureEncoding flags s = .ok ()) :
    verifyScript (envOf C flags cx) (serializePushes (([] :: sigs) ++ [multisig sigs.length keys])) (p2sh hr) [] = .ok () :=
  closure_multisig_p2sh (envOf C flags cx) hr keys sigs hrl hP hhr hn hk hkeys hs hsc
    (aligned_mono (fun sig pk ⟨ht, _, _, _, _, _, Q, der, hht, hk', hp, hQ, hsign, hder, hmax, e⟩ => by
      subst e
      exact Spend.sign_passes_checkECDSA C L cx _ .BASE ht hht hk' pk Q hp hQ hsign der hder hmax) hal)
    henc (fun s _ x _ => checkECDSA_total C cx s x _ _)

/-- T1 end to end (taproot key path): the witness `[sig]` with `sig` = the 64 bytes of `ssa.sign_` by the (tweaked) key
    `q` over BIP341's key-path message of THIS transaction (+ hash-type byte unless DEFAULT), `prog` the 32-byte x-only
    key of `q·G` (the output key: C12 `key_agreement`). -/
theorem closure_taproot_key_signed {α G : Type} [AddCommGroup G] (C : Crypto α) (L : Lawful C.o G)
    (hps : C.prm.pSize = 32) (hns : C.prm.nSize = 32) (hp : C.o.p ≤ 2 ^ 256) (hn : C.o.n ≤ 2 ^ 256)
    (flags : Nat) (cx : TxCtx) (prog : Bytes) (ht : Nat) (hht : ht < 256)
    (hq : prog.length = 32) (hW : has flags FLAG_WITNESS = true) (hnz : castToBool prog = true)
    (hdef : bip341Defined cx.tx cx.nIn cx.spent ht = true)
    (fuel : Nat) (q : Int) (aux : Bytes) (sg : Schnorr.Sig)
    (hsign : Schnorr.sign C.o C.prm fuel (engineTapDigest C cx .TAPROOT ht 0xFFFFFFFF) q aux = .ok sg)
    (sig64 : Bytes) (hser : Schnorr.serialize C.o C.prm sg = .ok sig64)
    (hpk : ((ofBE prog : Nat) : Int) = C.o.x (C.o.mul q C.o.gen)) :
    verifyScript (envOf C flags cx) [] (p2tr prog) [sig64 ++ (if ht = 0 then [] else [UInt8.ofNat ht])] = .ok () :=
  verify_tr_key (envOf C flags cx) prog _ hq hW hnz
    (Spend.sign_passes_checkSchnorr C L hps hns hp hn cx .TAPROOT ht _ hht hdef fuel q aux sg hsign sig64 hser prog hpk)

/-- T1 end to end (taproot script path, single-key leaf): `sig` made by the LEAF key over BIP342's message. -/
theorem closure_taproot_pk_leaf_signed {α G : Type} [AddCommGroup G] (C : Crypto α) (L : Lawful C.o G)
    (hps : C.prm.pSize = 32) (hns : C.prm.nSize = 32) (hp : C.o.p ≤ 2 ^ 256) (hn : C.o.n ≤ 2 ^ 256)
    (flags : Nat) (cx : TxCtx) (prog x control : Bytes) (m ht : Nat) (hht : ht < 256)
    (hq : prog.length = 32) (hl : x.length = 32) (hW : has flags FLAG_WITNESS = true) (hnz : castToBool prog = true)
    (hcl : control.length = 33 + 32 * m) (hm : m ≤ 128) (hv : getB control 0 / 2 * 2 = 0xc0)
    (hcom : commitment C control prog (C.prm.TH "TapLeaf".toUTF8.toList
      (UInt8.ofNat 0xc0 :: (Core.compactSize (pkLeaf x).length ++ pkLeaf x))) = .ok true)
    (hdef : bip341Defined cx.tx cx.nIn cx.spent ht = true)
    (fuel : Nat) (q : Int) (aux : Bytes) (sg : Schnorr.Sig)
    (hsign : Schnorr.sign C.o C.prm fuel (engineTapDigest C cx .TAPSCRIPT ht 0xFFFFFFFF) q aux = .ok sg)
    (sig64 : Bytes) (hser : Schnorr.serialize C.o C.prm sg = .ok sig64)
    (hpk : ((ofBE x : Nat) : Int) = C.o.x (C.o.mul q C.o.gen)) :
    verifyScript (envOf C flags cx) [] (p2tr prog)
      [sig64 ++ (if ht = 0 then [] else [UInt8.ofNat ht]), pkLeaf x, control] = .ok () := by
  have h64 := Spend.serialize_length C hps hns sg sig64 hser
  refine closure_taproot_pk_leaf (envOf C flags cx) prog x _ control m hq hl hW hnz hcl hm hv ?_ ?_ hcom
    (Spend.sign_passes_checkSchnorr C L hps hns hp hn cx .TAPSCRIPT ht _ hht hdef fuel q aux sg hsign sig64 hser x hpk)
  · cases sig64 with
    | nil => simp at h64
    | cons _ _ => rfl
  · split <;> simp [h64]

/-! ### on the EXECUTED instance: `secpCrypto` = `Btc.EC.ops secp256k1` + SHA-256 / RIPEMD-160 / SHA-1 + BIP340's tagged
hash + C12's `point_from_octets` as `parsePub` (what `drv_c10` runs against btclib's engine).  No `Lawful` hypothesis and
nothing assumed about the curve: C02-T1 / C03-T1 on `Btc.EC.ops secp256k1` are the C01 capstone's (primality of p, n by
Pratt certificates). -/

/-- ECDSA on secp256k1: what `_sign_recoverable_` makes over the engine's digest passes the composed checker -/
theorem sign_passes_checkECDSA_secp256k1 (cx : TxCtx) (sc : Bytes) (sv : SigVersion) (ht : Nat) (hht : ht < 256)
    {q k r s kid : Int} (hk : 0 < k ∧ k < EC.secp256k1.n) (pk : Bytes)
    (hp : secpParsePub pk = some ((EC.ops EC.secp256k1).mul q EC.secp256k1.G))
    (hsign : Ecdsa.signRecoverable (EC.ops EC.secp256k1)
      (Rfc6979.challenge EC.secp256k1.n (engineEcdsaDigest secpCrypto cx sc sv ht)) q k true = .ok (r, s, kid))
    (der : Bytes) (hder : Der.serialize r s = .ok der) (hmax : der.length ≤ Gen.VarInt.MAX_SIZE) :
    checkECDSA secpCrypto cx (der ++ [UInt8.ofNat ht]) pk sc sv = .ok true :=
  Btc.E2E.sign_passes_checkECDSA_secp256k1 cx sc sv ht hht hk pk hp hsign der hder hmax

/-- BIP340 on secp256k1: what `ssa.sign_` makes over the engine's message passes the composed checker -/
theorem sign_passes_checkSchnorr_secp256k1 (cx : TxCtx) (sv : SigVersion) (ht pos : Nat) (hht : ht < 256)
    (hdef : bip341Defined cx.tx cx.nIn cx.spent ht = true)
    (fuel : Nat) (q : Int) (aux : Bytes) (sg : Schnorr.Sig)
    (hsign : Schnorr.sign (EC.ops EC.secp256k1) bip340Params fuel (engineTapDigest secpCrypto cx sv ht pos) q aux = .ok sg)
    (sig64 : Bytes) (hser : Schnorr.serialize (EC.ops EC.secp256k1) bip340Params sg = .ok sig64)
    (pubkey : Bytes)
    (hpk : ((ofBE pubkey : Nat) : Int) = (EC.ops EC.secp256k1).x ((EC.ops EC.secp256k1).mul q EC.secp256k1.G)) :
    checkSchnorr secpCrypto cx (sig64 ++ (if ht = 0 then [] else [UInt8.ofNat ht])) pubkey sv pos = none :=
  Btc.E2E.sign_passes_checkSchnorr_secp256k1 cx sv ht pos hht hdef fuel q aux sg hsign sig64 hser pubkey hpk

/-- **T1 end to end on secp256k1 (p2wpkh)**: sign with `Btc.EC.ops secp256k1` over the BIP143 digest of this transaction,
    DER-serialize, finalize, and the composed engine over the same arithmetic and real hashes accepts -- for every flag
    set with WITNESS.  Left as hypotheses: the program is hash160 of the key octets and not "false", the octets are a
    compressed encoding that reads back as `q·G`, and the signature bytes pass Core's encoding checks under these flags. -/
theorem closure_p2wpkh_secp256k1 (vk : Bytes → Bool) (flags : Nat) (cx : TxCtx) (h pk : Bytes) (ht : Nat) (hht : ht < 256)
    {q k r s kid : Int} (hl : h.length = 20) (hW : has flags FLAG_WITNESS = true) (hnz : castToBool h = true)
    (hh : ripemd160 (sha256 pk) = h) (hpk : isCompressedPubKey pk = true)
    (hp : secpParsePub pk = some ((EC.ops EC.secp256k1).mul q EC.secp256k1.G)) (hk : 0 < k ∧ k < EC.secp256k1.n)
    (hsign : Ecdsa.signRecoverable (EC.ops EC.secp256k1)
      (Rfc6979.challenge EC.secp256k1.n (engineEcdsaDigest secpCrypto cx (p2pkh h) .WITNESS_V0 ht)) q k true =
        .ok (r, s, kid))
    (der : Bytes) (hder : Der.serialize r s = .ok der) (hmax : der.length ≤ Gen.VarInt.MAX_SIZE)
    (henc : checkSignatureEncoding flags (der ++ [UInt8.ofNat ht]) = .ok ()) (hslen : (der ++ [UInt8.ofNat ht]).length ≤ 520) :
    ∃ ss wit, finalizedInput vk ⟨some (p2wpkh h), [], [], [(pk, der ++ [UInt8.ofNat ht])]⟩ = .ok (ss, wit) ∧
      verifyScript (envOf secpCrypto flags cx) ss (p2wpkh h) wit = .ok () :=
  closure_p2wpkh vk (envOf secpCrypto flags cx) h _ pk hl hW hnz hh henc hslen hpk
    (Btc.E2E.sign_passes_checkECDSA_secp256k1 cx (p2pkh h) .WITNESS_V0 ht hht hk pk hp hsign der hder hmax)

/-- **T1 end to end on secp256k1 (taproot key path)**: `ssa.sign_` with `Btc.EC.ops secp256k1` by the (tweaked) key `q` over
    BIP341's key-path message, the witness `[sig]`, and the composed engine accepts, for every flag set with WITNESS;
    `prog` is the 32-byte x-only key of `q·G`. -/
theorem closure_taproot_key_secp256k1 (flags : Nat) (cx : TxCtx) (prog : Bytes) (ht : Nat) (hht : ht < 256)
    (hq : prog.length = 32) (hW : has flags FLAG_WITNESS = true) (hnz : castToBool prog = true)
    (hdef : bip341Defined cx.tx cx.nIn cx.spent ht = true)
    (fuel : Nat) (q : Int) (aux : Bytes) (sg : Schnorr.Sig)
    (hsign : Schnorr.sign (EC.ops EC.secp256k1) bip340Params fuel
      (engineTapDigest secpCrypto cx .TAPROOT ht 0xFFFFFFFF) q aux = .ok sg)
    (sig64 : Bytes) (hser : Schnorr.serialize (EC.ops EC.secp256k1) bip340Params sg = .ok sig64)
    (hpk : ((ofBE prog : Nat) : Int) = (EC.ops EC.secp256k1).x ((EC.ops EC.secp256k1).mul q EC.secp256k1.G)) :
    verifyScript (envOf secpCrypto flags cx) [] (p2tr prog) [sig64 ++ (if ht = 0 then [] else [UInt8.ofNat ht])] = .ok () :=
  verify_tr_key (envOf secpCrypto flags cx) prog _ hq hW hnz
    (Btc.E2E.sign_passes_checkSchnorr_secp256k1 cx .TAPROOT ht _ hht hdef fuel q aux sg hsign sig64 hser prog hpk)

/-- **T1 end to end on secp256k1 (p2pk)**. -/
theorem closure_p2pk_secp256k1 (vk : Bytes → Bool) (flags : Nat) (cx : TxCtx) (pk : Bytes) (ht : Nat) (hht : ht < 256)
    {q k r s kid : Int} (hpk : isCompressedPubKey pk = true)
    (hp : secpParsePub pk = some ((EC.ops EC.secp256k1).mul q EC.secp256k1.G)) (hk : 0 < k ∧ k < EC.secp256k1.n)
    (hsign : Ecdsa.signRecoverable (EC.ops EC.secp256k1)
      (Rfc6979.challenge EC.secp256k1.n (engineEcdsaDigest secpCrypto cx (p2pk pk) .BASE ht)) q k true = .ok (r, s, kid))
    (der : Bytes) (hder : Der.serialize r s = .ok der) (hmax : der.length ≤ Gen.VarInt.MAX_SIZE)
    (henc : checkSignatureEncoding flags (der ++ [UInt8.ofNat ht]) = .ok ())
    (hs2 : 2 ≤ (der ++ [UInt8.ofNat ht]).length) (hs : (der ++ [UInt8.ofNat ht]).length < 76)
    (hne : der ++ [UInt8.ofNat ht] ≠ pk) :
    ∃ ss wit, finalizedInput vk ⟨some (p2pk pk), [], [], [(pk, der ++ [UInt8.ofNat ht])]⟩ = .ok (ss, wit) ∧
      verifyScript (envOf secpCrypto flags cx) ss (p2pk pk) wit = .ok () :=
  closure_p2pk vk (envOf secpCrypto flags cx) _ pk henc hs2 hs hpk hne
    (Btc.E2E.sign_passes_checkECDSA_secp256k1 cx (p2pk pk) .BASE ht hht hk pk hp hsign der hder hmax)

/-- **T1 end to end on secp256k1 (p2pkh)**. -/
theorem closure_p2pkh_secp256k1 (vk : Bytes → Bool) (flags : Nat) (cx : TxCtx) (h pk : Bytes) (ht : Nat) (hht : ht < 256)
    {q k r s kid : Int} (hl : h.length = 20) (hh : ripemd160 (sha256 pk) = h) (hpk : isCompressedPubKey pk = true)
    (hp : secpParsePub pk = some ((EC.ops EC.secp256k1).mul q EC.secp256k1.G)) (hk : 0 < k ∧ k < EC.secp256k1.n)
    (hsign : Ecdsa.signRecoverable (EC.ops EC.secp256k1)
      (Rfc6979.challenge EC.secp256k1.n (engineEcdsaDigest secpCrypto cx (p2pkh h) .BASE ht)) q k true = .ok (r, s, kid))
    (der : Bytes) (hder : Der.serialize r s = .ok der) (hmax : der.length ≤ Gen.VarInt.MAX_SIZE)
    (henc : checkSignatureEncoding flags (der ++ [UInt8.ofNat ht]) = .ok ())
    (hs2 : 2 ≤ (der ++ [UInt8.ofNat ht]).length) (hs : (der ++ [UInt8.ofNat ht]).length < 76)
    (hne : der ++ [UInt8.ofNat ht] ≠ h) :
    ∃ ss wit, finalizedInput vk ⟨some (p2pkh h), [], [], [(pk, der ++ [UInt8.ofNat ht])]⟩ = .ok (ss, wit) ∧
      verifyScript (envOf secpCrypto flags cx) ss (p2pkh h) wit = .ok () :=
  closure_p2pkh vk (envOf secpCrypto flags cx) h _ pk hl hh henc hs2 hs hpk hne
    (Btc.E2E.sign_passes_checkECDSA_secp256k1 cx (p2pkh h) .BASE ht hht hk pk hp hsign der hder hmax)

/-- **T1 end to end on secp256k1 (p2sh-p2wpkh)**. -/
theorem closure_p2sh_p2wpkh_secp256k1 (vk : Bytes → Bool) (flags : Nat) (cx : TxCtx) (h hr pk : Bytes) (ht : Nat)
    (hht : ht < 256) {q k r s kid : Int} (hl : h.length = 20) (hrl : hr.length = 20)
    (hP : has flags FLAG_P2SH = true) (hW : has flags FLAG_WITNESS = true) (hnz : castToBool h = true)
    (hhr : ripemd160 (sha256 (p2wpkh h)) = hr) (hh : ripemd160 (sha256 pk) = h) (hpk : isCompressedPubKey pk = true)
    (hp : secpParsePub pk = some ((EC.ops EC.secp256k1).mul q EC.secp256k1.G)) (hk : 0 < k ∧ k < EC.secp256k1.n)
    (hsign : Ecdsa.signRecoverable (EC.ops EC.secp256k1)
      (Rfc6979.challenge EC.secp256k1.n (engineEcdsaDigest secpCrypto cx (p2pkh h) .WITNESS_V0 ht)) q k true =
        .ok (r, s, kid))
    (der : Bytes) (hder : Der.serialize r s = .ok der) (hmax : der.length ≤ Gen.VarInt.MAX_SIZE)
    (henc : checkSignatureEncoding flags (der ++ [UInt8.ofNat ht]) = .ok ())
    (hslen : (der ++ [UInt8.ofNat ht]).length ≤ 520) :
    ∃ ss wit, finalizedInput vk ⟨some (p2sh hr), p2wpkh h, [], [(pk, der ++ [UInt8.ofNat ht])]⟩ = .ok (ss, wit) ∧
      verifyScript (envOf secpCrypto flags cx) ss (p2sh hr) wit = .ok () :=
  closure_p2sh_p2wpkh vk (envOf secpCrypto flags cx) h hr _ pk hl hrl hP hW hnz hhr hh henc hslen hpk
    (Btc.E2E.sign_passes_checkECDSA_secp256k1 cx (p2pkh h) .WITNESS_V0 ht hht hk pk hp hsign der hder hmax)

/-- a signature element made with `Btc.EC.ops secp256k1` for the key octets `pk`, over the engine's digest for `(sc, sv)` -/
def MadeBySecp (cx : TxCtx) (sc : Bytes) (sv : SigVersion) (sig pk : Bytes) : Prop :=
  ∃ (ht : Nat) (q k r s kid : Int) (der : Bytes), ht < 256 ∧ (0 < k ∧ k < EC.secp256k1.n) ∧
    secpParsePub pk = some ((EC.ops EC.secp256k1).mul q EC.secp256k1.G) ∧
    Ecdsa.signRecoverable (EC.ops EC.secp256k1)
      (Rfc6979.challenge EC.secp256k1.n (engineEcdsaDigest secpCrypto cx sc sv ht)) q k true = .ok (r, s, kid) ∧
    Der.serialize r s = .ok der ∧ der.length ≤ Gen.VarInt.MAX_SIZE ∧ sig = der ++ [UInt8.ofNat ht]

theorem madeBySecp_passes (cx : TxCtx) (sc : Bytes) (sv : SigVersion) (sig pk : Bytes) (h : MadeBySecp cx sc sv sig pk) :
    checkECDSA secpCrypto cx sig pk sc sv = .ok true := by
  obtain ⟨ht, _, _, _, _, _, der, hht, hk, hp, hsign, hder, hmax, e⟩ := h
  subst e
  exact Btc.E2E.sign_passes_checkECDSA_secp256k1 cx sc sv ht hht hk pk hp hsign der hder hmax

/-- **T1 end to end on secp256k1 (p2wsh k-of-n multisig)**. -/
theorem closure_multisig_p2wsh_secp256k1 (flags : Nat) (cx : TxCtx) (h : Bytes) (keys sigs : List Bytes)
    (hl : h.length = 32) (hW : has flags FLAG_WITNESS = true) (hnz : castToBool h = true)
    (hh : sha256 (multisig sigs.length keys) = h)
    (hn : 1 ≤ keys.length ∧ keys.length ≤ 16) (hk : 1 ≤ sigs.length ∧ sigs.length ≤ keys.length)
    (hkeys : ∀ x ∈ keys, isCompressedPubKey x = true) (hsl : ∀ s ∈ sigs, s.length ≤ 520)
    (hal : Aligned (MadeBySecp cx (multisig sigs.length keys) .WITNESS_V0) sigs keys)
    (henc : ∀ s ∈ sigs, checkSignatureEncoding flags s = .ok ()) :
    verifyScript (envOf secpCrypto flags cx) [] (p2wsh h) (([] :: sigs) ++ [multisig sigs.length keys]) = .ok () :=
  closure_multisig_p2wsh (envOf secpCrypto flags cx) h keys sigs hl hW hnz hh hn hk hkeys hsl
    (aligned_mono (fun sig pk hm => madeBySecp_passes cx _ _ sig pk hm) hal)
    henc (fun s _ x _ => checkECDSA_total secpCrypto cx s x _ _)

/-- **T1 end to end on secp256k1 (p2sh-p2wsh k-of-n multisig)**. -/
theorem closure_multisig_p2sh_p2wsh_secp256k1 (flags : Nat) (cx : TxCtx) (h hr : Bytes) (keys sigs : List Bytes)
    (hl : h.length = 32) (hrl : hr.length = 20)
    (hP : has flags FLAG_P2SH = true) (hW : has flags FLAG_WITNESS = true) (hnz : castToBool h = true)
    (hhr : ripemd160 (sha256 (p2wsh h)) = hr) (hh : sha256 (multisig sigs.length keys) = h)
    (hn : 1 ≤ keys.length ∧ keys.length ≤ 16) (hk : 1 ≤ sigs.length ∧ sigs.length ≤ keys.length)
    (hkeys : ∀ x ∈ keys, isCompressedPubKey x = true) (hsl : ∀ s ∈ sigs, s.length ≤ 520)
    (hal : Aligned (MadeBySecp cx (multisig sigs.length keys) .WITNESS_V0) sigs keys)
    (henc : ∀ s ∈ sigs, checkSignatureEncoding flags s = .ok ()) :
    verifyScript (envOf secpCrypto flags cx) (serializePushes [p2wsh h]) (p2sh hr)
      (([] :: sigs) ++ [multisig sigs.length keys]) = .ok () :=
  closure_multisig_p2sh_p2wsh (envOf secpCrypto flags cx) h hr keys sigs hl hrl hP hW hnz hhr hh hn hk hkeys hsl
    (aligned_mono (fun sig pk hm => madeBySecp_passes cx _ _ sig pk hm) hal)
    henc (fun s _ x _ => checkECDSA_total secpCrypto cx s x _ _)

/-- **T1 end to end on secp256k1 (bare k-of-n multisig)**; `hsc` (FindAndDelete finds no pushed signature) stays. -/
theorem closure_multisig_bare_secp256k1 (flags : Nat) (cx : TxCtx) (keys sigs : List Bytes)
    (hn : 1 ≤ keys.length ∧ keys.length ≤ 16) (hk : 1 ≤ sigs.length ∧ sigs.length ≤ keys.length)
    (hkeys : ∀ x ∈ keys, isCompressedPubKey x = true) (hs : ∀ s ∈ sigs, 2 ≤ s.length ∧ s.length ≤ 75)
    (hsc : multisigScriptCode (evalCtx (envOf secpCrypto flags cx) .BASE (multisig sigs.length keys)) sigs.reverse
      (multisig sigs.length keys) = .ok (multisig sigs.length keys))
    (hal : Aligned (MadeBySecp cx (multisig sigs.length keys) .BASE) sigs keys)
    (henc : ∀ s ∈ sigs, checkSignatureEncoding flags s = .ok ()) :
    verifyScript (envOf secpCrypto flags cx) (serializePushes ([] :: sigs)) (multisig sigs.length keys) [] = .ok () :=
  closure_multisig_bare (envOf secpCrypto flags cx) keys sigs hn hk hkeys hs hsc
    (aligned_mono (fun sig pk hm => madeBySecp_passes cx _ _ sig pk hm) hal)
    henc (fun s _ x _ => checkECDSA_total secpCrypto cx s x _ _)

/-- **T1 end to end on secp256k1 (legacy p2sh k-of-n multisig, n ≤ 15)**; `hsc` stays. -/
theorem closure_multisig_p2sh_secp256k1 (flags : Nat) (cx : TxCtx) (hr : Bytes) (keys sigs : List Bytes)
    (hrl : hr.length = 20) (hP : has flags FLAG_P2SH = true)
    (hhr : ripemd160 (sha256 (multisig sigs.length keys)) = hr)
    (hn : 1 ≤ keys.length ∧ keys.length ≤ 15) (hk : 1 ≤ sigs.length ∧ sigs.length ≤ keys.length)
    (hkeys : ∀ x ∈ keys, isCompressedPubKey x = true) (hs : ∀ s ∈ sigs, 2 ≤ s.length ∧ s.length ≤ 75)
    (hsc : multisigScriptCode (evalCtx (envOf secpCrypto flags cx) .BASE (multisig sigs.length keys)) sigs.reverse
      (multisig sigs.length keys) = .ok (multisig sigs.length keys))
    (hal : Aligned (MadeBySecp cx (multisig sigs.length keys) .BASE) sigs keys)
    (henc : ∀ s ∈ sigs, checkSignatureEncoding flags s = .ok ()) :
    verifyScript (envOf secpCrypto flags cx) (serializePushes (([] :: sigs) ++ [multisig sigs.length keys])) (p2sh hr) [] =
      .ok () :=
  closure_multisig_p2sh (envOf secpCrypto flags cx) hr keys sigs hrl hP hhr hn hk hkeys hs hsc
    (aligned_mono (fun sig pk hm => madeBySecp_passes cx _ _ sig pk hm) hal)
    henc (fun s _ x _ => checkECDSA_total secpCrypto cx s x _ _)

/-- **T1 end to end on secp256k1 (taproot script path, single-key leaf)**: `sig` made by the LEAF key `q` (x-only `x`)
    over BIP342's message; control-block acceptance (`hcom`) is C12's. -/
theorem closure_taproot_pk_leaf_secp256k1 (flags : Nat) (cx : TxCtx) (prog x control : Bytes) (m ht : Nat) (hht : ht < 256)
    (hq : prog.length = 32) (hl : x.length = 32) (hW : has flags FLAG_WITNESS = true) (hnz : castToBool prog = true)
    (hcl : control.length = 33 + 32 * m) (hm : m ≤ 128) (hv : getB control 0 / 2 * 2 = 0xc0)
    (hcom : commitment secpCrypto control prog (taggedHash "TapLeaf".toUTF8.toList
      (UInt8.ofNat 0xc0 :: (Core.compactSize (pkLeaf x).length ++ pkLeaf x))) = .ok true)
    (hdef : bip341Defined cx.tx cx.nIn cx.spent ht = true)
    (fuel : Nat) (q : Int) (aux : Bytes) (sg : Schnorr.Sig)
    (hsign : Schnorr.sign (EC.ops EC.secp256k1) bip340Params fuel
      (engineTapDigest secpCrypto cx .TAPSCRIPT ht 0xFFFFFFFF) q aux = .ok sg)
    (sig64 : Bytes) (hser : Schnorr.serialize (EC.ops EC.secp256k1) bip340Params sg = .ok sig64)
    (hpk : ((ofBE x : Nat) : Int) = (EC.ops EC.secp256k1).x ((EC.ops EC.secp256k1).mul q EC.secp256k1.G)) :
    verifyScript (envOf secpCrypto flags cx) [] (p2tr prog)
      [sig64 ++ (if ht = 0 then [] else [UInt8.ofNat ht]), pkLeaf x, control] = .ok () := by
  have h64 := Spend.serialize_length secpCrypto rfl rfl sg sig64 hser
  refine closure_taproot_pk_leaf (envOf secpCrypto flags cx) prog x _ control m hq hl hW hnz hcl hm hv ?_ ?_ hcom
    (Btc.E2E.sign_passes_checkSchnorr_secp256k1 cx .TAPSCRIPT ht _ hht hdef fuel q aux sg hsign sig64 hser x hpk)
  · cases sig64 with
    | nil => simp at h64
    | cons _ _ => rfl
  · split <;> simp [h64]

/-! ### the six wrapped shapes on the executed instance -/

/-- **T1 end to end on secp256k1 (wsh(pk))**. -/
theorem closure_wsh_pk_secp256k1 (vk : Bytes → Bool) (flags : Nat) (cx : TxCtx) (h pk : Bytes) (ht : Nat) (hht : ht < 256)
    {q k r s kid : Int} (hl : h.length = 32) (hW : has flags FLAG_WITNESS = true) (hnz : castToBool h = true)
    (hh : sha256 (p2pk pk) = h)
    (hpk : isCompressedPubKey pk = true)
    (hp : secpParsePub pk = some ((EC.ops EC.secp256k1).mul q EC.secp256k1.G)) (hk : 0 < k ∧ k < EC.secp256k1.n)
    (hsign : Ecdsa.signRecoverable (EC.ops EC.secp256k1)
      (Rfc6979.challenge EC.secp256k1.n (engineEcdsaDigest secpCrypto cx (p2pk pk) .WITNESS_V0 ht)) q k true = .ok (r, s, kid))
    (der : Bytes) (hder : Der.serialize r s = .ok der) (hmax : der.length ≤ Gen.VarInt.MAX_SIZE)
    (henc : checkSignatureEncoding flags (der ++ [UInt8.ofNat ht]) = .ok ())
    (hslen : (der ++ [UInt8.ofNat ht]).length ≤ 520) :
    ∃ ss wit, finalizedInput vk ⟨some (p2wsh h), [], p2pk pk, [(pk, der ++ [UInt8.ofNat ht])]⟩ = .ok (ss, wit) ∧
      verifyScript (envOf secpCrypto flags cx) ss (p2wsh h) wit = .ok () :=
  closure_wsh_pk vk (envOf secpCrypto flags cx) h _ pk hl hW hnz hh henc hslen hpk
    (Btc.E2E.sign_passes_checkECDSA_secp256k1 cx (p2pk pk) .WITNESS_V0 ht hht hk pk hp hsign der hder hmax)

/-- **T1 end to end on secp256k1 (sh(wsh(pk)))**. -/
theorem closure_sh_wsh_pk_secp256k1 (vk : Bytes → Bool) (flags : Nat) (cx : TxCtx) (h hr pk : Bytes) (ht : Nat) (hht : ht < 256)
    {q k r s kid : Int} (hl : h.length = 32) (hrl : hr.length = 20) (hP : has flags FLAG_P2SH = true)
    (hW : has flags FLAG_WITNESS = true) (hnz : castToBool h = true)
    (hhr : ripemd160 (sha256 (p2wsh h)) = hr) (hh : sha256 (p2pk pk) = h)
    (hpk : isCompressedPubKey pk = true)
    (hp : secpParsePub pk = some ((EC.ops EC.secp256k1).mul q EC.secp256k1.G)) (hk : 0 < k ∧ k < EC.secp256k1.n)
    (hsign : Ecdsa.signRecoverable (EC.ops EC.secp256k1)
      (Rfc6979.challenge EC.secp256k1.n (engineEcdsaDigest secpCrypto cx (p2pk pk) .WITNESS_V0 ht)) q k true = .ok (r, s, kid))
    (der : Bytes) (hder : Der.serialize r s = .ok der) (hmax : der.length ≤ Gen.VarInt.MAX_SIZE)
    (henc : checkSignatureEncoding flags (der ++ [UInt8.ofNat ht]) = .ok ())
    (hslen : (der ++ [UInt8.ofNat ht]).length ≤ 520) :
    ∃ ss wit, finalizedInput vk ⟨some (p2sh hr), p2wsh h, p2pk pk, [(pk, der ++ [UInt8.ofNat ht])]⟩ = .ok (ss, wit) ∧
      verifyScript (envOf secpCrypto flags cx) ss (p2sh hr) wit = .ok () :=
  closure_sh_wsh_pk vk (envOf secpCrypto flags cx) h hr _ pk hl hrl hP hW hnz hhr hh henc hslen hpk
    (Btc.E2E.sign_passes_checkECDSA_secp256k1 cx (p2pk pk) .WITNESS_V0 ht hht hk pk hp hsign der hder hmax)

/-- **T1 end to end on secp256k1 (sh(pk))**. -/
theorem closure_sh_pk_secp256k1 (vk : Bytes → Bool) (flags : Nat) (cx : TxCtx) (hr pk : Bytes) (ht : Nat) (hht : ht < 256)
    {q k r s kid : Int} (hrl : hr.length = 20) (hP : has flags FLAG_P2SH = true)
    (hhr : ripemd160 (sha256 (p2pk pk)) = hr)
    (hpk : isCompressedPubKey pk = true)
    (hp : secpParsePub pk = some ((EC.ops EC.secp256k1).mul q EC.secp256k1.G)) (hk : 0 < k ∧ k < EC.secp256k1.n)
    (hsign : Ecdsa.signRecoverable (EC.ops EC.secp256k1)
      (Rfc6979.challenge EC.secp256k1.n (engineEcdsaDigest secpCrypto cx (p2pk pk) .BASE ht)) q k true = .ok (r, s, kid))
    (der : Bytes) (hder : Der.serialize r s = .ok der) (hmax : der.length ≤ Gen.VarInt.MAX_SIZE)
    (henc : checkSignatureEncoding flags (der ++ [UInt8.ofNat ht]) = .ok ())
    (hs2 : 2 ≤ (der ++ [UInt8.ofNat ht]).length) (hs : (der ++ [UInt8.ofNat ht]).length < 76)
    (hne : der ++ [UInt8.ofNat ht] ≠ pk) :
    ∃ ss wit, finalizedInput vk ⟨some (p2sh hr), p2pk pk, [], [(pk, der ++ [UInt8.ofNat ht])]⟩ = .ok (ss, wit) ∧
      verifyScript (envOf secpCrypto flags cx) ss (p2sh hr) wit = .ok () :=
  closure_sh_pk vk (envOf secpCrypto flags cx) hr _ pk hrl hP hhr henc hs2 hs hpk hne
    (Btc.E2E.sign_passes_checkECDSA_secp256k1 cx (p2pk pk) .BASE ht hht hk pk hp hsign der hder hmax)

/-- **T1 end to end on secp256k1 (wsh(pkh))**. -/
theorem closure_wsh_pkh_secp256k1 (vk : Bytes → Bool) (flags : Nat) (cx : TxCtx) (h h20 pk : Bytes) (ht : Nat) (hht : ht < 256)
    {q k r s kid : Int} (hl : h.length = 32) (hl20 : h20.length = 20) (hW : has flags FLAG_WITNESS = true)
    (hnz : castToBool h = true) (hh : sha256 (p2pkh h20) = h) (hh20 : ripemd160 (sha256 pk) = h20)
    (hpk : isCompressedPubKey pk = true)
    (hp : secpParsePub pk = some ((EC.ops EC.secp256k1).mul q EC.secp256k1.G)) (hk : 0 < k ∧ k < EC.secp256k1.n)
    (hsign : Ecdsa.signRecoverable (EC.ops EC.secp256k1)
      (Rfc6979.challenge EC.secp256k1.n (engineEcdsaDigest secpCrypto cx (p2pkh h20) .WITNESS_V0 ht)) q k true = .ok (r, s, kid))
    (der : Bytes) (hder : Der.serialize r s = .ok der) (hmax : der.length ≤ Gen.VarInt.MAX_SIZE)
    (henc : checkSignatureEncoding flags (der ++ [UInt8.ofNat ht]) = .ok ())
    (hslen : (der ++ [UInt8.ofNat ht]).length ≤ 520) :
    ∃ ss wit, finalizedInput vk ⟨some (p2wsh h), [], p2pkh h20, [(pk, der ++ [UInt8.ofNat ht])]⟩ = .ok (ss, wit) ∧
      verifyScript (envOf secpCrypto flags cx) ss (p2wsh h) wit = .ok () :=
  closure_wsh_pkh vk (envOf secpCrypto flags cx) h h20 _ pk hl hl20 hW hnz hh hh20 henc hslen hpk
    (Btc.E2E.sign_passes_checkECDSA_secp256k1 cx (p2pkh h20) .WITNESS_V0 ht hht hk pk hp hsign der hder hmax)

/-- **T1 end to end on secp256k1 (sh(wsh(pkh)))**. -/
theorem closure_sh_wsh_pkh_secp256k1 (vk : Bytes → Bool) (flags : Nat) (cx : TxCtx) (h hr h20 pk : Bytes) (ht : Nat) (hht : ht < 256)
    {q k r s kid : Int} (hl : h.length = 32) (hrl : hr.length = 20) (hl20 : h20.length = 20)
    (hP : has flags FLAG_P2SH = true) (hW : has flags FLAG_WITNESS = true) (hnz : castToBool h = true)
    (hhr : ripemd160 (sha256 (p2wsh h)) = hr) (hh : sha256 (p2pkh h20) = h) (hh20 : ripemd160 (sha256 pk) = h20)
    (hpk : isCompressedPubKey pk = true)
    (hp : secpParsePub pk = some ((EC.ops EC.secp256k1).mul q EC.secp256k1.G)) (hk : 0 < k ∧ k < EC.secp256k1.n)
    (hsign : Ecdsa.signRecoverable (EC.ops EC.secp256k1)
      (Rfc6979.challenge EC.secp256k1.n (engineEcdsaDigest secpCrypto cx (p2pkh h20) .WITNESS_V0 ht)) q k true = .ok (r, s, kid))
    (der : Bytes) (hder : Der.serialize r s = .ok der) (hmax : der.length ≤ Gen.VarInt.MAX_SIZE)
    (henc : checkSignatureEncoding flags (der ++ [UInt8.ofNat ht]) = .ok ())
    (hslen : (der ++ [UInt8.ofNat ht]).length ≤ 520) :
    ∃ ss wit, finalizedInput vk ⟨some (p2sh hr), p2wsh h, p2pkh h20, [(pk, der ++ [UInt8.ofNat ht])]⟩ = .ok (ss, wit) ∧
      verifyScript (envOf secpCrypto flags cx) ss (p2sh hr) wit = .ok () :=
  closure_sh_wsh_pkh vk (envOf secpCrypto flags cx) h hr h20 _ pk hl hrl hl20 hP hW hnz hhr hh hh20 henc hslen hpk
    (Btc.E2E.sign_passes_checkECDSA_secp256k1 cx (p2pkh h20) .WITNESS_V0 ht hht hk pk hp hsign der hder hmax)

/-- **T1 end to end on secp256k1 (sh(pkh))**. -/
theorem closure_sh_pkh_secp256k1 (vk : Bytes → Bool) (flags : Nat) (cx : TxCtx) (hr h20 pk : Bytes) (ht : Nat) (hht : ht < 256)
    {q k r s kid : Int} (hrl : hr.length = 20) (hl20 : h20.length = 20) (hP : has flags FLAG_P2SH = true)
    (hhr : ripemd160 (sha256 (p2pkh h20)) = hr) (hh20 : ripemd160 (sha256 pk) = h20)
    (hpk : isCompressedPubKey pk = true)
    (hp : secpParsePub pk = some ((EC.ops EC.secp256k1).mul q EC.secp256k1.G)) (hk : 0 < k ∧ k < EC.secp256k1.n)
    (hsign : Ecdsa.signRecoverable (EC.ops EC.secp256k1)
      (Rfc6979.challenge EC.secp256k1.n (engineEcdsaDigest secpCrypto cx (p2pkh h20) .BASE ht)) q k true = .ok (r, s, kid))
    (der : Bytes) (hder : Der.serialize r s = .ok der) (hmax : der.length ≤ Gen.VarInt.MAX_SIZE)
    (henc : checkSignatureEncoding flags (der ++ [UInt8.ofNat ht]) = .ok ())
    (hs2 : 2 ≤ (der ++ [UInt8.ofNat ht]).length) (hs : (der ++ [UInt8.ofNat ht]).length < 76)
    (hne : der ++ [UInt8.ofNat ht] ≠ h20) :
    ∃ ss wit, finalizedInput vk ⟨some (p2sh hr), p2pkh h20, [], [(pk, der ++ [UInt8.ofNat ht])]⟩ = .ok (ss, wit) ∧
      verifyScript (envOf secpCrypto flags cx) ss (p2sh hr) wit = .ok () :=
  closure_sh_pkh vk (envOf secpCrypto flags cx) hr h20 _ pk hrl hl20 hP hhr hh20 henc hs2 hs hpk hne
    (Btc.E2E.sign_passes_checkECDSA_secp256k1 cx (p2pkh h20) .BASE ht hht hk pk hp hsign der hder hmax)

/-! ### wsh(miniscript), per template (NO general bridge to C15's satisfier yet)

What is missing for "C15.satisfy output, laid out by the finalizer, is accepted by verifyScript" in general is a REFINEMENT
lemma between C15's evaluator (over which C15 proves `satisfy` sound: T3 / T4) and C08's engine:
`C15.eval (compile f) stack = accept → Core.evalWith (evalCtx env sv (compile f)) stack = .ok [[1]]` for every fragment of
the covered set under every flag set (C15's opcode semantics refines `Core.step`, incl. MINIMALIF, NULLFAIL, the push-size
and op-count limits).  With it `verify_p2wsh_of` / `verify_p2sh_p2wsh_of` / `verify_tr_script_of` -- generic in the script,
proved -- give wsh / sh(wsh) / tapleaf closures for the whole set at once.  Until then: three templates evaluated directly in
C08's engine (and_v(v:pk,pk), or_d(pk,pkh) with both satisfactions, and_v(v:pk,older(n)) for the OP_n spelling). -/

/-- T1 (wsh(and_v(v:pk(A),pk(B)))): witness `[sig_B, sig_A, <A> CHECKSIGVERIFY <B> CHECKSIG]` -- the satisfaction
    `sat(Y) sat(X)` of and_v -- is accepted under every flag set with WITNESS. -/
theorem closure_wsh_andv_pk_pk (env : VerifyEnv) (h a b sa sb : Bytes) (hl : h.length = 32)
    (hW : has env.flags FLAG_WITNESS = true) (hnz : castToBool h = true)
    (hh : env.hashes.sha256 (andvPkPk a b) = h)
    (hea : checkSignatureEncoding env.flags sa = .ok ()) (heb : checkSignatureEncoding env.flags sb = .ok ())
    (hla : sa.length ≤ 520) (hlb : sb.length ≤ 520)
    (hka : isCompressedPubKey a = true) (hkb : isCompressedPubKey b = true)
    (hsa : env.checker.checkECDSA sa a (andvPkPk a b) .WITNESS_V0 = .ok true)
    (hsb : env.checker.checkECDSA sb b (andvPkPk a b) .WITNESS_V0 = .ok true) :
    verifyScript env [] (p2wsh h) [sb, sa, andvPkPk a b] = .ok () :=
  verify_wsh_andvPkPk env h a b sa sb hl hW hnz hh hea heb hla hlb hka hkb hsa hsb

/-- **T1 end to end on secp256k1 (wsh(and_v(v:pk(A),pk(B))))**: both signatures MADE by their keys over the BIP143 digest
    with the whole witness script as script code. -/
theorem closure_wsh_andv_pk_pk_secp256k1 (flags : Nat) (cx : TxCtx) (h a b sa sb : Bytes) (hl : h.length = 32)
    (hW : has flags FLAG_WITNESS = true) (hnz : castToBool h = true)
    (hh : sha256 (andvPkPk a b) = h)
    (hea : checkSignatureEncoding flags sa = .ok ()) (heb : checkSignatureEncoding flags sb = .ok ())
    (hla : sa.length ≤ 520) (hlb : sb.length ≤ 520)
    (hka : isCompressedPubKey a = true) (hkb : isCompressedPubKey b = true)
    (hsa : MadeBySecp cx (andvPkPk a b) .WITNESS_V0 sa a) (hsb : MadeBySecp cx (andvPkPk a b) .WITNESS_V0 sb b) :
    verifyScript (envOf secpCrypto flags cx) [] (p2wsh h) [sb, sa, andvPkPk a b] = .ok () :=
  closure_wsh_andv_pk_pk (envOf secpCrypto flags cx) h a b sa sb hl hW hnz hh hea heb hla hlb hka hkb
    (madeBySecp_passes cx _ _ sa a hsa) (madeBySecp_passes cx _ _ sb b hsb)

/-- T1 (wsh(or_d(pk(A),pkh(B)))), left satisfaction `[sig_A]`: the IFDUP / NOTIF branch is skipped. -/
theorem closure_wsh_ord_pk_pkh_left (env : VerifyEnv) (h a hb sa : Bytes) (hl : h.length = 32) (hlb : hb.length = 20)
    (hW : has env.flags FLAG_WITNESS = true) (hnz : castToBool h = true)
    (hh : env.hashes.sha256 (ordPkPkh a hb) = h)
    (hea : checkSignatureEncoding env.flags sa = .ok ()) (hla : sa.length ≤ 520)
    (hka : isCompressedPubKey a = true)
    (hsa : env.checker.checkECDSA sa a (ordPkPkh a hb) .WITNESS_V0 = .ok true) :
    verifyScript env [] (p2wsh h) [sa, ordPkPkh a hb] = .ok () :=
  verify_wsh_ordPkPkh_left env h a hb sa hl hlb hW hnz hh hea hla hka hsa

/-- T1 (wsh(or_d(pk(A),pkh(B)))), right satisfaction `[sig_B, pk_B, <empty>]`: the empty signature dissatisfies
    `pk(A)` (no NULLFAIL violation), NOTIF runs the p2pkh branch; `hb` is the hash160 of `pk_B`. -/
theorem closure_wsh_ord_pk_pkh_right (env : VerifyEnv) (h a hb b sb : Bytes) (hl : h.length = 32) (hlb : hb.length = 20)
    (hW : has env.flags FLAG_WITNESS = true) (hnz : castToBool h = true)
    (hh : env.hashes.sha256 (ordPkPkh a hb) = h) (hhb : env.hashes.ripemd160 (env.hashes.sha256 b) = hb)
    (heb : checkSignatureEncoding env.flags sb = .ok ()) (hsl : sb.length ≤ 520)
    (hka : isCompressedPubKey a = true) (hkb : isCompressedPubKey b = true)
    (hsa : env.checker.checkECDSA [] a (ordPkPkh a hb) .WITNESS_V0 = .ok false)
    (hsb : env.checker.checkECDSA sb b (ordPkPkh a hb) .WITNESS_V0 = .ok true) :
    verifyScript env [] (p2wsh h) [sb, b, [], ordPkPkh a hb] = .ok () :=
  verify_wsh_ordPkPkh_right env h a hb b sb hl hlb hW hnz hh hhb heb hsl hka hkb hsa hsb

/-- the composed checker answers `false` (not an error) on the empty signature -/
theorem checkECDSA_empty_sig {α : Type} (C : Crypto α) (cx : TxCtx) (pk sc : Bytes) (sv : SigVersion) :
    checkECDSA C cx [] pk sc sv = .ok false := by
  unfold checkECDSA
  cases C.parsePub pk <;> simp

/-- **T1 end to end on secp256k1 (wsh(or_d(pk(A),pkh(B))))**, both satisfactions. -/
theorem closure_wsh_ord_pk_pkh_secp256k1 (flags : Nat) (cx : TxCtx) (h a hb : Bytes) (hl : h.length = 32)
    (hlb : hb.length = 20) (hW : has flags FLAG_WITNESS = true) (hnz : castToBool h = true)
    (hh : sha256 (ordPkPkh a hb) = h) (hka : isCompressedPubKey a = true) :
    (∀ sa, checkSignatureEncoding flags sa = .ok () → sa.length ≤ 520 → MadeBySecp cx (ordPkPkh a hb) .WITNESS_V0 sa a →
      verifyScript (envOf secpCrypto flags cx) [] (p2wsh h) [sa, ordPkPkh a hb] = .ok ()) ∧
    (∀ b sb, ripemd160 (sha256 b) = hb → isCompressedPubKey b = true → checkSignatureEncoding flags sb = .ok () →
      sb.length ≤ 520 → MadeBySecp cx (ordPkPkh a hb) .WITNESS_V0 sb b →
      verifyScript (envOf secpCrypto flags cx) [] (p2wsh h) [sb, b, [], ordPkPkh a hb] = .ok ()) :=
  ⟨fun sa hea hla hm => closure_wsh_ord_pk_pkh_left (envOf secpCrypto flags cx) h a hb sa hl hlb hW hnz hh hea hla hka
      (madeBySecp_passes cx _ _ sa a hm),
   fun b sb hhb hkb heb hsl hm => closure_wsh_ord_pk_pkh_right (envOf secpCrypto flags cx) h a hb b sb hl hlb hW hnz hh hhb
      heb hsl hka hkb (checkECDSA_empty_sig secpCrypto cx a (ordPkPkh a hb) .WITNESS_V0) (madeBySecp_passes cx _ _ sb b hm)⟩

/-- T1 (wsh(and_v(v:pk(A),older(n))), `1 ≤ n ≤ 16`: the `OP_n` spelling): witness `[sig_A, script]`, given BIP112's
    comparison holds for this input when CHECKSEQUENCEVERIFY is enforced (`checkSequence`: version ≥ 2, disable bit
    clear, same unit, sequence ≥ n). -/
theorem closure_wsh_andv_pk_older (env : VerifyEnv) (h a sa : Bytes) (n : Nat) (hn : 1 ≤ n ∧ n ≤ 16) (hl : h.length = 32)
    (hW : has env.flags FLAG_WITNESS = true) (hnz : castToBool h = true)
    (hh : env.hashes.sha256 (andvPkOlder a n) = h)
    (hea : checkSignatureEncoding env.flags sa = .ok ()) (hla : sa.length ≤ 520)
    (hka : isCompressedPubKey a = true)
    (hsa : env.checker.checkECDSA sa a (andvPkOlder a n) .WITNESS_V0 = .ok true)
    (hseq : has env.flags FLAG_CHECKSEQUENCEVERIFY = true →
      checkSequence (evalCtx env .WITNESS_V0 (andvPkOlder a n)) (n : Int) = true) :
    verifyScript env [] (p2wsh h) [sa, andvPkOlder a n] = .ok () :=
  verify_wsh_andvPkOlder env h a sa n hn hl hW hnz hh hea hla hka hsa hseq

/-- **T1 end to end on secp256k1 (wsh(and_v(v:pk(A),older(n))))**. -/
theorem closure_wsh_andv_pk_older_secp256k1 (flags : Nat) (cx : TxCtx) (h a sa : Bytes) (n : Nat) (hn : 1 ≤ n ∧ n ≤ 16)
    (hl : h.length = 32) (hW : has flags FLAG_WITNESS = true) (hnz : castToBool h = true)
    (hh : sha256 (andvPkOlder a n) = h)
    (hea : checkSignatureEncoding flags sa = .ok ()) (hla : sa.length ≤ 520) (hka : isCompressedPubKey a = true)
    (hsa : MadeBySecp cx (andvPkOlder a n) .WITNESS_V0 sa a)
    (hseq : has flags FLAG_CHECKSEQUENCEVERIFY = true →
      checkSequence (evalCtx (envOf secpCrypto flags cx) .WITNESS_V0 (andvPkOlder a n)) (n : Int) = true) :
    verifyScript (envOf secpCrypto flags cx) [] (p2wsh h) [sa, andvPkOlder a n] = .ok () :=
  closure_wsh_andv_pk_older (envOf secpCrypto flags cx) h a sa n hn hl hW hnz hh hea hla hka
    (madeBySecp_passes cx _ _ sa a hsa) hseq

/-! ## T3 — BIP322 simple signatures verify for the address and message they were made for

`Model/C10/Bip322.lean` mirrors `bip322.py: message_hash, to_spend, to_sign` (both txids and the engine run are compared
with btclib by the `c10.bip322.model` stream); `verifySimple` is the engine run of `assert_as_valid` on the `to_sign` built
from THIS message and THIS script.  Sign-then-verify is then the template closure applied to `to_sign`.  All four address kinds
`bip322.sign` serves are covered (p2wpkh, p2tr, p2pkh, p2sh-p2wpkh).  Not proved: the address -> script map (C06),
proof-of-funds, BMS (C02's `bms_sign_then_verify` owns it, address classes included), and that another message / address
does NOT verify (unforgeability, assumed). -/

/-- BIP322 simple, p2wpkh address, on the executed instance: the witness the signer makes over the BIP143 digest of
    `to_sign(to_spend(msg, 0 <h>))` verifies for that message and address under every flag set with WITNESS. -/
theorem bip322_simple_p2wpkh_secp256k1 (flags : Nat) (msg h pk : Bytes) (ht : Nat) (hht : ht < 256)
    {q k r s kid : Int} (hl : h.length = 20) (hW : has flags FLAG_WITNESS = true) (hnz : castToBool h = true)
    (hh : ripemd160 (sha256 pk) = h) (hpk : isCompressedPubKey pk = true)
    (hp : secpParsePub pk = some ((EC.ops EC.secp256k1).mul q EC.secp256k1.G)) (hk : 0 < k ∧ k < EC.secp256k1.n)
    (hsign : Ecdsa.signRecoverable (EC.ops EC.secp256k1)
      (Rfc6979.challenge EC.secp256k1.n
        (engineEcdsaDigest secpCrypto (Bip322.signCtx secpCrypto msg (p2wpkh h)) (p2pkh h) .WITNESS_V0 ht)) q k true =
        .ok (r, s, kid))
    (der : Bytes) (hder : Der.serialize r s = .ok der) (hmax : der.length ≤ Gen.VarInt.MAX_SIZE)
    (henc : checkSignatureEncoding flags (der ++ [UInt8.ofNat ht]) = .ok ())
    (hslen : (der ++ [UInt8.ofNat ht]).length ≤ 520) :
    Bip322.verifySimple secpCrypto flags msg (p2wpkh h) [] [der ++ [UInt8.ofNat ht], pk] = .ok () :=
  Bip322.simple_p2wpkh_secp256k1 flags msg h pk ht hht hl hW hnz hh hpk hp hk hsign der hder hmax henc hslen

/-- BIP322 simple, p2tr address (key path), on the executed instance. -/
theorem bip322_simple_p2tr_secp256k1 (flags : Nat) (msg prog : Bytes) (ht : Nat) (hht : ht < 256)
    (hq : prog.length = 32) (hW : has flags FLAG_WITNESS = true) (hnz : castToBool prog = true)
    (hdef : bip341Defined (Bip322.signCtx secpCrypto msg (p2tr prog)).tx 0
      (Bip322.signCtx secpCrypto msg (p2tr prog)).spent ht = true)
    (fuel : Nat) (q : Int) (aux : Bytes) (sg : Schnorr.Sig)
    (hsign : Schnorr.sign (EC.ops EC.secp256k1) bip340Params fuel
      (engineTapDigest secpCrypto (Bip322.signCtx secpCrypto msg (p2tr prog)) .TAPROOT ht 0xFFFFFFFF) q aux = .ok sg)
    (sig64 : Bytes) (hser : Schnorr.serialize (EC.ops EC.secp256k1) bip340Params sg = .ok sig64)
    (hpk : ((ofBE prog : Nat) : Int) = (EC.ops EC.secp256k1).x ((EC.ops EC.secp256k1).mul q EC.secp256k1.G)) :
    Bip322.verifySimple secpCrypto flags msg (p2tr prog) [] [sig64 ++ (if ht = 0 then [] else [UInt8.ofNat ht])] =
      .ok () :=
  Bip322.simple_p2tr_secp256k1 flags msg prog ht hht hq hW hnz hdef fuel q aux sg hsign sig64 hser hpk

/-- BIP322, p2pkh address (the payload is a whole `to_sign` with the simple variant's fields: version / lock time /
    sequence 0), on the executed instance: scriptSig `<sig> <pk>`; the legacy digest does not read the scriptSig
    (`Bip322.legacyDigest_scriptSig`), so the signer signs `to_sign` with an empty one. -/
theorem bip322_p2pkh_secp256k1 (flags : Nat) (msg h pk : Bytes) (ht : Nat) (hht : ht < 256)
    {q k r s kid : Int} (hl : h.length = 20)
    (hh : ripemd160 (sha256 pk) = h) (hpk : isCompressedPubKey pk = true)
    (hp : secpParsePub pk = some ((EC.ops EC.secp256k1).mul q EC.secp256k1.G)) (hk : 0 < k ∧ k < EC.secp256k1.n)
    (hsign : Ecdsa.signRecoverable (EC.ops EC.secp256k1)
      (Rfc6979.challenge EC.secp256k1.n
        (engineEcdsaDigest secpCrypto (Bip322.signCtx secpCrypto msg (p2pkh h)) (p2pkh h) .BASE ht)) q k true =
        .ok (r, s, kid))
    (der : Bytes) (hder : Der.serialize r s = .ok der) (hmax : der.length ≤ Gen.VarInt.MAX_SIZE)
    (henc : checkSignatureEncoding flags (der ++ [UInt8.ofNat ht]) = .ok ())
    (hs2 : 2 ≤ (der ++ [UInt8.ofNat ht]).length) (hs : (der ++ [UInt8.ofNat ht]).length < 76)
    (hne : der ++ [UInt8.ofNat ht] ≠ h) :
    Bip322.verifySimple secpCrypto flags msg (p2pkh h) (pushData (der ++ [UInt8.ofNat ht]) ++ pushData pk) [] = .ok () :=
  Bip322.simple_p2pkh_secp256k1 flags msg h pk ht hht hl hh hpk hp hk hsign der hder hmax henc hs2 hs hne

/-- BIP322, p2sh-p2wpkh address, on the executed instance: scriptSig = push of `0 <h>`, witness `[sig, pk]`. -/
theorem bip322_p2sh_p2wpkh_secp256k1 (flags : Nat) (msg h hr pk : Bytes) (ht : Nat) (hht : ht < 256)
    {q k r s kid : Int} (hl : h.length = 20) (hrl : hr.length = 20)
    (hP : has flags FLAG_P2SH = true) (hW : has flags FLAG_WITNESS = true) (hnz : castToBool h = true)
    (hhr : ripemd160 (sha256 (p2wpkh h)) = hr)
    (hh : ripemd160 (sha256 pk) = h) (hpk : isCompressedPubKey pk = true)
    (hp : secpParsePub pk = some ((EC.ops EC.secp256k1).mul q EC.secp256k1.G)) (hk : 0 < k ∧ k < EC.secp256k1.n)
    (hsign : Ecdsa.signRecoverable (EC.ops EC.secp256k1)
      (Rfc6979.challenge EC.secp256k1.n
        (engineEcdsaDigest secpCrypto (Bip322.signCtx secpCrypto msg (p2sh hr)) (p2pkh h) .WITNESS_V0 ht)) q k true =
        .ok (r, s, kid))
    (der : Bytes) (hder : Der.serialize r s = .ok der) (hmax : der.length ≤ Gen.VarInt.MAX_SIZE)
    (henc : checkSignatureEncoding flags (der ++ [UInt8.ofNat ht]) = .ok ())
    (hslen : (der ++ [UInt8.ofNat ht]).length ≤ 520) :
    Bip322.verifySimple secpCrypto flags msg (p2sh hr) (pushData (p2wpkh h)) [der ++ [UInt8.ofNat ht], pk] = .ok () :=
  Bip322.simple_p2sh_p2wpkh_secp256k1 flags msg h hr pk ht hht hl hrl hP hW hnz hhr hh hpk hp hk hsign der hder hmax henc
    hslen

-- the model's to_spend / to_sign on a concrete message: version 0, null outpoint, OP_0 PUSH32 in the scriptSig, OP_RETURN
example : (Bip322.toSpend taggedHash [1, 2] [0x51]).vin.map (·.prev.vout) = [0xFFFFFFFF] ∧
    (Bip322.toSign hash256 (Bip322.toSpend taggedHash [1, 2] [0x51]) []).vout = [⟨0, [0x6a]⟩] := by decide

/-! ### taproot script path with a `multi_a(k, keys…)` leaf (BIP387)

`Model/C10/MultiA.lean` mirrors `descriptors.py: MultiA._script` (the tapscript) and `MultiA._stack` (the satisfaction the
library lays out: one element per key, REVERSE key order on the wire, `k` signatures, empty vectors for the others).  The
closure is about C08's `verifyScript`: CHECKSIG, the CHECKSIGADD chain by induction over the key list (for ALL key lists,
`1 ≤ n ≤ 999`), `OP_k NUMEQUAL`, BIP342's validation-weight budget (50 per signature, proved covered by the witness size),
OP_SUCCESS scan, stack limits.  Threshold `1 ≤ k ≤ 16` (the `OP_k` spelling; the number-push spelling for k > 16 is NOT
proved).  `verify_tr_script_of` (Proofs/C10/MultiA.lean) is the generic wrapper: any tapscript leaf `ExecuteWitnessScript`
accepts. -/

/-- the satisfaction `MultiA._stack` builds, as (key, element) pairs in key order: `multiAStack` is its reverse -/
theorem multiAStack_wire (k : Nat) (offered : List (Option Bytes)) (w : List Bytes)
    (h : multiAStack k offered = some w) : w = (multiAFill k 0 offered).reverse := by
  unfold multiAStack at h
  split at h
  · cases h
  · exact (Option.some.inj h).symm

/-- T1 (taproot script path, `multi_a` leaf).  For every flag set with WITNESS: witness `elements in reverse key order ‖
    [leaf, control]` is accepted, given `ps` = (x-only key, element) in key order with every element either empty or a
    signature (50..520 bytes; BIP340's are 64 / 65) the Schnorr oracle accepts for ITS key under BIP342's message,
    exactly `k` of them non-empty, and the C12 commitment check for this leaf. -/
theorem closure_taproot_multi_a (env : VerifyEnv) (q control : Bytes) (m k : Nat) (ps : List (Bytes × Bytes))
    (hq : q.length = 32) (hW : has env.flags FLAG_WITNESS = true) (hnz : castToBool q = true)
    (hcl : control.length = 33 + 32 * m) (hm : m ≤ 128) (hv : getB control 0 / 2 * 2 = 0xc0)
    (hk : 1 ≤ k ∧ k ≤ 16) (hn : 1 ≤ ps.length) (hn999 : ps.length ≤ 999)
    (hp : ∀ p ∈ ps, p.1.length = 32 ∧ ElemOk env.checker p.1 p.2)
    (hsl : ∀ p ∈ ps, p.2 = [] ∨ (50 ≤ p.2.length ∧ p.2.length ≤ 520)) (hcnt : cntOf ps = k)
    (hcom : env.commitment control q (env.taggedHash "TapLeaf".toUTF8.toList
      (UInt8.ofNat 0xc0 :: (Core.compactSize (multiAScript k (ps.map (·.1))).length ++ multiAScript k (ps.map (·.1))))) =
        .ok true) :
    verifyScript env [] (p2tr q) ((ps.map (·.2)).reverse ++ [multiAScript k (ps.map (·.1)), control]) = .ok () :=
  verify_tr_multi_a env q control m k ps hq hW hnz hcl hm hv hk hn hn999 hp hsl hcnt hcom

/-- T1 (taproot script path, `multi_a` leaf) ON THE LAYOUT `MultiA._stack` BUILDS: `keys` in script order, `offered` what
    each key offers; whenever `_stack` answers a witness (at least `k` keys signed) that witness, the leaf and the control
    block are accepted -- no counting hypothesis: that exactly `k` elements are non-empty, each the signature of ITS key,
    is proved of `multiAFill`.  Every offered signature is one the Schnorr oracle accepts (50..520 bytes). -/
theorem closure_taproot_multi_a_stack (env : VerifyEnv) (q control : Bytes) (m k : Nat) (keys : List Bytes)
    (offered : List (Option Bytes)) (w : List Bytes)
    (hq : q.length = 32) (hW : has env.flags FLAG_WITNESS = true) (hnz : castToBool q = true)
    (hcl : control.length = 33 + 32 * m) (hm : m ≤ 128) (hv : getB control 0 / 2 * 2 = 0xc0)
    (hk : 1 ≤ k ∧ k ≤ 16) (hn : 1 ≤ keys.length) (hn999 : keys.length ≤ 999) (hlen : offered.length = keys.length)
    (hkeys : ∀ x ∈ keys, x.length = 32)
    (hoff : ∀ key s, (key, some s) ∈ keys.zip offered →
      env.checker.checkSchnorr s key .TAPSCRIPT 0xFFFFFFFF = none ∧ 50 ≤ s.length ∧ s.length ≤ 520)
    (hw : multiAStack k offered = some w)
    (hcom : env.commitment control q (env.taggedHash "TapLeaf".toUTF8.toList
      (UInt8.ofNat 0xc0 :: (Core.compactSize (multiAScript k keys).length ++ multiAScript k keys))) = .ok true) :
    verifyScript env [] (p2tr q) (w ++ [multiAScript k keys, control]) = .ok () :=
  verify_tr_multi_a_stack env q control m k keys offered w hq hW hnz hcl hm hv hk hn hn999 hlen hkeys hoff hw hcom

/-- an element of a `multi_a` satisfaction made with `Btc.EC.ops secp256k1`: the empty vector, or `ssa.sign_` by the key
    whose x-only octets are `key` over BIP342's message of THIS input (+ hash-type byte unless DEFAULT) -/
def TapElemSecp (cx : TxCtx) (key e : Bytes) : Prop :=
  e = [] ∨ ∃ (ht fuel : Nat) (q : Int) (aux : Bytes) (sg : Schnorr.Sig) (sig64 : Bytes), ht < 256 ∧
    bip341Defined cx.tx cx.nIn cx.spent ht = true ∧
    Schnorr.sign (EC.ops EC.secp256k1) bip340Params fuel (engineTapDigest secpCrypto cx .TAPSCRIPT ht 0xFFFFFFFF) q aux =
      .ok sg ∧
    Schnorr.serialize (EC.ops EC.secp256k1) bip340Params sg = .ok sig64 ∧
    ((ofBE key : Nat) : Int) = (EC.ops EC.secp256k1).x ((EC.ops EC.secp256k1).mul q EC.secp256k1.G) ∧
    e = sig64 ++ (if ht = 0 then [] else [UInt8.ofNat ht])

/-- **T1 end to end on secp256k1 (taproot script path, `multi_a` leaf)**: every non-empty element MADE by its key. -/
theorem closure_taproot_multi_a_secp256k1 (flags : Nat) (cx : TxCtx) (prog control : Bytes) (m k : Nat)
    (ps : List (Bytes × Bytes))
    (hq : prog.length = 32) (hW : has flags FLAG_WITNESS = true) (hnz : castToBool prog = true)
    (hcl : control.length = 33 + 32 * m) (hm : m ≤ 128) (hv : getB control 0 / 2 * 2 = 0xc0)
    (hk : 1 ≤ k ∧ k ≤ 16) (hn : 1 ≤ ps.length) (hn999 : ps.length ≤ 999)
    (hp : ∀ p ∈ ps, p.1.length = 32 ∧ TapElemSecp cx p.1 p.2) (hcnt : cntOf ps = k)
    (hcom : commitment secpCrypto control prog (taggedHash "TapLeaf".toUTF8.toList
      (UInt8.ofNat 0xc0 :: (Core.compactSize (multiAScript k (ps.map (·.1))).length ++ multiAScript k (ps.map (·.1))))) =
        .ok true) :
    verifyScript (envOf secpCrypto flags cx) [] (p2tr prog)
      ((ps.map (·.2)).reverse ++ [multiAScript k (ps.map (·.1)), control]) = .ok () := by
  have key : ∀ p ∈ ps, ElemOk (envOf secpCrypto flags cx).checker p.1 p.2 ∧
      (p.2 = [] ∨ (50 ≤ p.2.length ∧ p.2.length ≤ 520)) := by
    intro p hp'
    rcases (hp p hp').2 with e | ⟨ht, fuel, q, aux, sg, sig64, hht, hdef, hsign, hser, hpk, e⟩
    · exact ⟨Or.inl e, Or.inl e⟩
    · have h64 := Spend.serialize_length secpCrypto rfl rfl sg sig64 hser
      have hlen : 64 ≤ p.2.length ∧ p.2.length ≤ 65 := by
        rw [e]; split <;> simp [h64]
      have hne : p.2.isEmpty = false := by
        cases hh : p.2 with
        | nil => rw [hh] at hlen; simp at hlen
        | cons _ _ => rfl
      refine ⟨Or.inr ⟨hne, ?_⟩, Or.inr ⟨by omega, by omega⟩⟩
      rw [e]
      exact Btc.E2E.sign_passes_checkSchnorr_secp256k1 cx .TAPSCRIPT ht _ hht hdef fuel q aux sg hsign sig64 hser p.1 hpk
  exact closure_taproot_multi_a (envOf secpCrypto flags cx) prog control m k ps hq hW hnz hcl hm hv hk hn hn999
    (fun p hp' => ⟨(hp p hp').1, (key p hp').1⟩) (fun p hp' => (key p hp').2) hcnt hcom

-- the model's `MultiA._stack` on a 2-of-3 where all three keys offer: the third is dropped, wire order is reversed
example : multiAStack 2 [some [1], some [2], some [3]] = some [[], [2], [1]] := by decide
example : multiAStack 2 [none, some [2], none] = none := by decide

/-! ## T2 — tampering changes the message (or exhibits a collision) -/

/-- T2 (legacy inputs: p2pk, p2pkh, bare and p2sh multisig).  If the engine recomputes the SAME digest for input `i`
    of a tampered transaction -- outside the SIGHASH_SINGLE-bug constant -- then either nothing the hash type commits
    to was changed (hash type, version, lock time, this input's outpoint and sequence, the script code; every outpoint
    unless ANYONECANPAY; every sequence for ALL without ANYONECANPAY; every output unless NONE / SINGLE; the matching
    output under SINGLE), or the two preimages are an explicit collision of hash256. -/
theorem tamper_legacy {α : Type} (C : Crypto α) (cx cx' : TxCtx) (sc sc' : Bytes) (ht ht' : Nat)
    (hi : cx'.nIn = cx.nIn) (wf : cx.tx.WF) (wf' : cx'.tx.WF) (hsc : Sized sc) (hsc' : Sized sc')
    (hin : cx.nIn < cx.tx.vin.length) (hin' : cx.nIn < cx'.tx.vin.length) (hno : cx.nIn < 18446744073709551615)
    (hht : ht < 4294967296) (hht' : ht' < 4294967296)
    (hb : legacySingleBug cx.tx cx.nIn ht = false) (hb' : legacySingleBug cx'.tx cx.nIn ht' = false)
    (h : engineEcdsaDigest C cx sc .BASE ht = engineEcdsaDigest C cx' sc' .BASE ht') :
    (ht = ht' ∧ cx.tx.version = cx'.tx.version ∧ cx.tx.lockTime = cx'.tx.lockTime ∧
      (cx.tx.vin.getD cx.nIn dfltIn).prev = (cx'.tx.vin.getD cx.nIn dfltIn).prev ∧
      (cx.tx.vin.getD cx.nIn dfltIn).sequence = (cx'.tx.vin.getD cx.nIn dfltIn).sequence ∧
      withoutCodeSeparators sc = withoutCodeSeparators sc' ∧
      (anyoneCanPay ht = false → cx.tx.vin.map (·.prev) = cx'.tx.vin.map (·.prev)) ∧
      (anyoneCanPay ht = false → isSingle ht = false → isNone ht = false →
        cx.tx.vin.map (·.sequence) = cx'.tx.vin.map (·.sequence)) ∧
      (isSingle ht = false → isNone ht = false → cx.tx.vout = cx'.tx.vout) ∧
      (isSingle ht = true → cx.tx.vout.getD cx.nIn blankOut = cx'.tx.vout.getD cx.nIn blankOut)) ∨
    Collides C.hash256 (legacyPreimage sc cx.tx cx.nIn ht) (legacyPreimage sc' cx'.tx cx.nIn ht') := by
  simp only [engineEcdsaDigest, hi] at h
  rcases Props.C09.legacy_digest_commits C.hash256 sc sc' cx.tx cx'.tx cx.nIn ht ht' hb hb' h with e | c
  · exact Or.inl (Props.C09.legacy_commits sc sc' cx.tx cx'.tx cx.nIn ht ht' wf wf' hsc hsc' hin hin' hno hht hht' e)
  · exact Or.inr c

/-- T2 (segwit v0 inputs: p2wpkh, p2wsh and their p2sh wrappings).  The same digest for a tampered transaction /
    spent amount means: same hash type, version, lock time, this input's outpoint and sequence, the WHOLE script code
    and the spent AMOUNT; and every outpoint / sequence / output as the hash type prescribes -- each OR an explicit
    collision of hash256 (`H` with 32-byte output). -/
theorem tamper_segwit_v0 {α : Type} (C : Crypto α) (hH : ∀ x, (C.hash256 x).length = 32) (cx cx' : TxCtx)
    (sc sc' : Bytes) (ht ht' : Nat) (hi : cx'.nIn = cx.nIn) (wf : cx.tx.WF) (wf' : cx'.tx.WF)
    (hin : cx.nIn < cx.tx.vin.length) (hin' : cx.nIn < cx'.tx.vin.length)
    (hsc : Sized sc) (hsc' : Sized sc') (ha : I64 cx.amount) (ha' : I64 cx'.amount)
    (hht : ht < 4294967296) (hht' : ht' < 4294967296)
    (h : engineEcdsaDigest C cx sc .WITNESS_V0 ht = engineEcdsaDigest C cx' sc' .WITNESS_V0 ht') :
    (ht = ht' ∧ cx.tx.version = cx'.tx.version ∧ cx.tx.lockTime = cx'.tx.lockTime ∧
      (cx.tx.vin.getD cx.nIn dfltIn).prev = (cx'.tx.vin.getD cx.nIn dfltIn).prev ∧
      (cx.tx.vin.getD cx.nIn dfltIn).sequence = (cx'.tx.vin.getD cx.nIn dfltIn).sequence ∧
      sc = sc' ∧ cx.amount = cx'.amount ∧
      (anyoneCanPay ht = false →
        cx.tx.vin.map (·.prev) = cx'.tx.vin.map (·.prev) ∨ Collides C.hash256 (serPrevouts cx.tx) (serPrevouts cx'.tx)) ∧
      (anyoneCanPay ht = false → isSingle ht = false → isNone ht = false →
        cx.tx.vin.map (·.sequence) = cx'.tx.vin.map (·.sequence) ∨
          Collides C.hash256 (serSequences cx.tx) (serSequences cx'.tx)) ∧
      (isSingle ht = false → isNone ht = false →
        cx.tx.vout = cx'.tx.vout ∨ Collides C.hash256 (serOutputs cx.tx) (serOutputs cx'.tx)) ∧
      (isSingle ht = true → cx.nIn < cx.tx.vout.length → cx.nIn < cx'.tx.vout.length →
        cx.tx.vout.getD cx.nIn blankOut = cx'.tx.vout.getD cx.nIn blankOut ∨
          Collides C.hash256 (serTxOut (cx.tx.vout.getD cx.nIn blankOut)) (serTxOut (cx'.tx.vout.getD cx.nIn blankOut)))) ∨
    Collides C.hash256 (bip143Preimage C.hash256 sc cx.tx cx.nIn ht cx.amount)
      (bip143Preimage C.hash256 sc' cx'.tx cx.nIn ht' cx'.amount) := by
  simp only [engineEcdsaDigest, hi] at h
  rcases Props.C09.bip143_digest_commits C.hash256 sc sc' cx.tx cx'.tx cx.nIn ht ht' cx.amount cx'.amount h with e | c
  · exact Or.inl (Props.C09.bip143_commits C.hash256 hH sc sc' cx.tx cx'.tx cx.nIn ht ht' cx.amount cx'.amount
      wf wf' hin hin' hsc hsc' ha ha' hht hht' e)
  · exact Or.inr c

/-- T2 (taproot inputs, key path and script path): the same BIP341 digest means the same `SigMsg` -- whose committed
    fields are listed by `Props.C09.bip341_commits`: hash type, version, lock time, the BIP342 extension (tapleaf hash,
    key version, codeseparator position), every outpoint / spent AMOUNT / spent SCRIPT / sequence without ANYONECANPAY
    (this input's own with it), the outputs as the type prescribes -- or the two tagged inputs `S(tag) ‖ S(tag) ‖ SigMsg` (`tapTagged`) are an EXPLICIT
    collision of `S` (never a bare `∃`, which pigeonhole gives for free). -/
def tapTagged {α : Type} (C : Crypto α) (cx : TxCtx) (sv : SigVersion) (ht pos : Nat) : Bytes :=
  C.S Gen.SigHash.TAG_SIGHASH ++ (C.S Gen.SigHash.TAG_SIGHASH ++
    bip341Preimage C.S cx.tx cx.nIn cx.spent ht cx.annex (if sv == .TAPSCRIPT then some ⟨cx.leafHash, 0, pos⟩ else none))

theorem tamper_taproot {α : Type} (C : Crypto α) (cx cx' : TxCtx) (sv : SigVersion) (ht ht' pos pos' : Nat)
    (h : engineTapDigest C cx sv ht pos = engineTapDigest C cx' sv ht' pos') :
    bip341Preimage C.S cx.tx cx.nIn cx.spent ht cx.annex
        (if sv == .TAPSCRIPT then some ⟨cx.leafHash, 0, pos⟩ else none) =
      bip341Preimage C.S cx'.tx cx'.nIn cx'.spent ht' cx'.annex
        (if sv == .TAPSCRIPT then some ⟨cx'.leafHash, 0, pos'⟩ else none) ∨
    Collides C.S (tapTagged C cx sv ht pos) (tapTagged C cx' sv ht' pos') := by
  simp only [engineTapDigest] at h
  exact Props.C09.bip341_digest_commits_explicit C.S _ _ _ _ _ _ _ _ _ _ _ _ h

/-- T2 (taproot), the committed-FIELD list: the same BIP341 / BIP342 digest for two (transaction, input, spent outputs,
    hash type, leaf, codesep position) means -- `Props.C09.bip341_commits` applied to the equal `SigMsg`s -- the same hash
    type, version, lock time and BIP342 extension (tapleaf hash, key version, codesep position), annex presence; without
    ANYONECANPAY the same input index and every outpoint / spent AMOUNT / spent SCRIPT / SEQUENCE (of EVERY input, also
    under NONE and SINGLE); with it this input's own; the outputs as the type prescribes; the annex CONTENT when both carry
    one -- each OR an explicit SHA-256 collision of the two named serializations; the outer alternative is the explicit
    pair `tapTagged`. -/
theorem tamper_taproot_fields {α : Type} (C : Crypto α) (hS : ∀ x, (C.S x).length = 32) (cx cx' : TxCtx)
    (sv : SigVersion) (ht ht' pos pos' : Nat)
    (wf : cx.tx.WF) (wf' : cx'.tx.WF) (ws : ∀ o ∈ cx.spent, o.WF) (ws' : ∀ o ∈ cx'.spent, o.WF)
    (hin : cx.nIn < cx.tx.vin.length) (hin' : cx'.nIn < cx'.tx.vin.length)
    (hn : cx.nIn < 4294967296) (hn' : cx'.nIn < 4294967296) (hht : ht < 256) (hht' : ht' < 256)
    (hlh : cx.leafHash.length = 32) (hlh' : cx'.leafHash.length = 32) (hpos : pos < 4294967296) (hpos' : pos' < 4294967296)
    (h : engineTapDigest C cx sv ht pos = engineTapDigest C cx' sv ht' pos') :
    (ht = ht' ∧ cx.tx.version = cx'.tx.version ∧ cx.tx.lockTime = cx'.tx.lockTime ∧
      (sv = .TAPSCRIPT → cx.leafHash = cx'.leafHash ∧ pos = pos') ∧ cx.annex.isSome = cx'.annex.isSome ∧
      (tapAcp ht = false → cx.nIn = cx'.nIn ∧
        (cx.tx.vin.map (·.prev) = cx'.tx.vin.map (·.prev) ∨ Collides C.S (serPrevouts cx.tx) (serPrevouts cx'.tx)) ∧
        (cx.spent.map (·.value) = cx'.spent.map (·.value) ∨ Collides C.S (serAmounts cx.spent) (serAmounts cx'.spent)) ∧
        (cx.spent.map (·.spk) = cx'.spent.map (·.spk) ∨
          Collides C.S (serScriptPubKeys cx.spent) (serScriptPubKeys cx'.spent)) ∧
        (cx.tx.vin.map (·.sequence) = cx'.tx.vin.map (·.sequence) ∨
          Collides C.S (serSequences cx.tx) (serSequences cx'.tx))) ∧
      (tapAcp ht = true →
        (cx.tx.vin.getD cx.nIn dfltIn).prev = (cx'.tx.vin.getD cx'.nIn dfltIn).prev ∧
        (cx.tx.vin.getD cx.nIn dfltIn).sequence = (cx'.tx.vin.getD cx'.nIn dfltIn).sequence ∧
        cx.spent.getD cx.nIn blankOut = cx'.spent.getD cx'.nIn blankOut) ∧
      (tapNone ht = false → tapSingle ht = false →
        cx.tx.vout = cx'.tx.vout ∨ Collides C.S (serOutputs cx.tx) (serOutputs cx'.tx)) ∧
      (tapSingle ht = true →
        cx.tx.vout.getD cx.nIn blankOut = cx'.tx.vout.getD cx'.nIn blankOut ∨
          Collides C.S (serTxOut (cx.tx.vout.getD cx.nIn blankOut)) (serTxOut (cx'.tx.vout.getD cx'.nIn blankOut))) ∧
      (∀ a a', cx.annex = some a → cx'.annex = some a' → Sized a → Sized a' →
        a = a' ∨ Collides C.S (varBytes a) (varBytes a'))) ∨
    Collides C.S (tapTagged C cx sv ht pos) (tapTagged C cx' sv ht' pos') := by
  rcases tamper_taproot C cx cx' sv ht ht' pos pos' h with e | c
  · left
    have we : ∀ e', (if sv == .TAPSCRIPT then some (⟨cx.leafHash, 0, pos⟩ : TapExt) else none) = some e' → e'.WF := by
      intro e' he
      split at he
      · cases he
        refine ⟨hlh, ?_, ?_⟩
        · show (0 : Nat) < 256; decide
        · show U32 (pos : Int); unfold U32; omega
      · cases he
    have we' : ∀ e', (if sv == .TAPSCRIPT then some (⟨cx'.leafHash, 0, pos'⟩ : TapExt) else none) = some e' → e'.WF := by
      intro e' he
      split at he
      · cases he
        refine ⟨hlh', ?_, ?_⟩
        · show (0 : Nat) < 256; decide
        · show U32 (pos' : Int); unfold U32; omega
      · cases he
    obtain ⟨c1, c2, c3, c4, c5, c6, c7, c8, c9, c10⟩ := Props.C09.bip341_commits C.S hS cx.tx cx'.tx cx.nIn cx'.nIn
      cx.spent cx'.spent ht ht' cx.annex cx'.annex _ _ wf wf' ws ws' hin hin' hn hn' hht hht' we we' e
    refine ⟨c1, c2, c3, ?_, c5, c6, c7, c8, c9, c10⟩
    intro hsv
    subst hsv
    simp only [beq_self_eq_true, if_true, Option.some.injEq, TapExt.mk.injEq] at c4
    exact ⟨c4.1, by have := c4.2.2; omega⟩
  · exact Or.inr c

/-- T2, the form the harness exercises: under an ALL-like hash type (no NONE / SINGLE) a segwit-v0 signature is over
    the outputs -- a transaction whose output list differs (an amount, a script, an order, a dropped output) gives the
    signature checker a different digest, unless hash256 collides on one of the two explicit pairs. -/
theorem tamper_outputs_segwit_v0 {α : Type} (C : Crypto α) (hH : ∀ x, (C.hash256 x).length = 32) (cx cx' : TxCtx)
    (sc : Bytes) (ht : Nat) (hi : cx'.nIn = cx.nIn) (wf : cx.tx.WF) (wf' : cx'.tx.WF)
    (hin : cx.nIn < cx.tx.vin.length) (hin' : cx.nIn < cx'.tx.vin.length)
    (hsc : Sized sc) (ha : I64 cx.amount) (ha' : I64 cx'.amount) (hht : ht < 4294967296)
    (hs : isSingle ht = false) (hn : isNone ht = false) (hne : cx.tx.vout ≠ cx'.tx.vout) :
    engineEcdsaDigest C cx sc .WITNESS_V0 ht ≠ engineEcdsaDigest C cx' sc .WITNESS_V0 ht ∨
    Collides C.hash256 (serOutputs cx.tx) (serOutputs cx'.tx) ∨
    Collides C.hash256 (bip143Preimage C.hash256 sc cx.tx cx.nIn ht cx.amount)
      (bip143Preimage C.hash256 sc cx'.tx cx.nIn ht cx'.amount) := by
  by_cases h : engineEcdsaDigest C cx sc .WITNESS_V0 ht = engineEcdsaDigest C cx' sc .WITNESS_V0 ht
  · rcases tamper_segwit_v0 C hH cx cx' sc sc ht ht hi wf wf' hin hin' hsc hsc ha ha' hht hht h with e | c
    · rcases e.2.2.2.2.2.2.2.2.2.1 hs hn with e | c
      · exact absurd e hne
      · exact Or.inr (Or.inl c)
    · exact Or.inr (Or.inr c)
  · exact Or.inl h

/-! ## non-vacuity -/

-- a concrete 20-byte program, key and the finalizer's output on them
example : finalizedInput (fun _ => true) ⟨some (p2wpkh (List.replicate 20 7)), [], [], [([2, 1], [0x30, 1])]⟩ =
    .ok ([], [[0x30, 1], [2, 1]]) := by decide
-- the hypotheses of `closure_p2wpkh` about flags are met by the three generated flag sets
example : has Gen.Spend.ALL_FLAGS FLAG_WITNESS = true ∧ has Gen.Spend.STANDARD_FLAGS FLAG_P2SH = true := by decide
-- a "false" program is the stated exception: the all-zero hash is not castToBool-true
example : castToBool (List.replicate 20 0) = false := by decide
-- a k-of-n finalization the model computes (2-of-3, signatures filed out of order, one foreign): dummy, two sigs in key order
example : (pushedSigs (fun _ => true)
    ⟨some (multisig 2 [List.replicate 33 2, List.replicate 33 3, List.replicate 33 4]), [], [],
      [(List.replicate 33 4, [9]), (List.replicate 33 9, [7]), (List.replicate 33 2, [8])]⟩) = .ok [[8], [9]] := by decide

/-! ### the `_secp256k1` closures are not vacuous: concrete spends, every hypothesis discharged (`Proofs/C10/Example*.lean`)

p2wpkh (ECDSA, SIGHASH_ALL) by the KERNEL here -- real SHA-256 / RIPEMD-160 and secp256k1 arithmetic under `decide +kernel`
(about 5 minutes of kernel time whenever a model it depends on changes).  The taproot key path (BIP340, SIGHASH_DEFAULT) is
kernel-checked the same way in `Proofs/C10/ExampleTapKey.lean`, which is NOT part of this module's build (11 minutes of
kernel time; build it with `tools/lb Proofs.C10.ExampleTapKey`).  Every template (p2pk, p2pkh, p2wpkh, p2sh-p2wpkh over the
six ECDSA hash types; 2-of-3 bare / p2sh / p2wsh / p2sh-p2wsh multisig; taproot key path and single-key leaf over the seven
taproot hash types) is `#guard`ed in `Proofs/C10/Example.lean`: sign, serialize, finalize, composed engine accepts, under
all twenty-one flags, run by the compiled evaluator at build time. -/

example : ∃ ss wit, finalizedInput (fun _ => true) ⟨some (p2wpkh Ex.h), [], [], [(Ex.pk, Ex.der ++ [UInt8.ofNat 1])]⟩ =
      .ok (ss, wit) ∧ verifyScript (envOf secpCrypto Gen.Spend.EVERY_FLAG Ex.cx) ss (p2wpkh Ex.h) wit = .ok () :=
  closure_p2wpkh_secp256k1 (fun _ => true) Gen.Spend.EVERY_FLAG Ex.cx Ex.h Ex.pk 1 (by decide) (by decide) (by decide)
    (by decide) Ex.hh (by decide) Ex.hp Ex.hk Ex.hsign Ex.der Ex.hder (by decide +kernel) Ex.henc (by decide +kernel)

/-
NOT PROVED (full statements kept; the executable composition `Spend.verifyInput`, run against btclib's engine on every
finished input and on tampered ones, is what covers them):
* `hsc` of the legacy multisig templates (FindAndDelete finds no pushed signature among the key pushes of the script
  code) is a hypothesis of `closure_multisig_bare` / `closure_multisig_p2sh`;
* closure for a `multi_a` leaf: the library's own finalizer refuses such a leaf (`single_leaf_key`); the flows close it
  with a solver built on `miniscript.satisfy`, and its satisfaction is C15's business;
* that `Der.serialize r s ‖ ht` passes `checkSignatureEncoding` (BIP66 validity of the DER writer's output, low s, defined
  hash type) is a hypothesis of the closures above; it is PROVED below (`built_sig_passes_encoding`) and discharged in
  the `_built` closures; the other `_secp256k1` closures (multisig, wrapped pk/pkh, BIP322) still carry `hp` / `henc`:
  `built_key_parses` and `built_sig_passes_encoding` are the lemmas that discharge them, one application each, not made.
-/

/-! ### AUDIT3 Top 3: the key octets and the signature bytes are the ones the library BUILDS

`pk := secpCompressedKey (q·G)` (= C01's model of `bytes_from_point(q·G, compressed=True)`, `built_key_is_bytes_from_point`)
and `sig := DER(_sign_recoverable_(…, low_s)) ‖ ht`: `hp` (the octets read back as `q·G`), `hpk` (compressed form), `henc`
(Core's `CheckSignatureEncoding` under the flags), `hmax`, `hslen`, `hs`, `hs2` and p2pk's `hne` are no longer
hypotheses.  New hypotheses, both about the REQUEST, not the output: `0 < q < n` (the private key range
`int_from_prv_key` enforces) and `ht & 0x7f ∈ {1,2,3}` (the six hash types ECDSA signing is defined for; under STRICTENC
the engine refuses any other). -/

/-- (a) the compressed SEC octets the library writes for `q·G`, `0 < q < n`, are read by the signature checker's key
    reader (`secpParsePub`, btclib `point_from_octets(·, hybrid=True)`) as `q·G` -/
theorem built_key_parses (q : Int) (hq : 0 < q ∧ q < EC.secp256k1.n) :
    secpParsePub (secpCompressedKey ((EC.ops EC.secp256k1).mul q EC.secp256k1.G)) =
      some ((EC.ops EC.secp256k1).mul q EC.secp256k1.G) := secpParsePub_built q hq

/-- … and those octets ARE what C01's model of `bytes_from_point(q·G, compressed=True)` answers (tied to btclib by C01's
    `sec` stream), and a compressed key in Core's sense -/
theorem built_key_is_bytes_from_point (q : Int) (hq : 0 < q ∧ q < EC.secp256k1.n) :
    Btc.C01.bytesFromPoint EC.secp256k1.toCurveGroup 32 ((EC.ops EC.secp256k1).mul q EC.secp256k1.G) true =
      some (secpCompressedKey ((EC.ops EC.secp256k1).mul q EC.secp256k1.G)) ∧
    isCompressedPubKey (secpCompressedKey ((EC.ops EC.secp256k1).mul q EC.secp256k1.G)) = true :=
  ⟨secpCompressedKey_is_bytesFromPoint q hq, secpCompressedKey_compressed _⟩

/-- (b) what `_sign_recoverable_(c, q, k, low_s=True)` answers on secp256k1, DER-serialized and followed by a defined
    hash-type byte, passes Core's `CheckSignatureEncoding` under EVERY flag set (BIP66, LOW_S, STRICTENC); the DER part has
    8..72 bytes and starts with 0x30 -/
theorem built_sig_passes_encoding (flags : Nat) (ht : Nat) (hht : ht < 256) (hd : 1 ≤ ht % 128 ∧ ht % 128 ≤ 3)
    {c q k r s kid : Int} (hk : 0 < k ∧ k < EC.secp256k1.n)
    (hsign : Ecdsa.signRecoverable (EC.ops EC.secp256k1) c q k true = .ok (r, s, kid))
    (der : Bytes) (hder : Der.serialize r s = .ok der) :
    checkSignatureEncoding flags (der ++ [UInt8.ofNat ht]) = .ok () ∧ 8 ≤ der.length ∧ der.length ≤ 72 ∧
      getB der 0 = 0x30 := by
  obtain ⟨hv, hlow⟩ := Btc.E2E.ecdsa_sign_verifies_secp256k1 hk hsign
  exact verified_sig_encoding flags c _ r s ht der hv (hlow rfl) hht hd hder

example : (1 : Nat) ≤ 0x83 % 128 ∧ 0x83 % 128 ≤ 3 := by decide

/-- **T1 end to end on secp256k1 (p2wpkh), on what the library builds**: no encoding hypothesis left; what remains is the
    hash160 commitment of the program (`hh`, `hl`) and that it is not a `false` byte string (`hnz`). -/
theorem closure_p2wpkh_secp256k1_built (vk : Bytes → Bool) (flags : Nat) (cx : TxCtx) (h : Bytes) (ht : Nat)
    (hht : ht < 256) (hd : 1 ≤ ht % 128 ∧ ht % 128 ≤ 3) {q k r s kid : Int} (hq : 0 < q ∧ q < EC.secp256k1.n)
    (hl : h.length = 20) (hW : has flags FLAG_WITNESS = true) (hnz : castToBool h = true)
    (hh : ripemd160 (sha256 (secpCompressedKey ((EC.ops EC.secp256k1).mul q EC.secp256k1.G))) = h)
    (hk : 0 < k ∧ k < EC.secp256k1.n)
    (hsign : Ecdsa.signRecoverable (EC.ops EC.secp256k1)
      (Rfc6979.challenge EC.secp256k1.n (engineEcdsaDigest secpCrypto cx (p2pkh h) .WITNESS_V0 ht)) q k true =
        .ok (r, s, kid))
    (der : Bytes) (hder : Der.serialize r s = .ok der) :
    ∃ ss wit, finalizedInput vk ⟨some (p2wpkh h), [], [],
        [(secpCompressedKey ((EC.ops EC.secp256k1).mul q EC.secp256k1.G), der ++ [UInt8.ofNat ht])]⟩ = .ok (ss, wit) ∧
      verifyScript (envOf secpCrypto flags cx) ss (p2wpkh h) wit = .ok () := by
  obtain ⟨henc, _, h72, _⟩ := built_sig_passes_encoding flags ht hht hd hk hsign der hder
  exact closure_p2wpkh_secp256k1 vk flags cx h _ ht hht hl hW hnz hh (secpCompressedKey_compressed _)
    (secpParsePub_built q hq) hk hsign der hder (by simp only [Gen.VarInt.MAX_SIZE]; omega) henc
    (by simp only [List.length_append, List.length_singleton]; omega)

/-- **T1 end to end on secp256k1 (p2sh-p2wpkh), on what the library builds**. -/
theorem closure_p2sh_p2wpkh_secp256k1_built (vk : Bytes → Bool) (flags : Nat) (cx : TxCtx) (h hr : Bytes) (ht : Nat)
    (hht : ht < 256) (hd : 1 ≤ ht % 128 ∧ ht % 128 ≤ 3) {q k r s kid : Int} (hq : 0 < q ∧ q < EC.secp256k1.n)
    (hl : h.length = 20) (hrl : hr.length = 20)
    (hP : has flags FLAG_P2SH = true) (hW : has flags FLAG_WITNESS = true) (hnz : castToBool h = true)
    (hhr : ripemd160 (sha256 (p2wpkh h)) = hr)
    (hh : ripemd160 (sha256 (secpCompressedKey ((EC.ops EC.secp256k1).mul q EC.secp256k1.G))) = h)
    (hk : 0 < k ∧ k < EC.secp256k1.n)
    (hsign : Ecdsa.signRecoverable (EC.ops EC.secp256k1)
      (Rfc6979.challenge EC.secp256k1.n (engineEcdsaDigest secpCrypto cx (p2pkh h) .WITNESS_V0 ht)) q k true =
        .ok (r, s, kid))
    (der : Bytes) (hder : Der.serialize r s = .ok der) :
    ∃ ss wit, finalizedInput vk ⟨some (p2sh hr), p2wpkh h, [],
        [(secpCompressedKey ((EC.ops EC.secp256k1).mul q EC.secp256k1.G), der ++ [UInt8.ofNat ht])]⟩ = .ok (ss, wit) ∧
      verifyScript (envOf secpCrypto flags cx) ss (p2sh hr) wit = .ok () := by
  obtain ⟨henc, _, h72, _⟩ := built_sig_passes_encoding flags ht hht hd hk hsign der hder
  exact closure_p2sh_p2wpkh_secp256k1 vk flags cx h hr _ ht hht hl hrl hP hW hnz hhr hh (secpCompressedKey_compressed _)
    (secpParsePub_built q hq) hk hsign der hder (by simp only [Gen.VarInt.MAX_SIZE]; omega) henc
    (by simp only [List.length_append, List.length_singleton]; omega)

/-- **T1 end to end on secp256k1 (p2pkh), on what the library builds**; `hne` (the signature element is not literally the
    20-byte hash: what FindAndDelete needs) stays. -/
theorem closure_p2pkh_secp256k1_built (vk : Bytes → Bool) (flags : Nat) (cx : TxCtx) (h : Bytes) (ht : Nat)
    (hht : ht < 256) (hd : 1 ≤ ht % 128 ∧ ht % 128 ≤ 3) {q k r s kid : Int} (hq : 0 < q ∧ q < EC.secp256k1.n)
    (hl : h.length = 20)
    (hh : ripemd160 (sha256 (secpCompressedKey ((EC.ops EC.secp256k1).mul q EC.secp256k1.G))) = h)
    (hk : 0 < k ∧ k < EC.secp256k1.n)
    (hsign : Ecdsa.signRecoverable (EC.ops EC.secp256k1)
      (Rfc6979.challenge EC.secp256k1.n (engineEcdsaDigest secpCrypto cx (p2pkh h) .BASE ht)) q k true = .ok (r, s, kid))
    (der : Bytes) (hder : Der.serialize r s = .ok der)
    (hne : der ++ [UInt8.ofNat ht] ≠ h) :
    ∃ ss wit, finalizedInput vk ⟨some (p2pkh h), [], [],
        [(secpCompressedKey ((EC.ops EC.secp256k1).mul q EC.secp256k1.G), der ++ [UInt8.ofNat ht])]⟩ = .ok (ss, wit) ∧
      verifyScript (envOf secpCrypto flags cx) ss (p2pkh h) wit = .ok () := by
  obtain ⟨henc, h8, h72, _⟩ := built_sig_passes_encoding flags ht hht hd hk hsign der hder
  exact closure_p2pkh_secp256k1 vk flags cx h _ ht hht hl hh (secpCompressedKey_compressed _)
    (secpParsePub_built q hq) hk hsign der hder (by simp only [Gen.VarInt.MAX_SIZE]; omega) henc
    (by simp only [List.length_append, List.length_singleton]; omega)
    (by simp only [List.length_append, List.length_singleton]; omega) hne

/-- **T1 end to end on secp256k1 (p2pk), on what the library builds**: NO byte-level hypothesis left (the signature
    element starts with 0x30, the key with 02 / 03, so FindAndDelete's `hne` is proved). -/
theorem closure_p2pk_secp256k1_built (vk : Bytes → Bool) (flags : Nat) (cx : TxCtx) (ht : Nat)
    (hht : ht < 256) (hd : 1 ≤ ht % 128 ∧ ht % 128 ≤ 3) {q k r s kid : Int} (hq : 0 < q ∧ q < EC.secp256k1.n)
    (hk : 0 < k ∧ k < EC.secp256k1.n)
    (hsign : Ecdsa.signRecoverable (EC.ops EC.secp256k1)
      (Rfc6979.challenge EC.secp256k1.n (engineEcdsaDigest secpCrypto cx
        (p2pk (secpCompressedKey ((EC.ops EC.secp256k1).mul q EC.secp256k1.G))) .BASE ht)) q k true = .ok (r, s, kid))
    (der : Bytes) (hder : Der.serialize r s = .ok der) :
    ∃ ss wit, finalizedInput vk ⟨some (p2pk (secpCompressedKey ((EC.ops EC.secp256k1).mul q EC.secp256k1.G))), [], [],
        [(secpCompressedKey ((EC.ops EC.secp256k1).mul q EC.secp256k1.G), der ++ [UInt8.ofNat ht])]⟩ = .ok (ss, wit) ∧
      verifyScript (envOf secpCrypto flags cx) ss
        (p2pk (secpCompressedKey ((EC.ops EC.secp256k1).mul q EC.secp256k1.G))) wit = .ok () := by
  obtain ⟨henc, h8, h72, h30⟩ := built_sig_passes_encoding flags ht hht hd hk hsign der hder
  refine closure_p2pk_secp256k1 vk flags cx _ ht hht (secpCompressedKey_compressed _)
    (secpParsePub_built q hq) hk hsign der hder (by simp only [Gen.VarInt.MAX_SIZE]; omega) henc
    (by simp only [List.length_append, List.length_singleton]; omega)
    (by simp only [List.length_append, List.length_singleton]; omega) ?_
  intro e
  have h0 : getB (der ++ [UInt8.ofNat ht]) 0 = 0x30 := by
    rw [getB_append_left der _ 0 (by omega)]; exact h30
  rw [e] at h0
  rcases secpCompressedKey_head ((EC.ops EC.secp256k1).mul q EC.secp256k1.G) with h2 | h2 <;>
    · rw [h2] at h0; exact absurd h0 (by decide)

/-- a signature element the library BUILT for the key `q`: `pk` is the compressed SEC spelling it writes for `q·G`
    (`0 < q < n`), `sig` is DER(`_sign_recoverable_`(engine's digest for `(sc, sv, ht)`, q, k, low_s)) ‖ `ht`, `ht` one
    of the six hash types ECDSA signing is defined for.  No encoding fact is assumed. -/
def BuiltBySecp (cx : TxCtx) (sc : Bytes) (sv : SigVersion) (sig pk : Bytes) : Prop :=
  ∃ (ht : Nat) (q k r s kid : Int) (der : Bytes), ht < 256 ∧ (1 ≤ ht % 128 ∧ ht % 128 ≤ 3) ∧
    (0 < q ∧ q < EC.secp256k1.n) ∧ (0 < k ∧ k < EC.secp256k1.n) ∧
    pk = secpCompressedKey ((EC.ops EC.secp256k1).mul q EC.secp256k1.G) ∧
    Ecdsa.signRecoverable (EC.ops EC.secp256k1)
      (Rfc6979.challenge EC.secp256k1.n (engineEcdsaDigest secpCrypto cx sc sv ht)) q k true = .ok (r, s, kid) ∧
    Der.serialize r s = .ok der ∧ sig = der ++ [UInt8.ofNat ht]

/-- what `BuiltBySecp` delivers: the old `MadeBySecp` (so the composed checker accepts), Core's encoding checks under
    every flag set, the size window 9..73 and a compressed key -/
theorem builtBySecp_facts (flags : Nat) (cx : TxCtx) (sc : Bytes) (sv : SigVersion) (sig pk : Bytes)
    (h : BuiltBySecp cx sc sv sig pk) :
    MadeBySecp cx sc sv sig pk ∧ checkSignatureEncoding flags sig = .ok () ∧ 9 ≤ sig.length ∧ sig.length ≤ 73 ∧
      isCompressedPubKey pk = true := by
  obtain ⟨ht, q, k, r, s, kid, der, hht, hd, hq, hk, epk, hsign, hder, e⟩ := h
  obtain ⟨henc, h8, h72, _⟩ := built_sig_passes_encoding flags ht hht hd hk hsign der hder
  subst e epk
  refine ⟨⟨ht, q, k, r, s, kid, der, hht, hk, secpParsePub_built q hq, hsign, hder,
    by simp only [Gen.VarInt.MAX_SIZE]; omega, rfl⟩, henc, ?_, ?_, secpCompressedKey_compressed _⟩ <;>
  · simp only [List.length_append, List.length_singleton]; omega

theorem aligned_forall_sig {chk : Bytes → Bytes → Prop} {ss ks : List Bytes} (h : Aligned chk ss ks) :
    ∀ s ∈ ss, ∃ k ∈ ks, chk s k := by
  induction h with
  | nil ks => intro s hs; cases hs
  | take hc _ ih =>
    intro s hs
    rcases List.mem_cons.mp hs with e | hm
    · subst e; exact ⟨_, List.mem_cons_self, hc⟩
    · obtain ⟨k, hk, hck⟩ := ih s hm; exact ⟨k, List.mem_cons_of_mem _ hk, hck⟩
  | skip _ ih =>
    intro s hs
    obtain ⟨k, hk, hck⟩ := ih s hs; exact ⟨k, List.mem_cons_of_mem _ hk, hck⟩

theorem built_aligned_facts (flags : Nat) (cx : TxCtx) (sc : Bytes) (sv : SigVersion) {sigs keys : List Bytes}
    (hal : Aligned (BuiltBySecp cx sc sv) sigs keys) :
    ∀ s ∈ sigs, checkSignatureEncoding flags s = .ok () ∧ 9 ≤ s.length ∧ s.length ≤ 73 := by
  intro s hs
  obtain ⟨k, _, hb⟩ := aligned_forall_sig hal s hs
  have := builtBySecp_facts flags cx sc sv s k hb
  exact ⟨this.2.1, this.2.2.1, this.2.2.2.1⟩

/-- **T1 end to end on secp256k1 (p2wsh k-of-n multisig), on what the library builds**: `henc`, `hsl` and the key
    read-back are proved of every signature; `hkeys` (ALL n keys compressed, incl. the non-signers') stays. -/
theorem closure_multisig_p2wsh_secp256k1_built (flags : Nat) (cx : TxCtx) (h : Bytes) (keys sigs : List Bytes)
    (hl : h.length = 32) (hW : has flags FLAG_WITNESS = true) (hnz : castToBool h = true)
    (hh : sha256 (multisig sigs.length keys) = h)
    (hn : 1 ≤ keys.length ∧ keys.length ≤ 16) (hk : 1 ≤ sigs.length ∧ sigs.length ≤ keys.length)
    (hkeys : ∀ x ∈ keys, isCompressedPubKey x = true)
    (hal : Aligned (BuiltBySecp cx (multisig sigs.length keys) .WITNESS_V0) sigs keys) :
    verifyScript (envOf secpCrypto flags cx) [] (p2wsh h) (([] :: sigs) ++ [multisig sigs.length keys]) = .ok () := by
  have hf := built_aligned_facts flags cx _ _ hal
  exact closure_multisig_p2wsh_secp256k1 flags cx h keys sigs hl hW hnz hh hn hk hkeys
    (fun s hs => by have := (hf s hs).2.2; omega)
    (aligned_mono (fun sig pk hb => (builtBySecp_facts flags cx _ _ sig pk hb).1) hal)
    (fun s hs => (hf s hs).1)

/-- **T1 end to end on secp256k1 (p2sh-p2wsh k-of-n multisig), on what the library builds**. -/
theorem closure_multisig_p2sh_p2wsh_secp256k1_built (flags : Nat) (cx : TxCtx) (h hr : Bytes) (keys sigs : List Bytes)
    (hl : h.length = 32) (hrl : hr.length = 20)
    (hP : has flags FLAG_P2SH = true) (hW : has flags FLAG_WITNESS = true) (hnz : castToBool h = true)
    (hhr : ripemd160 (sha256 (p2wsh h)) = hr) (hh : sha256 (multisig sigs.length keys) = h)
    (hn : 1 ≤ keys.length ∧ keys.length ≤ 16) (hk : 1 ≤ sigs.length ∧ sigs.length ≤ keys.length)
    (hkeys : ∀ x ∈ keys, isCompressedPubKey x = true)
    (hal : Aligned (BuiltBySecp cx (multisig sigs.length keys) .WITNESS_V0) sigs keys) :
    verifyScript (envOf secpCrypto flags cx) (serializePushes [p2wsh h]) (p2sh hr)
      (([] :: sigs) ++ [multisig sigs.length keys]) = .ok () := by
  have hf := built_aligned_facts flags cx _ _ hal
  exact closure_multisig_p2sh_p2wsh_secp256k1 flags cx h hr keys sigs hl hrl hP hW hnz hhr hh hn hk hkeys
    (fun s hs => by have := (hf s hs).2.2; omega)
    (aligned_mono (fun sig pk hb => (builtBySecp_facts flags cx _ _ sig pk hb).1) hal)
    (fun s hs => (hf s hs).1)

/-- **T1 end to end on secp256k1 (bare k-of-n multisig), on what the library builds**; `hsc` (FindAndDelete finds no
    pushed signature) and `hkeys` stay. -/
theorem closure_multisig_bare_secp256k1_built (flags : Nat) (cx : TxCtx) (keys sigs : List Bytes)
    (hn : 1 ≤ keys.length ∧ keys.length ≤ 16) (hk : 1 ≤ sigs.length ∧ sigs.length ≤ keys.length)
    (hkeys : ∀ x ∈ keys, isCompressedPubKey x = true)
    (hsc : multisigScriptCode (evalCtx (envOf secpCrypto flags cx) .BASE (multisig sigs.length keys)) sigs.reverse
      (multisig sigs.length keys) = .ok (multisig sigs.length keys))
    (hal : Aligned (BuiltBySecp cx (multisig sigs.length keys) .BASE) sigs keys) :
    verifyScript (envOf secpCrypto flags cx) (serializePushes ([] :: sigs)) (multisig sigs.length keys) [] = .ok () := by
  have hf := built_aligned_facts flags cx _ _ hal
  exact closure_multisig_bare_secp256k1 flags cx keys sigs hn hk hkeys
    (fun s hs => by have h1 := (hf s hs).2.1; have h2 := (hf s hs).2.2; omega) hsc
    (aligned_mono (fun sig pk hb => (builtBySecp_facts flags cx _ _ sig pk hb).1) hal)
    (fun s hs => (hf s hs).1)

/-- **T1 end to end on secp256k1 (legacy p2sh k-of-n multisig, n ≤ 15), on what the library builds**; `hsc`, `hkeys` stay. -/
theorem closure_multisig_p2sh_secp256k1_built (flags : Nat) (cx : TxCtx) (hr : Bytes) (keys sigs : List Bytes)
    (hrl : hr.length = 20) (hP : has flags FLAG_P2SH = true)
    (hhr : ripemd160 (sha256 (multisig sigs.length keys)) = hr)
    (hn : 1 ≤ keys.length ∧ keys.length ≤ 15) (hk : 1 ≤ sigs.length ∧ sigs.length ≤ keys.length)
    (hkeys : ∀ x ∈ keys, isCompressedPubKey x = true)
    (hsc : multisigScriptCode (evalCtx (envOf secpCrypto flags cx) .BASE (multisig sigs.length keys)) sigs.reverse
      (multisig sigs.length keys) = .ok (multisig sigs.length keys))
    (hal : Aligned (BuiltBySecp cx (multisig sigs.length keys) .BASE) sigs keys) :
    verifyScript (envOf secpCrypto flags cx) (serializePushes (([] :: sigs) ++ [multisig sigs.length keys])) (p2sh hr) [] =
      .ok () := by
  have hf := built_aligned_facts flags cx _ _ hal
  exact closure_multisig_p2sh_secp256k1 flags cx hr keys sigs hrl hP hhr hn hk hkeys
    (fun s hs => by have h1 := (hf s hs).2.1; have h2 := (hf s hs).2.2; omega) hsc
    (aligned_mono (fun sig pk hb => (builtBySecp_facts flags cx _ _ sig pk hb).1) hal)
    (fun s hs => (hf s hs).1)

/-! ### the six wrapped pk / pkh shapes on what the library builds -/

/-- the compressed SEC octets the library writes for the key `q` -/
abbrev builtKey (q : Int) : Bytes := secpCompressedKey ((EC.ops EC.secp256k1).mul q EC.secp256k1.G)

/-- FindAndDelete's side condition for `<key> CHECKSIG` scripts: a DER element (first byte 0x30) is never the key (02 / 03) -/
theorem built_sig_ne_key (q : Int) (ht : Nat) (der : Bytes) (h8 : 8 ≤ der.length) (h30 : getB der 0 = 0x30) :
    der ++ [UInt8.ofNat ht] ≠ builtKey q := by
  intro e
  have h0 : getB (der ++ [UInt8.ofNat ht]) 0 = 0x30 := by
    rw [getB_append_left der _ 0 (by omega)]; exact h30
  rw [e] at h0
  rcases secpCompressedKey_head ((EC.ops EC.secp256k1).mul q EC.secp256k1.G) with h2 | h2 <;>
    · rw [h2] at h0; exact absurd h0 (by decide)

/-- **T1 end to end on secp256k1 (wsh(pk)), on what the library builds**. -/
theorem closure_wsh_pk_secp256k1_built (vk : Bytes → Bool) (flags : Nat) (cx : TxCtx) (h : Bytes) (ht : Nat)
    (hht : ht < 256) (hd : 1 ≤ ht % 128 ∧ ht % 128 ≤ 3) {q k r s kid : Int} (hq : 0 < q ∧ q < EC.secp256k1.n)
    (hl : h.length = 32) (hW : has flags FLAG_WITNESS = true) (hnz : castToBool h = true)
    (hh : sha256 (p2pk (builtKey q)) = h)
    (hk : 0 < k ∧ k < EC.secp256k1.n)
    (hsign : Ecdsa.signRecoverable (EC.ops EC.secp256k1)
      (Rfc6979.challenge EC.secp256k1.n (engineEcdsaDigest secpCrypto cx (p2pk (builtKey q)) .WITNESS_V0 ht)) q k true = .ok (r, s, kid))
    (der : Bytes) (hder : Der.serialize r s = .ok der) :
    ∃ ss wit, finalizedInput vk ⟨some (p2wsh h), [], p2pk (builtKey q), [(builtKey q, der ++ [UInt8.ofNat ht])]⟩ = .ok (ss, wit) ∧
      verifyScript (envOf secpCrypto flags cx) ss (p2wsh h) wit = .ok () := by
  obtain ⟨henc, h8, h72, h30⟩ := built_sig_passes_encoding flags ht hht hd hk hsign der hder
  exact closure_wsh_pk_secp256k1 vk flags cx h _ ht hht hl hW hnz hh (secpCompressedKey_compressed _)
    (secpParsePub_built q hq) hk hsign der hder (by simp only [Gen.VarInt.MAX_SIZE]; omega) henc
    (by simp only [List.length_append, List.length_singleton]; omega)

/-- **T1 end to end on secp256k1 (sh(wsh(pk))), on what the library builds**. -/
theorem closure_sh_wsh_pk_secp256k1_built (vk : Bytes → Bool) (flags : Nat) (cx : TxCtx) (h hr : Bytes) (ht : Nat)
    (hht : ht < 256) (hd : 1 ≤ ht % 128 ∧ ht % 128 ≤ 3) {q k r s kid : Int} (hq : 0 < q ∧ q < EC.secp256k1.n)
    (hl : h.length = 32) (hrl : hr.length = 20) (hP : has flags FLAG_P2SH = true)
    (hW : has flags FLAG_WITNESS = true) (hnz : castToBool h = true)
    (hhr : ripemd160 (sha256 (p2wsh h)) = hr) (hh : sha256 (p2pk (builtKey q)) = h)
    (hk : 0 < k ∧ k < EC.secp256k1.n)
    (hsign : Ecdsa.signRecoverable (EC.ops EC.secp256k1)
      (Rfc6979.challenge EC.secp256k1.n (engineEcdsaDigest secpCrypto cx (p2pk (builtKey q)) .WITNESS_V0 ht)) q k true = .ok (r, s, kid))
    (der : Bytes) (hder : Der.serialize r s = .ok der) :
    ∃ ss wit, finalizedInput vk ⟨some (p2sh hr), p2wsh h, p2pk (builtKey q), [(builtKey q, der ++ [UInt8.ofNat ht])]⟩ = .ok (ss, wit) ∧
      verifyScript (envOf secpCrypto flags cx) ss (p2sh hr) wit = .ok () := by
  obtain ⟨henc, h8, h72, h30⟩ := built_sig_passes_encoding flags ht hht hd hk hsign der hder
  exact closure_sh_wsh_pk_secp256k1 vk flags cx h hr _ ht hht hl hrl hP hW hnz hhr hh (secpCompressedKey_compressed _)
    (secpParsePub_built q hq) hk hsign der hder (by simp only [Gen.VarInt.MAX_SIZE]; omega) henc
    (by simp only [List.length_append, List.length_singleton]; omega)

/-- **T1 end to end on secp256k1 (sh(pk); no byte-level hypothesis left besides the hash160 commitment), on what the library builds**. -/
theorem closure_sh_pk_secp256k1_built (vk : Bytes → Bool) (flags : Nat) (cx : TxCtx) (hr : Bytes) (ht : Nat)
    (hht : ht < 256) (hd : 1 ≤ ht % 128 ∧ ht % 128 ≤ 3) {q k r s kid : Int} (hq : 0 < q ∧ q < EC.secp256k1.n)
    (hrl : hr.length = 20) (hP : has flags FLAG_P2SH = true)
    (hhr : ripemd160 (sha256 (p2pk (builtKey q))) = hr)
    (hk : 0 < k ∧ k < EC.secp256k1.n)
    (hsign : Ecdsa.signRecoverable (EC.ops EC.secp256k1)
      (Rfc6979.challenge EC.secp256k1.n (engineEcdsaDigest secpCrypto cx (p2pk (builtKey q)) .BASE ht)) q k true = .ok (r, s, kid))
    (der : Bytes) (hder : Der.serialize r s = .ok der) :
    ∃ ss wit, finalizedInput vk ⟨some (p2sh hr), p2pk (builtKey q), [], [(builtKey q, der ++ [UInt8.ofNat ht])]⟩ = .ok (ss, wit) ∧
      verifyScript (envOf secpCrypto flags cx) ss (p2sh hr) wit = .ok () := by
  obtain ⟨henc, h8, h72, h30⟩ := built_sig_passes_encoding flags ht hht hd hk hsign der hder
  exact closure_sh_pk_secp256k1 vk flags cx hr _ ht hht hrl hP hhr (secpCompressedKey_compressed _)
    (secpParsePub_built q hq) hk hsign der hder (by simp only [Gen.VarInt.MAX_SIZE]; omega) henc
    (by simp only [List.length_append, List.length_singleton]; omega)
    (by simp only [List.length_append, List.length_singleton]; omega) (built_sig_ne_key q ht der h8 h30)

/-- **T1 end to end on secp256k1 (wsh(pkh)), on what the library builds**. -/
theorem closure_wsh_pkh_secp256k1_built (vk : Bytes → Bool) (flags : Nat) (cx : TxCtx) (h h20 : Bytes) (ht : Nat)
    (hht : ht < 256) (hd : 1 ≤ ht % 128 ∧ ht % 128 ≤ 3) {q k r s kid : Int} (hq : 0 < q ∧ q < EC.secp256k1.n)
    (hl : h.length = 32) (hl20 : h20.length = 20) (hW : has flags FLAG_WITNESS = true)
    (hnz : castToBool h = true) (hh : sha256 (p2pkh h20) = h) (hh20 : ripemd160 (sha256 (builtKey q)) = h20)
    (hk : 0 < k ∧ k < EC.secp256k1.n)
    (hsign : Ecdsa.signRecoverable (EC.ops EC.secp256k1)
      (Rfc6979.challenge EC.secp256k1.n (engineEcdsaDigest secpCrypto cx (p2pkh h20) .WITNESS_V0 ht)) q k true = .ok (r, s, kid))
    (der : Bytes) (hder : Der.serialize r s = .ok der) :
    ∃ ss wit, finalizedInput vk ⟨some (p2wsh h), [], p2pkh h20, [(builtKey q, der ++ [UInt8.ofNat ht])]⟩ = .ok (ss, wit) ∧
      verifyScript (envOf secpCrypto flags cx) ss (p2wsh h) wit = .ok () := by
  obtain ⟨henc, h8, h72, h30⟩ := built_sig_passes_encoding flags ht hht hd hk hsign der hder
  exact closure_wsh_pkh_secp256k1 vk flags cx h h20 _ ht hht hl hl20 hW hnz hh hh20 (secpCompressedKey_compressed _)
    (secpParsePub_built q hq) hk hsign der hder (by simp only [Gen.VarInt.MAX_SIZE]; omega) henc
    (by simp only [List.length_append, List.length_singleton]; omega)

/-- **T1 end to end on secp256k1 (sh(wsh(pkh))), on what the library builds**. -/
theorem closure_sh_wsh_pkh_secp256k1_built (vk : Bytes → Bool) (flags : Nat) (cx : TxCtx) (h hr h20 : Bytes) (ht : Nat)
    (hht : ht < 256) (hd : 1 ≤ ht % 128 ∧ ht % 128 ≤ 3) {q k r s kid : Int} (hq : 0 < q ∧ q < EC.secp256k1.n)
    (hl : h.length = 32) (hrl : hr.length = 20) (hl20 : h20.length = 20)
    (hP : has flags FLAG_P2SH = true) (hW : has flags FLAG_WITNESS = true) (hnz : castToBool h = true)
    (hhr : ripemd160 (sha256 (p2wsh h)) = hr) (hh : sha256 (p2pkh h20) = h) (hh20 : ripemd160 (sha256 (builtKey q)) = h20)
    (hk : 0 < k ∧ k < EC.secp256k1.n)
    (hsign : Ecdsa.signRecoverable (EC.ops EC.secp256k1)
      (Rfc6979.challenge EC.secp256k1.n (engineEcdsaDigest secpCrypto cx (p2pkh h20) .WITNESS_V0 ht)) q k true = .ok (r, s, kid))
    (der : Bytes) (hder : Der.serialize r s = .ok der) :
    ∃ ss wit, finalizedInput vk ⟨some (p2sh hr), p2wsh h, p2pkh h20, [(builtKey q, der ++ [UInt8.ofNat ht])]⟩ = .ok (ss, wit) ∧
      verifyScript (envOf secpCrypto flags cx) ss (p2sh hr) wit = .ok () := by
  obtain ⟨henc, h8, h72, h30⟩ := built_sig_passes_encoding flags ht hht hd hk hsign der hder
  exact closure_sh_wsh_pkh_secp256k1 vk flags cx h hr h20 _ ht hht hl hrl hl20 hP hW hnz hhr hh hh20 (secpCompressedKey_compressed _)
    (secpParsePub_built q hq) hk hsign der hder (by simp only [Gen.VarInt.MAX_SIZE]; omega) henc
    (by simp only [List.length_append, List.length_singleton]; omega)

/-- **T1 end to end on secp256k1 (sh(pkh); `hne` (element ≠ the 20-byte hash) stays), on what the library builds**. -/
theorem closure_sh_pkh_secp256k1_built (vk : Bytes → Bool) (flags : Nat) (cx : TxCtx) (hr h20 : Bytes) (ht : Nat)
    (hht : ht < 256) (hd : 1 ≤ ht % 128 ∧ ht % 128 ≤ 3) {q k r s kid : Int} (hq : 0 < q ∧ q < EC.secp256k1.n)
    (hrl : hr.length = 20) (hl20 : h20.length = 20) (hP : has flags FLAG_P2SH = true)
    (hhr : ripemd160 (sha256 (p2pkh h20)) = hr) (hh20 : ripemd160 (sha256 (builtKey q)) = h20)
    (hk : 0 < k ∧ k < EC.secp256k1.n)
    (hsign : Ecdsa.signRecoverable (EC.ops EC.secp256k1)
      (Rfc6979.challenge EC.secp256k1.n (engineEcdsaDigest secpCrypto cx (p2pkh h20) .BASE ht)) q k true = .ok (r, s, kid))
    (der : Bytes) (hder : Der.serialize r s = .ok der)
    (hne : der ++ [UInt8.ofNat ht] ≠ h20) :
    ∃ ss wit, finalizedInput vk ⟨some (p2sh hr), p2pkh h20, [], [(builtKey q, der ++ [UInt8.ofNat ht])]⟩ = .ok (ss, wit) ∧
      verifyScript (envOf secpCrypto flags cx) ss (p2sh hr) wit = .ok () := by
  obtain ⟨henc, h8, h72, h30⟩ := built_sig_passes_encoding flags ht hht hd hk hsign der hder
  exact closure_sh_pkh_secp256k1 vk flags cx hr h20 _ ht hht hrl hl20 hP hhr hh20 (secpCompressedKey_compressed _)
    (secpParsePub_built q hq) hk hsign der hder (by simp only [Gen.VarInt.MAX_SIZE]; omega) henc
    (by simp only [List.length_append, List.length_singleton]; omega)
    (by simp only [List.length_append, List.length_singleton]; omega) hne

/-! ### BIP322 on what the library builds -/

/-- **T3 (BIP322 simple, p2wpkh address), on what the library builds**: key octets `builtKey q`, signature
    DER(sign low-s) ‖ ht; no encoding hypothesis. -/
theorem bip322_simple_p2wpkh_secp256k1_built (flags : Nat) (msg h : Bytes) (ht : Nat)
    (hht : ht < 256) (hd : 1 ≤ ht % 128 ∧ ht % 128 ≤ 3) {q k r s kid : Int} (hq : 0 < q ∧ q < EC.secp256k1.n)
    (hl : h.length = 20) (hW : has flags FLAG_WITNESS = true) (hnz : castToBool h = true)
    (hh : ripemd160 (sha256 (builtKey q)) = h)
    (hk : 0 < k ∧ k < EC.secp256k1.n)
    (hsign : Ecdsa.signRecoverable (EC.ops EC.secp256k1)
      (Rfc6979.challenge EC.secp256k1.n
        (engineEcdsaDigest secpCrypto (Bip322.signCtx secpCrypto msg (p2wpkh h)) (p2pkh h) .WITNESS_V0 ht)) q k true =
        .ok (r, s, kid))
    (der : Bytes) (hder : Der.serialize r s = .ok der) :
    Bip322.verifySimple secpCrypto flags msg (p2wpkh h) [] [der ++ [UInt8.ofNat ht], builtKey q] = .ok () := by
  obtain ⟨henc, h8, h72, _⟩ := built_sig_passes_encoding flags ht hht hd hk hsign der hder
  exact bip322_simple_p2wpkh_secp256k1 flags msg h _ ht hht hl hW hnz hh (secpCompressedKey_compressed _)
    (secpParsePub_built q hq) hk hsign der hder (by simp only [Gen.VarInt.MAX_SIZE]; omega) henc
    (by simp only [List.length_append, List.length_singleton]; omega)

/-- **T3 (BIP322, p2sh-p2wpkh address), on what the library builds**. -/
theorem bip322_p2sh_p2wpkh_secp256k1_built (flags : Nat) (msg h hr : Bytes) (ht : Nat)
    (hht : ht < 256) (hd : 1 ≤ ht % 128 ∧ ht % 128 ≤ 3) {q k r s kid : Int} (hq : 0 < q ∧ q < EC.secp256k1.n)
    (hl : h.length = 20) (hrl : hr.length = 20)
    (hP : has flags FLAG_P2SH = true) (hW : has flags FLAG_WITNESS = true) (hnz : castToBool h = true)
    (hhr : ripemd160 (sha256 (p2wpkh h)) = hr) (hh : ripemd160 (sha256 (builtKey q)) = h)
    (hk : 0 < k ∧ k < EC.secp256k1.n)
    (hsign : Ecdsa.signRecoverable (EC.ops EC.secp256k1)
      (Rfc6979.challenge EC.secp256k1.n
        (engineEcdsaDigest secpCrypto (Bip322.signCtx secpCrypto msg (p2sh hr)) (p2pkh h) .WITNESS_V0 ht)) q k true =
        .ok (r, s, kid))
    (der : Bytes) (hder : Der.serialize r s = .ok der) :
    Bip322.verifySimple secpCrypto flags msg (p2sh hr) (pushData (p2wpkh h)) [der ++ [UInt8.ofNat ht], builtKey q] =
      .ok () := by
  obtain ⟨henc, h8, h72, _⟩ := built_sig_passes_encoding flags ht hht hd hk hsign der hder
  exact bip322_p2sh_p2wpkh_secp256k1 flags msg h hr _ ht hht hl hrl hP hW hnz hhr hh (secpCompressedKey_compressed _)
    (secpParsePub_built q hq) hk hsign der hder (by simp only [Gen.VarInt.MAX_SIZE]; omega) henc
    (by simp only [List.length_append, List.length_singleton]; omega)

/-- **T3 (BIP322, p2pkh address), on what the library builds**; `hne` (element ≠ the 20-byte hash) stays. -/
theorem bip322_p2pkh_secp256k1_built (flags : Nat) (msg h : Bytes) (ht : Nat)
    (hht : ht < 256) (hd : 1 ≤ ht % 128 ∧ ht % 128 ≤ 3) {q k r s kid : Int} (hq : 0 < q ∧ q < EC.secp256k1.n)
    (hl : h.length = 20) (hh : ripemd160 (sha256 (builtKey q)) = h)
    (hk : 0 < k ∧ k < EC.secp256k1.n)
    (hsign : Ecdsa.signRecoverable (EC.ops EC.secp256k1)
      (Rfc6979.challenge EC.secp256k1.n
        (engineEcdsaDigest secpCrypto (Bip322.signCtx secpCrypto msg (p2pkh h)) (p2pkh h) .BASE ht)) q k true =
        .ok (r, s, kid))
    (der : Bytes) (hder : Der.serialize r s = .ok der)
    (hne : der ++ [UInt8.ofNat ht] ≠ h) :
    Bip322.verifySimple secpCrypto flags msg (p2pkh h) (pushData (der ++ [UInt8.ofNat ht]) ++ pushData (builtKey q)) [] =
      .ok () := by
  obtain ⟨henc, h8, h72, _⟩ := built_sig_passes_encoding flags ht hht hd hk hsign der hder
  exact bip322_p2pkh_secp256k1 flags msg h _ ht hht hl hh (secpCompressedKey_compressed _)
    (secpParsePub_built q hq) hk hsign der hder (by simp only [Gen.VarInt.MAX_SIZE]; omega) henc
    (by simp only [List.length_append, List.length_singleton]; omega)
    (by simp only [List.length_append, List.length_singleton]; omega) hne

/-! ### the three wsh(miniscript) templates on what the library builds (`BuiltBySecp`: encoding, size and compressed key proved) -/

theorem closure_wsh_andv_pk_pk_secp256k1_built (flags : Nat) (cx : TxCtx) (h a b sa sb : Bytes) (hl : h.length = 32)
    (hW : has flags FLAG_WITNESS = true) (hnz : castToBool h = true)
    (hh : sha256 (andvPkPk a b) = h)
    (hsa : BuiltBySecp cx (andvPkPk a b) .WITNESS_V0 sa a) (hsb : BuiltBySecp cx (andvPkPk a b) .WITNESS_V0 sb b) :
    verifyScript (envOf secpCrypto flags cx) [] (p2wsh h) [sb, sa, andvPkPk a b] = .ok () := by
  obtain ⟨ma, ea, _, la, ka⟩ := builtBySecp_facts flags cx _ _ sa a hsa
  obtain ⟨mb, eb, _, lb, kb⟩ := builtBySecp_facts flags cx _ _ sb b hsb
  exact closure_wsh_andv_pk_pk_secp256k1 flags cx h a b sa sb hl hW hnz hh ea eb (by omega) (by omega) ka kb ma mb

/-- both satisfactions of wsh(or_d(pk(A),pkh(B))); `hka` (A's octets compressed) stays for the right branch, where A
    does not sign -/
theorem closure_wsh_ord_pk_pkh_secp256k1_built (flags : Nat) (cx : TxCtx) (h a hb : Bytes) (hl : h.length = 32)
    (hlb : hb.length = 20) (hW : has flags FLAG_WITNESS = true) (hnz : castToBool h = true)
    (hh : sha256 (ordPkPkh a hb) = h) (hka : isCompressedPubKey a = true) :
    (∀ sa, BuiltBySecp cx (ordPkPkh a hb) .WITNESS_V0 sa a →
      verifyScript (envOf secpCrypto flags cx) [] (p2wsh h) [sa, ordPkPkh a hb] = .ok ()) ∧
    (∀ b sb, ripemd160 (sha256 b) = hb → BuiltBySecp cx (ordPkPkh a hb) .WITNESS_V0 sb b →
      verifyScript (envOf secpCrypto flags cx) [] (p2wsh h) [sb, b, [], ordPkPkh a hb] = .ok ()) := by
  obtain ⟨hL, hR⟩ := closure_wsh_ord_pk_pkh_secp256k1 flags cx h a hb hl hlb hW hnz hh hka
  refine ⟨fun sa hsa => ?_, fun b sb hhb hsb => ?_⟩
  · obtain ⟨ma, ea, _, la, _⟩ := builtBySecp_facts flags cx _ _ sa a hsa
    exact hL sa ea (by omega) ma
  · obtain ⟨mb, eb, _, lb, kb⟩ := builtBySecp_facts flags cx _ _ sb b hsb
    exact hR b sb hhb kb eb (by omega) mb

theorem closure_wsh_andv_pk_older_secp256k1_built (flags : Nat) (cx : TxCtx) (h a sa : Bytes) (n : Nat)
    (hn : 1 ≤ n ∧ n ≤ 16) (hl : h.length = 32) (hW : has flags FLAG_WITNESS = true) (hnz : castToBool h = true)
    (hh : sha256 (andvPkOlder a n) = h)
    (hsa : BuiltBySecp cx (andvPkOlder a n) .WITNESS_V0 sa a)
    (hseq : has flags FLAG_CHECKSEQUENCEVERIFY = true →
      checkSequence (evalCtx (envOf secpCrypto flags cx) .WITNESS_V0 (andvPkOlder a n)) (n : Int) = true) :
    verifyScript (envOf secpCrypto flags cx) [] (p2wsh h) [sa, andvPkOlder a n] = .ok () := by
  obtain ⟨ma, ea, _, la, ka⟩ := builtBySecp_facts flags cx _ _ sa a hsa
  exact closure_wsh_andv_pk_older_secp256k1 flags cx h a sa n hn hl hW hnz hh ea (by omega) ka ma hseq

/-- non-vacuity of the `_built` forms, by the KERNEL: the concrete p2wpkh spend of `Proofs/C10/Example.lean` (its key
    octets ARE `secpCompressedKey (q·G)`: `Ex.hbuilt`) satisfies every hypothesis of `closure_p2wpkh_secp256k1_built`
    under all twenty-one flags -/
example : ∃ ss wit, finalizedInput (fun _ => true) ⟨some (p2wpkh Ex.h), [], [],
      [(secpCompressedKey ((EC.ops EC.secp256k1).mul Ex.q EC.secp256k1.G), Ex.der ++ [UInt8.ofNat 1])]⟩ = .ok (ss, wit) ∧
    verifyScript (envOf secpCrypto Gen.Spend.EVERY_FLAG Ex.cx) ss (p2wpkh Ex.h) wit = .ok () :=
  closure_p2wpkh_secp256k1_built (fun _ => true) Gen.Spend.EVERY_FLAG Ex.cx Ex.h 1 (by decide) (by decide) Ex.hq
    (by decide) (by decide) (by decide) (by rw [Ex.hbuilt]; exact Ex.hh) Ex.hk Ex.hsign Ex.der Ex.hder

end Props.C10
