import Proofs.C01.Ladders
import Proofs.C01.Arith
import Proofs.C01.Entry
import Proofs.C01.JacRefine
import Proofs.C01.JacMult
import Proofs.C01.CapstoneLadders
import Proofs.C01.CapstoneCofactor
import Proofs.C01.CapstoneToy
import Proofs.C01.CapstoneLadders2
import Proofs.C01.GlvGen
import Proofs.C01.NumberTheory
import Proofs.C01.Sqrt
import Proofs.C01.Jacobi
import Proofs.C01.Totality
import Proofs.C01.EntrySecp
import Proofs.C01.Endo
import Proofs.C01.EndoSecp
import Proofs.C01.Sec
import Proofs.C01.Entry2
import Proofs.C01.CapstoneEntry2
import Proofs.C01.Ctor
import Proofs.C01.CapstoneCtor
import Proofs.C01.Totality2
import Proofs.C01.Tonelli
import Proofs.C01.Sec2
import Proofs.C01.Catalogue
/-!
# C01 — curve and field arithmetic compute exactly the group law (DESIGN.md §3 C01)

Property theorems only.  Layout of the argument:

* T1 (`add_jac_refines` …, proved in `Proofs/C01/JacRefine.lean`): btclib's branch-free Jacobian formulas over
  `Int` with Python's `%` (`Model/Common/EC.lean`, tied to the code by the exhaustive `jac.*` streams) compute
  the group law of Mathlib's elliptic-curve point group over `ZMod p`.
* T2 the integer recodings are exact for ALL `m`, `w`, digit counts.
* T3–T6 every ladder of `Model/C01/Ladders.lean` (tied to the private functions by exact-Jacobian streams),
  written once over `JacOps`, returns `m • P` / `Σ uᵢ • Pᵢ` under the hypothesis `JacRel` — the operations
  represent an additive commutative group — which is what T1 establishes for btclib's formulas.
* T7 GLV identities on the GENERATED secp256k1 constants.  T9 the modular inverse.
-/
namespace Props.C01
open Btc.C01 Btc.EC

/-! ## T1 — the Jacobian formulas are the group law (re-exported from Proofs/C01/JacRefine.lean) -/
section T1
variable {p : ℕ} [Fact p.Prime] {c : CurveGroup} (hp : c.p = (p : ℤ))
include hp

/-- `add_jac`, every case: stand-ins for infinity (any `Z = 0` triple, `INFJ` and `(5,0,0)` included, so
p ∈ {5,7} too), equal x with equal / opposite y, generic chord -/
theorem add_jac_refines (Q R : JacPoint) (hQ : JValid p c Q) (hR : JValid p c R) :
    JValid p c (addJac c Q R) ∧ absJ p c (addJac c Q R) = absJ p c Q + absJ p c R :=
  ⟨addJac_valid hp Q R hQ hR, addJac_refines hp Q R hQ hR⟩

theorem add_jac_aff_refines (Q : JacPoint) (R : Point) (hQ : JValid p c Q) (hR : AValid p c R) :
    JValid p c (addJacAff c Q R) ∧ absJ p c (addJacAff c Q R) = absJ p c Q + absA p c R :=
  ⟨addJacAff_valid hp Q R hQ hR, addJacAff_refines hp Q R hQ hR⟩

/-- `double_jac`, all three spellings of `a·Z⁴` (the model selects them as the constructor does) -/
theorem double_jac_refines (Q : JacPoint) (hQ : JValid p c Q) :
    JValid p c (doubleJac c Q) ∧ absJ p c (doubleJac c Q) = absJ p c Q + absJ p c Q :=
  ⟨doubleJac_valid hp Q hQ, doubleJac_refines hp Q hQ⟩

theorem negate_jac_refines (Q : JacPoint) (hQ : JValid p c Q) :
    JValid p c (negateJac c Q) ∧ absJ p c (negateJac c Q) = -absJ p c Q :=
  ⟨negateJac_valid hp Q hQ, negateJac_refines hp Q hQ⟩
end T1

/-- About the REFERENCE ladder `Btc.EC.mult` (plain double-and-add in `Model/Common/EC.lean`, what every scheme-level
driver runs) — NOT about the route btclib's public `mult` takes (fixed base / regular window / GLV: see `mult_entry`,
`mult_entry_given_endo_law`; that the two agree on secp256k1 is tied by the `curve.entry.secp256k1.*` streams).
T8 for that reference multiplication (`Btc.EC.mult`):
`mult m Q = (m mod n) • Q` in Mathlib's point group, every integer `m`, every valid `Q` incl. infinity -/
theorem ec_mult_refines {p : ℕ} [Fact p.Prime] (C : Curve) (hC : C.p = (p : ℤ)) (h2 : NoTwoTorsion p C.toCurveGroup)
    (m : ℤ) (Q : Point) (hQ : AValid p C.toCurveGroup Q) :
    ∃ A : Point, mult C m Q = some A ∧ AValid p C.toCurveGroup A ∧
      absA p C.toCurveGroup A = (m % C.n).toNat • absA p C.toCurveGroup Q :=
  mult_refines C hC h2 m Q hQ

/-! ## T2 — recodings -/

/-- `signed_odd_digits(m, w, size)`: whenever it answers, `Σ dᵢ·2^(w·i) = m`, every digit is odd with
`|dᵢ| < 2^w`, there are exactly `size` of them; for ALL `m`, `w`, `size` -/
theorem signed_odd_digits_sum {m : ℤ} {w size : Nat} {ds : List ℤ} (h : signedOddDigits m w size = some ds) :
    evalLE w ds = m ∧ (∀ d ∈ ds, d % 2 = 1 ∧ -(2 : ℤ) ^ w < d ∧ d < (2 : ℤ) ^ w) ∧ ds.length = size := by
  obtain ⟨hev, hgood, _⟩ := signedOddDigits_spec h
  obtain ⟨_, _, _, hs, _, hdig⟩ := signedOddDigits_some h
  exact ⟨hev, hgood, by rw [hdig, sodLoop_length]; omega⟩

example : signedOddDigits 11 2 3 = some [-1, -1, 1] := by decide

/-- the recoding loop sums back to `m` for EVERY integer `m` (odd or not, fitting or not) -/
theorem signed_odd_digits_loop_sum (w k : Nat) (m : ℤ) : evalLE w (sodLoop w k m) = m := sodLoop_eval w k m

/-- `_wNAF_of_m(m, w)`: `Σ dᵢ·2ⁱ = m`; digits zero or odd with `|dᵢ| < 2^(w-1)` (`{0, ±1}` for `w = 1`) -/
theorem wnaf_sum (w : Nat) (hw : 1 ≤ w) (m : Nat) :
    evalLE 1 (wnaf w m) = m ∧ ∀ d ∈ wnaf w m, NafDigit w d := wnaf_spec w hw m

example : wnaf 3 7 = [-1, 0, 0, 1] := by decide

/-- `_convert_number_to_base(m, b)`: the digits are base-`b` digits of `m` -/
theorem base_digits (b m : Nat) (hb : 2 ≤ b) : evalMSB b 0 (toBase b m) = m ∧ ∀ d ∈ toBase b m, d < b :=
  ⟨toBase_eval b m hb, toBase_lt b m hb⟩

/-! ## T3 — one theorem per ladder, generic over the curve -/
section Ladders
variable {α β G : Type} [AddCommGroup G] {o : JacOps α β} (L : JacRel o G)

theorem mult_recursive_jac (m : Nat) {Q : α} {g : G} (hQ : L.R Q g) :
    L.R (multRecursiveJac o m Q) ((m : ℤ) • g) := multRecursiveJac_spec L m hQ

theorem mult_jac_var (m : Nat) {Q : α} {g : G} (hQ : L.R Q g) :
    L.R (multJacVar o m Q) ((m : ℤ) • g) := multJacVar_spec L m hQ

theorem mult_mont_ladder (m : Nat) {Q : α} {g : G} (hQ : L.R Q g) :
    L.R (multMontLadder o m Q) ((m : ℤ) • g) := multMontLadder_spec L m hQ

theorem mult_base_3 (m : Nat) {Q : α} {g : G} (hQ : L.R Q g) :
    L.R (multBase3 o m Q) ((m : ℤ) • g) := multBase3_spec L m hQ

/-- `_mult_regular_window(m, Q, ec, w)`: every `m ≥ 0` (even, zero, above `scalar_len` bits: the `m|1`
recoding and the final `+(-Q)` correction included), every `w ≥ 1`, every point incl. infinity -/
theorem mult_regular_window (scalarLen m w : Nat) {Q r : α} {g : G} (hQ : L.R Q g)
    (h : multRegularWindow o scalarLen m Q w = some r) : L.R r ((m : ℤ) • g) :=
  multRegularWindow_spec L scalarLen m w hQ h

/-- `_mult(m, Q, ec)`: the regular window at the GENERATED width `_MULT_W` -/
theorem mult_generated_width (scalarLen m : Nat) {Q r : α} {g : G} (hQ : L.R Q g)
    (h : multRegularWindow o scalarLen m Q Gen.Curves.MULT_W = some r) : L.R r ((m : ℤ) • g) :=
  multRegularWindow_spec L scalarLen m _ hQ h

/-- `_mult_fixed_base(m, Q, ec, w)` (what `mult(m, G)` runs, at the generated `_FIXED_BASE_W`): any blind -/
theorem mult_fixed_base (scalarLen m w : Nat) {lam : ℤ} (hlam : L.blindOk lam) {Q r : α} {g : G} (hQ : L.R Q g)
    (h : multFixedBase o scalarLen lam m Q w = some r) : L.R r ((m : ℤ) • g) :=
  multFixedBase_spec L scalarLen m w hlam hQ h

/-! ## T4, T5, T6 — multi-scalar -/

/-- `_multi_mult_w_NAF_var` / `_double_mult_w_NAF_var`: `Σ uᵢ • Pᵢ`, any list, any `w ≥ 1`, any fixed set -/
theorem multi_mult_wnaf (isFixed : α → Bool) (fixedW w : Nat) (hfw : 1 ≤ fixedW) (scalars : List Nat)
    (points : List α) (hpts : ∀ P ∈ points, ∃ g, L.R P g) {r : α}
    (h : multiMultWNAF o isFixed fixedW scalars points w = some r) :
    L.R r (tsum L (scalars.zip points)) := multiMultWNAF_spec L isFixed fixedW w hfw scalars points hpts h

/-- Bos–Coster: `Σ uᵢ • Pᵢ` for ANY choice the heap makes (any tie-breaking) -/
theorem bos_coster (hf : L.Functional) (sel : Select α) (hsel : SelectOk sel) (scalarLen multW : Nat)
    (scalars : List Nat) (points : List α) (hpts : ∀ P ∈ points, ∃ g, L.R P g) {r : α}
    (h : multiMultBosCoster o sel scalarLen multW scalars points = some r) :
    L.R r (tsum L (scalars.zip points)) :=
  multiMultBosCoster_spec L hf sel hsel scalarLen multW scalars points hpts h

/-- dispatch irrelevance: `_multi_mult_var` at the GENERATED `BOS_COSTER_THRESHOLD` (proved for every threshold) -/
theorem dispatch_irrelevant (hf : L.Functional) (sel : Select α) (hsel : SelectOk sel) (isFixed : α → Bool)
    (fixedW scalarLen : Nat) (hfw : 1 ≤ fixedW) (scalars : List Nat) (points : List α)
    (hpts : ∀ P ∈ points, ∃ g, L.R P g) {r : α}
    (h : multiMultVar o sel isFixed fixedW scalarLen Gen.Curves.MULT_W Gen.Curves.MULTI_MULT_W
      Gen.Curves.BOS_COSTER_THRESHOLD scalars points = some r) :
    L.R r (tsum L (scalars.zip points)) :=
  multiMultVar_spec L hf sel hsel isFixed fixedW scalarLen _ _ _ hfw scalars points hpts h
end Ladders

/-! ## T8 — public entry points (pure-Python path, every curve but secp256k1) -/
section Entry
variable {α β G : Type} [AddCommGroup G]

/-- `mult(m, Q, ec) = m • Q` for EVERY integer `m` (negative, ≥ n, multiples of n), generator and infinity included -/
theorem mult_entry (c : CurveCtx α β) (L : JacRel c.o G) (hsecp : c.isSecp = false) (hn0 : 0 < c.n) {lam : ℤ}
    (hlam : L.blindOk lam) (m : ℤ) {Q A : β} {g : G} (hQ : L.RA Q g)
    (hG : c.eqAff Q c.G = true → L.R c.GJ g) (hn : (c.n : ℤ) • g = 0)
    (h : multEntry c lam m Q = some A) : L.RA A (m • g) := multEntry_spec c L hsecp hn0 hlam m hQ hG hn h

/-- BY CONSTRUCTION of the model (the first `if` of `multEntry` unfolded): a point failing `is_on_curve` is refused
rather than answered.  That the REAL `mult` refuses rests on the `offcurve.refused` oracle and the `curve.entry.*` streams. -/
theorem mult_entry_refuses_off_curve (c : CurveCtx α β) (lam m : ℤ) (Q : β) (hq : c.eqAff Q c.G = false)
    (hoff : c.onCurve Q ≠ some true) : multEntry c lam m Q = none := multEntry_refuses c lam m Q hq hoff

theorem prepared_mult (c : CurveCtx α β) (L : JacRel c.o G) (hsecp : c.isSecp = false) (hn0 : 0 < c.n) {lam : ℤ}
    (hlam : L.blindOk lam) (m : ℤ) {Q A : β} {g : G} (hQ : L.RA Q g)
    (hG : c.eqAff Q c.G = true → L.R c.GJ g) (hn : (c.n : ℤ) • g = 0)
    (h : preparedMult c lam Q m = some A) : L.RA A (m • g) := preparedMult_spec c L hsecp hn0 hlam m hQ hG hn h
end Entry

/-! ### non-vacuity: the hypothesis bundle is satisfiable (integers under addition) and the ladders answer -/

def intOps : JacOps ℤ ℤ where
  zero := 0
  zeroAff := 0
  add := (· + ·)
  addAff := (· + ·)
  dbl x := x + x
  neg x := -x
  negAff x := -x
  jacFromAff x := x
  toAff x := x
  rescale _ x := x
  endo x := x

def intRel : JacRel intOps ℤ where
  R x g := x = g
  RA x g := x = g
  blindOk _ := True
  zero := rfl
  zeroAff := rfl
  add := by intro x y g h hx hy; subst hx; subst hy; rfl
  addAff := by intro x y g h hx hy; subst hx; subst hy; rfl
  dbl := by intro x g hx; subst hx; rfl
  neg := by intro x g hx; subst hx; rfl
  negAff := by intro x g hx; subst hx; rfl
  jacFromAff := by intro x g hx; exact hx
  toAff := by intro x g hx; exact hx
  rescale := by intro l x g _ hx; exact hx

example : intRel.Functional := by intro x g g' h h'; exact h.symm.trans h'
example : multRegularWindow intOps 5 22 3 4 = some 66 := by decide
example : multFixedBase intOps 5 1 22 3 2 = some 66 := by decide

/-! ## T7 — GLV on the generated constants -/

theorem glv_decomposition (m : ℤ) :
    ((multiplierDecomposer m).1 + (multiplierDecomposer m).2 * Gen.Curves.glv_LAM - m) % Gen.Curves.glv_N = 0 :=
  multiplierDecomposer_congr m

theorem glv_constants :
    Gen.Curves.glv_LAM ^ 3 % Gen.Curves.glv_N = 1 ∧ Gen.Curves.glv_BETA ^ 3 % Gen.Curves.secp256k1.p = 1 ∧
    Gen.Curves.glv_LAM % Gen.Curves.glv_N ≠ 1 ∧ Gen.Curves.glv_BETA % Gen.Curves.secp256k1.p ≠ 1 ∧
    Gen.Curves.glv_N = Gen.Curves.secp256k1.n := by
  refine ⟨?_, ?_, glv_lam_ne_one, glv_beta_ne_one, glv_N_is_n⟩
  · rw [pow_succ, pow_two]; exact glv_lam_cube
  · rw [pow_succ, pow_two]; exact glv_beta_cube

/-! ## T9 — number theory -/

/-- `mod_inv_var(a, m)` (`pow(a, -1, m)`): what it returns is the inverse, every `a`, every `m` -/
theorem mod_inv_sound (a m x : ℤ) (h : modInv a m = some x) : 0 ≤ x ∧ x < m ∧ a * x % m = 1 % m :=
  modInv_sound a m x h

/-- … and it answers whenever an inverse exists (re-exported from JacRefine: `gcd(a, n) = 1`) -/
theorem mod_inv_complete {n : ℕ} (hn : 1 ≤ n) (a : ℤ) (hg : Int.gcd a n = 1) :
    ∃ x, modInv a n = some x := by
  obtain ⟨x, hx, _⟩ := Btc.C01.modInv_spec hn a hg
  exact ⟨x, hx⟩

example : modInv 3 7 = some 5 := by decide

end Props.C01

/-! # Capstone — the three parts of C01 joined (Proofs/C01/Capstone*.lean)

(A) T1 (btclib's formulas = Mathlib's group law) now DISCHARGES the hypotheses under which (B) the ladders
(`JacRel`) and (C) every scheme-level property (`Btc.Lawful`, the named assumption of C02, C03, C07, C12, C16)
were proved.  `Pt p c` is Mathlib's point group of `y² = x³ + ax + b` over `ZMod p`; `H` is any subgroup of it
without points of order 2 (`⊤` on a curve of odd order; `torsionSub p c n` for odd `n`, whatever the cofactor) —
forced by the code, whose affine routines spell infinity `y = 0` and so cannot express a point of order 2. -/
namespace Props.C01
open Btc Btc.C01 Btc.EC

section CapstoneJac
variable {p : ℕ} [Fact p.Prime] {c : CurveGroup} (hp : c.p = (p : ℤ))
  (H : AddSubgroup (Pt p c)) (hH : NoTwoTorsionIn H)
include hp hH

/-- (A) ⇒ hypothesis of (B): btclib's Jacobian arithmetic `ecOps c` satisfies `JacRel` on Mathlib's point group,
every prime `p`, every curve; the relation is "valid representative of", blinds are the `λ ≢ 0 (mod p)` -/
theorem jac_rel_ec : ∃ L : JacRel (ecOps c) (Pt p c),
    (∀ Q g, L.R Q g ↔ JValid p c Q ∧ absJ p c Q = g ∧ g ∈ H) ∧
    (∀ q g, L.RA q g ↔ AValid p c q ∧ absA p c q = g ∧ g ∈ H) ∧
    (∀ lam, L.blindOk lam ↔ (lam : ZMod p) ≠ 0) ∧ L.Functional :=
  ⟨jacRel_ec hp H hH, fun _ _ => Iff.rfl, fun _ _ => Iff.rfl, fun _ => Iff.rfl, jacRel_ec_functional hp H hH⟩

theorem mult_recursive_jac_ec (m : ℕ) (Q : JacPoint) (hQ : JValid p c Q) (hQH : absJ p c Q ∈ H) :
    JValid p c (multRecursiveJac (ecOps c) m Q) ∧
      absJ p c (multRecursiveJac (ecOps c) m Q) = (m : ℤ) • absJ p c Q := multRecursiveJac_ec hp H hH m Q hQ hQH

theorem mult_jac_var_ec (m : ℕ) (Q : JacPoint) (hQ : JValid p c Q) (hQH : absJ p c Q ∈ H) :
    JValid p c (multJacVar (ecOps c) m Q) ∧
      absJ p c (multJacVar (ecOps c) m Q) = (m : ℤ) • absJ p c Q := multJacVar_ec hp H hH m Q hQ hQH

theorem mult_mont_ladder_ec (m : ℕ) (Q : JacPoint) (hQ : JValid p c Q) (hQH : absJ p c Q ∈ H) :
    JValid p c (multMontLadder (ecOps c) m Q) ∧
      absJ p c (multMontLadder (ecOps c) m Q) = (m : ℤ) • absJ p c Q := multMontLadder_ec hp H hH m Q hQ hQH

theorem mult_base_3_ec (m : ℕ) (Q : JacPoint) (hQ : JValid p c Q) (hQH : absJ p c Q ∈ H) :
    JValid p c (multBase3 (ecOps c) m Q) ∧
      absJ p c (multBase3 (ecOps c) m Q) = (m : ℤ) • absJ p c Q := multBase3_ec hp H hH m Q hQ hQH

/-- `_mult_regular_window` — hence `_mult`, what every non-secp256k1 curve runs — ON BTCLIB'S ARITHMETIC: a valid
triple denoting `m • Q` in Mathlib's group; every `m`, every `w ≥ 1`, every valid `Q` of `H` incl. infinity -/
theorem mult_regular_window_ec (scalarLen m w : ℕ) (Q r : JacPoint) (hQ : JValid p c Q)
    (hQH : absJ p c Q ∈ H) (h : multRegularWindow (ecOps c) scalarLen m Q w = some r) :
    JValid p c r ∧ absJ p c r = (m : ℤ) • absJ p c Q := multRegularWindow_ec hp H hH scalarLen m w Q r hQ hQH h

/-- `_mult_fixed_base` (what `mult(m, G)` runs) on btclib's arithmetic, any blind `λ ≢ 0 (mod p)` -/
theorem mult_fixed_base_ec (scalarLen m w : ℕ) (lam : ℤ) (hlam : (lam : ZMod p) ≠ 0) (Q r : JacPoint)
    (hQ : JValid p c Q) (hQH : absJ p c Q ∈ H) (h : multFixedBase (ecOps c) scalarLen lam m Q w = some r) :
    JValid p c r ∧ absJ p c r = (m : ℤ) • absJ p c Q :=
  multFixedBase_ec hp H hH scalarLen m w lam hlam Q r hQ hQH h

/-- `_multi_mult_w_NAF_var` / `_double_mult_w_NAF_var` on btclib's arithmetic: `Σ uᵢ • Pᵢ` -/
theorem multi_mult_wnaf_ec (isFixed : JacPoint → Bool) (fixedW w : ℕ) (hfw : 1 ≤ fixedW) (scalars : List ℕ)
    (points : List JacPoint) (hpts : ∀ P ∈ points, JValid p c P ∧ absJ p c P ∈ H) (r : JacPoint)
    (h : multiMultWNAF (ecOps c) isFixed fixedW scalars points w = some r) :
    JValid p c r ∧ absJ p c r = psum p c (scalars.zip points) :=
  multiMultWNAF_ec hp H hH isFixed fixedW w hfw scalars points hpts r h

/-- Bos–Coster on btclib's arithmetic, any heap order -/
theorem bos_coster_ec (sel : Select JacPoint) (hsel : SelectOk sel) (scalarLen multW : ℕ)
    (scalars : List ℕ) (points : List JacPoint) (hpts : ∀ P ∈ points, JValid p c P ∧ absJ p c P ∈ H)
    (r : JacPoint) (h : multiMultBosCoster (ecOps c) sel scalarLen multW scalars points = some r) :
    JValid p c r ∧ absJ p c r = psum p c (scalars.zip points) :=
  multiMultBosCoster_ec hp H hH sel hsel scalarLen multW scalars points hpts r h

/-- `_multi_mult_var` on btclib's arithmetic at the GENERATED widths and threshold -/
theorem dispatch_irrelevant_ec (sel : Select JacPoint) (hsel : SelectOk sel) (isFixed : JacPoint → Bool)
    (fixedW scalarLen : ℕ) (hfw : 1 ≤ fixedW) (scalars : List ℕ) (points : List JacPoint)
    (hpts : ∀ P ∈ points, JValid p c P ∧ absJ p c P ∈ H) (r : JacPoint)
    (h : multiMultVar (ecOps c) sel isFixed fixedW scalarLen Gen.Curves.MULT_W Gen.Curves.MULTI_MULT_W
      Gen.Curves.BOS_COSTER_THRESHOLD scalars points = some r) :
    JValid p c r ∧ absJ p c r = psum p c (scalars.zip points) :=
  multiMultVar_ec hp H hH sel hsel isFixed fixedW scalarLen _ _ _ hfw scalars points hpts r h
end CapstoneJac

section CapstoneEntry
variable {p : ℕ} [Fact p.Prime]

/-- T8 on btclib's arithmetic: the public `mult(m, Q, ec)` of a concrete `Curve` (Python path, every curve but
secp256k1) returns a valid pair denoting `m • Q`: EVERY integer `m`, any blind, generator and infinity included -/
theorem mult_entry_ec (C : Curve) (hC : C.p = (p : ℤ)) (H : AddSubgroup (Pt p C.toCurveGroup))
    (hH : NoTwoTorsionIn H) (hsecp : (ctxOf C).isSecp = false) (hn0 : 0 < C.n) (lam : ℤ)
    (hlam : (lam : ZMod p) ≠ 0) (m : ℤ) (Q A : Point) (hQ : AValid p C.toCurveGroup Q)
    (hQH : absA p C.toCurveGroup Q ∈ H) (hgy : C.gy ≠ 0) (hG : AValid p C.toCurveGroup C.G)
    (hn : C.n • absA p C.toCurveGroup Q = 0) (h : multEntry (ctxOf C) lam m Q = some A) :
    AValid p C.toCurveGroup A ∧ absA p C.toCurveGroup A = m • absA p C.toCurveGroup Q :=
  multEntry_ec C hC H hH hsecp hn0 lam hlam m Q A hQ hQH hgy hG hn h

theorem prepared_mult_ec (C : Curve) (hC : C.p = (p : ℤ)) (H : AddSubgroup (Pt p C.toCurveGroup))
    (hH : NoTwoTorsionIn H) (hsecp : (ctxOf C).isSecp = false) (hn0 : 0 < C.n) (lam : ℤ)
    (hlam : (lam : ZMod p) ≠ 0) (m : ℤ) (Q A : Point) (hQ : AValid p C.toCurveGroup Q)
    (hQH : absA p C.toCurveGroup Q ∈ H) (hgy : C.gy ≠ 0) (hG : AValid p C.toCurveGroup C.G)
    (hn : C.n • absA p C.toCurveGroup Q = 0) (h : preparedMult (ctxOf C) lam Q m = some A) :
    AValid p C.toCurveGroup A ∧ absA p C.toCurveGroup A = m • absA p C.toCurveGroup Q :=
  preparedMult_ec C hC H hH hsecp hn0 lam hlam m Q A hQ hQH hgy hG hn h
end CapstoneEntry

section CapstoneLawful
variable {p : ℕ} [Fact p.Prime] {C : Curve}

/-- (A) ⇒ hypothesis of (C): **`Btc.EC.ops C` is `Lawful`** on the reduced valid pairs of the `n`-torsion, with
`G` = Mathlib's point group.  `CurveOk`: `p` odd prime, `n` odd prime (primality of constants is a hypothesis),
generator reduced / on the curve / `≠ ∞` / `n • G = 0`; no hypothesis on cofactor or discriminant.
`p ≡ 3 (mod 4)` (secp256k1) is needed by the two `liftX` fields only. -/
theorem ec_ops_lawful (K : CurveOk p C) (h34 : p % 4 = 3) :
    ∃ L : Lawful (opsSub K) (Pt p C.toCurveGroup), ∀ P, L.abs P = absA p C.toCurveGroup P.1 :=
  ⟨lawful_ec K h34, fun _ => rfl⟩

/-- `opsSub` IS `Btc.EC.ops C` on the underlying pairs: same `add`, `neg`, `mul`, `gen`, `x`, `y`, `eq`, … -/
theorem ops_sub_is_ec_ops (K : CurveOk p C) (P Q : SubPt p C) (m : ℤ) :
    ((opsSub K).add P Q).1 = (EC.ops C).add P.1 Q.1 ∧ ((opsSub K).neg P).1 = (EC.ops C).neg P.1 ∧
    ((opsSub K).mul m P).1 = (EC.ops C).mul m P.1 ∧ (opsSub K).zero.1 = (EC.ops C).zero ∧
    (opsSub K).gen.1 = (EC.ops C).gen ∧ (opsSub K).isZero P = (EC.ops C).isZero P.1 ∧
    (opsSub K).x P = (EC.ops C).x P.1 ∧ (opsSub K).y P = (EC.ops C).y P.1 ∧
    (opsSub K).eq P Q = (EC.ops C).eq P.1 Q.1 ∧ (opsSub K).n = (EC.ops C).n ∧ (opsSub K).p = (EC.ops C).p :=
  opsSub_val K P Q m

/-- … and `liftX` too on a curve of cofactor 1 with `Δ ≠ 0` (secp256k1's shape); with a cofactor btclib's
`lift_x` leaves the prime-order subgroup, and returns `(x, 0)` — read as infinity — when `x³ + ax + b = 0` -/
theorem ops_sub_liftX_is_ec_ops (K : CurveOk p C) (h34 : p % 4 = 3)
    (hcof : ∀ g : Pt p C.toCurveGroup, C.n • g = 0)
    (hΔ : (curveOf p C.toCurveGroup).toAffine.Δ ≠ 0) (x : ℤ) :
    ((opsSub K).liftX x).map Subtype.val = (EC.ops C).liftX x :=
  liftXSub_val_of_cofactor_one K h34 hcof hΔ x

/-- `add_aff_var` (all four branches) is the affine group law on reduced valid pairs whose sum has not order 2 -/
theorem add_aff_refines {c : CurveGroup} (hp : c.p = (p : ℤ)) (hp2 : p ≠ 2) (P Q : Point) (hP : AValid p c P)
    (hQ : AValid p c Q) (rP : RedA c P) (rQ : RedA c Q)
    (h2 : (absA p c P + absA p c Q) + (absA p c P + absA p c Q) = 0 → absA p c P + absA p c Q = 0) :
    ∃ A : Point, addAff c P Q = some A ∧ AValid p c A ∧ RedA c A ∧ absA p c A = absA p c P + absA p c Q :=
  addAff_spec hp hp2 P Q hP hQ rP rQ h2

/-- T9 (`mod_sqrt_var`, `p ≡ 3 mod 4`): an answer is a reduced square root; a refusal means there is none -/
theorem mod_sqrt_3mod4 (h34 : p % 4 = 3) (a : ℤ) :
    (∀ r, modSqrt34 a (p : ℤ) = some r → (0 ≤ r ∧ r < p) ∧ (r : ZMod p) ^ 2 = (a : ZMod p)) ∧
    (modSqrt34 a (p : ℤ) = none → ∀ y : ZMod p, y ^ 2 ≠ (a : ZMod p)) :=
  ⟨fun r h => modSqrt34_some h34 a r h, fun h y => modSqrt34_none h34 a h y⟩

/-- `pow(b, e, p)` is exponentiation in `ZMod p` -/
theorem mod_pow_is_pow (b : ℤ) (e : ℕ) : ((modPow b e (p : ℤ) : ℤ) : ZMod p) = (b : ZMod p) ^ e := modPow_cast b e
end CapstoneLawful

/-! ### non-vacuity: `y² = x³ + 7` over `F₄₃` (31 points), every hypothesis PROVED (Proofs/C01/CapstoneToy.lean);
the whole chain down to C02's `sign_verifies` is instantiated in Proofs/C01/CapstoneToyScheme.lean -/
example : CurveOk 43 Toy.toyC := Toy.toyOk
noncomputable example : Lawful (opsSub Toy.toyOk) (Pt 43 Toy.toyC.toCurveGroup) := Toy.toyLawful
example : ∃ L : Lawful (opsSub Toy.toyOk) (Pt 43 Toy.toyC.toCurveGroup), ∀ P, L.abs P = absA 43 _ P.1 :=
  ec_ops_lawful Toy.toyOk (by decide)

/-! ## wave 3 — the remaining ladders on btclib's arithmetic, GLV at point level, Bos–Coster total -/
section CapstoneLadders2
variable {p : ℕ} [Fact p.Prime] {c : CurveGroup} (hp : c.p = (p : ℤ))
  (H : AddSubgroup (Pt p c)) (hH : NoTwoTorsionIn H)
include hp hH

/-- `_mult_fixed_window_var(…, cached=False)`: `m • Q`, every `m`, every `w ≥ 1` -/
theorem mult_fixed_window_ec (m w : ℕ) (hw : 1 ≤ w) (Q : JacPoint) (hQ : JValid p c Q) (hQH : absJ p c Q ∈ H) :
    JValid p c (multFixedWindow (ecOps c) m Q w) ∧
      absJ p c (multFixedWindow (ecOps c) m Q w) = (m : ℤ) • absJ p c Q := multFixedWindow_ec hp H hH m w hw Q hQ hQH

/-- `_mult_fixed_window_var(…, cached=True)` at the GENERATED `MAX_W` -/
theorem mult_fixed_window_cached_ec (m w : ℕ) (hw : 1 ≤ w) (hmax : w ≤ Gen.Curves.MAX_W) (Q : JacPoint)
    (hQ : JValid p c Q) (hQH : absJ p c Q ∈ H) :
    JValid p c (multFixedWindowCached (ecOps c) Gen.Curves.MAX_W m Q w) ∧
      absJ p c (multFixedWindowCached (ecOps c) Gen.Curves.MAX_W m Q w) = (m : ℤ) • absJ p c Q :=
  multFixedWindowCached_ec hp H hH _ m w hw hmax Q hQ hQH

/-- `_mult_fixed_window_cached_var` (one cached table per digit position) -/
theorem mult_fixed_window_cached_pos_ec (pSize m w : ℕ) (hw : 1 ≤ w) (Q r : JacPoint) (hQ : JValid p c Q)
    (hQH : absJ p c Q ∈ H) (h : multFixedWindowCachedPos (ecOps c) pSize m Q w = some r) :
    JValid p c r ∧ absJ p c r = (m : ℤ) • absJ p c Q := multFixedWindowCachedPos_ec hp H hH pSize m w hw Q r hQ hQH h

theorem mult_sliding_window_ec (m w : ℕ) (hw : 1 ≤ w) (Q : JacPoint) (hQ : JValid p c Q) (hQH : absJ p c Q ∈ H) :
    JValid p c (multSlidingWindow (ecOps c) m Q w) ∧
      absJ p c (multSlidingWindow (ecOps c) m Q w) = (m : ℤ) • absJ p c Q :=
  multSlidingWindow_ec hp H hH m w hw Q hQ hQH

theorem mult_wnaf_ec (m w : ℕ) (hw : 1 ≤ w) (Q : JacPoint) (hQ : JValid p c Q) (hQH : absJ p c Q ∈ H) :
    JValid p c (multWNAF (ecOps c) m Q w) ∧
      absJ p c (multWNAF (ecOps c) m Q w) = (m : ℤ) • absJ p c Q := multWNAF_ec hp H hH m w hw Q hQ hQH

/-- Shamir–Strauss `_double_mult_var`: `u • H + v • Q` -/
theorem double_mult_var_ec (u v : ℕ) (P Q : JacPoint) (hP : JValid p c P) (hPH : absJ p c P ∈ H)
    (hQ : JValid p c Q) (hQH : absJ p c Q ∈ H) :
    JValid p c (doubleMultVar (ecOps c) u P v Q) ∧
      absJ p c (doubleMultVar (ecOps c) u P v Q) = (u : ℤ) • absJ p c P + (v : ℤ) • absJ p c Q :=
  doubleMultVar_ec hp H hH u v P Q hP hPH hQ hQH

theorem double_mult_regular_window_ec (scalarLen u v w : ℕ) (P Q r : JacPoint) (hP : JValid p c P)
    (hPH : absJ p c P ∈ H) (hQ : JValid p c Q) (hQH : absJ p c Q ∈ H)
    (h : doubleMultRegularWindow (ecOps c) scalarLen u P v Q w = some r) :
    JValid p c r ∧ absJ p c r = (u : ℤ) • absJ p c P + (v : ℤ) • absJ p c Q :=
  doubleMultRegularWindow_ec hp H hH scalarLen u v w P Q r hP hPH hQ hQH h

/-- `_mult_endomorphism_secp256k1` (what `mult` runs on secp256k1 for a point that is not `G`): `m • Q`, given the
NAMED endomorphism law `EndoLawEc` (`(β·X, Y, Z)` denotes `λ • P`; `N` kills the group) — decomposition, signs,
recoding, windows and corrections are proved, with the generated `λ`, `N` -/
theorem mult_endomorphism_ec_given_endo_law (E : EndoLawEc hp H hH) (halfLen m w : ℕ) (Q r : JacPoint) (hQ : JValid p c Q)
    (hQH : absJ p c Q ∈ H) (h : multEndomorphism (ecOps c) halfLen m Q w = some r) :
    JValid p c r ∧ absJ p c r = (m : ℤ) • absJ p c Q := multEndomorphism_ec hp H hH E halfLen m w Q r hQ hQH h

theorem mult_endomorphism_var_ec_given_endo_law (E : EndoLawEc hp H hH) (isFixed : JacPoint → Bool) (fixedW m w : ℕ)
    (hfw : 1 ≤ fixedW) (Q r : JacPoint) (hQ : JValid p c Q) (hQH : absJ p c Q ∈ H)
    (h : multEndomorphismVar (ecOps c) isFixed fixedW m Q w = some r) :
    JValid p c r ∧ absJ p c r = (m : ℤ) • absJ p c Q :=
  multEndomorphismVar_ec hp H hH E isFixed fixedW m w hfw Q r hQ hQH h

/-- `_double_mult_endomorphism_secp256k1_var` (what `double_mult_var` runs on secp256k1) -/
theorem double_mult_endomorphism_ec_given_endo_law (E : EndoLawEc hp H hH) (isFixed : JacPoint → Bool)
    (eqv : JacPoint → JacPoint → Bool) (fixedW u v w : ℕ) (hfw : 1 ≤ fixedW) (P Q r : JacPoint)
    (hP : JValid p c P) (hPH : absJ p c P ∈ H) (hQ : JValid p c Q) (hQH : absJ p c Q ∈ H)
    (h : doubleMultEndomorphismVar (ecOps c) isFixed eqv fixedW u P v Q w = some r) :
    JValid p c r ∧ absJ p c r = (u : ℤ) • absJ p c P + (v : ℤ) • absJ p c Q :=
  doubleMultEndomorphismVar_ec hp H hH E isFixed eqv fixedW u v w hfw P Q r hP hPH hQ hQH h

/-- Bos–Coster with the model's heap (Python's `heapq` order on `(-n, PJ)`), TOTAL: always answers on admissible
arguments (termination: `Σ nᵢ` strictly decreases), and the answer is `Σ uᵢ • Pᵢ` -/
theorem bos_coster_total_ec (scalarLen multW : ℕ) (hw : 1 ≤ multW) (scalars : List ℕ)
    (points : List JacPoint) (hlen : scalars.length = points.length) (h2 : 2 ≤ scalars.length)
    (hpts : ∀ P ∈ points, JValid p c P ∧ absJ p c P ∈ H) :
    ∃ r, multiMultBosCoster (ecOps c) heapSelect scalarLen multW scalars points = some r ∧
      JValid p c r ∧ absJ p c r = psum p c (scalars.zip points) :=
  multiMultBosCoster_heap_ec hp H hH scalarLen multW hw scalars points hlen h2 hpts
end CapstoneLadders2

/-- Bos–Coster terminates for ANY heap that hands back a largest pair, on any operations -/
theorem bos_coster_terminates {α β : Type} {o : JacOps α β} (sel : Select α) (hsel : SelectOk sel)
    (hmax : SelectMax sel) (fuel : ℕ) (xs : List (ℕ × α)) (hpos : ∀ np ∈ xs, 1 ≤ np.1) (hne : xs ≠ [])
    (hfuel : nsum xs < fuel) : ∃ r, bosCosterLoop o sel fuel xs = some r ∧ 1 ≤ r.1 :=
  bosCosterLoop_terminates sel hsel hmax fuel xs hpos hne hfuel

/-- the regular window (`_mult`) always answers: `w ≥ 1` and a positive `scalar_len` (or a positive scalar) -/
theorem mult_regular_window_answers {α β : Type} {o : JacOps α β} (scalarLen m w : ℕ) (hw : 1 ≤ w)
    (hs : 1 ≤ scalarLen ∨ 1 ≤ m) (Q : α) : ∃ r, multRegularWindow o scalarLen m Q w = some r :=
  multRegularWindow_answers scalarLen m w hw hs Q

/-- T7 on the function TRANSLATED from the source each run (`Generated/C01Glv.lean`): it is the model the GLV
ladders use … -/
theorem glv_decomposer_is_generated (m : ℤ) :
    Gen.C01Glv.multiplier_decomposer m = multiplierDecomposer m := multiplierDecomposer_eq_generated m

/-- … and `m₁ + m₂·λ ≡ m (mod N)` for every integer `m` -/
theorem glv_generated_decomposition (m : ℤ) :
    ((Gen.C01Glv.multiplier_decomposer m).1 + (Gen.C01Glv.multiplier_decomposer m).2 * Gen.Curves.glv_LAM - m)
      % Gen.Curves.glv_N = 0 := generated_decomposer_congr m

/-! ## wave 3 — T9 number theory -/

/-- `mod_inv_var(a, m) = x` iff `x` is the reduced inverse of `a`: every integer `a`, every `m ≥ 1` -/
theorem mod_inv_iff {m : ℤ} (hm : 1 ≤ m) (a x : ℤ) :
    modInv a m = some x ↔ (0 ≤ x ∧ x < m ∧ a * x % m = 1 % m) := NT.modInv_eq_some_iff hm a x

/-- … and it refuses exactly the operands with no inverse -/
theorem mod_inv_refuses_iff {m : ℤ} (hm : 1 ≤ m) (a : ℤ) : modInv a m = none ↔ Int.gcd a m ≠ 1 :=
  NT.modInv_eq_none_iff hm a

/-- `mod_inv` (blinded) equals `mod_inv_var` for EVERY blind, composite moduli included (the fallback branch) -/
theorem mod_inv_blind {m : ℤ} (hm : 1 ≤ m) (a b : ℤ) : NT.modInvBlind a m b = modInv a m := NT.modInvBlind_eq hm a b

/-- `mod_inv_batch_var` (Montgomery's trick) is pointwise `mod_inv_var`; refused iff some element is not invertible -/
theorem mod_inv_batch {m : ℤ} (hm : 1 ≤ m) (as : List ℤ) : NT.modInvBatchVar as m = as.mapM (modInv · m) :=
  NT.modInvBatchVar_eq hm as

example : NT.modInvBatchVar [2, 3, 5] 7 = some [4, 5, 3] := by decide

/-- `mod_sqrt_var` on the closed-form branches: an answer is a reduced square root (ANY modulus) -/
theorem mod_sqrt_sound_closed_form (a p r : ℤ) (hbr : p % 4 = 3 ∨ p % 8 = 5) (h : NT.modSqrtVar a p = some r) :
    0 ≤ r ∧ r < p ∧ r * r % p = a % p := NT.modSqrtVar_sound a p r hbr h

/-- … and for a PRIME modulus a refusal means the operand is not a square, `p ≡ 3 (mod 4)` … -/
theorem mod_sqrt_refuses_3mod4 {p : ℕ} [Fact p.Prime] (h34 : p % 4 = 3) (a : ℤ)
    (h : NT.modSqrtVar a (p : ℤ) = none) (y : ZMod p) : y ^ 2 ≠ (a : ZMod p) := NT.modSqrtVar_none_3mod4 h34 a h y

/-- … and `p ≡ 5 (mod 8)` (Euler's criterion; `2` is a non-residue there) -/
theorem mod_sqrt_refuses_5mod8 {p : ℕ} [Fact p.Prime] (h58 : p % 8 = 5) (a : ℤ)
    (h : NT.modSqrtVar a (p : ℤ) = none) (y : ZMod p) : y ^ 2 ≠ (a : ZMod p) := NT.modSqrtVar_none_5mod8 h58 a h y

/-- `legendre_symbol_var(a, p)` (binary Jacobi recursion) IS Mathlib's Jacobi symbol `jacobiSym a p` for every odd
`p ≥ 1` and every integer `a` — hence the Legendre symbol when `p` is an odd prime -/
theorem legendre_symbol_is_jacobi (a : ℤ) (P : ℕ) (hP : P % 2 = 1) :
    NT.legendreSymbolVar a (P : ℤ) = some (jacobiSym a P) := NT.legendreSymbolVar_eq_jacobiSym a P hP

example : NT.legendreSymbolVar 5 21 = some 1 := by decide

/-! ## audit follow-up — totality of the fixed base and of the entry points; secp256k1's route; `double_mult_var` -/
section Totality
variable {α β G : Type} [AddCommGroup G]

/-- `_mult_fixed_base` ANSWERS for every scalar below `2^scalar_len` (every reduced scalar) and `w ≥ 1` -/
theorem mult_fixed_base_answers (o : JacOps α β) (scalarLen m w : ℕ) (lam : ℤ) (hw : 1 ≤ w) (hs : 1 ≤ scalarLen)
    (hm : m < 2 ^ scalarLen) (Q : α) : ∃ r, multFixedBase o scalarLen lam m Q w = some r :=
  multFixedBase_answers o scalarLen m w lam hw hs hm Q

/-- `mult(m, Q, ec)` ANSWERS for every integer `m` and every `Q` that is `G` or passes `is_on_curve`
(pure-Python path, every curve but secp256k1) -/
theorem mult_entry_answers (c : CurveCtx α β) (hc : CtxOk c) (hsecp : c.isSecp = false) (lam m : ℤ) (Q : β)
    (hQ : c.eqAff Q c.G = true ∨ c.onCurve Q = some true) : ∃ A, multEntry c lam m Q = some A :=
  multEntry_answers c hc hsecp lam m Q hQ

theorem prepared_mult_answers (c : CurveCtx α β) (hc : CtxOk c) (hsecp : c.isSecp = false) (lam m : ℤ) (Q : β)
    (hQ : c.onCurve Q = some true) (hinf : c.isInf Q = false) : ∃ A, preparedMult c lam Q m = some A :=
  preparedMult_answers c hc hsecp lam m Q hQ hinf

/-- the side conditions hold for the context of every real curve with `n ≥ 1`, at the GENERATED widths -/
theorem ctx_of_ok (C : Curve) (hn : 0 < C.n) : CtxOk (ctxOf C) := ctxOf_ok C hn

/-- `mult` on EVERY curve, secp256k1's GLV route included, GIVEN the endomorphism law (named hypothesis `EndoLaw`) -/
theorem mult_entry_given_endo_law (c : CurveCtx α β) (L : JacRel c.o G)
    (E : EndoLaw L Gen.Curves.glv_LAM Gen.Curves.glv_N) (hn0 : 0 < c.n) {lam : ℤ}
    (hlam : L.blindOk lam) (m : ℤ) {Q A : β} {g : G} (hQ : L.RA Q g)
    (hG : c.eqAff Q c.G = true → L.R c.GJ g) (hn : (c.n : ℤ) • g = 0)
    (h : multEntry c lam m Q = some A) : L.RA A (m • g) :=
  multEntry_spec_given_endo_law c L E hn0 hlam m hQ hG hn h

/-- `double_mult_var(u, H, v, Q, ec)` (pure-Python path, every curve but secp256k1): `u • H + v • Q`, every `u`, `v` -/
theorem double_mult_entry (c : CurveCtx α β) (L : JacRel c.o G) (hf : L.Functional) (hsecp : c.isSecp = false)
    (hfw : 1 ≤ c.fixedW) (hn0 : 0 < c.n) (u v : ℤ) {H Q A : β} {h q : G} (hH : L.RA H h) (hQ : L.RA Q q)
    (hnh : (c.n : ℤ) • h = 0) (hnq : (c.n : ℤ) • q = 0)
    (hr : doubleMultEntry c u H v Q = some A) : L.RA A (u • h + v • q) :=
  doubleMultEntry_spec c L hf hsecp hfw hn0 u v hH hQ hnh hnq hr

/-- BY CONSTRUCTION of the model: `double_mult_var` refuses when either point fails `is_on_curve` -/
theorem double_mult_entry_refuses_off_curve (c : CurveCtx α β) (u v : ℤ) (H Q : β)
    (hoff : c.onCurve H ≠ some true ∨ c.onCurve Q ≠ some true) : doubleMultEntry c u H v Q = none :=
  doubleMultEntry_refuses c u v H Q hoff
end Totality

/-- transfer for the scheme-level properties: under cofactor one (`hcof`, the single named assumption) and `Δ ≠ 0`,
`Subtype.val` commutes with EVERY operation of the lawful carrier `opsSub K` and the raw `Btc.EC.ops C` the drivers run -/
theorem ops_sub_hom_of_cofactor_one {p : ℕ} [Fact p.Prime] {C : Curve} (K : CurveOk p C) (h34 : p % 4 = 3)
    (hcof : ∀ g : Pt p C.toCurveGroup, C.n • g = 0) (hΔ : (curveOf p C.toCurveGroup).toAffine.Δ ≠ 0) :
    OpsHom (opsSub K) (EC.ops C) (Subtype.val : SubPt p C → Point) := opsSub_hom K h34 hcof hΔ

/-- a component of the endomorphism law, PROVED over any field: on `y² = x³ + b` (`a = 0`), for `β³ = 1`, the map
`(x, y) ↦ (β·x, y)` is an ADDITIVE endomorphism of Mathlib's point group.  (One ingredient of `endo_law_secp256k1`
below, which adds the Jacobian cast of `endoJac`, `φ(G) = λ•G` by kernel evaluation and the assembly on `⟨G⟩` —
the whole curve, `secp256k1_generator_generates`; the `…_given_endo_law` forms remain for other carriers.) -/
theorem glv_endomorphism_is_additive {F : Type} [Field F] [DecidableEq F] (b β : F) (hβ : β ^ 3 = 1)
    (P Q : (W0 b).Point) : endoPt b β hβ (P + Q) = endoPt b β hβ P + endoPt b β hβ Q := endoPt_add b β hβ P Q

/-- non-vacuity of the `…_given_endo_law` theorems: the hypothesis `EndoLaw` at the generated `λ`, `N` holds in a
non-trivial group of order `N` (`ZMod N`, `x ↦ λ·x`) -/
example : EndoLaw zmodRel Gen.Curves.glv_LAM Gen.Curves.glv_N := zmod_endoLaw

/-! ## wave 4 — the GLV endomorphism law PROVED for secp256k1 on `⟨G⟩`; secp256k1's own route, hypothesis-free -/
section Secp256k1Route
open Btc.E2E

/-- `φ(G) = λ • G` on secp256k1 (`φ(x,y) = (β·x, y)`): kernel evaluation of `λ•G − φ(G)` through the PROVED
double-and-add on the generated constants -/
theorem glv_phi_G_eq_lambda_G : phiS G0 = Gen.Curves.glv_LAM • G0 := phiS_G0

/-- **`EndoLawEc` for secp256k1 on the subgroup `⟨G⟩` generated by the generator** (`HG = zmultiples G`): btclib's
`K = (β·X mod p, Y, Z)` is a valid triple denoting `λ • P`, and `N` kills `⟨G⟩`.  No hypothesis: `p`, `n` prime (Pratt),
`φ` additive (`glv_endomorphism_is_additive`), `φ(G) = λ•G` (kernel), hence `φ = λ•` on `⟨G⟩`.  (`⟨G⟩` is the whole curve:
cofactor one is proved, `secp256k1_generator_generates`; the `…_given_endo_law` forms remain for other carriers.) -/
theorem endo_law_secp256k1 : EndoLawEc secp_hp HG HG_noTwoTorsion := endoLaw_secp256k1

/-- **`mult(m, Q)` on secp256k1 — the pure-Python route the library runs without the bindings (fixed base for `G`,
GLV split + regular double window otherwise) — with NO hypothesis about the curve**: every integer `m`, every blind
`λ ≢ 0 (mod p)`, every valid `Q ∈ ⟨G⟩` (every `k•G`, `G`, infinity): a returned pair is valid and denotes `m • Q` -/
theorem mult_entry_secp256k1 (lam : ℤ) (hlam : (lam : ZMod secp256k1_p) ≠ 0) (m : ℤ) (Q A : Point)
    (hQ : AValid secp256k1_p cS Q) (hQH : absA secp256k1_p cS Q ∈ HG)
    (h : multEntry (ctxOf EC.secp256k1) lam m Q = some A) :
    AValid secp256k1_p cS A ∧ absA secp256k1_p cS A = m • absA secp256k1_p cS Q :=
  multEntry_secp256k1 lam hlam m Q A hQ hQH h

/-- **`double_mult_var(u, H, v, Q)` on secp256k1, pure-Python route (`_double_mult_endomorphism_secp256k1_var`), no
hypothesis about the curve**: `u • H + v • Q` for every integers `u`, `v`, valid `H`, `Q ∈ ⟨G⟩` -/
theorem double_mult_entry_secp256k1 (u v : ℤ) (P Q A : Point)
    (hP : AValid secp256k1_p cS P) (hPH : absA secp256k1_p cS P ∈ HG)
    (hQ : AValid secp256k1_p cS Q) (hQH : absA secp256k1_p cS Q ∈ HG)
    (h : doubleMultEntry (ctxOf EC.secp256k1) u P v Q = some A) :
    AValid secp256k1_p cS A ∧
      absA secp256k1_p cS A = u • absA secp256k1_p cS P + v • absA secp256k1_p cS Q :=
  doubleMultEntry_secp256k1 u v P Q A hP hPH hQ hQH h

/-- `_mult_endomorphism_secp256k1(m, Q, ec, w)` itself, hypothesis-free on `⟨G⟩` -/
theorem mult_endomorphism_secp256k1 (halfLen m w : ℕ) (Q r : JacPoint) (hQ : JValid secp256k1_p cS Q)
    (hQH : absJ secp256k1_p cS Q ∈ HG) (h : multEndomorphism (ecOps cS) halfLen m Q w = some r) :
    JValid secp256k1_p cS r ∧ absJ secp256k1_p cS r = (m : ℤ) • absJ secp256k1_p cS Q :=
  multEndomorphism_secp256k1 halfLen m w Q r hQ hQH h

/-- the generator is in `⟨G⟩` (non-vacuity of the membership hypothesis) -/
example : absA secp256k1_p cS EC.secp256k1.G ∈ HG := absA_G_mem_HG
end Secp256k1Route

/-- **the group part of `Lawful` with NO hypothesis on `p mod 4`**: `Btc.EC.ops C` on the reduced valid pairs of the
`n`-torsion is a `LawfulGroup` (all laws but the two about `lift_x`) for every odd prime `p` — theorems that never
call `liftX` (ECDSA sign/verify, ECDH, …) can be instantiated on every catalogued curve, `p ≡ 1 (mod 4)` included -/
theorem ec_ops_lawful_group {p : ℕ} [Fact p.Prime] {C : Curve} (K : CurveOk p C) :
    ∃ L : LawfulGroup (opsSub K) (Pt p C.toCurveGroup), ∀ P, L.abs P = absA p C.toCurveGroup P.1 :=
  ⟨lawfulGroup_ec K, fun _ => rfl⟩

/-! ## T10 — the SEC 1 point codec (`sec_point.py`) -/

/-- accepted set of the both-coordinates forms: prefix 04 — or 06/07 under `hybrid=True` with the parity of `y`
matching —, length `2·p_size + 1`, `y ≠ 0`, and `is_on_curve` (coordinates in range, equation): exactly then, and the
answer is the pair of big-endian coordinates -/
theorem sec_both_coordinates_accepted_iff (g : CurveGroup) (pSize : ℕ) (hybrid : Bool) (pfxB : UInt8) (body : Bytes)
    (Q : Point) (h23 : ¬ (pfxB.toNat = 2 ∨ pfxB.toNat = 3)) :
    pointFromOctets g pSize hybrid (pfxB :: body) = .ok Q ↔
      (pfxB.toNat = 4 ∨ (hybrid = true ∧ (pfxB.toNat = 6 ∨ pfxB.toNat = 7))) ∧
      (pfxB :: body).length = 2 * pSize + 1 ∧
      Q = ((ofBE (body.take pSize) : ℤ), (ofBE (body.drop pSize) : ℤ)) ∧ Q.2 ≠ 0 ∧
      (pfxB.toNat ≠ 4 → Q.2 % 2 = (pfxB.toNat : ℤ) - 6) ∧ isOnCurveX g Q = some true :=
  pointFromOctets_both_iff g pSize hybrid pfxB body Q h23

/-- `is_on_curve(Q)` for `y ≠ 0` IS: `0 ≤ x < p`, `0 < y < p`, `y² ≡ x³ + ax + b` — so an off-curve pair, `x ≥ p` or
`y ≥ p` is refused under every accepted prefix -/
theorem is_on_curve_iff (g : CurveGroup) (Q : Point) (hy : Q.2 ≠ 0) :
    isOnCurveX g Q = some true ↔
      (0 ≤ Q.1 ∧ Q.1 < g.p) ∧ (0 < Q.2 ∧ Q.2 < g.p) ∧ y2 g Q.1 = Q.2 * Q.2 % g.p := isOnCurveX_true_iff g Q hy

/-- any other prefix byte (00, 01, 05, 08…ff, and 06/07 without `hybrid`) is refused -/
theorem sec_other_prefix_refused (g : CurveGroup) (pSize : ℕ) (hybrid : Bool) (pfxB : UInt8) (body : Bytes)
    (h : ¬ (pfxB.toNat = 2 ∨ pfxB.toNat = 3 ∨ pfxB.toNat = 4 ∨ (hybrid = true ∧ (pfxB.toNat = 6 ∨ pfxB.toNat = 7)))) :
    ∃ e, pointFromOctets g pSize hybrid (pfxB :: body) = .error e :=
  pointFromOctets_refuses_prefix g pSize hybrid pfxB body h

/-- round trip: `point_from_octets(bytes_from_point(Q, compressed=False)) = Q` -/
theorem sec_roundtrip_uncompressed (g : CurveGroup) (pSize : ℕ) (hybrid : Bool) (Q : Point) (b : Bytes)
    (hp : g.p ≤ 256 ^ pSize) (h : bytesFromPoint g pSize Q false = some b) :
    pointFromOctets g pSize hybrid b = .ok Q := pointFromOctets_bytesFromPoint_uncompressed g pSize hybrid Q b hp h

/-- compressed forms, closed-form square-root branches, ANY modulus (superseded for prime fields by
`sec_compressed_accepted_iff` / `sec_roundtrip_compressed` below): the answer has the
`x` the octets name, is a reduced point of the curve, never `y = 0`, with the parity the prefix names -/
theorem sec_compressed_sound (g : CurveGroup) (pSize : ℕ) (hybrid : Bool) (pfxB : UInt8) (body : Bytes)
    (Q : Point) (h23 : pfxB.toNat = 2 ∨ pfxB.toNat = 3) (hbr : g.p % 4 = 3 ∨ g.p % 8 = 5)
    (h : pointFromOctets g pSize hybrid (pfxB :: body) = .ok Q) :
    (pfxB :: body).length = pSize + 1 ∧ Q.1 = (ofBE body : ℤ) ∧ Q.2 ≠ 0 ∧ isOnCurveX g Q = some true ∧
      Q.2 % 2 = (pfxB.toNat : ℤ) - 2 :=
  pointFromOctets_compressed_sound g pSize hybrid pfxB body Q h23 hbr h

/-- "a point off the curve is refused rather than answered", for the decoder: whatever `point_from_octets` answers —
any prefix byte, hybrid or not — is a reduced point of the curve and never the spelling of infinity -/
theorem sec_answer_is_on_curve (g : CurveGroup) (pSize : ℕ) (hybrid : Bool) (b : Bytes) (Q : Point)
    (hbr : g.p % 4 = 3 ∨ g.p % 8 = 5) (h : pointFromOctets g pSize hybrid b = .ok Q) :
    Q.2 ≠ 0 ∧ isOnCurveX g Q = some true := pointFromOctets_on_curve g pSize hybrid b Q hbr h

/-- **cofactor one PROVED on the toy curve** `y² = x³ + 7` over `F₄₃` (31 points): every point has order dividing `n`
— the PROVED double-and-add run on all 43² coordinate pairs by the kernel -/
theorem toy_cofactor_one : ∀ g : Pt 43 Toy.toyC.toCurveGroup, Toy.toyC.n • g = 0 := Toy.toy_hcof

/-- a fully discharged instance of the cofactor-one transfer: no hypothesis left on the toy curve -/
example : OpsHom (opsSub Toy.toyOk) (EC.ops Toy.toyC) (Subtype.val : SubPt 43 Toy.toyC → Point) := Toy.toy_opsHom
example (x : ℤ) : ((opsSub Toy.toyOk).liftX x).map Subtype.val = (EC.ops Toy.toyC).liftX x :=
  ops_sub_liftX_is_ec_ops Toy.toyOk (by decide) Toy.toy_hcof Toy.toy_delta x

/-! ## wave 5 — the remaining entry points (`multi_mult_var`, `_sum_var`, `_tweak_add_var`) and the constructors -/
section Entry2
variable {α β G : Type} [AddCommGroup G]

/-- `multi_mult_var(scalars, points, ec)` (pure-Python path, EVERY curve: the multi-scalar route never uses the
endomorphism): what it answers is `Σ sᵢ • Qᵢ`, every integer scalars (negative, `≥ n`, multiples of `n`), any number of
terms (both sides of the wNAF / Bos–Coster dispatch), infinity among the points; `lsum ss gs = Σ sᵢ • gᵢ` -/
theorem multi_mult_entry (c : CurveCtx α β) (L : JacRel c.o G) (hf : L.Functional) (hsel : SelectOk c.sel)
    (hfw : 1 ≤ c.fixedW) (hn0 : 0 < c.n) (scalars : List ℤ) {points : List β} {gs : List G} {A : β}
    (hpts : List.Forall₂ L.RA points gs) (hn : ∀ g ∈ gs, (c.n : ℤ) • g = 0)
    (h : multiMultEntry c scalars points = some A) : L.RA A (lsum scalars gs) :=
  multiMultEntry_spec c L hf hsel hfw hn0 scalars hpts hn h

/-- BY CONSTRUCTION of the model: a length mismatch or a point failing `is_on_curve` is refused (the real refusal is
tied by the `curve.entry.*` streams and the `offcurve.refused` oracle) -/
theorem multi_mult_entry_refuses (c : CurveCtx α β) (scalars : List ℤ) (points : List β)
    (hbad : scalars.length ≠ points.length ∨ ∃ Q ∈ points, c.onCurve Q ≠ some true) :
    multiMultEntry c scalars points = none := multiMultEntry_refuses c scalars points hbad

/-- `_sum_var(points, ec)` (pure-Python path) ANSWERS on every list of points passing `is_on_curve`, with `Σ Qᵢ`;
`AffRel` = what `add_aff_var` / `is_on_curve` owe the relation, discharged for btclib's arithmetic in `sum_entry_ec` -/
theorem sum_entry (c : CurveCtx α β) (L : JacRel c.o G) (F : AffRel c L) {points : List β} {gs : List G}
    (hpts : List.Forall₂ L.RA points gs) (hon : ∀ Q ∈ points, c.onCurve Q = some true) :
    ∃ A, sumEntry c points = some A ∧ L.RA A gs.sum := sumEntry_spec c L F hpts hon

/-- BY CONSTRUCTION of the model -/
theorem sum_entry_refuses (c : CurveCtx α β) (points : List β) (hbad : ∃ Q ∈ points, c.onCurve Q ≠ some true) :
    sumEntry c points = none := sumEntry_refuses c points hbad

/-- `_tweak_add_var(P, t, ec)` (pure-Python path): `P + t • G` for EVERY integer `t`, GIVEN that `mult(·, G)` is the
group law (`hmult`; discharged by `mult_entry_ec` in `tweak_add_entry_ec`, by `mult_entry_secp256k1` on secp256k1) -/
theorem tweak_add_entry (c : CurveCtx α β) (L : JacRel c.o G) (F : AffRel c L) (lam : ℤ) {gG : G}
    (hnG : (c.n : ℤ) • gG = 0) (hmult : ∀ (m : ℤ) (T : β), multEntry c lam m c.G = some T → L.RA T (m • gG))
    (t : ℤ) {P A : β} {g : G} (hP : L.RA P g) (h : tweakAddEntry c lam P t = some A) : L.RA A (g + t • gG) :=
  tweakAddEntry_spec c L F lam hnG hmult t hP h

/-- BY CONSTRUCTION of the model -/
theorem tweak_add_entry_refuses (c : CurveCtx α β) (lam : ℤ) (P : β) (t : ℤ) (hoff : c.onCurve P ≠ some true) :
    tweakAddEntry c lam P t = none := tweakAddEntry_refuses c lam P t hoff
end Entry2

example : lsum [2, -3] [(5 : ℤ), 7] = -11 := by decide

section Entry2Ec
variable {p : ℕ} [Fact p.Prime]

/-- `ec.is_on_curve(Q)` answers `True` EXACTLY on the reduced pairs that are infinity (`y = 0`) or a nonsingular
point of Mathlib's curve over `ZMod p` (odd prime `p`): an off-curve or out-of-range pair never passes -/
theorem is_on_curve_iff_valid {c : CurveGroup} (hp : c.p = (p : ℤ)) (hp2 : p ≠ 2) (Q : Point) :
    isOnCurveX c Q = some true ↔ AValid p c Q ∧ RedA c Q :=
  ⟨isOnCurveX_valid hp hp2, fun h => isOnCurveX_of_valid hp h.1 h.2⟩

/-- **`multi_mult_var` on btclib's arithmetic, every curve** (`H` any subgroup without 2-torsion holding the points) -/
theorem multi_mult_entry_ec (C : Curve) (hC : C.p = (p : ℤ)) (H : AddSubgroup (Pt p C.toCurveGroup))
    (hH : NoTwoTorsionIn H) (hn0 : 0 < C.n) (scalars : List ℤ) (points : List Point) (A : Point)
    (hpts : ∀ Q ∈ points, AValid p C.toCurveGroup Q ∧ absA p C.toCurveGroup Q ∈ H)
    (hn : ∀ Q ∈ points, C.n • absA p C.toCurveGroup Q = 0)
    (h : multiMultEntry (ctxOf C) scalars points = some A) :
    AValid p C.toCurveGroup A ∧ absA p C.toCurveGroup A = lsum scalars (points.map (absA p C.toCurveGroup)) :=
  multiMultEntry_ec C hC H hH hn0 scalars points A hpts hn h

/-- **`_sum_var` on btclib's arithmetic**: ANSWERS, with a valid pair denoting `Σ Qᵢ` -/
theorem sum_entry_ec (C : Curve) (hC : C.p = (p : ℤ)) (hp2 : p ≠ 2) (H : AddSubgroup (Pt p C.toCurveGroup))
    (hH : NoTwoTorsionIn H) (points : List Point) (hon : ∀ Q ∈ points, isOnCurveX C.toCurveGroup Q = some true)
    (hpts : ∀ Q ∈ points, absA p C.toCurveGroup Q ∈ H) :
    ∃ A, sumEntry (ctxOf C) points = some A ∧ AValid p C.toCurveGroup A ∧
      absA p C.toCurveGroup A = (points.map (absA p C.toCurveGroup)).sum :=
  sumEntry_ec C hC hp2 H hH points hon hpts

/-- **`_tweak_add_var` on btclib's arithmetic, every curve but secp256k1**: `P + t • G`, every integer `t`, any blind -/
theorem tweak_add_entry_ec (C : Curve) (hC : C.p = (p : ℤ)) (hp2 : p ≠ 2) (H : AddSubgroup (Pt p C.toCurveGroup))
    (hH : NoTwoTorsionIn H) (hsecp : (ctxOf C).isSecp = false) (hn0 : 0 < C.n) (lam : ℤ)
    (hlam : (lam : ZMod p) ≠ 0) (t : ℤ) (P A : Point) (hP : AValid p C.toCurveGroup P)
    (hPH : absA p C.toCurveGroup P ∈ H) (hgy : C.gy ≠ 0) (hG : AValid p C.toCurveGroup C.G)
    (hGH : absA p C.toCurveGroup C.G ∈ H) (hnG : C.n • absA p C.toCurveGroup C.G = 0)
    (h : tweakAddEntry (ctxOf C) lam P t = some A) :
    AValid p C.toCurveGroup A ∧
      absA p C.toCurveGroup A = absA p C.toCurveGroup P + t • absA p C.toCurveGroup C.G :=
  tweakAddEntry_ec C hC hp2 H hH hsecp hn0 lam hlam t P A hP hPH hgy hG hGH hnG h
end Entry2Ec

section Entry2Secp
open Btc.E2E

/-- `multi_mult_var` on secp256k1's pure-Python route, points in `⟨G⟩`, NO hypothesis about the curve -/
theorem multi_mult_entry_secp256k1 (scalars : List ℤ) (points : List Point) (A : Point)
    (hpts : ∀ Q ∈ points, AValid secp256k1_p cS Q ∧ absA secp256k1_p cS Q ∈ HG)
    (h : multiMultEntry (ctxOf EC.secp256k1) scalars points = some A) :
    AValid secp256k1_p cS A ∧ absA secp256k1_p cS A = lsum scalars (points.map (absA secp256k1_p cS)) :=
  multiMultEntry_secp256k1 scalars points A hpts h

theorem sum_entry_secp256k1 (points : List Point) (hon : ∀ Q ∈ points, isOnCurveX cS Q = some true)
    (hpts : ∀ Q ∈ points, absA secp256k1_p cS Q ∈ HG) :
    ∃ A, sumEntry (ctxOf EC.secp256k1) points = some A ∧ AValid secp256k1_p cS A ∧
      absA secp256k1_p cS A = (points.map (absA secp256k1_p cS)).sum := sumEntry_secp256k1 points hon hpts

theorem tweak_add_entry_secp256k1 (lam : ℤ) (hlam : (lam : ZMod secp256k1_p) ≠ 0) (t : ℤ) (P A : Point)
    (hP : AValid secp256k1_p cS P) (hPH : absA secp256k1_p cS P ∈ HG)
    (h : tweakAddEntry (ctxOf EC.secp256k1) lam P t = some A) :
    AValid secp256k1_p cS A ∧
      absA secp256k1_p cS A = absA secp256k1_p cS P + t • absA secp256k1_p cS EC.secp256k1.G :=
  tweakAddEntry_secp256k1 lam hlam t P A hP hPH h
end Entry2Secp

/-! ### constructors: the model IS the source's chain of checks (regenerated each run), and what acceptance means -/

/-- `_is_prime` of the model = the return expression translated from `curve_group._is_prime` -/
theorem is_prime_is_generated (x : ℤ) : isPrimeFermat x = Gen.C01Ctor.is_prime x := isPrimeFermat_eq_generated x

/-- `double_jac` / `_double_jac_helper` of the SHARED model (`Btc.EC.doubleJac`, what T1 is proved about) = the formula
translated from the source at the flags translated from `CurveGroup.__init__` (`_a_is_zero = a == 0`,
`_a_is_minus_3 = a == p - 3`): all three spellings of `a·Z⁴`, every curve, every triple -/
theorem double_jac_is_generated (c : CurveGroup) (Q : JacPoint) (QZ2 : ℤ) :
    doubleJac c Q = Gen.C01Ctor.double_jac_helper (Gen.C01Ctor.a_is_zero c.p c.a) (Gen.C01Ctor.a_is_minus_3 c.p c.a)
        c.p c.a Q.1 Q.2.1 Q.2.2 (Gen.C01Ctor.double_jac_qz2 (Gen.C01Ctor.a_is_zero c.p c.a) c.p Q.2.2) ∧
    doubleJacHelper c Q QZ2 = Gen.C01Ctor.double_jac_helper (Gen.C01Ctor.a_is_zero c.p c.a)
        (Gen.C01Ctor.a_is_minus_3 c.p c.a) c.p c.a Q.1 Q.2.1 Q.2.2 QZ2 ∧
    standInQ c = Gen.C01Ctor.stand_in_q c.p ∧ standInR c = Gen.C01Ctor.stand_in_r c.p :=
  ⟨doubleJac_eq_generated c Q, doubleJacHelper_eq_generated c Q QZ2, rfl, rfl⟩

/-- `CurveGroup.__init__`: the model refuses exactly what the chain of `if …: raise` read off the source refuses, and
the SAME check first (`refusal` = the message fragment of the refusing check, `none` = accepted) -/
theorem new_curve_group_is_generated (p a b : ℤ) :
    refusal (newCurveGroup p a b) = Gen.C01Ctor.group_checks p a b := newCurveGroup_eq_generated p a b

/-- `Curve.__init__` once the generator has been accepted: same statement, `_assert_mov_resistant` included -/
theorem new_curve_is_generated (p a b gx gy n h : ℤ) (weaknessCheck orderCheck : Bool) (g : CurveGroup)
    (hg : newCurveGroup p a b = .ok g) (hx : ¬ (gy ≠ 0 ∧ ¬ (0 ≤ gx ∧ gx < p)))
    (hon : isOnCurve g (gx, gy) = some true) :
    refusal (newCurve p a b gx gy n h weaknessCheck orderCheck) =
      Gen.C01Ctor.curve_checks p n h gy (multJacVar (ecOps g) n.toNat (gx, gy, 1)).2.2 weaknessCheck orderCheck :=
  newCurve_eq_generated p a b gx gy n h weaknessCheck orderCheck g hg hx hon

/-- `CurveGroup(p, a, b)` is accepted EXACTLY on: Fermat-prime `p`, `0 ≤ a < p`, `0 ≤ b < p`, `4a³ + 27b² ≢ 0` -/
theorem new_curve_group_accepted_iff (p a b : ℤ) (g : CurveGroup) :
    newCurveGroup p a b = .ok g ↔
      isPrimeFermat p = true ∧ (0 ≤ a ∧ a < p) ∧ (0 ≤ b ∧ b < p) ∧ (4 * a * a * a + 27 * b * b) % p ≠ 0 ∧
        g = { p := p, a := a, b := b } := newCurveGroup_ok_iff p a b g

/-- what `Curve(…)` being accepted means, check by check -/
theorem new_curve_accepted (p a b gx gy n h : ℤ) (wc oc : Bool) (C : Curve)
    (hC : newCurve p a b gx gy n h wc oc = .ok C) :
    newCurveGroup p a b = .ok C.toCurveGroup ∧
      C = { p := p, a := a, b := b, gx := gx, gy := gy, n := n, h := h } ∧
      (0 ≤ gx ∧ gx < p) ∧ gy ≠ 0 ∧ isOnCurve C.toCurveGroup (gx, gy) = some true ∧
      isPrimeFermat n = true ∧
      (h < 2 → p + 1 - (Nat.sqrt (4 * p).toNat : ℤ) ≤ n ∧ n ≤ p + 1 + (Nat.sqrt (4 * p).toNat : ℤ)) ∧
      (oc = true → (multJacVar (ecOps C.toCurveGroup) n.toNat (gx, gy, 1)).2.2 = 0) ∧
      h = (1 + (Nat.sqrt (4 * p).toNat : ℤ) + p) / n ∧ n ≠ p ∧ (wc = true → movWeak p n = false) :=
  newCurve_ok p a b gx gy n h wc oc C hC

/-- `_mult_jac_var` (the constructor's order test) on btclib's arithmetic with NO 2-torsion side condition -/
theorem mult_jac_var_ec_all {p : ℕ} [Fact p.Prime] {c : CurveGroup} (hp : c.p = (p : ℤ)) (m : ℕ) (Q : JacPoint)
    (hQ : JValid p c Q) :
    JValid p c (multJacVar (ecOps c) m Q) ∧ absJ p c (multJacVar (ecOps c) m Q) = (m : ℤ) • absJ p c Q :=
  multJacVar_ec_all hp m Q hQ

/-- **a malformed curve is refused**: whatever `Curve(…, order_check=True)` accepts — GIVEN that `p` and `n` are truly
prime, which the code's Fermat base-2 test does not establish (known finding `curvegroup.fermat_pseudoprime`) — has
`Δ ≠ 0` and meets `CurveOk`: odd `p`, odd prime `n`, generator a reduced nonsingular point `≠ ∞` with `n • G = 0` in
Mathlib's point group.  `CurveOk` is the hypothesis of `ec_ops_lawful(_group)`, i.e. of every scheme-level theorem. -/
theorem new_curve_is_curve_ok {p' : ℕ} [Fact p'.Prime] (p a b gx gy n h : ℤ) (wc : Bool) (C : Curve)
    (hp : p = (p' : ℤ)) (hn : Nat.Prime n.toNat) (hC : newCurve p a b gx gy n h wc true = .ok C) :
    CurveOk p' C ∧ (curveOf p' C.toCurveGroup).toAffine.Δ ≠ 0 := newCurve_curveOk p a b gx gy n h wc C hp hn hC

/-- non-vacuity: the toy curve `y² = x³ + 7` over `F₄₃`, `G = (2, 12)`, `n = 31` is accepted (order check on; its
embedding degree is small, so the MOV test refuses it when on), and each malformation is refused by the check that owns it -/
example : refusal (newCurve 43 0 7 2 12 31 1 false true) = none := by decide +kernel
example : refusal (newCurve 43 0 7 2 12 31 1 true true) = some "weak curve: " := by decide +kernel
example : refusal (newCurve 43 0 7 2 13 31 1 true true) = some "Generator is not on the curve" := by decide +kernel
example : refusal (newCurve 43 0 0 2 12 31 1 true true) = some "zero discriminant" := by decide +kernel
example : refusal (newCurve 43 0 7 2 12 37 1 true true) = some "n is not the group order: " := by decide +kernel
example : Gen.C01Ctor.group_checks 43 0 7 = none := by decide +kernel

/-! ## wave 5 — secp256k1 route totality, GLV bounds -/

/-- `_mult_endomorphism_secp256k1(m, Q, ec, w)` ANSWERS for every scalar `m`, every `w ≥ 1`, `half_len ≥ 1` -/
theorem mult_endomorphism_answers {α β : Type} (o : JacOps α β) (halfLen m w : ℕ) (hw : 1 ≤ w) (hs : 1 ≤ halfLen)
    (Q : α) : ∃ r, multEndomorphism o halfLen m Q w = some r := multEndomorphism_answers o halfLen m w hw hs Q

/-- `mult(m, Q, ec)` ANSWERS on EVERY curve, secp256k1's GLV route included, for every integer `m` and every `Q` that
is the generator or passes `is_on_curve` -/
theorem mult_entry_answers_all {α β : Type} (c : CurveCtx α β) (hc : CtxOkEndo c) (lam m : ℤ) (Q : β)
    (hQ : c.eqAff Q c.G = true ∨ c.onCurve Q = some true) : ∃ A, multEntry c lam m Q = some A :=
  multEntry_answers_all c hc lam m Q hQ

/-- … whose side conditions hold for every real curve with `n ≥ 1` at the GENERATED `_ENDOMORPHISM_W`, `_HALF_LEN` -/
theorem ctx_of_ok_endo (C : Curve) (hn : 0 < C.n) : CtxOkEndo (ctxOf C) := ctxOf_okEndo C hn

section SecpTotal
open Btc.E2E
/-- so secp256k1's own pure-Python `mult` is TOTAL and CORRECT on `⟨G⟩`: it answers, and the answer is `m • Q` -/
theorem mult_entry_secp256k1_total (lam : ℤ) (hlam : (lam : ZMod secp256k1_p) ≠ 0) (m : ℤ) (Q : Point)
    (hon : (ctxOf EC.secp256k1).eqAff Q (ctxOf EC.secp256k1).G = true ∨ isOnCurveX cS Q = some true)
    (hQ : AValid secp256k1_p cS Q) (hQH : absA secp256k1_p cS Q ∈ HG) :
    ∃ A, multEntry (ctxOf EC.secp256k1) lam m Q = some A ∧ AValid secp256k1_p cS A ∧
      absA secp256k1_p cS A = m • absA secp256k1_p cS Q := by
  obtain ⟨A, hA⟩ := multEntry_answers_all (ctxOf EC.secp256k1) (ctxOf_okEndo _ secpOk.n_pos) lam m Q hon
  exact ⟨A, hA, multEntry_secp256k1 lam hlam m Q A hQ hQH hA⟩
end SecpTotal

/-- **GLV bounds** on the function TRANSLATED from the source each run: for EVERY integer `m`,
`_multiplier_decomposer(m) = (m₁, m₂)` has `|m₁|, |m₂| < 2^128 = 2^_HALF_LEN` — the double window of the secp256k1 route
never needs more than `ceil(_HALF_LEN / w)` digits -/
theorem glv_generated_bounds (m : ℤ) :
    -(2 : ℤ) ^ 128 < (Gen.C01Glv.multiplier_decomposer m).1 ∧ (Gen.C01Glv.multiplier_decomposer m).1 < 2 ^ 128 ∧
    -(2 : ℤ) ^ 128 < (Gen.C01Glv.multiplier_decomposer m).2 ∧ (Gen.C01Glv.multiplier_decomposer m).2 < 2 ^ 128 :=
  generated_decomposer_bounds m

theorem glv_half_len_is_128 : Gen.Curves.glv_HALF_LEN = 128 := by decide

/-! ## wave 5 — T9: Tonelli–Shanks, `mod_sqrt_var` on EVERY prime -/

/-- `tonelli_var(a, p)`: an answer is a reduced square root, every prime `p` -/
theorem tonelli_sound {p : ℕ} [Fact p.Prime] (a r : ℤ) (h : NT.tonelliVar a (p : ℤ) = some r) :
    (0 ≤ r ∧ r < p) ∧ (r : ZMod p) ^ 2 = (a : ZMod p) := NT.tonelliVar_sound a r h

/-- `tonelli_var(a, p)` ANSWERS every quadratic residue: the non-residue search and the main loop terminate within the
bounds the code gives them, every prime `p` -/
theorem tonelli_answers {p : ℕ} [Fact p.Prime] (a : ℤ) (hsq : ∃ y : ZMod p, y ^ 2 = (a : ZMod p)) :
    ∃ r, NT.tonelliVar a (p : ℤ) = some r := NT.tonelliVar_answers a hsq

/-- **`mod_sqrt_var(a, p)` squares back, EVERY prime `p`, every integer `a`** (three branches: `p ≡ 3 (mod 4)`,
`p ≡ 5 (mod 8)`, Tonelli–Shanks) -/
theorem mod_sqrt_sound {p : ℕ} [Fact p.Prime] (a r : ℤ) (h : NT.modSqrtVar a (p : ℤ) = some r) :
    (0 ≤ r ∧ r < p) ∧ (r : ZMod p) ^ 2 = (a : ZMod p) := NT.modSqrtVar_sound_prime a r h

/-- **… and refuses EXACTLY the non-residues** (so every residue is answered) -/
theorem mod_sqrt_refuses_iff {p : ℕ} [Fact p.Prime] (a : ℤ) :
    NT.modSqrtVar a (p : ℤ) = none ↔ ∀ y : ZMod p, y ^ 2 ≠ (a : ZMod p) := NT.modSqrtVar_none_iff a

example : NT.modSqrtVar 2 17 = some 6 := by decide +kernel
example : NT.modSqrtVar 3 17 = none := by decide +kernel

/-! ## wave 5 — T10 finished: compressed forms on every odd prime field -/

/-- **`point_from_octets(02/03 ‖ x)` accepts EXACTLY** the `p_size + 1`-octet strings whose `x` is the abscissa of a
finite point `Q` passing `is_on_curve` with the parity of `y` the prefix names (every odd prime `p`; the `x` of a point
of order two, an off-curve `x`, `x ≥ p` are refused) -/
theorem sec_compressed_accepted_iff {p : ℕ} [Fact p.Prime] (g : CurveGroup) (hg : g.p = (p : ℤ)) (hp2 : p ≠ 2)
    (pSize : ℕ) (hybrid : Bool) (pfxB : UInt8) (body : Bytes) (Q : Point) (h23 : pfxB.toNat = 2 ∨ pfxB.toNat = 3) :
    pointFromOctets g pSize hybrid (pfxB :: body) = .ok Q ↔
      (pfxB :: body).length = pSize + 1 ∧ Q.1 = (ofBE body : ℤ) ∧ Q.2 ≠ 0 ∧ isOnCurveX g Q = some true ∧
        Q.2 % 2 = (pfxB.toNat : ℤ) - 2 := pointFromOctets_compressed_iff g hg hp2 pSize hybrid pfxB body Q h23

/-- whatever `point_from_octets` answers — ANY prefix byte, hybrid or not, every odd prime field — is a finite reduced
point of the curve (with `sec_both_coordinates_accepted_iff` for 04/06/07 and `sec_other_prefix_refused`) -/
theorem sec_answer_is_on_curve_prime {p : ℕ} [Fact p.Prime] (g : CurveGroup) (hg : g.p = (p : ℤ)) (hp2 : p ≠ 2)
    (pSize : ℕ) (hybrid : Bool) (b : Bytes) (Q : Point) (h : pointFromOctets g pSize hybrid b = .ok Q) :
    Q.2 ≠ 0 ∧ isOnCurveX g Q = some true := pointFromOctets_on_curve_prime g hg hp2 pSize hybrid b Q h

/-- compressed round trip: `point_from_octets(bytes_from_point(Q, compressed=True)) = Q` -/
theorem sec_roundtrip_compressed {p : ℕ} [Fact p.Prime] (g : CurveGroup) (hg : g.p = (p : ℤ)) (hp2 : p ≠ 2)
    (pSize : ℕ) (hybrid : Bool) (Q : Point) (b : Bytes) (hps : g.p ≤ 256 ^ pSize)
    (h : bytesFromPoint g pSize Q true = some b) : pointFromOctets g pSize hybrid b = .ok Q :=
  pointFromOctets_bytesFromPoint_compressed g hg hp2 pSize hybrid Q b hps h

example : pointFromOctets Toy.toyC.toCurveGroup 1 false [2, 2] = .ok (2, 12) := by decide +kernel
example : pointFromOctets Toy.toyC.toCurveGroup 1 true [6, 2, 13] = .error .parity := by decide +kernel
example : pointFromOctets Toy.toyC.toCurveGroup 1 true [7, 2, 13] = .error .offCurve := by decide +kernel

/-! ## wave 6 — "for every catalogued curve" with NO primality hypothesis; secp256k1 with cofactor one PROVED

`ForCatalogue P` : for every `d` of the catalogue REGENERATED from btclib's source (`Gen.Curves.catalogue`, 27 curves),
`d.p` is prime, `d.n` is prime, `CurveOk` holds and `P` holds of it.  Primality by kernel-checked Pratt certificates,
`n • G = ∞` by kernel evaluation of the proved ladder (Proofs/E2E/CatalogueOk.lean): a changed curve constant in btclib
breaks these obligations. -/

/-- every catalogued curve: `p` prime, `n` prime, `CurveOk` (odd `p`, odd `n`, generator reduced / on the curve / `≠ ∞`
/ of order `n` in Mathlib's point group) -/
theorem catalogue_ok_all : ∀ d ∈ Gen.Curves.catalogue,
    ∃ hp : Nat.Prime d.p.toNat, Nat.Prime d.n.toNat ∧ @CurveOk d.p.toNat ⟨hp⟩ (Curve.ofData d) :=
  Btc.C01.catalogue_ok

example : Gen.Curves.catalogue.length = 27 := by decide

/-- every catalogued curve: `Btc.EC.ops C` is a `LawfulGroup` (all laws but `lift_x`) on the `n`-torsion carrier -/
theorem lawful_group_catalogue : ForCatalogue fun p _ C K =>
    ∃ L : LawfulGroup (opsSub K) (Pt p C.toCurveGroup), ∀ P, L.abs P = absA p C.toCurveGroup P.1 :=
  lawfulGroup_catalogue

/-- every catalogued curve with `p ≡ 3 (mod 4)`: `Btc.EC.ops C` is `Lawful` -/
theorem lawful_catalogue : ForCatalogue fun p _ C K => p % 4 = 3 →
    ∃ L : Lawful (opsSub K) (Pt p C.toCurveGroup), ∀ P, L.abs P = absA p C.toCurveGroup P.1 :=
  Btc.C01.lawful_catalogue

/-- every catalogued curve but secp256k1 (which has `mult_entry_secp256k1_all`): `mult(m, Q, ec) = m • Q`, every
integer `m`, every blind, every valid `Q` of the `n`-torsion, generator and infinity included -/
theorem mult_entry_catalogue : ForCatalogue fun p _ C _ => (ctxOf C).isSecp = false →
    ∀ (lam : ℤ), (lam : ZMod p) ≠ 0 → ∀ (m : ℤ) (Q A : Point), AValid p C.toCurveGroup Q →
      C.n • absA p C.toCurveGroup Q = 0 → multEntry (ctxOf C) lam m Q = some A →
      AValid p C.toCurveGroup A ∧ absA p C.toCurveGroup A = m • absA p C.toCurveGroup Q := multEntry_catalogue

/-- every catalogued curve, secp256k1 included: `mult` ANSWERS on the generator and on every pair passing `is_on_curve` -/
theorem mult_entry_answers_catalogue : ForCatalogue fun _ _ C _ =>
    ∀ (lam m : ℤ) (Q : Point), (ctxOf C).eqAff Q (ctxOf C).G = true ∨ isOnCurveX C.toCurveGroup Q = some true →
      ∃ A, multEntry (ctxOf C) lam m Q = some A := multEntry_answers_catalogue

/-- every catalogued curve but secp256k1: `double_mult_var(u, H, v, Q) = u • H + v • Q` -/
theorem double_mult_entry_catalogue : ForCatalogue fun p _ C _ => (ctxOf C).isSecp = false →
    ∀ (u v : ℤ) (P Q A : Point), AValid p C.toCurveGroup P → C.n • absA p C.toCurveGroup P = 0 →
      AValid p C.toCurveGroup Q → C.n • absA p C.toCurveGroup Q = 0 →
      doubleMultEntry (ctxOf C) u P v Q = some A →
      AValid p C.toCurveGroup A ∧
        absA p C.toCurveGroup A = u • absA p C.toCurveGroup P + v • absA p C.toCurveGroup Q :=
  doubleMultEntry_catalogue

/-- every catalogued curve, secp256k1 included: `multi_mult_var = Σ sᵢ • Qᵢ` -/
theorem multi_mult_entry_catalogue : ForCatalogue fun p _ C _ =>
    ∀ (scalars : List ℤ) (points : List Point) (A : Point),
      (∀ Q ∈ points, AValid p C.toCurveGroup Q ∧ C.n • absA p C.toCurveGroup Q = 0) →
      multiMultEntry (ctxOf C) scalars points = some A →
      AValid p C.toCurveGroup A ∧ absA p C.toCurveGroup A = lsum scalars (points.map (absA p C.toCurveGroup)) :=
  multiMultEntry_catalogue

/-- every catalogued curve: the reference `mult` the scheme drivers run is closed on the carrier and `= m • P` -/
theorem ec_mult_catalogue : ForCatalogue fun p _ C _ => ∀ (m : ℤ) (P : Point), InSub p C P →
    InSub p C ((EC.ops C).mul m P) ∧
      absA p C.toCurveGroup ((EC.ops C).mul m P) = m • absA p C.toCurveGroup P := mul_catalogue

section Secp256k1Unconditional
open Btc.E2E

/-- **secp256k1 has cofactor one**: every point of `y² = x³ + 7` over the secp256k1 field has order dividing `n`
(`N ≤ 2p+1`, `n ∣ N`, `2p+1 < 3n`, no point of order 2: Proofs/E2E/CofactorOne.lean) -/
theorem secp256k1_cofactor_one : ∀ g : Pt secp256k1_p cS, EC.secp256k1.n • g = 0 := secp_hcof

/-- … so `⟨G⟩` is the whole curve: the membership hypothesis `∈ HG` of the `…_secp256k1` theorems holds of EVERY point -/
theorem secp256k1_generator_generates (g : Pt secp256k1_p cS) : g ∈ HG := mem_HG g

/-- `mult(m, Q)` on secp256k1's pure-Python route, EVERY valid `Q` (no subgroup hypothesis, no assumption at all) -/
theorem mult_entry_secp256k1_all (lam : ℤ) (hlam : (lam : ZMod secp256k1_p) ≠ 0) (m : ℤ) (Q A : Point)
    (hQ : AValid secp256k1_p cS Q) (h : multEntry (ctxOf EC.secp256k1) lam m Q = some A) :
    AValid secp256k1_p cS A ∧ absA secp256k1_p cS A = m • absA secp256k1_p cS Q :=
  multEntry_secp256k1 lam hlam m Q A hQ (mem_HG _) h

/-- `double_mult_var` on secp256k1's pure-Python route, every valid `H`, `Q` -/
theorem double_mult_entry_secp256k1_all (u v : ℤ) (P Q A : Point) (hP : AValid secp256k1_p cS P)
    (hQ : AValid secp256k1_p cS Q) (h : doubleMultEntry (ctxOf EC.secp256k1) u P v Q = some A) :
    AValid secp256k1_p cS A ∧ absA secp256k1_p cS A = u • absA secp256k1_p cS P + v • absA secp256k1_p cS Q :=
  doubleMultEntry_secp256k1 u v P Q A hP (mem_HG _) hQ (mem_HG _) h

/-- `ops_sub_hom_of_cofactor_one` at secp256k1, hypothesis-free: `Subtype.val` commutes with every operation of the lawful
carrier and the raw `Btc.EC.ops secp256k1` the drivers run, `lift_x` included -/
theorem ops_sub_hom_secp256k1 : OpsHom (opsSub secpOk) (EC.ops EC.secp256k1) (Subtype.val : SubPt secp256k1_p EC.secp256k1 → Point) :=
  opsSub_hom secpOk secp256k1_h34 secp_hcof secp_delta

/-- `ops_sub_liftX_is_ec_ops` at secp256k1, hypothesis-free -/
theorem ops_sub_liftX_is_ec_ops_secp256k1 (x : ℤ) :
    ((opsSub secpOk).liftX x).map Subtype.val = (EC.ops EC.secp256k1).liftX x :=
  liftXSub_val_of_cofactor_one secpOk secp256k1_h34 secp_hcof secp_delta x

/-- every reduced valid pair of secp256k1 (every key the API accepts, infinity) is in the lawful carrier -/
theorem in_sub_secp256k1 {P : Point} (hv : AValid secp256k1_p cS P) (hr : RedA cS P) :
    InSub secp256k1_p EC.secp256k1 P := inSub_of_cofactor_one secp_hcof hv hr
end Secp256k1Unconditional

end Props.C01
