import Proofs.C01.Ladders
import Proofs.C01.Arith
import Proofs.C01.Entry
import Proofs.C01.JacRefine
import Proofs.C01.JacMult
/-!
# C01 — curve and field arithmetic compute exactly the group law (DESIGN.md §3 C01)

Property theorems only.  Layout of the argument:

* T1 (`add_jac_refines` …, proved in `Proofs/C01/JacRefine.lean`): btclib's branch-free Jacobian formulas over
  `Int` with Python's `%` (`Model/Common/EC.lean`, tied to the code by the exhaustive `jac.*` streams) compute
  the group law of Mathlib's elliptic-curve point group over `ZMod p`.
* T2 the integer recodings are exact for ALL `m`, `w`, digit counts.
* T3–T6 every ladder of `Model/C01/Ladders.lean` (tied to the private functions by exact-Jacobian streams),
  written once over `JacOps`, returns `m • P` / `Σ uᵢ • Pᵢ` under the hypothesis `JacRel` — the operations
  represent an additive commutative group — which is what T1 establishes for btclib's formulas.
* T7 GLV identities on the GENERATED secp256k1 constants.  T9 the modular inverse.
-/
namespace Props.C01
open Btc.C01 Btc.EC

/-! ## T1 — the Jacobian formulas are the group law (re-exported from Proofs/C01/JacRefine.lean) -/
section T1
variable {p : ℕ} [Fact p.Prime] {c : CurveGroup} (hp : c.p = (p : ℤ))
include hp

/-- `add_jac`, every case: stand-ins for infinity (any `Z = 0` triple, `INFJ` and `(5,0,0)` included, so
p ∈ {5,7} too), equal x with equal / opposite y, generic chord -/
theorem add_jac_refines (Q R : JacPoint) (hQ : JValid p c Q) (hR : JValid p c R) :
    JValid p c (addJac c Q R) ∧ absJ p c (addJac c Q R) = absJ p c Q + absJ p c R :=
  ⟨addJac_valid hp Q R hQ hR, addJac_refines hp Q R hQ hR⟩

theorem add_jac_aff_refines (Q : JacPoint) (R : Point) (hQ : JValid p c Q) (hR : AValid p c R) :
    JValid p c (addJacAff c Q R) ∧ absJ p c (addJacAff c Q R) = absJ p c Q + absA p c R :=
  ⟨addJacAff_valid hp Q R hQ hR, addJacAff_refines hp Q R hQ hR⟩

/-- `double_jac`, all three spellings of `a·Z⁴` (the model selects them as the constructor does) -/
theorem double_jac_refines (Q : JacPoint) (hQ : JValid p c Q) :
    JValid p c (doubleJac c Q) ∧ absJ p c (doubleJac c Q) = absJ p c Q + absJ p c Q :=
  ⟨doubleJac_valid hp Q hQ, doubleJac_refines hp Q hQ⟩

theorem negate_jac_refines (Q : JacPoint) (hQ : JValid p c Q) :
    JValid p c (negateJac c Q) ∧ absJ p c (negateJac c Q) = -absJ p c Q :=
  ⟨negateJac_valid hp Q hQ, negateJac_refines hp Q hQ⟩
end T1

/-- T8 for the shared reference multiplication every scheme-level driver runs (`Btc.EC.mult`):
`mult m Q = (m mod n) • Q` in Mathlib's point group, every integer `m`, every valid `Q` incl. infinity -/
theorem ec_mult_refines {p : ℕ} [Fact p.Prime] (C : Curve) (hC : C.p = (p : ℤ)) (h2 : NoTwoTorsion p C.toCurveGroup)
    (m : ℤ) (Q : Point) (hQ : AValid p C.toCurveGroup Q) :
    ∃ A : Point, mult C m Q = some A ∧ AValid p C.toCurveGroup A ∧
      absA p C.toCurveGroup A = (m % C.n).toNat • absA p C.toCurveGroup Q :=
  mult_refines C hC h2 m Q hQ

/-! ## T2 — recodings -/

/-- `signed_odd_digits(m, w, size)`: whenever it answers, `Σ dᵢ·2^(w·i) = m`, every digit is odd with
`|dᵢ| < 2^w`, there are exactly `size` of them; for ALL `m`, `w`, `size` -/
theorem signed_odd_digits_sum {m : ℤ} {w size : Nat} {ds : List ℤ} (h : signedOddDigits m w size = some ds) :
    evalLE w ds = m ∧ (∀ d ∈ ds, d % 2 = 1 ∧ -(2 : ℤ) ^ w < d ∧ d < (2 : ℤ) ^ w) ∧ ds.length = size := by
  obtain ⟨hev, hgood, _⟩ := signedOddDigits_spec h
  obtain ⟨_, _, _, hs, _, hdig⟩ := signedOddDigits_some h
  exact ⟨hev, hgood, by rw [hdig, sodLoop_length]; omega⟩

example : signedOddDigits 11 2 3 = some [-1, -1, 1] := by decide

/-- the recoding loop sums back to `m` for EVERY integer `m` (odd or not, fitting or not) -/
theorem signed_odd_digits_loop_sum (w k : Nat) (m : ℤ) : evalLE w (sodLoop w k m) = m := sodLoop_eval w k m

/-- `_wNAF_of_m(m, w)`: `Σ dᵢ·2ⁱ = m`; digits zero or odd with `|dᵢ| < 2^(w-1)` (`{0, ±1}` for `w = 1`) -/
theorem wnaf_sum (w : Nat) (hw : 1 ≤ w) (m : Nat) :
    evalLE 1 (wnaf w m) = m ∧ ∀ d ∈ wnaf w m, NafDigit w d := wnaf_spec w hw m

example : wnaf 3 7 = [-1, 0, 0, 1] := by decide

/-- `_convert_number_to_base(m, b)`: the digits are base-`b` digits of `m` -/
theorem base_digits (b m : Nat) (hb : 2 ≤ b) : evalMSB b 0 (toBase b m) = m ∧ ∀ d ∈ toBase b m, d < b :=
  ⟨toBase_eval b m hb, toBase_lt b m hb⟩

/-! ## T3 — one theorem per ladder, generic over the curve -/
section Ladders
variable {α β G : Type} [AddCommGroup G] {o : JacOps α β} (L : JacRel o G)

theorem mult_recursive_jac (m : Nat) {Q : α} {g : G} (hQ : L.R Q g) :
    L.R (multRecursiveJac o m Q) ((m : ℤ) • g) := multRecursiveJac_spec L m hQ

theorem mult_jac_var (m : Nat) {Q : α} {g : G} (hQ : L.R Q g) :
    L.R (multJacVar o m Q) ((m : ℤ) • g) := multJacVar_spec L m hQ

theorem mult_mont_ladder (m : Nat) {Q : α} {g : G} (hQ : L.R Q g) :
    L.R (multMontLadder o m Q) ((m : ℤ) • g) := multMontLadder_spec L m hQ

theorem mult_base_3 (m : Nat) {Q : α} {g : G} (hQ : L.R Q g) :
    L.R (multBase3 o m Q) ((m : ℤ) • g) := multBase3_spec L m hQ

/-- `_mult_regular_window(m, Q, ec, w)`: every `m ≥ 0` (even, zero, above `scalar_len` bits: the `m|1`
recoding and the final `+(-Q)` correction included), every `w ≥ 1`, every point incl. infinity -/
theorem mult_regular_window (scalarLen m w : Nat) {Q r : α} {g : G} (hQ : L.R Q g)
    (h : multRegularWindow o scalarLen m Q w = some r) : L.R r ((m : ℤ) • g) :=
  multRegularWindow_spec L scalarLen m w hQ h

/-- `_mult(m, Q, ec)`: the regular window at the GENERATED width `_MULT_W` -/
theorem mult_generated_width (scalarLen m : Nat) {Q r : α} {g : G} (hQ : L.R Q g)
    (h : multRegularWindow o scalarLen m Q Gen.Curves.MULT_W = some r) : L.R r ((m : ℤ) • g) :=
  multRegularWindow_spec L scalarLen m _ hQ h

/-- `_mult_fixed_base(m, Q, ec, w)` (what `mult(m, G)` runs, at the generated `_FIXED_BASE_W`): any blind -/
theorem mult_fixed_base (scalarLen m w : Nat) {lam : ℤ} (hlam : L.blindOk lam) {Q r : α} {g : G} (hQ : L.R Q g)
    (h : multFixedBase o scalarLen lam m Q w = some r) : L.R r ((m : ℤ) • g) :=
  multFixedBase_spec L scalarLen m w hlam hQ h

/-! ## T4, T5, T6 — multi-scalar -/

/-- `_multi_mult_w_NAF_var` / `_double_mult_w_NAF_var`: `Σ uᵢ • Pᵢ`, any list, any `w ≥ 1`, any fixed set -/
theorem multi_mult_wnaf (isFixed : α → Bool) (fixedW w : Nat) (hfw : 1 ≤ fixedW) (scalars : List Nat)
    (points : List α) (hpts : ∀ P ∈ points, ∃ g, L.R P g) {r : α}
    (h : multiMultWNAF o isFixed fixedW scalars points w = some r) :
    L.R r (tsum L (scalars.zip points)) := multiMultWNAF_spec L isFixed fixedW w hfw scalars points hpts h

/-- Bos–Coster: `Σ uᵢ • Pᵢ` for ANY choice the heap makes (any tie-breaking) -/
theorem bos_coster (hf : L.Functional) (sel : Select α) (hsel : SelectOk sel) (scalarLen multW : Nat)
    (scalars : List Nat) (points : List α) (hpts : ∀ P ∈ points, ∃ g, L.R P g) {r : α}
    (h : multiMultBosCoster o sel scalarLen multW scalars points = some r) :
    L.R r (tsum L (scalars.zip points)) :=
  multiMultBosCoster_spec L hf sel hsel scalarLen multW scalars points hpts h

/-- dispatch irrelevance: `_multi_mult_var` at the GENERATED `BOS_COSTER_THRESHOLD` (proved for every threshold) -/
theorem dispatch_irrelevant (hf : L.Functional) (sel : Select α) (hsel : SelectOk sel) (isFixed : α → Bool)
    (fixedW scalarLen : Nat) (hfw : 1 ≤ fixedW) (scalars : List Nat) (points : List α)
    (hpts : ∀ P ∈ points, ∃ g, L.R P g) {r : α}
    (h : multiMultVar o sel isFixed fixedW scalarLen Gen.Curves.MULT_W Gen.Curves.MULTI_MULT_W
      Gen.Curves.BOS_COSTER_THRESHOLD scalars points = some r) :
    L.R r (tsum L (scalars.zip points)) :=
  multiMultVar_spec L hf sel hsel isFixed fixedW scalarLen _ _ _ hfw scalars points hpts h
end Ladders

/-! ## T8 — public entry points (pure-Python path, every curve but secp256k1) -/
section Entry
variable {α β G : Type} [AddCommGroup G]

/-- `mult(m, Q, ec) = m • Q` for EVERY integer `m` (negative, ≥ n, multiples of n), generator and infinity included -/
theorem mult_entry (c : CurveCtx α β) (L : JacRel c.o G) (hsecp : c.isSecp = false) (hn0 : 0 < c.n) {lam : ℤ}
    (hlam : L.blindOk lam) (m : ℤ) {Q A : β} {g : G} (hQ : L.RA Q g)
    (hG : c.eqAff Q c.G = true → L.R c.GJ g) (hn : (c.n : ℤ) • g = 0)
    (h : multEntry c lam m Q = some A) : L.RA A (m • g) := multEntry_spec c L hsecp hn0 hlam m hQ hG hn h

/-- a point failing `is_on_curve` is refused rather than answered -/
theorem mult_entry_refuses_off_curve (c : CurveCtx α β) (lam m : ℤ) (Q : β) (hq : c.eqAff Q c.G = false)
    (hoff : c.onCurve Q ≠ some true) : multEntry c lam m Q = none := multEntry_refuses c lam m Q hq hoff

theorem prepared_mult (c : CurveCtx α β) (L : JacRel c.o G) (hsecp : c.isSecp = false) (hn0 : 0 < c.n) {lam : ℤ}
    (hlam : L.blindOk lam) (m : ℤ) {Q A : β} {g : G} (hQ : L.RA Q g)
    (hG : c.eqAff Q c.G = true → L.R c.GJ g) (hn : (c.n : ℤ) • g = 0)
    (h : preparedMult c lam Q m = some A) : L.RA A (m • g) := preparedMult_spec c L hsecp hn0 hlam m hQ hG hn h
end Entry

/-! ### non-vacuity: the hypothesis bundle is satisfiable (integers under addition) and the ladders answer -/

def intOps : JacOps ℤ ℤ where
  zero := 0
  zeroAff := 0
  add := (· + ·)
  addAff := (· + ·)
  dbl x := x + x
  neg x := -x
  negAff x := -x
  jacFromAff x := x
  toAff x := x
  rescale _ x := x
  endo x := x

def intRel : JacRel intOps ℤ where
  R x g := x = g
  RA x g := x = g
  blindOk _ := True
  zero := rfl
  zeroAff := rfl
  add := by intro x y g h hx hy; subst hx; subst hy; rfl
  addAff := by intro x y g h hx hy; subst hx; subst hy; rfl
  dbl := by intro x g hx; subst hx; rfl
  neg := by intro x g hx; subst hx; rfl
  negAff := by intro x g hx; subst hx; rfl
  jacFromAff := by intro x g hx; exact hx
  toAff := by intro x g hx; exact hx
  rescale := by intro l x g _ hx; exact hx

example : intRel.Functional := by intro x g g' h h'; exact h.symm.trans h'
example : multRegularWindow intOps 5 22 3 4 = some 66 := by decide
example : multFixedBase intOps 5 1 22 3 2 = some 66 := by decide

/-! ## T7 — GLV on the generated constants -/

theorem glv_decomposition (m : ℤ) :
    ((multiplierDecomposer m).1 + (multiplierDecomposer m).2 * Gen.Curves.glv_LAM - m) % Gen.Curves.glv_N = 0 :=
  multiplierDecomposer_congr m

theorem glv_constants :
    Gen.Curves.glv_LAM ^ 3 % Gen.Curves.glv_N = 1 ∧ Gen.Curves.glv_BETA ^ 3 % Gen.Curves.secp256k1.p = 1 ∧
    Gen.Curves.glv_LAM % Gen.Curves.glv_N ≠ 1 ∧ Gen.Curves.glv_BETA % Gen.Curves.secp256k1.p ≠ 1 ∧
    Gen.Curves.glv_N = Gen.Curves.secp256k1.n := by
  refine ⟨?_, ?_, glv_lam_ne_one, glv_beta_ne_one, glv_N_is_n⟩
  · rw [pow_succ, pow_two]; exact glv_lam_cube
  · rw [pow_succ, pow_two]; exact glv_beta_cube

/-! ## T9 — number theory -/

/-- `mod_inv_var(a, m)` (`pow(a, -1, m)`): what it returns is the inverse, every `a`, every `m` -/
theorem mod_inv_sound (a m x : ℤ) (h : modInv a m = some x) : 0 ≤ x ∧ x < m ∧ a * x % m = 1 % m :=
  modInv_sound a m x h

/-- … and it answers whenever an inverse exists (re-exported from JacRefine: `gcd(a, n) = 1`) -/
theorem mod_inv_complete {n : ℕ} (hn : 1 ≤ n) (a : ℤ) (hg : Int.gcd a n = 1) :
    ∃ x, modInv a n = some x := by
  obtain ⟨x, hx, _⟩ := Btc.C01.modInv_spec hn a hg
  exact ⟨x, hx⟩

example : modInv 3 7 = some 5 := by decide

end Props.C01
