/-!
# C01 — property theorems only (see DESIGN.md §3 C01).
-/
namespace Props.C01

end Props.C01
