import Proofs.C06.Polymod
import Proofs.C06.Net
import Proofs.C06.Codec
import Proofs.C06.Regroup
import Proofs.C06.RegroupConv
import Proofs.C06.Base58
import Proofs.C06.Address
import Proofs.C06.TwoErr
import Proofs.C06.KeyText
import Proofs.C06.SubString
import Proofs.C06.RefEquiv
import Proofs.C06.Slip132
import Proofs.C06.ScriptAddr
import Proofs.C06.KeyTextConv
import Proofs.C06.ThreeErr
import Proofs.C06.Bip21
import Proofs.C06.TwoErrSwitch
/-!
# C06 — text encodings and addresses round-trip and accept exactly what the specs accept

Property theorems only.  `Gen.*` constants/tables are regenerated from /repo on every run; the
functions are the hand models of `Model/C06` (tied to btclib by correspondence) and the literal
BIP173/BIP350 transcription `Btc.Bech32Ref` (the specification).
-/
namespace Props.C06
open Btc Btc.Bech32 Gen.Bech32

/-- T2 (tables): the alphabet, the five generators and the two checksum constants btclib carries are
    the BIPs'; every `_TAPS` entry is the XOR of the generators selected by its index bits. -/
theorem bech32_constants_are_the_bips :
    ALPHABET = Bech32Ref.CHARSET ∧ GENERATOR = Bech32Ref.generator ∧
    BECH32_1_CONST = 1 ∧ BECH32_M_CONST = Bech32Ref.BECH32M_CONST ∧
    (∀ top, top < 32 → TAPS.getD top 0 = Bech32Ref.genLoop top GENERATOR 0 0) :=
  ⟨alphabet_eq_ref, generator_eq_ref, consts_eq_ref.1, consts_eq_ref.2, taps_from_generator⟩

/-- T2 (polymod): btclib's table-driven `_polymod` equals the BIP173 reference `bech32_polymod`
    (five conditional XORs per value) on every sequence of values below 2^30 — the only ones that
    can reach it (5-bit digits and `ord(c) >> 5`); a larger value is an IndexError in btclib. -/
theorem polymod_table_eq_reference (values : List Nat) (h : ∀ v ∈ values, v < 2 ^ 30) :
    Bech32.polymod values = Bech32Ref.polymod values :=
  polymodFrom_eq_ref values _ (by decide) h

/-- T3 (linearity): XOR-ing an error word into the values XORs its own (start-0) residue into the
    checksum: a corruption is undetected iff its error word is a codeword. -/
theorem polymod_xor_linear (vs : List Nat) (a d : Nat) (ha : a < 2 ^ 30) (hd : d < 2 ^ 30)
    (hv : ∀ v ∈ vs, v < 2 ^ 30) :
    polymodFrom (a ^^^ d) vs = polymodFrom a vs ^^^ polymodFrom d (vs.map fun _ => 0) := by
  rw [polymodFrom_xor vs a d ha hd hv]
  congr 1
  clear ha hv
  induction vs generalizing d with
  | nil => rfl
  | cons v vs ih =>
    simp only [List.length_cons, shiftK, List.map_cons, polymodFrom, List.foldl_cons]
    exact ih _ (step0_lt d)

/-- T3 (single substitution): two value sequences of ANY length that differ in exactly one position
    (anywhere: expanded human-readable part, data or checksum) never have the same checksum, so
    at most one of them verifies against a given constant: every single-character substitution in
    the data part of a valid string of any length is refused (stronger than the BIP's 90 characters). -/
theorem single_substitution_detected (pre post : List Nat) (v v' m : Nat)
    (hpost : ∀ x ∈ post, x < 2 ^ 30) (hv : v < 2 ^ 30) (hv' : v' < 2 ^ 30) (hne : v ≠ v')
    (h1 : Bech32.polymod (pre ++ v :: post) = m) : Bech32.polymod (pre ++ v' :: post) ≠ m := by
  intro h2
  exact hne (single_substitution pre post v v' hpost hv hv' (h1.trans h2.symm))

/-- T3 (adjacent transposition): swapping two adjacent distinct 5-bit values is always detected. -/
theorem adjacent_transposition_detected (pre post : List Nat) (a b m : Nat)
    (hpost : ∀ x ∈ post, x < 2 ^ 30) (ha : a < 32) (hb : b < 32) (hne : a ≠ b)
    (h1 : Bech32.polymod (pre ++ a :: b :: post) = m) : Bech32.polymod (pre ++ b :: a :: post) ≠ m := by
  intro h2
  exact hne (adjacent_transposition pre post a b hpost ha hb (h1.trans h2.symm))

/-- T2 (round trip): for every human-readable part btclib's decoder admits (non-empty, characters 48..122,
    no upper case), every sequence of 5-bit values of any length and every checksum constant below 2^30
    (explicit `m`, or read off the witness version when `m` is None), `bech32.encode` answers a string and
    `bech32.decode` of that string answers exactly `(hrp, data)`: the last `1` is the separator, the six
    checksum characters verify, nothing is lost. -/
theorem bech32_decode_encode (hrp data : List Nat) (m : Option Nat) (mm : Nat) (hh : hrp ≠ [])
    (hr : ∀ x ∈ hrp, 47 < x ∧ x < 123 ∧ ¬ (65 ≤ x ∧ x ≤ 90)) (hd : ∀ d ∈ data, d < 32)
    (hm : pickM m data = .ok mm) (hmm : mm < 2 ^ 30) :
    ∃ s, encodeNat hrp data m = .ok s ∧ Bech32.decode s m = .ok (hrp, data) :=
  decode_encodeNat hrp data m mm hh hr hd hm hmm

/-- T2 (constant by version): with `m` None the constant is 1 (bech32) for witness version 0 and
    0x2bc830a3 (bech32m) otherwise, both below 2^30, so the round trip holds for every address payload. -/
theorem bech32_roundtrip_by_version (hrp : List Nat) (ver : Nat) (rest : List Nat) (hh : hrp ≠ [])
    (hr : ∀ x ∈ hrp, 47 < x ∧ x < 123 ∧ ¬ (65 ≤ x ∧ x ≤ 90)) (hd : ∀ d ∈ ver :: rest, d < 32) :
    pickM none (ver :: rest) = .ok (if ver = 0 then 1 else 0x2bc830a3) ∧
    ∃ s, encodeNat hrp (ver :: rest) none = .ok s ∧ Bech32.decode s none = .ok (hrp, ver :: rest) := by
  refine ⟨rfl, ?_⟩
  apply decode_encodeNat hrp (ver :: rest) none (if ver = 0 then 1 else 0x2bc830a3) hh hr hd rfl
  split <;> decide

example : encodeNat [98, 99] [0, 1, 2] none = .ok ("bc1qpz58kw9e".toList.map Char.toNat) := by decide

/-- T3 (two substitutions): two value sequences of ANY length that differ in two positions at most 1022
    positions apart (at most 1021 values in between, `mid.length < 1022`; every address has about 100 values)
    never share a checksum. Distance 1023 is the period of x in GF(32)[x]/g and is NOT detectable, so 1022 is
    the exact limit. Proved from the residue table x^k·d ∉ {0..31} for k = 1..1022, d = 1..31
    (`decide +kernel`), lifted by linearity and the trivial kernel of the zero-input step. -/
theorem two_substitutions_detected (pre mid post : List Nat) (v1 v1' v2 v2' m : Nat)
    (hmid : ∀ x ∈ mid, x < 2 ^ 30) (hpost : ∀ x ∈ post, x < 2 ^ 30)
    (h1 : v1 < 32) (h1' : v1' < 32) (h2 : v2 < 32) (h2' : v2' < 32) (hne : v1 ≠ v1') (hw : mid.length < 1022)
    (h : Bech32.polymod (pre ++ v1 :: (mid ++ v2 :: post)) = m) :
    Bech32.polymod (pre ++ v1' :: (mid ++ v2' :: post)) ≠ m := by
  intro h'
  exact two_substitutions pre mid post v1 v1' v2 v2' hmid hpost h1 h1' h2 h2' hne hw (h.trans h'.symm)

/-- T2 (encode ∘ decode): a string `bech32.decode` accepts re-encodes, with the same `m`, to exactly its
    lower-cased self: one spelling per (hrp, data) up to the case of the whole string. -/
theorem bech32_encode_decode (s hrp data : List Nat) (m : Option Nat) (h : Bech32.decode s m = .ok (hrp, data)) :
    encodeNat hrp data m = .ok (lower s) := Bech32.encode_decode s hrp data m h

/-- T3 at the string level (explicit constant): changing ONE character after the separator of an accepted
    string — to anything but a separator or the other case of the same letter — gives a string the decoder
    refuses. Any length. -/
theorem substitution_refused (pre a b : List Nat) (x x' m : Nat) (h49 : 49 ∉ a ++ x :: b) (hx' : x' ≠ 49)
    (hne : lowerC x ≠ lowerC x') (r : List Nat × List Nat)
    (h1 : Bech32.decode (pre ++ 49 :: (a ++ x :: b)) (some m) = .ok r) :
    ∀ r', Bech32.decode (pre ++ 49 :: (a ++ x' :: b)) (some m) ≠ .ok r' :=
  Bech32.substitution_refused pre a b x x' m h49 hx' hne r h1

/-- T3 at the string level, constant read off the witness version (`decode(s)` as addresses use it): the same,
    INCLUDING the version character, where the expected constant switches between bech32 and bech32m — a
    single substitution never maps one constant's codeword onto the other's (residue table, at most 1022
    characters after the changed one). -/
theorem substitution_refused_version_constant (pre a b : List Nat) (x x' : Nat) (h49 : 49 ∉ a ++ x :: b)
    (hx' : x' ≠ 49) (hne : lowerC x ≠ lowerC x') (hb : b.length ≤ 1022) (r : List Nat × List Nat)
    (h1 : Bech32.decode (pre ++ 49 :: (a ++ x :: b)) none = .ok r) :
    ∀ r', Bech32.decode (pre ++ 49 :: (a ++ x' :: b)) none ≠ .ok r' :=
  Bech32.substitution_refused_none pre a b x x' h49 hx' hne hb r h1

/-- T3 at the string level, two characters (explicit constant): changing two characters after the separator,
    at most 1022 positions apart, gives a string the decoder refuses. (With `m` None — constant read off a possibly
    changed version character — see `two_substitutions_refused_version_constant` below.) -/
theorem two_substitutions_refused (pre a mid b : List Nat) (x x' y y' m : Nat)
    (h49 : 49 ∉ a ++ x :: (mid ++ y :: b)) (hx' : x' ≠ 49) (hy' : y' ≠ 49)
    (hne : lowerC x ≠ lowerC x') (hw : mid.length < 1022) (r : List Nat × List Nat)
    (h1 : Bech32.decode (pre ++ 49 :: (a ++ x :: (mid ++ y :: b))) (some m) = .ok r) :
    ∀ r', Bech32.decode (pre ++ 49 :: (a ++ x' :: (mid ++ y' :: b))) (some m) ≠ .ok r' :=
  Bech32.two_substitutions_refused pre a mid b x x' y y' m h49 hx' hy' hne hw r h1

/-- T2 (acceptance ⇔ BIP173/BIP350 reference): on every string whose characters before the last separator lie
    in btclib's 48..122 (`hrpInBtclibRange`; its complement is exactly the known finding `bech32.hrp-range`),
    the literal transcription of the BIPs' `bech32_decode` answers `(hrp, data, encoding)` if and only if
    btclib's decoder, given that encoding's constant, answers `(hrp, data)` and the string has at most 90
    characters (the reference's own cap, which btclib leaves to b32). The ⇐ direction needs no HRP condition:
    btclib never accepts what the reference refuses. -/
theorem bech32_decode_iff_reference (s hrp data : List Nat) (spec : Bech32Ref.Encoding)
    (hrange : hrpInBtclibRange s) :
    Bech32Ref.decode s = some (hrp, data, spec) ↔
      (Bech32.decode s (some (specConst spec)) = .ok (hrp, data) ∧ s.length ≤ 90) :=
  ⟨fun h => ref_imp_decode s hrp data spec hrange h, fun h => decode_imp_ref s hrp data spec h.2 h.1⟩

/-- the ⇐ half alone, unconditionally. -/
theorem bech32_accepts_only_what_reference_accepts (s hrp data : List Nat) (spec : Bech32Ref.Encoding)
    (h90 : s.length ≤ 90) (h : Bech32.decode s (some (specConst spec)) = .ok (hrp, data)) :
    Bech32Ref.decode s = some (hrp, data, spec) := decode_imp_ref s hrp data spec h90 h

example : specConst .bech32 = Gen.Bech32.BECH32_1_CONST ∧ specConst .bech32m = Gen.Bech32.BECH32_M_CONST := by decide

/-- T3 (three substitutions, value level): two value sequences of ANY length that differ in up to three positions,
    the first and the last at most 88 positions apart (only `v1 ≠ v1'` is asked, so one and two changes are
    included), never share a checksum. 88 covers every pair of positions after the separator of a 90-character
    string. Table: the 2728 residues x^b·d (1 ≤ b ≤ 88, 1 ≤ d ≤ 31) have pairwise different parts above the low
    five bits (`decide +kernel`), so x^b·d1 + x^c·d2 is never a single value d3. -/
theorem three_substitutions_detected (pre mid1 mid2 post : List Nat) (v1 v1' v2 v2' v3 v3' m : Nat)
    (hm1 : ∀ x ∈ mid1, x < 2 ^ 30) (hm2 : ∀ x ∈ mid2, x < 2 ^ 30) (hpost : ∀ x ∈ post, x < 2 ^ 30)
    (h1 : v1 < 32) (h1' : v1' < 32) (h2 : v2 < 32) (h2' : v2' < 32) (h3 : v3 < 32) (h3' : v3' < 32)
    (hne : v1 ≠ v1') (hw : mid1.length + mid2.length + 2 ≤ 88)
    (h : Bech32.polymod (pre ++ v1 :: (mid1 ++ v2 :: (mid2 ++ v3 :: post))) = m) :
    Bech32.polymod (pre ++ v1' :: (mid1 ++ v2' :: (mid2 ++ v3' :: post))) ≠ m := by
  intro h'
  exact three_substitutions pre mid1 mid2 post v1 v1' v2 v2' v3 v3' hm1 hm2 hpost h1 h1' h2 h2' h3 h3' hne hw
    (h.trans h'.symm)

/-- T3 at the string level, three characters (explicit constant): changing up to three characters after the
    separator of an accepted string, first to last at most 88 apart, gives a string the decoder refuses. -/
theorem three_substitutions_refused (pre a mid1 mid2 b : List Nat) (x x' y y' z z' m : Nat)
    (h49 : 49 ∉ a ++ x :: (mid1 ++ y :: (mid2 ++ z :: b))) (hx' : x' ≠ 49) (hy' : y' ≠ 49) (hz' : z' ≠ 49)
    (hne : lowerC x ≠ lowerC x') (hw : mid1.length + mid2.length + 2 ≤ 88) (r : List Nat × List Nat)
    (h1 : Bech32.decode (pre ++ 49 :: (a ++ x :: (mid1 ++ y :: (mid2 ++ z :: b)))) (some m) = .ok r) :
    ∀ r', Bech32.decode (pre ++ 49 :: (a ++ x' :: (mid1 ++ y' :: (mid2 ++ z' :: b)))) (some m) ≠ .ok r' :=
  Bech32.three_substitutions_refused pre a mid1 mid2 b x x' y y' z z' m h49 hx' hy' hz' hne hw r h1

/-- T3 (two substitutions ACROSS the two constants, value level): a value sequence whose checksum is one of the two
    generated constants, changed in up to two positions (`v1 ≠ v1'` asked, `v2 = v2'` allowed) with at most 88
    values after the first changed one, never has the OTHER constant as checksum: a bech32 codeword is not one or
    two substitutions away from a bech32m codeword (BIP350's design goal for the constant `0x2bc830a3`), within
    every 90-character string. Table: the 2759 residues x^b·d (0 ≤ b ≤ 88, 1 ≤ d ≤ 31) and the same residues xor
    `BECH32_1_CONST xor BECH32_M_CONST` are 5518 pairwise different numbers (`decide +kernel`). The window is
    not maximal: the first collision is x^192·19 + x^33·19. -/
theorem two_substitutions_switch_detected (pre mid post : List Nat) (v1 v1' v2 v2' m m' : Nat)
    (hmid : ∀ x ∈ mid, x < 2 ^ 30) (hpost : ∀ x ∈ post, x < 2 ^ 30)
    (h1 : v1 < 32) (h1' : v1' < 32) (h2 : v2 < 32) (h2' : v2' < 32) (hne : v1 ≠ v1')
    (hw : mid.length + 1 + post.length ≤ 88)
    (hm : (m = BECH32_1_CONST ∧ m' = BECH32_M_CONST) ∨ (m = BECH32_M_CONST ∧ m' = BECH32_1_CONST))
    (h : Bech32.polymod (pre ++ v1 :: (mid ++ v2 :: post)) = m) :
    Bech32.polymod (pre ++ v1' :: (mid ++ v2' :: post)) ≠ m' := by
  intro h'
  apply two_substitutions_switch pre mid post v1 v1' v2 v2' hmid hpost h1 h1' h2 h2' hne hw
  rw [h, h']
  rcases hm with ⟨rfl, rfl⟩ | ⟨rfl, rfl⟩
  · rfl
  · exact Nat.xor_comm _ _

/-- T3 at the string level, two characters, constant read off the witness version (`bech32.decode(s)` with `m`
    None, as `b32.witness_from_address` calls it): changing up to two characters after the separator of an accepted
    string — the VERSION character included, where the expected constant switches between bech32 and bech32m —
    gives a string the decoder refuses, when at most 88 characters follow the first changed one (every string of at
    most 90 characters). `y' = y` is allowed (then this is `substitution_refused_version_constant`). -/
theorem two_substitutions_refused_version_constant (pre a mid b : List Nat) (x x' y y' : Nat)
    (h49 : 49 ∉ a ++ x :: (mid ++ y :: b)) (hx' : x' ≠ 49) (hy' : y' ≠ 49)
    (hne : lowerC x ≠ lowerC x') (hw : mid.length + 1 + b.length ≤ 88) (r : List Nat × List Nat)
    (h1 : Bech32.decode (pre ++ 49 :: (a ++ x :: (mid ++ y :: b))) none = .ok r) :
    ∀ r', Bech32.decode (pre ++ 49 :: (a ++ x' :: (mid ++ y' :: b))) none ≠ .ok r' :=
  Bech32.two_substitutions_refused_none pre a mid b x x' y y' h49 hx' hy' hne hw r h1

-- non-vacuity: BIP173's P2WPKH example is accepted with the constant read off its version 0; with the version
-- character q→p (the constant becomes bech32m) and the last character 4→5 it is refused.
example : Bech32.decode ("bc1qw508d6qejxtdg4y5r3zarvary0c5xw7kv8f3t4".toList.map Char.toNat) none =
    .ok ([98, 99], Bech32.exData) := by decide +kernel
example : ∀ r', Bech32.decode ("bc1pw508d6qejxtdg4y5r3zarvary0c5xw7kv8f3t5".toList.map Char.toNat) none ≠ .ok r' :=
  two_substitutions_refused_version_constant [98, 99] []
    ("w508d6qejxtdg4y5r3zarvary0c5xw7kv8f3t".toList.map Char.toNat) [] 113 112 52 53
    (by decide +kernel) (by decide) (by decide) (by decide) (by decide +kernel) ([98, 99], Bech32.exData)
    (by decide +kernel)
-- the value-level hypotheses are satisfiable: "a12uel5l" (bech32, constant 1) with two values changed
example : Bech32.polymod (hrpExpand [97] ++ [11, 28, 25, 31, 20, 30]) ≠ BECH32_M_CONST :=
  two_substitutions_switch_detected (hrpExpand [97]) [28, 25, 31, 20] [] 10 11 31 30 _ _
    (by decide) (by decide) (by decide) (by decide) (by decide) (by decide) (by decide) (by decide)
    (Or.inl ⟨rfl, rfl⟩) (by decide)

/- NOT proved (`bch_four_errors_partial` would be its name): BIP173's full guarantee — any error pattern touching
   FOUR characters of a string of at most 90 characters is detected. One, two (window 1022) and three (window 88)
   substitutions and adjacent transpositions are theorems above; four needs the BCH bound over GF(1024) (not in
   Mathlib) or the disjointness of about 3.7·10⁶ pair sums x^b·d1 + x^c·d2 from as many x^e·d3 + d4, out of reach
   of `decide`. Also not proved: THREE substitutions with the constant read off a CHANGED version character
   (`m` None; one and two are theorems above) — and at window 88 that statement is FALSE of the BIPs' code:
   x^82·1 + x^20·17 + x^13·27 = BECH32_1_CONST xor BECH32_M_CONST, so e.g. an 85-character bech32 string (version 0)
   with its version character and two others changed is a valid bech32m string and `bech32.decode(s)` accepts it
   (also x^79, x^69, x^58; no such triple below exponent 79, which covers every segwit address — computed outside
   Lean, not a theorem). Nor are substitutions in the human-readable part or of the separator covered. -/

-- non-vacuity: a real checksum ("a12uel5l" of BIP173: hrp "a", no data), and what the theorems say about it
example : Bech32.polymod (hrpExpand [97] ++ [10, 28, 25, 31, 20, 31]) = 1 := by decide
example : Bech32.polymod (hrpExpand [97] ++ [10, 28, 25, 30, 20, 31]) ≠ 1 :=
  single_substitution_detected (hrpExpand [97] ++ [10, 28, 25]) [20, 31] 31 30 1
    (by decide) (by decide) (by decide) (by decide) (by decide)
example : Bech32.polymod [3, 0, 1, 40000] = Bech32Ref.polymod [3, 0, 1, 40000] :=
  polymod_table_eq_reference _ (by decide)

/-! ## 5/8-bit regrouping (`b32.power_of_2_base_conversion`) -/
/-- T4 (regroup round trip): for a byte string of ANY length, 8→5 regrouping with padding succeeds, yields
    5-bit digits, and 5→8 regrouping of those digits WITHOUT padding succeeds and returns the bytes: the
    padding written is always shorter than 5 bits and zero, so the BIP173 padding rules never refuse it. -/
theorem regroup_8_5_8_roundtrip (bytes : List Nat) (hb : ∀ v ∈ bytes, v < 256) :
    ∃ five, BitRegroup.convert bytes 8 5 true = .ok five ∧ (∀ d ∈ five, d < 32) ∧
      BitRegroup.convert five 5 8 false = .ok bytes :=
  BitRegroup.convert_8_5_8 bytes hb

/-- T4 (canonicity, all lengths): 5→8 regrouping WITHOUT padding accepts a digit string exactly when it is
    the padded 8→5 regrouping of the bytes it returns — i.e. exactly the strings whose padding is fewer
    than 5 bits, all zero; there is no second spelling of a byte string. -/
theorem regroup_5_8_accepts_iff_canonical (five bytes : List Nat) (hb : ∀ v ∈ bytes, v < 256) :
    BitRegroup.convert five 5 8 false = .ok bytes ↔ BitRegroup.convert bytes 8 5 true = .ok five := by
  constructor
  · intro h; exact (BitRegroup.convert_5_8_canonical five bytes h).1
  · intro h
    obtain ⟨five', h1, _, h2⟩ := BitRegroup.convert_8_5_8 bytes hb
    rw [h1] at h; cases h; exact h2

/-- T4: what 5→8 accepts consists of 5-bit digits and yields bytes. -/
theorem regroup_5_8_ranges (five bytes : List Nat) (h : BitRegroup.convert five 5 8 false = .ok bytes) :
    (∀ v ∈ bytes, v < 256) ∧ (∀ d ∈ five, d < 32) :=
  (BitRegroup.convert_5_8_canonical five bytes h).2

example : BitRegroup.convert [0xff, 0x01] 8 5 true = .ok [31, 28, 0, 16] := by decide
example : BitRegroup.convert [31, 28, 0, 16] 5 8 false = .ok [0xff, 0x01] := by decide
example : BitRegroup.convert [31, 28, 0, 17] 5 8 false = .error .nonZeroPadding := by decide
example : BitRegroup.convert [31, 28, 0, 16, 0, 0] 5 8 false = .error .excessPadding := by decide

/-! ## Base58 / Base58Check (`base58.py`; alphabet, `_CHUNK`, `MAX_LENGTH` generated; hash a parameter) -/
/-- T1 (chunked = positional): for EVERY chunk size ≥ 1 (in particular the generated `_CHUNK`), the digits
    `_b58encode_from_int` writes are the plain positional base-58 digits of `i`, and `_b58decode_to_int` is
    Horner's rule over all the digits — the ten-digit chunking changes nothing. -/
theorem base58_chunked_is_positional (chunk : Nat) (hc : 1 ≤ chunk) :
    (∀ i, 0 < i → Base58.digitsOfIntC chunk i = (Nat.digits 58 i).reverse) ∧
    (∀ ds acc, Base58.decodeToInt chunk (ds.length + 1) ds acc = ds.foldl (fun v d => v * 58 + d) acc) :=
  ⟨Base58.digitsOfIntC_eq chunk hc, fun ds acc => Base58.decodeToInt_eq chunk hc _ ds acc (by omega)⟩

/-- T1 (raw round trip): `_b58decode(_b58encode(v)) = v` for every byte string (leading zero bytes
    included). -/
theorem base58_decode_encode (v : Bytes) : Base58.b58decode (Base58.b58encode v) = .ok v :=
  Base58.b58decode_b58encode v

/-- T1 (canonical): a string `_b58decode` accepts is exactly the encoding of what it returns: leading `1`s
    ↔ leading zero bytes, minimal big-endian body, no alternative spelling. -/
theorem base58_encode_decode (s : List Nat) (v : Bytes) (h : Base58.b58decode s = .ok v) :
    Base58.b58encode v = s := Base58.b58encode_b58decode s v h

/-- T1 (Base58Check round trip): for any hash `H` giving at least 4 bytes (hash256 in btclib), every payload
    whose encoding fits the generated `MAX_LENGTH` decodes back to itself: the checksum is `H(v)[:4]`. -/
theorem base58check_decode_encode (H : Bytes → Bytes) (hH : ∀ x, 4 ≤ (H x).length) (v : Bytes)
    (hcap : (Base58.encode H v).length ≤ Gen.Base58.MAX_LENGTH) :
    Base58.decode H (Base58.encode H v) none = .ok v := Base58.decode_encode H hH v hcap

/-- T1 (Base58Check canonical): whatever `decode` accepts (with or without a required size) is the
    Base58Check encoding of the payload it returns, is within the length cap, and has the required size. -/
theorem base58check_encode_decode (H : Bytes → Bytes) (s : List Nat) (v : Bytes) (n : Option Nat)
    (h : Base58.decode H s n = .ok v) :
    Base58.encode H v = s ∧ s.length ≤ Gen.Base58.MAX_LENGTH ∧ (∀ k, n = some k → v.length = k) :=
  Base58.encode_decode H s v n h

example : Base58.b58encode [0, 0, 1, 2] = "115T".toList.map Char.toNat := by decide
example : Base58.b58decode ("115T".toList.map Char.toNat) = .ok [0, 0, 1, 2] := by decide

/-! ## Networks and witness programs (tables generated from `network.py` / `b32.py`) -/
open Btc.Address Gen.Net in
/-- T5 (network separation): no address prefix, WIF prefix, bech32 hrp or extended-key version of a
    main network equals one of a test network — a mainnet string is never read as a test one. -/
theorem mainnet_test_prefixes_disjoint : ∀ a ∈ NETWORKS, ∀ b ∈ NETWORKS, a.isMain = true → b.isMain = false →
    a.wif ≠ b.wif ∧ a.p2pkh ≠ b.p2pkh ∧ a.p2sh ≠ b.p2sh ∧ a.p2pkh ≠ b.p2sh ∧ a.p2sh ≠ b.p2pkh ∧
    a.hrp ≠ b.hrp ∧ (∀ v ∈ versionsOf a, v ∉ versionsOf b) := main_test_disjoint

open Btc.Address Gen.Net in
/-- T5 (lookup): `network_from_key_value` (first network carrying the value) answers a network of the
    same type sharing the prefix it was written with, for hrp / p2pkh / p2sh / wif of every network;
    and a p2sh prefix is never read as p2pkh (looked up first by `h160_from_address`). -/
theorem network_lookup_preserves_type : ∀ n ∈ NETWORKS,
    (∀ m, networkFrom (·.hrp) n.hrp = some m → m.isMain = n.isMain ∧ m.hrp = n.hrp) ∧
    (∀ m, networkFrom (·.p2pkh) n.p2pkh = some m → m.isMain = n.isMain ∧ m.p2pkh = n.p2pkh) ∧
    (∀ m, networkFrom (·.p2sh) n.p2sh = some m → m.isMain = n.isMain ∧ m.p2sh = n.p2sh) ∧
    (∀ m, networkFrom (·.wif) n.wif = some m → m.isMain = n.isMain ∧ m.wif = n.wif) ∧
    networkFrom (·.p2pkh) n.p2sh = none := lookup_preserves_type

open Btc.Address Gen.Net in
/-- `hrp ++ "1"` of one network is never a proper prefix of another's (`bc1` vs `bcrt1`), so
    `is_segwit_prefixed` cannot attribute an address to the wrong family. -/
theorem hrp_separator_prefix_free : ∀ a ∈ NETWORKS, ∀ b ∈ NETWORKS,
    (a.hrp ++ [49]).isPrefixOf (b.hrp ++ [49]) = true → a.hrp = b.hrp := hrp_prefix_free

/-- T5 (program sizes): the generated table of what `bytes_from_witness_program` admits is exactly BIP141:
    versions 0..16, 2..40 bytes, 20 or 32 bytes for version 0 — for all (ver, n) as a statement about the
    TABLE; the table itself is obtained by evaluating the function on versions -2..40 and sizes 0..80
    (tools/specs/segwit.py), so the tie to the code is within that probed window (and the `segwit.enc` stream). -/
theorem witness_program_sizes (ver n : Nat) :
    Address.programOk ver n = true ↔ ver ≤ 16 ∧ 2 ≤ n ∧ n ≤ 40 ∧ (ver = 0 → n = 20 ∨ n = 32) :=
  Address.programOk_iff ver n

open Btc.Address Gen.Net in
/-- T5 (segwit address, decode ∘ encode): for EVERY network of the generated table, every witness version
    0..16 and every admissible program (sizes per the generated table = BIP141), `address_from_witness`
    writes an address of at most 90 characters, all lower case, that `witness_from_address` reads back to
    the same version and program, on the first network `m` sharing the hrp (same main/test type by
    `network_lookup_preserves_type`). -/
theorem segwit_address_roundtrip (net : Network) (hn : net ∈ NETWORKS) (ver : Nat) (prog : Bytes)
    (hok : programOk ver prog.length = true) :
    ∃ a m, addressFromWitness (ver : Int) prog net.hrp = .ok a ∧
      networkFrom (·.hrp) net.hrp = some m ∧ witnessFromAddress a = .ok (ver, prog, m.name) ∧
      a.length ≤ Gen.Segwit.MAX_ADDR_LEN ∧ Bech32.lower a = a :=
  witness_roundtrip net hn ver prog hok

open Btc.Address Gen.Net in
/-- T5 (p2pkh / p2sh address, decode ∘ encode): for any hash `H` of at least 4 bytes (hash256), every
    network of the table and every 20-byte hash, `address_from_h160` writes an address that
    `h160_from_address` reads back as the same script type and hash, on the first network `m` carrying the
    same version byte (p2pkh is looked up before p2sh and never shadows it). -/
theorem base58_address_roundtrip (H : Bytes → Bytes) (hH : ∀ x, 4 ≤ (H x).length) (net : Network)
    (hn : net ∈ NETWORKS) (kind : Kind) (hk : kind = .p2pkh ∨ kind = .p2sh) (h160 : Bytes) (hl : h160.length = 20) :
    ∃ a m, addressFromH160 H kind h160 net = .ok a ∧
      (match kind with | .p2sh => networkFrom (·.p2sh) net.p2sh | _ => networkFrom (·.p2pkh) net.p2pkh) = some m ∧
      h160FromAddress H a = .ok (kind, h160, m.name) :=
  h160_roundtrip H hH net hn kind hk h160 hl

example : Address.programOk 0 20 = true ∧ Address.programOk 0 21 = false ∧ Address.programOk 16 40 = true := by decide

open Btc.Address Gen.Net in
/-- T5 (reader dispatch): a p2pkh / p2sh address of any network of the table never passes `is_segwit_prefixed`
    (its first character — `1`, `3`, `m`/`n`, `2` for the generated version bytes: leading Base58 digit of
    version ‖ 24 bytes — starts no network's hrp, in either case), so `from_address` reads it with the Base58 reader. -/
theorem base58_address_not_segwit_prefixed (H : Bytes → Bytes) (hH : ∀ x, 4 ≤ (H x).length) (n : Network)
    (hn : n ∈ NETWORKS) (pre : List Nat) (hp : pre = n.p2pkh ∨ pre = n.p2sh) (h160 : Bytes) (hl : h160.length = 20) :
    isSegwitPrefixed (Base58.encode H (ofNats pre ++ h160)) = false :=
  b58_not_prefixed H hH n hn pre hp h160 hl

open Btc.Address Gen.Net in
/-- T5 (script → address → script): for every network name the lookup resolves and EVERY script that
    `type_and_payload` gives an address-bearing type — p2pkh, p2sh, p2wpkh, p2wsh, p2tr and every future witness
    version 1..16 with every program of 2..40 bytes — `script_pub_key.address` writes an address that
    `ScriptPubKey.from_address` reads back to exactly the same script bytes, on the first network `m` sharing the
    prefix, which has the same main/test type. (Model functions; tied to btclib by the `spk` streams.) -/
theorem script_address_roundtrip (H : Bytes → Bytes) (hH : ∀ x, 4 ≤ (H x).length) (nm : String) (net : Network)
    (hnm : networkNamed nm = some net) (s : Bytes) (kind : Kind) (payload : Bytes)
    (ht : typeAndPayload s = (kind, payload)) (hk : kind ≠ .other) :
    ∃ a m, address H s nm = .ok a ∧ fromAddress H a = .ok (s, m.name) ∧ m ∈ NETWORKS ∧ m.isMain = net.isMain :=
  Address.script_address_roundtrip H hH nm net hnm s kind payload ht hk

open Btc.Address Gen.Net in
/-- T5 (address → script → address): whatever `ScriptPubKey.from_address` accepts, it answers a script of an
    address-bearing type and the name of a network of the table, and `address` of that script on that network is
    the accepted string itself, up to surrounding blanks and — for segwit addresses — the case of the whole string:
    no second spelling of an address. -/
theorem address_script_roundtrip (H : Bytes → Bytes) (a : List Nat) (s : Bytes) (nm : String)
    (h : fromAddress H a = .ok (s, nm)) :
    ∃ m, m ∈ NETWORKS ∧ m.name = nm ∧ (∃ kind payload, typeAndPayload s = (kind, payload) ∧ kind ≠ .other) ∧
      ∀ nm', networkNamed nm' = some m →
        address H s nm' = .ok (if isSegwitPrefixed a then Bech32.lower (strip a) else strip a) :=
  Address.address_script_roundtrip H a s nm h

open Btc.Address Gen.Net in
/-- T5 (segwit / Base58 address, encode ∘ decode): what `witness_from_address` / `h160_from_address` read is
    re-written by `address_from_witness` / `address_from_h160`, on the network answered, to the string read
    (blanks removed; lower-cased for segwit); the version and program read are admissible, the hash has 20 bytes. -/
theorem address_encode_decode (H : Bytes → Bytes) (a : List Nat) (nm : String) :
    (∀ ver prog, witnessFromAddress a = .ok (ver, prog, nm) →
      ∃ m, m ∈ NETWORKS ∧ m.name = nm ∧ programOk ver prog.length = true ∧
        addressFromWitness (ver : Int) prog m.hrp = .ok (Bech32.lower (strip a))) ∧
    (∀ kind h160, h160FromAddress H a = .ok (kind, h160, nm) →
      ∃ m, m ∈ NETWORKS ∧ m.name = nm ∧ (kind = .p2pkh ∨ kind = .p2sh) ∧ h160.length = 20 ∧
        addressFromH160 H kind h160 m = .ok (strip a)) :=
  ⟨fun ver prog h => witness_encode_decode a ver prog nm h, fun kind h160 h => h160_encode_decode H a kind h160 nm h⟩

-- non-vacuity: the scripts the theorems speak of, and a witness-version-16 two-byte program
example : Address.typeAndPayload ([0x00, 0x14] ++ List.replicate 20 7) = (.p2wpkh, List.replicate 20 7) := by decide
example : Address.typeAndPayload [0x60, 0x02, 1, 2] = (.witnessUnknown, [1, 2]) := by decide
example : Address.typeAndPayload ([0x76, 0xa9, 0x14] ++ List.replicate 20 7 ++ [0x88, 0xac]) =
    (.p2pkh, List.replicate 20 7) := by decide
example : Address.witnessScript 16 [1, 2] = [0x60, 0x02, 1, 2] := by decide

/-! ## WIF and extended-key text (Base58Check envelope around fixed payload layouts) -/
open Btc.KeyText Btc.Address Gen.Net in
/-- T6 (WIF layout, both directions): prefix ‖ key ‖ optional 0x01 splits into (key, compressed flag), and a
    payload the splitter accepts is exactly that concatenation with a key of the curve's size. -/
theorem wif_payload_lawful (nSize : Nat) :
    (∀ pre key c, pre.length = 1 → key.length = nSize → wifSplit nSize (wifPayload pre key c) = .ok (key, c)) ∧
    (∀ p key c, wifSplit nSize p = .ok (key, c) →
      p = wifPayload (p.take 1) key c ∧ key.length = nSize ∧ (p.take 1).length = 1) :=
  ⟨fun pre key c hp hk => wifSplit_payload nSize pre key c hp hk, fun p key c h => wifSplit_canonical nSize p key c h⟩

open Btc.KeyText Btc.Address Gen.Net in
/-- T6 (WIF text round trip): every network of the table, every key 0 < q < n fitting the key size, both
    compression flags: the WIF decodes to the same key and flag on the first network sharing the prefix. -/
theorem wif_text_roundtrip (H : Bytes → Bytes) (hH : ∀ x, 4 ≤ (H x).length) (net : Network) (hn : net ∈ NETWORKS)
    (nSize n q : Nat) (c : Bool) (hs : nSize ≤ 50) (hq : 0 < q ∧ q < n) (hfit : q < 256 ^ nSize) :
    ∃ m, networkFrom (·.wif) net.wif = some m ∧
      wifDecode H nSize n (wifEncode H net nSize q c) = .ok (q, m.name, c) :=
  wif_roundtrip H hH net hn nSize n q c hs hq hfit

/-- T6 (xkey text round trip): every well-formed 78-byte extended-key record (C05's lawful `xkey` codec:
    version 4, depth 1, fingerprint 4, index 4, chain code 32, key 33) is written within the 112-character
    cap (58^112 > 256^82, checked for every number of leading zeros) and reads back field by field. -/
theorem xkey_text_roundtrip (H : Bytes → Bytes) (hH : ∀ x, (H x).length = 32) (k : Wire.XKey)
    (hv : Wire.xkey.valid k) :
    KeyText.xkeyDecode H (KeyText.xkeyEncode H k) = .ok k ∧
      (KeyText.xkeyEncode H k).length ≤ Gen.Base58.MAX_LENGTH :=
  KeyText.xkey_roundtrip H hH k hv

open Btc.KeyText Btc.Address Gen.Net in
/-- T6 (WIF acceptance ⇔): `_prv_keyinfo_from_wif` answers `(q, network, compressed)` exactly on the strings
    that, surrounding blanks removed, ARE the WIF of `q` with that flag on a network `m` that is the first of the
    table carrying its WIF prefix (its name is the one answered), with `0 < q < n`, `q` fitting the key size and the
    text within the Base58Check length cap: no other version byte, flag byte, padding or size is read. -/
theorem wif_accepts_iff (H : Bytes → Bytes) (hH : ∀ x, 4 ≤ (H x).length) (nSize n : Nat) (s : List Nat)
    (q : Nat) (nm : String) (c : Bool) :
    wifDecode H nSize n s = .ok (q, nm, c) ↔
      ∃ m, networkFrom (·.wif) m.wif = some m ∧ m.name = nm ∧ strip s = wifEncode H m nSize q c ∧
        0 < q ∧ q < n ∧ q < 256 ^ nSize ∧ (strip s).length ≤ Gen.Base58.MAX_LENGTH :=
  KeyText.wif_accepts_iff H hH nSize n s q nm c

open Btc.KeyText Btc.Address in
/-- T6 (extended-key text acceptance ⇔): `BIP32KeyData.b58decode` without / with validity checks answers the
    record `k` exactly on the strings that, blanks removed, are the Base58Check text of the 78-byte serialization
    of the well-formed `k` (C05's lawful codec) / and `k` passes `assert_valid`'s rules. -/
theorem xkey_text_accepts_iff (H : Bytes → Bytes) (hH : ∀ x, (H x).length = 32) (n : Nat) (isX : Nat → Bool)
    (s : List Nat) (k : Wire.XKey) :
    (xkeyDecode H s = .ok k ↔ Wire.xkey.valid k ∧ strip s = xkeyEncode H k) ∧
    (xkeyDecodeChecked H n isX s = .ok k ↔
      Wire.xkey.valid k ∧ strip s = xkeyEncode H k ∧ xkeySemValid n isX k = true) :=
  ⟨xkey_accepts_iff H hH s k, xkey_checked_accepts_iff H hH n isX s k⟩

open Btc.KeyText Btc.Address Gen.Net in
/-- T6 (what `assert_valid` asks, over the generated version tables): depth 0 forces a zero parent fingerprint and
    index 0; a version of the private set wants key prefix 0x00 and `0 < q < n`, a version of the public set wants
    prefix 0x02 / 0x03 and an x-coordinate (`isX`, a parameter), any other version is refused; the two sets are
    disjoint, are the private / public halves of the SLIP132 table, and hold 4-byte versions only. -/
theorem xkey_validity_rules (n : Nat) (isX : Nat → Bool) (k : Wire.XKey) :
    (xkeySemValid n isX k = true ↔
      (k.depth = 0 → k.parentFp = [0, 0, 0, 0] ∧ k.index = 0) ∧
      ((toNats k.version ∈ XPRV_ALL ∧ k.key.head? = some 0 ∧ 0 < ofBE (k.key.drop 1) ∧ ofBE (k.key.drop 1) < n) ∨
       (toNats k.version ∈ XPUB_ALL ∧ (k.key.head? = some 2 ∨ k.key.head? = some 3) ∧
         isX (ofBE (k.key.drop 1)) = true))) ∧
    (∀ v ∈ XPRV_ALL, v ∉ XPUB_ALL) ∧
    (∀ r ∈ SLIP132, (r.2.2.1 = true → r.1 ∈ XPRV_ALL) ∧ (r.2.2.1 = false → r.1 ∈ XPUB_ALL)) ∧
    (∀ v ∈ XPRV_ALL ++ XPUB_ALL, v.length = 4) :=
  ⟨xkeySemValid_iff n isX k, version_sets.1, version_sets.2.1, version_sets.2.2⟩

-- non-vacuity: a root xprv record with key 0x00 ‖ 1 passes the rules for n = 7; with a non-zero index it does not
example : KeyText.xkeySemValid 7 (fun _ => true)
    ⟨[4, 136, 173, 228], 0, [0, 0, 0, 0], 0, List.replicate 32 0, 0 :: (List.replicate 31 0 ++ [1])⟩ = true := by
  decide +kernel
example : KeyText.xkeySemValid 7 (fun _ => true)
    ⟨[4, 136, 173, 228], 0, [0, 0, 0, 0], 1, List.replicate 32 0, 0 :: (List.replicate 31 0 ++ [1])⟩ = false := by
  decide +kernel

/-! ## BIP21 payment URIs (`bip21.py`): query layer -/
/-- BIP21 "a repeated key is an error, not last-one-wins", on DECODED names: whenever two non-empty elements of a
    query have names that percent-decode to the same text — in any two spellings, `amount` and `%61mount` — the
    loop of `Bip21.parse` refuses, whatever stands before, between and after them and whatever was seen before. -/
theorem bip21_repeated_parameter_refused (A B C : List (List Nat)) (e1 e2 k : List Nat) (seen : List (List Nat))
    (h1 : e1 ≠ []) (h2 : e2 ≠ []) (d1 : Bip21.pctDecode (Bip21.partition 61 e1).1 = .ok k)
    (d2 : Bip21.pctDecode (Bip21.partition 61 e2).1 = .ok k) :
    ∀ ps, Bip21.parseLoop (A ++ e1 :: (B ++ e2 :: C)) seen ≠ .ok ps :=
  Bip21.repeated_name_refused A B C e1 e2 k seen h1 h2 d1 d2

/-- PARTIAL. Full statement (NOT proved): `Bip21.parse(Bip21(...).serialize())` gives back address, amount, label,
    message and others for every valid request, and `serialize(parse(uri)) = uri` for every URI `serialize` writes.
    Proved: the escaping layer — what `quote(text, safe=_SAFE)` writes for an ASCII text decodes back to the text
    with `_decode`, and contains none of the delimiters `&`, `=`, `#`, `?` the parser splits at. Splitting/joining,
    the amount grammar and non-ASCII text (UTF-8) are tied by the oracles `bip21.roundtrip` / `bip21.repeat` and the
    stream `bip21` only. -/
theorem bip21_roundtrip_partial (s : List Nat) (h : ∀ c ∈ s, c < 128) :
    Bip21.pctDecode (Bip21.pctEncode s) = .ok s ∧
    ∀ x ∈ Bip21.pctEncode s, x ≠ 38 ∧ x ≠ 61 ∧ x ≠ 35 ∧ x ≠ 63 :=
  ⟨Bip21.pctDecode_pctEncode s h, Bip21.pctEncode_no_delims s h⟩

-- non-vacuity: "amount=1&%61mount=2" (two spellings of one name) is refused;
-- "label=a%20b&x=1#frag" is read as [("label", "a b"), ("x", "1")]; "a b&" is written "a%20b%26"
example : Bip21.parseQuery [97, 109, 111, 117, 110, 116, 61, 49, 38, 37, 54, 49, 109, 111, 117, 110, 116, 61, 50] =
    .error .repeated := by decide +kernel
example : Bip21.parseQuery [108, 97, 98, 101, 108, 61, 97, 37, 50, 48, 98, 38, 120, 61, 49, 35, 102, 114, 97, 103] =
    .ok [([108, 97, 98, 101, 108], [97, 32, 98]), ([120], [49])] := by decide +kernel
example : Bip21.pctEncode [97, 32, 98, 38] = [97, 37, 50, 48, 98, 37, 50, 54] := by decide +kernel

/-! ## SLIP132 version ↔ script type (tables generated from `network.py` and `slip132.py`) -/
open Btc.Slip132 Btc.Address Gen.Net in
/-- T6 (SLIP132). The model mirrors slip132.py: `builderVersion` is `version = network.A if xkey.is_private else
    network.B` on `NETWORKS[network_from_xkeyversion(xkey.version)]`, with A and B REGENERATED from the source of
    the THREE builders slip132.py has (`SLIP132_BUILDERS`), and `addressDispatch` is `address_from_xpub`'s loop over
    the regenerated (field, function) list. Against the table `SLIP132` read off the Network field NAMES:
    (1) a version has one meaning (script type, private/public, main/test);
    (2) for a parent of ANY version of ANY network and either privacy of the KEY (the builders read `key[0]`, not
        the version), each builder hands `derive` the version whose meaning is (the type the builder is named for,
        the key's privacy, the parent's network type);
    (3) `address_from_xpub` of the version a builder gave a PUBLIC key calls the address function of the builder's
        type with a network of the parent's type;
    (4) on every version of the table the dispatch agrees with the table: public p2pkh / p2wpkh / p2wpkh-p2sh versions
        go to the function of their type on a network of their type, private versions and the two p2wsh types are
        refused ("unknown xpub version");
    (5) the three builders are for three different types, the dispatch lists three different functions;
    (6) every version of every network is in the table with the network's type.
    Tied to the real functions by the exhaustive stream `slip132` and the oracle `slip132.address_type`. -/
theorem slip132_version_commits_to_type :
    (∀ a ∈ SLIP132, ∀ b ∈ SLIP132, a.1 = b.1 → a = b) ∧
    (∀ n ∈ NETWORKS, ∀ pv ∈ versionsOf n, ∀ b ∈ SLIP132_BUILDERS, ∀ prv : Bool,
      ∃ k v, builderKind b.1 = some k ∧ builderVersion b.1 pv prv = some v ∧ info v = some (k, prv, n.isMain)) ∧
    (∀ n ∈ NETWORKS, ∀ pv ∈ versionsOf n, ∀ b ∈ SLIP132_BUILDERS,
      ∃ k v fn m, builderKind b.1 = some k ∧ builderVersion b.1 pv false = some v ∧
        addressDispatch v = some (fn, m) ∧ functionKind fn = some k ∧ m.isMain = n.isMain) ∧
    (∀ r ∈ SLIP132,
      (r.2.2.1 = false ∧ r.2.1 < 3 → ∃ fn m, addressDispatch r.1 = some (fn, m) ∧ functionKind fn = some r.2.1 ∧
        m.isMain = r.2.2.2) ∧
      (r.2.2.1 = true ∨ 3 ≤ r.2.1 → addressDispatch r.1 = none)) ∧
    (SLIP132_BUILDERS.map (fun r => builderKind r.1) = [some 0, some 1, some 2] ∧
      SLIP132_ADDRESS.map (fun r => functionKind r.2) = [some 0, some 1, some 2]) ∧
    (∀ n ∈ NETWORKS, ∀ v ∈ n.xprv ++ n.xpub, ∃ i, info v = some i ∧ i.2.2 = n.isMain) :=
  ⟨version_unique, builder_spec, address_of_built, dispatch_table, builders_distinct, table_covers_networks⟩

-- a zpub parent (mainnet p2wpkh public) asked for a p2wpkh-p2sh child gets the ypub version, written by b58.p2wpkh_p2sh
example : Slip132.builderVersion "p2wpkh_p2sh_xkey" [4, 178, 71, 70] false = some [4, 157, 124, 178] ∧
    (Slip132.addressDispatch [4, 157, 124, 178]).map (·.1) = some "b58.p2wpkh_p2sh" := by decide +kernel

end Props.C06
