/-!
# C06 — property theorems only (see DESIGN.md §3 C06).
-/
namespace Props.C06

end Props.C06
