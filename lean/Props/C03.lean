/-!
# C03 — property theorems only (see DESIGN.md §3 C03).
-/
namespace Props.C03

end Props.C03
