import Proofs.C03.Codec
import Proofs.C03.BatchThm
import Proofs.C03.Toy
import Proofs.E2E.C03
/-!
# C03 — BIP340 Schnorr: sign, verify and batch-verify agree with the BIP

Property theorems only.  The scheme (`Model/C03/Schnorr.lean`, `Batch.lean`) is a transcription of
btclib's `ssa.py` / `bip340_nonce.py` / `commit_nonce.py` over an abstract group interface
`o : GroupOps α`; every theorem holds for EVERY lawful group (`L : Lawful o G`: prime order `n`,
x-coordinate identifying `±P`, y-parity flipping under negation, `lift_x`), every tagged-hash function
`prm.TH`, every byte size, every message of any length, every key, every aux.  The abstract hypothesis `L` is
discharged in the end-to-end section below by C01's `lawful_ec : Lawful (opsSub K) _` (NOT `Lawful (EC.ops c)`,
which is uninhabited): T1 is then about the executed `Btc.EC.ops C` outright, T2–T4 about `Btc.EC.ops C` under the
one named assumption of cofactor one (`hcof`; for secp256k1 `Btc.E2E.SecpCofactorOne`).
The tags and `int_from_bits` are the translated source (`Gen.Schnorr`).  Retry loops carry explicit
fuel: "sign returns `ok`" is a hypothesis, never a conclusion.
-/
namespace Props.C03
open Btc Btc.Schnorr

variable {α G : Type} [AddCommGroup G] {o : GroupOps α}

/-- T1 `sign_verifies`: whatever `sign_` returns — for any key `q`, message, aux, tagged hash, fuel —
    verifies under the signer's x-only public key `x(q•G)`. -/
theorem sign_verifies (L : Lawful o G) (prm : Params) (fuel : Nat) (msg : Bytes) (q : Int) (aux : Bytes)
    (sg : Sig) (h : sign o prm fuel msg q aux = .ok sg) :
    verify o prm msg (o.x (o.mul q o.gen)) sg = true :=
  (verify_eq_true_iff prm _ _ _).2 (Btc.Schnorr.sign_verifies L prm L.ycongr fuel msg q aux sg h)

/-- T1': the self-check inside `sign_(verify=True)` never fires: both spellings answer alike on every
    input (same signature, same refusal). -/
theorem signChecked_eq_sign (L : Lawful o G) (prm : Params) (fuel : Nat) (msg : Bytes) (q : Int) (aux : Bytes) :
    signChecked o prm fuel msg q aux = sign o prm fuel msg q aux :=
  Btc.Schnorr.signChecked_eq_sign L prm L.ycongr fuel msg q aux

/-- T2 `verify_iff`: on every integer triple `(x_Q, r, s)` and every message, `verify_` answers true
    exactly when BIP340's Verify does: `r` a field element, `s` below the order, `x_Q` lifts to a point
    `Q`, and `K = s•G − e•Q` is not infinite, has even y and `x(K) = r` — plus btclib's refusal of a
    zero challenge (`e ≠ 0`; never the case on secp256k1 short of a hash preimage of 0 mod n). -/
theorem verify_iff (L : Lawful o G) (prm : Params) (msg : Bytes) (xQ : Int) (sg : Sig) :
    verify o prm msg xQ sg = true ↔
      0 ≤ sg.r ∧ sg.r < o.p ∧ 0 ≤ sg.s ∧ sg.s < o.n ∧
      ∃ Q, o.liftX xQ = some Q ∧
        challengeInt o prm msg xQ sg.r ≠ 0 ∧
        o.isZero (o.sub (o.mul sg.s o.gen) (o.mul (challengeInt o prm msg xQ sg.r) Q)) = false ∧
        o.hasEvenY (o.sub (o.mul sg.s o.gen) (o.mul (challengeInt o prm msg xQ sg.r) Q)) = true ∧
        o.x (o.sub (o.mul sg.s o.gen) (o.mul (challengeInt o prm msg xQ sg.r) Q)) = sg.r :=
  Btc.Schnorr.verify_iff L prm L.ycongr msg xQ sg

/-- T2 corollary: `r ≥ p`, `s ≥ n`, negative values and an `x_Q` that is no x-coordinate are refused. -/
theorem verify_refuses (L : Lawful o G) (prm : Params) (msg : Bytes) (xQ : Int) (sg : Sig)
    (h : sg.r < 0 ∨ o.p ≤ sg.r ∨ sg.s < 0 ∨ o.n ≤ sg.s ∨ o.liftX xQ = none) :
    verify o prm msg xQ sg = false := by
  cases hv : verify o prm msg xQ sg with
  | false => rfl
  | true =>
    obtain ⟨h1, h2, h3, h4, Q, hQ, _⟩ := (verify_iff L prm msg xQ sg).1 hv
    rcases h with h | h | h | h | h
    · omega
    · omega
    · omega
    · omega
    · rw [h] at hQ; cases hQ

/-- T6 `gen_keys`: the returned private key is in `1..n-1`, its point has even y and the returned
    x-coordinate, and that x-only key lifts back to exactly this point. -/
theorem genKeys_spec (L : Lawful o G) (q q' x : Int) (h : genKeys o q = .ok (q', x)) :
    0 < q' ∧ q' < o.n ∧ o.hasEvenY (o.mul q' o.gen) = true ∧ o.x (o.mul q' o.gen) = x ∧
    ∃ Q, o.liftX x = some Q ∧ L.abs Q = q' • L.abs o.gen :=
  Btc.Schnorr.genKeys_spec L L.ycongr q q' x h

/-- (c) sign-to-contract: a signature made with a commitment verifies as an ordinary BIP340 signature
    under the signer's key, the commitment opens with the returned receipt
    (`x(R + H(R‖commit)•G) = r`), and the receipt is the even-y point. -/
theorem signCommit_verifies (L : Lawful o G) (prm : Params) (fuel : Nat) (msg : Bytes) (q : Int)
    (aux commitHash : Bytes) (sg : Sig) (R : α)
    (h : signCommit o prm fuel msg q aux commitHash = .ok (sg, R)) :
    verifyCommit o prm fuel msg (o.x (o.mul q o.gen)) sg commitHash R = true ∧ o.hasEvenY R = true := by
  obtain ⟨h1, h2, h3⟩ := Btc.Schnorr.signCommit_verifies L prm L.ycongr fuel msg q aux commitHash sg R h
  refine ⟨?_, h3⟩
  have hv : sigValid o sg = .ok () := by
    unfold assertAsValid at h1
    cases hs : sigValid o sg with
    | ok u => rfl
    | error e => rw [hs] at h1; cases h1
  unfold verifyCommit
  rw [hv, h2]
  exact (verify_eq_true_iff prm _ _ _).2 h1

/-- the optional arguments of the public API, hashed spellings included (`sign(…, commit=…)`,
    `verify(…, commit=…, receipt=…)`, any reduction `H`): whatever is signed — without a commitment
    (`none`), or with ANY commitment, the empty byte string `some []` like every other — verifies when
    handed back with exactly what signing returned; a receipt comes back iff a commitment went in. -/
theorem signHashed_verifies (L : Lawful o G) (prm : Params) (H : Bytes → Bytes) (fuel : Nat) (msg : Bytes)
    (q : Int) (aux : Bytes) (commit : Option Bytes) (sg : Sig) (receipt : Option α)
    (h : signHashed o prm H fuel msg q aux commit = .ok (sg, receipt)) :
    verifyHashed o prm H fuel msg (o.x (o.mul q o.gen)) sg commit receipt = .ok true ∧
    receipt.isSome = commit.isSome := by
  unfold signHashed signOpt at h
  unfold verifyHashed verifyOpt
  cases commit with
  | none =>
    simp only [Option.map_none] at h ⊢
    split at h
    · cases h
    · next sg' hs =>
      simp only [Except.ok.injEq, Prod.mk.injEq] at h
      obtain ⟨rfl, rfl⟩ := h
      have hv := sign_verifies L prm fuel (H msg) q aux _ hs
      have hsv : sigValid o sg' = .ok () := ((verify_unfold prm _ _ _).1 hv).1
      rw [hsv]; dsimp only; rw [hv]; exact ⟨rfl, rfl⟩
  | some c =>
    simp only [Option.map_some] at h ⊢
    split at h
    · cases h
    · next sg' R hs =>
      simp only [Except.ok.injEq, Prod.mk.injEq] at h
      obtain ⟨rfl, rfl⟩ := h
      have hv := (signCommit_verifies L prm fuel (H msg) q aux (H c) _ _ hs).1
      have hsv : sigValid o sg' = .ok () := by
        unfold verifyCommit at hv
        cases hu : sigValid o sg' with
        | ok u => rfl
        | error e => rw [hu] at hv; cases hv
      rw [hsv]; dsimp only; rw [hv]; exact ⟨rfl, rfl⟩

/-- a commitment without its receipt, or a receipt without its commitment, is refused as the caller's
    TypeError for every well-formed signature — in particular the EMPTY commitment is not "no
    commitment": `verify(…, commit=b"", receipt=None)` does not answer True. -/
theorem verifyOpt_mismatch (prm : Params) (fuel : Nat) (msg : Bytes) (xQ : Int) (sg : Sig)
    (c : Bytes) (R : α) (hv : sigValid o sg = .ok ()) :
    verifyOpt o prm fuel msg xQ sg (some c) none = .error .type ∧
    verifyOpt o prm fuel msg xQ sg none (some R) = .error .type := by
  unfold verifyOpt; rw [hv]; exact ⟨rfl, rfl⟩

/-! ## the fixed-size codec (T5) — no group law needed -/

/-- T5a: `Sig.parse (Sig.serialize sig) = sig` whenever serialization is accepted (sizes as on
    secp256k1: `p_size + n_size = _REQUIRED_LENGTH`, `p ≤ 256^p_size`, `n ≤ 256^n_size`). -/
theorem parse_serialize (prm : Params)
    (hsz : prm.pSize + prm.nSize = Gen.Schnorr.REQUIRED_LENGTH)
    (hp : o.p ≤ 256 ^ prm.pSize) (hn : o.n ≤ 256 ^ prm.nSize)
    (sg : Sig) (b : Bytes) (h : serialize o prm sg = .ok b) : parse o prm b = .ok sg :=
  Btc.Schnorr.parse_serialize prm hsz hp hn sg b h

/-- T5b: whatever `Sig.parse` accepts is exactly `_REQUIRED_LENGTH` octets, re-serializes to the same
    octets, and has `0 ≤ r < p`, `0 ≤ s < n`: an encoding of `r ≥ p` or `s ≥ n`, or of any other length,
    is refused. -/
theorem serialize_parse (prm : Params)
    (hsz : prm.pSize + prm.nSize = Gen.Schnorr.REQUIRED_LENGTH)
    (b : Bytes) (sg : Sig) (h : parse o prm b = .ok sg) :
    serialize o prm sg = .ok b ∧ b.length = Gen.Schnorr.REQUIRED_LENGTH ∧
    0 ≤ sg.r ∧ sg.r < o.p ∧ 0 ≤ sg.s ∧ sg.s < o.n :=
  ⟨Btc.Schnorr.serialize_parse prm hsz b sg h, (parse_ok prm b sg h).1,
   sigValid_range sg (parse_ok prm b sg h).2.1⟩

/-- the sizes `Sig.parse` reads (secp256k1's, regenerated from the source) add up to the length it
    insists on -/
theorem parse_sizes : Gen.Schnorr.PARSE_P_SIZE + Gen.Schnorr.PARSE_N_SIZE = Gen.Schnorr.REQUIRED_LENGTH := by
  decide

/-! ## batch verification (T3, T4); `coef i` is the random coefficient of member `i ≥ 1` -/

/-- a batch of one is the single verification; an empty batch is refused -/
theorem batch_small (prm : Params) (coef : Nat → Int) (it : Item) :
    batchVerify o prm coef [it] = verify o prm it.msg it.xQ it.sg ∧ batchVerify o prm coef [] = false :=
  ⟨rfl, rfl⟩

/-- T3 completeness: if every member verifies on its own, the batch passes — for EVERY coefficient
    function, any size ≥ 1, any order, duplicates included. -/
theorem batch_complete (L : Lawful o G) (prm : Params) (coef : Nat → Int) (items : List Item)
    (hne : items ≠ []) (hall : ∀ it ∈ items, verify o prm it.msg it.xQ it.sg = true) :
    batchVerify o prm coef items = true :=
  (batchVerify_eq_true_iff prm coef items).2 (Btc.Schnorr.batch_complete L prm coef items hne hall)

/-- T4 exact linear form: for two or more members the batch passes iff every member passes the
    per-member checks (`Sig.assert_valid`, `x_Q` a liftable field element, non-zero challenge) and
    `Σ aᵢ•Dᵢ = 0` in the group, `Dᵢ = sᵢ•G − lift(rᵢ) − eᵢ•lift(x_Qᵢ)`, `a₀ = 1`. -/
theorem batch_iff_linear (L : Lawful o G) (prm : Params) (coef : Nat → Int) (it0 it1 : Item) (rest : List Item) :
    batchVerify o prm coef (it0 :: it1 :: rest) = true ↔
      (∀ it ∈ it0 :: it1 :: rest, Structural (o := o) prm it) ∧
      lin L prm coef 0 (it0 :: it1 :: rest) = 0 :=
  (batchVerify_eq_true_iff prm coef _).trans (assertBatch_ok_iff L prm coef it0 it1 rest)

/-- T4: `Dᵢ = 0` exactly when member `i` verifies on its own. -/
theorem defect_zero_iff_verifies (L : Lawful o G) (prm : Params) (it : Item)
    (hst : Structural (o := o) prm it) :
    defect L prm it = 0 ↔ verify o prm it.msg it.xQ it.sg = true :=
  defect_eq_zero_iff L prm L.ycongr it hst

/-- T4 soundness, one bad member: if exactly one member (at any position `j`) fails on its own, the
    batch FAILS whenever that member's coefficient is not a multiple of `n` — always for the first
    member (coefficient 1) and always for coefficients drawn from `1..n-1` as the code draws them. -/
theorem batch_one_bad_fails (L : Lawful o G) (prm : Params) (coef : Nat → Int) (it0 it1 : Item)
    (rest : List Item) (j : Nat) (bad : Item)
    (hj : (it0 :: it1 :: rest)[j]? = some bad)
    (hbad : verify o prm bad.msg bad.xQ bad.sg = false)
    (hothers : ∀ k it', (it0 :: it1 :: rest)[k]? = some it' → k ≠ j →
      verify o prm it'.msg it'.xQ it'.sg = true)
    (hcoef : j = 0 ∨ (0 < coef j ∧ coef j < o.n)) :
    batchVerify o prm coef (it0 :: it1 :: rest) = false := by
  cases hb : batchVerify o prm coef (it0 :: it1 :: rest) with
  | false => rfl
  | true =>
    exfalso
    refine Btc.Schnorr.batch_one_bad_fails L prm coef it0 it1 rest j bad hj hbad hothers ?_
      ((batchVerify_eq_true_iff prm coef _).1 hb)
    intro hdvd
    rcases hcoef with rfl | ⟨h0, hn⟩
    · have h1 : o.n ∣ 1 := by simpa [coefAt] using hdvd
      have hp := L.n_prime
      have : o.n = 1 := Int.eq_one_of_dvd_one (le_of_lt L.n_pos) h1
      rw [this] at hp; exact absurd hp (by decide)
    · have hj0 : j ≠ 0 ∨ j = 0 := by omega
      rcases hj0 with hj0 | hj0
      · have : o.n ∣ coef j := by simpa [coefAt, hj0] using hdvd
        have := Int.le_of_dvd h0 this
        omega
      · subst hj0
        have h1 : o.n ∣ 1 := by simpa [coefAt] using hdvd
        have hp := L.n_prime
        have : o.n = 1 := Int.eq_one_of_dvd_one (le_of_lt L.n_pos) h1
        rw [this] at hp; exact absurd hp (by decide)

/-- T4 soundness, any number of bad members, stated honestly: a batch containing a member `j ≥ 1` that
    fails on its own can pass for AT MOST ONE value of `aⱼ` modulo `n` (the other coefficients held
    fixed) — i.e. with probability at most `1/(n−1)` over the code's draw from `1..n-1`.  It is not
    claimed (and is false) that such a batch never passes. -/
theorem batch_at_most_one_coeff (L : Lawful o G) (prm : Params) (coef coef' : Nat → Int) (it0 it1 : Item)
    (rest : List Item) (j : Nat) (bad : Item) (hj1 : 1 ≤ j)
    (hj : (it0 :: it1 :: rest)[j]? = some bad)
    (hbad : verify o prm bad.msg bad.xQ bad.sg = false)
    (hagree : ∀ i, i ≠ j → coef i = coef' i)
    (h1 : batchVerify o prm coef (it0 :: it1 :: rest) = true)
    (h2 : batchVerify o prm coef' (it0 :: it1 :: rest) = true) :
    o.n ∣ coef j - coef' j :=
  Btc.Schnorr.batch_at_most_one_coeff L prm coef coef' it0 it1 rest j bad hj1 hj hbad hagree
    ((batchVerify_eq_true_iff prm coef _).1 h1) ((batchVerify_eq_true_iff prm coef' _).1 h2)

/-! ## non-vacuity: the hypotheses are met by a concrete group, and by concrete values on it -/

/-- `Lawful` is inhabited (cyclic group of order 7 with an x-only structure) -/
example : Lawful Toy.ops (ZMod 7) := Toy.lawful
example : sign Toy.ops Toy.prm 5 [1, 2] 3 [0] = .ok ⟨1, 4⟩ := by decide
example : verify Toy.ops Toy.prm [1, 2] 2 ⟨1, 4⟩ = true := by decide
example : verify Toy.ops Toy.prm [1, 2] 2 ⟨1, 5⟩ = false := by decide
example : genKeys Toy.ops 3 = .ok (4, 2) := by decide
example : signCommit Toy.ops Toy.prm 5 [1] 3 [0] [9] = .ok (⟨1, 4⟩, 6) := by decide
example : signHashed Toy.ops Toy.prm (fun m => m) 5 [1] 3 [0] (some []) = .ok (⟨1, 4⟩, some 6) := by decide
example : verifyOpt Toy.ops Toy.prm 5 [1] 2 ⟨1, 4⟩ (some []) (some 6) = .ok true := by decide
example : serialize Toy.ops Toy.prm ⟨1, 4⟩ = .ok [1, 4] := by decide
example : batchVerify Toy.ops Toy.prm (fun _ => 5) [⟨[1, 2], 2, ⟨1, 4⟩⟩, ⟨[], 2, ⟨1, 4⟩⟩] = true := by decide
example : batchVerify Toy.ops Toy.prm (fun _ => 5) [⟨[1, 2], 2, ⟨1, 4⟩⟩, ⟨[], 2, ⟨1, 5⟩⟩] = false := by decide
/-- the tags the theorems are about are BIP340's -/
example : Gen.Schnorr.TAG_AUX.map (fun b => Char.ofNat b.toNat) = "BIP0340/aux".toList ∧
    Gen.Schnorr.TAG_NONCE.map (fun b => Char.ofNat b.toNat) = "BIP0340/nonce".toList ∧
    Gen.Schnorr.TAG_CHALLENGE.map (fun b => Char.ofNat b.toNat) = "BIP0340/challenge".toList := by decide

end Props.C03

/-! ## End to end: the same theorems about the EXECUTED instance `Btc.EC.ops C`, no `Lawful` hypothesis

`L : Lawful o G` above is discharged by C01's capstone `Btc.C01.lawful_ec : Lawful (opsSub K) _` for every curve with
`CurveOk p C` (p prime ≠ 2, n an odd prime, generator reduced, on the curve, of order n) and `p ≡ 3 (mod 4)`.  `opsSub K`
is `Btc.EC.ops C` applied to the underlying integer pairs, with `lift_x` filtered to the `n`-torsion — a function that is
never executed.  Every theorem below is therefore stated about the raw `Btc.EC.ops C` the driver runs:
* T1 (sign → verify) needs nothing more (`sign_` never lifts a foreign x);
* T2–T4 (verify ⇔ equation, batch) need the filter never to fire, i.e. the explicit, NAMED hypothesis
  `hcof : ∀ g, n • g = 0` (cofactor one: every point of the curve has order dividing `n`; theorems `…_cofactor_one`) together with `Δ ≠ 0`; under it
  verify and batch over `opsSub K` ARE the runs over `Btc.EC.ops C`, refusal classes included (`verify_sub_eq_cofactor_one`,
  `batch_sub_eq_cofactor_one`).  Without it only `verify_sub_imp_ec` holds, and on a curve with a cofactor T2 is false of `lift_x`.
For secp256k1 (generated constants): primality of `p` and `n` is PROVED (Pratt certificates, `secp256k1_p_prime`,
`secp256k1_n_prime`), `Δ ≠ 0` is proved, the rest of `CurveOk` is computed by the kernel; **`hcof` is the one remaining
assumption about the curve** (Mathlib has no point count / Hasse bound) spelled `Btc.E2E.SecpCofactorOne`, the first explicit
argument of every `_secp256k1_cofactor_one` theorem (T1, the codec and the size facts need none). -/
namespace Props.C03
open WeierstrassCurve
open Btc Btc.EC Btc.C01 Btc.E2E Btc.Schnorr

/-- T1 on btclib's arithmetic, any curve (no cofactor hypothesis) -/
theorem sign_verifies_ec {p : ℕ} [Fact p.Prime] {C : Curve} (K : CurveOk p C) (h34 : p % 4 = 3) (prm : Params)
    (fuel : ℕ) (msg : Bytes) (q : ℤ) (aux : Bytes) (sg : Sig) (h : sign (EC.ops C) prm fuel msg q aux = .ok sg) :
    verify (EC.ops C) prm msg ((EC.ops C).x ((EC.ops C).mul q C.G)) sg = true :=
  Btc.E2E.sign_verifies_ec K h34 prm fuel msg q aux sg h

/-- `sign_` run over `opsSub K` IS `sign_` run over `Btc.EC.ops C` (no cofactor hypothesis) -/
theorem sign_sub_eq_ec {p : ℕ} [Fact p.Prime] {C : Curve} (K : CurveOk p C) (h34 : p % 4 = 3) (prm : Params)
    (fuel : ℕ) (msg : Bytes) (q : ℤ) (aux : Bytes) :
    sign (opsSub K) prm fuel msg q aux = sign (EC.ops C) prm fuel msg q aux :=
  sign_opsSub K h34 prm fuel msg q aux

/-- unconditionally, what `verify_` accepts over `opsSub K` it accepts over `Btc.EC.ops C` -/
theorem verify_sub_imp_ec {p : ℕ} [Fact p.Prime] {C : Curve} (K : CurveOk p C) (prm : Params) (msg : Bytes)
    (xQ : ℤ) (sg : Sig) (h : verify (opsSub K) prm msg xQ sg = true) : verify (EC.ops C) prm msg xQ sg = true :=
  verify_opsSub_imp K prm msg xQ sg h

/-- … and under cofactor one the converse too: the two runs are EQUAL, as results with their refusal class
    (`assert_as_valid_`) and as verdicts (`verify_`) -/
theorem verify_sub_eq_cofactor_one {p : ℕ} [Fact p.Prime] {C : Curve} (K : CurveOk p C) (h34 : p % 4 = 3)
    (hcof : ∀ g : Pt p C.toCurveGroup, C.n • g = 0) (hΔ : (curveOf p C.toCurveGroup).toAffine.Δ ≠ 0)
    (prm : Params) (msg : Bytes) (xQ : ℤ) (sg : Sig) :
    assertAsValid (opsSub K) prm msg xQ sg = assertAsValid (EC.ops C) prm msg xQ sg ∧
    verify (opsSub K) prm msg xQ sg = verify (EC.ops C) prm msg xQ sg :=
  ⟨assertAsValid_eq K (liftAgree_of_cofactor_one K h34 hcof hΔ) prm msg xQ sg, verify_eq K (liftAgree_of_cofactor_one K h34 hcof hΔ) prm msg xQ sg⟩

/-- the batch likewise: `assert_batch_as_valid_` over `opsSub K` IS the run over `Btc.EC.ops C` -/
theorem batch_sub_eq_cofactor_one {p : ℕ} [Fact p.Prime] {C : Curve} (K : CurveOk p C) (h34 : p % 4 = 3)
    (hcof : ∀ g : Pt p C.toCurveGroup, C.n • g = 0) (hΔ : (curveOf p C.toCurveGroup).toAffine.Δ ≠ 0)
    (prm : Params) (coef : ℕ → ℤ) (items : List Item) :
    assertBatch (opsSub K) prm coef items = assertBatch (EC.ops C) prm coef items :=
  assertBatch_eq K (liftAgree_of_cofactor_one K h34 hcof hΔ) prm coef items

/-- T2 about the executed `verify (Btc.EC.ops C)`, raw integer pairs, cofactor one -/
theorem verify_iff_cofactor_one {p : ℕ} [Fact p.Prime] {C : Curve} (K : CurveOk p C) (h34 : p % 4 = 3)
    (hcof : ∀ g : Pt p C.toCurveGroup, C.n • g = 0) (hΔ : (curveOf p C.toCurveGroup).toAffine.Δ ≠ 0)
    (prm : Params) (msg : Bytes) (xQ : ℤ) (sg : Sig) :
    verify (EC.ops C) prm msg xQ sg = true ↔
      0 ≤ sg.r ∧ sg.r < C.p ∧ 0 ≤ sg.s ∧ sg.s < C.n ∧
      ∃ Q : Point, (EC.ops C).liftX xQ = some Q ∧
        challengeInt (EC.ops C) prm msg xQ sg.r ≠ 0 ∧
        (EC.ops C).isZero ((EC.ops C).sub ((EC.ops C).mul sg.s C.G)
          ((EC.ops C).mul (challengeInt (EC.ops C) prm msg xQ sg.r) Q)) = false ∧
        (EC.ops C).hasEvenY ((EC.ops C).sub ((EC.ops C).mul sg.s C.G)
          ((EC.ops C).mul (challengeInt (EC.ops C) prm msg xQ sg.r) Q)) = true ∧
        (EC.ops C).x ((EC.ops C).sub ((EC.ops C).mul sg.s C.G)
          ((EC.ops C).mul (challengeInt (EC.ops C) prm msg xQ sg.r) Q)) = sg.r :=
  Btc.E2E.verify_iff_cofactor_one K (liftAgree_of_cofactor_one K h34 hcof hΔ) h34 prm msg xQ sg

/-- T3 about the executed `batchVerify (Btc.EC.ops C)`, cofactor one -/
theorem batch_complete_cofactor_one {p : ℕ} [Fact p.Prime] {C : Curve} (K : CurveOk p C) (h34 : p % 4 = 3)
    (hcof : ∀ g : Pt p C.toCurveGroup, C.n • g = 0) (hΔ : (curveOf p C.toCurveGroup).toAffine.Δ ≠ 0)
    (prm : Params) (coef : ℕ → ℤ) (items : List Item) (hne : items ≠ [])
    (hall : ∀ it ∈ items, verify (EC.ops C) prm it.msg it.xQ it.sg = true) :
    batchVerify (EC.ops C) prm coef items = true :=
  Btc.E2E.batch_complete_cofactor_one K (liftAgree_of_cofactor_one K h34 hcof hΔ) h34 prm coef items hne hall

/-- T4 (one bad member) about the executed batch; `hbad` is the executed `verify_` answering False -/
theorem batch_one_bad_fails_cofactor_one {p : ℕ} [Fact p.Prime] {C : Curve} (K : CurveOk p C) (h34 : p % 4 = 3)
    (hcof : ∀ g : Pt p C.toCurveGroup, C.n • g = 0) (hΔ : (curveOf p C.toCurveGroup).toAffine.Δ ≠ 0)
    (prm : Params) (coef : ℕ → ℤ) (it0 it1 : Item) (rest : List Item) (j : ℕ) (bad : Item)
    (hj : (it0 :: it1 :: rest)[j]? = some bad)
    (hbad : verify (EC.ops C) prm bad.msg bad.xQ bad.sg = false)
    (hothers : ∀ k it', (it0 :: it1 :: rest)[k]? = some it' → k ≠ j →
      verify (EC.ops C) prm it'.msg it'.xQ it'.sg = true)
    (hcoef : ¬ C.n ∣ coefAt coef j) :
    batchVerify (EC.ops C) prm coef (it0 :: it1 :: rest) = false :=
  Btc.E2E.batch_one_bad_fails_cofactor_one K (liftAgree_of_cofactor_one K h34 hcof hΔ) h34 prm coef it0 it1 rest j bad hj hbad hothers hcoef

/-- T4 (any number of bad members) about the executed batch: at most one `aⱼ mod n` passes -/
theorem batch_at_most_one_coeff_cofactor_one {p : ℕ} [Fact p.Prime] {C : Curve} (K : CurveOk p C) (h34 : p % 4 = 3)
    (hcof : ∀ g : Pt p C.toCurveGroup, C.n • g = 0) (hΔ : (curveOf p C.toCurveGroup).toAffine.Δ ≠ 0)
    (prm : Params) (coef coef' : ℕ → ℤ) (it0 it1 : Item) (rest : List Item) (j : ℕ) (bad : Item) (hj1 : 1 ≤ j)
    (hj : (it0 :: it1 :: rest)[j]? = some bad)
    (hbad : verify (EC.ops C) prm bad.msg bad.xQ bad.sg = false)
    (hagree : ∀ i, i ≠ j → coef i = coef' i)
    (h1 : batchVerify (EC.ops C) prm coef (it0 :: it1 :: rest) = true)
    (h2 : batchVerify (EC.ops C) prm coef' (it0 :: it1 :: rest) = true) :
    C.n ∣ coef j - coef' j :=
  Btc.E2E.batch_at_most_one_coeff_cofactor_one K (liftAgree_of_cofactor_one K h34 hcof hΔ) h34 prm coef coef' it0 it1 rest j bad hj1 hj hbad hagree h1 h2

/-! ### secp256k1 (generated constants): primality proved, `Δ ≠ 0` proved; `hcof` the one named assumption -/

/-- T1 on secp256k1, unconditional -/
theorem sign_verifies_secp256k1 (prm : Params)
    (fuel : ℕ) (msg : Bytes) (q : ℤ) (aux : Bytes) (sg : Sig)
    (h : sign (EC.ops secp256k1) prm fuel msg q aux = .ok sg) :
    verify (EC.ops secp256k1) prm msg ((EC.ops secp256k1).x ((EC.ops secp256k1).mul q secp256k1.G)) sg = true :=
  Btc.E2E.sign_verifies_secp256k1 prm fuel msg q aux sg h

/-- T2 about `verify (Btc.EC.ops secp256k1)`, under `hcof` -/
theorem verify_iff_secp256k1_cofactor_one (hcof : SecpCofactorOne) (prm : Params)
    (msg : Bytes) (xQ : ℤ) (sg : Sig) :
    verify (EC.ops secp256k1) prm msg xQ sg = true ↔
      0 ≤ sg.r ∧ sg.r < secp256k1.p ∧ 0 ≤ sg.s ∧ sg.s < secp256k1.n ∧
      ∃ Q : Point, (EC.ops secp256k1).liftX xQ = some Q ∧
        challengeInt (EC.ops secp256k1) prm msg xQ sg.r ≠ 0 ∧
        (EC.ops secp256k1).isZero ((EC.ops secp256k1).sub ((EC.ops secp256k1).mul sg.s secp256k1.G)
          ((EC.ops secp256k1).mul (challengeInt (EC.ops secp256k1) prm msg xQ sg.r) Q)) = false ∧
        (EC.ops secp256k1).hasEvenY ((EC.ops secp256k1).sub ((EC.ops secp256k1).mul sg.s secp256k1.G)
          ((EC.ops secp256k1).mul (challengeInt (EC.ops secp256k1) prm msg xQ sg.r) Q)) = true ∧
        (EC.ops secp256k1).x ((EC.ops secp256k1).sub ((EC.ops secp256k1).mul sg.s secp256k1.G)
          ((EC.ops secp256k1).mul (challengeInt (EC.ops secp256k1) prm msg xQ sg.r) Q)) = sg.r :=
  @Btc.E2E.verify_iff_cofactor_one secp256k1_p ⟨secp256k1_p_prime⟩ secp256k1 secpOk (secp_liftAgree03 hcof) secp256k1_h34 prm msg xQ sg

/-- T3 about `batchVerify (Btc.EC.ops secp256k1)`, under `hcof` -/
theorem batch_complete_secp256k1_cofactor_one (hcof : SecpCofactorOne) (prm : Params)
    (coef : ℕ → ℤ) (items : List Item) (hne : items ≠ [])
    (hall : ∀ it ∈ items, verify (EC.ops secp256k1) prm it.msg it.xQ it.sg = true) :
    batchVerify (EC.ops secp256k1) prm coef items = true :=
  @Btc.E2E.batch_complete_cofactor_one secp256k1_p ⟨secp256k1_p_prime⟩ secp256k1 secpOk (secp_liftAgree03 hcof) secp256k1_h34 prm coef
    items hne hall

/-- T4 (one bad member) about `batchVerify (Btc.EC.ops secp256k1)`, under `hcof` -/
theorem batch_one_bad_fails_secp256k1_cofactor_one (hcof : SecpCofactorOne) (prm : Params)
    (coef : ℕ → ℤ) (it0 it1 : Item) (rest : List Item) (j : ℕ) (bad : Item)
    (hj : (it0 :: it1 :: rest)[j]? = some bad)
    (hbad : verify (EC.ops secp256k1) prm bad.msg bad.xQ bad.sg = false)
    (hothers : ∀ k it', (it0 :: it1 :: rest)[k]? = some it' → k ≠ j →
      verify (EC.ops secp256k1) prm it'.msg it'.xQ it'.sg = true)
    (hcoef : ¬ secp256k1.n ∣ coefAt coef j) :
    batchVerify (EC.ops secp256k1) prm coef (it0 :: it1 :: rest) = false :=
  @Btc.E2E.batch_one_bad_fails_cofactor_one secp256k1_p ⟨secp256k1_p_prime⟩ secp256k1 secpOk (secp_liftAgree03 hcof) secp256k1_h34 prm
    coef it0 it1 rest j bad hj hbad hothers hcoef

/-- T4 (any number of bad members) about `batchVerify (Btc.EC.ops secp256k1)`, under `hcof` -/
theorem batch_at_most_one_coeff_secp256k1_cofactor_one (hcof : SecpCofactorOne) (prm : Params)
    (coef coef' : ℕ → ℤ) (it0 it1 : Item) (rest : List Item) (j : ℕ) (bad : Item) (hj1 : 1 ≤ j)
    (hj : (it0 :: it1 :: rest)[j]? = some bad)
    (hbad : verify (EC.ops secp256k1) prm bad.msg bad.xQ bad.sg = false)
    (hagree : ∀ i, i ≠ j → coef i = coef' i)
    (h1 : batchVerify (EC.ops secp256k1) prm coef (it0 :: it1 :: rest) = true)
    (h2 : batchVerify (EC.ops secp256k1) prm coef' (it0 :: it1 :: rest) = true) :
    secp256k1.n ∣ coef j - coef' j :=
  @Btc.E2E.batch_at_most_one_coeff_cofactor_one secp256k1_p ⟨secp256k1_p_prime⟩ secp256k1 secpOk (secp_liftAgree03 hcof) secp256k1_h34
    prm coef coef' it0 it1 rest j bad hj1 hj hbad hagree h1 h2

/-- the sizes the DRIVER computes for secp256k1 (`Params.ofCurve`: from the bit lengths of `p` and `n`, as btclib's
    `p_size`, `n_size`, `nlen`) are the generated sizes `Sig.parse` reads -/
theorem secp256k1_sizes (hfLen : ℕ) (TH : Bytes → Bytes → Bytes) :
    (Params.ofCurve secp256k1 hfLen TH).pSize = Gen.Schnorr.PARSE_P_SIZE ∧
    (Params.ofCurve secp256k1 hfLen TH).nSize = Gen.Schnorr.PARSE_N_SIZE ∧
    (Params.ofCurve secp256k1 hfLen TH).nlen = 256 := by
  have h : (Py.natBitLength secp256k1.p.toNat + 7) / 8 = Gen.Schnorr.PARSE_P_SIZE ∧
      (Py.natBitLength secp256k1.n.toNat + 7) / 8 = Gen.Schnorr.PARSE_N_SIZE ∧
      Py.natBitLength secp256k1.n.toNat = 256 := by decide +kernel
  exact h

/-- T5 at the driver's own parameters for secp256k1: the 64-byte codec round-trips both ways -/
theorem codec_secp256k1 (hfLen : ℕ) (TH : Bytes → Bytes → Bytes) (sg : Sig) (b : Bytes) :
    (serialize (EC.ops secp256k1) (Params.ofCurve secp256k1 hfLen TH) sg = .ok b →
      parse (EC.ops secp256k1) (Params.ofCurve secp256k1 hfLen TH) b = .ok sg) ∧
    (parse (EC.ops secp256k1) (Params.ofCurve secp256k1 hfLen TH) b = .ok sg →
      serialize (EC.ops secp256k1) (Params.ofCurve secp256k1 hfLen TH) sg = .ok b ∧ b.length = 64 ∧
      0 ≤ sg.r ∧ sg.r < secp256k1.p ∧ 0 ≤ sg.s ∧ sg.s < secp256k1.n) := by
  obtain ⟨h1, h2, _⟩ := secp256k1_sizes hfLen TH
  have hsz : (Params.ofCurve secp256k1 hfLen TH).pSize + (Params.ofCurve secp256k1 hfLen TH).nSize
      = Gen.Schnorr.REQUIRED_LENGTH := by rw [h1, h2]; exact parse_sizes
  have hp : (EC.ops secp256k1).p ≤ 256 ^ (Params.ofCurve secp256k1 hfLen TH).pSize := by
    rw [h1]; exact secp_sizes.1
  have hn : (EC.ops secp256k1).n ≤ 256 ^ (Params.ofCurve secp256k1 hfLen TH).nSize := by
    rw [h2]; exact secp_sizes.2.1
  exact ⟨parse_serialize _ hsz hp hn sg b, serialize_parse _ hsz b sg⟩

/-- the parameters of the run example below: secp256k1's own sizes, a small "tagged hash" -/
def runPrm : Params :=
  Params.ofCurve secp256k1 32 (fun tag m => List.replicate 31 0 ++ [UInt8.ofNat (tag.length + m.length)])

-- non-vacuity: an actual signing run of btclib's arithmetic ON secp256k1 (kernel-evaluated, 256-bit ladder), and the
-- verdict T1 gives on it; on `y² = x³ + 7` over `F₄₃` (31 points) `CurveOk` is PROVED: runs, and a two-member batch
theorem secp256k1_run : sign (EC.ops secp256k1) runPrm 4 [1, 2] 3 (List.replicate 32 7) =
    .ok ⟨109111382237769790097646325753800985432696951592160583206768965440742916720568, 170⟩ := by decide +kernel
example : verify (EC.ops secp256k1) runPrm [1, 2]
    ((EC.ops secp256k1).x ((EC.ops secp256k1).mul 3 secp256k1.G))
    ⟨109111382237769790097646325753800985432696951592160583206768965440742916720568, 170⟩ = true :=
  sign_verifies_secp256k1 runPrm 4 [1, 2] 3 (List.replicate 32 7) _ secp256k1_run
example : sign (EC.ops toyC) toyPrm 5 [1, 2] 3 [0] = .ok ⟨2, 19⟩ := toy_schnorr_sign1
example : verify (EC.ops toyC) toyPrm [1, 2] 35 ⟨2, 19⟩ = true := toy_schnorr_verifies
example (coef : ℕ → ℤ) :
    batchVerify (opsSub toyOk) toyPrm coef [⟨[1, 2], 35, ⟨2, 19⟩⟩, ⟨[9], 21, ⟨29, 5⟩⟩] = true := toy_batch coef

end Props.C03
