import Proofs.C03.Codec
import Proofs.C03.BatchThm
import Proofs.C03.Toy
import Proofs.E2E.C03
import Proofs.C03.Secp
/-!
# C03 — BIP340 Schnorr: sign, verify and batch-verify agree with the BIP

Property theorems only.  The scheme (`Model/C03/Schnorr.lean`, `Batch.lean`) is a transcription of
btclib's `ssa.py` / `bip340_nonce.py` / `commit_nonce.py` over an abstract group interface
`o : GroupOps α`; every theorem holds for EVERY lawful group (`L : Lawful o G`: prime order `n`,
x-coordinate identifying `±P`, y-parity flipping under negation, `lift_x`), every tagged-hash function
`prm.TH`, every byte size, every message of any length, every key, every aux.  The abstract hypothesis `L` is
discharged in the end-to-end section below by C01's `lawful_ec : Lawful (opsSub K) _` (NOT `Lawful (EC.ops c)`,
which is uninhabited): T1 is then about the executed `Btc.EC.ops C` outright, T2–T4 about `Btc.EC.ops C` under the
named hypothesis of cofactor one (`hcof`, generic `…_cofactor_one` forms) — which for secp256k1 is PROVED
(`Btc.E2E.secpCofactorOne`), so every `…_secp256k1` theorem below is hypothesis-free.
The tags, `int_from_bits` and the batch coefficient statement `rand = …` are the translated source (`Gen.Schnorr`).
Retry loops carry explicit fuel; WHEN `sign_` answers is `sign_total` / `sign_refusals` (the two hash-dependent
refusals: no nonce candidate in range within the budget, zero challenge).
-/
namespace Props.C03
open Btc Btc.Schnorr

variable {α G : Type} [AddCommGroup G] {o : GroupOps α}

/-- T1 `sign_verifies`: whatever `sign_` returns — for any key `q`, message, aux, tagged hash, fuel —
    verifies under the signer's x-only public key `x(q•G)`. -/
theorem sign_verifies (L : Lawful o G) (prm : Params) (fuel : Nat) (msg : Bytes) (q : Int) (aux : Bytes)
    (sg : Sig) (h : sign o prm fuel msg q aux = .ok sg) :
    verify o prm msg (o.x (o.mul q o.gen)) sg = true :=
  (verify_eq_true_iff prm _ _ _).2 (Btc.Schnorr.sign_verifies L prm L.ycongr fuel msg q aux sg h)

/-- T1': the self-check inside `sign_(verify=True)` never fires: both spellings answer alike on every
    input (same signature, same refusal). -/
theorem signChecked_eq_sign (L : Lawful o G) (prm : Params) (fuel : Nat) (msg : Bytes) (q : Int) (aux : Bytes) :
    signChecked o prm fuel msg q aux = sign o prm fuel msg q aux :=
  Btc.Schnorr.signChecked_eq_sign L prm L.ycongr fuel msg q aux

/-- T2 `verify_iff`: on every integer triple `(x_Q, r, s)` and every message, `verify_` answers true
    exactly when BIP340's Verify does: `r` a field element, `s` below the order, `x_Q` lifts to a point
    `Q`, and `K = s•G − e•Q` is not infinite, has even y and `x(K) = r` — plus btclib's refusal of a
    zero challenge (`e ≠ 0`; never the case on secp256k1 short of a hash preimage of 0 mod n). -/
theorem verify_iff (L : Lawful o G) (prm : Params) (msg : Bytes) (xQ : Int) (sg : Sig) :
    verify o prm msg xQ sg = true ↔
      0 ≤ sg.r ∧ sg.r < o.p ∧ 0 ≤ sg.s ∧ sg.s < o.n ∧
      ∃ Q, o.liftX xQ = some Q ∧
        challengeInt o prm msg xQ sg.r ≠ 0 ∧
        o.isZero (o.sub (o.mul sg.s o.gen) (o.mul (challengeInt o prm msg xQ sg.r) Q)) = false ∧
        o.hasEvenY (o.sub (o.mul sg.s o.gen) (o.mul (challengeInt o prm msg xQ sg.r) Q)) = true ∧
        o.x (o.sub (o.mul sg.s o.gen) (o.mul (challengeInt o prm msg xQ sg.r) Q)) = sg.r :=
  Btc.Schnorr.verify_iff L prm L.ycongr msg xQ sg

/-- T2 corollary: `r ≥ p`, `s ≥ n`, negative values and an `x_Q` that is no x-coordinate are refused. -/
theorem verify_refuses (L : Lawful o G) (prm : Params) (msg : Bytes) (xQ : Int) (sg : Sig)
    (h : sg.r < 0 ∨ o.p ≤ sg.r ∨ sg.s < 0 ∨ o.n ≤ sg.s ∨ o.liftX xQ = none) :
    verify o prm msg xQ sg = false := by
  cases hv : verify o prm msg xQ sg with
  | false => rfl
  | true =>
    obtain ⟨h1, h2, h3, h4, Q, hQ, _⟩ := (verify_iff L prm msg xQ sg).1 hv
    rcases h with h | h | h | h | h
    · omega
    · omega
    · omega
    · omega
    · rw [h] at hQ; cases hQ

/-- T2, group-level reading (the counterpart of C02's `Grp.SEC1`): `verify_` answers true exactly when `r` is a field
    element, `s` is below the order, `r` and `x_Q` lift to (even-y) points `R`, `P`, the challenge `e` is not zero
    (btclib's extra refusal) and **BIP340's equation `s•G = R + e•P` holds in the group**. -/
theorem verify_iff_bip340_equation (L : Lawful o G) (prm : Params) (msg : Bytes) (xQ : Int) (sg : Sig) :
    verify o prm msg xQ sg = true ↔
      0 ≤ sg.r ∧ sg.r < o.p ∧ 0 ≤ sg.s ∧ sg.s < o.n ∧
      ∃ R P : α, o.liftX sg.r = some R ∧ o.liftX xQ = some P ∧
        challengeInt o prm msg xQ sg.r ≠ 0 ∧
        sg.s • L.abs o.gen = L.abs R + challengeInt o prm msg xQ sg.r • L.abs P :=
  Btc.Schnorr.verify_iff_equation L prm msg xQ sg

/-- the retry loop shared by the nonce and the sign-to-contract tweak (`while True: t = tagged_hash(tag, t); …`)
    answers `v` iff `v` is the FIRST of its candidates `int_from_bits(TH^{i+1}(t))`, `i < fuel`, that lies in
    `1..n-1`; it refuses (budget exhausted; Python: the loop does not end) iff none of them does. -/
theorem nonce_loop_answers_iff (prm : Params) (tag : Bytes) (fuel : Nat) (t : Bytes) :
    (∀ v, hashToScalar o prm tag fuel t = .ok v ↔
      ∃ i, i < fuel ∧ candidate prm tag i t = v ∧ 0 < v ∧ v < o.n ∧
        ∀ j, j < i → ¬ (0 < candidate prm tag j t ∧ candidate prm tag j t < o.n)) ∧
    (∀ e, hashToScalar o prm tag fuel t = .error e ↔
      e = .fuel ∧ ∀ i, i < fuel → ¬ (0 < candidate prm tag i t ∧ candidate prm tag i t < o.n)) :=
  ⟨hashToScalar_ok_iff prm tag fuel t, hashToScalar_error_iff prm tag fuel t⟩

/-- **sign totality**: for EVERY key in `1..n-1`, every message, every aux of the hash's size: if the nonce loop
    answers (`hk`: one of its first `fuel` candidates is in `1..n-1`, see `nonce_loop_answers_iff`) and the challenge
    is not `0 mod n` (`hc`), `sign_` answers — with `r = x(k₀•G)`, `s = k + e·d mod n` (`k`, `d` the even-y
    normalisations).  Both hypotheses are about the hash alone; `Sig.assert_valid` at the end of `_sign_` never fires. -/
theorem sign_total (L : Lawful o G) (prm : Params) (fuel : Nat) (msg : Bytes) (q : Int) (aux : Bytes)
    (hq : 0 < q ∧ q < o.n) (haux : aux.length = prm.hfLen) (k0 : Int)
    (hk : nonceRaw o prm fuel msg (evenScalar o q) (o.x (o.mul q o.gen)) aux = .ok k0)
    (hc : challengeInt o prm msg (o.x (o.mul q o.gen)) (o.x (o.mul k0 o.gen)) ≠ 0) :
    sign o prm fuel msg q aux = .ok ⟨o.x (o.mul k0 o.gen),
      (evenScalar o k0 + challengeInt o prm msg (o.x (o.mul q o.gen)) (o.x (o.mul k0 o.gen)) * evenScalar o q)
        % o.n⟩ :=
  Btc.Schnorr.sign_total L prm fuel msg q aux hq haux k0 hk hc

/-- … and the refusal branches, exactly: for a key in `1..n-1` and an aux of the right size `sign_` refuses ONLY with
    `fuel` (the nonce loop found no candidate) or `runtime` (`challenge_`: zero challenge) — never a ValueError. -/
theorem sign_refusals (L : Lawful o G) (prm : Params) (fuel : Nat) (msg : Bytes) (q : Int) (aux : Bytes)
    (hq : 0 < q ∧ q < o.n) (haux : aux.length = prm.hfLen) (e : Err) :
    sign o prm fuel msg q aux = .error e ↔
      (e = .fuel ∧ nonceRaw o prm fuel msg (evenScalar o q) (o.x (o.mul q o.gen)) aux = .error .fuel) ∨
      (e = .runtime ∧ ∃ k0, nonceRaw o prm fuel msg (evenScalar o q) (o.x (o.mul q o.gen)) aux = .ok k0 ∧
        challengeInt o prm msg (o.x (o.mul q o.gen)) (o.x (o.mul k0 o.gen)) = 0) :=
  Btc.Schnorr.sign_error_iff L prm fuel msg q aux hq haux e

/-- T6 `gen_keys`: the returned private key is in `1..n-1`, its point has even y and the returned
    x-coordinate, and that x-only key lifts back to exactly this point. -/
theorem genKeys_spec (L : Lawful o G) (q q' x : Int) (h : genKeys o q = .ok (q', x)) :
    0 < q' ∧ q' < o.n ∧ o.hasEvenY (o.mul q' o.gen) = true ∧ o.x (o.mul q' o.gen) = x ∧
    ∃ Q, o.liftX x = some Q ∧ L.abs Q = q' • L.abs o.gen :=
  Btc.Schnorr.genKeys_spec L L.ycongr q q' x h

/-- (c) sign-to-contract: a signature made with a commitment verifies as an ordinary BIP340 signature
    under the signer's key, the commitment opens with the returned receipt
    (`x(R + H(R‖commit)•G) = r`), and the receipt is the even-y point. -/
theorem signCommit_verifies (L : Lawful o G) (prm : Params) (fuel : Nat) (msg : Bytes) (q : Int)
    (aux commitHash : Bytes) (sg : Sig) (R : α)
    (h : signCommit o prm fuel msg q aux commitHash = .ok (sg, R)) :
    verifyCommit o prm fuel msg (o.x (o.mul q o.gen)) sg commitHash R = true ∧ o.hasEvenY R = true := by
  obtain ⟨h1, h2, h3⟩ := Btc.Schnorr.signCommit_verifies L prm L.ycongr fuel msg q aux commitHash sg R h
  refine ⟨?_, h3⟩
  have hv : sigValid o sg = .ok () := by
    unfold assertAsValid at h1
    cases hs : sigValid o sg with
    | ok u => rfl
    | error e => rw [hs] at h1; cases h1
  unfold verifyCommit
  rw [hv, h2]
  exact (verify_eq_true_iff prm _ _ _).2 h1

/-- the optional arguments of the public API, hashed spellings included (`sign(…, commit=…)`,
    `verify(…, commit=…, receipt=…)`, any reduction `H`): whatever is signed — without a commitment
    (`none`), or with ANY commitment, the empty byte string `some []` like every other — verifies when
    handed back with exactly what signing returned; a receipt comes back iff a commitment went in. -/
theorem signHashed_verifies (L : Lawful o G) (prm : Params) (H : Bytes → Bytes) (fuel : Nat) (msg : Bytes)
    (q : Int) (aux : Bytes) (commit : Option Bytes) (sg : Sig) (receipt : Option α)
    (h : signHashed o prm H fuel msg q aux commit = .ok (sg, receipt)) :
    verifyHashed o prm H fuel msg (o.x (o.mul q o.gen)) sg commit receipt = .ok true ∧
    receipt.isSome = commit.isSome := by
  unfold signHashed signOpt at h
  unfold verifyHashed verifyOpt
  cases commit with
  | none =>
    simp only [Option.map_none] at h ⊢
    split at h
    · cases h
    · next sg' hs =>
      simp only [Except.ok.injEq, Prod.mk.injEq] at h
      obtain ⟨rfl, rfl⟩ := h
      have hv := sign_verifies L prm fuel (H msg) q aux _ hs
      have hsv : sigValid o sg' = .ok () := ((verify_unfold prm _ _ _).1 hv).1
      rw [hsv]; dsimp only; rw [hv]; exact ⟨rfl, rfl⟩
  | some c =>
    simp only [Option.map_some] at h ⊢
    split at h
    · cases h
    · next sg' R hs =>
      simp only [Except.ok.injEq, Prod.mk.injEq] at h
      obtain ⟨rfl, rfl⟩ := h
      have hv := (signCommit_verifies L prm fuel (H msg) q aux (H c) _ _ hs).1
      have hsv : sigValid o sg' = .ok () := by
        unfold verifyCommit at hv
        cases hu : sigValid o sg' with
        | ok u => rfl
        | error e => rw [hu] at hv; cases hv
      rw [hsv]; dsimp only; rw [hv]; exact ⟨rfl, rfl⟩

/-- a commitment without its receipt, or a receipt without its commitment, is refused as the caller's
    TypeError for every well-formed signature — in particular the EMPTY commitment is not "no
    commitment": `verify(…, commit=b"", receipt=None)` does not answer True. -/
theorem verifyOpt_mismatch (prm : Params) (fuel : Nat) (msg : Bytes) (xQ : Int) (sg : Sig)
    (c : Bytes) (R : α) (hv : sigValid o sg = .ok ()) :
    verifyOpt o prm fuel msg xQ sg (some c) none = .error .type ∧
    verifyOpt o prm fuel msg xQ sg none (some R) = .error .type := by
  unfold verifyOpt; rw [hv]; exact ⟨rfl, rfl⟩

/-! ## the fixed-size codec (T5) — no group law needed -/

/-- T5a: `Sig.parse (Sig.serialize sig) = sig` whenever serialization is accepted (sizes as on
    secp256k1: `p_size + n_size = _REQUIRED_LENGTH`, `p ≤ 256^p_size`, `n ≤ 256^n_size`). -/
theorem parse_serialize (prm : Params)
    (hsz : prm.pSize + prm.nSize = Gen.Schnorr.REQUIRED_LENGTH)
    (hp : o.p ≤ 256 ^ prm.pSize) (hn : o.n ≤ 256 ^ prm.nSize)
    (sg : Sig) (b : Bytes) (h : serialize o prm sg = .ok b) : parse o prm b = .ok sg :=
  Btc.Schnorr.parse_serialize prm hsz hp hn sg b h

/-- T5b: whatever `Sig.parse` accepts is exactly `_REQUIRED_LENGTH` octets, re-serializes to the same
    octets, and has `0 ≤ r < p`, `0 ≤ s < n`: an encoding of `r ≥ p` or `s ≥ n`, or of any other length,
    is refused. -/
theorem serialize_parse (prm : Params)
    (hsz : prm.pSize + prm.nSize = Gen.Schnorr.REQUIRED_LENGTH)
    (b : Bytes) (sg : Sig) (h : parse o prm b = .ok sg) :
    serialize o prm sg = .ok b ∧ b.length = Gen.Schnorr.REQUIRED_LENGTH ∧
    0 ≤ sg.r ∧ sg.r < o.p ∧ 0 ≤ sg.s ∧ sg.s < o.n :=
  ⟨Btc.Schnorr.serialize_parse prm hsz b sg h, (parse_ok prm b sg h).1,
   sigValid_range sg (parse_ok prm b sg h).2.1⟩

/-- the sizes `Sig.parse` reads (secp256k1's, regenerated from the source) add up to the length it
    insists on -/
theorem parse_sizes : Gen.Schnorr.PARSE_P_SIZE + Gen.Schnorr.PARSE_N_SIZE = Gen.Schnorr.REQUIRED_LENGTH := by
  decide

/-! ## batch verification (T3, T4); `coef i` is the random coefficient of member `i ≥ 1` -/

/-- a batch of one is the single verification; an empty batch is refused -/
theorem batch_small (prm : Params) (coef : Nat → Int) (it : Item) :
    batchVerify o prm coef [it] = verify o prm it.msg it.xQ it.sg ∧ batchVerify o prm coef [] = false :=
  ⟨rfl, rfl⟩

/-- T3 completeness: if every member verifies on its own, the batch passes — for EVERY coefficient
    function, any size ≥ 1, any order, duplicates included. -/
theorem batch_complete (L : Lawful o G) (prm : Params) (coef : Nat → Int) (items : List Item)
    (hne : items ≠ []) (hall : ∀ it ∈ items, verify o prm it.msg it.xQ it.sg = true) :
    batchVerify o prm coef items = true :=
  (batchVerify_eq_true_iff prm coef items).2 (Btc.Schnorr.batch_complete L prm coef items hne hall)

/-- T4 exact linear form: for two or more members the batch passes iff every member passes the
    per-member checks (`Sig.assert_valid`, `x_Q` a liftable field element, non-zero challenge) and
    `Σ aᵢ•Dᵢ = 0` in the group, `Dᵢ = sᵢ•G − lift(rᵢ) − eᵢ•lift(x_Qᵢ)`, `a₀ = 1`. -/
theorem batch_iff_linear (L : Lawful o G) (prm : Params) (coef : Nat → Int) (it0 it1 : Item) (rest : List Item) :
    batchVerify o prm coef (it0 :: it1 :: rest) = true ↔
      (∀ it ∈ it0 :: it1 :: rest, Structural (o := o) prm it) ∧
      lin L prm coef 0 (it0 :: it1 :: rest) = 0 :=
  (batchVerify_eq_true_iff prm coef _).trans (assertBatch_ok_iff L prm coef it0 it1 rest)

/-- T4: `Dᵢ = 0` exactly when member `i` verifies on its own. -/
theorem defect_zero_iff_verifies (L : Lawful o G) (prm : Params) (it : Item)
    (hst : Structural (o := o) prm it) :
    defect L prm it = 0 ↔ verify o prm it.msg it.xQ it.sg = true :=
  defect_eq_zero_iff L prm L.ycongr it hst

/-- T4 soundness, one bad member: if exactly one member (at any position `j`) fails on its own, the
    batch FAILS whenever that member's coefficient is not a multiple of `n` — always for the first
    member (coefficient 1) and always for coefficients drawn from `1..n-1` as the code draws them. -/
theorem batch_one_bad_fails (L : Lawful o G) (prm : Params) (coef : Nat → Int) (it0 it1 : Item)
    (rest : List Item) (j : Nat) (bad : Item)
    (hj : (it0 :: it1 :: rest)[j]? = some bad)
    (hbad : verify o prm bad.msg bad.xQ bad.sg = false)
    (hothers : ∀ k it', (it0 :: it1 :: rest)[k]? = some it' → k ≠ j →
      verify o prm it'.msg it'.xQ it'.sg = true)
    (hcoef : j = 0 ∨ (0 < coef j ∧ coef j < o.n)) :
    batchVerify o prm coef (it0 :: it1 :: rest) = false := by
  cases hb : batchVerify o prm coef (it0 :: it1 :: rest) with
  | false => rfl
  | true =>
    exfalso
    refine Btc.Schnorr.batch_one_bad_fails L prm coef it0 it1 rest j bad hj hbad hothers ?_
      ((batchVerify_eq_true_iff prm coef _).1 hb)
    intro hdvd
    rcases hcoef with rfl | ⟨h0, hn⟩
    · have h1 : o.n ∣ 1 := by simpa [coefAt_eq] using hdvd
      have hp := L.n_prime
      have : o.n = 1 := Int.eq_one_of_dvd_one (le_of_lt L.n_pos) h1
      rw [this] at hp; exact absurd hp (by decide)
    · have hj0 : j ≠ 0 ∨ j = 0 := by omega
      rcases hj0 with hj0 | hj0
      · have : o.n ∣ coef j := by simpa [coefAt_eq, hj0] using hdvd
        have := Int.le_of_dvd h0 this
        omega
      · subst hj0
        have h1 : o.n ∣ 1 := by simpa [coefAt_eq] using hdvd
        have hp := L.n_prime
        have : o.n = 1 := Int.eq_one_of_dvd_one (le_of_lt L.n_pos) h1
        rw [this] at hp; exact absurd hp (by decide)

/-- T4 soundness, any number of bad members, stated honestly: a batch containing a member `j ≥ 1` that
    fails on its own can pass for AT MOST ONE value of `aⱼ` modulo `n` (the other coefficients held
    fixed) — i.e. with probability at most `1/(n−1)` over the code's draw from `1..n-1`.  It is not
    claimed (and is false) that such a batch never passes. -/
theorem batch_at_most_one_coeff (L : Lawful o G) (prm : Params) (coef coef' : Nat → Int) (it0 it1 : Item)
    (rest : List Item) (j : Nat) (bad : Item) (hj1 : 1 ≤ j)
    (hj : (it0 :: it1 :: rest)[j]? = some bad)
    (hbad : verify o prm bad.msg bad.xQ bad.sg = false)
    (hagree : ∀ i, i ≠ j → coef i = coef' i)
    (h1 : batchVerify o prm coef (it0 :: it1 :: rest) = true)
    (h2 : batchVerify o prm coef' (it0 :: it1 :: rest) = true) :
    o.n ∣ coef j - coef' j :=
  Btc.Schnorr.batch_at_most_one_coeff L prm coef coef' it0 it1 rest j bad hj1 hj hbad hagree
    ((batchVerify_eq_true_iff prm coef _).1 h1) ((batchVerify_eq_true_iff prm coef' _).1 h2)

/-- the coefficient statement of `assert_batch_as_valid_`, TRANSLATED from the source
    (`rand = 1 if i == 0 else 1 + secrets.randbelow(ec.n - 1)` → `Gen.Schnorr.batch_rand`, `batch_randbelow_bound`):
    member 0 gets `1`; for a member `i ≥ 1` every outcome `draw ∈ 0..bound-1` of `secrets.randbelow(bound)` gives a
    coefficient in `1..n-1`, and every value of `1..n-1` is reached by exactly that draw; the model's `coefAt` IS this
    statement.  An edit of the statement in ssa.py (other bound, dropped `1 +`, other first member) breaks this. -/
theorem coefficient_derivation (n : Int) (coef : Nat → Int) (i : Nat) :
    Gen.Schnorr.batch_rand 0 (coef 0 - 1) = 1 ∧
    (∀ draw : Int, 1 ≤ i → 0 ≤ draw → draw < Gen.Schnorr.batch_randbelow_bound n →
      0 < Gen.Schnorr.batch_rand i draw ∧ Gen.Schnorr.batch_rand i draw < n) ∧
    (∀ a : Int, 1 ≤ i → 0 < a → a < n →
      0 ≤ a - 1 ∧ a - 1 < Gen.Schnorr.batch_randbelow_bound n ∧ Gen.Schnorr.batch_rand i (a - 1) = a) ∧
    coefAt coef i = Gen.Schnorr.batch_rand i (coef i - 1) ∧
    coefAt coef i = (if i = 0 then 1 else coef i) := by
  refine ⟨by simp [Gen.Schnorr.batch_rand], ?_, ?_, rfl, coefAt_eq coef i⟩
  · intro draw hi h0 hb
    have h' : ¬ ((i : Int) = 0) := by omega
    simp only [Gen.Schnorr.batch_rand, Gen.Schnorr.batch_randbelow_bound, if_neg h'] at hb ⊢
    omega
  · intro a hi h0 hn
    have h' : ¬ ((i : Int) = 0) := by omega
    simp only [Gen.Schnorr.batch_rand, Gen.Schnorr.batch_randbelow_bound, if_neg h']
    omega

/-- **"true exactly when every member verifies", deterministic part**: for coefficients as the code draws them
    (`Drawn`: each in `1..n-1`), ANY size ≥ 1, any order, any repetition of valid members — if AT MOST ONE position
    holds a failing member, the batch verdict IS the conjunction of the single verdicts, for every draw. -/
theorem batch_eq_all_of_at_most_one_bad (L : Lawful o G) (prm : Params) (coef : Nat → Int) (hd : Drawn o coef)
    (items : List Item) (hne : items ≠ [])
    (hone : ∀ (j k : Nat) (a b : Item), items[j]? = some a → items[k]? = some b →
      verify o prm a.msg a.xQ a.sg = false → verify o prm b.msg b.xQ b.sg = false → j = k) :
    batchVerify o prm coef items = true ↔ ∀ it ∈ items, verify o prm it.msg it.xQ it.sg = true :=
  Btc.Schnorr.batch_eq_all_of_at_most_one_bad L prm coef hd items hne hone

/-- **… and the probabilistic part, stated as a count**: with a failing member at a position `j ≥ 1` and ANYTHING else
    in the batch (other failing members, duplicates), at most ONE of the `n − 1` values `1..n-1` the code can draw for
    `aⱼ` makes the batch pass, whatever the other coefficients: two passing values are equal.  So the converse of
    completeness fails with probability ≤ 1/(n−1) over that single draw; it is NOT a deterministic statement (a batch
    with two failing members does pass for one `aⱼ`: the toy streams count them). -/
theorem batch_passing_coefficient_unique (L : Lawful o G) (prm : Params) (coef : Nat → Int) (it0 it1 : Item)
    (rest : List Item) (j : Nat) (bad : Item) (hj1 : 1 ≤ j) (hj : (it0 :: it1 :: rest)[j]? = some bad)
    (hbad : verify o prm bad.msg bad.xQ bad.sg = false) (a a' : Int)
    (ha : 0 < a ∧ a < o.n) (ha' : 0 < a' ∧ a' < o.n)
    (h1 : batchVerify o prm (Function.update coef j a) (it0 :: it1 :: rest) = true)
    (h2 : batchVerify o prm (Function.update coef j a') (it0 :: it1 :: rest) = true) : a = a' :=
  Btc.Schnorr.batch_passing_coefficient_unique L prm coef it0 it1 rest j bad hj1 hj hbad a a' ha ha' h1 h2

/-! ## non-vacuity: the hypotheses are met by a concrete group, and by concrete values on it -/

/-- `Lawful` is inhabited (cyclic group of order 7 with an x-only structure) -/
example : Lawful Toy.ops (ZMod 7) := Toy.lawful
example : sign Toy.ops Toy.prm 5 [1, 2] 3 [0] = .ok ⟨1, 4⟩ := by decide
example : verify Toy.ops Toy.prm [1, 2] 2 ⟨1, 4⟩ = true := by decide
example : verify Toy.ops Toy.prm [1, 2] 2 ⟨1, 5⟩ = false := by decide
example : genKeys Toy.ops 3 = .ok (4, 2) := by decide
example : signCommit Toy.ops Toy.prm 5 [1] 3 [0] [9] = .ok (⟨1, 4⟩, 6) := by decide
example : signHashed Toy.ops Toy.prm (fun m => m) 5 [1] 3 [0] (some []) = .ok (⟨1, 4⟩, some 6) := by decide
example : verifyOpt Toy.ops Toy.prm 5 [1] 2 ⟨1, 4⟩ (some []) (some 6) = .ok true := by decide
example : serialize Toy.ops Toy.prm ⟨1, 4⟩ = .ok [1, 4] := by decide
example : batchVerify Toy.ops Toy.prm (fun _ => 5) [⟨[1, 2], 2, ⟨1, 4⟩⟩, ⟨[], 2, ⟨1, 4⟩⟩] = true := by decide
example : batchVerify Toy.ops Toy.prm (fun _ => 5) [⟨[1, 2], 2, ⟨1, 4⟩⟩, ⟨[], 2, ⟨1, 5⟩⟩] = false := by decide
-- `sign_total`: its hash hypotheses are met (nonce candidate 6 in range, challenge non-zero), and it then names the signature
example : nonceRaw Toy.ops Toy.prm 5 [1, 2] (evenScalar Toy.ops 3) (Toy.ops.x (Toy.ops.mul 3 Toy.ops.gen)) [0] = .ok 6 := by
  decide
example : challengeInt Toy.ops Toy.prm [1, 2] (Toy.ops.x (Toy.ops.mul 3 Toy.ops.gen)) (Toy.ops.x (Toy.ops.mul 6 Toy.ops.gen)) ≠ 0 := by
  decide
example : sign Toy.ops Toy.prm 0 [1, 2] 3 [0] = .error .fuel := by decide
-- `verify_iff_bip340_equation`: the accepted signature satisfies the equation `4•G = R + e•P` in `ZMod 7`
example : ∃ R P : ZMod 7, Toy.ops.liftX 1 = some R ∧ Toy.ops.liftX 2 = some P ∧
    (4 : Int) • Toy.lawful.abs Toy.ops.gen = Toy.lawful.abs R + challengeInt Toy.ops Toy.prm [1, 2] 2 1 • Toy.lawful.abs P := by
  obtain ⟨_, _, _, _, R, P, hR, hP, _, h⟩ :=
    (verify_iff_bip340_equation Toy.lawful Toy.prm [1, 2] 2 ⟨1, 4⟩).1 (by decide)
  exact ⟨R, P, hR, hP, h⟩
-- `Drawn`: a coefficient function the code can draw; the batch theorems apply to it
example : Drawn Toy.ops (fun _ => 5) := (drawn_iff _).2 (fun _ _ => by decide)
example : batchVerify Toy.ops Toy.prm (Function.update (fun _ => 5) 1 3) [⟨[1, 2], 2, ⟨1, 4⟩⟩, ⟨[], 2, ⟨1, 5⟩⟩] = false := by
  decide
/-- the tags the theorems are about are BIP340's -/
example : Gen.Schnorr.TAG_AUX.map (fun b => Char.ofNat b.toNat) = "BIP0340/aux".toList ∧
    Gen.Schnorr.TAG_NONCE.map (fun b => Char.ofNat b.toNat) = "BIP0340/nonce".toList ∧
    Gen.Schnorr.TAG_CHALLENGE.map (fun b => Char.ofNat b.toNat) = "BIP0340/challenge".toList := by decide

end Props.C03

/-! ## End to end: the same theorems about the EXECUTED instance `Btc.EC.ops C`, no `Lawful` hypothesis

`L : Lawful o G` above is discharged by C01's capstone `Btc.C01.lawful_ec : Lawful (opsSub K) _` for every curve with
`CurveOk p C` (p prime ≠ 2, n an odd prime, generator reduced, on the curve, of order n) and `p ≡ 3 (mod 4)`.  `opsSub K`
is `Btc.EC.ops C` applied to the underlying integer pairs, with `lift_x` filtered to the `n`-torsion — a function that is
never executed.  Every theorem below is therefore stated about the raw `Btc.EC.ops C` the driver runs:
* T1 (sign → verify) needs nothing more (`sign_` never lifts a foreign x);
* T2–T4 (verify ⇔ equation, batch) need the filter never to fire, i.e. the explicit, NAMED hypothesis
  `hcof : ∀ g, n • g = 0` (cofactor one: every point of the curve has order dividing `n`; theorems `…_cofactor_one`) together with `Δ ≠ 0`; under it
  verify and batch over `opsSub K` ARE the runs over `Btc.EC.ops C`, refusal classes included (`verify_sub_eq_cofactor_one`,
  `batch_sub_eq_cofactor_one`).  Without it only `verify_sub_imp_ec` holds, and on a curve with a cofactor T2 is false of `lift_x`.
For secp256k1 (generated constants): primality of `p` and `n` is PROVED (Pratt certificates, `secp256k1_p_prime`,
`secp256k1_n_prime`), `Δ ≠ 0` is proved, the rest of `CurveOk` is computed by the kernel, and **cofactor one is PROVED**
(`Btc.E2E.secpCofactorOne`, Proofs/E2E/CofactorOne.lean: `#E ≤ 2p+1 < 3n`, `n ∣ #E`, no 2-torsion): every `…_secp256k1`
theorem below is about the executed `Btc.EC.ops secp256k1` with NO hypothesis about the curve left. -/
namespace Props.C03
open WeierstrassCurve
open Btc Btc.EC Btc.C01 Btc.E2E Btc.Schnorr
open Btc.Schnorr.Secp (secpPoint)

/-- T1 on btclib's arithmetic, any curve (no cofactor hypothesis) -/
theorem sign_verifies_ec {p : ℕ} [Fact p.Prime] {C : Curve} (K : CurveOk p C) (h34 : p % 4 = 3) (prm : Params)
    (fuel : ℕ) (msg : Bytes) (q : ℤ) (aux : Bytes) (sg : Sig) (h : sign (EC.ops C) prm fuel msg q aux = .ok sg) :
    verify (EC.ops C) prm msg ((EC.ops C).x ((EC.ops C).mul q C.G)) sg = true :=
  Btc.E2E.sign_verifies_ec K h34 prm fuel msg q aux sg h

/-- `sign_` run over `opsSub K` IS `sign_` run over `Btc.EC.ops C` (no cofactor hypothesis) -/
theorem sign_sub_eq_ec {p : ℕ} [Fact p.Prime] {C : Curve} (K : CurveOk p C) (h34 : p % 4 = 3) (prm : Params)
    (fuel : ℕ) (msg : Bytes) (q : ℤ) (aux : Bytes) :
    sign (opsSub K) prm fuel msg q aux = sign (EC.ops C) prm fuel msg q aux :=
  sign_opsSub K h34 prm fuel msg q aux

/-- unconditionally, what `verify_` accepts over `opsSub K` it accepts over `Btc.EC.ops C` -/
theorem verify_sub_imp_ec {p : ℕ} [Fact p.Prime] {C : Curve} (K : CurveOk p C) (prm : Params) (msg : Bytes)
    (xQ : ℤ) (sg : Sig) (h : verify (opsSub K) prm msg xQ sg = true) : verify (EC.ops C) prm msg xQ sg = true :=
  verify_opsSub_imp K prm msg xQ sg h

/-- … and under cofactor one the converse too: the two runs are EQUAL, as results with their refusal class
    (`assert_as_valid_`) and as verdicts (`verify_`) -/
theorem verify_sub_eq_cofactor_one {p : ℕ} [Fact p.Prime] {C : Curve} (K : CurveOk p C) (h34 : p % 4 = 3)
    (hcof : ∀ g : Pt p C.toCurveGroup, C.n • g = 0) (hΔ : (curveOf p C.toCurveGroup).toAffine.Δ ≠ 0)
    (prm : Params) (msg : Bytes) (xQ : ℤ) (sg : Sig) :
    assertAsValid (opsSub K) prm msg xQ sg = assertAsValid (EC.ops C) prm msg xQ sg ∧
    verify (opsSub K) prm msg xQ sg = verify (EC.ops C) prm msg xQ sg :=
  ⟨assertAsValid_eq K (liftAgree_of_cofactor_one K h34 hcof hΔ) prm msg xQ sg, verify_eq K (liftAgree_of_cofactor_one K h34 hcof hΔ) prm msg xQ sg⟩

/-- the batch likewise: `assert_batch_as_valid_` over `opsSub K` IS the run over `Btc.EC.ops C` -/
theorem batch_sub_eq_cofactor_one {p : ℕ} [Fact p.Prime] {C : Curve} (K : CurveOk p C) (h34 : p % 4 = 3)
    (hcof : ∀ g : Pt p C.toCurveGroup, C.n • g = 0) (hΔ : (curveOf p C.toCurveGroup).toAffine.Δ ≠ 0)
    (prm : Params) (coef : ℕ → ℤ) (items : List Item) :
    assertBatch (opsSub K) prm coef items = assertBatch (EC.ops C) prm coef items :=
  assertBatch_eq K (liftAgree_of_cofactor_one K h34 hcof hΔ) prm coef items

/-- T2 about the executed `verify (Btc.EC.ops C)`, raw integer pairs, cofactor one -/
theorem verify_iff_cofactor_one {p : ℕ} [Fact p.Prime] {C : Curve} (K : CurveOk p C) (h34 : p % 4 = 3)
    (hcof : ∀ g : Pt p C.toCurveGroup, C.n • g = 0) (hΔ : (curveOf p C.toCurveGroup).toAffine.Δ ≠ 0)
    (prm : Params) (msg : Bytes) (xQ : ℤ) (sg : Sig) :
    verify (EC.ops C) prm msg xQ sg = true ↔
      0 ≤ sg.r ∧ sg.r < C.p ∧ 0 ≤ sg.s ∧ sg.s < C.n ∧
      ∃ Q : Point, (EC.ops C).liftX xQ = some Q ∧
        challengeInt (EC.ops C) prm msg xQ sg.r ≠ 0 ∧
        (EC.ops C).isZero ((EC.ops C).sub ((EC.ops C).mul sg.s C.G)
          ((EC.ops C).mul (challengeInt (EC.ops C) prm msg xQ sg.r) Q)) = false ∧
        (EC.ops C).hasEvenY ((EC.ops C).sub ((EC.ops C).mul sg.s C.G)
          ((EC.ops C).mul (challengeInt (EC.ops C) prm msg xQ sg.r) Q)) = true ∧
        (EC.ops C).x ((EC.ops C).sub ((EC.ops C).mul sg.s C.G)
          ((EC.ops C).mul (challengeInt (EC.ops C) prm msg xQ sg.r) Q)) = sg.r :=
  Btc.E2E.verify_iff_cofactor_one K (liftAgree_of_cofactor_one K h34 hcof hΔ) h34 prm msg xQ sg

/-- T3 about the executed `batchVerify (Btc.EC.ops C)`, cofactor one -/
theorem batch_complete_cofactor_one {p : ℕ} [Fact p.Prime] {C : Curve} (K : CurveOk p C) (h34 : p % 4 = 3)
    (hcof : ∀ g : Pt p C.toCurveGroup, C.n • g = 0) (hΔ : (curveOf p C.toCurveGroup).toAffine.Δ ≠ 0)
    (prm : Params) (coef : ℕ → ℤ) (items : List Item) (hne : items ≠ [])
    (hall : ∀ it ∈ items, verify (EC.ops C) prm it.msg it.xQ it.sg = true) :
    batchVerify (EC.ops C) prm coef items = true :=
  Btc.E2E.batch_complete_cofactor_one K (liftAgree_of_cofactor_one K h34 hcof hΔ) h34 prm coef items hne hall

/-- T4 (one bad member) about the executed batch; `hbad` is the executed `verify_` answering False -/
theorem batch_one_bad_fails_cofactor_one {p : ℕ} [Fact p.Prime] {C : Curve} (K : CurveOk p C) (h34 : p % 4 = 3)
    (hcof : ∀ g : Pt p C.toCurveGroup, C.n • g = 0) (hΔ : (curveOf p C.toCurveGroup).toAffine.Δ ≠ 0)
    (prm : Params) (coef : ℕ → ℤ) (it0 it1 : Item) (rest : List Item) (j : ℕ) (bad : Item)
    (hj : (it0 :: it1 :: rest)[j]? = some bad)
    (hbad : verify (EC.ops C) prm bad.msg bad.xQ bad.sg = false)
    (hothers : ∀ k it', (it0 :: it1 :: rest)[k]? = some it' → k ≠ j →
      verify (EC.ops C) prm it'.msg it'.xQ it'.sg = true)
    (hcoef : ¬ C.n ∣ coefAt coef j) :
    batchVerify (EC.ops C) prm coef (it0 :: it1 :: rest) = false :=
  Btc.E2E.batch_one_bad_fails_cofactor_one K (liftAgree_of_cofactor_one K h34 hcof hΔ) h34 prm coef it0 it1 rest j bad hj hbad hothers hcoef

/-- T4 (any number of bad members) about the executed batch: at most one `aⱼ mod n` passes -/
theorem batch_at_most_one_coeff_cofactor_one {p : ℕ} [Fact p.Prime] {C : Curve} (K : CurveOk p C) (h34 : p % 4 = 3)
    (hcof : ∀ g : Pt p C.toCurveGroup, C.n • g = 0) (hΔ : (curveOf p C.toCurveGroup).toAffine.Δ ≠ 0)
    (prm : Params) (coef coef' : ℕ → ℤ) (it0 it1 : Item) (rest : List Item) (j : ℕ) (bad : Item) (hj1 : 1 ≤ j)
    (hj : (it0 :: it1 :: rest)[j]? = some bad)
    (hbad : verify (EC.ops C) prm bad.msg bad.xQ bad.sg = false)
    (hagree : ∀ i, i ≠ j → coef i = coef' i)
    (h1 : batchVerify (EC.ops C) prm coef (it0 :: it1 :: rest) = true)
    (h2 : batchVerify (EC.ops C) prm coef' (it0 :: it1 :: rest) = true) :
    C.n ∣ coef j - coef' j :=
  Btc.E2E.batch_at_most_one_coeff_cofactor_one K (liftAgree_of_cofactor_one K h34 hcof hΔ) h34 prm coef coef' it0 it1 rest j bad hj1 hj hbad hagree h1 h2

/-- T2, group-level reading, about the executed `verify (Btc.EC.ops C)` (cofactor one): BIP340's equation
    `s•G = R + e•P` in the group of points of the curve (Mathlib's `WeierstrassCurve.Affine.Point` over `ZMod p`;
    `absA` sends an integer pair to the point it denotes, `y = 0` to the point at infinity) -/
theorem verify_iff_bip340_equation_cofactor_one {p : ℕ} [Fact p.Prime] {C : Curve} (K : CurveOk p C) (h34 : p % 4 = 3)
    (hcof : ∀ g : Pt p C.toCurveGroup, C.n • g = 0) (hΔ : (curveOf p C.toCurveGroup).toAffine.Δ ≠ 0)
    (prm : Params) (msg : Bytes) (xQ : ℤ) (sg : Sig) :
    verify (EC.ops C) prm msg xQ sg = true ↔
      0 ≤ sg.r ∧ sg.r < C.p ∧ 0 ≤ sg.s ∧ sg.s < C.n ∧
      ∃ R P : Point, (EC.ops C).liftX sg.r = some R ∧ (EC.ops C).liftX xQ = some P ∧
        challengeInt (EC.ops C) prm msg xQ sg.r ≠ 0 ∧
        sg.s • absA p C.toCurveGroup C.G =
          absA p C.toCurveGroup R + challengeInt (EC.ops C) prm msg xQ sg.r • absA p C.toCurveGroup P :=
  Btc.E2E.verify_iff_equation_cofactor_one K (liftAgree_of_cofactor_one K h34 hcof hΔ) h34 prm msg xQ sg

/-- sign totality about the executed `sign (Btc.EC.ops C)` (no cofactor hypothesis): the closed form of the run for
    a key in `1..n-1` and an aux of the hash's size — it answers unless the nonce loop exhausts its budget or the
    challenge is `0 mod n` -/
theorem sign_total_ec {p : ℕ} [Fact p.Prime] {C : Curve} (K : CurveOk p C) (h34 : p % 4 = 3) (prm : Params)
    (fuel : ℕ) (msg : Bytes) (q : ℤ) (aux : Bytes) (hq : 0 < q ∧ q < C.n) (haux : aux.length = prm.hfLen) :
    sign (EC.ops C) prm fuel msg q aux =
      match nonceRaw (EC.ops C) prm fuel msg (evenScalar (EC.ops C) q) ((EC.ops C).x ((EC.ops C).mul q C.G)) aux with
      | .error e => .error e
      | .ok k0 =>
        if challengeInt (EC.ops C) prm msg ((EC.ops C).x ((EC.ops C).mul q C.G)) ((EC.ops C).x ((EC.ops C).mul k0 C.G)) = 0
        then .error .runtime
        else .ok ⟨(EC.ops C).x ((EC.ops C).mul k0 C.G),
          (evenScalar (EC.ops C) k0 + challengeInt (EC.ops C) prm msg ((EC.ops C).x ((EC.ops C).mul q C.G))
            ((EC.ops C).x ((EC.ops C).mul k0 C.G)) * evenScalar (EC.ops C) q) % C.n⟩ :=
  Btc.E2E.sign_eq_ec K h34 prm fuel msg q aux hq haux

/-- at most one failing member ⇒ the executed batch verdict is the conjunction of the executed single verdicts
    (cofactor one; coefficients as the code draws them) -/
theorem batch_eq_all_of_at_most_one_bad_cofactor_one {p : ℕ} [Fact p.Prime] {C : Curve} (K : CurveOk p C)
    (h34 : p % 4 = 3) (hcof : ∀ g : Pt p C.toCurveGroup, C.n • g = 0)
    (hΔ : (curveOf p C.toCurveGroup).toAffine.Δ ≠ 0) (prm : Params) (coef : ℕ → ℤ)
    (hd : Drawn (EC.ops C) coef) (items : List Item) (hne : items ≠ [])
    (hone : ∀ (j k : ℕ) (a b : Item), items[j]? = some a → items[k]? = some b →
      verify (EC.ops C) prm a.msg a.xQ a.sg = false → verify (EC.ops C) prm b.msg b.xQ b.sg = false → j = k) :
    batchVerify (EC.ops C) prm coef items = true ↔ ∀ it ∈ items, verify (EC.ops C) prm it.msg it.xQ it.sg = true :=
  Btc.E2E.batch_eq_all_of_at_most_one_bad_cofactor_one K (liftAgree_of_cofactor_one K h34 hcof hΔ) h34 prm coef hd items
    hne hone

/-- a failing member `j ≥ 1`: at most one value `1..n-1` of `aⱼ` lets the executed batch pass (cofactor one) -/
theorem batch_passing_coefficient_unique_cofactor_one {p : ℕ} [Fact p.Prime] {C : Curve} (K : CurveOk p C)
    (h34 : p % 4 = 3) (hcof : ∀ g : Pt p C.toCurveGroup, C.n • g = 0)
    (hΔ : (curveOf p C.toCurveGroup).toAffine.Δ ≠ 0) (prm : Params) (coef : ℕ → ℤ)
    (it0 it1 : Item) (rest : List Item) (j : ℕ) (bad : Item) (hj1 : 1 ≤ j)
    (hj : (it0 :: it1 :: rest)[j]? = some bad)
    (hbad : verify (EC.ops C) prm bad.msg bad.xQ bad.sg = false) (a a' : ℤ)
    (ha : 0 < a ∧ a < C.n) (ha' : 0 < a' ∧ a' < C.n)
    (h1 : batchVerify (EC.ops C) prm (Function.update coef j a) (it0 :: it1 :: rest) = true)
    (h2 : batchVerify (EC.ops C) prm (Function.update coef j a') (it0 :: it1 :: rest) = true) : a = a' :=
  Btc.E2E.batch_passing_coefficient_unique_cofactor_one K (liftAgree_of_cofactor_one K h34 hcof hΔ) h34 prm coef it0 it1
    rest j bad hj1 hj hbad a a' ha ha' h1 h2

/-! ### secp256k1 (generated constants): primality, `Δ ≠ 0` AND cofactor one proved — no hypothesis left -/


/-- T1 on secp256k1, unconditional -/
theorem sign_verifies_secp256k1 (prm : Params)
    (fuel : ℕ) (msg : Bytes) (q : ℤ) (aux : Bytes) (sg : Sig)
    (h : sign (EC.ops secp256k1) prm fuel msg q aux = .ok sg) :
    verify (EC.ops secp256k1) prm msg ((EC.ops secp256k1).x ((EC.ops secp256k1).mul q secp256k1.G)) sg = true :=
  Btc.E2E.sign_verifies_secp256k1 prm fuel msg q aux sg h

/-- T2 about the executed `verify (Btc.EC.ops secp256k1)` — no hypothesis -/
theorem verify_iff_secp256k1 (prm : Params)
    (msg : Bytes) (xQ : ℤ) (sg : Sig) :
    verify (EC.ops secp256k1) prm msg xQ sg = true ↔
      0 ≤ sg.r ∧ sg.r < secp256k1.p ∧ 0 ≤ sg.s ∧ sg.s < secp256k1.n ∧
      ∃ Q : Point, (EC.ops secp256k1).liftX xQ = some Q ∧
        challengeInt (EC.ops secp256k1) prm msg xQ sg.r ≠ 0 ∧
        (EC.ops secp256k1).isZero ((EC.ops secp256k1).sub ((EC.ops secp256k1).mul sg.s secp256k1.G)
          ((EC.ops secp256k1).mul (challengeInt (EC.ops secp256k1) prm msg xQ sg.r) Q)) = false ∧
        (EC.ops secp256k1).hasEvenY ((EC.ops secp256k1).sub ((EC.ops secp256k1).mul sg.s secp256k1.G)
          ((EC.ops secp256k1).mul (challengeInt (EC.ops secp256k1) prm msg xQ sg.r) Q)) = true ∧
        (EC.ops secp256k1).x ((EC.ops secp256k1).sub ((EC.ops secp256k1).mul sg.s secp256k1.G)
          ((EC.ops secp256k1).mul (challengeInt (EC.ops secp256k1) prm msg xQ sg.r) Q)) = sg.r :=
  @Btc.E2E.verify_iff_cofactor_one secp256k1_p ⟨secp256k1_p_prime⟩ secp256k1 secpOk Secp.liftAgree secp256k1_h34 prm msg xQ sg

/-- T3 about the executed `batchVerify (Btc.EC.ops secp256k1)` — no hypothesis -/
theorem batch_complete_secp256k1 (prm : Params)
    (coef : ℕ → ℤ) (items : List Item) (hne : items ≠ [])
    (hall : ∀ it ∈ items, verify (EC.ops secp256k1) prm it.msg it.xQ it.sg = true) :
    batchVerify (EC.ops secp256k1) prm coef items = true :=
  @Btc.E2E.batch_complete_cofactor_one secp256k1_p ⟨secp256k1_p_prime⟩ secp256k1 secpOk Secp.liftAgree secp256k1_h34 prm coef
    items hne hall

/-- T4 (one bad member) about the executed `batchVerify (Btc.EC.ops secp256k1)` — no hypothesis -/
theorem batch_one_bad_fails_secp256k1 (prm : Params)
    (coef : ℕ → ℤ) (it0 it1 : Item) (rest : List Item) (j : ℕ) (bad : Item)
    (hj : (it0 :: it1 :: rest)[j]? = some bad)
    (hbad : verify (EC.ops secp256k1) prm bad.msg bad.xQ bad.sg = false)
    (hothers : ∀ k it', (it0 :: it1 :: rest)[k]? = some it' → k ≠ j →
      verify (EC.ops secp256k1) prm it'.msg it'.xQ it'.sg = true)
    (hcoef : ¬ secp256k1.n ∣ coefAt coef j) :
    batchVerify (EC.ops secp256k1) prm coef (it0 :: it1 :: rest) = false :=
  @Btc.E2E.batch_one_bad_fails_cofactor_one secp256k1_p ⟨secp256k1_p_prime⟩ secp256k1 secpOk Secp.liftAgree secp256k1_h34 prm
    coef it0 it1 rest j bad hj hbad hothers hcoef

/-- T4 (any number of bad members) about the executed `batchVerify (Btc.EC.ops secp256k1)` — no hypothesis -/
theorem batch_at_most_one_coeff_secp256k1 (prm : Params)
    (coef coef' : ℕ → ℤ) (it0 it1 : Item) (rest : List Item) (j : ℕ) (bad : Item) (hj1 : 1 ≤ j)
    (hj : (it0 :: it1 :: rest)[j]? = some bad)
    (hbad : verify (EC.ops secp256k1) prm bad.msg bad.xQ bad.sg = false)
    (hagree : ∀ i, i ≠ j → coef i = coef' i)
    (h1 : batchVerify (EC.ops secp256k1) prm coef (it0 :: it1 :: rest) = true)
    (h2 : batchVerify (EC.ops secp256k1) prm coef' (it0 :: it1 :: rest) = true) :
    secp256k1.n ∣ coef j - coef' j :=
  @Btc.E2E.batch_at_most_one_coeff_cofactor_one secp256k1_p ⟨secp256k1_p_prime⟩ secp256k1 secpOk Secp.liftAgree secp256k1_h34
    prm coef coef' it0 it1 rest j bad hj1 hj hbad hagree h1 h2

/-- T2, group-level reading, about the executed `verify (Btc.EC.ops secp256k1)` — no hypothesis: BIP340's equation
    `s•G = R + e•P` in the group of points of secp256k1 (`secpPoint`: the point of Mathlib's `E(F_p)` an integer pair
    denotes), `R = lift_x(r)`, `P = lift_x(x_Q)` -/
theorem verify_iff_bip340_equation_secp256k1 (prm : Params) (msg : Bytes) (xQ : ℤ) (sg : Sig) :
    verify (EC.ops secp256k1) prm msg xQ sg = true ↔
      0 ≤ sg.r ∧ sg.r < secp256k1.p ∧ 0 ≤ sg.s ∧ sg.s < secp256k1.n ∧
      ∃ R P : Point, (EC.ops secp256k1).liftX sg.r = some R ∧ (EC.ops secp256k1).liftX xQ = some P ∧
        challengeInt (EC.ops secp256k1) prm msg xQ sg.r ≠ 0 ∧
        sg.s • secpPoint secp256k1.G =
          secpPoint R + challengeInt (EC.ops secp256k1) prm msg xQ sg.r • secpPoint P :=
  Btc.Schnorr.Secp.verify_iff_equation prm msg xQ sg

/-- **sign totality on secp256k1** — no hypothesis about the curve: every key in `1..n-1`, every message, every aux
    of the hash's size: `sign_` answers with `(x(k₀•G), k + e·d mod n)` unless the nonce loop finds no candidate in
    `1..n-1` within its budget (`.error .fuel`) or the challenge is `0 mod n` (`.error .runtime`) — both events are
    properties of the hash function alone -/
theorem sign_total_secp256k1 (prm : Params) (fuel : ℕ) (msg : Bytes) (q : ℤ) (aux : Bytes)
    (hq : 0 < q ∧ q < secp256k1.n) (haux : aux.length = prm.hfLen) :
    sign (EC.ops secp256k1) prm fuel msg q aux =
      match nonceRaw (EC.ops secp256k1) prm fuel msg (evenScalar (EC.ops secp256k1) q)
          ((EC.ops secp256k1).x ((EC.ops secp256k1).mul q secp256k1.G)) aux with
      | .error e => .error e
      | .ok k0 =>
        if challengeInt (EC.ops secp256k1) prm msg ((EC.ops secp256k1).x ((EC.ops secp256k1).mul q secp256k1.G))
            ((EC.ops secp256k1).x ((EC.ops secp256k1).mul k0 secp256k1.G)) = 0
        then .error .runtime
        else .ok ⟨(EC.ops secp256k1).x ((EC.ops secp256k1).mul k0 secp256k1.G),
          (evenScalar (EC.ops secp256k1) k0 + challengeInt (EC.ops secp256k1) prm msg
            ((EC.ops secp256k1).x ((EC.ops secp256k1).mul q secp256k1.G))
            ((EC.ops secp256k1).x ((EC.ops secp256k1).mul k0 secp256k1.G)) * evenScalar (EC.ops secp256k1) q)
            % secp256k1.n⟩ :=
  @Btc.E2E.sign_eq_ec secp256k1_p ⟨secp256k1_p_prime⟩ secp256k1 secpOk secp256k1_h34 prm fuel msg q aux hq haux

/-- at most one failing member ⇒ `batchVerify (Btc.EC.ops secp256k1)` IS the conjunction of the single verdicts, for
    every draw of the coefficients, size, order, repetition — no hypothesis -/
theorem batch_eq_all_of_at_most_one_bad_secp256k1 (prm : Params) (coef : ℕ → ℤ)
    (hd : Drawn (EC.ops secp256k1) coef) (items : List Item) (hne : items ≠ [])
    (hone : ∀ (j k : ℕ) (a b : Item), items[j]? = some a → items[k]? = some b →
      verify (EC.ops secp256k1) prm a.msg a.xQ a.sg = false → verify (EC.ops secp256k1) prm b.msg b.xQ b.sg = false →
      j = k) :
    batchVerify (EC.ops secp256k1) prm coef items = true ↔
      ∀ it ∈ items, verify (EC.ops secp256k1) prm it.msg it.xQ it.sg = true :=
  @Btc.E2E.batch_eq_all_of_at_most_one_bad_cofactor_one secp256k1_p ⟨secp256k1_p_prime⟩ secp256k1 secpOk Secp.liftAgree
    secp256k1_h34 prm coef hd items hne hone

/-- a failing member `j ≥ 1`: at most one of the `n − 1` values of `aⱼ` lets `batchVerify (Btc.EC.ops secp256k1)` pass
    — no hypothesis -/
theorem batch_passing_coefficient_unique_secp256k1 (prm : Params) (coef : ℕ → ℤ)
    (it0 it1 : Item) (rest : List Item) (j : ℕ) (bad : Item) (hj1 : 1 ≤ j)
    (hj : (it0 :: it1 :: rest)[j]? = some bad)
    (hbad : verify (EC.ops secp256k1) prm bad.msg bad.xQ bad.sg = false) (a a' : ℤ)
    (ha : 0 < a ∧ a < secp256k1.n) (ha' : 0 < a' ∧ a' < secp256k1.n)
    (h1 : batchVerify (EC.ops secp256k1) prm (Function.update coef j a) (it0 :: it1 :: rest) = true)
    (h2 : batchVerify (EC.ops secp256k1) prm (Function.update coef j a') (it0 :: it1 :: rest) = true) : a = a' :=
  @Btc.E2E.batch_passing_coefficient_unique_cofactor_one secp256k1_p ⟨secp256k1_p_prime⟩ secp256k1 secpOk Secp.liftAgree
    secp256k1_h34 prm coef it0 it1 rest j bad hj1 hj hbad a a' ha ha' h1 h2

/-- the sizes the DRIVER computes for secp256k1 (`Params.ofCurve`: from the bit lengths of `p` and `n`, as btclib's
    `p_size`, `n_size`, `nlen`) are the generated sizes `Sig.parse` reads -/
theorem secp256k1_sizes (hfLen : ℕ) (TH : Bytes → Bytes → Bytes) :
    (Params.ofCurve secp256k1 hfLen TH).pSize = Gen.Schnorr.PARSE_P_SIZE ∧
    (Params.ofCurve secp256k1 hfLen TH).nSize = Gen.Schnorr.PARSE_N_SIZE ∧
    (Params.ofCurve secp256k1 hfLen TH).nlen = 256 := by
  have h : (Py.natBitLength secp256k1.p.toNat + 7) / 8 = Gen.Schnorr.PARSE_P_SIZE ∧
      (Py.natBitLength secp256k1.n.toNat + 7) / 8 = Gen.Schnorr.PARSE_N_SIZE ∧
      Py.natBitLength secp256k1.n.toNat = 256 := by decide +kernel
  exact h

/-- T5 at the driver's own parameters for secp256k1: the 64-byte codec round-trips both ways -/
theorem codec_secp256k1 (hfLen : ℕ) (TH : Bytes → Bytes → Bytes) (sg : Sig) (b : Bytes) :
    (serialize (EC.ops secp256k1) (Params.ofCurve secp256k1 hfLen TH) sg = .ok b →
      parse (EC.ops secp256k1) (Params.ofCurve secp256k1 hfLen TH) b = .ok sg) ∧
    (parse (EC.ops secp256k1) (Params.ofCurve secp256k1 hfLen TH) b = .ok sg →
      serialize (EC.ops secp256k1) (Params.ofCurve secp256k1 hfLen TH) sg = .ok b ∧ b.length = 64 ∧
      0 ≤ sg.r ∧ sg.r < secp256k1.p ∧ 0 ≤ sg.s ∧ sg.s < secp256k1.n) := by
  obtain ⟨h1, h2, _⟩ := secp256k1_sizes hfLen TH
  have hsz : (Params.ofCurve secp256k1 hfLen TH).pSize + (Params.ofCurve secp256k1 hfLen TH).nSize
      = Gen.Schnorr.REQUIRED_LENGTH := by rw [h1, h2]; exact parse_sizes
  have hp : (EC.ops secp256k1).p ≤ 256 ^ (Params.ofCurve secp256k1 hfLen TH).pSize := by
    rw [h1]; exact secp_sizes.1
  have hn : (EC.ops secp256k1).n ≤ 256 ^ (Params.ofCurve secp256k1 hfLen TH).nSize := by
    rw [h2]; exact secp_sizes.2.1
  exact ⟨parse_serialize _ hsz hp hn sg b, serialize_parse _ hsz b sg⟩

/-- the parameters of the run example below: secp256k1's own sizes, a small "tagged hash" -/
def runPrm : Params :=
  Params.ofCurve secp256k1 32 (fun tag m => List.replicate 31 0 ++ [UInt8.ofNat (tag.length + m.length)])

-- non-vacuity: an actual signing run of btclib's arithmetic ON secp256k1 (kernel-evaluated, 256-bit ladder), and the
-- verdict T1 gives on it; on `y² = x³ + 7` over `F₄₃` (31 points) `CurveOk` is PROVED: runs, and a two-member batch
theorem secp256k1_run : sign (EC.ops secp256k1) runPrm 4 [1, 2] 3 (List.replicate 32 7) =
    .ok ⟨109111382237769790097646325753800985432696951592160583206768965440742916720568, 170⟩ := by decide +kernel
example : verify (EC.ops secp256k1) runPrm [1, 2]
    ((EC.ops secp256k1).x ((EC.ops secp256k1).mul 3 secp256k1.G))
    ⟨109111382237769790097646325753800985432696951592160583206768965440742916720568, 170⟩ = true :=
  sign_verifies_secp256k1 runPrm 4 [1, 2] 3 (List.replicate 32 7) _ secp256k1_run
example : sign (EC.ops toyC) toyPrm 5 [1, 2] 3 [0] = .ok ⟨2, 19⟩ := toy_schnorr_sign1
example : verify (EC.ops toyC) toyPrm [1, 2] 35 ⟨2, 19⟩ = true := toy_schnorr_verifies
-- the `_cofactor_one` forms fully discharged on the toy curve (`hcof` PROVED there): T3, T4, T2 about the raw `Btc.EC.ops toyC`
example (coef : ℕ → ℤ) :
    batchVerify (EC.ops toyC) toyPrm coef [⟨[1, 2], 35, ⟨2, 19⟩⟩, ⟨[9], 21, ⟨29, 5⟩⟩] = true := toy_batch_raw coef
example (coef : ℕ → ℤ) (h : 0 < coef 1 ∧ coef 1 < 31) :
    batchVerify (EC.ops toyC) toyPrm coef [⟨[1, 2], 35, ⟨2, 19⟩⟩, ⟨[9], 21, ⟨29, 6⟩⟩] = false := toy_batch_bad_raw coef h
-- the equation on the toy curve, in Mathlib's point group, read off `verify_iff_bip340_equation_cofactor_one`
example : ∃ R P : Point, (EC.ops toyC).liftX 2 = some R ∧ (EC.ops toyC).liftX 35 = some P ∧
    (19 : ℤ) • absA 43 toyC.toCurveGroup toyC.G =
      absA 43 toyC.toCurveGroup R + challengeInt (EC.ops toyC) toyPrm [1, 2] 35 2 • absA 43 toyC.toCurveGroup P := by
  obtain ⟨_, _, _, _, R, P, hR, hP, _, h⟩ :=
    (verify_iff_bip340_equation_cofactor_one toyOk (by decide) Btc.C01.Toy.toy_hcof Btc.C01.Toy.toy_delta toyPrm [1, 2] 35
      ⟨2, 19⟩).1 toy_schnorr_verifies
  exact ⟨R, P, hR, hP, h⟩
-- `sign_total_secp256k1` applies to the run above: key 3 in range, aux of the hash's size
example : (0 : ℤ) < 3 ∧ (3 : ℤ) < secp256k1.n ∧ (List.replicate 32 (7 : UInt8)).length = runPrm.hfLen := by decide +kernel

end Props.C03
