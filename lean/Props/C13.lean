import Proofs.C13.Gf256Field
import Proofs.C13.Shamir
import Proofs.C13.Feistel
import Proofs.C13.Rs1024
import Proofs.C13.Bits
import Proofs.C13.Codec
import Proofs.C13.Dispatch
import Proofs.C13.TwoLevel
import Proofs.C13.Entry
import Proofs.C13.Lengths
import Proofs.C13.FeistelWrong
import Proofs.C13.ElectrumOld
import Proofs.C13.ElectrumVersion
import Proofs.C13.ElectrumSearch
/-!
# C13 — mnemonics and seeds: entropy round-trips, checksums bind, thresholds recover (DESIGN.md §3 C13)

Property theorems only.  The definitions are those of `Model/C13/*.lean` (the same ones the driver runs against
btclib), stated over the GENERATED tables and constants of `Generated/Slip39.lean`, `Generated/Mnemonic.lean`.
Hashes / PRFs / round functions are parameters.
-/
namespace Props.C13
open Btc Btc.C13

/-! ## T2 — GF(256) -/

/-- the generated `_EXP` / `_LOG` tables are mutually inverse: `_LOG[_EXP[i]] = i` for the 255 exponents,
    `_EXP[_LOG[a]] = a` for the 255 non-zero bytes (and the entries are non-zero bytes / exponents) -/
theorem gf256_tables_mutually_inverse :
    (∀ i, i < 255 → expT i ≠ 0 ∧ expT i < 256 ∧ logT (expT i) = i) ∧
    (∀ a, a < 256 → a ≠ 0 → logT a < 255 ∧ expT (logT a) = a) :=
  ⟨fun _ h => exp_spec h, fun _ h h0 => log_spec h h0⟩

/-- `slip39._mul` (table lookup) is the carry-less product modulo 0x11B, on all 65 536 pairs -/
theorem gf256_mul_is_carryless (a b : Nat) (ha : a < 256) (hb : b < 256) : tmul a b = clmul a b :=
  tmul_eq_clmul ha hb

example : tmul 87 131 = 193 ∧ clmul 87 131 = 193 := by decide

/-- field laws of `_mul` on bytes, with XOR as addition -/
theorem gf256_field_laws (a b c : Nat) (ha : a < 256) (hb : b < 256) (hc : c < 256) :
    tmul a b = tmul b a ∧ tmul (tmul a b) c = tmul a (tmul b c) ∧
    tmul a (b ^^^ c) = tmul a b ^^^ tmul a c ∧ tmul 1 a = a ∧ tmul a b < 256 ∧
    (a ≠ 0 → tmul a (tdiv 1 a) = 1) ∧ (a ≠ 0 → b ≠ 0 → tdiv a b = tmul a (tdiv 1 b)) :=
  ⟨tmul_comm a b, tmul_assoc ha hb hc, tmul_xor ha hb hc, tmul_one_left ha, tmul_lt ha hb,
   fun h => tmul_tdiv_one ha h, fun h h' => tdiv_eq_tmul ha h hb h'⟩

/-- bytes with XOR, `_mul`, `_div` are a field (`instance : Field GF256`), and the operation record the driver
    runs the Shamir model with computes in it (`_div` only ever divides non-zero by non-zero) -/
theorem gf256_ops_lawful : FLawful gf256Ops := gf256Ops_lawful

/-! ## T3 — Shamir -/

/-- over ANY field: any `threshold` of the shares `_split_secret` produces, in any order, interpolate to the
    secret at x = 255 and to the digest share at x = 254 -/
theorem shamir_any_threshold_subset_interpolates {F : Type} [Field F] [DecidableEq F] {o : FOps F}
    (L : FLawful o) {t n : Nat} (h2 : 2 ≤ t) (hx : XInj o)
    {secret ds : List F} {rnd shares : List (List F)} (hlen : rnd.length = t - 2)
    (hr : ∀ r ∈ rnd, r.length = secret.length) (hds : ds.length = secret.length)
    (h : splitSecret o t n secret rnd ds = .ok shares)
    (sel : List Nat) (hnd : sel.Nodup) (hsl : sel.length = t) (hsn : ∀ i ∈ sel, i < n) :
    interpolate o (sel.map fun i => (o.x i, shares.getD i [])) (o.x Gen.Slip39.SECRET_X) = secret ∧
    interpolate o (sel.map fun i => (o.x i, shares.getD i [])) (o.x Gen.Slip39.DIGEST_X) = ds :=
  splitSecret_recovers L h2 hx hlen hr hds h sel hnd hsl hsn

/-- … hence `_recover_secret` returns the secret (the digest check passes), over any field and any digest function -/
theorem shamir_recover_split {F : Type} [Field F] [DecidableEq F] {o : FOps F}
    (L : FLawful o) (digest : List F → List F → List F) {t n : Nat} (h2 : 2 ≤ t) (hx : XInj o)
    {secret ds rp : List F} {rnd shares : List (List F)} (hlen : rnd.length = t - 2)
    (hr : ∀ r ∈ rnd, r.length = secret.length) (hds : ds.length = secret.length)
    (hdig : ds = digest rp secret ++ rp) (hdl : (digest rp secret).length = Gen.Slip39.DIGEST_BYTES)
    (h : splitSecret o t n secret rnd ds = .ok shares)
    (sel : List Nat) (hnd : sel.Nodup) (hsl : sel.length = t) (hsn : ∀ i ∈ sel, i < n) :
    recoverSecret o digest t (sel.map fun i => (o.x i, shares.getD i [])) = .ok secret :=
  recoverSecret_splitSecret L digest h2 hx hlen hr hds hdig hdl h sel hnd hsl hsn

/-- the same for btclib's own arithmetic: the generated tables, XOR, `_mul`, `_div` -/
theorem slip39_recover_split_gf256 (digest : List GF256 → List GF256 → List GF256) {t n : Nat} (h2 : 2 ≤ t)
    {secret ds rp : List GF256} {rnd shares : List (List GF256)} (hlen : rnd.length = t - 2)
    (hr : ∀ r ∈ rnd, r.length = secret.length) (hds : ds.length = secret.length)
    (hdig : ds = digest rp secret ++ rp) (hdl : (digest rp secret).length = Gen.Slip39.DIGEST_BYTES)
    (h : splitSecret gf256Ops t n secret rnd ds = .ok shares)
    (sel : List Nat) (hnd : sel.Nodup) (hsl : sel.length = t) (hsn : ∀ i ∈ sel, i < n) :
    recoverSecret gf256Ops digest t (sel.map fun i => (gf256Ops.x i, shares.getD i [])) = .ok secret :=
  recoverSecret_splitSecret gf256Ops_lawful digest h2 gf256Ops_xinj hlen hr hds hdig hdl h sel hnd hsl hsn

example : ∃ shares, splitSecret gf256Ops 3 5 ([5, 7, 1, 2, 3].map GF256.ofNat) [[1, 1, 1, 1, 1].map GF256.ofNat]
    (([1, 2, 3, 4] ++ [9]).map GF256.ofNat) = .ok shares :=
  splitSecret_isOk gf256Ops (by decide) (by decide) (by decide) _ _ _

/-- the `threshold == 1` branch: every share is the secret -/
theorem shamir_threshold_one {α : Type} [DecidableEq α] (o : FOps α) (digest : List α → List α → List α) {n : Nat}
    {secret ds : List α} {rnd shares : List (List α)}
    (h : splitSecret o 1 n secret rnd ds = .ok shares) (i : Nat) (hi : i < n) :
    recoverSecret o digest 1 [(o.x i, shares.getD i [])] = .ok secret :=
  recoverSecret_threshold_one o digest h i hi

/-- the group logic refuses a group that does not hold EXACTLY its member threshold of shares (fewer, or more) -/
theorem slip39_group_wrong_count_refused {α : Type} [DecidableEq α] (o : FOps α)
    (digest : List α → List α → List α) (shares : List (Share α)) (g t : Nat)
    (ht : ((shares.filter (·.groupIndex = g)).map (·.memberThreshold)).eraseDups = [t])
    (hn : (shares.filter (·.groupIndex = g)).length ≠ t) :
    ∃ e, recoverGroup o digest shares g = .error e := by
  unfold recoverGroup
  simp only [ht]
  split_ifs
  · exact ⟨_, rfl⟩
  · exact ⟨_, rfl⟩

/-- … and a set of shares whose number of groups differs from the group threshold -/
theorem slip39_group_count_refused {α : Type} [DecidableEq α] (o : FOps α)
    (digest : List α → List α → List α) (first : Share α) (rest : List (Share α)) (gs : List (α × List α))
    (hg : grouped o digest (first :: rest) = .ok gs) (hn : gs.length ≠ first.groupThreshold) :
    ∃ e, recoverEms o digest (first :: rest) = .error e := by
  unfold recoverEms
  simp only [hg]
  split_ifs
  · exact ⟨_, rfl⟩
  · exact ⟨_, rfl⟩

/-! ## T4 — Feistel -/

/-- `decrypt (encrypt m) = m` for ANY round function: any passphrase, iteration exponent, identifier, flag -/
theorem feistel_decrypt_encrypt (F : Nat → Bytes → Bytes) (hF : ∀ i r, (F i r).length = r.length)
    (m : Bytes) (hm : m.length % 2 = 0) :
    ∃ c, feistel F m false = some c ∧ c.length = m.length ∧ feistel F c true = some m :=
  Btc.C13.feistel_decrypt_encrypt F hF m hm

/-- … and `encrypt (decrypt c) = c` -/
theorem feistel_encrypt_decrypt (F : Nat → Bytes → Bytes) (hF : ∀ i r, (F i r).length = r.length)
    (c : Bytes) (hc : c.length % 2 = 0) :
    ∃ m, feistel F c true = some m ∧ m.length = c.length ∧ feistel F m false = some c :=
  Btc.C13.feistel_encrypt_decrypt F hF c hc

/-- decrypting under a WRONG round function (passphrase) never errors: it yields some payload of the same length -/
theorem feistel_never_errors (F : Nat → Bytes → Bytes) (hF : ∀ i r, (F i r).length = r.length)
    (m : Bytes) (hm : m.length % 2 = 0) (dec : Bool) : ∃ r, feistel F m dec = some r ∧ r.length = m.length :=
  feistel_total F hF m hm dec

example : (fun (i : Nat) (r : Bytes) => r.map (· + UInt8.ofNat i)) 3 [1, 2] = [4, 5] := by decide

/-- `_feistel`, either direction, is INJECTIVE on even-length payloads (a bijection of the payloads of each length):
    two different encrypted secrets never decrypt to the same master secret, whatever the passphrase -/
theorem feistel_injective (F : Nat → Bytes → Bytes) (hF : ∀ i r, (F i r).length = r.length)
    (a b : Bytes) (ha : a.length % 2 = 0) (hb : b.length % 2 = 0) (dec : Bool)
    (h : feistel F a dec = feistel F b dec) : a = b :=
  Btc.C13.feistel_injective F hF a b ha hb dec h

/-- WRONG passphrase: decrypting under another round function `F'` yields some secret of the same length, and that
    secret is the right one exactly when `F'` encrypts the right one to the very same ciphertext.  (That PBKDF2 under
    two different passphrases does not do so is the cryptographic assumption; tested by the oracle `slip39.set`.) -/
theorem feistel_wrong_passphrase (F F' : Nat → Bytes → Bytes) (hF : ∀ i r, (F i r).length = r.length)
    (hF' : ∀ i r, (F' i r).length = r.length) (m : Bytes) (hm : m.length % 2 = 0) :
    ∃ c m', feistel F m false = some c ∧ feistel F' c true = some m' ∧ m'.length = m.length ∧
      (m' = m ↔ feistel F' m false = some c) :=
  feistel_wrong_key F F' hF hF' m hm

/-- two round functions that decrypt the same ciphertext to different secrets -/
example : feistel (fun i r => r.map (· + UInt8.ofNat i + 1)) [1, 2, 3, 4] false = some [2, 22, 2, 23] ∧
    feistel (fun _ r => r) [2, 22, 2, 23] true ≠ some [1, 2, 3, 4] := by decide

/-! ## T5 — share codec and RS1024 -/

/-- `share_from_mnemonic (mnemonic_from_share s) = s` at word-index level, for every valid share: all field
    values, all value lengths (even, ≥ 16 bytes), leading zero bytes, either flag -/
theorem slip39_share_codec_roundtrip (s : ByteShare) (hv : shareValid s = true) :
    ∃ idx, shareIndexes s = some idx ∧ shareFromIndexes idx = .ok s :=
  codec_roundtrip (fun idx ext _ => rsVerify_rsChecksum_any idx ext) s hv

/-- the padding rule never refuses a valid length: for an even byte count the padding is at most 8 bits -/
theorem slip39_padding_le_eight (n : Nat) (hn : n % 2 = 0) : ((8 * n + 9) / 10 * 10) % 16 ≤ 8 :=
  padding_le_eight n hn

/-- the checksum `_rs1024_checksum` appends always verifies, for both customization strings -/
theorem rs1024_checksum_verifies (idx : List Nat) (ext : Bool) : rsVerify (idx ++ rsChecksum idx ext) ext = true :=
  rsVerify_rsChecksum_any idx ext

/-- ANY single-word substitution, at any position of a sentence of any length, is detected — for both
    customization strings -/
theorem rs1024_detects_single_substitution (p q : List Nat) (a b : Nat) (ha : a < 1024) (hb : b < 1024)
    (hab : a ≠ b) (ext : Bool) (h : rsVerify (p ++ a :: q) ext = true) : rsVerify (p ++ b :: q) ext = false :=
  rsVerify_single_substitution p q a b ha hb hab ext h

/-- a sentence valid as "extendable" is invalid as "non-extendable" and conversely: the two are different codes -/
theorem rs1024_customization_separates (idx : List Nat) (ext : Bool) (h : rsVerify idx ext = true) :
    rsVerify idx (!ext) = false :=
  rsVerify_customization_separates idx ext h

/-! ## T1 — BIP39 / Electrum at word-index level -/

/-- entropy → index list → entropy, for word lists of `2^k` words, leading zeros preserved (BIP39: k = 11,
    SLIP39: k = 10) -/
theorem indexes_roundtrip (k : Nat) (hk : 1 ≤ k) (bits : Bits) (m : Nat) (hm : 1 ≤ m) (hl : bits.length = k * m) :
    bitsFromIndexes (indexesFromBits bits (2 ^ k)) (2 ^ k) = some bits :=
  bitsFromIndexes_indexesFromBits k hk bits m hm hl

/-- index list → entropy → index list -/
theorem bits_roundtrip (k : Nat) (hk : 1 ≤ k) (idx : List Nat) (hne : idx ≠ []) (hlt : ∀ i ∈ idx, i < 2 ^ k) :
    ∃ bits, bitsFromIndexes idx (2 ^ k) = some bits ∧ bits.length = k * idx.length ∧
      indexesFromBits bits (2 ^ k) = idx :=
  indexesFromBits_bitsFromIndexes k hk idx hne hlt

/-- BIP39: for every entropy size the code accepts — `entropy._bits`: 128..256 bits in steps of 32 and ALSO 512 bits
    (48 words; beyond the BIP's table, accepted by btclib) — leading zeros included, the sentence has
    ENT/32·3 words, all below 2048, and decodes back to the entropy — for any 32-byte hash -/
theorem bip39_roundtrip_any_hash (H : Bytes → Bytes) (hH : ∀ b, (H b).length = 32) (e : Bits)
    (hL : e.length ∈ Gen.Mnemonic.ENTROPY_BITS) :
    ∃ idx, bip39Indexes H e = some idx ∧ idx.length = e.length / 32 * 3 ∧ (∀ i ∈ idx, i < 2048) ∧
      bip39Entropy H idx = some e :=
  bip39_roundtrip_all H hH e hL

/-- the same with NO hypothesis, for the SHA-256 the driver runs (`sha256_length` discharges the length) -/
theorem bip39_roundtrip (e : Bits) (hL : e.length ∈ Gen.Mnemonic.ENTROPY_BITS) :
    ∃ idx, bip39Indexes sha256 e = some idx ∧ idx.length = e.length / 32 * 3 ∧ (∀ i ∈ idx, i < 2048) ∧
      bip39Entropy sha256 idx = some e :=
  bip39_roundtrip_all sha256 sha256_length e hL

/-- BIP39, with no side condition on the sentence: it is accepted (decoding to `e`) exactly when it has 12, 15, 18,
    21, 24 (or 48) words and is the encoding of `e` — i.e. its last ENT/32 bits equal the hash prefix.  Every other
    length, any index ≥ 2048, any wrong checksum bit is refused. -/
theorem bip39_accepted_iff_encoding_any_hash (H : Bytes → Bytes) (hH : ∀ b, (H b).length = 32) (idx : List Nat)
    (e : Bits) :
    bip39Entropy H idx = some e ↔
      idx.length ∈ [12, 15, 18, 21, 24, 48] ∧ bip39Indexes H e = some idx ∧ e.length = idx.length / 3 * 32 :=
  bip39Entropy_eq_some_iff_full H hH idx e

/-- the same with NO hypothesis at all, for the SHA-256 the driver runs -/
theorem bip39_accepted_iff_encoding (idx : List Nat) (e : Bits) :
    bip39Entropy sha256 idx = some e ↔
      idx.length ∈ [12, 15, 18, 21, 24, 48] ∧ bip39Indexes sha256 e = some idx ∧ e.length = idx.length / 3 * 32 :=
  bip39Entropy_eq_some_iff_full sha256 sha256_length idx e

/-- BIP39 checksum BINDING, exactly what holds (any 32-byte hash): the entropy determines the sentence — two accepted
    sentences that decode to the same entropy are the same sentence.  Hence ONE CHANGED WORD (or any other change) is
    either refused or read as a DIFFERENT entropy, never silently as the same one.  (It is NOT always refused: a change
    that alters the entropy bits passes when the new checksum bits happen to match — 1 in 16 for twelve words; that is
    `bip39_accepted_iff_encoding`.)  A change that leaves the entropy bits alone — confined to the checksum bits of the
    last word — is ALWAYS refused. -/
theorem bip39_checksum_binds_any_hash (H : Bytes → Bytes) (hH : ∀ b, (H b).length = 32) :
    (∀ idx idx' e, bip39Entropy H idx = some e → bip39Entropy H idx' = some e → idx = idx') ∧
    (∀ p q a b e e', a ≠ b → bip39Entropy H (p ++ a :: q) = some e → bip39Entropy H (p ++ b :: q) = some e' → e ≠ e') ∧
    (∀ idx idx' cse cse', bitsFromIndexes idx Gen.Mnemonic.BIP39_BASE = some cse →
      bitsFromIndexes idx' Gen.Mnemonic.BIP39_BASE = some cse' → cse.length = cse'.length →
      cse.take (cse.length * Gen.Mnemonic.CS_NUM / Gen.Mnemonic.CS_DEN) =
        cse'.take (cse'.length * Gen.Mnemonic.CS_NUM / Gen.Mnemonic.CS_DEN) →
      idx ≠ idx' → bip39Entropy H idx = none ∨ bip39Entropy H idx' = none) := by
  have bind : ∀ idx idx' e, bip39Entropy H idx = some e → bip39Entropy H idx' = some e → idx = idx' := by
    intro idx idx' e h h'
    have a := ((bip39Entropy_eq_some_iff_full H hH idx e).mp h).2.1
    have b := ((bip39Entropy_eq_some_iff_full H hH idx' e).mp h').2.1
    rw [a] at b
    exact Option.some.inj b
  refine ⟨bind, ?_, ?_⟩
  · intro p q a b e e' hab h h' hee
    subst hee
    have := bind _ _ _ h h'
    have := List.append_cancel_left this
    simp at this
    exact hab this
  · intro idx idx' cse cse' hc hc' hl ht hne
    cases h : bip39Entropy H idx with
    | none => exact Or.inl rfl
    | some e =>
      cases h' : bip39Entropy H idx' with
      | none => exact Or.inr rfl
      | some e' =>
        exfalso
        apply hne
        have he : e = e' := by
          simp only [bip39Entropy, hc] at h
          simp only [bip39Entropy, hc', ← ht] at h'
          cases hk : entropyChecksum H (cse.take (cse.length * Gen.Mnemonic.CS_NUM / Gen.Mnemonic.CS_DEN)) with
          | none => simp [hk] at h
          | some pr =>
            simp only [hk] at h h'
            split at h
            · cases h
            · split at h'
              · cases h'
              · cases h; cases h'; rfl
        subst he
        exact bind _ _ _ h h'

theorem bip39_checksum_binds :
    (∀ idx idx' e, bip39Entropy sha256 idx = some e → bip39Entropy sha256 idx' = some e → idx = idx') ∧
    (∀ p q a b e e', a ≠ b → bip39Entropy sha256 (p ++ a :: q) = some e → bip39Entropy sha256 (p ++ b :: q) = some e' → e ≠ e') :=
  ⟨(bip39_checksum_binds_any_hash sha256 sha256_length).1, (bip39_checksum_binds_any_hash sha256 sha256_length).2.1⟩

/-- non-vacuity: the hypothesis "accepted" is satisfiable for the SHA-256 the driver runs (128 zero bits) -/
example : ∃ idx, bip39Entropy sha256 idx = some (List.replicate 128 false) := by
  obtain ⟨idx, _, _, _, h⟩ := bip39_roundtrip (List.replicate 128 false) (by simp [Gen.Mnemonic.ENTROPY_BITS])
  exact ⟨idx, h⟩

/-- Electrum: the self-check of `_search_mnemonic` (`candidate == int(entropy_from(mnemonic_of(candidate)))`) holds
    for every candidate and every word-list length ≥ 2 (2048, and the 1626 of Electrum's Portuguese) -/
theorem electrum_selfcheck (base v : Nat) (hb : 2 ≤ base) :
    ∃ bits, electrumBits (electrumIndexes v base) base = some bits ∧ ofBits bits = v :=
  electrum_roundtrip base v hb

/-- Electrum's version rule: an old-style seed is "old" whatever its HMAC says; otherwise the first matching
    prefix in `_MNEMONIC_VERSIONS` order wins, "2fa" counting only at 12 words or at least 20 -/
theorem electrum_version_rule (digits rest : List Nat) (n : Nat) :
    mnemonicType true digits n = "old" ∧
    mnemonicType false (0 :: 1 :: rest) n = "standard" ∧
    mnemonicType false (1 :: 0 :: 0 :: rest) n = "segwit" ∧
    ((n = 12 ∨ 20 ≤ n) → mnemonicType false (1 :: 0 :: 1 :: rest) n = "2fa") ∧
    (¬ (n = 12 ∨ 20 ≤ n) → mnemonicType false (1 :: 0 :: 1 :: rest) n = "") ∧
    mnemonicType false (1 :: 0 :: 2 :: rest) n = "2fa_segwit" := by
  refine ⟨rfl, ?_, ?_, ?_, ?_, ?_⟩
  · simp [mnemonicType, Gen.Mnemonic.MNEMONIC_VERSIONS, versionLoop, List.isPrefixOf]
  · simp [mnemonicType, Gen.Mnemonic.MNEMONIC_VERSIONS, versionLoop, List.isPrefixOf]
  · intro h
    simp only [mnemonicType, Gen.Mnemonic.MNEMONIC_VERSIONS, versionLoop, List.isPrefixOf,
      Gen.Mnemonic.TWOFA_EXACT, Gen.Mnemonic.TWOFA_MIN]
    simp
    omega
  · intro h
    simp only [mnemonicType, Gen.Mnemonic.MNEMONIC_VERSIONS, versionLoop, List.isPrefixOf,
      Gen.Mnemonic.TWOFA_EXACT, Gen.Mnemonic.TWOFA_MIN]
    simp
    omega
  · simp [mnemonicType, Gen.Mnemonic.MNEMONIC_VERSIONS, versionLoop, List.isPrefixOf]

/-- Electrum's version-prefix ACCEPTANCE, as an iff, for every digit string and word count: a sentence that is not
    a pre-2.0 seed carries a version exactly when the hex digits of HMAC-SHA512("Seed version", normalised sentence)
    start with that version's prefix in the generated `_MNEMONIC_VERSIONS` ("2fa" only at 12 words or at least 20);
    it has no version ("" → refused by `version_from_mnemonic`) exactly when none of the four applies; nothing else
    is ever answered. -/
theorem electrum_accepted_iff_prefix (digits : List Nat) (n : Nat) :
    (mnemonicType false digits n = "standard" ↔ [0, 1] <+: digits) ∧
    (mnemonicType false digits n = "segwit" ↔ [1, 0, 0] <+: digits) ∧
    (mnemonicType false digits n = "2fa" ↔ [1, 0, 1] <+: digits ∧ (n = 12 ∨ 20 ≤ n)) ∧
    (mnemonicType false digits n = "2fa_segwit" ↔ [1, 0, 2] <+: digits) ∧
    (mnemonicType false digits n = "" ↔ ¬ [0, 1] <+: digits ∧ ¬ [1, 0, 0] <+: digits ∧
      ¬ ([1, 0, 1] <+: digits ∧ (n = 12 ∨ 20 ≤ n)) ∧ ¬ [1, 0, 2] <+: digits) ∧
    mnemonicType false digits n ∈ ["standard", "segwit", "2fa", "2fa_segwit", ""] :=
  mnemonicType_iff digits n

example : mnemonicType false [1, 0, 1, 7] 13 = "" ∧ mnemonicType false [1, 0, 1, 7] 12 = "2fa" := by decide

/-! ## Electrum — the candidate search of `mnemonic_from_entropy`

`electrumGenerate` is `mnemonic_from_entropy(type, entropy, lang)` from the entropy integer on, at word-index level:
`_search_mnemonic`'s `while True` (self-check, the old-seed and BIP39 skips, the prefix test) and the closing read-back
`_mnemonic_type(mnemonic) == mnemonic_type`.  The two facts about a candidate that depend on the TEXT of its sentence
are parameters indexed by the candidate integer: `isOld c` (`_is_old_mnemonic`) and `digits c` (hex digits of
HMAC-SHA512("Seed version", normalised sentence)); the BIP39 skip (`electrumIsBip39`, Electrum's
bip39_is_checksum_valid arithmetic over the list's own base) is computed from the indexes, for any hash `H`.
`fuel` bounds the number of candidates tried (the code has no bound). -/

/-- for EVERY word-list length ≥ 2, entropy integer, type, and whatever the sentences spell: the generator answers
    candidate `c` exactly when the type is a key of the generated `_MNEMONIC_VERSIONS`, `c` is the LEAST integer above
    the entropy (the entropy itself is never tried) that is neither a pre-2.0 seed nor a valid BIP39 sentence and whose
    seed version starts with the type's prefix, and — for "2fa" only — its sentence has 12 or at least 20 words
    (otherwise the read-back refuses it: "2fa" cannot be generated at 13 words) -/
theorem electrum_generate_iff_least_qualifying (H : Bytes → Bytes) (isOld : Nat → Bool) (digits : Nat → List Nat)
    (base : Nat) (hb : 2 ≤ base) (typ : String) (fuel e c : Nat) :
    electrumGenerate H isOld digits base typ fuel e = .ok c ↔
      ∃ pre, Gen.Mnemonic.MNEMONIC_VERSIONS.lookup typ = some pre ∧ e < c ∧ c ≤ e + fuel ∧
        searchQualifies H isOld digits base pre c = true ∧
        (∀ c', e < c' → c' < c → searchQualifies H isOld digits base pre c' = false) ∧
        (typ = "2fa" → (electrumIndexes c base).length = 12 ∨ 20 ≤ (electrumIndexes c base).length) :=
  electrumGenerate_ok_iff H isOld digits base hb typ fuel e c

/-- what it answers is read back as asked: the sentence returned is not a pre-2.0 seed, not a BIP39 sentence, and
    `_mnemonic_type` (hence `version_from_mnemonic`) gives it the requested type -/
theorem electrum_generated_reads_back (H : Bytes → Bytes) (isOld : Nat → Bool) (digits : Nat → List Nat)
    (base : Nat) (hb : 2 ≤ base) (typ : String) (fuel e c : Nat)
    (h : electrumGenerate H isOld digits base typ fuel e = .ok c) :
    isOld c = false ∧ electrumIsBip39 H (electrumIndexes c base) base = false ∧
    mnemonicType (isOld c) (digits c) (electrumIndexes c base).length = typ ∧
    typ ∈ ["standard", "segwit", "2fa", "2fa_segwit"] := by
  obtain ⟨pre, hl, _, _, hq, _, h2fa⟩ := (electrumGenerate_ok_iff H isOld digits base hb typ fuel e c).mp h
  simp only [searchQualifies, Bool.and_eq_true, Bool.not_eq_eq_eq_not, Bool.not_true, searchSkips,
    Bool.or_eq_false_iff] at hq
  obtain ⟨⟨hold, hb39⟩, hpre⟩ := hq
  refine ⟨hold, hb39, ?_, ?_⟩
  · rw [hold]; exact (readBack_iff typ pre (digits c) _ hl hpre).mpr h2fa
  · rcases versions_lookup typ pre hl with ⟨rfl, _⟩ | ⟨rfl, _⟩ | ⟨rfl, _⟩ | ⟨rfl, _⟩ <;> simp

/-- the refusals: the self-check of `_search_mnemonic` NEVER fires (any list of ≥ 2 words); an unknown type is refused
    exactly when it is no key of `_MNEMONIC_VERSIONS`; the search runs out of fuel exactly when no candidate in
    (entropy, entropy + fuel] qualifies.  (The remaining error, the read-back, is the complement: by
    `electrum_generate_iff_least_qualifying` a "2fa" found at a word count other than 12 / ≥ 20.) -/
theorem electrum_generate_refusals (H : Bytes → Bytes) (isOld : Nat → Bool) (digits : Nat → List Nat)
    (base : Nat) (hb : 2 ≤ base) (typ : String) (fuel e : Nat) :
    electrumGenerate H isOld digits base typ fuel e ≠ .error .selfcheck ∧
    (electrumGenerate H isOld digits base typ fuel e = .error .unknownType ↔
      Gen.Mnemonic.MNEMONIC_VERSIONS.lookup typ = none) ∧
    (electrumGenerate H isOld digits base typ fuel e = .error .fuel ↔
      ∃ pre, Gen.Mnemonic.MNEMONIC_VERSIONS.lookup typ = some pre ∧
        ∀ c', e < c' → c' ≤ e + fuel → searchQualifies H isOld digits base pre c' = false) :=
  electrumGenerate_error_iff H isOld digits base hb typ fuel e

/-- non-vacuity: base 4, candidates 4..6 without the prefix, 5 a pre-2.0 seed WITH the prefix (skipped), 7 returned;
    a "2fa" found at 2 words is refused by the read-back; an unknown type is refused -/
example :
    electrumGenerate (fun _ => []) (fun c => c == 5) (fun c => if c = 5 ∨ c = 7 then [0, 1, 3] else [9]) 4
      "standard" 10 3 = .ok 7 ∧
    electrumGenerate (fun _ => []) (fun _ => false) (fun _ => [1, 0, 1]) 4 "2fa" 10 3 = .error .readBack ∧
    electrumGenerate (fun _ => []) (fun _ => false) (fun _ => [1, 0, 1]) 4 "2FA" 10 3 = .error .unknownType ∧
    electrumGenerate (fun _ => []) (fun _ => false) (fun _ => [9]) 4 "segwit" 10 3 = .error .fuel := by
  decide

/-- Electrum's pre-2.0 codec (`old_mnemonic_from_hex_seed` / `hex_seed_from_old_mnemonic`, three words per 32-bit
    group over the generated `OLD_BASE` = 1626 words): every hex seed of 32-bit groups decodes back to itself; the
    sentence has three indexes below `OLD_BASE` per group; and conversely every triple of indexes is the encoding of
    the group it decodes to, which is below `OLD_BASE`³ (it can exceed 32 bits: then the hex seed has 9 characters for
    that group, as in Electrum).  `2^32 ≤ OLD_BASE³` is what makes three words enough: a shorter list breaks this. -/
theorem electrum_old_roundtrip (groups : List Nat) (h : ∀ g ∈ groups, g < 2 ^ 32) :
    oldSeedGroups Gen.Mnemonic.OLD_BASE (oldMnemonicIndexes Gen.Mnemonic.OLD_BASE groups) = groups ∧
    (oldMnemonicIndexes Gen.Mnemonic.OLD_BASE groups).length = 3 * groups.length ∧
    (∀ i ∈ oldMnemonicIndexes Gen.Mnemonic.OLD_BASE groups, i < Gen.Mnemonic.OLD_BASE) ∧
    (∀ a c d, a < Gen.Mnemonic.OLD_BASE → c < Gen.Mnemonic.OLD_BASE → d < Gen.Mnemonic.OLD_BASE →
      oldEncodeGroup Gen.Mnemonic.OLD_BASE (oldDecodeGroup Gen.Mnemonic.OLD_BASE a c d) = [a, c, d]) := by
  have hb : 0 < Gen.Mnemonic.OLD_BASE := by decide
  have h32 : 2 ^ 32 ≤ Gen.Mnemonic.OLD_BASE * Gen.Mnemonic.OLD_BASE * Gen.Mnemonic.OLD_BASE := by decide
  exact ⟨oldSeedGroups_oldMnemonicIndexes _ hb groups (fun g hg => Nat.lt_of_lt_of_le (h g hg) h32),
    oldMnemonicIndexes_length _ groups, oldMnemonicIndexes_lt _ hb groups,
    fun a c d ha hc hd => (oldEncode_oldDecode _ a c d ha hc hd).2⟩

example : oldHexSeedGroups Gen.Mnemonic.OLD_BASE (oldMnemonicIndexes Gen.Mnemonic.OLD_BASE [0xdeadbeef, 0, 1, 0xffffffff])
    = some [0xdeadbeef, 0, 1, 0xffffffff] := by decide

/-- word lists: `index (word i) = i` needs only duplicate-freeness — for ANY list without duplicates the lookup of
    its i-th word is i.  That each of the 26 shipped lists (12 BIP39 + SLIP39's, Electrum's 12, the pre-2.0 list) IS
    duplicate-free, NFKD-normal and blank-free is CHECKED BY THE TRANSLATOR on every run (it refuses to generate
    otherwise; `Gen.Mnemonic.WORDLISTS` pins each list's length and SHA-256) and by the oracle `wordlist.bijection`
    through btclib's own lookup; the lengths are the bases the model computes with. -/
theorem wordlist_index_of_word (W : List String) (h : W.Nodup) (i : Nat) (hi : i < W.length) :
    W.idxOf W[i] = i ∧
    Gen.Mnemonic.WORDLISTS.map (·.1) =
      ["bip39/cs", "bip39/en", "bip39/es", "bip39/fr", "bip39/it", "bip39/ja", "bip39/ko", "bip39/pt", "bip39/ru",
       "bip39/tr", "bip39/zh", "bip39/zh_tw", "bip39/slip39",
       "electrum/cs", "electrum/en", "electrum/es", "electrum/fr", "electrum/it", "electrum/ja", "electrum/ko",
       "electrum/pt", "electrum/ru", "electrum/tr", "electrum/zh", "electrum/zh_tw", "electrum/old"] ∧
    Gen.Mnemonic.WORDLISTS.map (·.2.1) =
      List.replicate 12 Gen.Mnemonic.BIP39_BASE ++ [2 ^ Gen.Slip39.RADIX_BITS] ++
      List.replicate 7 Gen.Mnemonic.BIP39_BASE ++ [Gen.Mnemonic.OLD_BASE] ++
      List.replicate 4 Gen.Mnemonic.BIP39_BASE ++ [Gen.Mnemonic.OLD_BASE] :=
  ⟨List.Nodup.idxOf_getElem h i hi, by decide, by decide⟩

example : ["abandon", "ability", "able"].Nodup ∧ ["abandon", "ability", "able"].idxOf "able" = 2 := by decide

/-- BIP85: the entropy of a derived key is HMAC-SHA512 keyed with the ASCII of "bip-entropy-from-k" -/
theorem bip85_is_hmac (hm : Bytes → Bytes → Bytes) (key : Bytes) :
    bip85Entropy hm key = hm ("bip-entropy-from-k".toList.map fun c => UInt8.ofNat c.toNat) key := by
  unfold bip85Entropy
  congr 1

/-- BIP85's Language Table as the BIP prints it (English 0', Japanese 1', Korean 2', Spanish 3', Chinese
    (Simplified) 4', Chinese (Traditional) 5', French 6', Italian 7', Czech 8', Portuguese 9') is the table the source
    holds, and the application numbers in the derivation paths are the BIP's (BIP39 39', WIF 2', XPRV 32',
    HEX 128169', PWD BASE64 707764', PWD BASE85 707785', DICE 89101') -/
theorem bip85_tables_are_the_bips :
    Gen.Mnemonic.BIP85_LANGUAGES =
      [("en", 0), ("ja", 1), ("ko", 2), ("es", 3), ("zh", 4), ("zh_tw", 5), ("fr", 6), ("it", 7), ("cs", 8), ("pt", 9)] ∧
    Gen.Mnemonic.BIP85_APPLICATIONS =
      [("bip39", 39), ("wif_from_root_key", 2), ("xprv_from_root_key", 32), ("bytes_entropy_from_root_key", 128169),
       ("base64_password_from_root_key", 707764), ("base85_password_from_root_key", 707785),
       ("rolls_from_root_key", 89101)] ∧
    Gen.Mnemonic.BIP85_PURPOSE = 83696968 ∧
    Gen.Mnemonic.BIP85_ENTROPY_BYTES = [(12, 16), (15, 20), (18, 24), (21, 28), (24, 32)] ∧
    bip85Bip39Path "zh" 12 7 = some [83696968, 39, 4, 12, 7] ∧
    bip85Bip39Path "zh_tw" 24 0 = some [83696968, 39, 5, 24, 0] := by
  decide

/-- BIP85's sized applications: the bounds in the source are the BIP's (HEX 16..64 bytes, PWD BASE64 20..86, PWD
    BASE85 10..80 characters); HEX answers exactly inside its bounds, with the leading `n` bytes of the HMAC (so `n`
    bytes whenever the HMAC has its 64), at the path m/83696968'/128169'/n'/index' -/
theorem bip85_sized_applications (hm : Bytes → Bytes → Bytes) (key : Bytes) (n index : Nat) :
    Gen.Mnemonic.BIP85_BOUNDS = [("bytes_entropy_from_root_key", 16, 64), ("base64_password_from_root_key", 20, 86),
      ("base85_password_from_root_key", 10, 80)] ∧
    (16 ≤ n ∧ n ≤ 64 → bip85Hex hm key n = some ((bip85Entropy hm key).take n) ∧
      ((hm (natsToBytes Gen.Mnemonic.BIP85_HMAC_KEY) key).length = 64 → ((bip85Entropy hm key).take n).length = n) ∧
      bip85SizedPath "bytes_entropy_from_root_key" n index = some [83696968, 128169, n, index]) ∧
    (¬ (16 ≤ n ∧ n ≤ 64) → bip85Hex hm key n = none ∧ bip85SizedPath "bytes_entropy_from_root_key" n index = none) := by
  refine ⟨by decide, ?_, ?_⟩
  · intro h
    have e : Gen.Mnemonic.BIP85_BOUNDS.lookup "bytes_entropy_from_root_key" = some (16, 64) := by decide
    have a : Gen.Mnemonic.BIP85_APPLICATIONS.lookup "bytes_entropy_from_root_key" = some 128169 := by decide
    refine ⟨by simp only [bip85Hex, e, h, and_self, if_true], ?_, by
      simp only [bip85SizedPath, e, a, h, and_self, if_true, Gen.Mnemonic.BIP85_PURPOSE]⟩
    intro hl
    simp only [bip85Entropy, List.length_take, hl]
    omega
  · intro h
    have e : Gen.Mnemonic.BIP85_BOUNDS.lookup "bytes_entropy_from_root_key" = some (16, 64) := by decide
    have a : Gen.Mnemonic.BIP85_APPLICATIONS.lookup "bytes_entropy_from_root_key" = some 128169 := by decide
    exact ⟨by simp only [bip85Hex, e, h, if_false], by simp only [bip85SizedPath, e, a, h, if_false]⟩

example : bip85SizedPath "base64_password_from_root_key" 21 0 = some [83696968, 707764, 21, 0] ∧
    bip85SizedPath "base85_password_from_root_key" 81 0 = none := by decide

/-! ## dispatch — which scheme claims a sentence -/

/-- `dispatch._bip39_seed_type(mnemonic, lang)`: for a sentence of 12..24 words all in the NAMED language's list,
    the answer is "bip39" exactly when the indexes IN THAT LIST are the BIP39 encoding of some entropy — whatever
    the same words spell in another list that shares them -/
theorem dispatch_bip39_verdict_is_named_language (idx : List Nat) (hn : idx.length ∈ [12, 15, 18, 21, 24])
    (hlt : ∀ i ∈ idx, i < 2048) :
    bip39SeedType sha256 idx.length true idx = "bip39" ↔
      ∃ e, bip39Indexes sha256 e = some idx ∧ e.length = idx.length / 3 * 32 :=
  bip39SeedType_eq_bip39_iff sha256 sha256_length idx hn hlt

/-- … a word outside the named list: no BIP39 claim; any other word count: "bip39_wordlist"; SLIP39 goes first,
    Electrum second, BIP39 last, and `seed_type_from_mnemonic` is the first of the plural answer -/
theorem dispatch_order (H : Bytes → Bytes) (n : Nat) (idx : List Nat) (el : Option String) (b : String) :
    bip39SeedType H n false idx = "" ∧
    (n ≠ 0 → n ∉ [12, 15, 18, 21, 24] → bip39SeedType H n true idx = "bip39_wordlist") ∧
    seedType true el b = "slip39" ∧ seedType false (some "segwit") b = "electrum_segwit" ∧
    seedType false none b = b ∧ seedType false el b = (allSeedTypes false el b).headD "" := by
  refine ⟨bip39SeedType_unknown H n idx, bip39SeedType_wrong_count H n idx, rfl, rfl, ?_, rfl⟩
  unfold seedType allSeedTypes
  by_cases hb : b = "" <;> simp [hb]

/-! ## T6 — end to end, both levels

`master_secret_from_mnemonics (select (mnemonics_from_master_secret ms)) = ms` at decoded-share level: the table
`makeShares` is what `mnemonics_from_master_secret` builds (every string the entropy source hands out a parameter),
`recoverEms` is `_common_field` + `_grouped` + the group-level `_recover_secret`.  The word codec between the two
is T5 (`slip39_share_codec_roundtrip`); the refusals are `slip39_group_wrong_count_refused` /
`slip39_group_count_refused`. -/

/-- over ANY field and any digest: every selection of shares meeting the group threshold and each chosen group's
    member threshold EXACTLY, in ANY order, recovers the encrypted master secret (thresholds 1 included) -/
theorem slip39_two_level_recovers {F : Type} [Field F] [DecidableEq F] {o : FOps F}
    (L : FLawful o) (hx : XInj o) (digest : List F → List F → List F)
    (hdl : ∀ rp s, (digest rp s).length = Gen.Slip39.DIGEST_BYTES)
    (identifier : Nat) (extendable : Bool) (e gt : Nat) (groups : List (Nat × Nat)) (ems : List F)
    (groupRnd : List (List F)) (groupRp : List F) (memberRnd : Nat → List (List F)) (memberRp : Nat → List F)
    (hgr : 2 ≤ gt → groupRnd.length = gt - 2 ∧ (∀ r ∈ groupRnd, r.length = ems.length) ∧
      groupRp.length + Gen.Slip39.DIGEST_BYTES = ems.length)
    (hmr : ∀ g, g < groups.length → 2 ≤ (groups.getD g (0, 0)).1 →
      (memberRnd g).length = (groups.getD g (0, 0)).1 - 2 ∧ (∀ r ∈ memberRnd g, r.length = ems.length) ∧
      (memberRp g).length + Gen.Slip39.DIGEST_BYTES = ems.length)
    {table : List (List (Share F))}
    (h : makeShares o digest identifier extendable e gt groups ems groupRnd groupRp memberRnd memberRp = .ok table)
    (sel : List (Nat × Nat)) (hne : sel ≠ []) (hnd : sel.Nodup)
    (hrange : ∀ p ∈ sel, p.1 < groups.length ∧ p.2 < (groups.getD p.1 (0, 0)).2)
    (hgroups : (sel.map (·.1)).eraseDups.length = gt)
    (hmembers : ∀ g ∈ sel.map (·.1), (sel.filter (·.1 = g)).length = (groups.getD g (0, 0)).1) :
    ∃ picked, sel.mapM (pick table) = some picked ∧ recoverEms o digest picked = .ok ems :=
  recoverEms_makeShares_exists L hx digest hdl identifier extendable e gt groups ems groupRnd groupRp memberRnd
    memberRp hgr hmr h sel hne hnd hrange hgroups hmembers

/-- the same on btclib's arithmetic, with encryption and decryption around it: for ANY round function (passphrase,
    iteration exponent, identifier, flag) and any HMAC, the selection decrypts back to the master secret -/
theorem slip39_end_to_end (F : Nat → Bytes → Bytes) (hF : ∀ i r, (F i r).length = r.length)
    (hm : Bytes → Bytes → Bytes) (hhm : ∀ k m, Gen.Slip39.DIGEST_BYTES ≤ (hm k m).length)
    (ms : Bytes) (hms : ms.length % 2 = 0)
    (identifier : Nat) (extendable : Bool) (e gt : Nat) (groups : List (Nat × Nat))
    (groupRnd : List (List GF256)) (groupRp : List GF256)
    (memberRnd : Nat → List (List GF256)) (memberRp : Nat → List GF256)
    (hgr : 2 ≤ gt → groupRnd.length = gt - 2 ∧ (∀ r ∈ groupRnd, r.length = ms.length) ∧
      groupRp.length + Gen.Slip39.DIGEST_BYTES = ms.length)
    (hmr : ∀ g, g < groups.length → 2 ≤ (groups.getD g (0, 0)).1 →
      (memberRnd g).length = (groups.getD g (0, 0)).1 - 2 ∧ (∀ r ∈ memberRnd g, r.length = ms.length) ∧
      (memberRp g).length + Gen.Slip39.DIGEST_BYTES = ms.length) :
    ∃ ems, feistel F ms false = some ems ∧
      ∀ table, makeShares gf256Ops (digestGF hm) identifier extendable e gt groups (ems.map GF256.ofByte)
          groupRnd groupRp memberRnd memberRp = .ok table →
        ∀ sel : List (Nat × Nat), sel ≠ [] → sel.Nodup →
          (∀ p ∈ sel, p.1 < groups.length ∧ p.2 < (groups.getD p.1 (0, 0)).2) →
          (sel.map (·.1)).eraseDups.length = gt →
          (∀ g ∈ sel.map (·.1), (sel.filter (·.1 = g)).length = (groups.getD g (0, 0)).1) →
          ∃ picked r, sel.mapM (pick table) = some picked ∧
            recoverEms gf256Ops (digestGF hm) picked = .ok r ∧ feistel F (r.map GF256.toByte) true = some ms := by
  obtain ⟨ems, he, hl, hd⟩ := Btc.C13.feistel_decrypt_encrypt F hF ms hms
  refine ⟨ems, he, ?_⟩
  intro table ht sel hne hnd hrange hgroups hmembers
  have hdl : ∀ rp s, (digestGF hm rp s).length = Gen.Slip39.DIGEST_BYTES := by
    intro rp s
    simp only [digestGF, digestWith, List.length_map, List.length_take]
    exact Nat.min_eq_left (hhm _ _)
  have hlen : (ems.map GF256.ofByte).length = ms.length := by simp [hl]
  obtain ⟨picked, hp, hr⟩ := recoverEms_makeShares_exists gf256Ops_lawful gf256Ops_xinj (digestGF hm) hdl
    identifier extendable e gt groups (ems.map GF256.ofByte) groupRnd groupRp memberRnd memberRp
    (by rw [hlen]; exact hgr) (by rw [hlen]; exact hmr) ht sel hne hnd hrange hgroups hmembers
  refine ⟨picked, ems.map GF256.ofByte, hp, hr, ?_⟩
  have : (ems.map GF256.ofByte).map GF256.toByte = ems := by
    rw [List.map_map]
    conv => rhs; rw [← List.map_id ems]
    apply List.map_congr_left
    intro b _
    simp [GF256.toByte, GF256.ofByte]
  rw [this]; exact hd

/-- one level only (kept: the statement the first wave proved) -/
theorem slip39_one_level_end_to_end_partial (F : Nat → Bytes → Bytes) (hF : ∀ i r, (F i r).length = r.length)
    (hm : Bytes → Bytes → Bytes) (ms : Bytes) (hms : ms.length % 2 = 0) {t n : Nat} (h2 : 2 ≤ t)
    (rnd : List (List GF256)) (rp : List GF256) (hlen : rnd.length = t - 2)
    (hr : ∀ r ∈ rnd, r.length = ms.length) (hrp : rp.length + Gen.Slip39.DIGEST_BYTES = ms.length)
    (hhm : ∀ k m, Gen.Slip39.DIGEST_BYTES ≤ (hm k m).length) :
    ∃ ems, feistel F ms false = some ems ∧
      ∀ shares, splitSecret gf256Ops t n (ems.map GF256.ofByte) rnd
          (digestGF hm rp (ems.map GF256.ofByte) ++ rp) = .ok shares →
        ∀ sel : List Nat, sel.Nodup → sel.length = t → (∀ i ∈ sel, i < n) →
          ∃ r, recoverSecret gf256Ops (digestGF hm) t (sel.map fun i => (gf256Ops.x i, shares.getD i [])) = .ok r ∧
            feistel F (r.map GF256.toByte) true = some ms := by
  obtain ⟨ems, he, hl, hd⟩ := Btc.C13.feistel_decrypt_encrypt F hF ms hms
  refine ⟨ems, he, ?_⟩
  intro shares hs sel hnd hsl hsn
  have hdl : (digestGF hm rp (ems.map GF256.ofByte)).length = Gen.Slip39.DIGEST_BYTES := by
    simp only [digestGF, digestWith, List.length_map, List.length_take]
    exact Nat.min_eq_left (hhm _ _)
  refine ⟨ems.map GF256.ofByte, ?_, ?_⟩
  · exact recoverSecret_splitSecret gf256Ops_lawful (digestGF hm) h2 gf256Ops_xinj hlen
      (by intro r hr'; simp [hr r hr', hl]) (by simp [hdl, hl]; omega) rfl hdl hs sel hnd hsl hsn
  · have : (ems.map GF256.ofByte).map GF256.toByte = ems := by
      rw [List.map_map]
      conv => rhs; rw [← List.map_id ems]
      apply List.map_congr_left
      intro b _
      simp [GF256.toByte, GF256.ofByte]
    rw [this]; exact hd

/-! ## The two public entry points, on sentences (word-index level), with the executable hashes -/

/-- `master_secret_from_mnemonics (select (mnemonics_from_master_secret ms …)) = ms`, as ONE statement about sentences
    and for the definitions the driver runs (`hmacSha256`, `roundFunction` = PBKDF2-HMAC-SHA256 with
    `_BASE_ITERATIONS << e` iterations, entry checks included): for every printable-ASCII passphrase, every even
    secret length ≥ 16, every iteration exponent < 16, either flag, every admissible configuration (1..16 groups,
    thresholds 1..n), every string the entropy source may hand out, the generator succeeds and EVERY selection of
    sentences meeting the thresholds exactly, in any order, recovers the master secret.  No hash hypothesis remains. -/
theorem slip39_sentences_end_to_end
    (pw ms : Bytes) (groups : List (Nat × Nat)) (gt e : Nat) (ext : Bool) (idBytes : Bytes)
    (groupRnd : List (List GF256)) (groupRp : List GF256)
    (memberRnd : Nat → List (List GF256)) (memberRp : Nat → List GF256)
    (hpw : validPassphrase pw = true) (hms : validLength ms.length = true) (he : e < 16)
    (hadm : groupsAdmissible groups = true)
    (h0 : 0 < gt) (h1 : gt ≤ groups.length) (h2 : groups.length ≤ 16)
    (hgs : ∀ g ∈ groups, 0 < g.1 ∧ g.1 ≤ g.2 ∧ g.2 ≤ 16)
    (hgr : 2 ≤ gt → groupRnd.length = gt - 2 ∧ (∀ r ∈ groupRnd, r.length = ms.length) ∧
      groupRp.length + Gen.Slip39.DIGEST_BYTES = ms.length)
    (hmr : ∀ g, g < groups.length → 2 ≤ (groups.getD g (0, 0)).1 →
      (memberRnd g).length = (groups.getD g (0, 0)).1 - 2 ∧ (∀ r ∈ memberRnd g, r.length = ms.length) ∧
      (memberRp g).length + Gen.Slip39.DIGEST_BYTES = ms.length) :
    ∃ sentences,
      mnemonicsFromMasterSecret hmacSha256 (roundFunction pw) pw ms groups gt e ext idBytes groupRnd groupRp
        memberRnd memberRp = .ok sentences ∧
      ∀ sel : List (Nat × Nat), sel ≠ [] → sel.Nodup →
        (∀ p ∈ sel, p.1 < groups.length ∧ p.2 < (groups.getD p.1 (0, 0)).2) →
        (sel.map (·.1)).eraseDups.length = gt →
        (∀ g ∈ sel.map (·.1), (sel.filter (·.1 = g)).length = (groups.getD g (0, 0)).1) →
        ∃ chosen, sel.mapM (fun p => (sentences.getD p.1 [])[p.2]?) = some chosen ∧
          masterSecretFromMnemonics hmacSha256 (roundFunction pw) pw chosen = .ok ms :=
  masterSecretFromMnemonics_mnemonicsFromMasterSecret_concrete pw ms groups gt e ext idBytes groupRnd groupRp
    memberRnd memberRp hpw hms he hadm h0 h1 h2 hgs hgr hmr

example : validPassphrase [84, 82, 69, 90, 79, 82] = true ∧ validLength (List.replicate 16 (7 : UInt8)).length = true ∧
    groupsAdmissible [(1, 1), (2, 3), (1, 1)] = true := by decide

/-- WRONG passphrase at the entry points, for the executable hashes: the sentences generated under `pw`, recovered
    under another valid passphrase `pw'`, are NEVER refused; every qualifying selection gives the same secret `ms'` of
    the same length, and `ms' = ms` exactly when the two passphrases encrypt `ms` to the same ciphertext (Feistel
    injectivity).  That they do not is PBKDF2-HMAC-SHA256's business: assumed, tested. -/
theorem slip39_wrong_passphrase_characterised
    (pw pw' ms : Bytes) (groups : List (Nat × Nat)) (gt e : Nat) (ext : Bool) (idBytes : Bytes)
    (groupRnd : List (List GF256)) (groupRp : List GF256)
    (memberRnd : Nat → List (List GF256)) (memberRp : Nat → List GF256)
    (hpw : validPassphrase pw = true) (hpw' : validPassphrase pw' = true)
    (hms : validLength ms.length = true) (he : e < 16)
    (hadm : groupsAdmissible groups = true)
    (h0 : 0 < gt) (h1 : gt ≤ groups.length) (h2 : groups.length ≤ 16)
    (hgs : ∀ g ∈ groups, 0 < g.1 ∧ g.1 ≤ g.2 ∧ g.2 ≤ 16)
    (hgr : 2 ≤ gt → groupRnd.length = gt - 2 ∧ (∀ r ∈ groupRnd, r.length = ms.length) ∧
      groupRp.length + Gen.Slip39.DIGEST_BYTES = ms.length)
    (hmr : ∀ g, g < groups.length → 2 ≤ (groups.getD g (0, 0)).1 →
      (memberRnd g).length = (groups.getD g (0, 0)).1 - 2 ∧ (∀ r ∈ memberRnd g, r.length = ms.length) ∧
      (memberRp g).length + Gen.Slip39.DIGEST_BYTES = ms.length) :
    ∃ sentences ms',
      mnemonicsFromMasterSecret hmacSha256 (roundFunction pw) pw ms groups gt e ext idBytes groupRnd groupRp
        memberRnd memberRp = .ok sentences ∧ ms'.length = ms.length ∧
      (ms' = ms ↔
        feistel (roundFunction pw' e (ofBE idBytes &&& ((1 <<< Gen.Slip39.ID_BITS) - 1)) ext) ms false =
        feistel (roundFunction pw e (ofBE idBytes &&& ((1 <<< Gen.Slip39.ID_BITS) - 1)) ext) ms false) ∧
      ∀ sel : List (Nat × Nat), sel ≠ [] → sel.Nodup →
        (∀ p ∈ sel, p.1 < groups.length ∧ p.2 < (groups.getD p.1 (0, 0)).2) →
        (sel.map (·.1)).eraseDups.length = gt →
        (∀ g ∈ sel.map (·.1), (sel.filter (·.1 = g)).length = (groups.getD g (0, 0)).1) →
        ∃ chosen, sel.mapM (fun p => (sentences.getD p.1 [])[p.2]?) = some chosen ∧
          masterSecretFromMnemonics hmacSha256 (roundFunction pw') pw' chosen = .ok ms' :=
  masterSecretFromMnemonics_wrong_passphrase hmacSha256 (roundFunction pw) (roundFunction pw')
    (roundFunction_length pw) (roundFunction_length pw') digest_bytes_le_hmacSha256 pw pw' ms groups gt e ext idBytes
    groupRnd groupRp memberRnd memberRp hpw hpw' hms he hadm h0 h1 h2 hgs hgr hmr

/-- refusals, stated about the EXECUTED entry point `masterSecretFromMnemonics` (passphrase check + `masterSecret`;
    what the driver answers `slip39.master` lines with — for any HMAC and round function, so in particular for
    `hmacSha256` / `roundFunction pw`): a decoded share set in which some group does not hold EXACTLY its member
    threshold, or whose number of groups differs from the group threshold, is an error whatever the passphrase -/
theorem slip39_master_secret_refuses (hm : Bytes → Bytes → Bytes) (RF : Nat → Nat → Bool → Nat → Bytes → Bytes)
    (pw : Bytes) (sentences : List (List Nat)) (first : ByteShare) (rest : List ByteShare)
    (hbs : sentences.mapM shareFromIndexes = .ok (first :: rest))
    (h : (∃ g t, g ∈ ((first :: rest).map toGF).map (·.groupIndex) ∧
            ((((first :: rest).map toGF).filter (·.groupIndex = g)).map (·.memberThreshold)).eraseDups = [t] ∧
            (((first :: rest).map toGF).filter (·.groupIndex = g)).length ≠ t) ∨
         ((((first :: rest).map toGF).map (·.groupIndex)).eraseDups.length ≠ (toGF first).groupThreshold)) :
    ∃ e, masterSecretFromMnemonics hm RF pw sentences = .error e := by
  have hms : ∃ e, masterSecret hm (fun f => RF f.iterationExponent f.identifier f.extendable) sentences = .error e := by
    apply masterSecret_error_of_recoverEms hm _ sentences (first :: rest) hbs
    rcases h with ⟨g, t, hg, ht, hn⟩ | hn
    · exact recoverEms_wrong_member_count gf256Ops (digestGF hm) _ g t hg ht hn
    · exact recoverEms_wrong_group_count gf256Ops (digestGF hm) (toGF first) (rest.map toGF) hn
  obtain ⟨e, he⟩ := hms
  unfold masterSecretFromMnemonics
  by_cases hp : validPassphrase pw = true
  · simp only [hp, not_true_eq_false, if_false, he]
    exact ⟨_, rfl⟩
  · simp only [hp]
    exact ⟨_, rfl⟩

/-- the length hypotheses of T1/T4/T6 hold of the executable instances -/
theorem executable_lengths (pw b k m r : Bytes) (e id i : Nat) (ext : Bool) :
    (sha256 b).length = 32 ∧ (hmacSha256 k m).length = 32 ∧ (roundFunction pw e id ext i r).length = r.length :=
  ⟨sha256_length b, hmacSha256_length k m, roundFunction_length pw e id ext i r⟩

/-- `entropy._bits_per_digit` as TRANSLATED from the source is the model's `bitsPerDigit` -/
theorem bits_per_digit_is_translated (n : Nat) (h : 1 ≤ n) :
    Gen.Mnemonic.bits_per_digit (n : Int) = ((bitsPerDigit n : Nat) : Int) :=
  bits_per_digit_translated n h

end Props.C13
