/-!
# C13 — property theorems only (see DESIGN.md §3 C13).
-/
namespace Props.C13

end Props.C13
