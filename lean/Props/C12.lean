/-!
# C12 — property theorems only (see DESIGN.md §3 C12).
-/
namespace Props.C12

end Props.C12
