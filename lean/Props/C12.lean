import Proofs.C12.Commit
import Proofs.C12.Toy
import Proofs.E2E.C12
import Proofs.E2E.C12Cof
import Proofs.C12.EC
import Proofs.C12.PyTree
import Proofs.C12.Control
import Proofs.C12.Explicit
import Proofs.C12.Glue
import Proofs.E2E.CofactorOne
/-!
# C12 — taproot outputs commit to exactly their key and script tree (DESIGN.md §3 C12)

Property theorems only.  The model is `Model/C12/Taproot.lean` (a function-by-function mirror of
`btclib/script/taproot.py`), generic over the group operations `o : GroupOps α` and the tagged hash
`H : tag → message → digest`; the SAME definitions are executed by the driver with
`Btc.EC.ops secp256k1` and `Btc.taggedHash` and compared with the real code on both arithmetic arms.
Tags, the 33/32 control-block layout, the 0xFE / 1 masks and the depth cap are `Gen.Taproot.*`
(regenerated from the source each run); CompactSize is the translated `Gen.VarInt.serialize`.

Which hypothesis each theorem rests on, and where it is discharged:
* hash level (T1a, T1b, T3m, T3i, T4, refusals, `output_key_unique`): no group hypothesis at all.
* T3 `soundness` and the soundness half of `every_leaf_version`: only `LiftEven o` (`lift_x` answers an even-y
  point) — PROVED of the executed raw-pair arithmetic `Btc.EC.ops C` for every odd field size
  (`liftEven_ec`), so `soundness_ec` / `soundness_secp256k1` below are about what the driver runs, with
  `Len32 taggedHash` proved too (`len32_taggedHash`).
* T1 / T1s / T2 (`completeness`, `spelling_independent`, `key_agreement`): `L : Lawful o G`.  NOTE
  `Lawful (Btc.EC.ops C) G` itself is UNINHABITED (raw integer pairs include junk such as `(-1, 1)`); what C01
  proves is `Lawful (opsSub K)` — the same operations restricted to reduced valid pairs of the `n`-torsion, with
  `lift_x` filtered to that carrier.  The `_ec` / `_secp256k1` forms transfer the conclusions to `Btc.EC.ops C`;
  the `_cofactor_one` forms have NO `opsSub` left in the statement and need the explicit cofactor-one hypothesis `hcof`
  (restricted and unrestricted `lift_x` agree).  For secp256k1 EVERYTHING is proved — the discriminant condition, the
  primality of `p`, `n` (Pratt certificates) and cofactor one (`Btc.E2E.secpCofactorOne`, Proofs/E2E/CofactorOne.lean) —
  so `completeness_secp256k1`, `key_agreement_secp256k1`, `nums_completeness_secp256k1` carry NO curve-level hypothesis
  and are entirely about `Btc.EC.ops secp256k1` / `Btc.taggedHash`, the two functions the driver runs.  The older forms
  whose key is parsed over the noncomputable carrier `secpOps` are kept under the suffix `_sub` and labelled so.
* The output key is committed to as an INTEGER: `check_output_pubkey` compares `int.from_bytes(q)`, so `00 ‖ q`
  verifies like `q` (open known finding `taproot.check_output_pubkey.zero_padded_key_accepted`).  "Commits to
  exactly its key" therefore means: among keys of one length at most one verifies (`output_key_unique`), and keys
  with one big-endian value verify alike (`output_key_as_integer`); the LENGTH of `q` is not committed.
* collision resistance is NOT assumed: T3 *constructs* the collision / the tweak alias.
* `leafHash` is specified for a version byte `v < 256` (every internal caller masks with 0xFE first); the PUBLIC
  `leaf_hash(v, …)` is `leafHashPub`: an integer outside `0..LEAF_VERSION_MAX` (generated: 255) is refused
  (`BTClibValueError`), never wrapped (`leaf_hash_refuses_out_of_byte`).
* `Tree` is what a script tree IS; what reaches `tree_helper` at run time is any Python value (`PyVal`), and the guards
  that refuse everything that is no tree are `PyVal.toTree` (`tree_helper_answers_exactly_trees`,
  `tree_helper_refusals`, `entry_points_on_python_values`).  A list of script commands of ANY kind in script position is
  `PyVal.script cs` and is judged by `serializeTap cs`, the mirror of `taproot.serialize` (Model/C12/Script.lean:
  `leaf_script_of_every_command_kind`, `command_kinds_serialize`); str commands are ASCII, a list / tuple in command
  position is not in `Cmd`.  (`PyVal.cmds n b` — a list of n str / bytes commands GIVEN with the octets `b` it serialises
  to — is the older, abstract spelling, kept for the streams that compare leaves as octets.)
-/
namespace Props.C12
open Btc Btc.Taproot Gen.Taproot

variable {α G : Type} [AddCommGroup G] {o : GroupOps α}

/-- T1a (the sort on the way down is the `k < e` test on the way up, `k = e` included): whichever
    child one climbs from, one step of `check_output_pubkey`'s fold is `tree_helper`'s branch hash. -/
theorem sort_matches_fold (H : TagHash) (lh rh : Bytes) :
    foldStep H lh rh = branchHash H lh rh ∧ foldStep H rh lh = branchHash H lh rh :=
  ⟨foldStep_left H lh rh, foldStep_right H lh rh⟩

/-- T1b (every tree, any shape, repeated leaves): each entry `((version, script), path)` that
    `tree_helper` returns has the masked version, a path of one 32-byte node per level (at most the
    depth of the tree), and folding its leaf hash up that path yields the root. -/
theorem paths_fold_to_root {H : TagHash} (h32 : Len32 H) (t : Tree) (lf : LeafInfo) (h : lf ∈ leaves H t) :
    ∃ d, d ≤ t.depth ∧ lf.2.length = 32 * d ∧
      foldPath H (leafHash H lf.1.1 lf.1.2) lf.2 d = root H t ∧
      lf.1.1 &&& LEAF_MASK = lf.1.1 ∧ lf.1.2 ∈ t.scripts :=
  leaves_spec h32 t lf h

/-- T1 (completeness): for every tree of depth ≤ 128, every SEC spelling `sec` of an internal key that
    is a point, every leaf index: `output_pubkey` answers, `input_script_sig` answers, and
    `check_output_pubkey(output key, leaf script, control block) = True`.
    (`hQ`: the output point is not the point at infinity — an event of probability 2⁻²⁵⁶.) -/
theorem completeness (L : Lawful o G) (hp : o.p ≤ 2 ^ 256) {H : TagHash} (h32 : Len32 H)
    (sec : Bytes) (tree : Tree) (P : α) (t : Int)
    (hdepth : tree.depth ≤ 128)
    (hP : pointFromOctets o sec = .ok P)
    (ht : tapTweak o H (xOnly sec) (root H tree) = .ok t)
    (hQ : L.abs (tweakPoint o P t) ≠ 0) :
    outputPubkey o H (some sec) (some tree) = .ok (outKey o (tweakPoint o P t)) ∧
    ∀ i : Nat, i < (leaves H tree).length →
      ∃ s c, inputScriptSig o H (some sec) tree i = .ok (s, c) ∧
        checkOutputPubkey o H (outKey o (tweakPoint o P t)).1 s c = .ok true :=
  completeness_aux L L.y_congr hp h32 sec tree P t hdepth hP ht hQ

/-- T1s (every accepted spelling names one output key): any 33/65-byte SEC form of the internal key
    (02/03 ‖ x, 04 ‖ x ‖ ±y) gives the output key of the x-only form `02 ‖ x` — the form T3 is stated for. -/
theorem spelling_independent (L : Lawful o G) {H : TagHash} (sec h : Bytes) (P : α) (t : Int)
    (hP : pointFromOctets o sec = .ok P) (ht : tapTweak o H (xOnly sec) h = .ok t)
    (hQ : L.abs (tweakPoint o P t) ≠ 0) :
    tweakedPubkey o H (2 :: xOnly sec) h = tweakedPubkey o H sec h :=
  spelling_independent_aux L sec h P t hP ht hQ

/-- T2 (key agreement, both y parities): for `0 < d < n` and any spelling `sec` of `±d·G`, the private
    and the public tweak refuse together (exactly when `t ≥ n`), and when they answer,
    `output_prvkey · G` IS the output point: same group element, hence same x-only key and parity. -/
theorem key_agreement (L : Lawful o G) {H : TagHash} (d : Int) (h0 : 0 < d) (h1 : d < o.n)
    (sec h : Bytes) (P' : α)
    (hP : pointFromOctets o sec = .ok P')
    (hsame : L.abs P' = d • L.abs o.gen ∨ L.abs P' = - (d • L.abs o.gen))
    (hx : xOnly sec = beBytes 32 (o.x (o.mul d o.gen)).toNat) :
    (∀ e, tweakedPrvkey o H d h = .error e ↔ tweakedPubkey o H sec h = .error e) ∧
    (∀ d2, tweakedPrvkey o H d h = .ok d2 →
      ∃ t, tapTweak o H (xOnly sec) h = .ok t ∧ 0 ≤ d2 ∧ d2 < o.n ∧
        tweakedPubkey o H sec h = .ok (outKey o (tweakPoint o P' t)) ∧
        L.abs (o.mul d2 o.gen) = L.abs (tweakPoint o P' t) ∧
        (L.abs (tweakPoint o P' t) ≠ 0 → outKey o (o.mul d2 o.gen) = outKey o (tweakPoint o P' t))) :=
  key_agreement_aux L L.y_congr d h0 h1 sec h P' hP hsame hx

/-- T2r (a tweak out of range is refused, everywhere): `_tap_tweak` refuses exactly `t ≥ n`; then the
    public tweak, the private tweak and the control-block check all answer that same refusal. -/
theorem refuses_tweak_out_of_range (H : TagHash) (pk h : Bytes) :
    (tapTweak o H pk h = .error .tweak ↔ o.n ≤ (ofBE (H TAG_TWEAK (pk ++ h)) : Nat)) ∧
    (∀ t, tapTweak o H pk h = .ok t ↔ t = (ofBE (H TAG_TWEAK (pk ++ h)) : Nat) ∧ t < o.n) ∧
    (∀ sec d, pk = xOnly sec → o.n ≤ (ofBE (H TAG_TWEAK (pk ++ h)) : Nat) →
      xOnly sec = beBytes 32 (o.x (o.mul d o.gen)).toNat →
      tweakedPubkey o H sec h = .error .tweak ∧ tweakedPrvkey o H d h = .error .tweak) :=
  ⟨tapTweak_error_iff o H pk h, tapTweak_ok_iff o H pk h,
   fun sec d e hr hx => by subst e; exact tweaked_refused sec h d hr hx⟩

theorem check_refuses_tweak_out_of_range {H : TagHash} (q s : Bytes) (c0 : UInt8) (xb path : Bytes) (m : Nat)
    (hx : xb.length = 32) (hp : path.length = 32 * m) (hm : m ≤ 128)
    (hr : o.n ≤ (ofBE (H TAG_TWEAK (xb ++ foldPath H (leafHash H (c0.toNat &&& LEAF_MASK) s) path m)) : Nat)) :
    checkOutputPubkey o H q s (c0 :: (xb ++ path)) = .error .tweak :=
  check_tweak_refused q s c0 xb path m hx hp hm hr

/-- T2x (an x that does not lift is refused on both sides): no control block whose bytes 1..32 are not
    an x-coordinate is ever answered (True or False), and neither compressed spelling of such a key
    gets an output key. -/
theorem refuses_unliftable_key {H : TagHash} (xb : Bytes) (hl : o.liftX (ofBE xb : Nat) = none) :
    (∀ q s c, (c.drop 1).take 32 = xb → ∃ e, checkOutputPubkey o H q s c = .error e) ∧
    (∀ pre h, pre = 2 ∨ pre = 3 → ∃ e, tweakedPubkey o H (pre :: xb) h = .error e) :=
  ⟨fun q s c e => check_unliftable q s c (by rw [e]; exact hl),
   fun pre h hpre => tweakedPubkey_unliftable pre xb h hpre hl⟩

/-- T3 (soundness, as a reduction): let `(q, par)` be the output key committed to the x-only internal
    key `xb` and to `tree`.  If `check_output_pubkey(q, s', c')` answers True for ANY script and control
    block, then either `(s', c')` is exactly a pair `input_script_sig` produces for a leaf of `tree`
    (same version bits, same parity bit, same internal key, same path) — or the run exhibits two distinct
    explicit preimages with one tagged-hash digest — or a second (internal key ‖ root) preimage whose
    tweak lands on the same output key.  So "altered in any bit no longer verifies" holds up to those
    two events, stated exactly. -/
theorem soundness (hev : LiftEven o) {H : TagHash} (h32 : Len32 H) (tree : Tree) (xb : Bytes)
    (hxb : xb.length = 32) (htree : ∀ s ∈ tree.scripts, s.length < 2 ^ 64)
    (q : Bytes) (par : Nat) (s' c' : Bytes) (hs' : s'.length < 2 ^ 64)
    (hq : tweakedPubkey o H (2 :: xb) (root H tree) = .ok (q, par))
    (hc : checkOutputPubkey o H q s' c' = .ok true) :
    (∃ lf ∈ leaves H tree, s' = lf.1.2 ∧ c' = controlBlock par lf.1.1 xb lf.2) ∨
    Collision H ∨ TweakAlias o H xb (root H tree) q :=
  soundness_aux hev h32 tree xb hxb htree q par s' c' hs' hq hc

/-- T1v/T3v (`check_output_pubkey` is leaf-version-agnostic): for EVERY leaf version `v` (any integer the
    caller writes; the library commits to `v & 0xFE`, so all 128 even bytes — 0xC0, 0xC2, 0x50, … — arise):
    (completeness) the control block `input_script_sig` builds for that leaf is `(parity + (v & 0xFE)) ‖ x ‖ ∅`
    and it verifies; (soundness) whatever `(s', c')` verifies against that output key carries exactly those
    version bits and that script, up to a collision / tweak alias.  No version is compared with a constant
    anywhere in the check: only the EXECUTION of the leaf is the engine's to gate by version. -/
theorem every_leaf_version (L : Lawful o G) (hp : o.p ≤ 2 ^ 256) {H : TagHash} (h32 : Len32 H)
    (sec : Bytes) (v : Nat) (s : Bytes) (P : α) (t : Int) (hs : s.length < 2 ^ 64)
    (hP : pointFromOctets o sec = .ok P)
    (ht : tapTweak o H (xOnly sec) (root H (.leaf v s)) = .ok t)
    (hQ : L.abs (tweakPoint o P t) ≠ 0) :
    (∃ par, par < 2 ∧
      inputScriptSig o H (some sec) (.leaf v s) 0 = .ok (s, controlBlock par (v &&& LEAF_MASK) (xOnly sec) []) ∧
      checkOutputPubkey o H (outKey o (tweakPoint o P t)).1 s
        (controlBlock par (v &&& LEAF_MASK) (xOnly sec) []) = .ok true) ∧
    (∀ s' c', s'.length < 2 ^ 64 →
      checkOutputPubkey o H (outKey o (tweakPoint o P t)).1 s' c' = .ok true →
      (s' = s ∧ c' = controlBlock (outKey o (tweakPoint o P t)).2 (v &&& LEAF_MASK) (xOnly sec) []) ∨
      Collision H ∨ TweakAlias o H (xOnly sec) (root H (.leaf v s)) (outKey o (tweakPoint o P t)).1) := by
  constructor
  · obtain ⟨s1, c1, h1, h2⟩ :=
      (completeness L hp h32 sec (.leaf v s) P t (Nat.zero_le _) hP ht hQ).2 0 (by rw [leaves_leaf]; simp)
    obtain ⟨e1, par, hpar, e2⟩ := iss_leaf sec (by rintro rfl; unfold pointFromOctets at hP; cases hP) v s s1 c1 h1
    subst e1 e2
    exact ⟨par, hpar, h1, h2⟩
  · intro s' c' hs' hc
    obtain ⟨-, -, hxl⟩ := pointFromOctets_spec L sec P hP
    have hq : tweakedPubkey o H (2 :: xOnly sec) (root H (.leaf v s)) = .ok (outKey o (tweakPoint o P t)) := by
      rw [spelling_independent L sec _ P t hP ht hQ]; exact tweakedPubkey_ok sec _ P t hP ht
    rcases soundness (liftEven_of_lawful L) h32 (.leaf v s) (xOnly sec) hxl (by simp [Tree.scripts]; exact hs) _ _ s' c' hs' hq hc with
      ⟨lf, hlf, e1, e2⟩ | h | h
    · left
      rw [leaves_leaf, List.mem_singleton] at hlf
      subst hlf
      exact ⟨e1, e2⟩
    · exact Or.inr (Or.inl h)
    · exact Or.inr (Or.inr h)

/-- T3v, soundness half alone, under `LiftEven` only (so it holds of the executed arithmetic): against the output
    key committed to the x-only key `xb` and the single leaf `(v, s)`, whatever `(s', c')` verifies carries
    exactly the version bits `v & 0xFE`, the committed parity, `xb`, the empty path and the script `s` — for
    EVERY `v` — or a collision / tweak alias is exhibited. -/
theorem every_leaf_version_sound (hev : LiftEven o) {H : TagHash} (h32 : Len32 H) (xb : Bytes) (hxb : xb.length = 32)
    (v : Nat) (s : Bytes) (hs : s.length < 2 ^ 64) (q : Bytes) (par : Nat)
    (hq : tweakedPubkey o H (2 :: xb) (root H (.leaf v s)) = .ok (q, par))
    (s' c' : Bytes) (hs' : s'.length < 2 ^ 64) (hc : checkOutputPubkey o H q s' c' = .ok true) :
    (s' = s ∧ c' = controlBlock par (v &&& LEAF_MASK) xb []) ∨ Collision H ∨ TweakAlias o H xb (root H (.leaf v s)) q := by
  rcases soundness hev h32 (.leaf v s) xb hxb (by simp [Tree.scripts]; exact hs) q par s' c' hs' hq hc with
    ⟨lf, hlf, e1, e2⟩ | h | h
  · left
    rw [leaves_leaf, List.mem_singleton] at hlf
    subst hlf
    exact ⟨e1, e2⟩
  · exact Or.inr (Or.inl h)
  · exact Or.inr (Or.inr h)

/-- T3k (what "commits to exactly its key" means): one (script, control block) verifies against at most one
    output key of a given length — so every single-BIT alteration of a 32-byte key that verifies is rejected —
    while keys with one big-endian value (`q`, `00 ‖ q`, …) verify alike: the key is committed to as an integer,
    its length is not (known finding `taproot.check_output_pubkey.zero_padded_key_accepted`). -/
theorem output_key_committed_as_integer (o : GroupOps α) (H : TagHash) (q q' s c : Bytes) :
    (q'.length = q.length → checkOutputPubkey o H q s c = .ok true → q' ≠ q →
      checkOutputPubkey o H q' s c ≠ .ok true) ∧
    (ofBE q' = ofBE q → checkOutputPubkey o H q' s c = checkOutputPubkey o H q s c) :=
  ⟨fun hl h hne h' => hne (output_key_unique q q' s c hl h h'), output_key_as_integer q q' s c⟩

/-- T1n (no internal key): `None` and `b""` are both BIP341's unspendable point `02 ‖ NUMS_X`, for the output key
    and for the control block (so T1 / T3 apply with `sec := numsSec`); with no tree either, the call is refused. -/
theorem nums_fallback (o : GroupOps α) (H : TagHash) (t : Tree) (i : Int) :
    outputPubkey o H none (some t) = outputPubkey o H (some numsSec) (some t) ∧
    outputPubkey o H (some []) (some t) = outputPubkey o H (some numsSec) (some t) ∧
    inputScriptSig o H none t i = inputScriptSig o H (some numsSec) t i ∧
    inputScriptSig o H (some []) t i = inputScriptSig o H (some numsSec) t i ∧
    outputPubkey o H none none = .error .missing ∧ outputPubkey o H (some []) none = .error .missing :=
  nums_fallback_aux o H t i

/-- T3m (merkle soundness alone): a (version, script, path) that folds to the root of a tree is one of
    the tree's own leaves with its own path, or a collision is in hand. -/
theorem merkle_soundness {H : TagHash} (h32 : Len32 H) (t : Tree) (v : Nat) (s path : Bytes) (m : Nat)
    (hv : v < 256) (hs : s.length < 2 ^ 64) (ht : ∀ s' ∈ t.scripts, s'.length < 2 ^ 64)
    (hp : path.length = 32 * m) (hf : foldPath H (leafHash H v s) path m = root H t) :
    ((v, s), path) ∈ leaves H t ∨ Collision H :=
  fold_sound h32 t v s path m hv hs ht hp hf

/-- T3i: the TapLeaf preimage determines the version byte and the script (CompactSize is prefix-free) -/
theorem leaf_preimage_injective (v v' : Nat) (s s' : Bytes) (hv : v < 256) (hv' : v' < 256)
    (hs : s.length < 2 ^ 64) (hs' : s'.length < 2 ^ 64)
    (h : UInt8.ofNat v :: varBytes s = UInt8.ofNat v' :: varBytes s') : v = v' ∧ s = s' :=
  leafMsg_inj v v' s s' hv hv' hs hs' h

/-- T4 (length gate): the two guards let through exactly the lengths `33 + 32·m`, `m ≤ 128` — and the
    length 1 (Python's floor division makes `m = -1`; such a block is then refused, its internal key
    being the empty string, x = 0).  The refusal kinds are: too long above the cap, bad length else. -/
theorem length_gate (len : Nat) :
    ((∃ m, lengthGate len = .ok m) ↔ (len = 1 ∨ ∃ m : Nat, m ≤ 128 ∧ len = 33 + 32 * m)) ∧
    (∀ m, lengthGate len = .ok m ↔ (len ≤ 33 + 32 * 128 ∧ (len : Int) = 33 + 32 * m)) ∧
    (∀ e, lengthGate len = .error e →
      (e = .toolong ∧ len > 33 + 32 * 128) ∨ (e = .badlen ∧ ¬ ∃ m : Int, (len : Int) = 33 + 32 * m)) :=
  ⟨lengthGate_passes_iff len, lengthGate_spec len, lengthGate_error len⟩

/-- T4b (the bits are read from the right positions): on a block `c0 ‖ xb ‖ path` the verdict depends on
    `c0` only through `c0 & 0xFE` (the leaf version hashed into the leaf) and `c0 & 1` (compared with the
    parity of the output point), on bytes 1..32 as the internal key and on the rest as the path. -/
theorem control_block_fields (o : GroupOps α) (H : TagHash) (q script : Bytes) (c0 : UInt8) (xb path : Bytes)
    (m : Nat) (hx : xb.length = 32) (hp : path.length = 32 * m) (hm : m ≤ 128) :
    checkOutputPubkey o H q script (c0 :: (xb ++ path)) = checkFields o H q script c0.toNat xb path m :=
  check_eq o H q script c0 xb path m hx hp hm

/-- T1p (**the control-block path proves its leaf, EVERY tree shape** — induction over the tree): `tree_helper`'s answer
    is, position by position in tree order, `(leaf at the position, pathOf tree position)`; and at every position that
    holds a leaf `(v, s)`: the path has one 32-byte node per level, the position is no deeper than the tree, the version
    is the masked one, and `foldPath (leafHash v s) (pathOf tree position) = merkle root` — the `k < e` test going up
    being the sort `tree_helper` applied going down. -/
theorem path_of_every_leaf_folds_to_root {H : TagHash} (h32 : Len32 H) (t : Tree) :
    (leaves H t).map some = t.positions.map (fun p => (t.leafAt p).map (fun lf => (lf, pathOf H t p))) ∧
    (leaves H t).map (·.1) = t.flatten ∧
    ∀ (p : List Bool) (v : Nat) (s : Bytes), t.leafAt p = some (v, s) →
      (pathOf H t p).length = 32 * p.length ∧ p.length ≤ t.depth ∧
      foldPath H (leafHash H v s) (pathOf H t p) p.length = root H t ∧ v &&& LEAF_MASK = v :=
  ⟨leaves_eq_positions H t, leaves_fst H t, pathOf_folds h32 t⟩

/-- T1c (control-block CONSTRUCTION, any group operations, any key — `None` / `b""` included — any tree): whatever
    `input_script_sig(key, tree, i)` answers is the script of the `i`-th leaf `(v, s)` in tree order and the block
    `(parity + v) ‖ x-only internal key ‖ pathOf tree (i-th position)`, parity and key being the ones the output side
    answers for the same arguments, and that path folds the leaf to the merkle root (T1p); it answers for exactly
    `0 ≤ i < number of leaves` (a negative index is refused, never read from the end) once the output side has answered. -/
theorem control_block_construction (o : GroupOps α) {H : TagHash} (h32 : Len32 H) (sec : Option Bytes) (tree : Tree)
    (i : Int) :
    (∀ s c, inputScriptSig o H sec tree i = .ok (s, c) →
      ∃ q par pos v, outputPubkeyAndInternalKey o H sec (some tree) =
          .ok (q, par, xOnly ((truthyKey sec).getD numsSec)) ∧
        0 ≤ i ∧ tree.positions[i.toNat]? = some pos ∧ tree.flatten[i.toNat]? = some (v, s) ∧
        tree.leafAt pos = some (v, s) ∧
        c = controlBlock par v (xOnly ((truthyKey sec).getD numsSec)) (pathOf H tree pos) ∧
        c.length = 1 + (xOnly ((truthyKey sec).getD numsSec)).length + 32 * pos.length ∧ pos.length ≤ tree.depth ∧
        foldPath H (leafHash H v s) (pathOf H tree pos) pos.length = root H tree) ∧
    (∀ r, outputPubkeyAndInternalKey o H sec (some tree) = .ok r →
      (0 ≤ i ∧ i < tree.flatten.length → ∃ s c, inputScriptSig o H sec tree i = .ok (s, c)) ∧
      (¬ (0 ≤ i ∧ i < tree.flatten.length) → inputScriptSig o H sec tree i = .error .index)) := by
  constructor
  · intro s c h
    obtain ⟨q, par, lf, hk, hi, hl, hs, hc⟩ := iss_shape o H sec tree i s c h
    obtain ⟨pos, hp, hla, hpath⟩ := leaves_get H tree i.toNat lf hl
    obtain ⟨⟨v, s0⟩, path⟩ := lf
    simp only at hs hc hla hpath
    subst hs hpath
    obtain ⟨h1, h2, h3, -⟩ := pathOf_folds h32 tree pos v s hla
    have hfl : tree.flatten[i.toNat]? = some (v, s) := by
      rw [← leaves_fst H tree, List.getElem?_map, hl]; rfl
    refine ⟨q, par, pos, v, hk, hi, hp, hfl, hla, hc, ?_, h2, h3⟩
    rw [hc]; unfold controlBlock; simp [h1]; omega
  · intro r hk
    rw [← leaves_length H tree]
    exact iss_answers o H sec tree i r hk

/-- T4d (the depth check): the control block of a leaf at depth `d` is `33 + 32·d` octets; at `d ≤ 128` the length gate
    lets it through with `m = d`; for `d > 128` `check_output_pubkey` refuses it as too long whatever the key and the
    script — so a leaf deeper than `MAX_TREE_DEPTH` has no control block it can be spent with. -/
theorem depth_check (o : GroupOps α) (H : TagHash) (q s : Bytes) (c0 : UInt8) (xb path : Bytes) (d : Nat)
    (hx : xb.length = 32) (hp : path.length = 32 * d) :
    (c0 :: (xb ++ path)).length = 33 + 32 * d ∧
    (MAX_TREE_DEPTH < d → checkOutputPubkey o H q s (c0 :: (xb ++ path)) = .error .toolong) ∧
    (d ≤ MAX_TREE_DEPTH → lengthGate (c0 :: (xb ++ path)).length = .ok (d : Int)) :=
  depth_gate o H q s c0 xb path d hx hp

/-- T3m-x (merkle soundness, the colliding pair NAMED): a (version, script, path) that folds to the root of a tree is one
    of the tree's own leaves with its own path, or one of the (tag, message) pairs `check_output_pubkey` hashes on the
    claimed path (`checkPreimages`: the leaf preimage and one branch preimage per node) collides with one of the pairs
    `tree_helper` hashes in the tree (`Tree.preimages`) — two finite lists computable from the inputs. -/
theorem merkle_soundness_explicit {H : TagHash} (h32 : Len32 H) (t : Tree) (v : Nat) (s path : Bytes) (m : Nat)
    (hv : v < 256) (hs : s.length < 2 ^ 64) (ht : ∀ s' ∈ t.scripts, s'.length < 2 ^ 64)
    (hp : path.length = 32 * m) (hf : foldPath H (leafHash H v s) path m = root H t) :
    ((v, s), path) ∈ leaves H t ∨ CollisionBetween H (checkPreimages H v s path m) (t.preimages H) :=
  fold_sound_explicit h32 t v s path m hv hs ht hp hf

/-- T3x (tamper direction with every witness named): if `check_output_pubkey(q, s', c')` answers True against the key
    committed to `xb` and `tree`, then `(s', c')` is exactly an `input_script_sig` pair of `tree`, OR a collision between
    the preimages hashed on THIS block and the preimages hashed in THIS tree, OR this block's own
    `(internal key ‖ folded root)` is a second tweak preimage landing on `q`.  `soundness` is its existential shadow. -/
theorem soundness_explicit (hev : LiftEven o) {H : TagHash} (h32 : Len32 H) (tree : Tree) (xb : Bytes)
    (hxb : xb.length = 32) (htree : ∀ s ∈ tree.scripts, s.length < 2 ^ 64)
    (q : Bytes) (par : Nat) (s' c' : Bytes) (hs' : s'.length < 2 ^ 64)
    (hq : tweakedPubkey o H (2 :: xb) (root H tree) = .ok (q, par))
    (hc : checkOutputPubkey o H q s' c' = .ok true) :
    ((∃ lf ∈ leaves H tree, s' = lf.1.2 ∧ c' = controlBlock par lf.1.1 xb lf.2) ∨
     CollisionBetween H
      (checkPreimages H ((c'.headD 0).toNat &&& 254) s' (c'.drop 33) ((c'.length - 33) / 32)) (tree.preimages H) ∨
     TweakAliasAt o H xb (root H tree) q ((c'.drop 1).take 32)
      (foldPath H (leafHash H ((c'.headD 0).toNat &&& 254) s') (c'.drop 33) ((c'.length - 33) / 32))) ∧
    (∀ xs ys, CollisionBetween H xs ys → Collision H) ∧
    (∀ xb' k', TweakAliasAt o H xb (root H tree) q xb' k' → TweakAlias o H xb (root H tree) q) :=
  ⟨soundness_explicit_aux hev h32 tree xb hxb htree q par s' c' hs' hq hc,
   fun _ _ h => h.collision, fun _ _ h => h.alias⟩

/-- T6 (p2tr glue): `is_p2tr` accepts exactly `OP_1 ‖ 0x20 ‖ 32 octets` (34 octets; the three guards of `assert_p2tr`,
    constants generated from its source); `ScriptPubKey.p2tr(key, tree)` refuses exactly when `output_pubkey` does and
    otherwise answers a p2tr script whose witness program `script[2:]` IS the 32-octet output key — the `q` that T1 / T3
    are stated about, so a control block proves its leaf against the scriptPubKey's own payload. -/
theorem p2tr_script_carries_the_output_key (o : GroupOps α) (H : TagHash) (sec : Option Bytes) (tree : Option Tree) :
    (∀ spk, isP2tr spk = true ↔ ∃ q, q.length = 32 ∧ spk = p2trScript q) ∧
    (∀ e, scriptPubKeyP2tr o H sec tree = .error e ↔ outputPubkey o H sec tree = .error e) ∧
    (∀ spk, scriptPubKeyP2tr o H sec tree = .ok spk →
      ∃ q par, outputPubkey o H sec tree = .ok (q, par) ∧ q.length = 32 ∧ spk = p2trScript q ∧
        isP2tr spk = true ∧ spk.drop 2 = q ∧ spk.length = 34) :=
  ⟨isP2tr_iff, (scriptPubKeyP2tr_spec sec tree).1, (scriptPubKeyP2tr_spec sec tree).2⟩

/-- T4p (the parity bit is compared, any group operations): a (script, control block) that verifies answers `False` —
    not a refusal — once bit 0 of the block's first byte is flipped, everything else unchanged; with T4b: the verdict
    reads the parity from that bit and nothing else. -/
theorem parity_bit_is_compared (o : GroupOps α) (H : TagHash) (q s rest : Bytes) (c0 : UInt8)
    (h : checkOutputPubkey o H q s (c0 :: rest) = .ok true) :
    checkOutputPubkey o H q s ((c0 ^^^ 1) :: rest) = .ok false :=
  parity_flip q s rest c0 h

/-- T5 (`tree_helper` answers script trees of depth ≤ 128 and nothing else): a Python value is answered iff it is a
    well-formed script tree — every node a list or tuple of ONE `(int version, list script)` pair or of TWO well-formed
    nodes — nested no deeper than `MAX_TREE_DEPTH`, and then the answer is `treeHelper` of the `Tree` it spells; every
    `Tree` of depth ≤ 128, spelled with lists or with tuples, is answered with exactly the `Tree`-level result (so
    T1b / T3m speak about the public function), and every deeper one is refused ("at most 128 nesting levels"). -/
theorem tree_helper_answers_exactly_trees (H : TagHash) (v : PyVal) :
    (∀ r, treeHelperPy H v = .ok r ↔ ∃ t, WellFormed v t ∧ t.depth ≤ MAX_TREE_DEPTH ∧ r = treeHelper H t) ∧
    ((∃ e, treeHelperPy H v = .error e) ↔ ¬ ∃ t, WellFormed v t ∧ t.depth ≤ MAX_TREE_DEPTH) ∧
    (∀ t, WellFormed v t → MAX_TREE_DEPTH < t.depth → treeHelperPy H v = .error .deep) ∧
    (∀ (l : Bool) (n : Nat) (t : Tree),
      (t.depth ≤ MAX_TREE_DEPTH → treeHelperPy H (t.toPy l n) = .ok (treeHelper H t)) ∧
      (MAX_TREE_DEPTH < t.depth → treeHelperPy H (t.toPy l n) = .error .deep)) := by
  refine ⟨treeHelperPy_ok_iff H v, ?_, ?_, treeHelperPy_toPy H⟩
  · constructor
    · rintro ⟨e, he⟩ ⟨t, ht, hd⟩
      rw [(treeHelperPy_ok_iff H v _).mpr ⟨t, ht, hd, rfl⟩] at he; cases he
    · intro hn
      cases h : treeHelperPy H v with
      | error e => exact ⟨e, rfl⟩
      | ok r => obtain ⟨t, ht, hd, -⟩ := (treeHelperPy_ok_iff H v r).mp h; exact absurd ⟨t, ht, hd⟩ hn
  · intro t hw hd
    unfold treeHelperPy; rw [toTree_deep hw hd]; rfl

/-- T5r (which refusal): `tree_helper([])`, `()`, a node of three or more elements, an `int`, `None`/`str`/`bytes`
    → "invalid script tree node"; a one-element node whose element is no 2-sequence (`[[leaf]]`, `[None]`, `[(v,)]`,
    `["OP_1"]`) → "invalid script tree leaf"; a pair whose version is no `int` (or a `bool`) → TypeError on the version;
    a script that is no list (bytes, tuple, None) → TypeError on the script; below a branch at depth `d ≤ 128` the walk
    goes one level down, left subtree wholly first, and its first refusal is the answer (nothing after it is read);
    ANY value met deeper than `MAX_TREE_DEPTH` is refused for its depth before its shape is looked at; every falsy
    value is refused. -/
theorem tree_helper_refusals (H : TagHash) (l l' : Bool) (k : Nat) (b : Bytes) (z : Int) (a : Bool) (x y : PyVal) :
    treeHelperPy H (.nil l) = .error .node ∧ treeHelperPy H (.many l k) = .error .node ∧
    treeHelperPy H (.int z) = .error .node ∧ treeHelperPy H (.atom a) = .error .node ∧
    treeHelperPy H (.one l (.one l' x)) = .error .leaf ∧ treeHelperPy H (.one l (.nil l')) = .error .leaf ∧
    treeHelperPy H (.one l (.many l' k)) = .error .leaf ∧ treeHelperPy H (.one l (.atom a)) = .error .leaf ∧
    treeHelperPy H (.one l (.int z)) = .error .leaf ∧ treeHelperPy H (.cmds 1 b) = .error .leaf ∧
    treeHelperPy H (.one l (.two l' (.atom a) y)) = .error .vtype ∧
    treeHelperPy H (.one l (.two l' (.int z) (.atom a))) = .error .stype ∧
    treeHelperPy H (.one l (.two l' (.int z) (.two false x y))) = .error .stype ∧
    (∀ d e, d ≤ MAX_TREE_DEPTH → x.toTreeAt (d + 1) = .error e → (PyVal.two l x y).toTreeAt d = .error e) ∧
    (∀ d t e, d ≤ MAX_TREE_DEPTH → x.toTreeAt (d + 1) = .ok t → y.toTreeAt (d + 1) = .error e →
      (PyVal.two l x y).toTreeAt d = .error e) ∧
    (∀ d (v : PyVal), MAX_TREE_DEPTH < d → v.toTreeAt d = .error .deep) ∧
    (∀ v : PyVal, v.truthy = false → treeHelperPy H v = .error .node) := by
  refine ⟨rfl, rfl, rfl, rfl, rfl, rfl, rfl, rfl, rfl, rfl, rfl, rfl, rfl, ?_, ?_, ?_, ?_⟩
  · intro d e hd hx
    have : ¬ d > MAX_TREE_DEPTH := by omega
    simp only [PyVal.toTreeAt, this, if_false, hx]
  · intro d t e hd hx hy
    have : ¬ d > MAX_TREE_DEPTH := by omega
    simp only [PyVal.toTreeAt, this, if_false, hx, hy]
  · intro d v hd
    have : d > MAX_TREE_DEPTH := hd
    cases v <;> (unfold PyVal.toTreeAt; try split) <;> simp only [this, if_true]
  · intro v hv; unfold treeHelperPy; rw [toTree_falsy v hv]; rfl

/-- T5e (the entry points on Python values): on a well-formed tree of depth ≤ 128 `output_pubkey` / `output_prvkey` /
    `input_script_sig` are the `Tree`-level functions T1–T3 are stated about; a truthy value that is no such tree (a
    well-formed tree nested deeper than 128 included: refusal `deep`) is refused by all three with `tree_helper`'s
    refusal; a falsy one (`None`, `[]`, `()`, `0`, `""`) is key-path-only for the first two and refused by the third.
    (`hk`: the internal key, if any, is 33 or 65 octets — `_sec_from_key` judges other lengths BEFORE the tree is
    walked, and reads 32 octets as a private key: outside the model.) -/
theorem entry_points_on_python_values (o : GroupOps α) (H : TagHash) (sec : Option Bytes) (v : PyVal) (d i : Int)
    (hk : secLenBad sec = false) :
    (∀ t, WellFormed v t → t.depth ≤ MAX_TREE_DEPTH →
      outputPubkeyPy o H sec v = outputPubkey o H sec (some t) ∧
      outputPrvkeyPy o H d v = outputPrvkey o H d (some t) ∧
      inputScriptSigPy o H sec v i = inputScriptSig o H sec t i) ∧
    (∀ e, v.truthy = true → v.toTree = .error e →
      outputPubkeyPy o H sec v = .error e ∧ outputPrvkeyPy o H d v = .error e ∧
      inputScriptSigPy o H sec v i = .error e) ∧
    (∀ t, WellFormed v t → MAX_TREE_DEPTH < t.depth →
      outputPubkeyPy o H sec v = .error .deep ∧ outputPrvkeyPy o H d v = .error .deep ∧
      inputScriptSigPy o H sec v i = .error .deep) ∧
    (v.truthy = false →
      outputPubkeyPy o H sec v = outputPubkey o H sec none ∧ outputPrvkeyPy o H d v = outputPrvkey o H d none ∧
      ∃ e, inputScriptSigPy o H sec v i = .error e) := by
  refine ⟨fun t hw hd => entry_points_wellFormed o H sec v t d i hw hd hk,
    fun e ht he => entry_points_malformed o H sec v e d i ht he hk,
    fun t hw hd => entry_points_malformed o H sec v .deep d i (wellFormed_truthy hw) (toTree_deep hw hd) hk,
    fun hf => ?_⟩
  obtain ⟨h1, h2, h3, h4⟩ := entry_points_falsy o H sec v d i hf
  refine ⟨h1, h2, ?_⟩
  cases h : outputPubkey o H sec none with
  | ok r => exact ⟨_, h3 r h⟩
  | error e => exact ⟨_, h4 e h⟩

/-- T5v (the public `leaf_hash`): a version outside one byte is refused, never wrapped; inside it the hash is the
    TapLeaf hash of `version ‖ CompactSize ‖ script`; every version the library itself passes (masked) is inside. -/
theorem leaf_hash_refuses_out_of_byte (H : TagHash) (v : Int) (s : Bytes) :
    (0 ≤ v ∧ v ≤ 255 → leafHashPub H v s = .ok (H TAG_LEAF (UInt8.ofNat v.toNat :: varBytes s))) ∧
    (¬ (0 ≤ v ∧ v ≤ 255) → leafHashPub H v s = .error .version) ∧
    (∀ w : Nat, leafHashPub H ((w &&& LEAF_MASK : Nat) : Int) s = .ok (leafHash H (w &&& LEAF_MASK) s)) :=
  ⟨(leafHashPub_spec H v s).1, (leafHashPub_spec H v s).2, fun w => leafHashPub_masked H w s⟩

/-- T5s (leaf scripts of EVERY command kind): a one-pair node whose script is a LIST of commands — ints, strs (op-code
    names, OP_SUCCESSx, hex), bytes-like objects and anything else, mixed — is answered iff `taproot.serialize` answers
    for the list (`serializeTap`, Model/C12/Script.lean), and then with the leaf of the serialised octets; the codec's
    refusal is `tree_helper`'s: BTClibTypeError (`ctype`) for a command that is neither int, str nor bytes-like,
    BTClibValueError (`cmd`) otherwise.  So `WellFormed` — the "iff" of T5 — counts exactly the command lists btclib
    serialises. -/
theorem leaf_script_of_every_command_kind (H : TagHash) (l l' : Bool) (v : Int) (cs : List Cmd) :
    (∀ b, serializeTap cs = .ok b →
      treeHelperPy H (.one l (.two l' (.int v) (.script cs))) = .ok (treeHelper H (.leaf (v % 256).toNat b))) ∧
    (serializeTap cs = .error .type → treeHelperPy H (.one l (.two l' (.int v) (.script cs))) = .error .ctype) ∧
    (∀ e, e ≠ .type → serializeTap cs = .error e →
      treeHelperPy H (.one l (.two l' (.int v) (.script cs))) = .error .cmd) ∧
    ((∃ t, WellFormed (.one l (.two l' (.int v) (.script cs))) t) ↔ ∃ b, serializeTap cs = .ok b) := by
  have h0 : ¬ (0 > MAX_TREE_DEPTH) := by decide
  refine ⟨?_, ?_, ?_, ?_⟩
  · intro b hb
    simp only [treeHelperPy, PyVal.toTree, PyVal.toTreeAt, h0, if_false, PyVal.toLeaf, PyVal.scriptBytes, hb]; rfl
  · intro hb
    simp only [treeHelperPy, PyVal.toTree, PyVal.toTreeAt, h0, if_false, PyVal.toLeaf, PyVal.scriptBytes, hb]; rfl
  · intro e he hb
    cases e
    case type => exact absurd rfl he
    all_goals (simp only [treeHelperPy, PyVal.toTree, PyVal.toTreeAt, h0, if_false, PyVal.toLeaf, PyVal.scriptBytes, hb]; rfl)
  · constructor
    · rintro ⟨t, ht⟩
      cases ht with
      | leaf _ _ _ _ b hs => cases hs with | script _ _ h => exact ⟨b, h⟩
    · rintro ⟨b, hb⟩
      exact ⟨_, .leaf l l' v _ b (.script cs b hb)⟩

/-- T5c (what each command kind is serialised to): a bytes-like command is the MINIMAL PUSH OPERATOR for its length —
    length byte below 76, OP_PUSHDATA1 / 2 / 4 with a 1 / 2 / 4-byte little-endian length below 2^8 / 2^16 / 2^32 (all
    thresholds and op-code bytes regenerated from `_serialize_bytes_command`), refused from 2^32 on — never an op code for
    the value; an int is the push of its CScriptNum encoding (the translated `encode_num`; 0 is the empty push), refused
    outside int64; commands are serialised left to right and the first refusal is the answer; a command that is neither
    int, str nor bytes-like is a TypeError wherever it is met first. -/
theorem command_kinds_serialize (b : Bytes) (v : Int) (rest : List Cmd) :
    (b.length < 76 → pushBytes b = .ok (leBytes 1 b.length ++ b)) ∧
    (76 ≤ b.length → b.length < 256 → pushBytes b = .ok (0x4c :: leBytes 1 b.length ++ b)) ∧
    (256 ≤ b.length → b.length < 65536 → pushBytes b = .ok (0x4d :: leBytes 2 b.length ++ b)) ∧
    (65536 ≤ b.length → b.length < 4294967296 → pushBytes b = .ok (0x4e :: leBytes 4 b.length ++ b)) ∧
    (4294967296 ≤ b.length → pushBytes b = .error .value) ∧
    (¬ (MIN_SCRIPT_NUM ≤ v ∧ v ≤ MAX_SCRIPT_NUM) → intCmd v = .error .value) ∧
    (∀ e, encode_num v = .ok e → intCmd v = pushBytes e) ∧
    intCmd 0 = .ok [0] ∧
    (∀ p, pushBytes b = .ok p → serializeTap (.bytes b :: rest) = (serializeTap rest).map (p ++ ·)) ∧
    (∀ e, pushBytes b = .error e → serializeTap (.bytes b :: rest) = .error e) ∧
    (∀ p, intCmd v = .ok p → serializeTap (.int v :: rest) = (serializeTap rest).map (p ++ ·)) ∧
    (∀ e, intCmd v = .error e → serializeTap (.int v :: rest) = .error e) ∧
    serializeTap (.other :: rest) = .error .type := by
  have c1 : PUSH_DIRECT = 76 := rfl
  have c2 : PUSH_1 = 256 := rfl
  have c3 : PUSH_2 = 65536 := rfl
  have c4 : PUSH_4 = 4294967296 := rfl
  refine ⟨?_, ?_, ?_, ?_, ?_, ?_, ?_, by decide, ?_, ?_, ?_, ?_, rfl⟩
  · intro h; simp only [pushBytes, c1, h, if_true]
  · intro h1 h2
    have : ¬ b.length < 76 := by omega
    simp only [pushBytes, c1, c2, this, h2, if_true, if_false]; rfl
  · intro h1 h2
    have : ¬ b.length < 76 := by omega
    have : ¬ b.length < 256 := by omega
    simp only [pushBytes, c1, c2, c3, *, if_true, if_false]; rfl
  · intro h1 h2
    have : ¬ b.length < 76 := by omega
    have : ¬ b.length < 256 := by omega
    have : ¬ b.length < 65536 := by omega
    simp only [pushBytes, c1, c2, c3, c4, *, if_true, if_false]; rfl
  · intro h1
    have : ¬ b.length < 76 := by omega
    have : ¬ b.length < 256 := by omega
    have : ¬ b.length < 65536 := by omega
    have : ¬ b.length < 4294967296 := by omega
    simp only [pushBytes, c1, c2, c3, c4, *, if_false]
  · intro h
    simp only [intCmd, encode_num, h, not_false_eq_true, if_true]; rfl
  · intro e he; simp only [intCmd, he]
  · intro p hp; simp only [serializeTap, hp]
  · intro e he; simp only [serializeTap, he]
  · intro p hp; simp only [serializeTap, hp]
  · intro e he; simp only [serializeTap, he]

-- "OP_1" is 0x51; " op_checksig\t" is stripped and upper-cased; "ab CD" is hex pushed as data; OP_SUCCESS80 ends the script
-- with the next bytes command RAW; a lower-case "op_success80" serialises but does NOT end the script
example : serializeTap [.str [79, 80, 95, 49], .bytes [1, 2], .str [32, 111, 112, 95, 99, 104, 101, 99, 107, 115, 105, 103, 9],
    .str [97, 98, 32, 67, 68], .int 0] = .ok [0x51, 2, 1, 2, 0xac, 2, 0xab, 0xcd, 0] := by decide
example : serializeTap [.str [79, 80, 95, 83, 85, 67, 67, 69, 83, 83, 56, 48], .bytes [7, 7]] = .ok [80, 7, 7] ∧
    serializeTap [.str [79, 80, 95, 83, 85, 67, 67, 69, 83, 83, 56, 48]] = .error .value ∧
    serializeTap [.str [79, 80, 95, 83, 85, 67, 67, 69, 83, 83, 56, 49], .bytes []] = .error .value ∧
    serializeTap [.str [111, 112, 95, 115, 117, 99, 99, 101, 115, 115, 56, 48], .bytes [7]] = .ok [80, 1, 7] := by decide
example : serializeTap [.str [97, 32, 98]] = .error .value ∧ serializeTap [.bytes [], .other, .str [120]] = .error .type ∧
    serializeTap [.str [120], .other] = .error .value := by decide
example : treeHelperPy (fun _ _ => []) (.one true (.two false (.int 0xC0) (.script [.int 0, .bytes [1, 2]]))) =
    .ok ([((0xC0, [0, 2, 1, 2]), [])], []) := by decide

-- non-vacuity -----------------------------------------------------------------------------------
/-- a toy 32-byte "hash" (no collision resistance needed to exercise the definitions) -/
def Hx : TagHash := fun tag m => (tag ++ m ++ List.replicate 32 0).take 32

example : Len32 Hx := by intro t m; simp [Hx]; omega
example : lengthGate 33 = .ok 0 ∧ lengthGate 65 = .ok 1 ∧ lengthGate (33 + 32 * 128) = .ok 128 := by decide
example : lengthGate 1 = .ok (-1) ∧ lengthGate 0 = .error .badlen ∧ lengthGate 64 = .error .badlen ∧
    lengthGate (33 + 32 * 129) = .error .toolong := by decide
example : ltBytes [1, 2] [1, 2, 0] = true ∧ ltBytes [1, 255] [2] = true ∧ ltBytes [7] [7] = false := by decide
example : TAG_LEAF ≠ TAG_BRANCH ∧ TAG_BRANCH ≠ TAG_TWEAK := by decide
example : (0xC1 &&& LEAF_MASK = 0xC0) ∧ (0xC1 &&& PARITY_MASK = 1) := by decide
-- T6: the three guards of `assert_p2tr`, and a script that passes them
example : assertP2tr (p2trScript (List.replicate 32 7)) = none ∧ assertP2tr (p2trScript (List.replicate 31 7)) = some 0 ∧
    assertP2tr (0 :: 0x20 :: List.replicate 32 7) = some 1 ∧ assertP2tr (0x51 :: 0x21 :: List.replicate 32 7) = some 2 := by
  decide

-- T5: `[[(0xC1, ["OP_1"])], ((-1, ["OP_2"]),)]` is a tree (versions read as 0xC0 and 0xFE); `[leaf, leaf, leaf]`, `[]`, `[[leaf]]` are not
example : WellFormed (.two true (.one true (.two false (.int 0xC1) (.cmds 1 [0x51]))) (.one false (.two false (.int (-1)) (.cmds 1 [0x52]))))
    (.node (.leaf 0xC1 [0x51]) (.leaf 255 [0x52])) ∧ (Btc.Taproot.Tree.node (.leaf 0xC1 [0x51]) (.leaf 255 [0x52])).depth ≤ MAX_TREE_DEPTH :=
  ⟨.node _ _ _ _ _ (.leaf _ _ 0xC1 _ _ (.cmds _ _)) (.leaf _ _ (-1) _ _ (.cmds _ _)), by decide⟩
example : treeHelperPy Hx (.two true (.one true (.two false (.int 0xC1) (.cmds 1 [0x51]))) (.nil true)) = .error .node := by decide
example : leafHashPub Hx 256 [] = .error .version ∧ leafHashPub Hx (-1) [] = .error .version ∧
    (leafHashPub Hx 255 []).isOk = true := by decide
example : secLenBad (some (2 :: beBytes 32 5)) = false ∧ secLenBad none = false ∧ secLenBad (some [2, 3]) = true := by decide


/-! the `Lawful` bundle is satisfiable (toy group ℤ/3, `Proofs/C12/Toy.lean`), and T1 / T2 / T3 instantiate on it:
    internal key x = 5 spelled `02 ‖ 5`, a three-leaf tree with an odd leaf version and a duplicated leaf,
    the all-zero "hash" (t = 0 < n = 3). -/
def H0 : TagHash := fun _ _ => List.replicate 32 0
def sec0 : Bytes := 2 :: beBytes 32 5
def tree0 : Tree := .node (.leaf 0xC1 [0x51]) (.node (.leaf 0xC0 [0x52]) (.leaf 0xC0 [0x52]))

example : Len32 H0 := fun _ _ => by simp [H0]

-- T1p / T1c / T4d on `tree0` (three leaves, an odd version, a duplicated leaf) with the toy hash `Hx`
example : tree0.positions = [[false], [true, false], [true, true]] ∧
    tree0.flatten = [(0xC0, [0x51]), (0xC0, [0x52]), (0xC0, [0x52])] ∧
    tree0.leafAt [true, false] = some (0xC0, [0x52]) ∧ (pathOf Hx tree0 [true, false]).length = 64 := by decide
example : checkOutputPubkey Toy.ops Hx [] [0x51] (0xC0 :: (List.replicate 32 0 ++ List.replicate (32 * 129) 7)) = .error .toolong :=
  (depth_check Toy.ops Hx [] [0x51] 0xC0 (List.replicate 32 0) (List.replicate (32 * 129) 7) 129
    List.length_replicate List.length_replicate).2.1 (by decide)
-- T3m-x: with the all-zero hash the leaf `(0xC0, OP_3)` "folds to the root" of a one-leaf tree, and the named pair collides
example : CollisionBetween H0 (checkPreimages H0 0xC0 [0x53] [] 0) ((Tree.leaf 0xC0 [0x51]).preimages H0) :=
  (merkle_soundness_explicit (fun _ _ => by simp [H0]) (.leaf 0xC0 [0x51]) 0xC0 [0x53] [] 0 (by decide) (by decide)
    (by decide) rfl rfl).resolve_left (by decide)


example : ∃ s c, inputScriptSig Toy.ops H0 (some sec0) tree0 2 = .ok (s, c) ∧
    checkOutputPubkey Toy.ops H0 (outKey Toy.ops (tweakPoint Toy.ops 1 0)).1 s c = .ok true :=
  (completeness Toy.lawful (by decide) (fun _ _ => by simp [H0]) sec0 tree0 1 0 (by decide) (by decide +kernel)
    (by decide +kernel) (by decide +kernel)).2 2 (by decide +kernel)

example : ∃ t, tapTweak Toy.ops H0 (xOnly sec0) [] = .ok t ∧
    Toy.lawful.abs (Toy.ops.mul 1 Toy.ops.gen) = Toy.lawful.abs (tweakPoint Toy.ops 1 t) := by
  obtain ⟨t, h1, -, -, -, h2, -⟩ :=
    (key_agreement Toy.lawful (H := H0) 1 (by decide) (by decide) sec0 [] 1 (by decide +kernel)
      (Or.inl (by decide +kernel)) (by decide +kernel)).2 1 (by decide +kernel)
  exact ⟨t, h1, h2⟩

end Props.C12

/-! ## End to end: the same theorems about `Btc.EC.ops C`, no `Lawful` hypothesis

`L : Lawful o G` above is discharged by C01's capstone `Btc.C01.lawful_ec`, for every curve with `CurveOk p C` and
`p ≡ 3 (mod 4)` (proofs: Proofs/E2E/C12.lean).  The internal key is a SEC spelling that parses to a point of the
`n`-torsion: `pointFromOctets (opsSub K) sec = .ok P`, `opsSub K` being `Btc.EC.ops C` on the underlying pairs with
`lift_x` answering inside the `n`-torsion (`02 ‖ x(P)` of every such `P` with even y qualifies:
`Btc.E2E.pointFromOctets_sub_even`).  T1's conclusions are then about `Btc.EC.ops C` ITSELF; T2 compares the private
tweak over `Btc.EC.ops C` with the public tweak over `opsSub K`, identities of points being the code's `==` on raw
pairs.  The `_sub` forms below still have `hP` over `opsSub K` / `secpOps` (a noncomputable carrier: the hypothesis is
about a DIFFERENT `lift_x` than the one executed); the forms without suffix further down have none of it. -/
namespace Props.C12
open Btc Btc.EC Btc.C01 Btc.E2E Btc.Taproot Gen.Taproot

/-- T1 on btclib's arithmetic, any curve -/
theorem completeness_ec {p : ℕ} [Fact p.Prime] {C : Curve} (K : CurveOk p C) (h34 : p % 4 = 3)
    (hp : C.p ≤ 2 ^ 256) {H : TagHash} (h32 : Len32 H)
    (sec : Bytes) (tree : Tree) (P : SubPt p C) (t : ℤ) (hdepth : tree.depth ≤ 128)
    (hP : pointFromOctets (opsSub K) sec = .ok P)
    (ht : tapTweak (EC.ops C) H (xOnly sec) (root H tree) = .ok t)
    (hQ : (EC.ops C).isZero (tweakPoint (EC.ops C) P.1 t) = false) :
    pointFromOctets (EC.ops C) sec = .ok P.1 ∧
    outputPubkey (EC.ops C) H (some sec) (some tree) = .ok (outKey (EC.ops C) (tweakPoint (EC.ops C) P.1 t)) ∧
    ∀ i : ℕ, i < (leaves H tree).length →
      ∃ s c, inputScriptSig (EC.ops C) H (some sec) tree i = .ok (s, c) ∧
        checkOutputPubkey (EC.ops C) H (outKey (EC.ops C) (tweakPoint (EC.ops C) P.1 t)).1 s c = .ok true :=
  completeness_raw_ec K h34 hp h32 sec tree P t hdepth hP ht hQ

/-- T2 on btclib's arithmetic, any curve -/
theorem key_agreement_ec {p : ℕ} [Fact p.Prime] {C : Curve} (K : CurveOk p C) (h34 : p % 4 = 3) {H : TagHash}
    (d : ℤ) (h0 : 0 < d) (h1 : d < C.n) (sec h : Bytes) (P' : SubPt p C)
    (hP : pointFromOctets (opsSub K) sec = .ok P')
    (hsame : (EC.ops C).eq P'.1 ((EC.ops C).mul d C.G) = true ∨
      (EC.ops C).eq P'.1 ((EC.ops C).neg ((EC.ops C).mul d C.G)) = true)
    (hx : xOnly sec = beBytes 32 ((EC.ops C).x ((EC.ops C).mul d C.G)).toNat) :
    (∀ e, tweakedPrvkey (EC.ops C) H d h = .error e ↔ tweakedPubkey (opsSub K) H sec h = .error e) ∧
    (∀ d2, tweakedPrvkey (EC.ops C) H d h = .ok d2 →
      ∃ t, tapTweak (EC.ops C) H (xOnly sec) h = .ok t ∧ 0 ≤ d2 ∧ d2 < C.n ∧
        tweakedPubkey (opsSub K) H sec h = .ok (outKey (EC.ops C) (tweakPoint (EC.ops C) P'.1 t)) ∧
        (EC.ops C).eq ((EC.ops C).mul d2 C.G) (tweakPoint (EC.ops C) P'.1 t) = true ∧
        ((EC.ops C).isZero (tweakPoint (EC.ops C) P'.1 t) = false →
          outKey (EC.ops C) ((EC.ops C).mul d2 C.G) = outKey (EC.ops C) (tweakPoint (EC.ops C) P'.1 t))) :=
  Btc.E2E.key_agreement_ec K h34 d h0 h1 sec h P' hP hsame hx

/-- what the taproot functions answer over `opsSub K` they answer over `Btc.EC.ops C` -/
theorem sub_answers_imp_ec {p : ℕ} [Fact p.Prime] {C : Curve} (K : CurveOk p C) (H : TagHash) :
    (∀ sec h r, tweakedPubkey (opsSub K) H sec h = .ok r → tweakedPubkey (EC.ops C) H sec h = .ok r) ∧
    (∀ sec tree r, outputPubkey (opsSub K) H sec tree = .ok r → outputPubkey (EC.ops C) H sec tree = .ok r) ∧
    (∀ sec tree i r, inputScriptSig (opsSub K) H sec tree i = .ok r → inputScriptSig (EC.ops C) H sec tree i = .ok r) ∧
    (∀ q s c b, checkOutputPubkey (opsSub K) H q s c = .ok b → checkOutputPubkey (EC.ops C) H q s c = .ok b) :=
  ⟨fun _ _ _ h => tweakedPubkey_opsSub_ok K H h, fun _ _ _ h => outputPubkey_opsSub_ok K H h,
   fun _ _ _ _ h => inputScriptSig_opsSub_ok K H h, fun _ _ _ _ h => checkOutputPubkey_opsSub_ok K H h⟩

/-- T1 on secp256k1, key parsed over the lawful carrier: `hP` is a hypothesis about the noncomputable `secpOps`
    (`lift_x` filtered to the `n`-torsion), NOT about the executed `lift_x`; superseded by `completeness_secp256k1` -/
theorem completeness_secp256k1_sub {H : TagHash}
    (h32 : Len32 H) (sec : Bytes) (tree : Tree) (P : SecpPt) (t : ℤ) (hdepth : tree.depth ≤ 128)
    (hP : pointFromOctets secpOps sec = .ok P)
    (ht : tapTweak (EC.ops secp256k1) H (xOnly sec) (root H tree) = .ok t)
    (hQ : (EC.ops secp256k1).isZero (tweakPoint (EC.ops secp256k1) P.1 t) = false) :
    pointFromOctets (EC.ops secp256k1) sec = .ok P.1 ∧
    outputPubkey (EC.ops secp256k1) H (some sec) (some tree) =
      .ok (outKey (EC.ops secp256k1) (tweakPoint (EC.ops secp256k1) P.1 t)) ∧
    ∀ i : ℕ, i < (leaves H tree).length →
      ∃ s c, inputScriptSig (EC.ops secp256k1) H (some sec) tree i = .ok (s, c) ∧
        checkOutputPubkey (EC.ops secp256k1) H
          (outKey (EC.ops secp256k1) (tweakPoint (EC.ops secp256k1) P.1 t)).1 s c = .ok true :=
  Btc.E2E.completeness_secp256k1 h32 sec tree P t hdepth hP ht hQ

/-- T2 on secp256k1, public tweak over the lawful carrier `secpOps` (see `completeness_secp256k1_sub`); superseded by
    `key_agreement_secp256k1` -/
theorem key_agreement_secp256k1_sub {H : TagHash}
    (d : ℤ) (h0 : 0 < d) (h1 : d < secp256k1.n) (sec h : Bytes) (P' : SecpPt)
    (hP : pointFromOctets secpOps sec = .ok P')
    (hsame : (EC.ops secp256k1).eq P'.1 ((EC.ops secp256k1).mul d secp256k1.G) = true ∨
      (EC.ops secp256k1).eq P'.1 ((EC.ops secp256k1).neg ((EC.ops secp256k1).mul d secp256k1.G)) = true)
    (hx : xOnly sec = beBytes 32 ((EC.ops secp256k1).x ((EC.ops secp256k1).mul d secp256k1.G)).toNat) :
    (∀ e, tweakedPrvkey (EC.ops secp256k1) H d h = .error e ↔ tweakedPubkey secpOps H sec h = .error e) ∧
    (∀ d2, tweakedPrvkey (EC.ops secp256k1) H d h = .ok d2 →
      ∃ t, tapTweak (EC.ops secp256k1) H (xOnly sec) h = .ok t ∧ 0 ≤ d2 ∧ d2 < secp256k1.n ∧
        tweakedPubkey secpOps H sec h =
          .ok (outKey (EC.ops secp256k1) (tweakPoint (EC.ops secp256k1) P'.1 t)) ∧
        (EC.ops secp256k1).eq ((EC.ops secp256k1).mul d2 secp256k1.G) (tweakPoint (EC.ops secp256k1) P'.1 t) = true ∧
        ((EC.ops secp256k1).isZero (tweakPoint (EC.ops secp256k1) P'.1 t) = false →
          outKey (EC.ops secp256k1) ((EC.ops secp256k1).mul d2 secp256k1.G) =
            outKey (EC.ops secp256k1) (tweakPoint (EC.ops secp256k1) P'.1 t))) :=
  Btc.E2E.key_agreement_secp256k1 d h0 h1 sec h P' hP hsame hx

/-- T3 on btclib's arithmetic (`Btc.EC.ops C` on raw integer pairs, as executed), any curve over an odd field size:
    no `Lawful`, no `CurveOk`, no primality — `lift_x` answering an even y is read off `y_even_var`. -/
theorem soundness_ec (C : Curve) (hodd : C.p % 2 = 1) {H : TagHash} (h32 : Len32 H) (tree : Tree) (xb : Bytes)
    (hxb : xb.length = 32) (htree : ∀ s ∈ tree.scripts, s.length < 2 ^ 64)
    (q : Bytes) (par : ℕ) (s' c' : Bytes) (hs' : s'.length < 2 ^ 64)
    (hq : tweakedPubkey (EC.ops C) H (2 :: xb) (root H tree) = .ok (q, par))
    (hc : checkOutputPubkey (EC.ops C) H q s' c' = .ok true) :
    (∃ lf ∈ leaves H tree, s' = lf.1.2 ∧ c' = controlBlock par lf.1.1 xb lf.2) ∨
    Collision H ∨ TweakAlias (EC.ops C) H xb (root H tree) q :=
  soundness (liftEven_ec C hodd) h32 tree xb hxb htree q par s' c' hs' hq hc

/-- T3 on secp256k1 with the executed SHA-256 tagged hash: NO hypothesis about group or hash is left — exactly the
    two functions the driver runs (`Btc.EC.ops secp256k1`, `Btc.taggedHash`). -/
theorem soundness_secp256k1 (tree : Tree) (xb : Bytes)
    (hxb : xb.length = 32) (htree : ∀ s ∈ tree.scripts, s.length < 2 ^ 64)
    (q : Bytes) (par : ℕ) (s' c' : Bytes) (hs' : s'.length < 2 ^ 64)
    (hq : tweakedPubkey (EC.ops secp256k1) taggedHash (2 :: xb) (root taggedHash tree) = .ok (q, par))
    (hc : checkOutputPubkey (EC.ops secp256k1) taggedHash q s' c' = .ok true) :
    (∃ lf ∈ leaves taggedHash tree, s' = lf.1.2 ∧ c' = controlBlock par lf.1.1 xb lf.2) ∨
    Collision taggedHash ∨ TweakAlias (EC.ops secp256k1) taggedHash xb (root taggedHash tree) q :=
  soundness liftEven_secp256k1 len32_taggedHash tree xb hxb htree q par s' c' hs' hq hc

/-- T3x on secp256k1 with the executed SHA-256 tagged hash: the named-witness form, NO hypothesis about group or hash -/
theorem soundness_explicit_secp256k1 (tree : Tree) (xb : Bytes)
    (hxb : xb.length = 32) (htree : ∀ s ∈ tree.scripts, s.length < 2 ^ 64)
    (q : Bytes) (par : ℕ) (s' c' : Bytes) (hs' : s'.length < 2 ^ 64)
    (hq : tweakedPubkey (EC.ops secp256k1) taggedHash (2 :: xb) (root taggedHash tree) = .ok (q, par))
    (hc : checkOutputPubkey (EC.ops secp256k1) taggedHash q s' c' = .ok true) :
    (∃ lf ∈ leaves taggedHash tree, s' = lf.1.2 ∧ c' = controlBlock par lf.1.1 xb lf.2) ∨
    CollisionBetween taggedHash
      (checkPreimages taggedHash ((c'.headD 0).toNat &&& 254) s' (c'.drop 33) ((c'.length - 33) / 32))
      (tree.preimages taggedHash) ∨
    TweakAliasAt (EC.ops secp256k1) taggedHash xb (root taggedHash tree) q ((c'.drop 1).take 32)
      (foldPath taggedHash (leafHash taggedHash ((c'.headD 0).toNat &&& 254) s') (c'.drop 33) ((c'.length - 33) / 32)) :=
  (soundness_explicit liftEven_secp256k1 len32_taggedHash tree xb hxb htree q par s' c' hs' hq hc).1

/-- T3v on secp256k1 / SHA-256: soundness for EVERY leaf version, nothing assumed -/
theorem every_leaf_version_sound_secp256k1 (xb : Bytes) (hxb : xb.length = 32)
    (v : ℕ) (s : Bytes) (hs : s.length < 2 ^ 64) (q : Bytes) (par : ℕ)
    (hq : tweakedPubkey (EC.ops secp256k1) taggedHash (2 :: xb) (root taggedHash (.leaf v s)) = .ok (q, par))
    (s' c' : Bytes) (hs' : s'.length < 2 ^ 64)
    (hc : checkOutputPubkey (EC.ops secp256k1) taggedHash q s' c' = .ok true) :
    (s' = s ∧ c' = controlBlock par (v &&& LEAF_MASK) xb []) ∨ Collision taggedHash ∨
      TweakAlias (EC.ops secp256k1) taggedHash xb (root taggedHash (.leaf v s)) q :=
  every_leaf_version_sound liftEven_secp256k1 len32_taggedHash xb hxb v s hs q par hq s' c' hs' hc

/-- T1n on secp256k1: the NUMS fallback key `02 ‖ NUMS_X` IS a point (kernel-evaluated `lift_x`), so the hypothesis
    `hP` of `completeness_secp256k1` is met by `sec := numsSec`, i.e. by `internal_pubkey = None` / `b""`
    (composed in `nums_completeness_secp256k1`). -/
theorem nums_is_a_point_secp256k1 :
    ∃ Q, pointFromOctets (EC.ops secp256k1) numsSec = .ok Q ∧ (EC.ops secp256k1).isZero Q = false :=
  nums_parses

/-- the two facts about the executed functions that T3 needs, proved -/
theorem executed_instance_facts : LiftEven (EC.ops secp256k1) ∧ Len32 taggedHash :=
  ⟨liftEven_secp256k1, len32_taggedHash⟩

/-- T1 over the RAW arithmetic (the key parses over `Btc.EC.ops C` itself; no `opsSub` in the statement), under the
    explicit cofactor-one hypothesis `hcof` and `hΔ` (restricted and unrestricted `lift_x` then agree) -/
theorem completeness_ec_cofactor_one {p : ℕ} [Fact p.Prime] {C : Curve} (K : CurveOk p C) (h34 : p % 4 = 3)
    (hcof : ∀ g : Pt p C.toCurveGroup, C.n • g = 0) (hΔ : (curveOf p C.toCurveGroup).toAffine.Δ ≠ 0)
    (hp : C.p ≤ 2 ^ 256) {H : TagHash} (h32 : Len32 H)
    (sec : Bytes) (tree : Tree) (Q : Point) (t : ℤ) (hdepth : tree.depth ≤ 128)
    (hP : pointFromOctets (EC.ops C) sec = .ok Q)
    (ht : tapTweak (EC.ops C) H (xOnly sec) (root H tree) = .ok t)
    (hQ : (EC.ops C).isZero (tweakPoint (EC.ops C) Q t) = false) :
    outputPubkey (EC.ops C) H (some sec) (some tree) = .ok (outKey (EC.ops C) (tweakPoint (EC.ops C) Q t)) ∧
    ∀ i : ℕ, i < (leaves H tree).length →
      ∃ s c, inputScriptSig (EC.ops C) H (some sec) tree i = .ok (s, c) ∧
        checkOutputPubkey (EC.ops C) H (outKey (EC.ops C) (tweakPoint (EC.ops C) Q t)).1 s c = .ok true :=
  completeness_raw_cofactor_one K h34 hcof hΔ hp h32 sec tree Q t hdepth hP ht hQ

/-- T2 over the RAW arithmetic, under `hcof`, `hΔ`: both tweaks over `Btc.EC.ops C` -/
theorem key_agreement_ec_cofactor_one {p : ℕ} [Fact p.Prime] {C : Curve} (K : CurveOk p C) (h34 : p % 4 = 3)
    (hcof : ∀ g : Pt p C.toCurveGroup, C.n • g = 0) (hΔ : (curveOf p C.toCurveGroup).toAffine.Δ ≠ 0)
    {H : TagHash} (d : ℤ) (h0 : 0 < d) (h1 : d < C.n) (sec h : Bytes) (Q : Point)
    (hP : pointFromOctets (EC.ops C) sec = .ok Q)
    (hsame : (EC.ops C).eq Q ((EC.ops C).mul d C.G) = true ∨
      (EC.ops C).eq Q ((EC.ops C).neg ((EC.ops C).mul d C.G)) = true)
    (hx : xOnly sec = beBytes 32 ((EC.ops C).x ((EC.ops C).mul d C.G)).toNat) :
    (∀ e, tweakedPrvkey (EC.ops C) H d h = .error e ↔ tweakedPubkey (EC.ops C) H sec h = .error e) ∧
    (∀ d2, tweakedPrvkey (EC.ops C) H d h = .ok d2 →
      ∃ t, tapTweak (EC.ops C) H (xOnly sec) h = .ok t ∧ 0 ≤ d2 ∧ d2 < C.n ∧
        tweakedPubkey (EC.ops C) H sec h = .ok (outKey (EC.ops C) (tweakPoint (EC.ops C) Q t)) ∧
        (EC.ops C).eq ((EC.ops C).mul d2 C.G) (tweakPoint (EC.ops C) Q t) = true ∧
        ((EC.ops C).isZero (tweakPoint (EC.ops C) Q t) = false →
          outKey (EC.ops C) ((EC.ops C).mul d2 C.G) = outKey (EC.ops C) (tweakPoint (EC.ops C) Q t))) :=
  key_agreement_raw_cofactor_one K h34 hcof hΔ d h0 h1 sec h Q hP hsame hx

/-- T1 on secp256k1 with SHA-256, NO curve-level hypothesis (cofactor one proved: `Btc.E2E.secpCofactorOne`): the key
    parses over the executed `Btc.EC.ops secp256k1`, the hash is the executed `Btc.taggedHash`.  What is left: the
    internal key is a point (`hP`), the tweak is in range (`ht`, refused otherwise: T2r), the output point is not the
    point at infinity (`hQ`). -/
theorem completeness_secp256k1
    (sec : Bytes) (tree : Tree) (Q : Point) (t : ℤ) (hdepth : tree.depth ≤ 128)
    (hP : pointFromOctets (EC.ops secp256k1) sec = .ok Q)
    (ht : tapTweak (EC.ops secp256k1) taggedHash (xOnly sec) (root taggedHash tree) = .ok t)
    (hQ : (EC.ops secp256k1).isZero (tweakPoint (EC.ops secp256k1) Q t) = false) :
    outputPubkey (EC.ops secp256k1) taggedHash (some sec) (some tree) =
      .ok (outKey (EC.ops secp256k1) (tweakPoint (EC.ops secp256k1) Q t)) ∧
    ∀ i : ℕ, i < (leaves taggedHash tree).length →
      ∃ s c, inputScriptSig (EC.ops secp256k1) taggedHash (some sec) tree i = .ok (s, c) ∧
        checkOutputPubkey (EC.ops secp256k1) taggedHash
          (outKey (EC.ops secp256k1) (tweakPoint (EC.ops secp256k1) Q t)).1 s c = .ok true :=
  Btc.E2E.completeness_secp256k1_cofactor_one Btc.E2E.secpCofactorOne len32_taggedHash sec tree Q t hdepth hP ht hQ

/-- T2 on secp256k1, NO curve-level hypothesis: both tweaks over the executed `Btc.EC.ops secp256k1` -/
theorem key_agreement_secp256k1 {H : TagHash}
    (d : ℤ) (h0 : 0 < d) (h1 : d < secp256k1.n) (sec h : Bytes) (Q : Point)
    (hP : pointFromOctets (EC.ops secp256k1) sec = .ok Q)
    (hsame : (EC.ops secp256k1).eq Q ((EC.ops secp256k1).mul d secp256k1.G) = true ∨
      (EC.ops secp256k1).eq Q ((EC.ops secp256k1).neg ((EC.ops secp256k1).mul d secp256k1.G)) = true)
    (hx : xOnly sec = beBytes 32 ((EC.ops secp256k1).x ((EC.ops secp256k1).mul d secp256k1.G)).toNat) :
    (∀ e, tweakedPrvkey (EC.ops secp256k1) H d h = .error e ↔ tweakedPubkey (EC.ops secp256k1) H sec h = .error e) ∧
    (∀ d2, tweakedPrvkey (EC.ops secp256k1) H d h = .ok d2 →
      ∃ t, tapTweak (EC.ops secp256k1) H (xOnly sec) h = .ok t ∧ 0 ≤ d2 ∧ d2 < secp256k1.n ∧
        tweakedPubkey (EC.ops secp256k1) H sec h =
          .ok (outKey (EC.ops secp256k1) (tweakPoint (EC.ops secp256k1) Q t)) ∧
        (EC.ops secp256k1).eq ((EC.ops secp256k1).mul d2 secp256k1.G) (tweakPoint (EC.ops secp256k1) Q t) = true ∧
        ((EC.ops secp256k1).isZero (tweakPoint (EC.ops secp256k1) Q t) = false →
          outKey (EC.ops secp256k1) ((EC.ops secp256k1).mul d2 secp256k1.G) =
            outKey (EC.ops secp256k1) (tweakPoint (EC.ops secp256k1) Q t))) :=
  Btc.E2E.key_agreement_secp256k1_cofactor_one Btc.E2E.secpCofactorOne d h0 h1 sec h Q hP hsame hx

/-- T1n (NUMS completeness) on secp256k1 / SHA-256, NO curve-level hypothesis: with NO internal key (`None` or `b""`)
    and any tree of depth ≤ 128, the internal key is BIP341's unspendable point `Q₀ = lift_x(NUMS_X)` (a point: kernel
    evaluation), and — the tweak being in range and the output point not at infinity — `output_pubkey` answers the
    tweak of `Q₀`, every `input_script_sig` answers a control block that names `NUMS_X` as internal key, and
    `check_output_pubkey` accepts it. -/
theorem nums_completeness_secp256k1 (tree : Tree) (hdepth : tree.depth ≤ 128) :
    ∃ Q₀, pointFromOctets (EC.ops secp256k1) numsSec = .ok Q₀ ∧ (EC.ops secp256k1).isZero Q₀ = false ∧
    ∀ t, tapTweak (EC.ops secp256k1) taggedHash NUMS_X (root taggedHash tree) = .ok t →
      (EC.ops secp256k1).isZero (tweakPoint (EC.ops secp256k1) Q₀ t) = false →
      outputPubkey (EC.ops secp256k1) taggedHash none (some tree) =
        .ok (outKey (EC.ops secp256k1) (tweakPoint (EC.ops secp256k1) Q₀ t)) ∧
      outputPubkey (EC.ops secp256k1) taggedHash (some []) (some tree) =
        .ok (outKey (EC.ops secp256k1) (tweakPoint (EC.ops secp256k1) Q₀ t)) ∧
      ∀ i : ℕ, i < (leaves taggedHash tree).length →
        ∃ s c, inputScriptSig (EC.ops secp256k1) taggedHash none tree i = .ok (s, c) ∧
          inputScriptSig (EC.ops secp256k1) taggedHash (some []) tree i = .ok (s, c) ∧
          (c.drop 1).take 32 = NUMS_X ∧
          checkOutputPubkey (EC.ops secp256k1) taggedHash
            (outKey (EC.ops secp256k1) (tweakPoint (EC.ops secp256k1) Q₀ t)).1 s c = .ok true := by
  obtain ⟨Q₀, hP, hz⟩ := nums_parses
  refine ⟨Q₀, hP, hz, fun t ht hQ => ?_⟩
  have hx : xOnly numsSec = NUMS_X := by decide
  obtain ⟨h1, h2⟩ := completeness_secp256k1 numsSec tree Q₀ t hdepth hP (by rw [hx]; exact ht) hQ
  obtain ⟨n1, n2, -⟩ := nums_fallback (EC.ops secp256k1) taggedHash tree 0
  refine ⟨n1.trans h1, n2.trans h1, fun i hi => ?_⟩
  obtain ⟨s, c, hs, hc⟩ := h2 i hi
  obtain ⟨-, -, n3, n4, -⟩ := nums_fallback (EC.ops secp256k1) taggedHash tree (i : ℤ)
  refine ⟨s, c, n3.trans hs, n4.trans hs, ?_, hc⟩
  rw [iss_xonly (EC.ops secp256k1) taggedHash numsSec (by decide) (by decide) tree i s c hs, hx]

-- non-vacuity of T1n: every hypothesis outside the conclusion is discharged for the one-leaf tree `[(0xC0, OP_1)]`
example : ∃ Q₀, pointFromOctets (EC.ops secp256k1) numsSec = .ok Q₀ ∧ (EC.ops secp256k1).isZero Q₀ = false :=
  let ⟨Q₀, h1, h2, _⟩ := nums_completeness_secp256k1 (.leaf 0xC0 [0x51]) (by decide); ⟨Q₀, h1, h2⟩

-- non-vacuity of T3 on the executed arithmetic: the toy curve `y² = x³ + 7` over `F₄₃`, internal key x = 21, the
-- three-leaf tree, the control block `input_script_sig` builds for leaf 2: every hypothesis of `soundness_ec` holds
example : (∃ lf ∈ leaves toyH0 toyTree, ([0x52] : Bytes) = lf.1.2 ∧
      (match inputScriptSig (EC.ops toyC) toyH0 (some (2 :: beBytes 32 21)) toyTree 2 with
        | .ok (_, c) => c | .error _ => []) =
        controlBlock (outKey (EC.ops toyC) (tweakPoint (EC.ops toyC) (21, 18) 0)).2 lf.1.1 (beBytes 32 21) lf.2) ∨
    Collision toyH0 ∨ TweakAlias (EC.ops toyC) toyH0 (beBytes 32 21) (root toyH0 toyTree)
      (outKey (EC.ops toyC) (tweakPoint (EC.ops toyC) (21, 18) 0)).1 :=
  soundness_ec toyC (by decide) (fun _ _ => by simp [toyH0]) toyTree (beBytes 32 21) (by decide)
    (by decide) _ _ [0x52] _ (by decide) (by decide +kernel) (by decide +kernel)

-- non-vacuity on `y² = x³ + 7` over `F₄₃` (`CurveOk` PROVED, nothing assumed): internal key `02 ‖ 21` (`4•G = (21, 18)`),
-- three-leaf tree; every hypothesis of T1 is discharged and its verdict is about btclib's arithmetic on raw pairs
example : ∃ s c, inputScriptSig (EC.ops toyC) toyH0 (some (2 :: beBytes 32 21)) toyTree 2 = .ok (s, c) ∧
    checkOutputPubkey (EC.ops toyC) toyH0 (outKey (EC.ops toyC) (tweakPoint (EC.ops toyC) (21, 18) 0)).1 s c
      = .ok true := toy_taproot_complete

end Props.C12
