import Props.C01
import Props.C02
import Props.C03
import Props.C04
import Props.C05
import Props.C06
import Props.C07
import Props.C08
import Props.C09
import Props.C10
import Props.C11
import Props.C12
import Props.C13
import Props.C14
import Props.C15
import Props.C16
import Props.C17
import Props.C18
import Props.C19
import Props.C20
/-!
All twenty property modules elaborate in ONE environment: no two of them (or of the proof files they import) declare
the same name.  Built by `tools/lb Props.All`.
-/
