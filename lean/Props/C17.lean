import Proofs.C17.PowCanon
import Proofs.C17.Merkle
import Proofs.C17.Golomb
import Model.C17.Bip158
import Proofs.C17.CompactBlocks
import Proofs.C17.Block
import Model.C17.MerkleProof
import Proofs.C17.Bip158
import Proofs.C17.PowLimit
import Proofs.C17.MerkleProof
import Proofs.C17.Bip158Spec
/-!
# C17 — block commitments: merkle roots, proofs, filters, compact blocks and targets

Property theorems only.  The proof-of-work functions are the *translated* source
(`Gen.Pow.*`, regenerated from /repo's `btclib/block/proof_of_work.py` on every run); the reference
they are proved equal to is the hand transcription of Bitcoin Core in `Model/C17/CorePow.lean`.
A compact value `nCompact` is the big-endian reading `ofBE b` of the four `bits` bytes.
-/
namespace Props.C17
open Btc Btc.Py Btc.Pow

/-! ## T7 — the compact target codec is Core's, for every input -/

/-- `target_from_bits` is `SetCompact`: refused (library ValueError) exactly on a width other than four
    bytes or when Core sets `fOverflow`; otherwise the 32-byte big-endian rendering of Core's value. -/
theorem target_from_bits_eq_core (b : Bytes) :
    Gen.Pow.target_from_bits b =
      if b.length ≠ 4 then .error .value
      else if (CorePow.setCompact (ofBE b)).overflow then .error .value
      else .ok (beBytes 32 (CorePow.setCompact (ofBE b)).value) := by
  by_cases h : b.length = 4
  · obtain ⟨x0, x1, x2, x3, rfl⟩ := len4 b h
    simp only [List.length_cons, List.length_nil, ne_eq, not_true_eq_false, if_false]
    exact target_from_bits_core4 x0 x1 x2 x3
  · simp only [ne_eq, h, not_false_eq_true, if_true]
    exact target_from_bits_bad b h

/-- `is_negative_bits` is `SetCompact`'s `fNegative` (sign bit set and a non-zero shifted magnitude). -/
theorem is_negative_bits_eq_core (b : Bytes) :
    Gen.Pow.is_negative_bits b =
      if b.length ≠ 4 then .error .value else .ok (CorePow.setCompact (ofBE b)).negative := by
  by_cases h : b.length = 4
  · obtain ⟨x0, x1, x2, x3, rfl⟩ := len4 b h
    simp only [List.length_cons, List.length_nil, ne_eq, not_true_eq_false, if_false]
    exact is_negative_bits_core4 x0 x1 x2 x3
  · simp only [ne_eq, h, not_false_eq_true, if_true]
    exact is_negative_bits_bad b h

/-- `bits_from_target` is `GetCompact` for every target of at most 32 bytes, and refuses longer ones. -/
theorem bits_from_target_eq_core (t : Bytes) :
    Gen.Pow.bits_from_target t =
      if t.length > 32 then .error .value else .ok (beBytes 4 (CorePow.getCompact (ofBE t))) := by
  by_cases h : t.length > 32
  · simp only [h, if_true]; exact bits_from_target_bad t h
  · simp only [h, if_false]; exact bits_from_target_core t (by omega)

/-- decode ∘ encode never rounds a target up: for every target of at most 32 bytes the compact form
    is accepted back (no overflow, never negative), denotes a target `≤` the original, and the loss is
    less than one unit of the last kept byte, `256^(exponent-3)` (so: exact when the exponent is ≤ 3). -/
theorem target_roundtrip_never_rounds_up (t : Bytes) (ht : t.length ≤ 32) :
    ∃ b t', Gen.Pow.bits_from_target t = .ok b ∧ Gen.Pow.target_from_bits b = .ok t' ∧
      Gen.Pow.is_negative_bits b = .ok false ∧ b.length = 4 ∧ t'.length = 32 ∧
      ofBE t' ≤ ofBE t ∧ ofBE t < ofBE t' + 256 ^ ((b.headD 0).toNat - 3) :=
  roundtrip_bytes t ht

/-- `bits_from_target ∘ target_from_bits = id` on canonical bits (`Btc.Pow.canonical`: zero, or a
    significand `0x008000 ≤ s < 0x800000` — no sign bit, minimal exponent — whose bytes dropped by an
    exponent below 3 are zero). -/
theorem canonical_bits_roundtrip (b t' : Bytes) (hb4 : b.length = 4)
    (hc : canonical (b.headD 0).toNat (ofBE (b.drop 1)))
    (ht : Gen.Pow.target_from_bits b = .ok t') :
    Gen.Pow.bits_from_target t' = .ok b := by
  obtain ⟨x0, x1, x2, x3, rfl⟩ := len4 b hb4
  exact canonical_roundtrip4 x0 x1 x2 x3 hc t' ht

/-- …and canonical is exactly the image: every output of `bits_from_target` is canonical. -/
theorem bits_from_target_canonical (t b : Bytes) (ht : t.length ≤ 32) (hb : Gen.Pow.bits_from_target t = .ok b) :
    canonical (b.headD 0).toNat (ofBE (b.drop 1)) := by
  have hv : ofBE t < 256 ^ 32 := Nat.lt_of_lt_of_le (ofBE_lt t) (Nat.pow_le_pow_right (by omega) ht)
  obtain ⟨b1, b2⟩ := compactOf_bounds _ hv
  rw [bits_from_target_eq t ht] at hb
  cases hb
  have hc := compactOf_canonical (ofBE t)
  simp only [List.headD_cons, List.drop_one, List.tail_cons]
  have he : (UInt8.ofNat (compactOf (ofBE t)).1).toNat = (compactOf (ofBE t)).1 := by
    simp [UInt8.toNat_ofNat']; omega
  rw [he, ofBE_beBytes, Nat.mod_eq_of_lt (by norm_num; omega)]
  exact hc

/-! ## T8 — retarget and work -/

/-- `next_bits` (integer core: `timespan` = seconds between the two block times) is Core's
    `CalculateNextWorkRequired` for every timespan, including the 256-bit wrap of the product,
    whenever neither compact form overflows. -/
theorem next_bits_eq_core (b l : Bytes) (ts : Int) (hb4 : b.length = 4) (hl4 : l.length = 4)
    (hb : (CorePow.setCompact (ofBE b)).overflow = false)
    (hl : (CorePow.setCompact (ofBE l)).overflow = false) :
    Gen.Pow.next_bits b l ts =
      .ok (beBytes 4 (CorePow.calculateNextWorkRequired (ofBE b) ts (CorePow.setCompact (ofBE l)).value)) := by
  obtain ⟨x0, x1, x2, x3, rfl⟩ := len4 b hb4
  obtain ⟨y0, y1, y2, y3, rfl⟩ := len4 l hl4
  exact next_bits_core4 x0 x1 x2 x3 y0 y1 y2 y3 ts hb hl

/-- Core holds mainnet's `powLimit` as the uint256 `2^224 - 1`; btclib as `target_from_bits(1d00ffff)`
    = `0xffff·2^208`.  Clamping to either gives the same compact result (everything in between encodes as
    `1d00ffff`), so `next_bits_eq_core` with btclib's limit IS Core's mainnet/testnet retarget.
    (Other networks' limits: regtest never retargets; not proved for arbitrary limits.) -/
theorem next_bits_core_mainnet_limit (nBits : Nat) (ts : Int) :
    CorePow.calculateNextWorkRequired nBits ts (2 ^ 224 - 1) =
      CorePow.calculateNextWorkRequired nBits ts (CorePow.setCompact 0x1d00ffff).value := by
  rw [bitsMainnetLimit_eq]
  exact next_work_limit_same nBits ts

/-- regtest: Core holds `powLimit` as the uint256 `7fff…ff` = 2^255-1, btclib as `target_from_bits(207fffff)` =
    `0x7fffff·2^232`; everything in between encodes as `207fffff`, so clamping to either gives the same result.
    (Core never retargets on regtest — `fPowNoRetargeting` — but `next_bits` can be asked.) -/
theorem next_bits_core_regtest_limit (nBits : Nat) (ts : Int) :
    CorePow.calculateNextWorkRequired nBits ts (2 ^ 255 - 1) =
      CorePow.calculateNextWorkRequired nBits ts (CorePow.setCompact 0x207fffff).value := by
  rw [bitsRegtestLimit_eq]
  exact next_work_limit_same_gen bitsRegtestLimit coreRegtestLimit (32, 0x7fffff)
    (by unfold bitsRegtestLimit coreRegtestLimit; norm_num) (by unfold coreRegtestLimit; norm_num)
    compactOf_top_regtest nBits ts

/-- signet (default challenge): Core's `powLimit` `00000377ae00…00` IS `target_from_bits(1e0377ae)`, nothing to bridge;
    testnet3/4 share mainnet's.  With `next_bits_eq_core` (any non-overflowing limit bits) every network's retarget is
    Core's. -/
theorem next_bits_core_signet_limit : (CorePow.setCompact 0x1e0377ae).value = 0x377ae * 2 ^ 216 :=
  bitsSignetLimit_eq

/-- the retarget clamp: the measured timespan enters only through its value clamped to `[T/4, 4T]`
    (`T` = 1 209 600 s): shorter than 3.5 days counts as 3.5 days, longer than 8 weeks as 8 weeks. -/
theorem next_bits_timespan_clamp (nBits : Nat) (ts : Int) (powLimit : Nat) :
    CorePow.calculateNextWorkRequired nBits ts powLimit =
      CorePow.calculateNextWorkRequired nBits (max 302400 (min ts 4838400)) powLimit :=
  next_work_clamp nBits ts powLimit

/-- `BlockHeader.assert_valid_pow(limit)` (model `Block.assertValidPow` over the TRANSLATED codec; run by the driver's
    `pow.valid`, tied to the real method by the stream of that name) is Core's `CheckProofOfWork` / `DeriveTarget`:
    accepted iff the bits are not negative, do not overflow, denote a non-zero target not above the limit's, and the
    hash does not exceed the target — negative, overflowing and zero targets are all refused. -/
theorem valid_pow_iff_core (bits limitBits hash : Bytes) (hb : bits.length = 4) (hl : limitBits.length = 4) :
    Block.assertValidPow bits limitBits hash = .ok () ↔
      (CorePow.setCompact (ofBE bits)).negative = false ∧ (CorePow.setCompact (ofBE bits)).overflow = false ∧
      (CorePow.setCompact (ofBE bits)).value ≠ 0 ∧ (CorePow.setCompact (ofBE limitBits)).overflow = false ∧
      (CorePow.setCompact (ofBE bits)).value ≤ (CorePow.setCompact (ofBE limitBits)).value ∧
      ofBE hash ≤ (CorePow.setCompact (ofBE bits)).value :=
  Block.assertValidPow_ok_iff bits limitBits hash hb hl

example : Block.assertValidPow [0x20, 0x7f, 0xff, 0xff] [0x20, 0x7f, 0xff, 0xff] (0x7f :: List.replicate 31 0) = .ok () := by decide
example : Block.assertValidPow [0x20, 0x7f, 0xff, 0xff] [0x1d, 0x00, 0xff, 0xff] (List.replicate 32 0) = .error .aboveLimit := by decide
example : Block.assertValidPow [0x1d, 0x80, 0xff, 0xff] [0x1d, 0x00, 0xff, 0xff] (List.replicate 32 0) = .error .negative := by decide

/-- `block_work` is `2^256 // (target + 1)`; an overflowing, a zero and a negative compact form are refused. -/
theorem block_work_formula (b : Bytes) (hb4 : b.length = 4) :
    Gen.Pow.block_work b =
      if (CorePow.setCompact (ofBE b)).overflow then .error .value
      else if (CorePow.setCompact (ofBE b)).value = 0 then .error .value
      else if (CorePow.setCompact (ofBE b)).negative then .error .value
      else .ok ((2 ^ 256 / ((CorePow.setCompact (ofBE b)).value + 1) : Nat) : Int) := by
  obtain ⟨x0, x1, x2, x3, rfl⟩ := len4 b hb4
  exact block_work_formula4 x0 x1 x2 x3

/-- …which is Core's `GetBlockProof` (`~t / (t+1) + 1`) for EVERY four bytes: btclib raises its
    ValueError exactly where Core answers 0 (negative, overflowing or zero target), and returns
    Core's number everywhere else. -/
theorem block_work_eq_core (b : Bytes) (hb4 : b.length = 4) :
    Gen.Pow.block_work b =
      if CorePow.getBlockProof (ofBE b) = 0 then .error .value
      else .ok ((CorePow.getBlockProof (ofBE b) : Nat) : Int) := by
  obtain ⟨x0, x1, x2, x3, rfl⟩ := len4 b hb4
  have hv := setCompact_value_lt x0 x1 x2 x3
  rw [block_work_formula4 x0 x1 x2 x3, getBlockProof_eq _ (by norm_num at hv ⊢; exact hv)]
  generalize (CorePow.setCompact (ofBE [x0, x1, x2, x3])).negative = N at *
  generalize (CorePow.setCompact (ofBE [x0, x1, x2, x3])).overflow = O at *
  generalize (CorePow.setCompact (ofBE [x0, x1, x2, x3])).value = V at *
  cases O
  · by_cases h0 : V = 0
    · simp [h0]
    · have : 2 ^ 256 / (V + 1) ≠ 0 := by
        have : V + 1 ≤ 2 ^ 256 := by norm_num at hv ⊢; omega
        exact Nat.ne_of_gt (Nat.div_pos this (by omega))
      cases N
      · simp [h0, this]
        norm_num at hv
        omega
      · simp [h0]
  · simp

/-! ## T1–T3 — merkle trees, for every node hash `h` (for bytes: `h a b = H (a ++ b)`, any `H`) -/

section Merkle
open Btc.Merkle
variable {α : Type} [DecidableEq α]

/-- T1 (completeness): for every non-empty leaf list and every index, the branch of leaf `i` recomputes
    the root — or the verifier refuses it as mutated (right child equal to its sibling), and then the
    builder's `mutated` flag is raised: the refusal happens only on CVE-2012-2459 trees. -/
theorem merkle_branch_complete (h : α → α → α) (l : List α) (i : Nat) (x r : α) (m : Bool)
    (hx : l[i]? = some x) (hr : rootAndMutated h l = some (r, m)) :
    rootFromBranch h x (branch h l i) i = .ok r ∨
      (rootFromBranch h x (branch h l i) i = .error .mutated ∧ m = true) :=
  branch_complete h l i x r m hx hr

/-- a root exists exactly for non-empty lists (`"empty merkle tree"` otherwise) -/
theorem merkle_root_exists_iff (h : α → α → α) (l : List α) :
    (∃ r m, rootAndMutated h l = some (r, m)) ↔ l ≠ [] :=
  rootAndMutated_some_iff h l

/-- T2 (soundness by reduction): two (leaf, branch) pairs of the same depth verifying at the same index
    to the same root are equal — or two distinct pairs of nodes with the same hash are exhibited. -/
theorem merkle_branch_sound (h : α → α → α) (br br' : List α) (x y r : α) (i : Nat)
    (hl : br.length = br'.length)
    (h1 : rootFromBranch h x br i = .ok r) (h2 : rootFromBranch h y br' i = .ok r) :
    (x = y ∧ br = br') ∨ ∃ a b c d, (a, b) ≠ (c, d) ∧ h a b = h c d :=
  branch_sound h br br' x y r i hl h1 h2

/-- T2 against the tree: what verifies at index `i` of an unmutated tree with a branch of the honest
    depth is the leaf at `i`, or a collision is exhibited. -/
theorem merkle_proves_only_its_leaf (h : α → α → α) (l : List α) (i : Nat) (x y r : α) (br' : List α)
    (hx : l[i]? = some x) (hr : rootAndMutated h l = some (r, false))
    (hl : br'.length = (branch h l i).length) (hv : rootFromBranch h y br' i = .ok r) :
    y = x ∨ ∃ a b c d, (a, b) ≠ (c, d) ∧ h a b = h c d :=
  branch_sound_tree h l i x y r br' hx hr hl hv

/-- leftover index bits are refused -/
theorem merkle_index_fits_depth (h : α → α → α) (br : List α) (x r : α) (i : Nat)
    (hv : rootFromBranch h x br i = .ok r) : i < 2 ^ br.length :=
  rootFromBranch_index_bound h br x r i hv

/-- T2 (indexes past the last leaf — the verifier's side of CVE-2012-2459): in an unmutated tree no proof of
    the honest depth is accepted at an index `≥` the number of leaves (the phantom copies of a duplicated
    odd last node), unless a collision of the node hash is exhibited.  With `merkle_index_fits_depth`
    (`i < 2^depth`) and `merkle_proves_only_its_leaf` (`i < length`) every index is covered.
    NOTE: like every soundness theorem here, the DEPTH (`br'.length`) is assumed honest; see `inner_node_check`. -/
theorem merkle_no_leaf_past_the_end (h : α → α → α) (l : List α) (r : α) (i : Nat) (y : α) (br' : List α)
    (hr : rootAndMutated h l = some (r, false)) (hi : l.length ≤ i)
    (hl : br'.length = (branch h l 0).length) (hv : rootFromBranch h y br' i = .ok r) :
    ∃ a b c d, (a, b) ≠ (c, d) ∧ h a b = h c d :=
  out_of_range_loop h r l.length l (Nat.le_refl _) hr i y br' hi hl hv

/-- the `check_inner_node` callback (`_assert_inner_node_is_not_a_tx`, CVE-2017-12842), `bad l r` = "the 64
    bytes `l ‖ r` are a serialized transaction": the checked verifier accepts exactly when the plain one does
    and NO pair hashed on the way up is refused by the callback — an accepted proof never passes through a
    node that is a transaction.  This is all the check gives: the depth of the tree itself is not derived
    (a verifier holding a branch alone cannot know it), which is why the soundness theorems assume it. -/
theorem inner_node_check (h : α → α → α) (bad : α → α → Bool) (br : List α) (x r : α) (i : Nat) :
    rootFromBranchChecked h bad x br i = .ok r ↔
      rootFromBranch h x br i = .ok r ∧ ∀ p ∈ pathPairs h x br i, bad p.1 p.2 = false :=
  checked_ok_iff h bad br x r i

/-- what the EXECUTED verifier's acceptance means (`Merkle.proofVerify` = `merkle_proof.verify`, the function the
    driver runs on the `mk.proof` stream, with the 64-byte inner-node refusal instantiated at the executed
    recogniser `MerkleProof.innerNodeIsTx`), for any hash `H`: widths and sign are right, the plain verifier
    recomputes the (internal-order) root, and no 64-byte pair hashed on the way up is a serialized transaction. -/
theorem proof_verify_accepts (H : Bytes → Bytes) (txid : Bytes) (br : List Bytes) (index : Int) (root : Bytes)
    (hv : proofVerify H MerkleProof.innerNodeIsTx txid br index root = true) :
    0 ≤ index ∧ txid.length = 32 ∧ root.length = 32 ∧ (∀ s ∈ br, s.length = 32) ∧
    rootFromBranch (fun a b => H (a ++ b)) txid.reverse (br.map List.reverse) index.toNat = .ok root.reverse ∧
    ∀ p ∈ pathPairs (fun a b => H (a ++ b)) txid.reverse (br.map List.reverse) index.toNat,
      MerkleProof.innerNodeIsTx (p.1 ++ p.2) = false := by
  unfold proofVerify at hv
  simp only [Bool.and_eq_true, beq_iff_eq, List.all_eq_true] at hv
  obtain ⟨⟨⟨hroot, htx⟩, hbr⟩, hm⟩ := hv
  have hall : ∀ s ∈ br.map List.reverse, s.length = 32 := by
    intro s hs
    obtain ⟨t, ht, rfl⟩ := List.mem_map.mp hs
    simpa using hbr t ht
  cases hres : rootFromBranchBytesChecked H MerkleProof.innerNodeIsTx txid.reverse (br.map List.reverse) index with
  | error e => rw [hres] at hm; cases hm
  | ok r =>
    rw [hres] at hm
    simp only [beq_iff_eq] at hm
    have hr : r = root.reverse := by rw [← hm]; simp
    subst hr
    unfold rootFromBranchBytesChecked at hres
    by_cases hneg : index < 0
    · simp [hneg] at hres
    · simp only [hneg, if_false, List.length_reverse, htx, ne_eq, not_true_eq_false] at hres
      rw [rootFromBranchBytesCheckedLoop_eq H _ _ _ _ hall, checked_ok_iff] at hres
      exact ⟨by omega, htx, hroot, fun s hs => hbr s hs, hres.1, hres.2⟩

/-- T2 for the executed verifier: if `proofVerify` accepts `(txid, branch, index)` against the root of an
    unmutated tree `l` (internal byte order) — UNDER THE DEPTH ASSUMPTION `hd` (the branch has the tree's depth;
    a verifier holding a branch alone cannot derive it, and `innerNodeIsTx` only excludes paths through a
    64-byte transaction) — then `index` is a position of the tree and the txid is the leaf there, or two
    distinct node pairs with equal hash are exhibited. -/
theorem proof_verify_sound (H : Bytes → Bytes) (l : List Bytes) (txid : Bytes) (br : List Bytes) (index : Int)
    (root : Bytes)
    (hr : rootAndMutated (fun a b => H (a ++ b)) l = some (root.reverse, false))
    (hd : br.length = (branch (fun a b => H (a ++ b)) l 0).length)
    (hv : proofVerify H MerkleProof.innerNodeIsTx txid br index root = true) :
    (0 ≤ index ∧ l[index.toNat]? = some txid.reverse) ∨
      ∃ a b c d, (a, b) ≠ (c, d) ∧ H (a ++ b) = H (c ++ d) := by
  obtain ⟨h0, _, _, _, hplain, _⟩ := proof_verify_accepts H txid br index root hv
  have hd' : (br.map List.reverse).length = (branch (fun a b => H (a ++ b)) l 0).length := by simpa using hd
  by_cases hi : index.toNat < l.length
  · have hx : l[index.toNat]? = some l[index.toNat] := List.getElem?_eq_getElem hi
    have hl : (br.map List.reverse).length = (branch (fun a b => H (a ++ b)) l index.toNat).length := by
      rw [hd']
      exact branch_length_eq _ _ l.length l l 0 index.toNat (Nat.le_refl _) rfl
    rcases branch_sound_tree _ l index.toNat l[index.toNat] txid.reverse root.reverse _ hx hr hl hplain with e | c
    · left; exact ⟨h0, by rw [hx, e]⟩
    · right; exact c
  · right
    exact out_of_range_loop _ root.reverse l.length l (Nat.le_refl _) hr index.toNat txid.reverse _ (by omega) hd' hplain

/-- `inner_node_check` on the EXECUTED byte-level verifier (`rootFromBranchBytesChecked` = `merkle_root_from_branch(…,
    check_inner_node)`, the function the driver runs on `mk.verifyc`; `isTx` = the callback raises, executed at
    `MerkleProof.innerNodeIsTx`), exactly: accepted with root `r` iff the index is not negative, the leaf and every
    sibling are 32 bytes, the plain abstract verifier recomputes `r`, and no 64-byte pair hashed on the way up is
    refused by the callback. -/
theorem inner_node_check_bytes (H : Bytes → Bytes) (isTx : Bytes → Bool) (leaf : Bytes) (br : List Bytes)
    (index : Int) (r : Bytes) :
    rootFromBranchBytesChecked H isTx leaf br index = .ok r ↔
      0 ≤ index ∧ leaf.length = 32 ∧ (∀ s ∈ br, s.length = 32) ∧
      rootFromBranch (fun a b => H (a ++ b)) leaf br index.toNat = .ok r ∧
      ∀ p ∈ pathPairs (fun a b => H (a ++ b)) leaf br index.toNat, isTx (p.1 ++ p.2) = false :=
  checkedBytes_ok_iff H isTx leaf br index r

/-- completeness of the executed verifier, `verify(prove(txs, i)) = True`: for a hash with 32-byte output (`hH`), a
    tree of 32-byte leaves (`hw`) that is not flagged mutated (`hr`), the leaf at `i` with its merkle branch (display
    order = each string reversed) is accepted against the root.  Hypothesis `hno` is necessary, not technical: an
    honest tree one of whose 64-byte inner pairs on that path parses as a transaction IS refused (CVE-2017-12842 rule);
    for `isTx = fun _ => false` (the plain verifier) it is void. -/
theorem proof_verify_complete (H : Bytes → Bytes) (hH : ∀ b, (H b).length = 32) (isTx : Bytes → Bool)
    (l : List Bytes) (i : Nat) (x root : Bytes) (hw : ∀ y ∈ l, y.length = 32)
    (hx : l[i]? = some x) (hr : rootAndMutated (fun a b => H (a ++ b)) l = some (root, false))
    (hno : ∀ p ∈ pathPairs (fun a b => H (a ++ b)) x (branch (fun a b => H (a ++ b)) l i) i, isTx (p.1 ++ p.2) = false) :
    proofVerify H isTx x.reverse ((branch (fun a b => H (a ++ b)) l i).map List.reverse) (i : Int) root.reverse = true :=
  proofVerify_complete H hH isTx l i x root hw hx hr hno

/-- a proof binds its leaf: two proofs of the same depth accepted by the executed verifier at the same index against
    the same root carry the same txid and the same siblings — or two distinct node pairs with equal hash are
    exhibited.  (With `proof_verify_sound`: at index `i` of an unmutated tree only `l[i]` verifies, so a proof for leaf
    `a` at `i` verifies at another index `j` only if `l[j] = a` as well, and for another leaf at `i` never.) -/
theorem proof_verify_binds (H : Bytes → Bytes) (txid txid' : Bytes) (br br' : List Bytes) (index : Int) (root : Bytes)
    (hd : br.length = br'.length)
    (h1 : proofVerify H MerkleProof.innerNodeIsTx txid br index root = true)
    (h2 : proofVerify H MerkleProof.innerNodeIsTx txid' br' index root = true) :
    (txid = txid' ∧ br = br') ∨ ∃ a b c d, (a, b) ≠ (c, d) ∧ H (a ++ b) = H (c ++ d) := by
  obtain ⟨_, _, _, _, p1, _⟩ := proof_verify_accepts H txid br index root h1
  obtain ⟨_, _, _, _, p2, _⟩ := proof_verify_accepts H txid' br' index root h2
  rcases branch_sound _ _ _ _ _ _ _ (by simpa using hd) p1 p2 with ⟨e1, e2⟩ | c
  · left
    refine ⟨List.reverse_injective e1, ?_⟩
    exact (List.map_injective_iff.mpr List.reverse_injective) e2
  · right; exact c

/-- T3: `mutated` is raised iff some level the loop visits holds an equal pair at an even position. -/
theorem merkle_mutated_iff (h : α → α → α) (l : List α) (r : α) (m : Bool)
    (hr : rootAndMutated h l = some (r, m)) :
    m = true ↔ ∃ lvl ∈ levels h l.length l, ∃ k x, lvl[2 * k]? = some x ∧ lvl[2 * k + 1]? = some x := by
  rw [mutated_iff_levels h l.length l (Nat.le_refl _) r m hr]
  constructor
  · rintro ⟨lvl, hm, hl⟩; exact ⟨lvl, hm, (levelMutated_iff lvl).mp hl⟩
  · rintro ⟨lvl, hm, hl⟩; exact ⟨lvl, hm, (levelMutated_iff lvl).mpr hl⟩

/-- T3 (CVE-2012-2459): repeating the last node of an odd level (≥ 3 nodes) keeps the root and raises the flag. -/
theorem merkle_dup_tail (h : α → α → α) (pre : List α) (z : α) (hp : pre.length % 2 = 0) (h2 : 2 ≤ pre.length) :
    rootAndMutated h (pre ++ [z, z]) = (rootAndMutated h (pre ++ [z])).map (fun p => (p.1, true)) :=
  dup_tail h pre z hp h2

/-- the byte-level verifier (`merkle_root_from_branch` with its 32-byte width checks) is the abstract one
    on well-sized input, for any hash `H`. -/
theorem merkle_bytes_verifier (H : Bytes → Bytes) (leaf : Bytes) (br : List Bytes) (index : Int)
    (hi : 0 ≤ index) (hl : leaf.length = 32) (hall : ∀ s ∈ br, s.length = 32) :
    rootFromBranchBytes H leaf br index = rootFromBranch (fun a b => H (a ++ b)) leaf br index.toNat :=
  rootFromBranchBytes_eq H leaf br index hi hl hall

-- non-vacuity for the executed verifier: toy hash (first 32 bytes of the pair, incremented), two leaves
example : proofVerify (fun b => (b.take 32).map (· + 1)) MerkleProof.innerNodeIsTx
    (List.replicate 32 7) [List.replicate 32 9] 0 (List.replicate 32 8) = true := by decide
-- …and refused when the 64-byte pair is a serialized transaction (version 1, one input, one output, locktime 0)
example : MerkleProof.innerNodeIsTx
    ([1, 0, 0, 0, 1] ++ List.replicate 32 0xAA ++ [0, 0, 0, 0, 0] ++ [5, 0, 0, 0] ++ [1] ++
     [9, 0, 0, 0, 0, 0, 0, 0] ++ [4, 0x51, 0x52, 0x53, 0x54] ++ [0, 0, 0, 0]) = true := by decide

-- the byte-level iff on the same toy proof (both sides hold), and the completeness statement's hypotheses met:
-- two 32-byte leaves, toy hash with 32-byte output, pair not a transaction
example : rootFromBranchBytesChecked (fun b => (b.take 32).map (· + 1)) MerkleProof.innerNodeIsTx
    (List.replicate 32 7) [List.replicate 32 9] 0 = .ok (List.replicate 32 8) := by decide
example : rootAndMutated (fun a b => ((a ++ b : Bytes).take 32).map (· + 1)) [List.replicate 32 7, List.replicate 32 9]
    = some (List.replicate 32 8, false) := by
  simp only [rootAndMutated, rootLoop, nextLevel, levelMutated]
  decide

-- non-vacuity on a three-leaf tree over a toy hash
example : rootAndMutated (fun a b : Nat => 10 * a + b) [1, 2, 3] = some (153, false) := by
  simp [rootAndMutated, rootLoop, nextLevel, levelMutated]
example : branch (fun a b : Nat => 10 * a + b) [1, 2, 3] 2 = [3, 12] := by
  simp [branch, nextLevel, sibling, sibIdx]
example : rootFromBranch (fun a b : Nat => 10 * a + b) 3 [3, 12] 2 = .ok 153 := by decide
example : rootAndMutated (fun a b : Nat => 10 * a + b) [1, 2, 3, 3] = some (153, true) := by
  simp [rootAndMutated, rootLoop, nextLevel, levelMutated]
example : rootFromBranch (fun a b : Nat => 10 * a + b) 3 [3, 12] 3 = .error .mutated := by decide

end Merkle

/-! ## T4–T5 — Golomb-Rice coded sets (BIP158), for every `P` -/

section Gcs
open Btc.Golomb

/-- T4 (code word): `_golomb_decode` inverts `_golomb_encode` and leaves the rest of the stream. -/
theorem golomb_decode_encode (p v : Nat) (rest : List Bool) :
    golombDecode p (golombEncode v p ++ rest) = .ok (v, rest) :=
  golombDecode_encode p v rest

/-- T4 (writer/reader): flushing pads with fewer than eight zero bits and the reader sees the written bits. -/
theorem bit_writer_reader (bits : List Bool) :
    ∃ k, k < 8 ∧ unpack (pack bits) = bits ++ List.replicate k false :=
  unpack_pack bits

/-- T4 (`assert_exhausted`): accepted exactly when fewer than eight bits remain and all are zero. -/
theorem assert_exhausted_iff (bits : List Bool) :
    exhausted bits = .ok () ↔ bits.length < 8 ∧ valOf bits = 0 :=
  exhausted_iff bits

/-- T4 (set): for every sorted list of values below the bound, every `P`: decoding the coded set gives
    the list back (so `element_hashes` of a built filter is the sorted mapped set, and the declared
    count, the range check and the padding rule all accept what the writer wrote). -/
theorem gcs_decode_encode (p upper : Nat) (vs : List Nat) (hs : List.Pairwise (· ≤ ·) vs)
    (hb : ∀ v ∈ vs, v < upper) : decodeSet p upper vs.length (encodeSet p vs) = .ok vs :=
  decodeSet_encodeSet p upper vs hs hb

/-- T5 (merge walk): over sorted targets and sorted values `match_any`'s walk hits iff they intersect. -/
theorem match_walk_correct (vs ts : List Nat) (hts : List.Pairwise (· ≤ ·) ts) (hvs : List.Pairwise (· ≤ ·) vs) :
    walk ts vs = .hit ↔ ∃ x, x ∈ ts ∧ x ∈ vs :=
  walk_hit_iff vs ts hts hvs

/-- T5 (`match_any` on a built set): true exactly when some (hashed) target is among the coded values. -/
theorem match_any_correct (p upper : Nat) (vs targets : List Nat) (hs : List.Pairwise (· ≤ ·) vs)
    (hb : ∀ v ∈ vs, v < upper) (ht : List.Pairwise (· ≤ ·) targets) :
    matchAny p upper vs.length (encodeSet p vs) targets = .ok (decide (∃ x, x ∈ targets ∧ x ∈ vs)) :=
  matchAny_encodeSet p upper vs targets hs hb ht

/-- T5 (no false negatives), for any key / any hash-to-range map `hr` into `[0, N·M)`: the filter coded
    from the sorted images of a list of elements matches every one of them. -/
theorem filter_no_false_negative (p M : Nat) (hr : Bytes → Nat) (es : List Bytes) (e : Bytes)
    (hrange : ∀ x ∈ es, hr x < es.length * M) (he : e ∈ es) :
    matchAny p (es.length * M) es.length (encodeSet p ((es.map hr).mergeSort (· ≤ ·))) [hr e] = .ok true := by
  have hsorted : List.Pairwise (· ≤ ·) ((es.map hr).mergeSort (· ≤ ·)) := by
    have := List.pairwise_mergeSort (le := fun a b : Nat => decide (a ≤ b))
      (fun a b c hab hbc => by simp at *; omega) (fun a b => by simp; omega) (es.map hr)
    simpa using this
  have hperm := List.mergeSort_perm (es.map hr) (fun a b : Nat => decide (a ≤ b))
  have hlen : ((es.map hr).mergeSort (· ≤ ·)).length = es.length := by
    simp
  have hb : ∀ v ∈ (es.map hr).mergeSort (· ≤ ·), v < es.length * M := by
    intro v hv
    have : v ∈ es.map hr := hperm.mem_iff.mp hv
    obtain ⟨x, hx, rfl⟩ := List.mem_map.mp this
    exact hrange x hx
  have hm : hr e ∈ (es.map hr).mergeSort (· ≤ ·) := hperm.mem_iff.mpr (List.mem_map.mpr ⟨e, he, rfl⟩)
  have := no_false_negative p (es.length * M) _ (hr e) hsorted hb hm
  rw [hlen] at this
  exact this

/-- T5 on the functions the driver runs and the streams tie to btclib (`Bip158.build`, `elements`,
    `hashToRange`, `keyFromBlockHash`, `matchAnyElems`): the filter built for a block matches every element
    of its own contents rule — the range hypothesis of `filter_no_false_negative` is discharged for the
    SipHash multiply-shift map. -/
theorem bip158_build_matches_every_element (bh : Bytes) (outs prevs : List Bytes) (e : Bytes)
    (he : e ∈ Bip158.elements outs prevs) :
    Bip158.matchAnyElems bh (Bip158.build bh outs prevs).1 (Bip158.build bh outs prevs).2 [e] = .ok true :=
  Bip158.build_matches_every_element bh outs prevs e he

/-- T5 for ANY query list (repeats, any order, elements and strangers), on the functions the driver runs: `match_any`
    on the filter built for a block never errs and answers `True` exactly when some query hashes — under the block's
    key, into the filter's range `N·M` — onto the hashed value of an element of the contents rule (a member, or a
    false positive: those are not excluded, their rate is not proved). -/
theorem bip158_match_any_iff (bh : Bytes) (outs prevs qs : List Bytes) :
    Bip158.matchAnyElems bh (Bip158.build bh outs prevs).1 (Bip158.build bh outs prevs).2 qs =
      .ok (decide (∃ q ∈ qs, ∃ e ∈ Bip158.elements outs prevs,
        Bip158.hashToRange (Bip158.keyFromBlockHash bh).1 (Bip158.keyFromBlockHash bh).2 q
            ((Bip158.elements outs prevs).length * Bip158.M) =
        Bip158.hashToRange (Bip158.keyFromBlockHash bh).1 (Bip158.keyFromBlockHash bh).2 e
            ((Bip158.elements outs prevs).length * Bip158.M))) :=
  Bip158.build_matchAny_iff bh outs prevs qs

/-- …so there is no false negative whatever else is asked along: one query that is an element makes it `True`… -/
theorem bip158_no_false_negative_any_query (bh : Bytes) (outs prevs qs : List Bytes) (e : Bytes)
    (hq : e ∈ qs) (he : e ∈ Bip158.elements outs prevs) :
    Bip158.matchAnyElems bh (Bip158.build bh outs prevs).1 (Bip158.build bh outs prevs).2 qs = .ok true :=
  Bip158.build_matches_any_query bh outs prevs qs e hq he

/-- …and `False` is definitive: no query is an element. -/
theorem bip158_miss_is_definitive (bh : Bytes) (outs prevs qs : List Bytes)
    (h : Bip158.matchAnyElems bh (Bip158.build bh outs prevs).1 (Bip158.build bh outs prevs).2 qs = .ok false) :
    ∀ q ∈ qs, q ∉ Bip158.elements outs prevs :=
  Bip158.build_miss_is_definitive bh outs prevs qs h

/-- the contents rule the model's `elements` implements is BIP158's, as a set: scripts of outputs that are neither
    empty nor start with OP_RETURN (the generated constant), non-empty scripts of spent outputs, nothing else. -/
theorem bip158_contents_rule (outs prevs : List Bytes) (s : Bytes) :
    s ∈ Bip158.elements outs prevs ↔
      (s ∈ outs ∧ s ≠ [] ∧ s.head?.map (·.toNat) ≠ some Gen.Filter.OP_RETURN) ∨ (s ∈ prevs ∧ s ≠ []) :=
  Bip158.elements_spec outs prevs s

/-- 'equals the reference construction': `Bip158.build` (what the driver runs; tied to `BasicBlockFilter.from_block` by
    the `f.build` stream and the ten rows of the BIP158 vector file) is `N` = the size of the contents rule and the
    octets of BIP158's own `construct_gcs` — `Bip158.Spec`, written from the text of the BIP: `hash_to_range`, sort,
    deltas from 0, `golomb_encode` as a run of 1s, a 0 and the P low bits big-endian — with the generated `P`, `M` and
    the key read off the block hash.  (That `Spec` is BIP158 is by inspection; SipHash is a shared executable model.) -/
theorem bip158_build_is_reference_construction (bh : Bytes) (outs prevs : List Bytes) :
    Bip158.build bh outs prevs =
      ((Bip158.elements outs prevs).length,
       pack (Bip158.Spec.constructGcs (Bip158.elements outs prevs) Bip158.P
         (Bip158.keyFromBlockHash bh).1 (Bip158.keyFromBlockHash bh).2 Bip158.M)) :=
  Bip158.build_eq_reference bh outs prevs

example : Bip158.Spec.golombEncode 6 2 = [true, false, true, false] := by decide
example : Bip158.Spec.deltas 0 [1, 6, 6, 11] = [1, 5, 0, 5] := by decide
example : [0x51] ∈ Bip158.elements [[0x6a, 1], [0x51], []] [[], [0x52]] := by decide
example : ¬ [0x6a, 1] ∈ Bip158.elements [[0x6a, 1], [0x51], []] [[], [0x52]] := by decide
example : encodeSet 2 [1, 6, 6, 11] = [0x32, 0x24] := by decide
example : decodeSet 2 100 4 [0x32, 0x24] = .ok [1, 6, 6, 11] := by decide
example : decodeSet 2 100 4 [0x32, 0x25] = .error .padding := by decide
example : walk [3, 6] [1, 6, 6, 11] = .hit := by decide

end Gcs

/-! ## T6 — compact blocks (BIP152), for any short-id function -/

section Cmpct
open Btc.CompactBlocks

/-- T6 (collision handling characterised): `reconstruct` keeps every prefilled position; the position of a
    short id shows a pool transaction iff the pool holds that short id under exactly ONE wtxid (any number
    of copies, anywhere in the pool); none, or two distinct wtxids, leave it missing (to be requested). -/
theorem reconstruct_characterised (pre sids : List Nat) (pool : List (Nat × Nat)) (slots : List Slot)
    (h : reconstruct pre sids pool = .ok slots) :
    slots.length = sids.length + pre.length ∧
    (∀ j, j < sids.length + pre.length → j ∈ pre → slots[j]? = some .prefilled) ∧
    (∀ s p, (s, p) ∈ sids.zip (freePos pre (sids.length + pre.length)) → slots[p]? = some (slotOf (ws s pool))) :=
  reconstruct_slots pre sids pool slots h

/-- T6 (`fill ∘ reconstruct`): for any pool order / superset / duplicates in which no pool transaction
    shares a needed short id with a different needed transaction: every needed transaction the pool holds
    is placed, those it lacks are left missing, and filling the missing ones returns exactly the block.
    `sid` is any function of the wtxid (BIP152: `siphash(k0, k1, ·) & 2^48-1`); `hcount` is `tx_count`. -/
theorem reconstruct_then_fill (sid : Nat → Nat) (blk pre pool : List Nat) (slots : List Slot)
    (hcount : (freePos pre blk.length).length + pre.length = blk.length)
    (hcoll : ∀ w ∈ pool, ∀ j ∈ freePos pre blk.length, ∀ b, blk[j]? = some b → sid w = sid b → w = b)
    (h : reconstruct pre ((freePos pre blk.length).map fun j => sid (blk.getD j 0))
          (pool.map fun w => (sid w, w)) = .ok slots) :
    fill slots blk = blk ∧
    (∀ j ∈ freePos pre blk.length, ∀ b, blk[j]? = some b → b ∈ pool → slots[j]? = some (Slot.pool b)) ∧
    (∀ j ∈ freePos pre blk.length, ∀ b, blk[j]? = some b → b ∉ pool → slots[j]? = some Slot.missing) :=
  reconstruct_fill sid blk pre pool slots hcount hcoll h

/-- T6 on `PartialBlock.fill` as the code has it (`fillP`: count check, then the supplied transactions taken in
    order for the `None` entries): the partial block `reconstruct` returns for an announced block `blk`
    (`partialView`), filled with the block's transactions at the missing positions (`missingOf`, a `blocktxn`
    answer), is accepted and IS the block.  (`reconstruct_then_fill`'s `fill` is the proof-side shorthand.) -/
theorem partial_block_fill_is_the_block (sid : Nat → Nat) (blk pre pool : List Nat) (slots : List Slot)
    (hcount : (freePos pre blk.length).length + pre.length = blk.length)
    (hcoll : ∀ w ∈ pool, ∀ j ∈ freePos pre blk.length, ∀ b, blk[j]? = some b → sid w = sid b → w = b)
    (h : reconstruct pre ((freePos pre blk.length).map fun j => sid (blk.getD j 0))
          (pool.map fun w => (sid w, w)) = .ok slots) :
    fillP (partialView slots blk) (missingOf slots blk) = .ok blk :=
  fillP_reconstruct sid blk pre pool slots hcount hcoll h

/-- T6, the whole exchange as EXECUTED (`roundTrip` = the driver's `cb.roundtrip`, tied to the real `CmpctBlock` /
    `reconstruct` / `PartialBlock.missing_indexes` / `fill` by the stream of that name; it composes `compactOf`,
    `reconstruct`, `partialView`, `missingIndexes`, `fillP`): a non-empty block announced with valid prefilled positions
    (`hpos` = `_assert_positions`) whose own announced short ids are distinct (`hnd`), received by a node with ANY pool
    — any order, repeats, strangers, a superset or a subset of the block — comes back as exactly the block, under the
    weak collision hypothesis `hcoll`: a pool transaction may share a needed short id with a different needed
    transaction provided the pool ALSO holds the needed one (the clash is then seen, the position left missing and
    asked for).  Excluded, and not recoverable by BIP152 itself: a stranger standing alone under a needed short id (it
    is placed; the merkle root check of the filled block is what catches it — `block_root_commits_to_transactions`). -/
theorem compact_round_trip (sid : Nat → Nat) (blk pre pool : List Nat) (hne : blk ≠ [])
    (hpos : positionsOk pre blk.length = true) (hnd : hasDup (compactOf sid blk pre) = false)
    (hcoll : ∀ w ∈ pool, ∀ j ∈ freePos pre blk.length, ∀ b, blk[j]? = some b → sid w = sid b → w = b ∨ b ∈ pool) :
    ∃ missing, roundTrip sid blk pre pool = .ok (missing, blk) :=
  roundTrip_ok sid blk pre pool hne hpos hnd hcoll

/-- …and an announcement two of whose short ids coincide is refused whatever the pool (`short ids are not unique:
    re-request the block`) — never reconstructed into something else. -/
theorem compact_round_trip_refuses_collision (sid : Nat → Nat) (blk pre pool : List Nat) (hne : blk ≠ [])
    (hpos : positionsOk pre blk.length = true) (hd : hasDup (compactOf sid blk pre) = true) :
    roundTrip sid blk pre pool = .error (.reconstruct .dupShortIds) :=
  roundTrip_refuses_collision sid blk pre pool hne hpos hd

-- short id = wtxid % 7: 30 and 23 clash in the pool (30 needed, held): position asked for; 99 is a harmless stranger
example : roundTrip (· % 7) [10, 20, 30, 40] [0] [23, 20, 99, 30] = .ok ([2, 3], [10, 20, 30, 40]) := by decide
-- 20 and 27 are both IN the block and clash: refused
example : roundTrip (· % 7) [10, 20, 27] [0] [20] = .error (.reconstruct .dupShortIds) := by decide

-- block [10,20,30,40], position 0 prefilled, short id = wtxid % 7; the pool holds 30, 20 twice and a stranger
example : reconstruct [0] [20 % 7, 30 % 7, 40 % 7] [(30 % 7, 30), (20 % 7, 20), (4, 99), (20 % 7, 20)] =
    .ok [.prefilled, .pool 20, .pool 30, .missing] := by decide
example : fillP (partialView [.prefilled, .pool 20, .pool 30, .missing] [10, 20, 30, 40])
    (missingOf [.prefilled, .pool 20, .pool 30, .missing] [10, 20, 30, 40]) = .ok [10, 20, 30, 40] := by decide
example : fillP [some 10, none] [] = .error .count := by decide

example : reconstruct [0] [7, 9] [(9, 100), (5, 3), (7, 200), (9, 100), (7, 201)] =
    .ok [.prefilled, .missing, .pool 100] := by decide

end Cmpct

/-! ## block-level commitments and chain work -/

section Blk
open Btc.Block Btc.Merkle
variable {α : Type} [DecidableEq α]

/-- `Block.assert_valid_merkle_root` passes iff the header root IS the merkle root of the txids and the
    tree is not the CVE-2012-2459 mutation of a shorter list. -/
theorem block_merkle_root_valid_iff (h : α → α → α) (hr : α) (txids : List α) :
    assertMerkleRoot h hr txids = .ok () ↔ rootAndMutated h txids = some (hr, false) :=
  assertMerkleRoot_ok_iff h hr txids

/-- …so the header root commits to the transaction list: two lists of the same length valid under one
    header root are equal, or a collision of the node hash is exhibited. -/
theorem block_root_commits_to_transactions (h : α → α → α) (hr : α) (txids txids' : List α)
    (hlen : txids.length = txids'.length)
    (h1 : assertMerkleRoot h hr txids = .ok ()) (h2 : assertMerkleRoot h hr txids' = .ok ()) :
    txids = txids' ∨ ∃ a b c d, (a, b) ≠ (c, d) ∧ h a b = h c d :=
  root_commits h hr txids txids' hlen h1 h2

/-- …and every transaction of a valid block has a merkle proof the verifier accepts against the header. -/
theorem valid_block_proves_every_tx (h : α → α → α) (hr : α) (txids : List α) (i : Nat) (x : α)
    (hv : assertMerkleRoot h hr txids = .ok ()) (hx : txids[i]? = some x) :
    rootFromBranch h x (branch h txids i) i = .ok hr :=
  valid_root_proves_every_tx h hr txids i x hv hx

/-- `Block.assert_valid_witness_commitment` passes on a segwit block iff the LAST commitment output of
    the coinbase equals `H(witness_root ‖ nonce)`, `nonce` the single 32-byte coinbase witness item and
    `witness_root` the tree over (32 zero bytes, wtxid₁, …); a block without witnesses needs none. -/
theorem witness_commitment_valid_iff (H : Bytes → Bytes) (outs witness wtxids : List Bytes) :
    assertWitnessCommitment H true outs witness wtxids = .ok () ↔
      ∃ c nonce r m, witnessCommitment outs = some c ∧ witness = [nonce] ∧ nonce.length = 32 ∧
        rootAndMutated (fun a b => H (a ++ b)) (zero32 :: wtxids) = some (r, m) ∧ H (r ++ nonce) = c :=
  assertWitnessCommitment_ok_iff H outs witness wtxids

/-- T8 (`chain_work`, over the translated `block_work`): the sum of Core's `GetBlockProof`s when every
    header is one Core credits with work; the library's ValueError as soon as one is not. -/
theorem chain_work_eq_core (bs : List Bytes) :
    chainWork bs =
      if ∀ b ∈ bs, b.length = 4 ∧ CorePow.getBlockProof (ofBE b) ≠ 0
      then .ok (((bs.map fun b => CorePow.getBlockProof (ofBE b)).sum : Nat) : Int)
      else .error .value :=
  chainWork_eq bs

example : assertMerkleRoot (fun a b : Nat => 10 * a + b) 153 [1, 2, 3] = .ok () := by
  simp [assertMerkleRoot, rootAndMutated, rootLoop, nextLevel, levelMutated]
example : assertMerkleRoot (fun a b : Nat => 10 * a + b) 153 [1, 2, 3, 3] = .error .duplicate := by
  simp [assertMerkleRoot, rootAndMutated, rootLoop, nextLevel, levelMutated]

end Blk

-- non-vacuity: mainnet genesis bits, a sign-bit case, an overflow, a wrap-free retarget
example : Gen.Pow.target_from_bits [0x1d, 0x00, 0xff, 0xff] =
    .ok (beBytes 32 (0xffff * 256 ^ 26)) := by decide
example : Gen.Pow.is_negative_bits [0x04, 0x92, 0x34, 0x56] = .ok true := by decide
example : Gen.Pow.target_from_bits [0x23, 0x00, 0x00, 0x01] = .error .value := by decide
example : Gen.Pow.bits_from_target [0x80] = .ok [0x02, 0x00, 0x80, 0x00] := by decide
example : (CorePow.setCompact 0x1d00ffff).overflow = false := by decide
example : canonical 0x1d 0x00ffff := Or.inr (by decide)
example : Gen.Pow.block_work [0x1d, 0x80, 0xff, 0xff] = .error .value := by decide

end Props.C17
