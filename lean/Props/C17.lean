import Proofs.C17.PowNext
/-!
# C17 — block commitments: merkle roots, proofs, filters, compact blocks and targets

Property theorems only.  The proof-of-work functions are the *translated* source
(`Gen.Pow.*`, regenerated from /repo's `btclib/block/proof_of_work.py` on every run); the reference
they are proved equal to is the hand transcription of Bitcoin Core in `Model/C17/CorePow.lean`.
A compact value `nCompact` is the big-endian reading `ofBE b` of the four `bits` bytes.
-/
namespace Props.C17
open Btc Btc.Py Btc.Pow

/-! ## T7 — the compact target codec is Core's, for every input -/

/-- `target_from_bits` is `SetCompact`: refused (library ValueError) exactly on a width other than four
    bytes or when Core sets `fOverflow`; otherwise the 32-byte big-endian rendering of Core's value. -/
theorem target_from_bits_eq_core (b : Bytes) :
    Gen.Pow.target_from_bits b =
      if b.length ≠ 4 then .error .value
      else if (CorePow.setCompact (ofBE b)).overflow then .error .value
      else .ok (beBytes 32 (CorePow.setCompact (ofBE b)).value) := by
  by_cases h : b.length = 4
  · obtain ⟨x0, x1, x2, x3, rfl⟩ := len4 b h
    simp only [List.length_cons, List.length_nil, ne_eq, not_true_eq_false, if_false]
    exact target_from_bits_core4 x0 x1 x2 x3
  · simp only [ne_eq, h, not_false_eq_true, if_true]
    exact target_from_bits_bad b h

/-- `is_negative_bits` is `SetCompact`'s `fNegative` (sign bit set and a non-zero shifted magnitude). -/
theorem is_negative_bits_eq_core (b : Bytes) :
    Gen.Pow.is_negative_bits b =
      if b.length ≠ 4 then .error .value else .ok (CorePow.setCompact (ofBE b)).negative := by
  by_cases h : b.length = 4
  · obtain ⟨x0, x1, x2, x3, rfl⟩ := len4 b h
    simp only [List.length_cons, List.length_nil, ne_eq, not_true_eq_false, if_false]
    exact is_negative_bits_core4 x0 x1 x2 x3
  · simp only [ne_eq, h, not_false_eq_true, if_true]
    exact is_negative_bits_bad b h

/-- `bits_from_target` is `GetCompact` for every target of at most 32 bytes, and refuses longer ones. -/
theorem bits_from_target_eq_core (t : Bytes) :
    Gen.Pow.bits_from_target t =
      if t.length > 32 then .error .value else .ok (beBytes 4 (CorePow.getCompact (ofBE t))) := by
  by_cases h : t.length > 32
  · simp only [h, if_true]; exact bits_from_target_bad t h
  · simp only [h, if_false]; exact bits_from_target_core t (by omega)

/-! ## T8 — retarget and work -/

/-- `next_bits` (integer core: `timespan` = seconds between the two block times) is Core's
    `CalculateNextWorkRequired` for every timespan, including the 256-bit wrap of the product,
    whenever neither compact form overflows. -/
theorem next_bits_eq_core (b l : Bytes) (ts : Int) (hb4 : b.length = 4) (hl4 : l.length = 4)
    (hb : (CorePow.setCompact (ofBE b)).overflow = false)
    (hl : (CorePow.setCompact (ofBE l)).overflow = false) :
    Gen.Pow.next_bits b l ts =
      .ok (beBytes 4 (CorePow.calculateNextWorkRequired (ofBE b) ts (CorePow.setCompact (ofBE l)).value)) := by
  obtain ⟨x0, x1, x2, x3, rfl⟩ := len4 b hb4
  obtain ⟨y0, y1, y2, y3, rfl⟩ := len4 l hl4
  exact next_bits_core4 x0 x1 x2 x3 y0 y1 y2 y3 ts hb hl

/-- `block_work` is `2^256 // (target + 1)`; an overflowing, a zero and a negative compact form are refused. -/
theorem block_work_formula (b : Bytes) (hb4 : b.length = 4) :
    Gen.Pow.block_work b =
      if (CorePow.setCompact (ofBE b)).overflow then .error .value
      else if (CorePow.setCompact (ofBE b)).value = 0 then .error .value
      else if (CorePow.setCompact (ofBE b)).negative then .error .value
      else .ok ((2 ^ 256 / ((CorePow.setCompact (ofBE b)).value + 1) : Nat) : Int) := by
  obtain ⟨x0, x1, x2, x3, rfl⟩ := len4 b hb4
  exact block_work_formula4 x0 x1 x2 x3

/-- …which is Core's `GetBlockProof` (`~t / (t+1) + 1`) for EVERY four bytes: btclib raises its
    ValueError exactly where Core answers 0 (negative, overflowing or zero target), and returns
    Core's number everywhere else. -/
theorem block_work_eq_core (b : Bytes) (hb4 : b.length = 4) :
    Gen.Pow.block_work b =
      if CorePow.getBlockProof (ofBE b) = 0 then .error .value
      else .ok ((CorePow.getBlockProof (ofBE b) : Nat) : Int) := by
  obtain ⟨x0, x1, x2, x3, rfl⟩ := len4 b hb4
  have hv := setCompact_value_lt x0 x1 x2 x3
  rw [block_work_formula4 x0 x1 x2 x3, getBlockProof_eq _ (by norm_num at hv ⊢; exact hv)]
  generalize (CorePow.setCompact (ofBE [x0, x1, x2, x3])).negative = N at *
  generalize (CorePow.setCompact (ofBE [x0, x1, x2, x3])).overflow = O at *
  generalize (CorePow.setCompact (ofBE [x0, x1, x2, x3])).value = V at *
  cases O
  · by_cases h0 : V = 0
    · simp [h0]
    · have : 2 ^ 256 / (V + 1) ≠ 0 := by
        have : V + 1 ≤ 2 ^ 256 := by norm_num at hv ⊢; omega
        exact Nat.ne_of_gt (Nat.div_pos this (by omega))
      cases N
      · simp [h0, this]
        norm_num at hv
        omega
      · simp [h0]
  · simp

-- non-vacuity: mainnet genesis bits, a sign-bit case, an overflow, a wrap-free retarget
example : Gen.Pow.target_from_bits [0x1d, 0x00, 0xff, 0xff] =
    .ok (beBytes 32 (0xffff * 256 ^ 26)) := by decide
example : Gen.Pow.is_negative_bits [0x04, 0x92, 0x34, 0x56] = .ok true := by decide
example : Gen.Pow.target_from_bits [0x23, 0x00, 0x00, 0x01] = .error .value := by decide
example : Gen.Pow.bits_from_target [0x80] = .ok [0x02, 0x00, 0x80, 0x00] := by decide
example : (CorePow.setCompact 0x1d00ffff).overflow = false := by decide
example : Gen.Pow.block_work [0x1d, 0x80, 0xff, 0xff] = .error .value := by decide

end Props.C17
