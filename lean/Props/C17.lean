/-!
# C17 — property theorems only (see DESIGN.md §3 C17).
-/
namespace Props.C17

end Props.C17
