import Proofs.C11.Combine
import Proofs.C11.Roles
import Proofs.C11.Perm
import Proofs.C11.Modifiable
import Proofs.C11.Example
import Proofs.C11.Nest
import Proofs.C11.Wire
import Proofs.C11.Signed
/-!
# C11 — PSBT roles are lossless, order-independent, never alias their arguments

Property theorems only.  The model (`Model/C11/Combine.lean`) mirrors `psbt.combine`; WHICH field is
merged by WHICH rule, the universe of dataclass fields with the presence test `serialize` applies
to each, and the fields the identifier reads are `Gen.Combine.*`, regenerated from /repo's source AST
on every run.  `tables_ok` is the obligation that breaks when a serialisable field is dropped from
the combiner or merged with the wrong rule.
-/
namespace Props.C11
open Btc Btc.C11

/-- T0 (about the SOURCE, via the generated tables): every field `serialize` can emit is merged by
    `combine` with the rule fitting its shape and presence test (truthiness-merged ⇔ truthiness-
    serialised; `is None`-merged ⇔ `is not None`-serialised scalar; participants ⇒ dict) or is read
    by the identifier; every merge call names a dataclass field; `tx_modifiable` is settled by
    `_combined_tx_modifiable`. -/
theorem tables_ok : universeCovered = true ∧ callsAreFields = true ∧ modifiableIsAssigned = true := by
  decide

/-- the unmerged fields of T1's `hid` are exactly identifier fields: for a location of the universe
    that `combine` does not merge, the generated tables say the identifier reads it. -/
theorem unmerged_is_identity (l : Loc) {f : FieldSpec} (hf : specAt l = some f)
    (hpres : f.presence ≠ .never) (hr : ruleAt l = none) : (idReadsOf l.sec).contains l.name = true := by
  obtain ⟨hU, _, _⟩ := tables_ok
  obtain ⟨hfm, hfn⟩ := lookupField_some hf
  have hcov := (List.all_eq_true.mp ((List.all_eq_true.mp hU) l.sec (sec_mem _))) f hfm
  have hr' : lookupRule (callsOf l.sec) l.name = none := hr
  rw [hfn, hr'] at hcov
  cases hp : f.presence <;> simp_all

/-- T1 lossless: on operands that do not conflict, every key-value pair of every operand, in every
    field of the generated universe that `serialize` can emit (tx_modifiable excepted: it is settled by
    the bit rule, see `combine_modifiable` and `modifiable_bit_rule`), is in
    the result.  Pairs are read as `serialize` reads them (`den (tAt l)`): a falsy scalar of a
    truthiness-serialised field is no pair. -/
theorem combine_lossless {ps : List Psbt} {r x : Psbt} (hc : Compatible ps) (h : combine ps = .ok r)
    (hx : x ∈ ps) (l : Loc) {f : FieldSpec} (hf : specAt l = some f) (hpres : f.presence ≠ .never)
    (hmod : ruleAt l ≠ some .modifiable)
    (k : Nat) (v : Val) (hv : den (tAt l) (x.slot l) k = some v) :
    den (tAt l) (r.slot l) k = some v := by
  obtain ⟨hU, hC, hM⟩ := tables_ok
  cases ps with
  | nil => cases hx
  | cons p0 rest =>
    rw [combine_ok_fold h, foldl_step_slot]
    have hMod : ruleAt modLoc = some .modifiable := by simpa [modifiableIsAssigned] using hM
    cases hr : ruleAt l with
    | none =>
      have hl : l ≠ modLoc := by intro c; rw [c, hMod] at hr; cases hr
      rw [foldl_keep (Or.inl hr), baseOf_slot hl,
        hc.idAgree l (unmerged_is_identity l hf hpres hr) hr p0 (by simp) x hx]
      exact hv
    | some r =>
      have hm : r ≠ .modifiable := by intro c; rw [c] at hr; exact hmod hr
      have hl : l ≠ modLoc := by intro c; rw [c, hMod] at hr; cases hr; exact hm rfl
      rw [baseOf_slot hl, mergeAt_rule hr]
      have hall := slotsOK_of_compatible hU hC hc hr hm
      rw [List.map_cons] at hall
      obtain ⟨_, _, d⟩ := fold_den hall
      rw [d k v]
      exact ⟨x.slot l, by rw [← List.map_cons (f := fun q : Psbt => q.slot l)]; exact List.mem_map.mpr ⟨x, hx, rfl⟩, hv⟩

theorem ident_lengths {v : Nat} {p : Psbt} {id : UTx} (h : identOf v p = .ok id) :
    id.vin.length = p.nIn ∧ id.vout.length = p.nOut := by
  unfold identOf unsignedTx at h
  split at h
  · cases h
  · cases h; simp

/-- how much of `Compatible.idAgree` is NOT an assumption: whatever `combine` accepts already agrees, at
    every input and output of the transaction, on the outpoint's txid and the tx version exactly, and on
    the output index and the amount as the transaction reads them (`or 0`).  What `idAgree` adds is the
    residue the identifier cannot see: `None` against an explicit `0` in those two fields (both refused
    by `assert_valid`, which the model does not carry), and locations outside the transaction. -/
theorem identity_fields_agree {ps : List Psbt} {r : Psbt} (h : combine ps = .ok r) :
    ∀ a ∈ ps, ∀ b ∈ ps, a.nIn = b.nIn ∧ a.nOut = b.nOut ∧
      a.slot ⟨.glob, 0, "tx_version"⟩ = b.slot ⟨.glob, 0, "tx_version"⟩ ∧
      (∀ i < a.nIn, a.slot ⟨.inp, i, "previous_tx_id"⟩ = b.slot ⟨.inp, i, "previous_tx_id"⟩ ∧
        ((a.slot ⟨.inp, i, "output_index"⟩).int?).getD 0 = ((b.slot ⟨.inp, i, "output_index"⟩).int?).getD 0) ∧
      (∀ i < a.nOut, ((a.slot ⟨.out, i, "amount"⟩).int?).getD 0 = ((b.slot ⟨.out, i, "amount"⟩).int?).getD 0) := by
  cases ps with
  | nil => simp [combine] at h
  | cons p0 rest =>
    obtain ⟨id0, hck⟩ := checks_of_combine_ok h
    intro a ha b hb
    have ea := (hck a ha).2
    have eb := (hck b hb).2
    have hin : a.nIn = b.nIn := by rw [← (ident_lengths ea).1, ← (ident_lengths eb).1]
    have hout : a.nOut = b.nOut := by rw [← (ident_lengths ea).2, ← (ident_lengths eb).2]
    unfold identOf unsignedTx at ea eb
    split at ea
    · cases ea
    · split at eb
      · cases eb
      · cases ea
        injection eb with eb
        injection eb with e1 e2 e3 e4
        refine ⟨hin, hout, e1.symm, ?_, ?_⟩
        · intro i hi
          rw [← hin] at e3
          have := (List.map_inj_left.mp e3) i (List.mem_range.mpr hi)
          simp only [txIn, Prod.mk.injEq] at this
          exact ⟨this.1.symm, this.2.1.symm⟩
        · intro i hi
          rw [← hout] at e4
          have := (List.map_inj_left.mp e4) i (List.mem_range.mpr hi)
          simp only [txOut, Prod.mk.injEq] at this
          exact this.1.symm

/-- T2 (tables): what the identifier reads is never settled by the bit rule; an unmerged one is in the
    generated identifier reads; a merged one serialised by truthiness is read only through
    `falsy` / `or 0` / as bytes — so the identifier cannot tell two orders apart. -/
theorem id_tables_ok : idLocTable = true := by decide

/-- T2 order-independence, in full: on operands that do not conflict, if `combine` accepts one order of
    the operand list it accepts every order (version, identifier, participants and the final identifier
    re-check included) and returns the same psbt — same header, and at every location of the generated
    universe the same content as `serialize` reads it (tx_modifiable: `modifiable_perm`). -/
theorem combine_perm {ps ps' : List Psbt} {r : Psbt} (hc : Compatible ps) (hp : ps.Perm ps')
    (h : combine ps = .ok r) :
    ∃ r', combine ps' = .ok r' ∧ r'.version = r.version ∧ r'.nIn = r.nIn ∧ r'.nOut = r.nOut ∧
      ∀ l f, specAt l = some f → f.presence ≠ .never → ruleAt l ≠ some .modifiable →
        norm (tAt l) (r'.slot l) = norm (tAt l) (r.slot l) := by
  obtain ⟨hU, hC, hM⟩ := tables_ok
  cases ps with
  | nil => simp [combine] at h
  | cons p0 rest =>
    cases ps' with
    | nil => exact absurd hp.length_eq (by simp)
    | cons p0' rest' =>
      obtain ⟨id0, hck⟩ := checks_of_combine_ok h
      have hck' : Checks p0.version id0 (p0' :: rest') := fun p hp' => hck p (hp.mem_iff.mpr hp')
      have hc' := hc.perm hp
      have hfold := combine_ok_fold h
      have hnin : p0'.nIn = p0.nIn := by
        rw [← (ident_lengths (hck p0 (by simp)).2).1, ← (ident_lengths (hck p0' (hp.mem_iff.mpr (by simp))).2).1]
      have hnout : p0'.nOut = p0.nOut := by
        rw [← (ident_lengths (hck p0 (by simp)).2).2, ← (ident_lengths (hck p0' (hp.mem_iff.mpr (by simp))).2).2]
      have hpost : Gen.Combine.combineRechecksIdentity = true →
          identOf p0.version (rest'.foldl step (baseOf p0' rest')) = .ok id0 := by
        intro hf
        have hid : identOf p0.version r = .ok id0 := by
          rw [combine_of_checks hck] at h
          exact postCheck_ident h hf
        rw [← hid, hfold]
        unfold identOf
        apply unsignedTx_congr_weak
        · rw [(foldl_step_hdr _ _).2.1, (foldl_step_hdr _ _).2.1]; exact hnin
        · rw [(foldl_step_hdr _ _).2.2, (foldl_step_hdr _ _).2.2]; exact hnout
        · exact fun l hl => fold_slotRel hU hC hM id_tables_ok hc hp l hl
      refine ⟨_, combine_eq' hU hC hM hck' hc' hpost, ?_, ?_, ?_, ?_⟩
      · rw [hfold, (foldl_step_hdr _ _).1, (foldl_step_hdr _ _).1]
        simp only [baseOf, setSlot]
        rw [(hck p0' (hp.mem_iff.mpr (by simp))).1]
      · rw [hfold, (foldl_step_hdr _ _).2.1, (foldl_step_hdr _ _).2.1]; exact hnin
      · rw [hfold, (foldl_step_hdr _ _).2.2, (foldl_step_hdr _ _).2.2]; exact hnout
      · intro l f hf hpres hmod
        have hMod : ruleAt modLoc = some .modifiable := by simpa [modifiableIsAssigned] using hM
        rw [hfold, foldl_step_slot, foldl_step_slot]
        cases hr : ruleAt l with
        | none =>
          have hl : l ≠ modLoc := by intro c; rw [c, hMod] at hr; cases hr
          rw [foldl_keep (Or.inl hr), foldl_keep (Or.inl hr), baseOf_slot hl, baseOf_slot hl,
            hc.idAgree l (unmerged_is_identity l hf hpres hr) hr p0' (hp.mem_iff.mpr (by simp)) p0 (by simp)]
        | some r =>
          have hm : r ≠ .modifiable := by intro c; rw [c] at hr; exact hmod hr
          have hl : l ≠ modLoc := by intro c; rw [c, hMod] at hr; cases hr; exact hm rfl
          rw [baseOf_slot hl, baseOf_slot hl, mergeAt_rule hr]
          have hall := slotsOK_of_compatible hU hC hc hr hm
          rw [List.map_cons] at hall
          have := fold_perm hall (s0' := p0'.slot l) (l' := rest'.map (·.slot l))
            (by rw [← List.map_cons (f := fun q : Psbt => q.slot l), ← List.map_cons (f := fun q : Psbt => q.slot l)]
                exact hp.map _)
          exact this.symm

/-- T2 for tx_modifiable: the flags `_combined_tx_modifiable` settles do not depend on the order. -/
theorem modifiable_perm {l l' : List (Option Nat)} (p : l.Perm l') :
    combinedModifiable l = combinedModifiable l' := combinedModifiable_perm p

/-- the bit rule (all flag values): the modifiable bits of the combined flags are bits of BOTH operands,
    every other bit of EITHER operand is a bit of the result — no more permissive than either half and
    no flag dropped; an absent field counts as "nothing may be modified". -/
theorem modifiable_bit_rule (a b m : Nat) (h : combinedModifiable [some a, some b] = some m) :
    (m &&& modBits) &&& a = m &&& modBits ∧ (m &&& modBits) &&& b = m &&& modBits ∧
    (a &&& (0xFF ^^^ modBits)) &&& m = a &&& (0xFF ^^^ modBits) ∧
    (b &&& (0xFF ^^^ modBits)) &&& m = b &&& (0xFF ^^^ modBits) := by
  rw [combinedModifiable_pair'] at h
  cases h
  rw [modBits_eq.1]
  have e : (255 ^^^ 3 : Nat) = 252 := by decide
  rw [e]
  exact ⟨pair_mod_left a b, pair_mod_right a b, pair_other_left a b, pair_other_right a b⟩

/-- T1m: what `combine` leaves in tx_modifiable is exactly `_combined_tx_modifiable` of ALL the operands'
    flags (so `modifiable_bit_rule` speaks of the combined psbt itself). -/
theorem combine_modifiable {p0 r : Psbt} {rest : List Psbt} (h : combine (p0 :: rest) = .ok r) :
    r.slot modLoc = modSlot (combinedModifiable ((p0 :: rest).map fun p => (p.slot modLoc).nat?)) := by
  obtain ⟨_, _, hM⟩ := tables_ok
  have hMod : ruleAt modLoc = some .modifiable := by simpa [modifiableIsAssigned] using hM
  rw [combine_ok_fold h, foldl_step_slot, foldl_keep (Or.inr hMod)]
  simp [baseOf, setSlot]

/-- T2 for tx_modifiable, composed with `combine`: two accepted orders leave the same flags. -/
theorem combine_perm_modifiable {ps ps' : List Psbt} {r r' : Psbt} (hp : ps.Perm ps')
    (h : combine ps = .ok r) (h' : combine ps' = .ok r') : r'.slot modLoc = r.slot modLoc := by
  cases ps with
  | nil => simp [combine] at h
  | cons p0 rest =>
    cases ps' with
    | nil => simp [combine] at h'
    | cons p0' rest' =>
      rw [combine_modifiable h, combine_modifiable h']
      congr 1
      exact (modifiable_perm (hp.map _)).symm

/-- T2 re-bracketing, THE EQUATION (no proviso on the operands): once the inner combine of a leading group
    is accepted, combining its result with the remaining operands IS combining everything at once — accepted
    together or refused together (always with a BTClibValueError), and when accepted the same psbt at EVERY
    location, tx_modifiable included (`_combined_tx_modifiable` of a nesting is that of the flat list:
    `combinedModifiable_nest`).  So the outer acceptance `h2` of the former statement is derivable from the
    inner one and the flat one, and conversely.
    What is NOT true, of the model and of btclib alike: that the INNER combine is accepted whenever the flat one
    is.  Since `combine` re-checks the identifier of what it built, a part of the operands can make every
    requiring input carry a height (BIP370 then picks the height) although the whole never does:
    `combine [a,b,c]` is accepted and `combine [a,b]` is refused.  Counterexample on the model: the `example`
    below, on operands proved `Compatible` (`lock_compatible`); on the real code: known finding
    `combine.locktime-partition.grouping` (harness oracle `finding.locktime-grouping`).
    Scope: the inner group is a PREFIX of the operand list (with `combine_perm`, any sub-multiset of compatible
    operands up to what `serialize` reads); a group nested in a later position is compared by the
    correspondence stream (all bracketings, k ≤ 4) only. -/
theorem combine_bracket {p0 r : Psbt} {rest : List Psbt} (h1 : combine (p0 :: rest) = .ok r) (l2 : List Psbt) :
    combine (r :: l2) = combine (p0 :: (rest ++ l2)) :=
  combine_nested_eq tables_ok.2.2 rfl h1 l2

/-- T2 re-bracketing, the characterisation of acceptance: where the flat combine is accepted, the nested one is
    accepted — and then returns the flat result — if and only if the inner one is; i.e. the ONLY way a grouping
    can fail on operands the flat combine accepts is the refusal of an inner combine (the open finding). -/
theorem combine_bracket_accepted_iff {p0 s' : Psbt} {rest l2 : List Psbt}
    (h3 : combine (p0 :: (rest ++ l2)) = .ok s') :
    (∃ r, combine (p0 :: rest) = .ok r ∧ combine (r :: l2) = .ok s') ↔ (∃ r, combine (p0 :: rest) = .ok r) := by
  constructor
  · rintro ⟨r, h1, _⟩; exact ⟨r, h1⟩
  · rintro ⟨r, h1⟩; exact ⟨r, h1, by rw [combine_bracket h1 l2, h3]⟩

/-- the slot-for-slot form of the former statement, now a corollary (and without its proviso on `l`) -/
example {p0 r s s' : Psbt} {rest l2 : List Psbt}
    (h1 : combine (p0 :: rest) = .ok r) (h2 : combine (r :: l2) = .ok s)
    (h3 : combine (p0 :: (rest ++ l2)) = .ok s') (l : Loc) : s.slot l = s'.slot l := by
  rw [combine_bracket h1 l2, h3] at h2; cases h2; rfl

-- non-vacuity: an accepted inner combine, and the equation on it
example : (combine [exA, exB]).toBool = true := by decide
example (r : Psbt) (h : combine [exA, exB] = .ok r) : combine [r, exA] = combine [exA, exB, exA] :=
  combine_bracket h [exA]

/-- the three psbts of the counterexample do not conflict: `Compatible` in the sense of T1/T2 (well-kinded
    operands, no two different values at one key) -/
example : Compatible [lkA, lkB, lkC] := lock_compatible

/-- acceptance of an INNER combine does not follow from acceptance of the flat one: three compatible psbts of
    one version-2 transaction (same identifier, lock time T) — all at once accepted, `b,c` first accepted,
    `a,b` first refused. -/
example : (identOf 2 lkA = identOf 2 lkB ∧ identOf 2 lkB = identOf 2 lkC) ∧
    (combine [lkA, lkB, lkC]).toBool = true ∧ (combine [lkB, lkC]).toBool = true ∧
    (combine [lkA, lkB]).toBool = false := by decide

/-- T2 idempotence: combining a psbt with itself changes nothing. -/
theorem combine_idem {x : Psbt} {id0 : UTx} (hx : Operand x) (hid : identOf x.version x = .ok id0)
    {o : Option Nat} (hmod : x.slot modLoc = modSlot o) (hrange : ∀ n, o = some n → n < 256) :
    combine [x, x] = .ok x := by
  obtain ⟨hU, hC, hM⟩ := tables_ok
  have hck : Checks x.version id0 [x, x] := by intro p hp; simp at hp; subst hp; exact ⟨rfl, hid⟩
  have hc : Compatible [x, x] := by
    refine ⟨?_, ?_, ?_⟩
    · intro p hp; simp at hp; subst hp; exact hx
    · intro l a ha b hb; simp at ha hb; subst ha; subst hb
      intro k v w h1 h2; rw [h1] at h2; cases h2; rfl
    · intro l _ _ a ha b hb; simp at ha hb; subst ha; subst hb; rfl
  have hMod : ruleAt modLoc = some .modifiable := by simpa [modifiableIsAssigned] using hM
  have hcm : combinedModifiable [o, o] = o := by
    cases o with
    | none => rfl
    | some n =>
      have hn := hrange n rfl
      have : ∀ n < 256, combinedModifiable [some n, some n] = some n := by decide +kernel
      exact this n hn
  have hfold : [x].foldl step (baseOf x [x]) = x := by
   cases x with
   | mk ver nI nO sl =>
    simp only [List.foldl_cons, List.foldl_nil, step, baseOf, setSlot]
    congr 1
    funext l
    by_cases hl : l = modLoc
    · subst hl
      simp only [if_true]
      rw [mergeAt_keep (Or.inr hMod)]
      simp only [List.map_cons, List.map_nil]
      have h1 : (sl modLoc).nat? = o := by
        have : sl modLoc = modSlot o := hmod
        rw [this]; cases o <;> simp [modSlot, Slot.nat?, Slot.int?]
      rw [h1, hcm]; exact hmod.symm
    · simp only [hl, if_false]
      unfold mergeAt
      cases ruleAt l with
      | none => rfl
      | some r => exact merge_self r (hx.canon l)
  rw [combine_eq hU hC hM hck hc (by rw [hfold]; exact hid), hfold]

/-- T3 refusal: whatever `combine` accepts is of one version and of one identifier, at every position
    (so two operands of different versions or different transactions, anywhere in the list, are refused). -/
theorem combine_refuses {ps : List Psbt} {r : Psbt} (h : combine ps = .ok r) :
    ∀ x ∈ ps, ∀ y ∈ ps, x.version = y.version ∧ identOf x.version x = identOf x.version y := by
  cases ps with
  | nil => simp [combine] at h
  | cons p0 rest =>
    obtain ⟨id0, hck⟩ := checks_of_combine_ok h
    intro x hx y hy
    rw [(hck x hx).1, (hck y hy).1, (hck x hx).2, (hck y hy).2]
    exact ⟨rfl, rfl⟩

theorem combine_refuses_version {ps : List Psbt} {x y : Psbt} (hx : x ∈ ps) (hy : y ∈ ps)
    (h : x.version ≠ y.version) : ∃ e, combine ps = .error e := by
  cases hc : combine ps with
  | error e => exact ⟨e, rfl⟩
  | ok r => exact absurd (combine_refuses hc x hx y hy).1 h

/-! ### T4 — truthiness against `is None` -/

/-- where the two rules differ on a scalar: exactly when a falsy-but-present value (`0`, `b""`) meets
    an absent slot, or sits in the psbt merged into while the other holds a truthy value. -/
theorem truthy_vs_notNone (a b : Option Val) :
    mergeTruthy (.scalar a) (.scalar b) ≠ mergeNotNone (.scalar a) (.scalar b) ↔
      (a = none ∧ ∃ v, b = some v ∧ v.falsy = true) ∨
      (∃ v w, a = some v ∧ b = some w ∧ v.falsy = true ∧ w.falsy = false ∧ v ≠ w) := by
  cases a with
  | none =>
    cases b with
    | none => simp [mergeTruthy, mergeNotNone, Slot.falsy, Slot.isNone]
    | some w => cases hw : w.falsy <;> simp [mergeTruthy, mergeNotNone, Slot.falsy, Slot.isNone, hw]
  | some v =>
    cases b with
    | none => simp [mergeTruthy, mergeNotNone, Slot.falsy, Slot.isNone]
    | some w =>
      cases hv : v.falsy <;> cases hw : w.falsy <;>
        simp [mergeTruthy, mergeNotNone, Slot.falsy, Slot.isNone, hv, hw]
      all_goals (constructor <;> intro h e <;> exact h e.symm)

/-- harmless as far as `serialize` can see: reading falsy as absent, the truthiness rule IS the
    `is None` rule. -/
theorem truthy_is_notNone_mod_falsy (a b : Option Val) :
    norm true (mergeTruthy (.scalar a) (.scalar b)) =
      mergeNotNone (norm true (.scalar a)) (norm true (.scalar b)) := by
  cases a with
  | none =>
    cases b with
    | none => rfl
    | some w => cases hw : w.falsy <;> simp [mergeTruthy, mergeNotNone, Slot.falsy, Slot.isNone, norm, hw]
  | some v =>
    cases b with
    | none => cases hv : v.falsy <;> simp [mergeTruthy, mergeNotNone, Slot.falsy, Slot.isNone, norm, hv]
    | some w =>
      cases hv : v.falsy <;> cases hw : w.falsy <;>
        simp [mergeTruthy, mergeNotNone, Slot.falsy, Slot.isNone, norm, hv, hw]

/-- NOT harmless for the object itself: `sig_hash_type = 0` against an absent one comes out `0` or
    `None` depending on the order.  (btclib merged `sig_hash_type` with this rule until finding
    `combine.sighash0-order` of this check was fixed; `tables_ok` now forbids it.) -/
example : mergeTruthy (.scalar (some (.int 0))) (.scalar none) ≠ mergeTruthy (.scalar none) (.scalar (some (.int 0))) := by
  decide
example : lookupRule Gen.Combine.inCalls "sig_hash_type" = some .notNone := by decide

-- non-vacuity on whole psbts: two signers' copies of one psbt are `Compatible`, `combine` accepts them,
-- and (T1 instantiated) both signatures are in the result
example : Compatible [exA, exB] := example_compatible
example : ((combine [exA, exB]).toOption.map (·.slot sigLoc)) = some (.dict [(1, .bytes [1]), (2, .bytes [2])]) := by
  decide
example (r : Psbt) (h : combine [exA, exB] = .ok r) : den (tAt sigLoc) (r.slot sigLoc) 2 = some (.bytes [2]) :=
  combine_lossless example_compatible h (x := exB) (by simp) sigLoc specAt_sigLoc (by decide) (by decide) 2 _
    (by decide)

-- the same at one slot
example : mergeTruthy (.dict [(1, .bytes [1])]) (.dict [(2, .bytes [2])]) = .dict [(1, .bytes [1]), (2, .bytes [2])] := by
  decide
example : Compat true (.dict [(1, .bytes [1])]) (.dict [(2, .bytes [2])]) := by
  intro k v w h1 h2
  simp only [den_dict, dlookup] at h1 h2
  split at h1 <;> split at h2 <;> simp_all

/-! ### T5 — the other roles leave the unsigned transaction alone -/

/-- T5 (tables, i.e. about the SOURCE): the identifier reads exactly the fields the model's does; the
    Signer stores only to signature fields and neither it nor the Finalizer stores to a field the
    identifier reads, nor to any global; `to_v2` stores the version and nothing else; every global
    field is compared by `assert_signatures_only` (by name, inside the transaction, or by the bit rule). -/
theorem roles_tables_ok : rolesTableCheck = true := by decide

/-- T5: a role that leaves every field the identifier reads as it found it (by `roles_tables_ok`:
    sign, finalize) returns a psbt of the same unsigned transaction and the same identifier. -/
theorem role_preserves_tx {p q : Psbt} (hi : p.nIn = q.nIn) (ho : p.nOut = q.nOut)
    (h : ∀ l, IdLoc l → p.slot l = q.slot l) (b : Bool) : unsignedTx p b = unsignedTx q b :=
  unsignedTx_congr hi ho h b

/-- T5: `to_v2` changes neither the transaction nor the identifier's transaction. -/
theorem toV2_preserves_tx (p : Psbt) (b : Bool) : unsignedTx (toV2 p) b = unsignedTx p b := rfl

/-- T5: `to_v0` writes BIP370's computed lock time where version 0 keeps it, drops the required lock
    times and the flags — and the result is of the same unsigned transaction (and `to_v2` of it again). -/
theorem toV0_preserves_tx {p q : Psbt} (h : toV0 p = .ok q) (b : Bool) :
    unsignedTx q b = unsignedTx p b ∧ unsignedTx (toV2 q) b = unsignedTx p b :=
  ⟨toV0_tx h b, toV0_tx h b⟩

-- BIP370's determination: heights win the tie; a height on one input and a time on another is refused
example : lockTimeOf [(some 50, some 1700000000), (some 60, some 1700000001)] (some 7) = .ok 60 := by decide
example : lockTimeOf [(some 50, some 1700000000), (none, some 1700000001)] (some 7) = .ok 1700000001 := by decide
example : lockTimeOf [(some 50, none), (none, some 1700000001)] (some 7) = .error .value := by decide
example : lockTimeOf [(none, none)] (some 7) = .ok 7 := by decide

/-! ### T6 — a signer's answer -/

/-- T6 (soundness of the structural check): an accepted answer is of the request's version and
    transaction; every field of every input and output map that is not a signature field came back as
    sent; every signature field only gained entries; the answer's tx_modifiable is the bit rule of the two
    (so, by `modifiable_bit_rule`, no more permissive than the request's). -/
theorem sigOnly_sound {req ret : Psbt} (h : sigOnly req ret = true) :
    ret.version = req.version ∧ unsignedTx ret false = unsignedTx req false ∧
    (∀ i < req.nIn, ∀ f ∈ fieldsOf .inp,
      (Gen.Combine.signatureFields.contains f.name = false → ret.slot ⟨.inp, i, f.name⟩ = req.slot ⟨.inp, i, f.name⟩) ∧
      (Gen.Combine.signatureFields.contains f.name = true →
        addedOnly (req.slot ⟨.inp, i, f.name⟩) (ret.slot ⟨.inp, i, f.name⟩) = true)) ∧
    (∀ i < req.nOut, ∀ f ∈ fieldsOf .out, ret.slot ⟨.out, i, f.name⟩ = req.slot ⟨.out, i, f.name⟩) ∧
    (∀ n ∈ Gen.Combine.sigOnlyGlobals, ret.slot ⟨.glob, 0, n⟩ = req.slot ⟨.glob, 0, n⟩) ∧
    ret.slot modLoc = modSlot (combinedModifiable [(req.slot modLoc).nat?, (ret.slot modLoc).nat?]) := by
  unfold sigOnly at h
  simp only [Bool.and_eq_true] at h
  obtain ⟨⟨⟨⟨⟨⟨hv, htx⟩, _⟩, hg⟩, hm⟩, hin⟩, hout⟩ := h
  refine ⟨by simpa using hv, by simpa using htx, ?_, ?_, ?_, (by have := hm; simp at this; exact this.symm)⟩
  rotate_left 2
  · intro n hn
    have := List.all_eq_true.mp hg n hn
    simpa using this
  · intro i hi f hf
    have := mapUnchanged_sound (List.all_eq_true.mp hin i (List.mem_range.mpr hi)) hf
    exact ⟨fun hc => this.1 (by rintro ⟨_, h2⟩; rw [hc] at h2; cases h2), fun hc => this.2 ⟨rfl, hc⟩⟩
  · intro i hi f hf
    exact (mapUnchanged_sound (List.all_eq_true.mp hout i (List.mem_range.mpr hi)) hf).1 (by rintro ⟨h1, _⟩; cases h1)

/-- T6: a signature the request carried is still there, unchanged, in an accepted answer. -/
theorem sigOnly_keeps_signature {was now : Dict} (h : addedOnly (.dict was) (.dict now) = true) {k : Nat}
    {v : Val} (hm : (k, v) ∈ was) : dlookup now k = some v := addedOnly_dict h hm

-- non-vacuity
example : addedOnly (.dict [(1, .bytes [1])]) (.dict [(1, .bytes [1]), (2, .bytes [2])]) = true := by decide
example : addedOnly (.dict [(1, .bytes [1])]) (.dict [(2, .bytes [2])]) = false := by decide

/-! ### T5w — version 0 on the wire: the fields moved between the unsigned transaction and the maps -/

/-- T5w (tables, i.e. about the SOURCE): the fields `_read_tx_in` / `_read_tx_out` / `_settle_globals` fill from
    BIP174's unsigned transaction are the ones the model's `readV0` fills, they are version-2-only fields the
    identifier reads, and EVERY version-2-only field of every map is one of them or is refused by `assert_valid`
    in a version 0 psbt; `to_v0` stores only to the fallback, the version and fields version 0 refuses. -/
theorem wire_tables_ok : wireTableCheck = true := by decide

/-- T5w: serialising as version 0 (the transaction's fields folded into PSBT_GLOBAL_UNSIGNED_TX, the maps written
    without their BIP370 fields) and parsing back never changes the unsigned transaction — for EVERY psbt that has
    one, no shape hypothesis — nor, for a psbt without silent-payment outputs (which version 0 refuses), the
    transaction the identifier is the hash of. -/
theorem wire_preserves_tx {p : Psbt} {w : WireV0} (h : writeV0 p = .ok w) :
    unsignedTx (readV0 w) false = unsignedTx p false ∧
    ((∀ i, i < p.nOut → (p.slot ⟨.out, i, "sp_v0_info"⟩).falsy = true) →
      unsignedTx (readV0 w) true = unsignedTx p true) :=
  ⟨by rw [readV0_tx, writeV0_tx h], wire_ident h⟩

/-- T5w: parse ∘ serialize is the identity (on every location of the psbt's own maps) for a psbt shaped as
    `parse` / `from_tx` leave a version 0 psbt (`V0Shaped`: the sequence of every input and the lock time are
    stated — a version 0 transaction always states them —, output index, amount and script hold values, every
    other version-2-only field holds `__init__`'s default).  A psbt built by `to_v0` from a version 2 psbt with an
    absent sequence is NOT so shaped: it reads back with the final sequence stated (same transaction:
    `wire_preserves_tx`). -/
theorem wire_parse_serialize {p : Psbt} (hp : V0Shaped p) {w : WireV0} (h : writeV0 p = .ok w) :
    Same (readV0 w) p := wire_roundtrip hp h

/-- T5: `to_v0 ∘ to_v2` is the identity on a psbt so shaped (and never fails on one). -/
theorem toV0_toV2_id {p : Psbt} (hp : V0Shaped p) : ∃ q, toV0 (toV2 p) = .ok q ∧ Same q p := toV0_toV2 hp

-- non-vacuity: `exV0` (Proofs/C11/Wire.lean), a version 0 psbt of one input and one output, shaped as `parse` leaves it
example : V0Shaped exV0 := exV0_shaped
example : (writeV0 exV0).toBool = true := by decide
example : ∃ q, toV0 (toV2 exV0) = .ok q ∧ Same q exV0 := toV0_toV2_id exV0_shaped

/-! ### T6v — a signer's answer, whole: the structural check AND the signatures that arrived -/

/-- T6v (tables, about the SOURCE): `_assert_ecdsa_sigs_verify` / `_assert_taproot_sigs_verify` look at exactly
    the signature fields the Signer stores to, which are the ones `assert_signed` counts as "signed";
    `new_signers` attributes every field of `_SIGNATURE_FIELDS`; "finalized" is told by the two final scripts. -/
theorem signed_tables_ok : signedTableCheck = true := by decide

/-- T6v soundness of `assert_signatures_only` (whether ONE signature verifies is the parameter `V`: C02/C03/C10):
    an accepted answer passes the structural check (`sigOnly_sound`: same version and transaction, everything that
    is not a signature field came back as sent, signature fields only gained entries, flags no looser), every
    partial signature ends in the stated sig-hash type, every entry the answer ADDED to a verified signature field
    verifies, and every entry of such a map is either an entry of the request, unchanged, or an added one that
    verifies — i.e. the answer differs from the request by valid added signatures.  (The two musig2 maps are
    permitted additions the source does not verify here: not claimed.) -/
theorem assertSignaturesOnly_sound {V : SigOracle} {req ret : Psbt} (h : assertSignaturesOnly V req ret = true) :
    sigOnly req ret = true ∧
    ∀ i, i < req.nIn → sigHashTypeOK ret i = true ∧ ∀ n ∈ Gen.Combine.verifiedSigFields,
      (∀ kv ∈ addedEntries (req.slot (sigLocOf i n)) (ret.slot (sigLocOf i n)), V ret i n kv.1 kv.2 = true) ∧
      (∀ was now, req.slot (sigLocOf i n) = .dict was → ret.slot (sigLocOf i n) = .dict now → Sorted now →
        ∀ k v, (k, v) ∈ now → dlookup was k = some v ∨ V ret i n k v = true) := by
  unfold assertSignaturesOnly at h
  simp only [Bool.and_eq_true] at h
  obtain ⟨hs, hall⟩ := h
  refine ⟨hs, ?_⟩
  intro i hi
  have hi' := List.all_eq_true.mp hall i (List.mem_range.mpr hi)
  simp only [Bool.and_eq_true] at hi'
  refine ⟨hi'.1, ?_⟩
  intro n hn
  refine ⟨fun kv hkv => sigsVerify_some hi'.2 hn hkv, ?_⟩
  intro was now hw hnow hsorted k v hm
  have key : ∀ n ∈ Gen.Combine.verifiedSigFields,
      Gen.Combine.signatureFields.contains n = true ∧ ∃ f ∈ fieldsOf .inp, f.name = n := by decide
  obtain ⟨hsig, f, hfm, rfl⟩ := key n hn
  obtain ⟨_, _, hin, _, _, _⟩ := sigOnly_sound hs
  have hadd := (hin i hi f hfm).2 hsig
  rw [show (⟨.inp, i, f.name⟩ : Loc) = sigLocOf i f.name from rfl, hw, hnow] at hadd
  rcases entry_kept_or_added hsorted hadd hm with h1 | h2
  · exact Or.inl h1
  · right
    have := sigsVerify_some hi'.2 hn (kv := (k, v)) (by rw [hw, hnow]; exact h2)
    exact this

/-- T6v soundness of `assert_signed`: an accepted psbt has inputs, none of them finalized; EVERY entry of every
    verified signature field of every input verifies; and, unless `allow_partial`, every input holds one. -/
theorem assertSigned_sound {V : SigOracle} {allowPartial : Bool} {p : Psbt} (h : assertSigned V allowPartial p = true) :
    p.nIn ≠ 0 ∧ ∀ i, i < p.nIn →
      anyTruthy p i Gen.Combine.finalizedIfAny = false ∧ sigHashTypeOK p i = true ∧
      (∀ n ∈ Gen.Combine.verifiedSigFields, ∀ kv ∈ sigEntries (p.slot (sigLocOf i n)), V p i n kv.1 kv.2 = true) ∧
      (allowPartial = false → anyTruthy p i Gen.Combine.signedIfAny = true) := by
  unfold assertSigned at h
  simp only [Bool.and_eq_true] at h
  obtain ⟨⟨hn, _⟩, hall⟩ := h
  refine ⟨by simpa using hn, ?_⟩
  intro i hi
  have hi' := List.all_eq_true.mp hall i (List.mem_range.mpr hi)
  simp only [Bool.and_eq_true, Bool.or_eq_true] at hi'
  obtain ⟨⟨⟨h1, h2⟩, h3⟩, h4⟩ := hi'
  refine ⟨by simpa using h1, h2, fun n hn kv hkv => sigsVerify_none h3 hn hkv, ?_⟩
  intro ha
  rcases h4 with h4 | h4
  · rw [ha] at h4; cases h4
  · exact h4

/-- T6v `new_signers`: every fingerprint it names is the stated origin of an entry the answer ADDED to a signature
    field of some input (the origin look-up is the parameter `O`); asked about the request itself it names nobody. -/
theorem newSigners_sound {O : OriginOracle} {req ret : Psbt} {s : List Nat} (h : newSigners O req ret = .ok s) :
    ret.nIn = req.nIn ∧ ∀ f ∈ s, ∃ i, i < req.nIn ∧ ∃ n ∈ Gen.Combine.signatureFields,
      ∃ kv ∈ addedEntries (req.slot (sigLocOf i n)) (ret.slot (sigLocOf i n)), O ret i n kv.1 = some f := by
  unfold newSigners at h
  split at h
  · cases h
  · rename_i hne
    split at h
    · cases h
    · rename_i s' hs
      cases h
      refine ⟨by simpa using hne, ?_⟩
      intro f hf
      rcases signersOfInputs_sound _ hs f hf with h0 | ⟨i, hi, n, hn, kv, hkv, ho⟩
      · cases h0
      · have key : ∀ n ∈ Gen.Combine.newSignersFields, n ∈ Gen.Combine.signatureFields := by decide
        exact ⟨i, List.mem_range.mp hi, n, key n hn, kv, hkv, ho⟩

theorem newSigners_self (O : OriginOracle) (p : Psbt) : newSigners O p p = .ok [] := by
  unfold newSigners
  simp [signersOfInputs_self]

-- non-vacuity: exB's signature added to exA's copy; an oracle accepting it, one refusing it
example : assertSignaturesOnly (fun _ _ _ _ _ => true) exA exAB = true := by decide
example : assertSignaturesOnly (fun _ _ _ k _ => k != 2) exA exAB = false := by decide
example : assertSignaturesOnly (fun _ _ _ _ _ => true) exAB exA = false := by decide      -- a signature dropped
example : assertSigned (fun _ _ _ _ _ => true) false exAB = true := by decide
example : newSigners (fun _ _ _ k => some (100 + k)) exA exAB = .ok [102] := by decide
example : newSigners (fun _ _ _ _ => none) exA exAB = .error .value := by decide

end Props.C11
