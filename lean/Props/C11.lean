/-!
# C11 — property theorems only (see DESIGN.md §3 C11).
-/
namespace Props.C11

end Props.C11
