import Proofs.C05.VarInt
import Proofs.C05.Tx
import Proofs.C05.PsbtMap
import Proofs.C05.Misc
import Proofs.C05.P2p
import Proofs.C05.PsbtTyped
import Proofs.C05.Json
/-!
# C05 — wire formats are canonical: parse and serialize are mutually inverse

Property theorems only.  CompactSize: serializer and size function are the *translated* source
(`Gen.VarInt.*`, regenerated from /repo on every run); the parser is the hand model
`Btc.VarInt.parse` over the generated branch table, tied to the code by correspondence.
Wire classes: hand models built from the generic codecs of `Model/C05/Codec.lean` (caps, marker,
header length from `Generated/Wire.lean`), tied to the code by correspondence.

`Btc.Wire.Lawful c` bundles the three laws of one class:
  T1 `parse_ser`  valid t → c.parse (c.ser t ++ rest) = ok (t, rest)          (for every `rest`)
  T2 `ser_parse`  c.parse b = ok (t, rest) → c.valid t ∧ b = c.ser t ++ rest
  T3 `size_eq`    valid t → c.size t = (c.ser t).length
-/
namespace Props.C05
open Btc Btc.VarInt Btc.Py

/-- T4: `serialize` answers exactly on `0 ≤ i < 2^64`, refuses the rest with the library's
    ValueError, and never leaves through a foreign exception. -/
theorem varint_serialize_domain (i : Int) :
    (0 ≤ i ∧ i < 2 ^ 64 → ∃ b, Gen.VarInt.serialize i = .ok b) ∧
    (¬ (0 ≤ i ∧ i < 2 ^ 64) → Gen.VarInt.serialize i = .error .value) :=
  Btc.VarInt.serialize_domain i

/-- T1 (parse ∘ serialize, prefix-free): whatever follows the encoding is left unread, and the
    value comes back — or is refused as too big, exactly when it exceeds the cap. -/
theorem varint_parse_serialize (i : Int) (b rest : Bytes) (m : Nat)
    (h : Gen.VarInt.serialize i = .ok b) :
    parse (b ++ rest) m = if i.toNat > m then .error .toobig else .ok (i.toNat, rest) :=
  Btc.VarInt.parse_serialize i b rest m h

/-- T2 (serialize ∘ parse): any byte string the parser accepts starts with exactly the canonical
    encoding of the value it returns; hence no non-minimal prefix and no short read is accepted. -/
theorem varint_serialize_parse (b rest : Bytes) (v m : Nat)
    (h : parse b m = .ok (v, rest)) :
    ∃ b', Gen.VarInt.serialize (v : Int) = .ok b' ∧ b = b' ++ rest :=
  Btc.VarInt.serialize_parse b rest v m h

/-- T3: the reported width is the length of the serialization (translated `_size` against the
    translated `serialize`, for every integer the latter accepts). -/
theorem varint_size_eq_length (i : Int) (b : Bytes) (h : Gen.VarInt.serialize i = .ok b) :
    Gen.VarInt.size i = b.length :=
  Btc.VarInt.size_eq_length i b h

/-! ## Generic codecs -/
open Btc.Wire

/-- On octets (`assert_no_trailing`), for every lawful class: the byte strings the parser accepts are
    exactly the serializations of the valid objects, and parsing inverts serializing. Hence no
    trailing byte, short read, non-minimal length prefix or superfluous marker is ever accepted. -/
theorem accepted_iff_serialization {α : Type} (c : Codec α) (h : Lawful c) (b : Bytes) (t : α) :
    c.parseAll b = .ok t ↔ c.valid t ∧ b = c.ser t :=
  h.parseAll_iff b t

/-- serializations of valid objects are prefix-free (what makes a list of objects parseable) and
    in particular injective -/
theorem serialization_prefix_free {α : Type} (c : Codec α) (h : Lawful c) (t u : α) (r s : Bytes)
    (ht : c.valid t) (hu : c.valid u) (e : c.ser t ++ r = c.ser u ++ s) : t = u ∧ r = s :=
  h.prefix_free t u r s ht hu e

/-- fixed-width little/big-endian unsigned fields -/
theorem uint_le_lawful (n : Nat) : Lawful (uintLE n) := lawful_uintLE n
theorem uint_le_valid_iff (n v : Nat) : (uintLE n).valid v ↔ v < 256 ^ n := uintLE_valid n v
theorem uint_be_valid_iff (n v : Nat) : (uintBE n).valid v ↔ v < 256 ^ n := uintBE_valid n v
theorem int_le_4_valid_iff (i : Int) : (intLE 4).valid i ↔ -(2 ^ 31 : Int) ≤ i ∧ i < 2 ^ 31 := intLE4_valid i
theorem int_le_8_valid_iff (i : Int) : (intLE 8).valid i ↔ -(2 ^ 63 : Int) ≤ i ∧ i < 2 ^ 63 := intLE8_valid i
theorem compact_size_valid_iff (m n : Nat) : (varInt m).valid n ↔ n ≤ m ∧ n < 2 ^ 64 := Iff.rfl
theorem uint_be_lawful (n : Nat) : Lawful (uintBE n) := lawful_uintBE n
/-- fixed-width little-endian signed fields (two's complement) -/
theorem int_le_lawful (n : Nat) : Lawful (intLE n) := lawful_intLE n
/-- CompactSize under any cap `m` of the call site -/
theorem compact_size_lawful (m : Nat) : Lawful (varInt m) := lawful_varInt m
/-- `var_bytes`; valid = at most `var_int.MAX_SIZE` octets -/
theorem var_bytes_lawful : Lawful varBytes := lawful_varBytes
theorem var_bytes_valid_iff (b : Bytes) : varBytes.valid b ↔ b.length ≤ Gen.VarInt.MAX_SIZE :=
  varBytes_valid b
/-- two fields in sequence -/
theorem pair_lawful {α β : Type} (a : Codec α) (b : Codec β) (ha : Lawful a) (hb : Lawful b) :
    Lawful (pair a b) := lawful_pair ha hb
/-- a CompactSize count followed by that many items -/
theorem counted_list_lawful {α : Type} (m : Nat) (c : Codec α) (h : Lawful c) : Lawful (listOf m c) :=
  lawful_listOf m h
theorem counted_list_valid_iff {α : Type} (m : Nat) (c : Codec α) (l : List α) :
    (listOf m c).valid l ↔ (l.length ≤ m ∧ l.length < 2 ^ 64) ∧ ∀ x ∈ l, c.valid x :=
  listOf_valid m c l

/-! ## Transaction family, header, block -/

theorem outpoint_lawful : Lawful outPoint := lawful_outPoint
theorem outpoint_valid_iff (o : OutPoint) : outPoint.valid o ↔ o.txId.length = 32 ∧ o.vout < 2 ^ 32 :=
  outPoint_valid o
theorem witness_lawful : Lawful witness := lawful_witness
theorem witness_valid_iff (w : List Bytes) :
    witness.valid w ↔ (w.length ≤ Gen.Wire.MAX_WITNESS_STACK_ITEMS ∧ w.length < 2 ^ 64) ∧
      ∀ x ∈ w, x.length ≤ Gen.VarInt.MAX_SIZE := witness_valid w
theorem txin_lawful : Lawful txIn := lawful_txIn
theorem txin_valid_iff (i : TxIn) :
    txIn.valid i ↔ outPoint.valid i.prevOut ∧ varBytes.valid i.scriptSig ∧ i.sequence < 2 ^ 32
      ∧ i.witness = [] := txIn_valid i
theorem txout_lawful : Lawful txOut := lawful_txOut
theorem txout_valid_iff (o : TxOut) :
    txOut.valid o ↔ (-(2 ^ 63 : Int) ≤ o.value ∧ o.value < 2 ^ 63) ∧ varBytes.valid o.script :=
  txOut_valid o

/-- T1 for transactions (`include_witness=True`), PARTIAL: every structurally valid transaction (any
    version/locktime below 2^32, counts within the caps) that is NOT of the shape "no input, exactly one
    output" parses back from its serialization, the stream left on the byte after it.  The excluded shape
    is not a btclib validity rule; see `tx_no_input_one_output_never_round_trips`. -/
theorem tx_parse_serialize_partial (t : Tx) (rest : Bytes) (hv : Tx.Valid t) :
    Tx.parse (Tx.ser true t ++ rest) = .ok (t, rest) := tx_parse_ser t rest hv

/-- what `_partial` leaves out, as a theorem: a structurally valid transaction with no input and exactly
    one output NEVER parses back from its own serialization (`… 00 01 …` is read as the segwit marker).
    btclib builds and serializes such objects (PSBT unsigned-tx templates): known finding
    `psbt.v0.noinputs.marker`. -/
theorem tx_no_input_one_output_never_round_trips (t : Tx) (rest : Bytes)
    (h : t.vin = [] ∧ t.vout.length = 1) : Tx.parse (Tx.ser true t ++ rest) ≠ .ok (t, rest) := by
  intro hp
  exact (tx_ser_parse _ _ _ hp).1.2.2.2.2.2 h

/-- T2 for transactions: whatever `Tx.parse` accepts is exactly the serialization of the transaction
    it returns (marker written iff some witness is non-empty) followed by what it left unread. -/
theorem tx_serialize_parse (b : Bytes) (t : Tx) (rest : Bytes) (hp : Tx.parse b = .ok (t, rest)) :
    Tx.Valid t ∧ b = Tx.ser true t ++ rest := tx_ser_parse b t rest hp

/-- the stripped serialization (`include_witness=False`, what txid hashes) parses to the stripped
    transaction.  PARTIAL in the same sense as `tx_parse_serialize_partial`: `Tx.Valid` excludes the shape
    "no input, exactly one output", whose stripped encoding `… 00 01 …` reads as the segwit marker too.
    Full statement (false for that one shape, see `tx_no_input_one_output_never_round_trips`):
      ∀ t rest, Tx.StructValid t → Tx.parse (Tx.ser false t ++ rest) = .ok (t.strip, rest) -/
theorem tx_parse_serialize_stripped_partial (t : Tx) (rest : Bytes) (hv : Tx.Valid t) :
    Tx.parse (Tx.ser false t ++ rest) = .ok (t.strip, rest) := tx_parse_ser_stripped t rest hv

/-- segwit marker rule: an accepted encoding carries the marker `00 01` after the version exactly
    when the transaction has a non-empty witness; so the marker with all-empty witnesses (the
    "superfluous witness record") and a witness without marker are never accepted. -/
theorem tx_marker_iff_segwit (b : Bytes) (t : Tx) (rest : Bytes) (hp : Tx.parse b = .ok (t, rest)) :
    ((b.drop 4).take 2 = Gen.Wire.SEGWIT_MARKER ↔ t.isSegwit = true) := by
  obtain ⟨hv, rfl⟩ := tx_ser_parse b t rest hp
  obtain ⟨_, _, _, _, _, hamb⟩ := hv
  have hd : ∀ x : Bytes, (leBytes 4 t.version ++ x).drop 4 = x := by
    intro x; rw [List.drop_append_of_le_length (by simp)]; simp
  unfold Tx.ser
  simp only [Bool.true_and, List.append_assoc, hd]
  cases hs : t.isSegwit with
  | true => simp [marker_eq]
  | false =>
    have := no_marker t.vin t.vout (leBytes 4 t.lockTime ++ rest) hamb
    simp only [Bool.false_eq_true, if_false, List.nil_append, iff_false]
    intro h
    rw [h] at this
    simp at this

/-- the superfluous witness record itself: marker, then one empty witness per input -/
example : Tx.parse ([1,0,0,0, 0,1, 1] ++ List.replicate 32 7 ++ [0,0,0,0, 0, 0,0,0,0, 0, 0, 0,0,0,0])
    = .error .superfluous := by decide

/-- T3: `_serialized_size(include_witness)` is the length of `serialize(include_witness)`, for both
    values of the flag and every CompactSize width of every count and length. -/
theorem tx_size_eq_length (w : Bool) (t : Tx) (hv : Tx.StructValid t) : Tx.size w t = (Tx.ser w t).length :=
  tx_size_eq w t hv

/-- weight = 3 · stripped length + total length; vsize = ⌈weight / 4⌉ -/
theorem tx_weight_eq (t : Tx) (hv : Tx.StructValid t) :
    Tx.weight t = 3 * (Tx.ser false t).length + (Tx.ser true t).length ∧
    4 * Tx.vsize t ≥ Tx.weight t ∧ 4 * Tx.vsize t < Tx.weight t + 4 := by
  refine ⟨by simp only [Tx.weight, tx_size_eq _ t hv], ?_, ?_⟩ <;> (unfold Tx.vsize; omega)

/-- PARTIAL in the same sense as `tx_parse_serialize_partial`: `tx.valid` excludes the no-input /
    one-output shape -/
theorem tx_lawful_partial : Lawful tx := lawful_tx

/-- T4: for any hash function, txid and wtxid coincide when no input has a witness … -/
theorem txid_eq_wtxid_of_no_witness (H : Bytes → Bytes) (t : Tx) (h : t.isSegwit = false) :
    t.id H = t.wid H := by
  simp [Tx.id, Tx.wid, Tx.ser, h]

/-- … and the wtxid of a parsed transaction is that of the bytes: it hashes exactly the accepted octets -/
theorem wtxid_of_bytes (H : Bytes → Bytes) (b : Bytes) (t : Tx) (hp : tx.parseAll b = .ok t) :
    t.wid H = (H b).reverse := by
  have := (lawful_tx.parseAll_iff b t).1 hp
  rw [this.2]; rfl

/-- … and txid hashes exactly the accepted octets when they carry no witness (no marker) -/
theorem txid_of_bytes_of_no_witness (H : Bytes → Bytes) (b : Bytes) (t : Tx) (hp : tx.parseAll b = .ok t)
    (h : t.isSegwit = false) : t.id H = (H b).reverse := by
  rw [txid_eq_wtxid_of_no_witness H t h]
  have := (lawful_tx.parseAll_iff b t).1 hp
  rw [this.2]; rfl

theorem block_header_lawful : Lawful blockHeader := lawful_blockHeader
theorem block_header_valid_iff (h : BlockHeader) :
    blockHeader.valid h ↔ (-(2 ^ 31 : Int) ≤ h.version ∧ h.version < 2 ^ 31) ∧ h.prevHash.length = 32 ∧
      h.merkleRoot.length = 32 ∧ h.time < 2 ^ 32 ∧ h.bits.length = 4 ∧ h.nonce < 2 ^ 32 := blockHeader_valid h
/-- a valid header serializes to exactly `_REQUIRED_LENGTH` (80) bytes -/
theorem block_header_length (h : BlockHeader) (hv : blockHeader.valid h) :
    (blockHeader.ser h).length = Gen.Wire.HEADER_LENGTH := blockHeader_length h hv
/-- PARTIAL: inherits the excluded transaction shape through `tx.valid` -/
theorem block_lawful_partial : Lawful block := lawful_block
theorem block_valid_iff (b : Block) :
    block.valid b ↔ blockHeader.valid b.header ∧
      ((b.txs.length ≤ Gen.Wire.MAX_BLOCK_TX_COUNT ∧ b.txs.length < 2 ^ 64) ∧ ∀ t ∈ b.txs, Tx.Valid t) :=
  block_valid b
theorem tx_valid_iff (t : Tx) : tx.valid t ↔ Tx.StructValid t ∧ ¬ (t.vin = [] ∧ t.vout.length = 1) :=
  ⟨fun h => ⟨h.struct, h.2.2.2.2.2⟩, fun h => ⟨h.1.1, h.1.2.1, h.1.2.2.1, h.1.2.2.2.1, h.1.2.2.2.2, h.2⟩⟩
example : block.parseAll (block.ser ⟨⟨1, List.replicate 32 1, List.replicate 32 2, 1231006505, [0x1d, 0, 0xff, 0xff], 7⟩,
      [⟨2, 0, [⟨⟨List.replicate 32 7, 1⟩, [0x51], 5, [[1]]⟩], [⟨50, [0x6a]⟩]⟩]⟩)
    = .ok ⟨⟨1, List.replicate 32 1, List.replicate 32 2, 1231006505, [0x1d, 0, 0xff, 0xff], 7⟩,
      [⟨2, 0, [⟨⟨List.replicate 32 7, 1⟩, [0x51], 5, [[1]]⟩], [⟨50, [0x6a]⟩]⟩]⟩ := by decide
example : blockHeader.parseAll (blockHeader.ser ⟨-1, List.replicate 32 1, List.replicate 32 2, 0, [1, 2, 3, 4], 0xFFFFFFFF⟩)
    = .ok ⟨-1, List.replicate 32 1, List.replicate 32 2, 0, [1, 2, 3, 4], 0xFFFFFFFF⟩ := by decide

-- non-vacuity: concrete valid objects on both sides of the marker rule
def exIn : TxIn := ⟨⟨List.replicate 32 7, 1⟩, [0x51], 0xFFFFFFFE, []⟩
def exTx : Tx := ⟨2, 0, [exIn], [⟨5000000000, [0x6a]⟩]⟩
def exTxW : Tx := ⟨2, 9, [{ exIn with witness := [[1, 2], []] }], [⟨-1, []⟩]⟩
example : tx.parseAll (Tx.ser true exTx) = .ok exTx := by decide
example : tx.parseAll (Tx.ser true exTxW) = .ok exTxW := by decide
example : exTxW.isSegwit = true ∧ (Tx.ser true exTxW).length = Tx.size true exTxW
    ∧ Tx.weight exTxW = 3 * 61 + 68 := by decide
example : Tx.parse (Tx.ser false exTxW) = .ok (exTxW.strip, []) := by decide
/-- the shape T1 excludes really fails to round-trip (no input, one output) -/
example : Tx.parse (Tx.ser true ⟨1, 0, [], [⟨0, []⟩]⟩) ≠ .ok (⟨1, 0, [], [⟨0, []⟩]⟩, []) := by decide

/-! ## p2p envelope and payloads -/

/-- the message envelope (magic, 12-byte NUL-padded printable command, LE length, checksum =
    first four bytes of the hash of the payload) obeys T1-T3 for EVERY hash function `H` -/
theorem message_lawful (H : Bytes → Bytes) : Lawful (msg H) := lawful_msg H
theorem message_valid_iff (H : Bytes → Bytes) (hH : ∀ x, 4 ≤ (H x).length) (m : Msg) :
    (msg H).valid m ↔ m.magic.length = 4 ∧ (m.command.length ≤ 12 ∧ m.command.all printable = true)
      ∧ m.payload.length ≤ Gen.Wire.MAX_PROTOCOL_MESSAGE_LENGTH := msg_valid H hH m
/-- a count checked against the cap of its payload class, then that many items -/
theorem capped_list_lawful {α : Type} (m : Nat) (c : Codec α) (h : Lawful c) : Lawful (listUpTo m c) :=
  lawful_listUpTo m h
theorem capped_list_valid_iff {α : Type} (m : Nat) (c : Codec α) (l : List α) :
    (listUpTo m c).valid l ↔ (l.length ≤ Gen.VarInt.MAX_SIZE ∧ l.length ≤ m) ∧ ∀ x ∈ l, c.valid x :=
  listUpTo_valid m c l
theorem ping_pong_lawful : Lawful nonce8 := lawful_uintLE 8
theorem feefilter_lawful : Lawful feeFilter := lawful_intLE 8
theorem empty_payload_lawful : Lawful Btc.Wire.empty := lawful_empty
theorem network_address_lawful : Lawful netAddr := lawful_netAddr
theorem network_address_valid_iff (a : NetAddr) :
    netAddr.valid a ↔ a.services < 2 ^ 64 ∧ a.ip.length = 16 ∧ a.port < 2 ^ 16 := netAddr_valid a
theorem inventory_valid_iff (i : Nat × Bytes) : inventory.valid i ↔ i.1 < 2 ^ 32 ∧ i.2.length = 32 :=
  inventory_valid i
/-- addr / inv / getheaders / headers: `capped_list_valid_iff` at the caps `MAX_ADDR_TO_SEND`, `MAX_INV_SZ`,
    `MAX_LOCATOR_SZ`, `MAX_HEADERS_RESULTS` over the item validity above -/
theorem addr_valid_iff (l : List (Nat × NetAddr)) :
    addr.valid l ↔ (l.length ≤ Gen.VarInt.MAX_SIZE ∧ l.length ≤ Gen.Wire.MAX_ADDR_TO_SEND) ∧
      ∀ x ∈ l, timedAddr.valid x := listUpTo_valid _ _ l
theorem inv_valid_iff (l : List (Nat × Bytes)) :
    inv.valid l ↔ (l.length ≤ Gen.VarInt.MAX_SIZE ∧ l.length ≤ Gen.Wire.MAX_INV_SZ) ∧
      ∀ x ∈ l, inventory.valid x := listUpTo_valid _ _ l
theorem headers_valid_iff (l : List (BlockHeader × Unit)) :
    headers.valid l ↔ (l.length ≤ Gen.VarInt.MAX_SIZE ∧ l.length ≤ Gen.Wire.MAX_HEADERS_RESULTS) ∧
      ∀ x ∈ l, (pair blockHeader zeroCount).valid x := listUpTo_valid _ _ l
example : addr.parseAll (addr.ser [(5, ⟨1033, List.replicate 16 9, 8333⟩)]) = .ok [(5, ⟨1033, List.replicate 16 9, 8333⟩)] := by
  decide
example : inv.parseAll (inv.ser [(1, List.replicate 32 3), (0x40000002, List.replicate 32 4)])
    = .ok [(1, List.replicate 32 3), (0x40000002, List.replicate 32 4)] := by decide
example : locator.parseAll (locator.ser (70016, [List.replicate 32 1, List.replicate 32 2], List.replicate 32 0))
    = .ok (70016, [List.replicate 32 1, List.replicate 32 2], List.replicate 32 0) := by decide
example : headers.parseAll (headers.ser [(⟨2, List.replicate 32 1, List.replicate 32 2, 9, [1, 2, 3, 4], 5⟩, ())])
    = .ok [(⟨2, List.replicate 32 1, List.replicate 32 2, 9, [1, 2, 3, 4], 5⟩, ())] := by decide
example : Version.parseAll (Version.serAll (⟨70016, 1033, -5, ⟨0, List.replicate 16 0, 0⟩, ⟨1, List.replicate 16 1, 8333⟩,
      7, [0x2f, 0x62, 0x2f], 800000⟩, some true))
    = .ok (⟨70016, 1033, -5, ⟨0, List.replicate 16 0, 0⟩, ⟨1, List.replicate 16 1, 8333⟩, 7, [0x2f, 0x62, 0x2f], 800000⟩,
      some true) := by decide
theorem addr_lawful : Lawful addr := lawful_addr
theorem inventory_lawful : Lawful inventory := lawful_inventory
theorem inv_getdata_notfound_lawful : Lawful inv := lawful_inv
theorem getblocks_getheaders_lawful : Lawful locator := lawful_locator
/-- `SendCmpct`: the announce octet is 0 or 1, nothing else is accepted -/
theorem sendcmpct_lawful : Lawful sendCmpct := lawful_sendCmpct
theorem sendcmpct_valid_iff (t : Nat × Nat) : sendCmpct.valid t ↔ t.1 ≤ 1 ∧ t.2 < 2 ^ 64 := sendCmpct_valid t
theorem getcfilters_getcfheaders_lawful : Lawful filterRange := lawful_filterRange
theorem cfilter_lawful : Lawful cfilter := lawful_cfilter
theorem cfheaders_lawful : Lawful cfheaders := lawful_cfheaders
theorem getcfcheckpt_lawful : Lawful getcfcheckpt := lawful_getcfcheckpt
theorem cfcheckpt_lawful : Lawful cfcheckpt := lawful_cfcheckpt
theorem getblocks_getheaders_valid_iff (t : Int × List Bytes × Bytes) :
    locator.valid t ↔ (-(2 ^ 31 : Int) ≤ t.1 ∧ t.1 < 2 ^ 31) ∧
      ((t.2.1.length ≤ Gen.VarInt.MAX_SIZE ∧ t.2.1.length ≤ Gen.Wire.MAX_LOCATOR_SZ) ∧ ∀ x ∈ t.2.1, x.length = 32) ∧
      t.2.2.length = 32 := locator_valid t
theorem getcfilters_getcfheaders_valid_iff (t : Nat × Nat × Bytes) :
    filterRange.valid t ↔ t.1 < 256 ∧ t.2.1 < 2 ^ 32 ∧ t.2.2.length = 32 := filterRange_valid t
theorem cfilter_valid_iff (t : Nat × Bytes × Bytes) :
    cfilter.valid t ↔ t.1 < 256 ∧ t.2.1.length = 32 ∧ t.2.2.length ≤ Gen.VarInt.MAX_SIZE := cfilter_valid t
theorem cfheaders_valid_iff (t : Nat × Bytes × Bytes × List Bytes) :
    cfheaders.valid t ↔ t.1 < 256 ∧ t.2.1.length = 32 ∧ t.2.2.1.length = 32 ∧
      (t.2.2.2.length ≤ Gen.VarInt.MAX_SIZE ∧ t.2.2.2.length ≤ Gen.Wire.MAX_GETCFHEADERS_SIZE) ∧
      ∀ x ∈ t.2.2.2, x.length = 32 := cfheaders_valid t
theorem getcfcheckpt_valid_iff (t : Nat × Bytes) : getcfcheckpt.valid t ↔ t.1 < 256 ∧ t.2.length = 32 :=
  getcfcheckpt_valid t
theorem cfcheckpt_valid_iff (t : Nat × Bytes × List Bytes) :
    cfcheckpt.valid t ↔ t.1 < 256 ∧ t.2.1.length = 32 ∧
      (t.2.2.length ≤ Gen.VarInt.MAX_SIZE ∧ t.2.2.length < 2 ^ 64) ∧ ∀ x ∈ t.2.2, x.length = 32 := cfcheckpt_valid t
/-- the fixed part of `Version` -/
theorem version_body_valid_iff (v : Version) :
    versionBody.valid v ↔ (-(2 ^ 31 : Int) ≤ v.version ∧ v.version < 2 ^ 31) ∧ v.services < 2 ^ 64 ∧
      (-(2 ^ 63 : Int) ≤ v.timestamp ∧ v.timestamp < 2 ^ 63) ∧ netAddr.valid v.addrRecv ∧ netAddr.valid v.addrFrom ∧
      v.nonce < 2 ^ 64 ∧ v.userAgent.length ≤ Gen.VarInt.MAX_SIZE ∧
      (-(2 ^ 31 : Int) ≤ v.startHeight ∧ v.startHeight < 2 ^ 31) := versionBody_valid v
example : filterRange.parseAll (filterRange.ser (0, 800000, List.replicate 32 5)) = .ok (0, 800000, List.replicate 32 5) := by
  decide
example : cfilter.parseAll (cfilter.ser (0, List.replicate 32 5, [1, 2, 3])) = .ok (0, List.replicate 32 5, [1, 2, 3]) := by
  decide
example : cfheaders.parseAll (cfheaders.ser (0, List.replicate 32 5, List.replicate 32 6, [List.replicate 32 7, List.replicate 32 8]))
    = .ok (0, List.replicate 32 5, List.replicate 32 6, [List.replicate 32 7, List.replicate 32 8]) := by decide
example : getcfcheckpt.parseAll (getcfcheckpt.ser (255, List.replicate 32 5)) = .ok (255, List.replicate 32 5) := by decide
example : cfcheckpt.parseAll (cfcheckpt.ser (0, List.replicate 32 5, [List.replicate 32 7])) = .ok (0, List.replicate 32 5, [List.replicate 32 7]) := by
  decide
example : sendCmpct.parseAll (sendCmpct.ser (1, 2)) = .ok (1, 2) := by decide
example : sendCmpct.parseAll [2, 1, 0, 0, 0, 0, 0, 0, 0] = .error .badFlag
    ∧ sendCmpct.parseAll [1, 2, 0, 0, 0, 0, 0, 0, 0] = .ok (1, 2) := by decide
/-- `Headers`: each header is followed by a transaction count that is exactly `00` -/
theorem headers_lawful : Lawful headers := lawful_headers
/-- `Version` on octets: accepted iff the serialization of a valid body closed by nothing, `00` or `01`;
    so a relay flag of 2, or anything after the flag, is never accepted -/
theorem version_accepted_iff (b : Bytes) (v : Version × Option Bool) :
    Version.parseAll b = .ok v ↔ versionBody.valid v.1 ∧ b = Version.serAll v := version_parseAll_iff b v

example : (msg (fun _ => [1, 2, 3, 4, 5])).parseAll
    ([0xf9, 0xbe, 0xb4, 0xd9] ++ [112, 105, 110, 103, 0, 0, 0, 0, 0, 0, 0, 0] ++ [2, 0, 0, 0] ++ [1, 2, 3, 4] ++ [7, 7])
    = .ok ⟨[0xf9, 0xbe, 0xb4, 0xd9], [112, 105, 110, 103], [7, 7]⟩ := by decide
example : (msg (fun _ => [1, 2, 3, 4])).parseAll
    ([0xf9, 0xbe, 0xb4, 0xd9] ++ [112, 0, 110, 0, 0, 0, 0, 0, 0, 0, 0, 0] ++ [0, 0, 0, 0] ++ [1, 2, 3, 4])
    = .error .badCommand := by decide
example : headers.parseAll (1 :: List.replicate 80 1 ++ [1]) = .error .badCount := by decide

/-! ## BIP32 extended key data -/

theorem xkey_lawful : Lawful xkey := lawful_xkey
/-- valid key data is exactly 78 bytes: 4 + 1 + 4 + 4 + 32 + 33 -/
theorem xkey_length_78 (k : XKey) (hv : xkey.valid k) : (xkey.ser k).length = 78 := xkey_length k hv
theorem xkey_valid_iff (k : XKey) :
    xkey.valid k ↔ k.version.length = 4 ∧ k.depth < 256 ∧ k.parentFp.length = 4 ∧ k.index < 2 ^ 32
      ∧ k.chainCode.length = 32 ∧ k.key.length = 33 := xkey_valid k
example : xkey.parseAll (xkey.ser ⟨[4, 0x88, 0xb2, 0x1e], 3, [1, 2, 3, 4], 0x80000001,
    List.replicate 32 9, 2 :: List.replicate 32 5⟩) = .ok ⟨[4, 0x88, 0xb2, 0x1e], 3, [1, 2, 3, 4], 0x80000001,
    List.replicate 32 9, 2 :: List.replicate 32 5⟩ := by decide

/-! ## Signatures and key origins -/

/-- BIP340 signature: exactly 64 bytes, r ‖ s big-endian -/
theorem ssa_sig_lawful : Lawful ssaSig := lawful_ssaSig
theorem ssa_sig_valid_iff (t : Nat × Nat) : ssaSig.valid t ↔ t.1 < 2 ^ 256 ∧ t.2 < 2 ^ 256 := ssaSig_valid t
/-- compact recoverable signature: exactly 65 bytes, rf ‖ r ‖ s -/
theorem bms_sig_lawful : Lawful bmsSig := lawful_bmsSig
theorem bms_sig_valid_iff (t : Nat × Nat × Nat) :
    bmsSig.valid t ↔ t.1 < 256 ∧ t.2.1 < 2 ^ 256 ∧ t.2.2 < 2 ^ 256 := bmsSig_valid t
/-- key origin / derivation record on octets: accepted iff it is the serialization of a 4-byte
    fingerprint and 4-byte little-endian indexes, nothing else -/
theorem key_origin_accepted_iff (b : Bytes) (k : Bytes × List Nat) :
    keyOriginParseAll b = .ok k ↔ (k.1.length = 4 ∧ ∀ i ∈ k.2, i < 2 ^ 32) ∧ b = keyOriginSer k :=
  keyOrigin_parseAll_iff b k
example : keyOriginParseAll [1, 2, 3, 4, 44, 0, 0, 0x80, 1, 0, 0, 0] = .ok ([1, 2, 3, 4], [0x8000002c, 1]) := by decide
example : keyOriginParseAll [1, 2, 3, 4, 44, 0, 0] = .error .invalid := by decide

/-! ## PSBT map layer (BIP174 leaves the key order free) -/
open Btc.Psbt

/-- T5a: `deserialize_map(serialize(m) ‖ rest) = (m, rest)` for every map with non-empty, pairwise
    distinct keys (keys and values within `var_int.MAX_SIZE`), in any record order. -/
theorem psbt_map_parse_serialize (recs : List Rec) (rest : Bytes) (hv : ValidRecs recs) :
    parseMap (serMap recs ++ rest) = .ok (recs, rest) := parseMap_serMap recs rest hv

/-- T5b: whatever `deserialize_map` accepts is exactly the serialization, in order, of the records it
    returns (closed by `00`), followed by what it left; a duplicated key is never accepted. -/
theorem psbt_map_serialize_parse (b : Bytes) (recs : List Rec) (rest : Bytes)
    (hp : parseMap b = .ok (recs, rest)) : ValidRecs recs ∧ b = serMap recs ++ rest :=
  serMap_parseMap b recs rest hp

/-- T5c: re-serializing a parsed map in the emission order (any ranking of the field types, then key
    octets) keeps every key-value pair, unknown ones included: the records of the output are a
    permutation of the records of the input. -/
theorem psbt_norm_keeps_every_pair (rank : Bytes → Nat) (b b' rest : Bytes)
    (h : norm rank b = .ok (b', rest)) :
    ∃ recs recs', parseMap b = .ok (recs, rest) ∧ parseMap b' = .ok (recs', []) ∧ recs'.Perm recs := by
  unfold norm at h
  split at h
  · cases h
  · rename_i recs r hp
    cases h
    have ⟨hv, _⟩ := serMap_parseMap _ _ _ hp
    refine ⟨recs, sortRecs rank recs, hp, ?_, sortRecs_perm rank recs⟩
    have := parseMap_serMap (sortRecs rank recs) [] (validRecs_perm (sortRecs_perm rank recs).symm hv)
    simpa using this

/-- T5d: the re-serialization is a fixed point after one round. -/
theorem psbt_norm_fixed_point (rank : Bytes → Nat) (b b' rest : Bytes)
    (h : norm rank b = .ok (b', rest)) : norm rank b' = .ok (b', []) := by
  unfold norm at h
  split at h
  · cases h
  · rename_i recs r hp
    cases h
    have ⟨hv, _⟩ := serMap_parseMap _ _ _ hp
    have := parseMap_serMap (sortRecs rank recs) [] (validRecs_perm (sortRecs_perm rank recs).symm hv)
    simp only [List.append_nil] at this
    unfold norm
    rw [this]
    simp only [sortRecs_idem]

/-- T5e: the result does not depend on the order the records came in. -/
theorem psbt_norm_order_independent (rank : Bytes → Nat) (a c : List Rec) (rest : Bytes)
    (hv : ValidRecs a) (hperm : a.Perm c) :
    norm rank (serMap a ++ rest) = norm rank (serMap c ++ rest) := by
  unfold norm
  rw [parseMap_serMap a rest hv, parseMap_serMap c rest (validRecs_perm hperm hv)]
  simp only [sortRecs_perm_eq rank hperm hv.2]

-- non-vacuity: a map with an unknown record (fc…), a sighash-type record whose value is zero, and
-- two derivations out of order
def exMap : Bytes :=
  [2, 0xfc, 9, 1, 5,   1, 3, 4, 0, 0, 0, 0,   2, 6, 2, 1, 7,   2, 6, 1, 1, 8,   0]
example : parseMap (exMap ++ [9]) =
    .ok ([([0xfc, 9], [5]), ([3], [0, 0, 0, 0]), ([6, 2], [7]), ([6, 1], [8])], [9]) := by decide
-- emission order: sighash type (03) before derivations (06 01 < 06 02) before the unknown record
example : recLe inRank ([3], [0, 0, 0, 0]) ([6, 1], [8]) = true ∧ recLe inRank ([6, 1], [8]) ([6, 2], [7]) = true
    ∧ recLe inRank ([6, 2], [7]) ([0xfc, 9], [5]) = true ∧ recLe inRank ([0xfc, 9], [5]) ([10, 1], []) = true := by
  decide
example : parseMap [1, 3, 1, 0, 1, 3, 1, 1, 0] = .error .dupKey := by decide

/-! ## PSBT typed layer (input, output and global maps)

`fromRecs` is the dispatch loop of `parse` (which field each record lands in), `toRecs` the loop of
`serialize` over the emission table; the tables (`specIn`, `specOut`, `specGlobal`) are regenerated from
psbt_in.py / psbt_out.py / psbt.py on every run. -/

/-- kind 1, "falsy value": a whole-value field that is neither written-whenever-present nor an object,
    whose value is the empty octet string (for the final witness: the empty stack `00`; for the global
    version record: `00000000`) -/
def EmptyValueKind (s : Spec) (r : Rec) : Prop :=
  s.whole.contains (tyOf r.1) = true ∧ s.falsy (tyOf r.1) r.2 = true
/-- kind 2, "finalized-input field": the map carries a truthy final scriptSig / final witness and the
    record's field is in `_DROPPED_ONCE_FINALIZED` -/
def FinalizerFieldKind (s : Spec) (recs : List Rec) (r : Rec) : Prop :=
  s.finalized recs = true ∧ s.known (tyOf r.1) = true ∧ s.droppedOnceFinal.contains (tyOf r.1) = true

/-- the parse side and the serialize side of the global map agree on what belongs to version 0 alone (both
    lists are read off the syntax tree: `_parse_global_map` refuses it elsewhere, `Psbt.serialize` writes it
    under the version 0 arm only) -/
theorem psbt_global_v0_tables_agree : Gen.Wire.PSBT_GLOBAL_V0_WRITTEN = Gen.Wire.PSBT_GLOBAL_V0_ONLY := by decide

theorem psbt_in_tables_wellformed : specIn.WF := wf_specIn
theorem psbt_out_tables_wellformed : specOut.WF := wf_specOut
theorem psbt_global_tables_wellformed : specGlobal.WF := wf_specGlobal

/-- THE LAW of the typed layer, for any well-formed tables: running the serialize loop (field by field in
    table order; skip a field dropped once finalized; skip a falsy value; one record for a whole-value
    field, `sorted(dict.items())` for a dict, the unknown records at their place) over the typed object the
    parse loop built from a duplicate-free map gives exactly the records that survive the explicit drop
    predicate, sorted by (field rank, key). -/
theorem psbt_serialize_loop_of_parse_loop (s : Spec) (wf : s.WF) (ver : Nat) (recs : List Rec)
    (hv : ValidRecs recs)
    (hok : ∀ r ∈ recs, s.whole.contains (tyOf r.1) = true → keyData r.1 = [])
    (hgate : ∀ r ∈ recs, s.gated ver (tyOf r.1) = false) :
    toRecs s ver (fromRecs s recs) =
      sortRecs s.rank (recs.filter (fun r => !s.dropped (s.finalized recs) r)) :=
  toRecs_fromRecs s wf ver recs hv hok hgate

/-- the version gate of the serialize loop never bites on what the parse loop admitted at that version:
    a record `recordOk ver` accepts is of a field `serialize` writes at `ver` -/
theorem psbt_parse_admits_only_what_serialize_writes (s : Spec) (wf : s.WF) (ver : Nat) (r : Rec)
    (h : s.recordOk ver r = true) : s.gated ver (tyOf r.1) = false :=
  recordOk_not_gated s wf ver r h

/-- version gating, parse side: `parse` and `serialize` take the versions of `assert_valid_psbt_version` (0 and
    2, regenerated) and refuse every other number whatever the map holds -/
theorem psbt_other_versions_refused (s : Spec) (ver : Nat) (b : Bytes) (h : ver ≠ 0 ∧ ver ≠ 2) :
    ∃ e, reser s ver b = .error e := by
  have hadm : admitsVersion ver = false := by
    cases hb : admitsVersion ver
    · rfl
    · rcases (admitsVersion_iff ver).1 hb with h0 | h2
      · exact absurd h0 h.1
      · exact absurd h2 h.2
  unfold reser
  split
  · exact ⟨_, rfl⟩
  · simp [hadm]

/-- version gating, parse side: a field of the version-2 table in a map read at version 0, or a version-0-only
    field in a map read at another version, makes `reser` refuse -/
theorem psbt_wrong_version_field_refused (s : Spec) (ver : Nat) (b : Bytes) (recs : List Rec) (r : Rec)
    (hp : parseMap b = .ok (recs, [])) (hr : r ∈ recs)
    (hf : (ver = 0 ∧ tyOf r.1 ∈ s.v2) ∨ (ver ≠ 0 ∧ tyOf r.1 ∈ s.v0only)) :
    ∃ e, reser s ver b = .error e := by
  have hno : s.recordOk ver r = false := by
    rcases hf with ⟨h0, hm⟩ | ⟨h0, hm⟩
    · subst h0; simp [Spec.recordOk, hm]
    · simp only [Spec.recordOk]
      cases hv2 : (decide (ver = 0) && s.v2.contains (tyOf r.1))
      · simp [h0, hm]
      · simp
  have hall : recs.all (s.recordOk ver) = false := by
    rw [List.all_eq_false]
    exact ⟨r, hr, by simp [hno]⟩
  unfold reser
  rw [hp]
  simp only [List.isEmpty_nil, Bool.not_true, Bool.false_eq_true, if_false, hall, Bool.false_and]
  split
  · exact ⟨_, rfl⟩
  · exact ⟨_, rfl⟩

/-- version gating, serialize side, for ANY typed object (one built by the constructors included, where a
    version 0 input does hold an outpoint and a sequence): the loop of `serialize` writes no record of a field
    the version excludes -- such a record comes out only if the caller filed it under `unknown` -/
theorem psbt_serialize_skips_other_version_fields (s : Spec) (wf : s.WF) (ver : Nat) (t : Typed) (r : Rec)
    (hr : r ∈ toRecs s ver t) (hg : s.gated ver (tyOf r.1) = true) : r ∈ t.unknown :=
  toRecs_gated s wf ver t r hr hg

/-- duplicated key origins (`assert_valid_hd_key_paths`, reached whatever `check_validity` says): a map that
    `reser` accepts has pairwise distinct values inside each derivation dict -/
theorem psbt_reserialize_distinct_key_origins (s : Spec) (wf : s.WF) (ver : Nat) (b out : Bytes)
    (h : reser s ver b = .ok out) :
    ∃ recs, parseMap b = .ok (recs, []) ∧
      ∀ ty ∈ s.hd, ((recs.filter (fun r => tyOf r.1 == ty)).map (·.2)).Nodup := by
  obtain ⟨recs, hp, _, _, _, _, _, hd⟩ := reser_ok s wf ver b out h
  refine ⟨recs, hp, ?_⟩
  simpa [Spec.distinctOk, List.all_eq_true] using hd

/-- hence: whenever `X.parse(b).serialize()` answers, its records are exactly the records of `b` that are
    of neither kind -- every other key-value pair, unknown ones included, is kept unaltered, and none is
    invented; any other dropped pair would contradict this. -/
theorem psbt_reserialize_keeps_all_but (s : Spec) (wf : s.WF) (ver : Nat) (b out : Bytes)
    (h : reser s ver b = .ok out) :
    ∃ recs recs', parseMap b = .ok (recs, []) ∧ parseMap out = .ok (recs', []) ∧
      recs' = toRecs s ver (fromRecs s recs) ∧ (ver = 0 ∨ ver = 2) ∧
      ∀ r, r ∈ recs' ↔ r ∈ recs ∧ ¬ EmptyValueKind s r ∧ ¬ FinalizerFieldKind s recs r := by
  obtain ⟨recs, hp, _, hv, e, rfl, hver, _⟩ := reser_ok s wf ver b out h
  refine ⟨recs, _, hp, parseMap_sorted_kept s recs hv, e.symm, hver, ?_⟩
  intro r
  rw [mem_sorted_kept]
  simp only [Spec.dropped, Bool.or_eq_false_iff, Bool.and_eq_false_iff, EmptyValueKind, FinalizerFieldKind,
    not_and, Bool.not_eq_true]
  constructor
  · rintro ⟨hr, h1, h2⟩
    refine ⟨hr, ?_, ?_⟩
    · intro hw; rcases h1 with h1 | h1
      · rw [hw] at h1; cases h1
      · exact h1
    · intro hf hk
      rcases h2 with (h2 | h2) | h2
      · rw [hf] at h2; cases h2
      · rw [hk] at h2; cases h2
      · exact h2
  · rintro ⟨hr, h1, h2⟩
    refine ⟨hr, ?_, ?_⟩
    · cases hw : s.whole.contains (tyOf r.1)
      · left; rfl
      · right; exact h1 hw
    · cases hf : s.finalized recs
      · left; left; rfl
      · cases hk : s.known (tyOf r.1)
        · left; right; rfl
        · right; exact h2 hf hk

/-- the three instances: `PsbtIn`, `PsbtOut`, and the global map of `Psbt` (whose version is read off its
    own version record and whose required fields `_settle_globals` checks) -/
theorem psbtin_reserialize_keeps_all_but (ver : Nat) (b out : Bytes) (h : reser specIn ver b = .ok out) :
    ∃ recs recs', parseMap b = .ok (recs, []) ∧ parseMap out = .ok (recs', []) ∧
      recs' = toRecs specIn ver (fromRecs specIn recs) ∧ (ver = 0 ∨ ver = 2) ∧
      ∀ r, r ∈ recs' ↔ r ∈ recs ∧ ¬ EmptyValueKind specIn r ∧ ¬ FinalizerFieldKind specIn recs r :=
  psbt_reserialize_keeps_all_but specIn wf_specIn ver b out h

/-- outputs and globals are never "finalized": only the falsy-value kind exists there -/
theorem psbtout_reserialize_keeps_all_but (ver : Nat) (b out : Bytes) (h : reser specOut ver b = .ok out) :
    ∃ recs recs', parseMap b = .ok (recs, []) ∧ parseMap out = .ok (recs', []) ∧
      ∀ r, r ∈ recs' ↔ r ∈ recs ∧ ¬ EmptyValueKind specOut r := by
  obtain ⟨recs, recs', h1, h2, _, _, h3⟩ := psbt_reserialize_keeps_all_but specOut wf_specOut ver b out h
  refine ⟨recs, recs', h1, h2, fun r => ?_⟩
  rw [h3 r]
  have : ¬ FinalizerFieldKind specOut recs r := fun hf => by
    have := hf.2.2; simp [specOut] at this
  simp [this]

theorem psbtglobal_reserialize_keeps_all_but (b out : Bytes) (h : reserGlobal b = .ok out) :
    ∃ recs recs', parseMap b = .ok (recs, []) ∧ parseMap out = .ok (recs', []) ∧
      ∀ r, r ∈ recs' ↔ r ∈ recs ∧ ¬ EmptyValueKind specGlobal r := by
  obtain ⟨ver, _, h'⟩ := reserGlobal_ok b out h
  obtain ⟨recs, recs', h1, h2, _, _, h3⟩ := psbt_reserialize_keeps_all_but specGlobal wf_specGlobal ver b out h'
  refine ⟨recs, recs', h1, h2, fun r => ?_⟩
  rw [h3 r]
  have : ¬ FinalizerFieldKind specGlobal recs r := fun hf => by
    have := hf.2.2; simp [specGlobal] at this
  simp [this]

/-- the falsy values, explicitly -/
theorem empty_value_kind_in_explicit (r : Rec) (h : EmptyValueKind specIn r) :
    r.2 = [] ∨ (tyOf r.1 = Gen.Wire.PSBT_IN_FINAL_SCRIPTWITNESS ∧ r.2 = [0]) := by
  have h2 := h.2
  unfold Spec.falsy at h2
  split at h2
  · cases h2
  · rw [specIn_emptyIs] at h2
    simp only [List.lookup] at h2
    cases hb : (tyOf r.1 == Gen.Wire.PSBT_IN_FINAL_SCRIPTWITNESS)
    · rw [hb] at h2; left; simpa using h2
    · rw [hb] at h2; right; exact ⟨by simpa using hb, by simpa using h2⟩

theorem empty_value_kind_global_explicit (r : Rec) (h : EmptyValueKind specGlobal r) :
    r.2 = [] ∨ (tyOf r.1 = Gen.Wire.PSBT_GLOBAL_VERSION ∧ r.2 = [0, 0, 0, 0]) := by
  have h2 := h.2
  unfold Spec.falsy at h2
  split at h2
  · cases h2
  · rw [specGlobal_emptyIs] at h2
    simp only [List.lookup] at h2
    cases hb : (tyOf r.1 == Gen.Wire.PSBT_GLOBAL_VERSION)
    · rw [hb] at h2; left; simpa using h2
    · rw [hb] at h2; right; exact ⟨by simpa using hb, by simpa using h2⟩

/-- … and the answer is a fixed point: parsing and serializing it again gives the same octets -/
theorem psbt_reserialize_fixed_point (s : Spec) (wf : s.WF) (ver : Nat) (b out : Bytes)
    (h : reser s ver b = .ok out) : reser s ver out = .ok out := reser_fixed s wf ver b out h

-- the falsy / never-falsy tables computed from the generated value-kind tables
example : specIn.objects = [Gen.Wire.PSBT_IN_NON_WITNESS_UTXO, Gen.Wire.PSBT_IN_WITNESS_UTXO]
    ∧ specGlobal.objects = [Gen.Wire.PSBT_GLOBAL_UNSIGNED_TX] ∧ specOut.objects = [] ∧ specOut.emptyIs = []
    ∧ specIn.hd = [6] ∧ specOut.hd = [2] ∧ specGlobal.hd = [1] := by decide
-- version gating: at version 0 an input's sequence is refused by parse and skipped by serialize; the unsigned
-- transaction is refused and skipped at version 2; no other version number is admitted
example : specIn.recordOk 0 ([0x10], [1, 0, 0, 0]) = false ∧ specIn.recordOk 2 ([0x10], [1, 0, 0, 0]) = true
    ∧ specIn.gated 0 0x10 = true ∧ specIn.gated 2 0x10 = false
    ∧ specGlobal.gated 2 0 = true ∧ specGlobal.gated 0 0 = false ∧ specGlobal.gated 0 2 = true
    ∧ admitsVersion 1 = false ∧ admitsVersion 3 = false ∧ admitsVersion 2 = true := by decide
-- a constructed version 0 input holding a sequence and a redeem script: only the script is written
example : emit specIn 0 ⟨[(0x10, [1, 0, 0, 0]), (4, [0x51])], [], []⟩ false 0x10 = []
    ∧ emit specIn 0 ⟨[(0x10, [1, 0, 0, 0]), (4, [0x51])], [], []⟩ false 4 = [([4], [0x51])]
    ∧ emit specIn 2 ⟨[(0x10, [1, 0, 0, 0]), (4, [0x51])], [], []⟩ false 0x10 = [([0x10], [1, 0, 0, 0])] := by
  decide
-- two derivations with the same key origin are refused; with different ones accepted
example : specIn.distinctOk [(6 :: List.replicate 33 2, [1, 2, 3, 4]), (6 :: List.replicate 33 3, [1, 2, 3, 4])] = false
    ∧ specIn.distinctOk [(6 :: List.replicate 33 2, [1, 2, 3, 4]), (6 :: List.replicate 33 3, [1, 2, 3, 5])] = true := by
  decide
-- value checks that run whatever `check_validity` says: an output above MAX_MONEY, a negative one, a
-- non-witness utxo spending one outpoint twice
example : valueOkBy Gen.Wire.PSBT_IN_KINDS 1 (leBytes 8 2100000000000001 ++ [0]) = false
    ∧ valueOkBy Gen.Wire.PSBT_IN_KINDS 1 (leBytes 8 2100000000000000 ++ [0]) = true
    ∧ valueOkBy Gen.Wire.PSBT_IN_KINDS 1 (List.replicate 8 255 ++ [0]) = false := by decide
example : (⟨1, 0, [⟨⟨List.replicate 32 7, 0⟩, [], 0, []⟩, ⟨⟨List.replicate 32 7, 0⟩, [], 1, []⟩], [⟨1, []⟩]⟩ : Tx).assertValid false = false
    ∧ (⟨1, 0, [⟨⟨List.replicate 32 7, 0⟩, [], 0, []⟩, ⟨⟨List.replicate 32 7, 1⟩, [], 1, []⟩], [⟨1, []⟩]⟩ : Tx).assertValid false = true
    ∧ (⟨1, 0, [], []⟩ : Tx).assertValid true = true ∧ (⟨1, 0, [], []⟩ : Tx).assertValid false = false := by decide
-- an explicit sighash type of zero is a record (kept); an empty redeem script is normalised away; a partial
-- signature goes once the input is finalized; an unknown record stays even then; a version-0 record goes
example : specIn.dropped false ([3], [0, 0, 0, 0]) = false ∧ specIn.dropped false ([4], []) = true
    ∧ specIn.dropped false ([8], [0]) = true ∧ specIn.dropped true ([2, 9], [1]) = true
    ∧ specIn.dropped false ([2, 9], [1]) = false ∧ specIn.dropped true ([0xfc, 1], []) = false := by decide
example : specIn.finalized [([7], [0x51])] = true ∧ specIn.finalized [([7], [])] = false
    ∧ specIn.finalized [([8], [0])] = false := by decide
example : specOut.dropped false ([0], []) = true ∧ specOut.dropped false ([3], [0, 0, 0, 0, 0, 0, 0, 0]) = false
    ∧ specOut.dropped false ([6], []) = true ∧ specOut.dropped false ([0xfc], []) = false := by decide
example : specGlobal.dropped false ([0xfb], [0, 0, 0, 0]) = true ∧ specGlobal.dropped false ([0xfb], [2, 0, 0, 0]) = false
    ∧ specGlobal.dropped false ([9], []) = false := by decide
/-- a tap tree record with key data is refused (regression for /repo bfff2ab9); so is a global version
    record with key data (the model refuses it at every position) -/
example : specOut.recordOk 0 ([6, 0xaa], [0, 0xc0, 1, 0x51]) = false ∧ specOut.recordOk 0 ([6], [0, 0xc0, 1, 0x51]) = true
    ∧ specGlobal.recordOk 0 ([0xfb, 1], [0xaa]) = false := by decide
/-- the parse loop on a small map: which field each record lands in -/
example : (fromRecs specIn [([0xfc, 9], [5]), ([4], []), ([3], [0, 0, 0, 0]), ([6, 2], [7])]).whole
      = [(4, []), (3, [0, 0, 0, 0])]
    ∧ (fromRecs specIn [([0xfc, 9], [5]), ([4], []), ([3], [0, 0, 0, 0]), ([6, 2], [7])]).keyed = [(6, [2], [7])]
    ∧ (fromRecs specIn [([0xfc, 9], [5]), ([4], []), ([3], [0, 0, 0, 0]), ([6, 2], [7])]).unknown = [([0xfc, 9], [5])] := by
  decide

/-! ## The JSON form (`to_dict` / `from_dict`) of OutPoint, Witness, TxIn, TxOut, Tx

`Model/C05/Json.lean`: `toDict` / `fromDict cv` over a json value type (floats left out).  What other code
computes is a parameter `e : Env` (script `asm`, BTC-decimal text of an amount and its reading, script
`type`/`addresses`, the hash); the one law used is named (`TxOut.TextOk`).  `cv` is `check_validity`. -/
section JsonForm
open Btc.Json

/-- `bytes.fromhex(b.hex()) == b`; `fromhex` also reads upper case and skips whitespace between octets, so
    `toDict ∘ fromDict` normalises a hex string to lower case without spaces (examples below) -/
theorem json_hex_round_trip (b : Bytes) : unhex (hexOf b) = some b := unhex_hexOf b

/-- `OutPoint.from_dict(x.to_dict(), check_validity=cv) == x`: for every x when cv is off, for valid x when on -/
theorem json_outpoint_round_trip (cv : Bool) (o : Json.OutPoint) (h : cv = false ∨ o.Valid) :
    Json.OutPoint.fromDict cv o.toDict = .ok o := outpoint_round cv o h
theorem json_witness_round_trip (w : List Bytes) : witnessFromDict (witnessToDict w) = .ok w := witness_round w
/-- for ANY asm renderer: `script_from_dict` checks the `asm` against the renderer it was written by -/
theorem json_script_round_trip (e : Env) (s : Bytes) : scriptFromDict e (scriptToDict e s) = .ok s := script_round e s
theorem json_txin_round_trip (e : Env) (cv : Bool) (i : Json.TxIn) (h : cv = false ∨ i.Valid) :
    Json.TxIn.fromDict e cv (i.toDict e) = .ok i := txin_round e cv i h
/-- hypothesis `TextOk`: `sats_from_btc(str(btc_from_sats(v))) == v` for this value (amount.py, not modelled
    here) and the object's network name is one of `NETWORKS` (checked by `ScriptPubKey` whatever cv says) -/
theorem json_txout_round_trip (e : Env) (cv : Bool) (o : Json.TxOut) (ht : o.TextOk e) (h : cv = false ∨ o.Valid) :
    Json.TxOut.fromDict e cv (o.toDict e) = .ok o := txout_round e cv o ht h
theorem json_tx_round_trip (e : Env) (cv : Bool) (t : Json.Tx) (ht : ∀ o ∈ t.vout, o.TextOk e)
    (h : cv = false ∨ t.Valid) : Json.Tx.fromDict e cv (t.toDict e) = .ok t := tx_round e cv t ht h

/-- the other direction, as the normal form it is (`toDict ∘ fromDict` is not the identity: hex case and
    spacing, a bare hex script, an absent `asm` or `network`, extra keys, the derived keys are rewritten):
    whatever `from_dict` accepted, the dict `to_dict` writes for it reads back (nested check off, as the
    enclosing class calls it) to the same object -- one round reaches the fixed point -/
theorem json_tx_normal_form (e : Env) (cv : Bool) (j : J) (t : Json.Tx) (_h : Json.Tx.fromDict e cv j = .ok t)
    (ht : ∀ o ∈ t.vout, o.TextOk e) : Json.Tx.fromDict e false (t.toDict e) = .ok t :=
  tx_round e false t ht (Or.inl rfl)
theorem json_outpoint_normal_form (cv : Bool) (j : J) (o : Json.OutPoint) (_h : Json.OutPoint.fromDict cv j = .ok o) :
    Json.OutPoint.fromDict false o.toDict = .ok o := outpoint_round false o (Or.inl rfl)

/-- the txid, hash, size, vsize and weight in a transaction's dict are those of its octets (any hash) -/
theorem json_tx_dict_reports_bytes (e : Env) (t : Json.Tx) (hv : Wire.Tx.StructValid t.toWire) :
    Json.Tx.toDict e t = .obj [
      (['t', 'x', 'i', 'd'], .str (hexOf (e.H (Wire.Tx.ser false t.toWire)).reverse)),
      (['h', 'a', 's', 'h'], .str (hexOf (e.H (Wire.Tx.ser true t.toWire)).reverse)),
      (['v', 'e', 'r', 's', 'i', 'o', 'n'], .num t.version),
      (['s', 'i', 'z', 'e'], .num ((Wire.Tx.ser true t.toWire).length : Nat)),
      (['v', 's', 'i', 'z', 'e'], .num (((3 * (Wire.Tx.ser false t.toWire).length + (Wire.Tx.ser true t.toWire).length + 3) / 4 : Nat))),
      (['w', 'e', 'i', 'g', 'h', 't'], .num ((3 * (Wire.Tx.ser false t.toWire).length + (Wire.Tx.ser true t.toWire).length : Nat))),
      (['l', 'o', 'c', 'k', 't', 'i', 'm', 'e'], .num t.lockTime),
      (['v', 'i', 'n'], .arr (t.vin.map (Json.TxIn.toDict e))),
      (['v', 'o', 'u', 't'], .arr (t.vout.map (Json.TxOut.toDict e)))] := tx_dict_reports_bytes e t hv

/-- the keys each `to_dict` writes, in order, are the ones read off the syntax tree of the source each run -/
theorem json_keys_regenerated (e : Env) (o : Json.OutPoint) (w : List Bytes) (s : Bytes) (i : Json.TxIn)
    (x : Json.TxOut) (t : Json.Tx) :
    o.toDict.keys = Gen.Wire.JSON_OUTPOINT_KEYS.map String.toList ∧
    (witnessToDict w).keys = Gen.Wire.JSON_WITNESS_KEYS.map String.toList ∧
    (scriptToDict e s).keys = Gen.Wire.JSON_SCRIPT_KEYS.map String.toList ∧
    (i.toDict e).keys = Gen.Wire.JSON_TXIN_KEYS.map String.toList ∧
    (x.toDict e).keys = Gen.Wire.JSON_TXOUT_KEYS.map String.toList ∧
    (t.toDict e).keys = Gen.Wire.JSON_TX_KEYS.map String.toList := by
  simp only [Json.OutPoint.toDict, witnessToDict, scriptToDict, Json.TxIn.toDict, Json.TxOut.toDict, Json.Tx.toDict,
    J.keys, List.map_cons, List.map_nil]
  decide

-- upper-case hex and spaces between octets are read (and come back lower case); a bool is not an index; an
-- odd-length hex string, a missing key, an index above 2^32-1 (validity on) are refused -- and kept with it off
example : Json.OutPoint.fromDict true (.obj [(['t','x','i','d'], .str (List.replicate 32 'A' ++ [' '] ++ List.replicate 32 'b')),
      (['v','o','u','t'], .num 1)]) = .ok ⟨List.replicate 16 0xAA ++ List.replicate 16 0xBB, 1⟩ := by decide
example : hexOf [0xAB, 0x0f] = ['a', 'b', '0', 'f'] ∧ unhex ['A', 'B', ' ', '0', 'F'] = some [0xAB, 0x0f]
    ∧ unhex ['a', 'b', '0'] = none ∧ unhex ['a', ' ', 'b'] = none := by decide
example : Json.OutPoint.fromDict true (.obj [(['t','x','i','d'], .str (List.replicate 64 '0')), (['v','o','u','t'], .bool true)]) = .error .type
    ∧ Json.OutPoint.fromDict true (.obj [(['t','x','i','d'], .str (List.replicate 64 '0'))]) = .error .value
    ∧ Json.OutPoint.fromDict true (.obj [(['t','x','i','d'], .str (List.replicate 64 '0')), (['v','o','u','t'], .num 4294967296)]) = .error .value
    ∧ Json.OutPoint.fromDict false (.obj [(['t','x','i','d'], .str (List.replicate 64 '0')), (['v','o','u','t'], .num 4294967296)])
        = .ok ⟨List.replicate 32 0, 4294967296⟩
    ∧ Json.OutPoint.fromDict true (.arr []) = .error .type := by decide
example : (⟨List.replicate 32 7, 5⟩ : Json.OutPoint).Valid := by decide

end JsonForm

-- non-vacuity (CompactSize): the hypotheses are met by concrete non-trivial values on each width
example : Gen.VarInt.serialize 252 = .ok [252] := by decide
example : Gen.VarInt.serialize 253 = .ok [253, 253, 0] := by decide
example : Gen.VarInt.serialize 65536 = .ok [254, 0, 0, 1, 0] := by decide
example : parse [253, 252, 0] = .error .noncanonical := by decide
example : parse [254, 0, 0, 1, 0, 7] = .ok (65536, [7]) := by decide

end Props.C05
